(* IR/CheckSpec.v -- DECLARATIVE specifications of the self-contained sub-checkers of IR/Check.v,
   written over the node tree without following the checker's recursion (positions are given by
   the relation Path, occurrences by TypeOccurs / In ... (nodes p)):

     (a) TvClosed        every type variable used at a node is declared by the node or an ancestor   (code 24)
     (b) ScopesChecked   names unique within a block / a parameter list, local variables and
                         top-level declarations not reserved                                           (codes 21, 22)
         ScopesIntended  the same for EVERY declaration list and every declaration (what the text of
                         C05 asks; the reference checker examines only ScopesChecked)
     (c) BoundsRespected / DepProjOk   arguments of a type occurrence against the substituted bounds    (codes 28, 27)

   Specifications only: no proofs, no executable checkers. *)
From Coq Require Import List Arith Bool.
Import ListNotations.
From Heph Require Import Types.Syntax Types.Subst Types.Subtype Types.Decl Types.TableOk IR.Syntax IR.Check IR.CheckProofs.

(* ---------- positions ---------- *)

(* Path n path anc m: following the child indices  path  from n leads to m;  anc  lists the nodes passed
   on the way, n first, m itself excluded *)
Inductive Path : node -> list nat -> list node -> node -> Prop :=
| PHere n : Path n [] [] n
| PStep n i c path anc m :
    nth_error (kids_of n) i = Some c -> Path c path anc m -> Path n (i :: path) (n :: anc) m.

(* ---------- (a) type variables in scope ---------- *)

(* the type variable named x occurs in t (as the variable itself, in a bound, an argument or the bound
   of a projection; captured types never occur in serialised programs and are not looked into) *)
Inductive TvIn (x : nat) : ty -> Prop :=
| TvHere v b : TvIn x (TVar x v b)
| TvBound y v b : TvIn x b -> TvIn x (TVar y v (Some b))
| TvArg c l a : In a l -> TvIn x a -> TvIn x (TApp c l)
| TvWild v b : TvIn x b -> TvIn x (TWild v (Some b)).

(* node n uses x in one of its type attributes *)
Definition UsesTv (n : node) (x : nat) : Prop := exists t, In (Some t) (tys_of n) /\ TvIn x t.

(* node n declares the type parameter x: a class by its type attributes, a function by its type
   attributes after the two result types *)
Definition Declares (n : node) (x : nat) : Prop :=
  (kind_of n = kClassDecl /\ exists v b, In (Some (TVar x v b)) (tys_of n)) \/
  (kind_of n = kFuncDecl /\ exists v b, In (Some (TVar x v b)) (skipn 2 (tys_of n))).

Definition InScope (anc : list node) (m : node) (x : nat) : Prop :=
  exists a, In a (m :: anc) /\ Declares a x.

(* the position  path  of p (below the root; the root declares nothing and is not examined) holds a node
   that uses a type variable which neither the node nor one of its ancestors below the root declares *)
Definition TvEscapes (p : node) (path : list nat) : Prop :=
  exists anc m x, Path p path anc m /\ path <> [] /\ UsesTv m x /\ ~ InScope (tl anc) m x.

Definition TvClosed (p : node) : Prop :=
  forall path anc m x, Path p path anc m -> path <> [] -> UsesTv m x -> InScope (tl anc) m x.

(* ---------- (b) unique and non-reserved identifiers ---------- *)

(* no two members of l that satisfy P share a name *)
Definition DistinctNames (P : node -> Prop) (l : list node) : Prop :=
  forall i j a b, nth_error l i = Some a -> nth_error l j = Some b -> P a -> P b ->
                  name_of_node a = name_of_node b -> i = j.

Definition IsKind (k : nat) (n : node) : Prop := kind_of n = k.
Definition LocalDecl (n : node) : Prop := kind_of n = kVarDecl \/ kind_of n = kFuncDecl.
Definition TopDecl (n : node) : Prop := kind_of n = kClassDecl \/ kind_of n = kFuncDecl \/ kind_of n = kVarDecl.
Definition AnyDecl (n : node) : Prop :=
  kind_of n = kClassDecl \/ kind_of n = kFieldDecl \/ kind_of n = kFuncDecl \/ kind_of n = kParamDecl \/ kind_of n = kVarDecl.

(* the body of a function declaration: its children that are not parameters;  a block whose local declarations have
   distinct names and whose variables are not reserved *)
Definition body_of (f : node) : list node := filter (fun c => negb (Nat.eqb (kind_of c) kParamDecl)) (kids_of f).
Definition BlockOk (kw : list nat) (b : node) : Prop :=
  DistinctNames LocalDecl (kids_of b) /\ forall s, In s (kids_of b) -> kind_of s = kVarDecl -> ~ In (name_of_node s) kw.

(* what the reference checker examines *)
Record ScopesChecked (kw : list nat) (p : node) : Prop := {
  sc_block : forall n, In n (nodes p) -> kind_of n = kBlock -> DistinctNames LocalDecl (kids_of n);
  sc_params : forall n, In n (nodes p) -> kind_of n = kFuncDecl -> DistinctNames (IsKind kParamDecl) (kids_of n);
  sc_local_reserved : forall n s, In n (nodes p) -> kind_of n = kBlock -> In s (kids_of n) -> kind_of s = kVarDecl ->
                                  ~ In (name_of_node s) kw;
  sc_top_reserved : forall d, In d (kids_of p) -> TopDecl d -> ~ In (name_of_node d) kw
}.

(* what the property asks in addition: every declaration list, every declared name *)
Record ScopesExtra (kw : list nat) (p : node) : Prop := {
  se_fields : forall n, In n (nodes p) -> kind_of n = kClassDecl -> DistinctNames (IsKind kFieldDecl) (kids_of n);
  se_methods : forall n, In n (nodes p) -> kind_of n = kClassDecl -> DistinctNames (IsKind kFuncDecl) (kids_of n);
  se_lambda_params : forall n, In n (nodes p) -> kind_of n = kLambda -> DistinctNames (IsKind kParamDecl) (kids_of n);
  se_top_classes : DistinctNames (IsKind kClassDecl) (kids_of p);
  se_top_funcs : DistinctNames (IsKind kFuncDecl) (kids_of p);
  se_top_vars : DistinctNames (IsKind kVarDecl) (kids_of p);
  se_reserved : forall n, In n (nodes p) -> AnyDecl n -> ~ In (name_of_node n) kw
}.

Definition ScopesIntended (kw : list nat) (p : node) : Prop := ScopesChecked kw p /\ ScopesExtra kw p.

(* ---------- (c) bounds of type occurrences ---------- *)

Section Bounds.
  Context (strict : bool) (L : lang) (w : world) (cs : list cls).

  (* the answer of the checker's assignability question "a fits b", exactly: the proved reference relation says
     yes; or it does not know and the mode is lenient; or it says no but the implementation's own (modelled)
     is_assignable accepts.  A star-projected sink is only accepted in lenient mode. *)
  Definition Justified (a b : ty) : Prop :=
    match norm_expected (Some b) with
    | None => strict = false
    | Some b' =>
        sub_ref w 40 [] (lhs L a) (rhs L b') = Yes \/
        (sub_ref w 40 [] (lhs L a) (rhs L b') = Unk /\ strict = false) \/
        (sub_ref w 40 [] (lhs L a) (rhs L b') = No /\ is_assignable w 40 (lhs L a) (rhs L b') = Rt)
    end.

  (* an argument against the substituted bound: a concrete argument fits it, the lower bound of  in L  fits it,
     other projections are not judged *)
  Definition ArgWithin (a b' : ty) : Prop :=
    match a with
    | TWild Contra (Some l) => Justified l b'
    | TWild _ _ => True
    | _ => Justified a b'
    end.

  (* code 28: for an occurrence  C<args>  of a class of the program with the right number of arguments, every
     argument whose parameter has a bound that mentions no parameter instantiated by a projection is within
     that bound, the other arguments substituted *)
  Definition BoundsRespected (t : ty) : Prop :=
    forall c args cl, t = TApp c args -> find_cls cs c = Some cl ->
      List.length (cl_tparams cl) = List.length args ->
      forall i p a b, nth_error (cl_tparams cl) i = Some p -> nth_error args i = Some a -> tvar_bound p = Some b ->
        (forall j q a', nth_error (cl_tparams cl) j = Some q -> nth_error args j = Some a' ->
                        is_wild a' = true -> occurs q b = false) ->
        ArgWithin a (subst false (mk_map (cl_tparams cl) args) b).

  (* code 8: explicit type arguments of a constructor / generic call against the bounds of the type parameters
     (m0: the substitution of the receiver's class parameters); projections are not judged *)
  Definition TargsWithin (tparams targs : list ty) (m0 : list (ty * ty)) : Prop :=
    forall i p a b, nth_error tparams i = Some p -> nth_error targs i = Some a -> tvar_bound p = Some b ->
                    is_wild a = false -> Justified a (subst false (mk_map tparams targs ++ m0) b).

  (* code 27: no bounded projection on a parameter X while another parameter whose bound IS X has a concrete argument *)
  Definition DepProjOk (t : ty) : Prop :=
    forall c args cl, t = TApp c args -> find_cls cs c = Some cl ->
      List.length (cl_tparams cl) = List.length args ->
      forall i x vi bi v bd, nth_error (cl_tparams cl) i = Some (TVar x vi bi) ->
                             nth_error args i = Some (TWild v (Some bd)) ->
      forall j y vj vb bb aj, nth_error (cl_tparams cl) j = Some (TVar y vj (Some (TVar x vb bb))) ->
                              nth_error args j = Some aj -> is_wild aj = true.
End Bounds.
