(* Context/ProofsODict.v -- lemma library for the ordered dictionaries of Context/Model.v. *)
From Coq Require Import List Arith Bool Lia.
Import ListNotations.
From Heph Require Import Context.Model.

(* ------------------------------------------------------------------ *)
(* generic list facts                                                  *)
(* ------------------------------------------------------------------ *)

Lemma NoDup_snoc : forall (A : Type) (l : list A) (x : A),
  NoDup l -> ~ In x l -> NoDup (l ++ [x]).
Proof.
  intros A l x Hnd. induction Hnd as [|a l Hna Hnd IH]; intros Hx; simpl.
  - constructor; [intros [] | constructor].
  - constructor.
    + intros Hin. apply in_app_or in Hin. destruct Hin as [Hin|Hin].
      * contradiction.
      * simpl in Hin. destruct Hin as [Heq|[]]. apply Hx. left. symmetry. exact Heq.
    + apply IH. intros Hin. apply Hx. right. exact Hin.
Qed.

(* ------------------------------------------------------------------ *)
(* dictionaries whose key equality test reflects Leibniz equality      *)
(* ------------------------------------------------------------------ *)
Section ODictEq.
  Context {K V : Type} (keqb : K -> K -> bool).
  Hypothesis keqb_spec : forall a b, keqb a b = true <-> a = b.

  Lemma keqb_refl : forall a, keqb a a = true.
  Proof. intros a. apply keqb_spec. reflexivity. Qed.

  Lemma keqb_neq : forall a b, keqb a b = false <-> a <> b.
  Proof.
    intros a b. split.
    - intros Hf Heq. apply keqb_spec in Heq. congruence.
    - intros Hne. destruct (keqb a b) eqn:E; [apply keqb_spec in E; contradiction | reflexivity].
  Qed.

  Lemma keqb_sym_false : forall a b, keqb a b = false -> keqb b a = false.
  Proof.
    intros a b Hf. apply keqb_neq. apply keqb_neq in Hf. congruence.
  Qed.

  Lemma existsb_keqb_in : forall k l, existsb (keqb k) l = true <-> In k l.
  Proof.
    intros k l. rewrite existsb_exists. split.
    - intros [x [Hin Heq]]. apply keqb_spec in Heq. subst x. exact Hin.
    - intros Hin. exists k. split; [exact Hin | apply keqb_refl].
  Qed.

  Lemma existsb_keqb_notin : forall k l, existsb (keqb k) l = false <-> ~ In k l.
  Proof.
    intros k l. split.
    - intros Hf Hin. apply existsb_keqb_in in Hin. congruence.
    - intros Hn. destruct (existsb (keqb k) l) eqn:E; [|reflexivity].
      apply existsb_keqb_in in E. contradiction.
  Qed.

  Lemma od_get_none_iff : forall (d : list (K * V)) k,
    od_get keqb d k = None <-> ~ In k (map fst d).
  Proof.
    induction d as [|[e w] d IH]; intros k; simpl.
    - split; [intros _ [] | reflexivity].
    - destruct (keqb e k) eqn:E.
      + apply keqb_spec in E. subst e. split; [discriminate | intros Hn; exfalso; apply Hn; left; reflexivity].
      + apply keqb_neq in E. rewrite IH. split.
        * intros Hn [Heq|Hin]; [contradiction | contradiction].
        * intros Hn Hin. apply Hn. right. exact Hin.
  Qed.

  Lemma keys_in_dec : forall (l : list K) k, In k l \/ ~ In k l.
  Proof.
    intros l k. destruct (existsb (keqb k) l) eqn:E.
    - left. apply existsb_keqb_in. exact E.
    - right. apply existsb_keqb_notin. exact E.
  Qed.

  Lemma od_get_in_iff : forall (d : list (K * V)) k,
    In k (map fst d) <-> od_get keqb d k <> None.
  Proof.
    intros d k. split.
    - intros Hin Hn. apply od_get_none_iff in Hn. contradiction.
    - intros Hne. destruct (keys_in_dec (map fst d) k) as [Hin|Hnin]; [exact Hin|].
      apply od_get_none_iff in Hnin. contradiction.
  Qed.

  Lemma od_get_some_in : forall (d : list (K * V)) k v,
    od_get keqb d k = Some v -> In k (map fst d).
  Proof.
    intros d k v Hg. apply od_get_in_iff. congruence.
  Qed.

  Lemma od_get_set : forall (d : list (K * V)) k v k',
    od_get keqb (od_set keqb d k v) k' = if keqb k k' then Some v else od_get keqb d k'.
  Proof.
    induction d as [|[e w] d IH]; intros k v k'; simpl.
    - reflexivity.
    - destruct (keqb e k) eqn:Eek.
      + apply keqb_spec in Eek. subst e. simpl. destruct (keqb k k'); reflexivity.
      + simpl. destruct (keqb e k') eqn:Eek'.
        * apply keqb_spec in Eek'. subst k'.
          rewrite (keqb_sym_false _ _ Eek). reflexivity.
        * apply IH.
  Qed.

  Lemma od_del_absent : forall (d : list (K * V)) k,
    od_get keqb d k = None -> od_del keqb d k = d.
  Proof.
    induction d as [|[e w] d IH]; intros k Hg; simpl in *.
    - reflexivity.
    - destruct (keqb e k); [discriminate|]. rewrite IH by exact Hg. reflexivity.
  Qed.

  Lemma od_get_del : forall (d : list (K * V)) k k',
    NoDup (map fst d) ->
    od_get keqb (od_del keqb d k) k' = if keqb k k' then None else od_get keqb d k'.
  Proof.
    induction d as [|[e w] d IH]; intros k k' Hnd; simpl.
    - destruct (keqb k k'); reflexivity.
    - simpl in Hnd. inversion Hnd as [|x l Hnin Hnd']; subst.
      destruct (keqb e k) eqn:Eek.
      + apply keqb_spec in Eek. subst e.
        destruct (keqb k k') eqn:Ekk'.
        * apply keqb_spec in Ekk'. subst k'. apply od_get_none_iff. exact Hnin.
        * reflexivity.
      + simpl. destruct (keqb e k') eqn:Eek'.
        * apply keqb_spec in Eek'. subst k'.
          rewrite (keqb_sym_false _ _ Eek). reflexivity.
        * apply IH. exact Hnd'.
  Qed.

  Lemma keys_set : forall (d : list (K * V)) k v,
    map fst (od_set keqb d k v) =
    if existsb (keqb k) (map fst d) then map fst d else map fst d ++ [k].
  Proof.
    induction d as [|[e w] d IH]; intros k v; simpl.
    - reflexivity.
    - destruct (keqb e k) eqn:Eek.
      + apply keqb_spec in Eek. subst e. rewrite keqb_refl. simpl. reflexivity.
      + rewrite (keqb_sym_false _ _ Eek). simpl. rewrite IH.
        destruct (existsb (keqb k) (map fst d)); reflexivity.
  Qed.

  Lemma filter_neq_id : forall (l : list K) k,
    ~ In k l -> filter (fun x => negb (keqb x k)) l = l.
  Proof.
    induction l as [|a l IH]; intros k Hn; simpl.
    - reflexivity.
    - assert (Hak : keqb a k = false).
      { apply keqb_neq. intros Heq. apply Hn. left. exact Heq. }
      rewrite Hak. simpl. rewrite IH; [reflexivity|].
      intros Hin. apply Hn. right. exact Hin.
  Qed.

  Lemma keys_del : forall (d : list (K * V)) k,
    NoDup (map fst d) ->
    map fst (od_del keqb d k) = filter (fun x => negb (keqb x k)) (map fst d).
  Proof.
    induction d as [|[e w] d IH]; intros k Hnd; simpl.
    - reflexivity.
    - simpl in Hnd. inversion Hnd as [|x l Hnin Hnd']; subst.
      destruct (keqb e k) eqn:Eek; simpl.
      + apply keqb_spec in Eek. subst e. symmetry. apply filter_neq_id. exact Hnin.
      + rewrite IH by exact Hnd'. reflexivity.
  Qed.

  Lemma in_keys_set : forall (d : list (K * V)) k v x,
    In x (map fst (od_set keqb d k v)) <-> x = k \/ In x (map fst d).
  Proof.
    intros d k v x. rewrite keys_set.
    destruct (existsb (keqb k) (map fst d)) eqn:E.
    - apply existsb_keqb_in in E. split.
      + intros Hin. right. exact Hin.
      + intros [Heq|Hin]; [subst x; exact E | exact Hin].
    - rewrite in_app_iff. simpl. split.
      + intros [Hin|[Heq|[]]]; [right; exact Hin | left; symmetry; exact Heq].
      + intros [Heq|Hin]; [right; left; symmetry; exact Heq | left; exact Hin].
  Qed.

  Lemma nodup_set : forall (d : list (K * V)) k v,
    NoDup (map fst d) -> NoDup (map fst (od_set keqb d k v)).
  Proof.
    intros d k v Hnd. rewrite keys_set.
    destruct (existsb (keqb k) (map fst d)) eqn:E.
    - exact Hnd.
    - apply NoDup_snoc; [exact Hnd|]. apply existsb_keqb_notin. exact E.
  Qed.

  Lemma nodup_del : forall (d : list (K * V)) k,
    NoDup (map fst d) -> NoDup (map fst (od_del keqb d k)).
  Proof.
    intros d k Hnd. rewrite keys_del by exact Hnd. apply NoDup_filter. exact Hnd.
  Qed.

  (* ---- update ---- *)

  Lemma od_update_nil : forall (d : list (K * V)), od_update keqb d [] = d.
  Proof. reflexivity. Qed.

  Lemma od_update_cons : forall (d e : list (K * V)) a w,
    od_update keqb d ((a, w) :: e) = od_update keqb (od_set keqb d a w) e.
  Proof. reflexivity. Qed.

  Lemma od_get_update : forall (e d : list (K * V)) k,
    NoDup (map fst e) ->
    od_get keqb (od_update keqb d e) k =
    match od_get keqb e k with Some v => Some v | None => od_get keqb d k end.
  Proof.
    induction e as [|[a w] e IH]; intros d k Hnd.
    - reflexivity.
    - simpl in Hnd. inversion Hnd as [|x l Hnin Hnd']; subst.
      rewrite od_update_cons. rewrite IH by exact Hnd'. rewrite od_get_set. simpl.
      destruct (keqb a k) eqn:Eak.
      + apply keqb_spec in Eak. subst a.
        apply od_get_none_iff in Hnin. rewrite Hnin. reflexivity.
      + reflexivity.
  Qed.

  Lemma in_keys_update : forall (e d : list (K * V)) x,
    In x (map fst (od_update keqb d e)) <-> In x (map fst d) \/ In x (map fst e).
  Proof.
    induction e as [|[a w] e IH]; intros d x.
    - simpl. split; [intros Hin; left; exact Hin | intros [Hin|[]]; exact Hin].
    - rewrite od_update_cons. rewrite IH. rewrite in_keys_set. simpl. split.
      + intros [[Heq|Hin]|Hin].
        * right. left. symmetry. exact Heq.
        * left. exact Hin.
        * right. right. exact Hin.
      + intros [Hin|[Heq|Hin]].
        * left. right. exact Hin.
        * left. left. symmetry. exact Heq.
        * right. exact Hin.
  Qed.

  Lemma nodup_update : forall (e d : list (K * V)),
    NoDup (map fst d) -> NoDup (map fst (od_update keqb d e)).
  Proof.
    induction e as [|[a w] e IH]; intros d Hnd.
    - exact Hnd.
    - rewrite od_update_cons. apply IH. apply nodup_set. exact Hnd.
  Qed.
End ODictEq.

(* ------------------------------------------------------------------ *)
(* dictionaries whose key test is only a (partial) equivalence         *)
(* ------------------------------------------------------------------ *)
Section ODictPER.
  Context {K V : Type} (keqb : K -> K -> bool).
  Hypothesis keqb_sym : forall a b, keqb a b = keqb b a.
  Hypothesis keqb_trans : forall a b c, keqb a b = true -> keqb b c = true -> keqb a c = true.

  Lemma per_get_set_eq : forall (d : list (K * V)) k v k',
    keqb k k' = true -> od_get keqb (od_set keqb d k v) k' = Some v.
  Proof.
    induction d as [|[e w] d IH]; intros k v k' Hkk'; simpl.
    - rewrite Hkk'. reflexivity.
    - destruct (keqb e k) eqn:Eek; simpl.
      + rewrite (keqb_trans _ _ _ Eek Hkk'). reflexivity.
      + destruct (keqb e k') eqn:Eek'.
        * exfalso. rewrite keqb_sym in Hkk'.
          rewrite (keqb_trans _ _ _ Eek' Hkk') in Eek. discriminate.
        * apply IH. exact Hkk'.
  Qed.

  Lemma per_get_set_neq : forall (d : list (K * V)) k v k',
    keqb k k' = false -> od_get keqb (od_set keqb d k v) k' = od_get keqb d k'.
  Proof.
    induction d as [|[e w] d IH]; intros k v k' Hkk'; simpl.
    - rewrite Hkk'. reflexivity.
    - destruct (keqb e k) eqn:Eek; simpl.
      + destruct (keqb e k') eqn:Eek'; [|reflexivity].
        exfalso. rewrite keqb_sym in Eek.
        rewrite (keqb_trans _ _ _ Eek Eek') in Hkk'. discriminate.
      + destruct (keqb e k'); [reflexivity|]. apply IH. exact Hkk'.
  Qed.

  Lemma per_get_del_neq : forall (d : list (K * V)) k k',
    keqb k k' = false -> od_get keqb (od_del keqb d k) k' = od_get keqb d k'.
  Proof.
    induction d as [|[e w] d IH]; intros k k' Hkk'; simpl.
    - reflexivity.
    - destruct (keqb e k) eqn:Eek; simpl.
      + destruct (keqb e k') eqn:Eek'; [|reflexivity].
        exfalso. rewrite keqb_sym in Eek.
        rewrite (keqb_trans _ _ _ Eek Eek') in Hkk'. discriminate.
      + destruct (keqb e k'); [reflexivity|]. apply IH. exact Hkk'.
  Qed.
End ODictPER.

(* ------------------------------------------------------------------ *)
(* the concrete key tests                                              *)
(* ------------------------------------------------------------------ *)

Lemma nat_eqb_spec : forall a b : nat, Nat.eqb a b = true <-> a = b.
Proof. exact Nat.eqb_eq. Qed.

Lemma ns_eqb_spec : forall a b : ns, ns_eqb a b = true <-> a = b.
Proof.
  induction a as [|x a IH]; intros [|y b]; simpl.
  - split; reflexivity.
  - split; discriminate.
  - split; discriminate.
  - rewrite andb_true_iff, Nat.eqb_eq, IH. split.
    + intros [Hx Ha]. subst. reflexivity.
    + intros Heq. inversion Heq. split; reflexivity.
Qed.

Lemma ns_eqb_refl : forall a, ns_eqb a a = true.
Proof. intros a. apply ns_eqb_spec. reflexivity. Qed.

Lemma val_eqb_refl : forall a, val_eqb a a = true.
Proof. intros [[i b]|]; simpl; [apply Nat.eqb_refl | reflexivity]. Qed.

Lemma val_eqb_sym : forall a b, val_eqb a b = val_eqb b a.
Proof.
  intros [[i b]|] [[j c]|]; simpl; try reflexivity. apply Nat.eqb_sym.
Qed.

Lemma val_eqb_trans : forall a b c, val_eqb a b = true -> val_eqb b c = true -> val_eqb a c = true.
Proof.
  intros [[i b]|] [[j c]|] [[l e]|]; simpl; try discriminate; try reflexivity.
  intros H1 H2. apply Nat.eqb_eq in H1. apply Nat.eqb_eq in H2. apply Nat.eqb_eq. congruence.
Qed.

(* ------------------------------------------------------------------ *)
(* drop_none                                                           *)
(* ------------------------------------------------------------------ *)

Lemma od_get_drop_none : forall (d : edict) nm,
  NoDup (map fst d) ->
  od_get Nat.eqb (drop_none d) nm =
  match od_get Nat.eqb d nm with Some (Some o) => Some (Some o) | _ => None end.
Proof.
  induction d as [|[e w] d IH]; intros nm Hnd; simpl.
  - reflexivity.
  - simpl in Hnd. inversion Hnd as [|x l Hnin Hnd']; subst.
    destruct w as [o|]; simpl.
    + destruct (Nat.eqb e nm); [reflexivity | apply IH; exact Hnd'].
    + rewrite IH by exact Hnd'. destruct (Nat.eqb e nm) eqn:E; [|reflexivity].
      apply Nat.eqb_eq in E. subst e.
      apply (od_get_none_iff Nat.eqb nat_eqb_spec) in Hnin. rewrite Hnin. reflexivity.
Qed.
