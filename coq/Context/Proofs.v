(* Context/Proofs.v -- the model's queries refine the history-based specification. *)
From Coq Require Import List Arith Bool Lia.
Import ListNotations.
From Heph Require Import Context.Model Context.Spec Context.ProofsODict.

Lemma run_nil : run [] = init.
Proof. reflexivity. Qed.

(* abbreviations for the instantiated dictionary lemmas *)
Definition nget_set := @od_get_set nat val Nat.eqb nat_eqb_spec.
Definition nget_del := @od_get_del nat val Nat.eqb nat_eqb_spec.
Definition nkeys_set := @keys_set nat val Nat.eqb nat_eqb_spec.
Definition nkeys_del := @keys_del nat val Nat.eqb nat_eqb_spec.

Lemma kind_eqb_spec : forall a b, kind_eqb a b = true <-> a = b.
Proof. intros [] []; simpl; split; intros H; try reflexivity; try discriminate. Qed.

(* ------------------------------------------------------------------ *)
(* history snoc lemmas                                                 *)
(* ------------------------------------------------------------------ *)

Lemma run_snoc : forall h o, run (h ++ [o]) = step (run h) o.
Proof. intros h o. unfold run. rewrite fold_left_app. reflexivity. Qed.

Lemma run_app : forall h1 h2, run (h1 ++ h2) = fold_left step h2 (run h1).
Proof. intros h1 h2. unfold run. apply fold_left_app. Qed.

Lemma live_snoc : forall h o k n nm,
  live (h ++ [o]) k n nm = match effect o k n nm with Some r => r | None => live h k n nm end.
Proof. intros h o k n nm. unfold live. rewrite fold_left_app. reflexivity. Qed.

Lemma order_snoc : forall h o k n, order (h ++ [o]) k n = order_step k n (order h k n) o.
Proof. intros h o k n. unfold order. rewrite fold_left_app. reflexivity. Qed.

(* ------------------------------------------------------------------ *)
(* a uniform view of operations                                        *)
(* ------------------------------------------------------------------ *)

Inductive opv :=
| VAdd (p : kind) (n : ns) (nm : name) (v : val)
| VRem (p : kind) (n : ns) (nm : name)
| VNs (n : ns).

Definition view (o : op) : opv :=
  match o with
  | AddType n nm v => VAdd Types n nm v
  | AddFunc n nm v => VAdd Funcs n nm v
  | AddLambda n nm v => VAdd Lambdas n nm v
  | AddVar n nm v => VAdd Vars n nm v
  | AddClass n nm v => VAdd Classes n nm v
  | RemType n nm => VRem Types n nm
  | RemFunc n nm => VRem Funcs n nm
  | RemLambda n nm => VRem Lambdas n nm
  | RemVar n nm => VRem Vars n nm
  | RemClass n nm => VRem Classes n nm
  | RemNs n => VNs n
  end.

Lemma effect_view : forall o k n nm,
  effect o k n nm =
  match view o with
  | VAdd p n' nm' v => if writes p k && ns_eqb n' n && Nat.eqb nm' nm then Some (Some v) else None
  | VRem p n' nm' => if writes p k && ns_eqb n' n && Nat.eqb nm' nm then Some None else None
  | VNs n' => if ns_eqb n' n then Some None else None
  end.
Proof. intros [] k n0 nm0; reflexivity. Qed.

Lemma order_step_view : forall o k n acc,
  order_step k n acc o =
  match view o with
  | VAdd p n' nm v =>
      if writes p k && ns_eqb n' n
      then (if existsb (Nat.eqb nm) acc then acc else acc ++ [nm]) else acc
  | VRem p n' nm =>
      if writes p k && ns_eqb n' n then filter (fun x => negb (Nat.eqb x nm)) acc else acc
  | VNs n' => if ns_eqb n' n then [] else acc
  end.
Proof.
  intros [] k n0 acc; simpl; try reflexivity;
    unfold effect; rewrite Nat.eqb_refl, andb_true_r;
    match goal with |- context [writes ?p k && ns_eqb ?a ?b] =>
      destruct (writes p k && ns_eqb a b) end; reflexivity.
Qed.

(* ------------------------------------------------------------------ *)
(* cur after the primitive mutators                                    *)
(* ------------------------------------------------------------------ *)

Lemma get_set_ent : forall k k' d e,
  get_ent k' (set_ent k d e) = if kind_eqb k k' then d else get_ent k' e.
Proof. intros [] [] d e; reflexivity. Qed.

Lemma cur_add : forall s n k nm v n' k',
  cur (add_entity s n k nm v) n' k' =
  if ns_eqb n n' && kind_eqb k k' then od_set Nat.eqb (cur s n' k') nm v else cur s n' k'.
Proof.
  intros s n k nm v n' k'. unfold add_entity, cur, ents_of, ctx_get. simpl.
  rewrite (od_get_set ns_eqb ns_eqb_spec).
  destruct (ns_eqb n n') eqn:En; simpl.
  - apply ns_eqb_spec in En. subst n'. rewrite get_set_ent.
    destruct (kind_eqb k k') eqn:Ek.
    + apply kind_eqb_spec in Ek. subst k'.
      destruct (od_get ns_eqb (ctx s) n); [reflexivity|]. destruct k; reflexivity.
    + destruct (od_get ns_eqb (ctx s) n); [reflexivity|]. destruct k'; reflexivity.
  - reflexivity.
Qed.

Lemma cur_rem : forall s n k nm n' k',
  cur (remove_entity s n k nm) n' k' =
  if ns_eqb n n' && kind_eqb k k' then od_del Nat.eqb (cur s n' k') nm else cur s n' k'.
Proof.
  intros s n k nm n' k'. unfold remove_entity, ctx_get.
  destruct (od_get ns_eqb (ctx s) n) as [e|] eqn:Ee.
  - destruct (od_get Nat.eqb (get_ent k e) nm) as [decl|] eqn:Ed.
    + unfold cur, ents_of, ctx_get. simpl.
      rewrite (od_get_set ns_eqb ns_eqb_spec).
      destruct (ns_eqb n n') eqn:En; simpl; [|reflexivity].
      apply ns_eqb_spec in En. subst n'. rewrite get_set_ent. rewrite Ee.
      destruct (kind_eqb k k') eqn:Ek; [|reflexivity].
      apply kind_eqb_spec in Ek. subst k'. reflexivity.
    + destruct (ns_eqb n n') eqn:En; simpl; [|reflexivity].
      apply ns_eqb_spec in En. subst n'.
      destruct (kind_eqb k k') eqn:Ek; [|reflexivity].
      apply kind_eqb_spec in Ek. subst k'.
      unfold cur, ents_of, ctx_get. rewrite Ee.
      symmetry. apply (od_del_absent Nat.eqb). exact Ed.
  - destruct (ns_eqb n n') eqn:En; simpl; [|reflexivity].
    apply ns_eqb_spec in En. subst n'.
    destruct (kind_eqb k k'); [|reflexivity].
    unfold cur, ents_of, ctx_get. rewrite Ee. reflexivity.
Qed.

Lemma cur_remns : forall s n n' k,
  NoDup (map fst (ctx s)) ->
  cur {| ctx := od_del ns_eqb (ctx s) n; rev := rev s |} n' k =
  if ns_eqb n n' then [] else cur s n' k.
Proof.
  intros s n n' k Hnd. unfold cur, ents_of, ctx_get. simpl.
  rewrite (od_get_del ns_eqb ns_eqb_spec) by exact Hnd.
  destruct (ns_eqb n n'); reflexivity.
Qed.

(* the per-cell transformer of one operation *)
Definition dstep (o : op) (k : kind) (n : ns) (d : edict) : edict :=
  match view o with
  | VAdd p n' nm v => if writes p k && ns_eqb n' n then od_set Nat.eqb d nm v else d
  | VRem p n' nm => if writes p k && ns_eqb n' n then od_del Nat.eqb d nm else d
  | VNs n' => if ns_eqb n' n then [] else d
  end.

Lemma cur_step : forall s o n k,
  NoDup (map fst (ctx s)) ->
  cur (step s o) n k = dstep o k n (cur s n k).
Proof.
  intros s o n k Hnd. unfold dstep.
  destruct o as [n0 nm v|n0 nm v|n0 nm v|n0 nm v|n0 nm v|n0 nm|n0 nm|n0 nm|n0 nm|n0 nm|n0]; simpl;
    try (apply cur_remns; exact Hnd);
    repeat rewrite cur_add; repeat rewrite cur_rem;
    unfold writes; destruct (ns_eqb n0 n); destruct k; reflexivity.
Qed.

(* ------------------------------------------------------------------ *)
(* well-formedness: no duplicate keys anywhere                         *)
(* ------------------------------------------------------------------ *)

Definition wf (s : state) : Prop :=
  NoDup (map fst (ctx s)) /\ forall n k, NoDup (map fst (cur s n k)).

Lemma wf_init : wf init.
Proof. split; [constructor | intros n k; constructor]. Qed.

Lemma ctx_nodup_add : forall s n k nm v,
  NoDup (map fst (ctx s)) -> NoDup (map fst (ctx (add_entity s n k nm v))).
Proof.
  intros s n k nm v Hnd. unfold add_entity. simpl.
  apply (nodup_set ns_eqb ns_eqb_spec). exact Hnd.
Qed.

Lemma ctx_nodup_rem : forall s n k nm,
  NoDup (map fst (ctx s)) -> NoDup (map fst (ctx (remove_entity s n k nm))).
Proof.
  intros s n k nm Hnd. unfold remove_entity.
  destruct (ctx_get s n) as [e|]; [|exact Hnd].
  destruct (od_get Nat.eqb (get_ent k e) nm); [|exact Hnd].
  simpl. apply (nodup_set ns_eqb ns_eqb_spec). exact Hnd.
Qed.

Lemma ctx_nodup_step : forall s o,
  NoDup (map fst (ctx s)) -> NoDup (map fst (ctx (step s o))).
Proof.
  intros s o Hnd. destruct o; unfold step;
    repeat first [apply ctx_nodup_add | apply ctx_nodup_rem]; try exact Hnd.
  simpl. apply (nodup_del ns_eqb ns_eqb_spec). exact Hnd.
Qed.

Lemma dstep_nodup : forall o k n d, NoDup (map fst d) -> NoDup (map fst (dstep o k n d)).
Proof.
  intros o k n d Hnd. unfold dstep. destruct (view o) as [p n' nm v|p n' nm|n'].
  - destruct (writes p k && ns_eqb n' n); [|exact Hnd].
    apply (nodup_set Nat.eqb nat_eqb_spec). exact Hnd.
  - destruct (writes p k && ns_eqb n' n); [|exact Hnd].
    apply (nodup_del Nat.eqb nat_eqb_spec). exact Hnd.
  - destruct (ns_eqb n' n); [constructor | exact Hnd].
Qed.

Lemma wf_step : forall s o, wf s -> wf (step s o).
Proof.
  intros s o [Hc Hd]. split.
  - apply ctx_nodup_step. exact Hc.
  - intros n k. rewrite cur_step by exact Hc. apply dstep_nodup. apply Hd.
Qed.

Lemma wf_fold : forall h s, wf s -> wf (fold_left step h s).
Proof.
  induction h as [|o h IH]; intros s Hwf; simpl.
  - exact Hwf.
  - apply IH. apply wf_step. exact Hwf.
Qed.

Lemma wf_run : forall h, wf (run h).
Proof. intros h. unfold run. apply wf_fold. apply wf_init. Qed.

(* ------------------------------------------------------------------ *)
(* single-step characterisations                                       *)
(* ------------------------------------------------------------------ *)

Lemma get_step : forall s o n k nm,
  wf s ->
  od_get Nat.eqb (cur (step s o) n k) nm =
  match effect o k n nm with Some r => r | None => od_get Nat.eqb (cur s n k) nm end.
Proof.
  intros s o n k nm [Hc Hd]. rewrite cur_step by exact Hc.
  rewrite effect_view. unfold dstep.
  destruct (view o) as [p n' nm' v|p n' nm'|n'].
  - destruct (writes p k && ns_eqb n' n); simpl; [|reflexivity].
    rewrite nget_set. destruct (Nat.eqb nm' nm); reflexivity.
  - destruct (writes p k && ns_eqb n' n); simpl; [|reflexivity].
    rewrite nget_del by apply Hd. destruct (Nat.eqb nm' nm); reflexivity.
  - destruct (ns_eqb n' n); reflexivity.
Qed.

Lemma keys_step : forall s o n k,
  wf s ->
  map fst (cur (step s o) n k) = order_step k n (map fst (cur s n k)) o.
Proof.
  intros s o n k [Hc Hd]. rewrite cur_step by exact Hc.
  rewrite order_step_view. unfold dstep.
  destruct (view o) as [p n' nm' v|p n' nm'|n'].
  - destruct (writes p k && ns_eqb n' n); [|reflexivity]. apply nkeys_set.
  - destruct (writes p k && ns_eqb n' n); [|reflexivity]. apply nkeys_del. apply Hd.
  - destruct (ns_eqb n' n); reflexivity.
Qed.

(* ------------------------------------------------------------------ *)
(* T1, T2, T2b, T3                                                     *)
(* ------------------------------------------------------------------ *)

Lemma current_lookup_pf : forall h k n nm,
  od_get Nat.eqb (cur (run h) n k) nm = live h k n nm.
Proof.
  induction h as [|o h IH] using rev_ind; intros k n nm.
  - reflexivity.
  - rewrite run_snoc, live_snoc. rewrite get_step by apply wf_run.
    rewrite IH. reflexivity.
Qed.

Lemma current_order_pf : forall h k n, map fst (cur (run h) n k) = order h k n.
Proof.
  induction h as [|o h IH] using rev_ind; intros k n.
  - reflexivity.
  - rewrite run_snoc, order_snoc. rewrite keys_step by apply wf_run.
    rewrite IH. reflexivity.
Qed.

Lemma order_nodup_pf : forall h k n, NoDup (order h k n).
Proof.
  intros h k n. rewrite <- current_order_pf. apply (wf_run h).
Qed.

Lemma current_query_pf : forall h k n, n <> [] ->
  exists d, get_declarations (run h) n k true false true = QOk d /\
            map fst d = order h k n /\
            forall nm, od_get Nat.eqb d nm = live h k n nm.
Proof.
  intros h k n Hn. exists (cur (run h) n k). split; [|split].
  - destruct n as [|x n]; [contradiction|].
    unfold get_declarations. rewrite orb_true_r. reflexivity.
  - apply current_order_pf.
  - intros nm. apply current_lookup_pf.
Qed.

(* ------------------------------------------------------------------ *)
(* T4b                                                                 *)
(* ------------------------------------------------------------------ *)

Lemma hide_none_pf : forall s n k oc gl d,
  get_declarations s n k oc gl true = QOk d ->
  get_declarations s n k oc gl false = QOk (drop_none d).
Proof.
  intros s n k oc gl d. unfold get_declarations.
  destruct n as [|x n]; [discriminate|].
  destruct (if gl then declarations_glob s (x :: n) k
            else if (Nat.eqb (length (x :: n)) 1) || oc then Some (cur s (x :: n) k)
                 else Some (declarations_path s (x :: n) k)) as [d0|].
  - intros Heq. inversion Heq. reflexivity.
  - discriminate.
Qed.

(* ------------------------------------------------------------------ *)
(* T8                                                                  *)
(* ------------------------------------------------------------------ *)

Lemma remove_local_pf : forall h p n nm o,
  (o = match p with
       | Types => RemType n nm | Funcs => RemFunc n nm | Lambdas => RemLambda n nm
       | Vars => RemVar n nm | Classes => RemClass n nm | Decls => RemVar n nm end) ->
  (forall k, writes (match p with Decls => Vars | x => x end) k = true ->
             live (h ++ [o]) k n nm = None) /\
  (forall k n' nm',
      (writes (match p with Decls => Vars | x => x end) k = false \/ n' <> n \/ nm' <> nm) ->
      live (h ++ [o]) k n' nm' = live h k n' nm').
Proof.
  intros h p n nm o Ho.
  assert (Hv : view o = VRem (match p with Decls => Vars | x => x end) n nm).
  { subst o. destruct p; reflexivity. }
  split.
  - intros k Hw. rewrite live_snoc, effect_view, Hv, Hw, ns_eqb_refl, Nat.eqb_refl.
    reflexivity.
  - intros k n' nm' Hor. rewrite live_snoc, effect_view, Hv.
    destruct Hor as [Hw|[Hn|Hnm]].
    + rewrite Hw. reflexivity.
    + assert (E : ns_eqb n n' = false).
      { apply (keqb_neq ns_eqb ns_eqb_spec). congruence. }
      rewrite E, andb_false_r. reflexivity.
    + assert (E : Nat.eqb nm nm' = false).
      { apply Nat.eqb_neq. congruence. }
      rewrite E, andb_false_r. reflexivity.
Qed.
