From Coq Require Import List Arith Bool Lia.
Import ListNotations.
From Heph Require Import Context.Model Context.Spec.

Lemma run_nil : run [] = init.
Proof. reflexivity. Qed.
