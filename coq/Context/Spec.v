(* Context/Spec.v -- the scoped-map specification, phrased over the HISTORY of operations
   (not over the model's state), plus the reachability relation of global queries. *)
From Coq Require Import List Arith Bool.
Import ListNotations.
From Heph Require Import Context.Model.

Definition kind_eqb (a b : kind) : bool :=
  match a, b with
  | Types, Types | Funcs, Funcs | Lambdas, Lambdas | Vars, Vars | Classes, Classes | Decls, Decls => true
  | _, _ => false
  end.

(* which entity maps an operation writes: funcs, vars and classes share 'decls' *)
Definition writes (primary : kind) (k : kind) : bool :=
  kind_eqb primary k || (match primary with Funcs | Vars | Classes => kind_eqb k Decls | _ => false end).

(* effect of one operation on the logical cell (k, n, nm):
   None = untouched, Some None = unbound, Some (Some v) = bound to v *)
Definition effect (o : op) (k : kind) (n : ns) (nm : name) : option (option val) :=
  let add p n' nm' v := if writes p k && ns_eqb n' n && Nat.eqb nm' nm then Some (Some v) else None in
  let rem p n' nm' := if writes p k && ns_eqb n' n && Nat.eqb nm' nm then Some None else None in
  match o with
  | AddType n' nm' v => add Types n' nm' v
  | AddFunc n' nm' v => add Funcs n' nm' v
  | AddLambda n' nm' v => add Lambdas n' nm' v
  | AddVar n' nm' v => add Vars n' nm' v
  | AddClass n' nm' v => add Classes n' nm' v
  | RemType n' nm' => rem Types n' nm'
  | RemFunc n' nm' => rem Funcs n' nm'
  | RemLambda n' nm' => rem Lambdas n' nm'
  | RemVar n' nm' => rem Vars n' nm'
  | RemClass n' nm' => rem Classes n' nm'
  | RemNs n' => if ns_eqb n' n then Some None else None
  end.

(* the binding of cell (k, n, nm) after history h: the effect of the latest operation
   that touched it.  Some None is a binding to Python's None. *)
Definition live (h : list op) (k : kind) (n : ns) (nm : name) : option val :=
  fold_left (fun acc o => match effect o k n nm with Some r => r | None => acc end) h None.

(* names bound in (k, n), ordered by the time of their earliest add since they were last unbound *)
Definition order_step (k : kind) (n : ns) (acc : list name) (o : op) : list name :=
  match o with
  | RemNs n' => if ns_eqb n' n then [] else acc
  | _ =>
      (* find the (at most one) name this op touches in (k, n) *)
      let touched := match o with
                     | AddType _ nm _ | AddFunc _ nm _ | AddLambda _ nm _ | AddVar _ nm _ | AddClass _ nm _
                     | RemType _ nm | RemFunc _ nm | RemLambda _ nm | RemVar _ nm | RemClass _ nm => nm
                     | RemNs _ => 0
                     end in
      match effect o k n touched with
      | Some (Some _) => if existsb (Nat.eqb touched) acc then acc else acc ++ [touched]
      | Some None => filter (fun x => negb (Nat.eqb x touched)) acc
      | None => acc
      end
  end.

Definition order (h : list op) (k : kind) (n : ns) : list name := fold_left (order_step k n) h [].

(* namespace path: all non-empty prefixes, outermost first *)
Definition prefixes (n : ns) : list ns := prefixes_from [] n.

(* innermost binding of nm along the path of n (a binding to None counts: it shadows) *)
Definition innermost (h : list op) (k : kind) (n : ns) (nm : name) : option val :=
  fold_left (fun acc m => match live h k m nm with Some v => Some v | None => acc end) (prefixes n) None.

(* namespaces reachable from the root through recorded functions and classes *)
Inductive Reach (s : state) (root : ns) : ns -> Prop :=
| ReachRoot : Reach s root root
| ReachFunc m nm : Reach s root m -> In nm (map fst (cur s m Funcs)) -> Reach s root (m ++ [nm])
| ReachClass m nm : Reach s root m -> In nm (map fst (cur s m Classes)) -> Reach s root (m ++ [nm]).

(* "truthy" binding: bound to an object (Python: `if decl:`) *)
Definition truthy (o : option val) : option obj := match o with Some (Some x) => Some x | _ => None end.

(* an operation that cannot disturb the reverse index entry of value v in state s *)
Definition neutral_for (s : state) (v : val) (o : op) : Prop :=
  let radd v' := val_eqb v' v = false in
  let rrem p n nm := forall k, writes p k = true ->
                     forall v', od_get Nat.eqb (cur s n k) nm = Some v' -> val_eqb v' v = false in
  match o with
  | AddType _ _ v' | AddFunc _ _ v' | AddLambda _ _ v' | AddVar _ _ v' | AddClass _ _ v' => radd v'
  | RemType n nm => rrem Types n nm
  | RemFunc n nm => rrem Funcs n nm
  | RemLambda n nm => rrem Lambdas n nm
  | RemVar n nm => rrem Vars n nm
  | RemClass n nm => rrem Classes n nm
  | RemNs _ => True
  end.

(* every operation of h2 is neutral for v in the state in which it is applied *)
Fixpoint all_neutral (s : state) (v : val) (h2 : list op) : Prop :=
  match h2 with
  | [] => True
  | o :: h' => neutral_for s v o /\ all_neutral (step s o) v h'
  end.

Definition is_add_of (o : op) (n : ns) (v : val) : Prop :=
  match o with
  | AddType n' _ v' | AddFunc n' _ v' | AddLambda n' _ v' | AddVar n' _ v' | AddClass n' _ v' =>
      n' = n /\ v' = v
  | _ => False
  end.
