(* Context/Corr.v -- observation encoding and comparison for harness/c16.py. Definitions only. *)
From Coq Require Import List Arith Bool.
Import ListNotations.
From Heph Require Import Context.Model.

Inductive probe :=
| PDecls (n : ns) (k : kind) (oc gl none : bool)
| PCtxGetDecl (n : ns) (nm : name)
| PGetLambda (n : ns) (nm : name)
| PGetNamespace (v : val)
| PNsDecls (n : ns) (nm : name) (k : kind) (glob : bool)
| PFindNs (n : ns) (none : bool)
| PDeclsIn (n : ns)
| PParent (n : ns)
| PParentClass (n : ns)
| PGetDecl (n : ns) (nm : name) (limit : option ns).

Definition enc_val (v : val) : list nat := match v with None => [0] | Some (i, _) => [1; i] end.
Definition enc_ns (n : ns) : list nat := length n :: n.
Definition enc_edict (d : edict) : list nat :=
  length d :: flat_map (fun kv => fst kv :: enc_val (snd kv)) d.

Fixpoint lex_leb (a b : list nat) : bool :=
  match a, b with
  | [], _ => true
  | _ :: _, [] => false
  | x :: a', y :: b' => if x <? y then true else if y <? x then false else lex_leb a' b'
  end.

Fixpoint lnat_eqb (a b : list nat) : bool :=
  match a, b with
  | [], [] => true
  | x :: a', y :: b' => Nat.eqb x y && lnat_eqb a' b'
  | _, _ => false
  end.

Fixpoint insert_sorted (x : list nat) (l : list (list nat)) : list (list nat) :=
  match l with
  | [] => [x]
  | y :: l' => if lnat_eqb x y then l
               else if lex_leb x y then x :: l else y :: insert_sorted x l'
  end.

Definition sort_dedup (l : list (list nat)) : list (list nat) := fold_right insert_sorted [] l.

Definition observe (s : state) (p : probe) : list nat :=
  match p with
  | PDecls n k oc gl none =>
      match get_declarations s n k oc gl none with
      | QOk d => 1 :: enc_edict d
      | QAssert => [2]
      | QFuel => [3]
      end
  | PCtxGetDecl n nm => enc_val (ctx_get_decl s n nm)
  | PGetLambda n nm => enc_val (ctx_get_lambda s n nm)
  | PGetNamespace v => match get_namespace s v with Some n => 1 :: enc_ns n | None => [0] end
  | PNsDecls n nm k glob =>
      match get_namespaces_decls s n nm k glob with
      | Some l => let items := sort_dedup (map (fun p => enc_ns (fst p) ++ enc_val (snd p)) l) in
                  1 :: length items :: concat items
      | None => [3]
      end
  | PFindNs n none => let l := find_namespaces s n none in length l :: flat_map enc_ns l
  | PDeclsIn n => let l := get_declarations_in s n in
                  length l :: flat_map (fun p => enc_ns (fst p) ++ enc_edict (snd p)) l
  | PParent n => enc_val (get_parent s n)
  | PParentClass n => match get_parent_class s n with Some v => enc_val v | None => [9] end
  | PGetDecl n nm limit =>
      match get_decl s n nm limit with
      | Some None => [0]
      | Some (Some (m, (i, _))) => 1 :: enc_ns m ++ [i]
      | None => [9]
      end
  end.

(* one step of a history: the operation, then probes with the observations Python made *)
Definition hstep := (op * list (probe * list nat))%type.

Fixpoint probe_mismatches (s : state) (i : nat) (ps : list (probe * list nat)) : list nat :=
  match ps with
  | [] => []
  | (p, e) :: ps' => (if lnat_eqb (observe s p) e then [] else [i]) ++ probe_mismatches s (S i) ps'
  end.

(* (step, probe index) *)
Fixpoint history_mismatches (s : state) (j : nat) (h : list hstep) : list (nat * nat) :=
  match h with
  | [] => []
  | (o, ps) :: h' =>
      let s' := step s o in
      map (fun i => (j, i)) (probe_mismatches s' 0 ps) ++ history_mismatches s' (S j) h'
  end.

(* (history, step, probe) *)
Fixpoint all_mismatches (k : nat) (hs : list (list hstep)) : list (nat * nat * nat) :=
  match hs with
  | [] => []
  | h :: hs' => map (fun c => (k, fst c, snd c)) (history_mismatches init 0 h) ++ all_mismatches (S k) hs'
  end.
