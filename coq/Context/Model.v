(* Context/Model.v -- executable model of /repo/src/ir/context.py (class Context and the
   module-level get_decl).  Definitions only.

   Python dicts are association lists with Python's order semantics (assignment to an
   existing key keeps its position; a new key is appended; del removes).  Names are
   naturals (the harness maps strings injectively; names >= 100 stand for strings that
   contain 'lambda_').  A value is None (Python None, the "artificial" declarations) or an
   object identified by a natural number up to Python equality/hash, carrying whether it
   is an ast.ClassDeclaration instance. *)
From Coq Require Import List Arith Bool.
Import ListNotations.

Definition name := nat.
Definition ns := list name.
Definition obj := (nat * bool)%type.          (* (identity up to ==, isinstance ClassDeclaration) *)
Definition val := option obj.                  (* None = Python None *)

Definition is_lambda_name (n : name) : bool := 100 <=? n.

Fixpoint ns_eqb (a b : ns) : bool :=
  match a, b with
  | [], [] => true
  | x :: a', y :: b' => Nat.eqb x y && ns_eqb a' b'
  | _, _ => false
  end.

Definition val_eqb (a b : val) : bool :=
  match a, b with
  | None, None => true
  | Some (i, _), Some (j, _) => Nat.eqb i j
  | _, _ => false
  end.

(* ---------------- ordered dictionaries ---------------- *)
Section ODict.
  Context {K V : Type} (keqb : K -> K -> bool).

  Fixpoint od_get (d : list (K * V)) (k : K) : option V :=
    match d with
    | [] => None
    | (k', v) :: d' => if keqb k' k then Some v else od_get d' k
    end.

  (* d[k] = v *)
  Fixpoint od_set (d : list (K * V)) (k : K) (v : V) : list (K * V) :=
    match d with
    | [] => [(k, v)]
    | (k', v') :: d' => if keqb k' k then (k', v) :: d' else (k', v') :: od_set d' k v
    end.

  (* del d[k] (no-op when absent: callers test membership first) *)
  Fixpoint od_del (d : list (K * V)) (k : K) : list (K * V) :=
    match d with
    | [] => []
    | (k', v') :: d' => if keqb k' k then d' else (k', v') :: od_del d' k
    end.

  (* d.update(e) *)
  Definition od_update (d e : list (K * V)) : list (K * V) :=
    fold_left (fun acc kv => od_set acc (fst kv) (snd kv)) e d.
End ODict.

Definition edict := list (name * val).

(* the six entity maps of one namespace *)
Inductive kind := Types | Funcs | Lambdas | Vars | Classes | Decls.

Record ents := { e_types : edict; e_funcs : edict; e_lambdas : edict;
                 e_vars : edict; e_classes : edict; e_decls : edict }.

Definition empty_ents : ents := Build_ents [] [] [] [] [] [].

Definition get_ent (k : kind) (e : ents) : edict :=
  match k with
  | Types => e_types e | Funcs => e_funcs e | Lambdas => e_lambdas e
  | Vars => e_vars e | Classes => e_classes e | Decls => e_decls e
  end.

Definition set_ent (k : kind) (d : edict) (e : ents) : ents :=
  match k with
  | Types => Build_ents d (e_funcs e) (e_lambdas e) (e_vars e) (e_classes e) (e_decls e)
  | Funcs => Build_ents (e_types e) d (e_lambdas e) (e_vars e) (e_classes e) (e_decls e)
  | Lambdas => Build_ents (e_types e) (e_funcs e) d (e_vars e) (e_classes e) (e_decls e)
  | Vars => Build_ents (e_types e) (e_funcs e) (e_lambdas e) d (e_classes e) (e_decls e)
  | Classes => Build_ents (e_types e) (e_funcs e) (e_lambdas e) (e_vars e) d (e_decls e)
  | Decls => Build_ents (e_types e) (e_funcs e) (e_lambdas e) (e_vars e) (e_classes e) d
  end.

Record state := { ctx : list (ns * ents);      (* self._context *)
                  rev : list (val * ns) }.     (* self._namespaces *)

Definition init : state := {| ctx := []; rev := [] |}.

Definition ctx_get (s : state) (n : ns) : option ents := od_get ns_eqb (ctx s) n.

(* ---------------- mutators ---------------- *)

Definition add_entity (s : state) (n : ns) (k : kind) (nm : name) (v : val) : state :=
  let e := match ctx_get s n with Some e => e | None => empty_ents end in
  let e' := set_ent k (od_set Nat.eqb (get_ent k e) nm v) e in
  {| ctx := od_set ns_eqb (ctx s) n e';
     rev := od_set val_eqb (rev s) v n |}.

Definition remove_entity (s : state) (n : ns) (k : kind) (nm : name) : state :=
  match ctx_get s n with
  | None => s
  | Some e =>
      match od_get Nat.eqb (get_ent k e) nm with
      | None => s
      | Some decl =>
          {| ctx := od_set ns_eqb (ctx s) n (set_ent k (od_del Nat.eqb (get_ent k e) nm) e);
             rev := od_del val_eqb (rev s) decl |}
      end
  end.

Inductive op :=
| AddType (n : ns) (nm : name) (v : val)
| AddFunc (n : ns) (nm : name) (v : val)
| AddLambda (n : ns) (nm : name) (v : val)
| AddVar (n : ns) (nm : name) (v : val)
| AddClass (n : ns) (nm : name) (v : val)
| RemType (n : ns) (nm : name)
| RemFunc (n : ns) (nm : name)
| RemLambda (n : ns) (nm : name)
| RemVar (n : ns) (nm : name)
| RemClass (n : ns) (nm : name)
| RemNs (n : ns).

Definition step (s : state) (o : op) : state :=
  match o with
  | AddType n nm v => add_entity s n Types nm v
  | AddFunc n nm v => add_entity (add_entity s n Funcs nm v) n Decls nm v
  | AddLambda n nm v => add_entity s n Lambdas nm v
  | AddVar n nm v => add_entity (add_entity s n Vars nm v) n Decls nm v
  | AddClass n nm v => add_entity (add_entity s n Classes nm v) n Decls nm v
  | RemType n nm => remove_entity s n Types nm
  | RemFunc n nm => remove_entity (remove_entity s n Funcs nm) n Decls nm
  | RemLambda n nm => remove_entity s n Lambdas nm
  | RemVar n nm => remove_entity (remove_entity s n Vars nm) n Decls nm
  | RemClass n nm => remove_entity (remove_entity s n Classes nm) n Decls nm
  | RemNs n => {| ctx := od_del ns_eqb (ctx s) n; rev := rev s |}
  end.

Definition run (ops : list op) : state := fold_left step ops init.

(* ---------------- queries ---------------- *)

Definition is_some {A} (o : option A) : bool := match o with Some _ => true | None => false end.

Definition drop_none (d : edict) : edict := filter (fun kv => is_some (snd kv)) d.

(* self._context.get(ns, {}).get(kind)  : None when the namespace is absent *)
Definition ents_of (s : state) (n : ns) (k : kind) : option edict :=
  match ctx_get s n with Some e => Some (get_ent k e) | None => None end.

Definition cur (s : state) (n : ns) (k : kind) : edict :=
  match ents_of s n k with Some d => d | None => [] end.

(* find_namespaces(namespace, none) *)
Definition find_namespaces (s : state) (n : ns) (none : bool) : list ns :=
  let f := cur s n Funcs in
  let c := cur s n Classes in
  let f := if none then f else drop_none f in
  let c := if none then c else drop_none c in
  map (fun kv => n ++ [fst kv]) f ++ map (fun kv => n ++ [fst kv]) c.

(* The LIFO traversal "namespaces.pop(); ...; namespaces.extend(find_namespaces(..))":
   a pre-order walk visiting the children of a namespace in reverse order.  A child is
   strictly longer than its parent and only namespaces present in ctx have children, so
   depth <= 1 + the longest namespace in ctx; out of fuel is reported as None. *)
Fixpoint walk (fuel : nat) (s : state) (none : bool) (n : ns) : option (list ns) :=
  match fuel with
  | O => None
  | S f =>
      fold_left
        (fun (acc : option (list ns)) (child : ns) =>
           match acc with
           | None => None
           | Some l => match walk f s none child with
                       | Some l' => Some (l ++ l')
                       | None => None
                       end
           end)
        (List.rev (find_namespaces s n none)) (Some [n])
  end.

Definition max_ns_len (s : state) : nat := fold_right (fun p m => Nat.max (length (fst p)) m) 0 (ctx s).

Definition walk_fuel (s : state) : nat := S (S (S (max_ns_len s))).

Definition root_of (n : ns) : ns := firstn 1 n.

Definition declarations_glob (s : state) (n : ns) (k : kind) : option edict :=
  match walk (walk_fuel s) s true (root_of n) with
  | None => None
  | Some order =>
      Some (fold_left (fun acc m => match ents_of s m k with
                                    | Some d => od_update Nat.eqb acc d
                                    | None => acc end) order [])
  end.

(* prefixes (ns[0],), (ns[0],ns[1]), ... of a non-empty namespace *)
Fixpoint prefixes_from (pre : ns) (rest : ns) : list ns :=
  match rest with
  | [] => []
  | x :: rest' => (pre ++ [x]) :: prefixes_from (pre ++ [x]) rest'
  end.

Definition declarations_path (s : state) (n : ns) (k : kind) : edict :=
  fold_left (fun acc m => match ents_of s m k with
                          | Some d => od_update Nat.eqb acc d
                          | None => acc end) (prefixes_from [] n) [].

Inductive qres (A : Type) := QOk (a : A) | QAssert | QFuel.
Arguments QOk {A} a. Arguments QAssert {A}. Arguments QFuel {A}.

(* _get_declarations(namespace, decl_type, only_current, glob, none) *)
Definition get_declarations (s : state) (n : ns) (k : kind) (only_current glob none : bool)
  : qres edict :=
  match n with
  | [] => QAssert                                (* assert len_namespace >= 1 *)
  | _ =>
      let r :=
        if glob then declarations_glob s n k
        else if (Nat.eqb (length n) 1) || only_current then Some (cur s n k)
        else Some (declarations_path s n k) in
      match r with
      | None => QFuel
      | Some d => QOk (if none then d else drop_none d)
      end
  end.

(* Context.get_decl / get_lambda *)
Definition ctx_get_decl (s : state) (n : ns) (nm : name) : val :=
  match od_get Nat.eqb (cur s n Decls) nm with Some v => v | None => None end.

Definition ctx_get_lambda (s : state) (n : ns) (nm : name) : val :=
  match od_get Nat.eqb (cur s n Lambdas) nm with Some v => v | None => None end.

(* get_namespace(decl) : self._namespaces.get(decl, None) *)
Definition get_namespace (s : state) (v : val) : option ns := od_get val_eqb (rev s) v.

(* get_namespaces_decls(namespace, name, decl_type, glob) : set of (ns ++ [name], decl) *)
Definition get_namespaces_decls (s : state) (n : ns) (nm : name) (k : kind) (glob : bool)
  : option (list (ns * val)) :=
  match walk (walk_fuel s) s false (if glob then root_of n else n) with
  | None => None
  | Some order =>
      Some (flat_map (fun m => match ents_of s m k with
                               | Some d => map (fun kv => (m ++ [nm], snd kv))
                                               (filter (fun kv => Nat.eqb (fst kv) nm) d)
                               | None => [] end) order)
  end.

(* utils.prefix_lst(prefix, lst) = any(prefix == lst[:i] for i in range(1, len(prefix)+1)) *)
Definition prefix_lst (p l : ns) : bool :=
  existsb (fun i => ns_eqb p (firstn i l)) (seq 1 (length p)).

(* get_declarations_in(namespace) : {ns: entities['decls'] for ns in ctx if prefix_lst(..)} *)
Definition get_declarations_in (s : state) (n : ns) : list (ns * edict) :=
  map (fun p => (fst p, e_decls (snd p))) (filter (fun p => prefix_lst n (fst p)) (ctx s)).

(* get_parent(namespace) *)
Definition get_parent (s : state) (n : ns) : val :=
  if length n <? 2 then None
  else let pn := removelast n in
       ctx_get_decl s (removelast pn) (last pn 0).

(* get_parent_class(namespace): recursion on namespace[:-1] *)
Fixpoint get_parent_class_f (fuel : nat) (s : state) (n : ns) : option val :=
  match fuel with
  | O => None                                     (* out of fuel *)
  | S f =>
      let parent := get_parent s n in
      let lam := (2 <? length n) && is_lambda_name (nth (length n - 2) n 0) in
      match parent with
      | None => if negb lam then Some None else get_parent_class_f f s (removelast n)
      | Some (_, true) => Some parent
      | Some (_, false) => get_parent_class_f f s (removelast n)
      end
  end.

Definition get_parent_class (s : state) (n : ns) : option val :=
  get_parent_class_f (S (S (length n))) s n.

(* module-level get_decl(context, namespace, decl_name, limit) *)
Fixpoint get_decl_f (fuel : nat) (s : state) (n : ns) (nm : name) (limit : option ns)
  : option (option (ns * obj)) :=
  match fuel with
  | O => None
  | S f =>
      let go := match limit with
                | None => negb (Nat.eqb (length n) 0)
                | Some l => prefix_lst l n
                end in
      if negb go then Some None
      else match n with
           | [] => None            (* get_declarations asserts len >= 1: unreachable when limit = None;
                                      with a limit prefix_lst l [] is false *)
           | _ =>
               match od_get Nat.eqb (drop_none (cur s n Decls)) nm with
               | Some (Some o) => Some (Some (n, o))
               | _ => get_decl_f f s (removelast n) nm limit
               end
           end
  end.

Definition get_decl (s : state) (n : ns) (nm : name) (limit : option ns) : option (option (ns * obj)) :=
  get_decl_f (S (S (length n))) s n nm limit.
