(* Properties_C16.v -- the property theorems, nothing else. *)
From Coq Require Import List Arith Bool.
Import ListNotations.
From Heph Require Import Context.Model Context.Spec Context.Proofs.

Theorem empty_history_is_initial_state : run [] = init.
Proof. exact run_nil. Qed.
Print Assumptions empty_history_is_initial_state.
