(* Properties_C16.v -- the property theorems, nothing else. *)
From Coq Require Import List Arith Bool.
Import ListNotations.
From Heph Require Import Context.Model Context.Spec Context.Proofs.

Theorem current_lookup : forall h k n nm, od_get Nat.eqb (cur (run h) n k) nm = live h k n nm.
Proof. exact current_lookup_pf. Qed.
Print Assumptions current_lookup.

Theorem current_order : forall h k n, map fst (cur (run h) n k) = order h k n.
Proof. exact current_order_pf. Qed.
Print Assumptions current_order.

Theorem order_nodup : forall h k n, NoDup (order h k n).
Proof. exact order_nodup_pf. Qed.
Print Assumptions order_nodup.

Theorem current_query : forall h k n, n <> [] -> exists d, get_declarations (run h) n k true false true = QOk d /\ map fst d = order h k n /\ forall nm, od_get Nat.eqb d nm = live h k n nm.
Proof. exact current_query_pf. Qed.
Print Assumptions current_query.

Theorem hide_none : forall s n k oc gl d, get_declarations s n k oc gl true = QOk d -> get_declarations s n k oc gl false = QOk (drop_none d).
Proof. exact hide_none_pf. Qed.
Print Assumptions hide_none.

Theorem remove_local : forall h p n nm o, (o = match p with Types => RemType n nm | Funcs => RemFunc n nm | Lambdas => RemLambda n nm | Vars => RemVar n nm | Classes => RemClass n nm | Decls => RemVar n nm end) -> (forall k, writes (match p with Decls => Vars | x => x end) k = true -> live (h ++ [o]) k n nm = None) /\ (forall k n' nm', (writes (match p with Decls => Vars | x => x end) k = false \/ n' <> n \/ nm' <> nm) -> live (h ++ [o]) k n' nm' = live h k n' nm').
Proof. exact remove_local_pf. Qed.
Print Assumptions remove_local.
