(* Properties_C16.v -- the property theorems, nothing else. *)
From Coq Require Import List Arith Bool.
Import ListNotations.
From Heph Require Import Context.Model Context.Spec Context.Proofs Context.ProofsQueries.

Theorem current_lookup : forall h k n nm, od_get Nat.eqb (cur (run h) n k) nm = live h k n nm.
Proof. exact current_lookup_pf. Qed.
Print Assumptions current_lookup.

Theorem current_order : forall h k n, map fst (cur (run h) n k) = order h k n.
Proof. exact current_order_pf. Qed.
Print Assumptions current_order.

Theorem order_nodup : forall h k n, NoDup (order h k n).
Proof. exact order_nodup_pf. Qed.
Print Assumptions order_nodup.

Theorem current_query : forall h k n, n <> [] -> exists d, get_declarations (run h) n k true false true = QOk d /\ map fst d = order h k n /\ forall nm, od_get Nat.eqb d nm = live h k n nm.
Proof. exact current_query_pf. Qed.
Print Assumptions current_query.

Theorem enclosing_query : forall h k n, 2 <= length n -> exists d, get_declarations (run h) n k false false true = QOk d /\ NoDup (map fst d) /\ forall nm, od_get Nat.eqb d nm = innermost h k n nm.
Proof. exact enclosing_query_pf. Qed.
Print Assumptions enclosing_query.

Theorem hide_none : forall s n k oc gl d, get_declarations s n k oc gl true = QOk d -> get_declarations s n k oc gl false = QOk (drop_none d).
Proof. exact hide_none_pf. Qed.
Print Assumptions hide_none.

Theorem walk_fuel_ok : forall s none n, walk (walk_fuel s) s none n <> None.
Proof. exact walk_fuel_ok_pf. Qed.
Print Assumptions walk_fuel_ok.

Theorem glob_query : forall h k n, n <> [] -> exists d, get_declarations (run h) n k false true true = QOk d /\ (forall nm, In nm (map fst d) <-> exists m, Reach (run h) (root_of n) m /\ live h k m nm <> None) /\ (forall nm v, od_get Nat.eqb d nm = Some v -> exists m, Reach (run h) (root_of n) m /\ live h k m nm = Some v).
Proof. exact glob_query_pf. Qed.
Print Assumptions glob_query.

Theorem lookup_innermost : forall h n nm, exists r, get_decl (run h) n nm None = Some r /\ match r with | None => forall j, 1 <= j <= length n -> truthy (live h Decls (firstn j n) nm) = None | Some (m, o) => exists j, 1 <= j <= length n /\ m = firstn j n /\ truthy (live h Decls m nm) = Some o /\ forall j', j < j' <= length n -> truthy (live h Decls (firstn j' n) nm) = None end.
Proof. exact lookup_innermost_pf. Qed.
Print Assumptions lookup_innermost.

Theorem remove_local : forall h p n nm o, (o = match p with Types => RemType n nm | Funcs => RemFunc n nm | Lambdas => RemLambda n nm | Vars => RemVar n nm | Classes => RemClass n nm | Decls => RemVar n nm end) -> (forall k, writes (match p with Decls => Vars | x => x end) k = true -> live (h ++ [o]) k n nm = None) /\ (forall k n' nm', (writes (match p with Decls => Vars | x => x end) k = false \/ n' <> n \/ nm' <> nm) -> live (h ++ [o]) k n' nm' = live h k n' nm').
Proof. exact remove_local_pf. Qed.
Print Assumptions remove_local.

Theorem remove_falls_through : forall h n nm, n <> [] -> get_decl (run (h ++ [RemVar n nm])) n nm None = get_decl (run (h ++ [RemVar n nm])) (removelast n) nm None.
Proof. exact remove_falls_through_pf. Qed.
Print Assumptions remove_falls_through.

Theorem reverse_lookup : forall h1 o h2 n v, is_add_of o n v -> all_neutral (run (h1 ++ [o])) v h2 -> get_namespace (run (h1 ++ [o] ++ h2)) v = Some n.
Proof. exact reverse_lookup_pf. Qed.
Print Assumptions reverse_lookup.
