(* Context/ProofsQueries.v -- reverse index, lexical lookup, path and global queries. *)
From Coq Require Import List Arith Bool Lia.
Import ListNotations.
From Heph Require Import Context.Model Context.Spec Context.ProofsODict Context.Proofs.

(* ------------------------------------------------------------------ *)
(* T10: the reverse index                                              *)
(* ------------------------------------------------------------------ *)

Definition vget_set_eq := @per_get_set_eq val ns val_eqb val_eqb_sym val_eqb_trans.
Definition vget_set_neq := @per_get_set_neq val ns val_eqb val_eqb_sym val_eqb_trans.
Definition vget_del_neq := @per_get_del_neq val ns val_eqb val_eqb_sym val_eqb_trans.

Lemma get_ns_add_same : forall s n k nm v,
  get_namespace (add_entity s n k nm v) v = Some n.
Proof.
  intros s n k nm v. unfold get_namespace, add_entity. simpl.
  apply vget_set_eq. apply val_eqb_refl.
Qed.

Lemma get_ns_add_other : forall s n k nm v' v,
  val_eqb v' v = false ->
  get_namespace (add_entity s n k nm v') v = get_namespace s v.
Proof.
  intros s n k nm v' v Hne. unfold get_namespace, add_entity. simpl.
  apply vget_set_neq. exact Hne.
Qed.

Lemma get_ns_rem : forall s n k nm v,
  (forall v', od_get Nat.eqb (cur s n k) nm = Some v' -> val_eqb v' v = false) ->
  get_namespace (remove_entity s n k nm) v = get_namespace s v.
Proof.
  intros s n k nm v Hne. unfold remove_entity.
  destruct (ctx_get s n) as [e|] eqn:Ee; [|reflexivity].
  destruct (od_get Nat.eqb (get_ent k e) nm) as [decl|] eqn:Ed; [|reflexivity].
  unfold get_namespace. simpl. apply vget_del_neq. apply Hne.
  unfold cur, ents_of. rewrite Ee. exact Ed.
Qed.

Lemma get_ns_after_add : forall s o n v,
  is_add_of o n v -> get_namespace (step s o) v = Some n.
Proof.
  intros s o n v Hadd.
  destruct o; simpl in Hadd; try contradiction; destruct Hadd as [Hn Hv]; subst;
    unfold step; apply get_ns_add_same.
Qed.

Lemma get_ns_neutral_step : forall s o v,
  neutral_for s v o -> get_namespace (step s o) v = get_namespace s v.
Proof.
  intros s o v Hneu.
  destruct o as [n nm v'|n nm v'|n nm v'|n nm v'|n nm v'|n nm|n nm|n nm|n nm|n nm|n];
    unfold neutral_for in Hneu; unfold step.
  - apply get_ns_add_other. exact Hneu.
  - rewrite get_ns_add_other by exact Hneu. apply get_ns_add_other. exact Hneu.
  - apply get_ns_add_other. exact Hneu.
  - rewrite get_ns_add_other by exact Hneu. apply get_ns_add_other. exact Hneu.
  - rewrite get_ns_add_other by exact Hneu. apply get_ns_add_other. exact Hneu.
  - apply get_ns_rem. apply Hneu. reflexivity.
  - rewrite get_ns_rem.
    + apply get_ns_rem. apply Hneu. reflexivity.
    + rewrite cur_rem. rewrite andb_false_r. apply Hneu. reflexivity.
  - apply get_ns_rem. apply Hneu. reflexivity.
  - rewrite get_ns_rem.
    + apply get_ns_rem. apply Hneu. reflexivity.
    + rewrite cur_rem. rewrite andb_false_r. apply Hneu. reflexivity.
  - rewrite get_ns_rem.
    + apply get_ns_rem. apply Hneu. reflexivity.
    + rewrite cur_rem. rewrite andb_false_r. apply Hneu. reflexivity.
  - reflexivity.
Qed.

Lemma get_ns_neutral_fold : forall h2 s v n,
  get_namespace s v = Some n -> all_neutral s v h2 ->
  get_namespace (fold_left step h2 s) v = Some n.
Proof.
  induction h2 as [|o h2 IH]; intros s v n Hg Hall; simpl.
  - exact Hg.
  - simpl in Hall. destruct Hall as [Hneu Hall].
    apply IH; [|exact Hall]. rewrite get_ns_neutral_step by exact Hneu. exact Hg.
Qed.

Lemma reverse_lookup_pf : forall h1 o h2 n v,
  is_add_of o n v -> all_neutral (run (h1 ++ [o])) v h2 ->
  get_namespace (run (h1 ++ [o] ++ h2)) v = Some n.
Proof.
  intros h1 o h2 n v Hadd Hall.
  rewrite app_assoc, run_app. apply get_ns_neutral_fold; [|exact Hall].
  rewrite run_snoc. apply get_ns_after_add. exact Hadd.
Qed.

(* Non-vacuity of T10: a 10-operation history in which variable 5 of namespace [1] is
   shadowed in [1;2], a sibling variable is removed and re-added, the outer variable is
   removed and re-added, and a namespace is dropped: every operation after the add of
   object 12 is neutral for it, and its reverse-index entry survives.  A non-neutral
   continuation (removing the variable itself) does erase the entry. *)
Definition ex10_h1 : list op :=
  [AddVar [1] 5 (Some (10, false)); AddFunc [1] 2 (Some (11, false))].
Definition ex10_o : op := AddVar [1; 2] 5 (Some (12, false)).
Definition ex10_h2 : list op :=
  [AddVar [1; 2] 6 (Some (13, false)); RemVar [1; 2] 6; AddVar [1; 2] 6 (Some (14, false));
   AddClass [1] 3 (Some (15, true)); RemVar [1] 5; AddVar [1] 5 (Some (16, false));
   RemNs [1; 3]].

Example reverse_lookup_nonvacuous :
  is_add_of ex10_o [1; 2] (Some (12, false)) /\
  all_neutral (run (ex10_h1 ++ [ex10_o])) (Some (12, false)) ex10_h2 /\
  6 <= length (ex10_h1 ++ [ex10_o] ++ ex10_h2) /\
  get_namespace (run (ex10_h1 ++ [ex10_o] ++ ex10_h2)) (Some (12, false)) = Some [1; 2] /\
  get_namespace (run ex10_h1) (Some (12, false)) = None /\
  get_namespace (run (ex10_h1 ++ [ex10_o] ++ ex10_h2 ++ [RemVar [1; 2] 5])) (Some (12, false)) = None.
Proof.
  split; [split; reflexivity|].
  split.
  - unfold ex10_h2. cbn [all_neutral neutral_for].
    repeat split; try reflexivity;
      intros k Hk v' Hv'; destruct k; try discriminate Hk;
      vm_compute in Hv'; inversion Hv'; reflexivity.
  - split; [vm_compute; lia|]. split; [|split]; vm_compute; reflexivity.
Qed.

(* ------------------------------------------------------------------ *)
(* T7, T9: lexical lookup                                              *)
(* ------------------------------------------------------------------ *)

Lemma firstn_snoc_le : forall (A : Type) (l : list A) x j,
  j <= length l -> firstn j (l ++ [x]) = firstn j l.
Proof.
  intros A l x j Hj. rewrite firstn_app.
  replace (j - length l) with 0 by lia. simpl. apply app_nil_r.
Qed.

Lemma get_decl_f_unfold : forall h f n nm,
  n <> [] ->
  get_decl_f (S f) (run h) n nm None =
  match truthy (live h Decls n nm) with
  | Some o => Some (Some (n, o))
  | None => get_decl_f f (run h) (removelast n) nm None
  end.
Proof.
  intros h f n nm Hn. destruct n as [|x n]; [contradiction|].
  rewrite <- current_lookup_pf.
  cbn [get_decl_f length Nat.eqb negb].
  rewrite od_get_drop_none by apply (wf_run h).
  destruct (od_get Nat.eqb (cur (run h) (x :: n) Decls) nm) as [[o|]|]; reflexivity.
Qed.

Lemma get_decl_f_spec : forall h nm n f,
  length n < f ->
  exists r, get_decl_f f (run h) n nm None = Some r /\
    match r with
    | None => forall j, 1 <= j <= length n -> truthy (live h Decls (firstn j n) nm) = None
    | Some (m, o) =>
        exists j, 1 <= j <= length n /\ m = firstn j n /\
                  truthy (live h Decls m nm) = Some o /\
                  forall j', j < j' <= length n -> truthy (live h Decls (firstn j' n) nm) = None
    end.
Proof.
  intros h nm. induction n as [|x l IH] using rev_ind; intros f Hf.
  - destruct f as [|f]; [lia|]. exists None. split; [reflexivity|].
    intros j Hj. simpl in Hj. lia.
  - destruct f as [|f]; [lia|]. rewrite last_length in Hf.
    rewrite get_decl_f_unfold by (intros Hnil; destruct l; discriminate).
    rewrite removelast_last.
    destruct (truthy (live h Decls (l ++ [x]) nm)) as [o|] eqn:Et.
    + exists (Some (l ++ [x], o)). split; [reflexivity|].
      exists (length (l ++ [x])). rewrite firstn_all. rewrite last_length.
      split; [lia|]. split; [reflexivity|]. split; [exact Et|]. intros j' Hj'. lia.
    + destruct (IH f) as [r [Hr Hspec]]; [lia|].
      exists r. split; [exact Hr|].
      destruct r as [[m o]|].
      * destruct Hspec as [j [Hj [Hm [Hto Hlater]]]].
        exists j. rewrite last_length. split; [lia|]. split.
        { rewrite firstn_snoc_le by lia. exact Hm. }
        split; [exact Hto|].
        intros j' Hj'. destruct (Nat.eq_dec j' (S (length l))) as [Heq|Hneq].
        { subst j'. rewrite firstn_all2 by (rewrite last_length; lia). exact Et. }
        { rewrite firstn_snoc_le by lia. apply Hlater. lia. }
      * rewrite last_length. intros j Hj.
        destruct (Nat.eq_dec j (S (length l))) as [Heq|Hneq].
        { subst j. rewrite firstn_all2 by (rewrite last_length; lia). exact Et. }
        { rewrite firstn_snoc_le by lia. apply Hspec. lia. }
Qed.

Lemma lookup_innermost_pf : forall h n nm,
  exists r, get_decl (run h) n nm None = Some r /\
    match r with
    | None => forall j, 1 <= j <= length n -> truthy (live h Decls (firstn j n) nm) = None
    | Some (m, o) =>
        exists j, 1 <= j <= length n /\ m = firstn j n /\
                  truthy (live h Decls m nm) = Some o /\
                  forall j', j < j' <= length n -> truthy (live h Decls (firstn j' n) nm) = None
    end.
Proof.
  intros h n nm. unfold get_decl. apply get_decl_f_spec. lia.
Qed.

(* Non-vacuity of T7: variable 5 is declared in [1], shadowed in [1;2], the shadowing
   declaration is removed, re-added and removed again; an artificial (None) declaration of
   the same name sits in [1;2;4].  The lookup from [1;2;4] falls through two levels to the
   outer declaration; before the last removal it finds the re-added inner one. *)
Definition ex7_h : list op :=
  [AddVar [1] 5 (Some (10, false)); AddFunc [1] 2 (Some (11, false));
   AddVar [1; 2] 5 (Some (12, false)); RemVar [1; 2] 5; AddVar [1; 2] 5 (Some (13, false));
   AddFunc [1; 2] 4 (Some (14, false)); AddVar [1; 2; 4] 5 None; AddClass [1] 3 (Some (15, true))].

Example lookup_innermost_nonvacuous :
  6 <= length ex7_h /\
  get_decl (run ex7_h) [1; 2; 4] 5 None = Some (Some ([1; 2], (13, false))) /\
  live ex7_h Decls [1; 2; 4] 5 = Some None /\
  truthy (live ex7_h Decls [1] 5) = Some (10, false) /\
  get_decl (run (ex7_h ++ [RemVar [1; 2] 5])) [1; 2; 4] 5 None = Some (Some ([1], (10, false))) /\
  get_decl (run (ex7_h ++ [RemVar [1; 2] 5; RemVar [1] 5])) [1; 2; 4] 5 None = Some None /\
  get_decl (run ex7_h) [1; 2; 4] 7 None = Some None.
Proof.
  split; [vm_compute; lia|]. repeat split; vm_compute; reflexivity.
Qed.

Lemma remove_falls_through_pf : forall h n nm, n <> [] ->
  get_decl (run (h ++ [RemVar n nm])) n nm None =
  get_decl (run (h ++ [RemVar n nm])) (removelast n) nm None.
Proof.
  intros h n nm Hn. unfold get_decl.
  rewrite get_decl_f_unfold by exact Hn.
  assert (Hl : live (h ++ [RemVar n nm]) Decls n nm = None).
  { rewrite live_snoc. unfold effect. simpl. rewrite ns_eqb_refl, Nat.eqb_refl. reflexivity. }
  rewrite Hl. simpl truthy. cbv iota.
  destruct (exists_last Hn) as [l [x Hlx]]. subst n.
  rewrite removelast_last, last_length. reflexivity.
Qed.

(* ------------------------------------------------------------------ *)
(* T4: path query                                                      *)
(* ------------------------------------------------------------------ *)

Lemma accum_eq : forall s k (acc : edict) m,
  match ents_of s m k with Some d => od_update Nat.eqb acc d | None => acc end =
  od_update Nat.eqb acc (cur s m k).
Proof. intros s k acc m. unfold cur. destruct (ents_of s m k); reflexivity. Qed.

Lemma accum_get : forall h k nm ms (acc : edict),
  od_get Nat.eqb
    (fold_left (fun acc m => match ents_of (run h) m k with
                             | Some d => od_update Nat.eqb acc d | None => acc end) ms acc) nm =
  fold_left (fun a m => match live h k m nm with Some v => Some v | None => a end) ms
            (od_get Nat.eqb acc nm).
Proof.
  intros h k nm. induction ms as [|m ms IH]; intros acc; simpl.
  - reflexivity.
  - rewrite IH. f_equal. rewrite accum_eq.
    rewrite (od_get_update Nat.eqb nat_eqb_spec) by apply (wf_run h).
    rewrite current_lookup_pf. reflexivity.
Qed.

Lemma accum_nodup : forall s k ms (acc : edict),
  NoDup (map fst acc) ->
  NoDup (map fst
    (fold_left (fun acc m => match ents_of s m k with
                             | Some d => od_update Nat.eqb acc d | None => acc end) ms acc)).
Proof.
  intros s k. induction ms as [|m ms IH]; intros acc Hnd; simpl.
  - exact Hnd.
  - apply IH. rewrite accum_eq. apply (nodup_update Nat.eqb nat_eqb_spec). exact Hnd.
Qed.

Lemma enclosing_query_pf : forall h k n, 2 <= length n ->
  exists d, get_declarations (run h) n k false false true = QOk d /\
            NoDup (map fst d) /\
            forall nm, od_get Nat.eqb d nm = innermost h k n nm.
Proof.
  intros h k n Hlen. destruct n as [|x [|y n']]; simpl in Hlen; try lia.
  exists (declarations_path (run h) (x :: y :: n') k). split; [reflexivity|]. split.
  - unfold declarations_path. apply accum_nodup. constructor.
  - intros nm. unfold declarations_path, innermost, prefixes. apply accum_get.
Qed.

(* ------------------------------------------------------------------ *)
(* T5: the walk never runs out of fuel                                 *)
(* ------------------------------------------------------------------ *)

Lemma ctx_get_len : forall s n e, ctx_get s n = Some e -> length n <= max_ns_len s.
Proof.
  intros s n e. unfold ctx_get, max_ns_len. induction (ctx s) as [|[n0 e0] c IH]; simpl.
  - discriminate.
  - destruct (ns_eqb n0 n) eqn:En.
    + apply ns_eqb_spec in En. subst n0. intros _. lia.
    + intros Hg. specialize (IH Hg). lia.
Qed.

Lemma find_ns_absent : forall s n none, ctx_get s n = None -> find_namespaces s n none = [].
Proof.
  intros s n none Hg. unfold find_namespaces, cur, ents_of. rewrite Hg.
  destruct none; reflexivity.
Qed.

Lemma find_ns_len : forall s n none c,
  In c (find_namespaces s n none) -> length c = S (length n).
Proof.
  intros s n none c Hin. unfold find_namespaces in Hin.
  apply in_app_or in Hin.
  destruct Hin as [Hin|Hin]; apply in_map_iff in Hin; destruct Hin as [kv [Hc _]];
    subst c; rewrite app_length; simpl; lia.
Qed.

Definition wstep (f : nat) (s : state) (none : bool) :=
  fun (acc : option (list ns)) (child : ns) =>
    match acc with
    | None => None
    | Some l => match walk f s none child with
                | Some l' => Some (l ++ l')
                | None => None
                end
    end.

Lemma walk_S : forall f s none n,
  walk (S f) s none n = fold_left (wstep f s none) (List.rev (find_namespaces s n none)) (Some [n]).
Proof. reflexivity. Qed.

Lemma wfold_ok : forall f s none cs l,
  (forall c, In c cs -> walk f s none c <> None) ->
  fold_left (wstep f s none) cs (Some l) <> None.
Proof.
  intros f s none. induction cs as [|c cs IH]; intros l Hall; simpl.
  - discriminate.
  - destruct (walk f s none c) as [lc|] eqn:Ec.
    + apply IH. intros c' Hin. apply Hall. right. exact Hin.
    + exfalso. apply (Hall c); [left; reflexivity | exact Ec].
Qed.

Lemma walk_ok : forall s none f n,
  1 <= f -> max_ns_len s + 2 <= f + length n -> walk f s none n <> None.
Proof.
  intros s none. induction f as [|f IH]; intros n Hf Hm; [lia|].
  rewrite walk_S.
  destruct (ctx_get s n) as [e|] eqn:Ee.
  - apply ctx_get_len in Ee. apply wfold_ok. intros c Hin.
    apply in_rev in Hin. apply find_ns_len in Hin. apply IH; lia.
  - rewrite find_ns_absent by exact Ee. simpl. discriminate.
Qed.

Lemma walk_fuel_ok_pf : forall s none n, walk (walk_fuel s) s none n <> None.
Proof.
  intros s none n. apply walk_ok; unfold walk_fuel; lia.
Qed.

(* ------------------------------------------------------------------ *)
(* T6: global query                                                    *)
(* ------------------------------------------------------------------ *)

Lemma wfold_none : forall f s none cs, fold_left (wstep f s none) cs None = None.
Proof. intros f s none. induction cs as [|c cs IH]; simpl; [reflexivity | exact IH]. Qed.

Lemma wfold_spec : forall f s none cs l r,
  fold_left (wstep f s none) cs (Some l) = Some r ->
  (forall c, In c cs -> exists lc, walk f s none c = Some lc) /\
  (forall m, In m r <-> In m l \/ exists c lc, In c cs /\ walk f s none c = Some lc /\ In m lc).
Proof.
  intros f s none. induction cs as [|c cs IH]; intros l r Hfold; simpl in Hfold.
  - inversion Hfold; subst r. split.
    + intros c [].
    + intros m. split.
      * intros Hin. left. exact Hin.
      * intros [Hin|[c [lc [[] _]]]]. exact Hin.
  - destruct (walk f s none c) as [lc|] eqn:Ec.
    + destruct (IH _ _ Hfold) as [Hall Hmem]. split.
      * intros c' [Heq|Hin]; [subst c'; exists lc; exact Ec | apply Hall; exact Hin].
      * intros m. rewrite Hmem. rewrite in_app_iff. split.
        { intros [[Hin|Hin]|[c' [lc' [Hin [Hw Hm]]]]].
          - left. exact Hin.
          - right. exists c, lc. split; [left; reflexivity|]. split; assumption.
          - right. exists c', lc'. split; [right; exact Hin|]. split; assumption. }
        { intros [Hin|[c' [lc' [[Heq|Hin] [Hw Hm]]]]].
          - left. left. exact Hin.
          - subst c'. rewrite Ec in Hw. inversion Hw; subst lc'. left. right. exact Hm.
          - right. exists c', lc'. split; [exact Hin|]. split; assumption. }
    + rewrite wfold_none in Hfold. discriminate.
Qed.

Lemma find_ns_true_in : forall s n c,
  In c (find_namespaces s n true) <->
  exists x, c = n ++ [x] /\
            (In x (map fst (cur s n Funcs)) \/ In x (map fst (cur s n Classes))).
Proof.
  intros s n c. unfold find_namespaces. rewrite in_app_iff. split.
  - intros [Hin|Hin]; apply in_map_iff in Hin; destruct Hin as [kv [Hc Hin]];
      exists (fst kv); (split; [symmetry; exact Hc|]).
    + left. apply in_map. exact Hin.
    + right. apply in_map. exact Hin.
  - intros [x [Hc [Hin|Hin]]]; apply in_map_iff in Hin; destruct Hin as [kv [Hx Hin]]; subst.
    + left. apply in_map_iff. exists kv. split; [reflexivity | exact Hin].
    + right. apply in_map_iff. exists kv. split; [reflexivity | exact Hin].
Qed.

Lemma Reach_trans : forall s a b c, Reach s a b -> Reach s b c -> Reach s a c.
Proof.
  intros s a b c Hab Hbc. induction Hbc as [|m nm Hbm IH Hin|m nm Hbm IH Hin].
  - exact Hab.
  - apply ReachFunc; assumption.
  - apply ReachClass; assumption.
Qed.

Lemma Reach_child : forall s n c, In c (find_namespaces s n true) -> Reach s n c.
Proof.
  intros s n c Hin. apply find_ns_true_in in Hin. destruct Hin as [x [Hc [Hin|Hin]]]; subst c.
  - apply ReachFunc; [apply ReachRoot | exact Hin].
  - apply ReachClass; [apply ReachRoot | exact Hin].
Qed.

Lemma Reach_front : forall s n m,
  Reach s n m -> m = n \/ exists c, In c (find_namespaces s n true) /\ Reach s c m.
Proof.
  intros s n m Hr. induction Hr as [|m nm Hnm IH Hin|m nm Hnm IH Hin].
  - left. reflexivity.
  - right. destruct IH as [Heq|[c [Hc Hcm]]].
    + subst m. exists (n ++ [nm]). split; [|apply ReachRoot].
      apply find_ns_true_in. exists nm. split; [reflexivity | left; exact Hin].
    + exists c. split; [exact Hc|]. apply ReachFunc; assumption.
  - right. destruct IH as [Heq|[c [Hc Hcm]]].
    + subst m. exists (n ++ [nm]). split; [|apply ReachRoot].
      apply find_ns_true_in. exists nm. split; [reflexivity | right; exact Hin].
    + exists c. split; [exact Hc|]. apply ReachClass; assumption.
Qed.

Lemma walk_reach : forall s f n l,
  walk f s true n = Some l -> forall m, In m l <-> Reach s n m.
Proof.
  intros s. induction f as [|f IH]; intros n l Hw m; [discriminate|].
  rewrite walk_S in Hw. apply wfold_spec in Hw. destruct Hw as [Hall Hmem].
  rewrite Hmem. split.
  - intros [[Heq|[]]|[c [lc [Hin [Hwc Hm]]]]].
    + subst m. apply ReachRoot.
    + apply in_rev in Hin. apply Reach_trans with c; [apply Reach_child; exact Hin|].
      apply (IH c lc Hwc). exact Hm.
  - intros Hr. apply Reach_front in Hr. destruct Hr as [Heq|[c [Hin Hcm]]].
    + left. left. symmetry. exact Heq.
    + right. apply in_rev in Hin. destruct (Hall c Hin) as [lc Hwc].
      exists c, lc. split; [exact Hin|]. split; [exact Hwc|].
      apply (IH c lc Hwc). exact Hcm.
Qed.

Lemma accum_keys : forall s k ms (acc : edict) nm,
  In nm (map fst
    (fold_left (fun acc m => match ents_of s m k with
                             | Some d => od_update Nat.eqb acc d | None => acc end) ms acc)) <->
  In nm (map fst acc) \/ exists m, In m ms /\ In nm (map fst (cur s m k)).
Proof.
  intros s k. induction ms as [|m0 ms IH]; intros acc nm; simpl.
  - split; [intros Hin; left; exact Hin | intros [Hin|[m [[] _]]]; exact Hin].
  - rewrite IH. rewrite accum_eq. rewrite (in_keys_update Nat.eqb nat_eqb_spec). split.
    + intros [[Hin|Hin]|[m [Hm Hin]]].
      * left. exact Hin.
      * right. exists m0. split; [left; reflexivity | exact Hin].
      * right. exists m. split; [right; exact Hm | exact Hin].
    + intros [Hin|[m [[Heq|Hm] Hin]]].
      * left. left. exact Hin.
      * subst m. left. right. exact Hin.
      * right. exists m. split; assumption.
Qed.

Lemma accum_get_some : forall s k nm v, wf s -> forall ms (acc : edict),
  od_get Nat.eqb
    (fold_left (fun acc m => match ents_of s m k with
                             | Some d => od_update Nat.eqb acc d | None => acc end) ms acc) nm
  = Some v ->
  od_get Nat.eqb acc nm = Some v \/
  exists m, In m ms /\ od_get Nat.eqb (cur s m k) nm = Some v.
Proof.
  intros s k nm v Hwf. induction ms as [|m0 ms IH]; intros acc Hg; simpl in Hg.
  - left. exact Hg.
  - apply IH in Hg. destruct Hg as [Hg|[m [Hm Hg]]].
    + rewrite accum_eq in Hg.
      rewrite (od_get_update Nat.eqb nat_eqb_spec) in Hg by apply Hwf.
      destruct (od_get Nat.eqb (cur s m0 k) nm) as [w|] eqn:Ew.
      * right. exists m0. split; [left; reflexivity|]. rewrite Ew. exact Hg.
      * left. exact Hg.
    + right. exists m. split; [right; exact Hm | exact Hg].
Qed.

Lemma glob_query_pf : forall h k n, n <> [] ->
  exists d, get_declarations (run h) n k false true true = QOk d /\
    (forall nm, In nm (map fst d) <->
                exists m, Reach (run h) (root_of n) m /\ live h k m nm <> None) /\
    (forall nm v, od_get Nat.eqb d nm = Some v ->
                  exists m, Reach (run h) (root_of n) m /\ live h k m nm = Some v).
Proof.
  intros h k n Hn.
  destruct (walk (walk_fuel (run h)) (run h) true (root_of n)) as [ord|] eqn:Ew;
    [|exfalso; exact (walk_fuel_ok_pf _ _ _ Ew)].
  pose proof (walk_reach _ _ _ _ Ew) as Hreach.
  eexists. split; [|split].
  - destruct n as [|x n]; [contradiction|].
    unfold get_declarations, declarations_glob. rewrite Ew. reflexivity.
  - intros nm. rewrite accum_keys. simpl. split.
    + intros [[]|[m [Hm Hin]]]. exists m. split; [apply Hreach; exact Hm|].
      rewrite <- current_lookup_pf. apply (od_get_in_iff Nat.eqb nat_eqb_spec). exact Hin.
    + intros [m [Hr Hl]]. right. exists m. split; [apply Hreach; exact Hr|].
      apply (od_get_in_iff Nat.eqb nat_eqb_spec). rewrite current_lookup_pf. exact Hl.
  - intros nm v Hg. apply accum_get_some in Hg; [|apply wf_run].
    destruct Hg as [Hg|[m [Hm Hg]]]; [discriminate|].
    exists m. split; [apply Hreach; exact Hm|]. rewrite <- current_lookup_pf. exact Hg.
Qed.
