(* Graph/Spec.v -- textbook definitions the graph queries are compared against. *)
From Coq Require Import List Arith Bool Relations.
Import ListNotations.
From Heph Require Import Graph.Model.

(* A well-formed Python dict has distinct keys. *)
Definition WfGraph (g : graph) : Prop := NoDup (keys g).

(* every edge target is itself a vertex (key) of the graph: "every vertex of it" *)
Definition Closed (g : graph) : Prop :=
  forall u v, In u (keys g) -> In v (adj g u) -> In v (keys g).

(* u -> v is an edge: u is a key and v is listed in its adjacency list *)
Definition Edge (g : graph) (u v : nat) : Prop := In u (keys g) /\ In v (adj g u).

(* edge between two keys (BFS ignores targets that are not keys) *)
Definition KEdge (g : graph) (u v : nat) : Prop := Edge g u v /\ In v (keys g).

(* symmetric closure *)
Definition UEdge (g : graph) (u v : nat) : Prop := KEdge g u v \/ KEdge g v u.

Definition Path (g : graph) : nat -> nat -> Prop := clos_refl_trans nat (Edge g).
Definition KPath (g : graph) : nat -> nat -> Prop := clos_refl_trans nat (KEdge g).
Definition UPath (g : graph) : nat -> nat -> Prop := clos_refl_trans nat (UEdge g).

(* p is a walk along edges *)
Fixpoint Walk (g : graph) (p : list nat) : Prop :=
  match p with
  | [] => True
  | u :: p' => match p' with
               | [] => True
               | v :: _ => Edge g u v /\ Walk g p'
               end
  end.

(* p is a simple path starting at s *)
Definition SimplePath (g : graph) (s : nat) (p : list nat) : Prop :=
  hd_error p = Some s /\ NoDup p /\ Walk g p.

(* a simple path that cannot be extended at its end *)
Definition Maximal (g : graph) (s : nat) (p : list nat) : Prop :=
  SimplePath g s p /\ forall v, ~ SimplePath g s (p ++ [v]).

(* v is a source: a vertex without incoming edges *)
Definition Source (g : graph) (v : nat) : Prop :=
  In v (keys g) /\ forall u, ~ Edge g u v.
