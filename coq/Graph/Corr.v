(* Graph/Corr.v -- comparison of implementation outputs with the model, evaluated by
   vm_compute on case files written by harness/c19.py.  Definitions only. *)
From Coq Require Import List Arith Bool.
Import ListNotations.
From Heph Require Import Graph.Model.

Definition subset (a b : list nat) : bool := forallb (fun x => mem x b) a.
Definition set_eqb (a b : list nat) : bool := subset a b && subset b a.

Fixpoint lists_eqb (a b : list (list nat)) : bool :=
  match a, b with
  | [], [] => true
  | x :: a', y :: b' => list_eqb x y && lists_eqb a' b'
  | _, _ => false
  end.

Fixpoint bools_eqb (a b : list bool) : bool :=
  match a, b with
  | [], [] => true
  | x :: a', y :: b' => Bool.eqb x y && bools_eqb a' b'
  | _, _ => false
  end.

(* what the Python side observed for (g, s) and the destinations ds *)
Record expected := {
  e_reach : list bool;          (* reachable(g,s,d) for d in ds *)
  e_bi : list bool;
  e_conn : list bool;
  e_nreach : list bool;         (* none_reachable(g,s,none=d) *)
  e_nconn : list bool;
  e_paths : list (list nat);    (* find_all_paths, order included *)
  e_longest : list (list nat);  (* find_longest_paths, order included *)
  e_allreach : list nat;        (* set *)
  e_allbi : list nat;           (* set *)
  e_allconn : list nat;         (* set *)
  e_sources : option (list nat);(* None = KeyError; order included *)
  e_dfs : list nat              (* set *)
}.

Definition sources_eqb (o : outcome (list nat)) (e : option (list nat)) : bool :=
  match o, e with
  | Ok l, Some l' => list_eqb l l'
  | KeyError, None => true
  | _, _ => false
  end.

Definition opt_paths_eqb (o : option (list (list nat))) (e : list (list nat)) : bool :=
  match o with Some l => lists_eqb l e | None => false end.

Definition opt_bools (f : nat -> option bool) (ds : list nat) (e : list bool) : bool :=
  (fix go ds e := match ds, e with
                  | [], [] => true
                  | d :: ds', b :: e' => match f d with Some b' => Bool.eqb b b' && go ds' e' | None => false end
                  | _, _ => false end) ds e.

(* indices of the functions whose model value differs from the observed value *)
Definition check_case (g : graph) (s : nat) (ds : list nat) (e : expected) : list nat :=
  (if opt_bools (reachable_opt g s) ds (e_reach e) then [] else [0]) ++
  (if bools_eqb (map (bi_reachable g s) ds) (e_bi e) then [] else [1]) ++
  (if opt_bools (connected_opt g s) ds (e_conn e) then [] else [2]) ++
  (if bools_eqb (map (none_reachable g s) ds) (e_nreach e) then [] else [3]) ++
  (if bools_eqb (map (none_connected g s) ds) (e_nconn e) then [] else [4]) ++
  (if opt_paths_eqb (find_all_paths_opt g s) (e_paths e) then [] else [5]) ++
  (if lists_eqb (find_longest_paths g s) (e_longest e) then [] else [6]) ++
  (if set_eqb (find_all_reachable g s) (e_allreach e) then [] else [7]) ++
  (if set_eqb (find_all_bi_reachable g s) (e_allbi e) then [] else [8]) ++
  (if set_eqb (find_all_connected g s) (e_allconn e) then [] else [9]) ++
  (if sources_eqb (find_sources_out g s) (e_sources e) then [] else [10]) ++
  (if match dfs_opt g s with Some l => set_eqb l (e_dfs e) | None => false end then [] else [11]).

Definition case := (graph * nat * list nat * expected)%type.

Fixpoint mismatches (i : nat) (cs : list case) : list nat :=
  match cs with
  | [] => []
  | (g, s, ds, e) :: cs' => map (fun f => i * 16 + f) (check_case g s ds e) ++ mismatches (S i) cs'
  end.
