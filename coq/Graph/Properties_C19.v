(* Properties_C19.v -- the property theorems, nothing else. *)
From Coq Require Import List Arith Bool Relations.
Import ListNotations.
From Heph Require Import Graph.Model Graph.Spec Graph.Proofs Graph.ProofsPaths Graph.ProofsDfs.

Theorem bi_reachable_is_symmetric_closure_of_reachable :
  forall g s d, bi_reachable g s d = reachable g s d || reachable g d s.
Proof. exact bi_reachable_def. Qed.
Print Assumptions bi_reachable_is_symmetric_closure_of_reachable.

Theorem reachable_fuel_ok : forall g s d, reachable_opt g s d <> None.
Proof. exact reachable_fuel_ok_lem. Qed.
Print Assumptions reachable_fuel_ok.

Theorem reachable_correct :
  forall g s d, reachable g s d = true <-> (In s (keys g) /\ KPath g s d).
Proof. exact reachable_correct_lem. Qed.
Print Assumptions reachable_correct.

Theorem bi_reachable_correct :
  forall g s d, bi_reachable g s d = true <->
    ((In s (keys g) /\ KPath g s d) \/ (In d (keys g) /\ KPath g d s)).
Proof. exact bi_reachable_correct_lem. Qed.
Print Assumptions bi_reachable_correct.

Theorem connected_fuel_ok : forall g s d, connected_opt g s d <> None.
Proof. exact connected_fuel_ok_lem. Qed.
Print Assumptions connected_fuel_ok.

Theorem connected_correct :
  forall g s d, WfGraph g -> (connected g s d = true <-> (In s (keys g) /\ UPath g s d)).
Proof. exact connected_correct_lem. Qed.
Print Assumptions connected_correct.

Theorem find_all_bi_reachable_correct :
  forall g s n, In n (find_all_bi_reachable g s) <-> (In n (keys g) /\ bi_reachable g s n = true).
Proof. exact find_all_bi_reachable_correct_lem. Qed.
Print Assumptions find_all_bi_reachable_correct.

Theorem find_all_connected_correct :
  forall g s n, In n (find_all_connected g s) <-> (In n (keys g) /\ connected g s n = true).
Proof. exact find_all_connected_correct_lem. Qed.
Print Assumptions find_all_connected_correct.

Theorem find_all_paths_correct :
  forall g s, exists l, find_all_paths_opt g s = Some l /\ (forall p, In p l <-> SimplePath g s p).
Proof. exact find_all_paths_correct_lem. Qed.
Print Assumptions find_all_paths_correct.

Theorem find_all_paths_nodup :
  forall g s, (forall u, NoDup (adj g u)) -> NoDup (find_all_paths g s).
Proof. exact find_all_paths_nodup_lem. Qed.
Print Assumptions find_all_paths_nodup.

Theorem find_longest_paths_correct :
  forall g s p, In p (find_longest_paths g s) <-> Maximal g s p.
Proof. exact find_longest_paths_correct_lem. Qed.
Print Assumptions find_longest_paths_correct.

Theorem find_all_reachable_correct :
  forall g s v, In v (find_all_reachable g s) <-> Path g s v.
Proof. exact find_all_reachable_correct_lem. Qed.
Print Assumptions find_all_reachable_correct.

Theorem find_sources_correct :
  forall g v, WfGraph g -> In v (keys g) ->
    exists l, find_sources_out g v = Ok l /\ NoDup l /\
              (forall x, In x l <-> (Source g x /\ KPath g x v)).
Proof. exact find_sources_correct_lem. Qed.
Print Assumptions find_sources_correct.

Theorem dfs_correct :
  forall g s, exists l, dfs_opt g s = Some l /\ (forall v, In v l <-> (v <> s /\ Path g s v)).
Proof. exact dfs_correct_lem. Qed.
Print Assumptions dfs_correct.

(* non-vacuity: a well-formed graph with the cycle 0 -> 1 -> 2 -> 0, the self-loop
   2 -> 2, the isolated vertex 3 and the source 4 -> 0; the hypotheses of the theorems
   above are satisfiable and the functions return the expected concrete values. *)
Example c19_nonvacuous :
  let g : graph := [(0, [1]); (1, [2]); (2, [0; 2]); (3, []); (4, [0])] in
  WfGraph g /\ (forall u, NoDup (adj g u)) /\
  reachable g 0 2 = true /\ reachable g 0 3 = false /\ reachable g 0 4 = false /\
  reachable g 4 2 = true /\ bi_reachable g 2 4 = true /\
  connected g 1 4 = true /\ connected g 3 0 = false /\
  find_sources_out g 2 = Ok [4] /\ find_sources_out g 3 = Ok [3] /\
  find_sources_out g 7 = KeyError /\
  dfs_opt g 0 = Some [2; 1] /\ dfs_opt g 3 = Some [] /\
  find_all_paths_opt g 4 = Some [[4]; [4; 0]; [4; 0; 1]; [4; 0; 1; 2]] /\
  find_longest_paths g 4 = [[4; 0; 1; 2]] /\
  find_all_reachable g 4 = [4; 0; 1; 2] /\
  find_all_bi_reachable g 0 = [0; 1; 2; 4] /\
  find_all_connected g 0 = [0; 1; 2; 4].
Proof.
  intros g. split; [|split].
  - unfold WfGraph. vm_compute.
    repeat (constructor; [cbn [In]; intuition discriminate|]). constructor.
  - intros u. do 5 (destruct u as [|u]; [vm_compute; repeat (constructor; [cbn [In]; intuition discriminate|]); constructor|]).
    vm_compute. constructor.
  - vm_compute. repeat split.
Qed.
Print Assumptions c19_nonvacuous.
