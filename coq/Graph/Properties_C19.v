(* Properties_C19.v -- the property theorems, nothing else. *)
From Coq Require Import List Arith Bool Relations.
Import ListNotations.
From Heph Require Import Graph.Model Graph.Spec Graph.Proofs.

Theorem bi_reachable_is_symmetric_closure_of_reachable :
  forall g s d, bi_reachable g s d = reachable g s d || reachable g d s.
Proof. exact bi_reachable_def. Qed.
Print Assumptions bi_reachable_is_symmetric_closure_of_reachable.
