(* Properties_C19.v -- the property theorems, nothing else. *)
From Coq Require Import List Arith Bool Relations.
Import ListNotations.
From Heph Require Import Graph.Model Graph.Spec Graph.Proofs.

Theorem bi_reachable_is_symmetric_closure_of_reachable :
  forall g s d, bi_reachable g s d = reachable g s d || reachable g d s.
Proof. exact bi_reachable_def. Qed.
Print Assumptions bi_reachable_is_symmetric_closure_of_reachable.

Theorem reachable_fuel_ok : forall g s d, reachable_opt g s d <> None.
Proof. exact reachable_fuel_ok_lem. Qed.
Print Assumptions reachable_fuel_ok.

Theorem reachable_correct :
  forall g s d, reachable g s d = true <-> (In s (keys g) /\ KPath g s d).
Proof. exact reachable_correct_lem. Qed.
Print Assumptions reachable_correct.

Theorem bi_reachable_correct :
  forall g s d, bi_reachable g s d = true <->
    ((In s (keys g) /\ KPath g s d) \/ (In d (keys g) /\ KPath g d s)).
Proof. exact bi_reachable_correct_lem. Qed.
Print Assumptions bi_reachable_correct.

Theorem connected_fuel_ok : forall g s d, connected_opt g s d <> None.
Proof. exact connected_fuel_ok_lem. Qed.
Print Assumptions connected_fuel_ok.

Theorem connected_correct :
  forall g s d, WfGraph g -> (connected g s d = true <-> (In s (keys g) /\ UPath g s d)).
Proof. exact connected_correct_lem. Qed.
Print Assumptions connected_correct.

Theorem find_all_bi_reachable_correct :
  forall g s n, In n (find_all_bi_reachable g s) <-> (In n (keys g) /\ bi_reachable g s n = true).
Proof. exact find_all_bi_reachable_correct_lem. Qed.
Print Assumptions find_all_bi_reachable_correct.

Theorem find_all_connected_correct :
  forall g s n, In n (find_all_connected g s) <-> (In n (keys g) /\ connected g s n = true).
Proof. exact find_all_connected_correct_lem. Qed.
Print Assumptions find_all_connected_correct.
