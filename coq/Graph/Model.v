(* Graph/Model.v -- executable model of /repo/src/graph_utils.py.
   Definitions only (no proofs) so that the model still evaluates when a proof breaks.

   A Python graph is a dict  vertex -> list of targets.  Modelled as an association
   list with distinct keys in dict (insertion) order; targets may be non-keys and may
   repeat.  Vertices are natural numbers (the harness maps hashable Python vertices to
   naturals injectively; every function only uses == and hashing on vertices). *)
From Coq Require Import List Arith Bool ZArith.
Import ListNotations.

Definition graph := list (nat * list nat).

Definition keys (g : graph) : list nat := map fst g.

Definition mem (v : nat) (l : list nat) : bool := existsb (Nat.eqb v) l.

(* graph[v] ; the model is only ever asked for keys, [] otherwise (totalisation
   never reached from the modelled functions, see Proofs). *)
Fixpoint adj (g : graph) (v : nat) : list nat :=
  match g with
  | [] => []
  | (k, l) :: g' => if Nat.eqb k v then l else adj g' v
  end.

Definition is_key (g : graph) (v : nat) : bool := mem v (keys g).

(* ---------- reachable: BFS with visited map and FIFO queue ---------- *)

(* one "for vertex in graph[next_v]" loop: state = (queue, visited) *)
Definition bfs_push (g : graph) (st : list nat * list nat) (v : nat) : list nat * list nat :=
  let '(q, vis) := st in
  if is_key g v && negb (mem v vis) then (q ++ [v], v :: vis) else (q, vis).

Fixpoint bfs (fuel : nat) (g : graph) (d : nat) (queue visited : list nat) : option bool :=
  match fuel with
  | O => None                         (* out of fuel: distinguishable from any answer *)
  | S f =>
      match queue with
      | [] => Some false
      | x :: q =>
          if Nat.eqb x d then Some true
          else let '(q', vis') := fold_left (bfs_push g) (adj g x) (q, visited) in
               bfs f g d q' vis'
      end
  end.

Definition reachable_fuel (g : graph) : nat := S (S (length g)).

Definition reachable_opt (g : graph) (s d : nat) : option bool :=
  if is_key g s then bfs (reachable_fuel g) g d [s] [s] else Some false.

Definition reachable (g : graph) (s d : nat) : bool :=
  match reachable_opt g s d with Some b => b | None => false end.

Definition bi_reachable (g : graph) (s d : nat) : bool :=
  reachable g s d || reachable g d s.

(* ---------- connected: BFS over the symmetric closure ---------- *)

(* body of "for node, adjs in graph.items()" for the popped vertex x *)
Definition conn_item (g : graph) (x : nat) (st : list nat * list nat) (item : nat * list nat)
  : list nat * list nat :=
  let '(node, adjs) := item in
  let st1 := if Nat.eqb x node then fold_left (bfs_push g) adjs st else st in
  let '(q, vis) := st1 in
  if mem x adjs && negb (mem node vis) then (q ++ [node], node :: vis) else (q, vis).

Fixpoint cbfs (fuel : nat) (g : graph) (d : nat) (queue visited : list nat) : option bool :=
  match fuel with
  | O => None
  | S f =>
      match queue with
      | [] => Some false
      | x :: q =>
          if Nat.eqb x d then Some true
          else let '(q', vis') := fold_left (conn_item g x) g (q, visited) in
               cbfs f g d q' vis'
      end
  end.

Definition connected_opt (g : graph) (s d : nat) : option bool :=
  if is_key g s then cbfs (reachable_fuel g) g d [s] [s] else Some false.

Definition connected (g : graph) (s d : nat) : bool :=
  match connected_opt g s d with Some b => b | None => false end.

(* ---------- find_all_paths ---------- *)

(* find_all_paths(graph, start, path): [path] is the prefix *before* start is appended.
   Recursion depth is bounded by the number of keys + 1 (a path never repeats a vertex
   and only its last vertex may be a non-key); out of fuel returns None. *)
Fixpoint fap (fuel : nat) (g : graph) (start : nat) (path : list nat) : option (list (list nat)) :=
  match fuel with
  | O => None
  | S f =>
      let path' := path ++ [start] in
      if negb (is_key g start) then Some [path']
      else
        fold_left
          (fun (acc : option (list (list nat))) (node : nat) =>
             match acc with
             | None => None
             | Some paths =>
                 if mem node path' then Some paths
                 else match fap f g node path' with
                      | None => None
                      | Some newpaths => Some (paths ++ newpaths)
                      end
             end)
          (adj g start) (Some [path'])
  end.

Definition fap_fuel (g : graph) : nat := S (S (length g)).

Definition find_all_paths_opt (g : graph) (s : nat) : option (list (list nat)) :=
  fap (fap_fuel g) g s [].

Definition find_all_paths (g : graph) (s : nat) : list (list nat) :=
  match find_all_paths_opt g s with Some l => l | None => [] end.

(* ---------- find_longest_paths ---------- *)

Fixpoint list_eqb (a b : list nat) : bool :=
  match a, b with
  | [], [] => true
  | x :: a', y :: b' => Nat.eqb x y && list_eqb a' b'
  | _, _ => false
  end.

(* exist(x, y): x is a proper prefix of y
   (len(x) < len(y) and x == y[:len(x)]; the code after the fix: commit in /repo) *)
Definition exist_py (x y : list nat) : bool :=
  Nat.ltb (length x) (length y) && list_eqb x (firstn (length x) y).

Definition find_longest_paths (g : graph) (s : nat) : list (list nat) :=
  let paths := find_all_paths g s in
  if Nat.eqb (length paths) 1 then paths
  else filter (fun x => negb (existsb (exist_py x) paths)) paths.

(* dedup preserving first occurrences: a Python set built by update() over lists,
   compared as a set by the harness *)
Fixpoint dedup (l : list nat) : list nat :=
  match l with
  | [] => []
  | x :: l' => if mem x l' then dedup l' else x :: dedup l'
  end.

Definition find_all_reachable (g : graph) (s : nat) : list nat :=
  dedup (concat (find_longest_paths g s)).

Definition find_all_bi_reachable (g : graph) (s : nat) : list nat :=
  filter (fun n => bi_reachable g s n) (keys g).

Definition find_all_connected (g : graph) (s : nat) : list nat :=
  filter (fun n => connected g s n) (keys g).

(* none_reachable / none_connected with an explicit none node *)
Definition none_reachable (g : graph) (v none : nat) : bool :=
  existsb (fun u => bi_reachable g u none) (find_all_bi_reachable g v).

Definition none_connected (g : graph) (v none : nat) : bool :=
  existsb (fun u => connected g u none) (find_all_connected g v).

(* ---------- find_sources: iterative DFS over predecessors ---------- *)

Definition preds (g : graph) (v : nat) : list nat :=
  map fst (filter (fun item => mem v (snd item)) g).

(* stack is a Python list used with pop() / extend(): head of the Coq list = top,
   so extend(l) pushes rev l on top. *)
Fixpoint fs_loop (fuel : nat) (g : graph) (stack visited sources : list nat) : option (list nat) :=
  match fuel with
  | O => None
  | S f =>
      match stack with
      | [] => Some sources
      | x :: st =>
          if mem x visited then fs_loop f g st visited sources
          else
            let ps := preds g x in
            match ps with
            | [] => fs_loop f g st (x :: visited) (sources ++ [x])
            | _ => fs_loop f g (rev ps ++ st) (x :: visited) sources
            end
      end
  end.

Definition fs_fuel (g : graph) : nat := S (S (length g * length g + length g)).

(* visited[vertex] raises KeyError when vertex is not a key: outcome None2 *)
Inductive outcome (A : Type) := Ok (a : A) | KeyError | OutOfFuel.
Arguments Ok {A} a. Arguments KeyError {A}. Arguments OutOfFuel {A}.

Definition find_sources_out (g : graph) (v : nat) : outcome (list nat) :=
  if is_key g v then
    match fs_loop (fs_fuel g) g [v] [] [] with Some l => Ok l | None => OutOfFuel end
  else KeyError.

Definition find_sources (g : graph) (v : nat) : list nat :=
  match find_sources_out g v with Ok l => l | _ => [] end.

(* ---------- dfs (used by is_combination_feasible) ---------- *)

(* graph.get(n, []) and visited.get(t, False): non-key targets are visited too and
   become members of the result.  Recursive in Python; here a stack of pending
   adjacency suffixes (faithful visiting order, which does not influence the set). *)
Fixpoint dfs_loop (fuel : nat) (g : graph) (stack : list (list nat)) (visited : list nat)
  : option (list nat) :=
  match fuel with
  | O => None
  | S f =>
      match stack with
      | [] => Some visited
      | [] :: st => dfs_loop f g st visited
      | (t :: rest) :: st =>
          if mem t visited then dfs_loop f g (rest :: st) visited
          else dfs_loop f g (adj g t :: rest :: st) (t :: visited)
      end
  end.

Definition edge_count (g : graph) : nat := fold_right (fun item n => length (snd item) + n) 0 g.

Definition dfs_fuel (g : graph) : nat := S (S (2 * edge_count g + 2 * length g + 2)).

Definition dfs_opt (g : graph) (s : nat) : option (list nat) :=
  match dfs_loop (dfs_fuel g) g [adj g s] [s] with
  | Some vis => Some (filter (fun n => negb (Nat.eqb n s)) vis)
  | None => None
  end.

Definition dfs (g : graph) (s : nat) : list nat :=
  match dfs_opt g s with Some l => l | None => [] end.
