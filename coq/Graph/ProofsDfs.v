(* Graph/ProofsDfs.v -- dfs and find_sources. *)
From Coq Require Import List Arith Bool Lia Relations Operators_Properties.
Import ListNotations.
From Heph Require Import Graph.Model Graph.Spec Graph.Proofs Graph.ProofsPaths.

(* ------------------------------------------------------------------ *)
(* dfs                                                                  *)
(* ------------------------------------------------------------------ *)

(* total length of the adjacency lists of the entries whose key is not visited *)
Definition W (g : graph) (vis : list nat) : nat :=
  fold_right (fun item n => (if mem (fst item) vis then 0 else length (snd item)) + n) 0 g.

Lemma W_nil g : W g [] = edge_count g.
Proof.
  unfold W, edge_count. induction g as [|[k l] g IH]; [reflexivity|].
  cbn [fold_right fst snd]. rewrite IH. reflexivity.
Qed.

Lemma W_cons_le g t vis : W g (t :: vis) <= W g vis.
Proof.
  unfold W. induction g as [|[k l] g IH]; [cbn; lia|].
  cbn [fold_right fst snd]. rewrite mem_cons.
  destruct (Nat.eqb k t); destruct (mem k vis); cbn [orb]; lia.
Qed.

Lemma W_visit g t vis : ~ In t vis -> W g (t :: vis) + length (adj g t) <= W g vis.
Proof.
  intros Hn. induction g as [|[k l] g IH]; [cbn; lia|].
  unfold W in *. cbn [fold_right fst snd adj]. rewrite mem_cons.
  destruct (Nat.eqb k t) eqn:E.
  - apply Nat.eqb_eq in E. subst k. apply mem_false in Hn. rewrite Hn. cbn [orb].
    pose proof (W_cons_le g t vis) as Hle. unfold W in Hle. lia.
  - cbn [orb]. destruct (mem k vis); lia.
Qed.

Lemma dfs_loop_spec g s : forall fuel stack vis,
  2 * length (concat stack) + length stack + 2 * W g vis < fuel ->
  (forall v, In v vis -> Path g s v) ->
  (forall v, In v (concat stack) -> Path g s v) ->
  (forall u v, In u vis -> In v (adj g u) -> In v vis \/ In v (concat stack)) ->
  exists vis', dfs_loop fuel g stack vis = Some vis' /\
    incl vis vis' /\ (forall v, In v vis' -> Path g s v) /\
    (forall u v, In u vis' -> In v (adj g u) -> In v vis').
Proof.
  induction fuel as [|f IH]; intros stack vis Hm Hvis Hst Hcl; [lia|].
  cbn [dfs_loop]. destruct stack as [|[|t rest] st].
  - exists vis. split; [reflexivity|]. split; [apply incl_refl|]. split; [exact Hvis|].
    intros u v Hu Hv. destruct (Hcl u v Hu Hv) as [H|[]]. exact H.
  - cbn [concat app length] in *. apply IH; [lia|exact Hvis|exact Hst|exact Hcl].
  - cbn [concat] in *. rewrite <- app_comm_cons in *. cbn [length] in Hm.
    destruct (mem t vis) eqn:E.
    + apply mem_In in E. apply IH.
      * cbn [concat length]. lia.
      * exact Hvis.
      * intros v Hv. apply Hst. right. exact Hv.
      * intros u v Hu Hv. destruct (Hcl u v Hu Hv) as [H|[H|H]].
        -- left. exact H.
        -- subst v. left. exact E.
        -- right. exact H.
    + apply mem_false in E.
      assert (Hpt : Path g s t) by (apply Hst; left; reflexivity).
      destruct (IH (adj g t :: rest :: st) (t :: vis)) as [vis' [Hr [Hincl [Hp Hc]]]].
      * pose proof (W_visit g t vis E) as HW.
        cbn [concat length]. rewrite app_length. lia.
      * intros v [Hv|Hv]; [subst; exact Hpt|apply Hvis; exact Hv].
      * cbn [concat]. intros v Hv. apply in_app_or in Hv. destruct Hv as [Hv|Hv].
        -- eapply rt_trans; [exact Hpt|]. apply rt_step. apply (proj2 (Edge_adj g t v)). exact Hv.
        -- apply Hst. right. exact Hv.
      * cbn [concat]. intros u v [Hu|Hu] Hv.
        -- subst u. right. apply in_or_app. left. exact Hv.
        -- destruct (Hcl u v Hu Hv) as [H|[H|H]].
           ++ left. right. exact H.
           ++ left. left. exact H.
           ++ right. apply in_or_app. right. exact H.
      * exists vis'. split; [exact Hr|]. split; [|split; assumption].
        intros y Hy. apply Hincl. right. exact Hy.
Qed.

Lemma dfs_correct_lem :
  forall g s, exists l, dfs_opt g s = Some l /\ (forall v, In v l <-> (v <> s /\ Path g s v)).
Proof.
  intros g s. unfold dfs_opt.
  destruct (dfs_loop_spec g s (dfs_fuel g) [adj g s] [s]) as [vis' [Hr [Hincl [Hp Hc]]]].
  - pose proof (W_visit g s [] (fun H => H)) as HW. rewrite W_nil in HW.
    unfold dfs_fuel. cbn [concat length]. rewrite app_nil_r. lia.
  - intros v [Hv|[]]. subst. apply rt_refl.
  - cbn [concat]. rewrite app_nil_r. intros v Hv. apply rt_step.
    apply (proj2 (Edge_adj g s v)). exact Hv.
  - cbn [concat]. rewrite app_nil_r. intros u v [Hu|[]] Hv. subst u. right. exact Hv.
  - rewrite Hr. eexists. split; [reflexivity|]. intros v. rewrite filter_In.
    rewrite negb_true_iff, Nat.eqb_neq. split.
    + intros [Hv Hne]. split; [exact Hne|apply Hp; exact Hv].
    + intros [Hne Hpv]. split; [|exact Hne].
      apply (crt_closed (Edge g) (fun u => In u vis')) with (s := s); [|exact Hpv|].
      * intros u w Hu Huw. apply (Hc u w Hu). apply (proj1 (Edge_adj g u w)). exact Huw.
      * apply Hincl. left. reflexivity.
Qed.

(* ------------------------------------------------------------------ *)
(* find_sources                                                         *)
(* ------------------------------------------------------------------ *)

Lemma filter_length_le' {A} (f : A -> bool) (l : list A) : length (filter f l) <= length l.
Proof. induction l as [|a l IH]; cbn [filter length]; [lia|]. destruct (f a); cbn [length]; lia. Qed.

Lemma preds_length g x : length (preds g x) <= length g.
Proof. unfold preds. rewrite map_length. apply filter_length_le'. Qed.

Lemma preds_keys g x k : In k (preds g x) -> In k (keys g).
Proof.
  unfold preds, keys. intros H. apply in_map_iff in H. destruct H as [item [Hk Hin]].
  apply filter_In in Hin. destruct Hin as [Hin _]. subst k. apply in_map. exact Hin.
Qed.

Lemma In_preds g x k : WfGraph g -> (In k (preds g x) <-> Edge g k x).
Proof.
  intros Hwf. unfold preds. rewrite in_map_iff. split.
  - intros [[k0 l] [Hk Hin]]. cbn [fst] in Hk. subst k0. apply filter_In in Hin.
    destruct Hin as [Hin Hm]. cbn [snd] in Hm. apply mem_In in Hm.
    apply (proj2 (Edge_adj g k x)). rewrite (wf_item g k l Hwf Hin). exact Hm.
  - intros [Hk Hx]. exists (k, adj g k). split; [reflexivity|]. apply filter_In.
    split; [apply key_item; exact Hk|]. cbn [snd]. apply mem_In. exact Hx.
Qed.

Lemma crt_closed_back (R : relation nat) (P : nat -> Prop) :
  (forall u v, P v -> R u v -> P u) ->
  forall s d, clos_refl_trans nat R s d -> P d -> P s.
Proof.
  intros Hcl s d Hp. apply clos_rt_rtn1 in Hp.
  induction Hp as [|y z Hyz _ IH]; intros Hd; [exact Hd|].
  apply IH. eapply Hcl; eauto.
Qed.

Lemma fs_loop_spec g v : WfGraph g -> forall fuel stack vis srcs,
  length stack + length g * cnt (keys g) vis < fuel ->
  (forall x, In x stack -> In x (keys g) /\ KPath g x v) ->
  (forall x, In x vis -> In x (keys g) /\ KPath g x v) ->
  (forall u k, In u vis -> Edge g k u -> In k vis \/ In k stack) ->
  (forall x, In x srcs <-> In x vis /\ preds g x = []) ->
  NoDup srcs ->
  exists l vis', fs_loop fuel g stack vis srcs = Some l /\ NoDup l /\
    incl vis vis' /\ incl stack vis' /\
    (forall x, In x vis' -> In x (keys g) /\ KPath g x v) /\
    (forall u k, In u vis' -> Edge g k u -> In k vis') /\
    (forall x, In x l <-> In x vis' /\ preds g x = []).
Proof.
  intros Hwf. induction fuel as [|f IH]; intros stack vis srcs Hm Hst Hvis Hcl Hsrc Hnd; [lia|].
  cbn [fs_loop]. destruct stack as [|x st].
  - exists srcs, vis. split; [reflexivity|]. split; [exact Hnd|].
    split; [apply incl_refl|]. split; [intros y []|]. split; [exact Hvis|]. split; [|exact Hsrc].
    intros u k Hu Hk. destruct (Hcl u k Hu Hk) as [H|[]]. exact H.
  - cbn [length] in Hm. destruct (mem x vis) eqn:E.
    + apply mem_In in E.
      destruct (IH st vis srcs) as [l [vis' [Hr [Hndl [Hi1 [Hi2 [Hv' [Hc' Hs']]]]]]]].
      * lia.
      * intros y Hy. apply Hst. right. exact Hy.
      * exact Hvis.
      * intros u k Hu Hk. destruct (Hcl u k Hu Hk) as [H|[H|H]].
        -- left. exact H.
        -- subst k. left. exact E.
        -- right. exact H.
      * exact Hsrc.
      * exact Hnd.
      * exists l, vis'. split; [exact Hr|]. split; [exact Hndl|]. split; [exact Hi1|].
        split; [|split; [exact Hv'|split; [exact Hc'|exact Hs']]].
        intros y [Hy|Hy]; [subst y; apply Hi1; exact E|apply Hi2; exact Hy].
    + apply mem_false in E.
      destruct (Hst x (or_introl eq_refl)) as [Hkx Hpx].
      pose proof (cnt_cons_lt (keys g) x vis Hkx E) as Hcnt.
      assert (Hmul : length g * cnt (keys g) (x :: vis) + length g <= length g * cnt (keys g) vis).
      { pose proof (Nat.mul_le_mono_l (cnt (keys g) (x :: vis) + 1) (cnt (keys g) vis) (length g)) as H.
        rewrite Nat.mul_add_distr_l, Nat.mul_1_r in H. apply H. lia. }
      remember (preds g x) as ps eqn:Hps. destruct ps as [|p ps].
      * (* x is a source *)
        destruct (IH st (x :: vis) (srcs ++ [x])) as [l [vis' [Hr [Hndl [Hi1 [Hi2 [Hv' [Hc' Hs']]]]]]]].
        -- lia.
        -- intros y Hy. apply Hst. right. exact Hy.
        -- intros y [Hy|Hy]; [subst y; split; assumption|apply Hvis; exact Hy].
        -- intros u k [Hu|Hu] Hk.
           ++ subst u. apply (In_preds g x k Hwf) in Hk. rewrite <- Hps in Hk. contradiction.
           ++ destruct (Hcl u k Hu Hk) as [H|[H|H]].
              ** left. right. exact H.
              ** left. left. exact H.
              ** right. exact H.
        -- intros y. split.
           ++ intros Hy. apply in_app_or in Hy. destruct Hy as [Hy|[Hy|[]]].
              ** apply Hsrc in Hy. destruct Hy as [H1 H2]. split; [right; exact H1|exact H2].
              ** subst y. split; [left; reflexivity|symmetry; exact Hps].
           ++ intros [[Hy|Hy] Hp]; apply in_or_app.
              ** right. left. exact Hy.
              ** left. apply Hsrc. split; assumption.
        -- apply NoDup_snoc_iff. split; [exact Hnd|]. intros Hc. apply Hsrc in Hc.
           destruct Hc as [Hc _]. contradiction.
        -- exists l, vis'. split; [exact Hr|]. split; [exact Hndl|].
           split; [intros y Hy; apply Hi1; right; exact Hy|].
           split; [|split; [exact Hv'|split; [exact Hc'|exact Hs']]].
           intros y [Hy|Hy]; [subst y; apply Hi1; left; reflexivity|apply Hi2; exact Hy].
      * (* x has predecessors *)
        rewrite Hps.
        assert (Hne : preds g x <> []) by (rewrite <- Hps; discriminate).
        destruct (IH (rev (preds g x) ++ st) (x :: vis) srcs)
          as [l [vis' [Hr [Hndl [Hi1 [Hi2 [Hv' [Hc' Hs']]]]]]]].
        -- rewrite app_length, rev_length. pose proof (preds_length g x). lia.
        -- intros y Hy. apply in_app_or in Hy. destruct Hy as [Hy|Hy].
           ++ apply in_rev in Hy. split; [eapply preds_keys; exact Hy|].
              apply (In_preds g x y Hwf) in Hy.
              eapply rt_trans; [|exact Hpx]. apply rt_step. split; [exact Hy|exact Hkx].
           ++ apply Hst. right. exact Hy.
        -- intros y [Hy|Hy]; [subst y; split; assumption|apply Hvis; exact Hy].
        -- intros u k [Hu|Hu] Hk.
           ++ subst u. right. apply in_or_app. left. apply in_rev. rewrite rev_involutive.
              apply (In_preds g x k Hwf). exact Hk.
           ++ destruct (Hcl u k Hu Hk) as [H|[H|H]].
              ** left. right. exact H.
              ** left. left. exact H.
              ** right. apply in_or_app. right. exact H.
        -- intros y. split.
           ++ intros Hy. apply Hsrc in Hy. destruct Hy as [H1 H2]. split; [right; exact H1|exact H2].
           ++ intros [[Hy|Hy] Hp]; [subst y; contradiction|apply Hsrc; split; assumption].
        -- exact Hnd.
        -- exists l, vis'. split; [exact Hr|]. split; [exact Hndl|].
           split; [intros y Hy; apply Hi1; right; exact Hy|].
           split; [|split; [exact Hv'|split; [exact Hc'|exact Hs']]].
           intros y [Hy|Hy]; [subst y; apply Hi1; left; reflexivity|].
           apply Hi2. apply in_or_app. right. exact Hy.
Qed.

Lemma find_sources_correct_lem :
  forall g v, WfGraph g -> In v (keys g) ->
    exists l, find_sources_out g v = Ok l /\ NoDup l /\
              (forall x, In x l <-> (Source g x /\ KPath g x v)).
Proof.
  intros g v Hwf Hv. unfold find_sources_out.
  pose proof (proj2 (is_key_In g v) Hv) as Hk. rewrite Hk.
  destruct (fs_loop_spec g v Hwf (fs_fuel g) [v] [] [])
    as [l [vis' [Hr [Hndl [_ [Hi2 [Hv' [Hc' Hs']]]]]]]].
  - unfold fs_fuel. cbn [length].
    pose proof (cnt_le_length (keys g) []) as H. rewrite keys_length in H.
    pose proof (Nat.mul_le_mono_l _ _ (length g) H). lia.
  - intros x [Hx|[]]. subst x. split; [exact Hv|apply rt_refl].
  - intros x [].
  - intros u k [].
  - intros x. split; [intros []|intros [[] _]].
  - constructor.
  - rewrite Hr. exists l. split; [reflexivity|]. split; [exact Hndl|].
    intros x. rewrite Hs'. split.
    + intros [Hx Hp]. destruct (Hv' x Hx) as [Hkx Hpx]. split; [|exact Hpx].
      split; [exact Hkx|]. intros u Hu. apply (In_preds g x u Hwf) in Hu.
      rewrite Hp in Hu. contradiction.
    + intros [[Hkx Hno] Hpx]. split.
      * apply (crt_closed_back (KEdge g) (fun u => In u vis')) with (d := v); [|exact Hpx|].
        -- intros u w Hw [Huw _]. apply (Hc' w u Hw Huw).
        -- apply Hi2. left. reflexivity.
      * destruct (preds g x) as [|k ps] eqn:Hp; [reflexivity|]. exfalso.
        apply (Hno k). apply (In_preds g x k Hwf). rewrite Hp. left. reflexivity.
Qed.
