(* Graph/Proofs.v -- lemmas about Graph/Model.v *)
From Coq Require Import List Arith Bool Lia Relations.
Import ListNotations.
From Heph Require Import Graph.Model Graph.Spec.

Lemma bi_reachable_def g s d : bi_reachable g s d = reachable g s d || reachable g d s.
Proof. reflexivity. Qed.
