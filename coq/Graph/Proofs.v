(* Graph/Proofs.v -- lemmas about Graph/Model.v : basic facts, BFS (reachable,
   bi_reachable, connected) and the filter-based queries. *)
From Coq Require Import List Arith Bool Lia Relations Operators_Properties.
Import ListNotations.
From Heph Require Import Graph.Model Graph.Spec.

Lemma bi_reachable_def g s d : bi_reachable g s d = reachable g s d || reachable g d s.
Proof. reflexivity. Qed.

(* ------------------------------------------------------------------ *)
(* mem / is_key / adj                                                   *)
(* ------------------------------------------------------------------ *)

Lemma mem_In v l : mem v l = true <-> In v l.
Proof.
  unfold mem. rewrite existsb_exists. split.
  - intros [x [Hin Heq]]. apply Nat.eqb_eq in Heq. subst. exact Hin.
  - intros Hin. exists v. split; [exact Hin | apply Nat.eqb_refl].
Qed.

Lemma mem_false v l : mem v l = false <-> ~ In v l.
Proof.
  rewrite <- mem_In. destruct (mem v l); split; intros H; congruence.
Qed.

Lemma mem_cons a v l : mem a (v :: l) = Nat.eqb a v || mem a l.
Proof. reflexivity. Qed.

Lemma is_key_In g v : is_key g v = true <-> In v (keys g).
Proof. unfold is_key. apply mem_In. Qed.

Lemma is_key_false g v : is_key g v = false <-> ~ In v (keys g).
Proof. unfold is_key. apply mem_false. Qed.

Lemma keys_length g : length (keys g) = length g.
Proof. unfold keys. apply map_length. Qed.

(* only keys have a non-empty adjacency list *)
Lemma adj_In_key g u v : In v (adj g u) -> In u (keys g).
Proof.
  induction g as [|[k l] g IH]; simpl; intros H; [contradiction|].
  destruct (Nat.eqb k u) eqn:E.
  - left. apply Nat.eqb_eq. exact E.
  - right. apply IH. exact H.
Qed.

Lemma Edge_adj g u v : Edge g u v <-> In v (adj g u).
Proof.
  unfold Edge. split; [intros [_ H]; exact H|].
  intros H. split; [eapply adj_In_key; eauto | exact H].
Qed.

Lemma key_item g u : In u (keys g) -> In (u, adj g u) g.
Proof.
  induction g as [|[k l] g IH]; simpl; intros H; [contradiction|].
  destruct (Nat.eqb k u) eqn:E.
  - apply Nat.eqb_eq in E. subst. left. reflexivity.
  - destruct H as [H|H]; [subst; rewrite Nat.eqb_refl in E; discriminate|].
    right. apply IH. exact H.
Qed.

Lemma wf_item g k l : WfGraph g -> In (k, l) g -> adj g k = l.
Proof.
  unfold WfGraph. induction g as [|[k0 l0] g IH]; simpl; intros Hnd Hin; [contradiction|].
  inversion Hnd as [|? ? Hnotin Hnd']; subst.
  destruct Hin as [Heq|Hin].
  - inversion Heq; subst. rewrite Nat.eqb_refl. reflexivity.
  - destruct (Nat.eqb k0 k) eqn:E.
    + apply Nat.eqb_eq in E. subst. exfalso. apply Hnotin.
      change k with (fst (k, l)). apply in_map. exact Hin.
    + apply IH; assumption.
Qed.

(* reflexive-transitive closure is monotone *)
Lemma crt_impl (R1 R2 : relation nat) :
  (forall u v, R1 u v -> R2 u v) ->
  forall u v, clos_refl_trans nat R1 u v -> clos_refl_trans nat R2 u v.
Proof.
  intros H u v Hp. induction Hp as [x y Hs | x | x y z _ IH1 _ IH2].
  - apply rt_step. apply H. exact Hs.
  - apply rt_refl.
  - eapply rt_trans; eauto.
Qed.

(* a set containing s and closed under R contains everything R*-reachable from s *)
Lemma crt_closed (R : relation nat) (P : nat -> Prop) :
  (forall u v, P u -> R u v -> P v) ->
  forall s d, clos_refl_trans nat R s d -> P s -> P d.
Proof.
  intros Hcl s d Hp. apply clos_rt_rt1n in Hp.
  induction Hp as [x | x y z Hxy _ IH]; intros Hs; [exact Hs|].
  apply IH. eapply Hcl; eauto.
Qed.

(* ------------------------------------------------------------------ *)
(* counting the members of l that are not yet visited                   *)
(* ------------------------------------------------------------------ *)

Definition cnt (l vis : list nat) : nat :=
  length (filter (fun k => negb (mem k vis)) l).

Lemma cnt_le_length l vis : cnt l vis <= length l.
Proof.
  unfold cnt. induction l as [|a l IH]; simpl; [lia|].
  destruct (negb (mem a vis)); simpl; lia.
Qed.

Lemma cnt_cons_le l v vis : cnt l (v :: vis) <= cnt l vis.
Proof.
  unfold cnt. induction l as [|a l IH]; [simpl; lia|].
  cbn [filter]. rewrite mem_cons.
  destruct (Nat.eqb a v); destruct (mem a vis); cbn [orb negb length]; lia.
Qed.

Lemma cnt_cons_lt l v vis : In v l -> ~ In v vis -> cnt l (v :: vis) < cnt l vis.
Proof.
  intros Hin Hnv. unfold cnt. induction l as [|a l IH]; [contradiction|].
  cbn [filter]. rewrite mem_cons.
  destruct Hin as [Heq|Hin].
  - subst a. rewrite Nat.eqb_refl.
    apply mem_false in Hnv. rewrite Hnv. cbn [orb negb length].
    pose proof (cnt_cons_le l v vis) as Hle. unfold cnt in Hle. lia.
  - specialize (IH Hin).
    destruct (Nat.eqb a v); destruct (mem a vis); cbn [orb negb length]; lia.
Qed.

(* ------------------------------------------------------------------ *)
(* generic BFS over an arbitrary neighbour function                     *)
(* ------------------------------------------------------------------ *)

Section GBFS.
  Variable g : graph.
  Variable nbrs : nat -> list nat.

  Fixpoint gbfs (fuel : nat) (d : nat) (queue visited : list nat) : option bool :=
    match fuel with
    | O => None
    | S f =>
        match queue with
        | [] => Some false
        | x :: q =>
            if Nat.eqb x d then Some true
            else let '(q', vis') := fold_left (bfs_push g) (nbrs x) (q, visited) in
                 gbfs f d q' vis'
        end
    end.

  Definition GE (u v : nat) : Prop := In u (keys g) /\ In v (nbrs u) /\ In v (keys g).

  Lemma push_fold l : forall q vis q' vis',
    fold_left (bfs_push g) l (q, vis) = (q', vis') ->
    exists new, q' = q ++ new /\ vis' = rev new ++ vis /\
      (forall v, In v new -> In v l /\ In v (keys g) /\ ~ In v vis) /\
      (forall v, In v l -> In v (keys g) -> In v vis') /\
      length new + cnt (keys g) vis' <= cnt (keys g) vis.
  Proof.
    induction l as [|a l IH]; intros q vis q' vis' Hf.
    - simpl in Hf. inversion Hf; subst. exists []. simpl.
      rewrite app_nil_r. repeat split; try tauto; try lia.
    - cbn [fold_left] in Hf. unfold bfs_push at 2 in Hf.
      destruct (is_key g a && negb (mem a vis)) eqn:Hc.
      + apply andb_true_iff in Hc. destruct Hc as [Hka Hna].
        apply is_key_In in Hka. apply negb_true_iff in Hna. apply mem_false in Hna.
        destruct (IH _ _ _ _ Hf) as [new [Hq [Hv [Hs [Hcpl Hm]]]]].
        exists (a :: new). split; [|split; [|split; [|split]]].
        * rewrite Hq. rewrite <- app_assoc. reflexivity.
        * rewrite Hv. cbn [rev]. rewrite <- app_assoc. reflexivity.
        * intros v [Hva|Hvn].
          -- subst v. split; [left; reflexivity|]. split; assumption.
          -- destruct (Hs v Hvn) as [H1 [H2 H3]].
             split; [right; exact H1|]. split; [exact H2|].
             intros Hc. apply H3. right. exact Hc.
        * intros v [Hva|Hvl] Hkv.
          -- subst v. rewrite Hv. apply in_or_app. right. left. reflexivity.
          -- apply Hcpl; assumption.
        * pose proof (cnt_cons_lt (keys g) a vis Hka Hna) as Hlt.
          cbn [length]. lia.
      + destruct (IH _ _ _ _ Hf) as [new [Hq [Hv [Hs [Hcpl Hm]]]]].
        exists new. split; [exact Hq|]. split; [exact Hv|]. split; [|split].
        * intros v Hvn. destruct (Hs v Hvn) as [H1 [H2 H3]].
          split; [right; exact H1|]. split; assumption.
        * intros v [Hva|Hvl] Hkv.
          -- subst v. apply andb_false_iff in Hc. destruct Hc as [Hc|Hc].
             ++ apply is_key_In in Hkv. congruence.
             ++ apply negb_false_iff in Hc. apply mem_In in Hc.
                rewrite Hv. apply in_or_app. right. exact Hc.
          -- apply Hcpl; assumption.
        * exact Hm.
  Qed.

  Lemma gbfs_fuel : forall fuel d q vis,
    length q + cnt (keys g) vis < fuel -> gbfs fuel d q vis <> None.
  Proof.
    induction fuel as [|f IH]; intros d q vis Hm; [lia|].
    cbn [gbfs]. destruct q as [|x q]; [discriminate|].
    destruct (Nat.eqb x d); [discriminate|].
    destruct (fold_left (bfs_push g) (nbrs x) (q, vis)) as [q' vis'] eqn:Hf.
    destruct (push_fold _ _ _ _ _ Hf) as [new [Hq [Hv [_ [_ Hmm]]]]].
    apply IH. subst q'. rewrite app_length. cbn [length] in Hm. lia.
  Qed.

  Lemma gbfs_sound s : forall fuel d q vis,
    (forall u, In u q -> In u vis) ->
    (forall u, In u vis -> In u (keys g) /\ clos_refl_trans nat GE s u) ->
    gbfs fuel d q vis = Some true -> clos_refl_trans nat GE s d.
  Proof.
    induction fuel as [|f IH]; intros d q vis Hqv Hinv Hr; [discriminate|].
    cbn [gbfs] in Hr. destruct q as [|x q]; [discriminate|].
    destruct (Nat.eqb x d) eqn:Hxd.
    - apply Nat.eqb_eq in Hxd. subst x. apply Hinv. apply Hqv. left. reflexivity.
    - destruct (fold_left (bfs_push g) (nbrs x) (q, vis)) as [q' vis'] eqn:Hf.
      destruct (push_fold _ _ _ _ _ Hf) as [new [Hq [Hv [Hs [_ _]]]]].
      destruct (Hinv x (Hqv x (or_introl eq_refl))) as [Hkx Hpx].
      apply (IH d q' vis'); [| |exact Hr].
      + intros u Hu. subst q' vis'. apply in_app_or in Hu. apply in_or_app.
        destruct Hu as [Hu|Hu].
        * right. apply Hqv. right. exact Hu.
        * left. apply in_rev in Hu. exact Hu.
      + intros u Hu. subst vis'. apply in_app_or in Hu. destruct Hu as [Hu|Hu].
        * apply in_rev in Hu. destruct (Hs u Hu) as [H1 [H2 _]].
          split; [exact H2|]. eapply rt_trans; [exact Hpx|].
          apply rt_step. unfold GE. auto.
        * apply Hinv. exact Hu.
  Qed.

  Lemma gbfs_complete : forall fuel d q vis,
    (forall u, In u vis -> ~ In u q -> u <> d /\ forall v, GE u v -> In v vis) ->
    gbfs fuel d q vis = Some false ->
    forall s, In s vis -> ~ clos_refl_trans nat GE s d.
  Proof.
    induction fuel as [|f IH]; intros d q vis Hinv Hr s Hs; [discriminate|].
    cbn [gbfs] in Hr. destruct q as [|x q].
    - intros Hp.
      assert (Hd : In d vis).
      { apply (crt_closed GE (fun u => In u vis)) with (s := s); [|exact Hp|exact Hs].
        intros u v Hu Huv. apply (Hinv u Hu); [intros []|exact Huv]. }
      destruct (Hinv d Hd) as [Hne _]; [intros []|]. apply Hne. reflexivity.
    - destruct (Nat.eqb x d) eqn:Hxd; [discriminate|].
      apply Nat.eqb_neq in Hxd.
      destruct (fold_left (bfs_push g) (nbrs x) (q, vis)) as [q' vis'] eqn:Hf.
      destruct (push_fold _ _ _ _ _ Hf) as [new [Hq [Hv [_ [Hcpl _]]]]].
      apply (IH d q' vis'); [|exact Hr|].
      + intros u Hu Hnq. subst q' vis'.
        apply in_app_or in Hu. destruct Hu as [Hu|Hu].
        * exfalso. apply Hnq. apply in_or_app. right. apply in_rev. exact Hu.
        * destruct (Nat.eq_dec u x) as [Hux|Hux].
          -- subst u. split; [exact Hxd|].
             intros v [_ [Hvn Hvk]]. apply Hcpl; assumption.
          -- destruct (Hinv u Hu) as [Hne Hcl].
             { intros [Hc|Hc]; [apply Hux; symmetry; exact Hc|].
               apply Hnq. apply in_or_app. left. exact Hc. }
             split; [exact Hne|]. intros v Huv. apply in_or_app. right.
             apply Hcl. exact Huv.
      + subst vis'. apply in_or_app. right. exact Hs.
  Qed.

  Lemma gbfs_correct s d : In s (keys g) ->
    gbfs (reachable_fuel g) d [s] [s] <> None /\
    (gbfs (reachable_fuel g) d [s] [s] = Some true <-> clos_refl_trans nat GE s d).
  Proof.
    intros Hs.
    assert (Hfuel : gbfs (reachable_fuel g) d [s] [s] <> None).
    { apply gbfs_fuel. unfold reachable_fuel. cbn [length].
      pose proof (cnt_cons_lt (keys g) s [] Hs (fun H => H)) as H1.
      pose proof (cnt_le_length (keys g) []) as H2. rewrite keys_length in H2. lia. }
    split; [exact Hfuel|]. split.
    - intros Hr. apply (gbfs_sound s _ _ _ _) with (3 := Hr).
      + intros u Hu. exact Hu.
      + intros u [Hu|[]]. subst u. split; [exact Hs|apply rt_refl].
    - intros Hp. destruct (gbfs (reachable_fuel g) d [s] [s]) as [[|]|] eqn:Hr.
      + reflexivity.
      + exfalso. apply (gbfs_complete _ _ _ _) with (2 := Hr) (s := s); [|left; reflexivity|exact Hp].
        intros u Hu Hnu. exfalso. apply Hnu. exact Hu.
      + exfalso. apply Hfuel. reflexivity.
  Qed.

End GBFS.

(* ------------------------------------------------------------------ *)
(* reachable                                                            *)
(* ------------------------------------------------------------------ *)

Lemma bfs_gbfs g : forall f d q vis, bfs f g d q vis = gbfs g (adj g) f d q vis.
Proof.
  induction f as [|f IH]; intros d q vis; [reflexivity|].
  cbn [bfs gbfs]. destruct q as [|x q]; [reflexivity|].
  destruct (Nat.eqb x d); [reflexivity|].
  destruct (fold_left (bfs_push g) (adj g x) (q, vis)) as [q' vis']. apply IH.
Qed.

Lemma GE_adj_KEdge g u v : GE g (adj g) u v <-> KEdge g u v.
Proof. unfold GE, KEdge, Edge. tauto. Qed.

Lemma KPath_GE g s d : KPath g s d <-> clos_refl_trans nat (GE g (adj g)) s d.
Proof.
  unfold KPath. split; apply crt_impl; intros u v; apply GE_adj_KEdge.
Qed.

Lemma reachable_fuel_ok_lem : forall g s d, reachable_opt g s d <> None.
Proof.
  intros g s d. unfold reachable_opt. destruct (is_key g s) eqn:Hk; [|discriminate].
  apply is_key_In in Hk. rewrite bfs_gbfs.
  apply (gbfs_correct g (adj g) s d Hk).
Qed.

Lemma reachable_correct_lem :
  forall g s d, reachable g s d = true <-> (In s (keys g) /\ KPath g s d).
Proof.
  intros g s d. unfold reachable, reachable_opt. destruct (is_key g s) eqn:Hk.
  - apply is_key_In in Hk. rewrite bfs_gbfs.
    destruct (gbfs_correct g (adj g) s d Hk) as [_ Hiff].
    rewrite KPath_GE. rewrite <- Hiff. split.
    + intros H. split; [exact Hk|].
      destruct (gbfs g (adj g) (reachable_fuel g) d [s] [s]) as [[|]|]; congruence.
    + intros [_ H]. rewrite H. reflexivity.
  - apply is_key_false in Hk. split; [discriminate|]. intros [H _]. contradiction.
Qed.

Lemma bi_reachable_correct_lem :
  forall g s d, bi_reachable g s d = true <->
    ((In s (keys g) /\ KPath g s d) \/ (In d (keys g) /\ KPath g d s)).
Proof.
  intros g s d. unfold bi_reachable. rewrite orb_true_iff.
  rewrite !reachable_correct_lem. tauto.
Qed.

Lemma find_all_bi_reachable_correct_lem :
  forall g s n, In n (find_all_bi_reachable g s) <-> (In n (keys g) /\ bi_reachable g s n = true).
Proof. intros g s n. unfold find_all_bi_reachable. apply filter_In. Qed.

Lemma find_all_connected_correct_lem :
  forall g s n, In n (find_all_connected g s) <-> (In n (keys g) /\ connected g s n = true).
Proof. intros g s n. unfold find_all_connected. apply filter_In. Qed.

(* ------------------------------------------------------------------ *)
(* connected                                                            *)
(* ------------------------------------------------------------------ *)

(* the vertices the loop "for node, adjs in graph.items()" tries to push for x *)
Definition cand_item (x : nat) (item : nat * list nat) : list nat :=
  (if Nat.eqb x (fst item) then snd item else []) ++
  (if mem x (snd item) then [fst item] else []).

Definition cands (x : nat) (items : list (nat * list nat)) : list nat :=
  flat_map (cand_item x) items.

Lemma conn_item_push g x : forall items st,
  incl items g ->
  fold_left (conn_item g x) items st = fold_left (bfs_push g) (cands x items) st.
Proof.
  induction items as [|[node adjs] items IH]; intros st Hincl; [reflexivity|].
  cbn [fold_left cands flat_map]. fold (cands x items).
  rewrite fold_left_app.
  assert (Hk : is_key g node = true).
  { apply is_key_In. change node with (fst (node, adjs)). apply in_map.
    apply Hincl. left. reflexivity. }
  rewrite <- IH by (intros y Hy; apply Hincl; right; exact Hy).
  f_equal. unfold cand_item. cbn [fst snd]. rewrite fold_left_app.
  unfold conn_item.
  set (st1 := if Nat.eqb x node then fold_left (bfs_push g) adjs st else st).
  assert (Hst1 : fold_left (bfs_push g) (if Nat.eqb x node then adjs else []) st = st1).
  { unfold st1. destruct (Nat.eqb x node); reflexivity. }
  rewrite Hst1. destruct st1 as [q vis].
  destruct (mem x adjs); cbn [fold_left bfs_push andb].
  - rewrite Hk. reflexivity.
  - reflexivity.
Qed.

Lemma cbfs_gbfs g : forall f d q vis,
  cbfs f g d q vis = gbfs g (fun x => cands x g) f d q vis.
Proof.
  induction f as [|f IH]; intros d q vis; [reflexivity|].
  cbn [cbfs gbfs]. destruct q as [|x q]; [reflexivity|].
  destruct (Nat.eqb x d); [reflexivity|].
  rewrite conn_item_push by apply incl_refl.
  destruct (fold_left (bfs_push g) (cands x g) (q, vis)) as [q' vis']. apply IH.
Qed.

Lemma In_cands x items v :
  In v (cands x items) <->
  exists node adjs, In (node, adjs) items /\
    ((x = node /\ In v adjs) \/ (In x adjs /\ v = node)).
Proof.
  unfold cands. rewrite in_flat_map. split.
  - intros [[node adjs] [Hin Hv]]. exists node, adjs. split; [exact Hin|].
    unfold cand_item in Hv. cbn [fst snd] in Hv. apply in_app_or in Hv.
    destruct Hv as [Hv|Hv].
    + destruct (Nat.eqb x node) eqn:E; [|contradiction].
      apply Nat.eqb_eq in E. left. split; assumption.
    + destruct (mem x adjs) eqn:E; [|contradiction].
      apply mem_In in E. destruct Hv as [Hv|[]]. right. split; [exact E|symmetry; exact Hv].
  - intros [node [adjs [Hin Hv]]]. exists (node, adjs). split; [exact Hin|].
    unfold cand_item. cbn [fst snd]. apply in_or_app. destruct Hv as [[Hx Hv]|[Hx Hv]].
    + left. subst x. rewrite Nat.eqb_refl. exact Hv.
    + right. apply mem_In in Hx. rewrite Hx. left. symmetry. exact Hv.
Qed.

Lemma GE_cands_UEdge g u v : WfGraph g ->
  (GE g (fun x => cands x g) u v <-> UEdge g u v).
Proof.
  intros Hwf. unfold GE, UEdge, KEdge, Edge. rewrite In_cands. split.
  - intros [Hu [[node [adjs [Hin Hc]]] Hv]].
    pose proof (wf_item g node adjs Hwf Hin) as Hadj.
    destruct Hc as [[Hx Hva]|[Hx Hvn]].
    + left. subst node. rewrite Hadj. tauto.
    + right. subst node. rewrite Hadj. tauto.
  - intros [[[Hu Hva] Hv]|[[Hv Hua] Hu]].
    + split; [exact Hu|]. split; [|exact Hv].
      exists u, (adj g u). split; [apply key_item; exact Hu|]. left. tauto.
    + split; [exact Hu|]. split; [|exact Hv].
      exists v, (adj g v). split; [apply key_item; exact Hv|]. right. tauto.
Qed.

Lemma connected_fuel_ok_lem : forall g s d, connected_opt g s d <> None.
Proof.
  intros g s d. unfold connected_opt. destruct (is_key g s) eqn:Hk; [|discriminate].
  apply is_key_In in Hk. rewrite cbfs_gbfs.
  apply (gbfs_correct g (fun x => cands x g) s d Hk).
Qed.

Lemma connected_correct_lem :
  forall g s d, WfGraph g -> (connected g s d = true <-> (In s (keys g) /\ UPath g s d)).
Proof.
  intros g s d Hwf. unfold connected, connected_opt. destruct (is_key g s) eqn:Hk.
  - apply is_key_In in Hk. rewrite cbfs_gbfs.
    destruct (gbfs_correct g (fun x => cands x g) s d Hk) as [_ Hiff].
    assert (Hup : UPath g s d <-> clos_refl_trans nat (GE g (fun x => cands x g)) s d).
    { unfold UPath. split; apply crt_impl; intros u v; apply GE_cands_UEdge; exact Hwf. }
    rewrite Hup. rewrite <- Hiff. split.
    + intros H. split; [exact Hk|].
      destruct (gbfs g (fun x => cands x g) (reachable_fuel g) d [s] [s]) as [[|]|]; congruence.
    + intros [_ H]. rewrite H. reflexivity.
  - apply is_key_false in Hk. split; [discriminate|]. intros [H _]. contradiction.
Qed.
