(* Graph/ProofsPaths.v -- find_all_paths, find_longest_paths, find_all_reachable. *)
From Coq Require Import List Arith Bool Lia Relations Operators_Properties.
Import ListNotations.
From Heph Require Import Graph.Model Graph.Spec Graph.Proofs.

(* ------------------------------------------------------------------ *)
(* list helpers                                                         *)
(* ------------------------------------------------------------------ *)

Lemma NoDup_app_intro {A} (l1 l2 : list A) :
  NoDup l1 -> NoDup l2 -> (forall x, In x l1 -> ~ In x l2) -> NoDup (l1 ++ l2).
Proof.
  induction l1 as [|a l1 IH]; intros H1 H2 Hd; [exact H2|].
  inversion H1 as [|? ? Hna H1']; subst. cbn [app]. constructor.
  - intros Hin. apply in_app_or in Hin. destruct Hin as [Hin|Hin]; [contradiction|].
    apply (Hd a); [left; reflexivity|exact Hin].
  - apply IH; [exact H1'|exact H2|]. intros x Hx. apply Hd. right. exact Hx.
Qed.

Lemma NoDup_flat_map {A B} (h : A -> list B) (l : list A) :
  NoDup l -> (forall a, In a l -> NoDup (h a)) ->
  (forall a b x, In a l -> In b l -> In x (h a) -> In x (h b) -> a = b) ->
  NoDup (flat_map h l).
Proof.
  induction l as [|a l IH]; intros Hnd Hh Hdisj; [constructor|].
  inversion Hnd as [|? ? Hna Hnd']; subst. cbn [flat_map].
  apply NoDup_app_intro.
  - apply Hh. left. reflexivity.
  - apply IH; [exact Hnd'| |].
    + intros b Hb. apply Hh. right. exact Hb.
    + intros b c x Hb Hc. apply Hdisj; right; assumption.
  - intros x Hxa Hxl. apply in_flat_map in Hxl. destruct Hxl as [b [Hb Hxb]].
    assert (a = b) by (apply (Hdisj a b x); [left; reflexivity|right; exact Hb|exact Hxa|exact Hxb]).
    subst b. contradiction.
Qed.

Lemma NoDup_snoc_iff {A} (l : list A) v : NoDup (l ++ [v]) <-> NoDup l /\ ~ In v l.
Proof.
  induction l as [|a l IH]; cbn [app].
  - split; [intros _; split; [constructor|intros []]|intros _; constructor; [intros []|constructor]].
  - split.
    + intros H. inversion H as [|? ? Hna H']; subst. apply IH in H'. destruct H' as [H1 H2].
      split.
      * constructor; [|exact H1]. intros Hin. apply Hna. apply in_or_app. left. exact Hin.
      * intros [Hc|Hc]; [|contradiction]. subst. apply Hna. apply in_or_app. right. left. reflexivity.
    + intros [H Hn]. inversion H as [|? ? Hna H']; subst. constructor.
      * intros Hin. apply in_app_or in Hin. destruct Hin as [Hin|[Hin|[]]]; [contradiction|].
        subst. apply Hn. left. reflexivity.
      * apply IH. split; [exact H'|]. intros Hc. apply Hn. right. exact Hc.
Qed.

Lemma NoDup_app_l {A} (l1 l2 : list A) : NoDup (l1 ++ l2) -> NoDup l1.
Proof.
  induction l1 as [|a l1 IH]; intros H; [constructor|].
  cbn [app] in H. inversion H as [|? ? Hna H']; subst. constructor.
  - intros Hin. apply Hna. apply in_or_app. left. exact Hin.
  - apply IH. exact H'.
Qed.

Lemma hd_error_app {A} (l r : list A) : l <> [] -> hd_error (l ++ r) = hd_error l.
Proof. destruct l; [congruence|reflexivity]. Qed.

Lemma snoc_not_nil {A} (l : list A) x : l ++ [x] <> [].
Proof. destruct l; discriminate. Qed.

Lemma nonempty_snoc {A} (l : list A) : l <> [] -> exists l0 x, l = l0 ++ [x].
Proof.
  intros H. destruct (exists_last H) as [l0 [x Hx]]. exists l0, x. exact Hx.
Qed.

Lemma cnt_ext l v1 v2 : (forall a, mem a v1 = mem a v2) -> cnt l v1 = cnt l v2.
Proof.
  intros H. unfold cnt. f_equal. apply filter_ext. intros a. rewrite H. reflexivity.
Qed.

Lemma cnt_snoc_lt l v vis : In v l -> ~ In v vis -> cnt l (vis ++ [v]) < cnt l vis.
Proof.
  intros Hin Hn. rewrite (cnt_ext l (vis ++ [v]) (v :: vis)).
  - apply cnt_cons_lt; assumption.
  - intros a. unfold mem. rewrite existsb_app. cbn [existsb].
    rewrite orb_false_r. apply orb_comm.
Qed.

(* ------------------------------------------------------------------ *)
(* walks and simple paths                                               *)
(* ------------------------------------------------------------------ *)

Lemma Walk_app_l g p r : Walk g (p ++ r) -> Walk g p.
Proof.
  induction p as [|a p IH]; [intros _; exact I|].
  destruct p as [|b p]; [intros _; exact I|].
  cbn [app]. intros [He Hw]. split; [exact He|]. apply IH. exact Hw.
Qed.

Lemma Walk_snoc g p y z : Walk g (p ++ [y]) -> Edge g y z -> Walk g ((p ++ [y]) ++ [z]).
Proof.
  intros Hw He. induction p as [|a p IH].
  - cbn [app]. split; [exact He|exact I].
  - destruct p as [|b p].
    + cbn [app] in *. destruct Hw as [Hay _]. split; [exact Hay|]. split; [exact He|exact I].
    + cbn [app] in *. destruct Hw as [Hab Hw]. split; [exact Hab|]. apply IH. exact Hw.
Qed.

Lemma Walk_last_edge g p y z : Walk g ((p ++ [y]) ++ [z]) -> Edge g y z.
Proof.
  induction p as [|a p IH].
  - cbn [app]. intros [He _]. exact He.
  - destruct p as [|b p].
    + cbn [app] in *. intros [_ Hw]. apply IH. exact Hw.
    + cbn [app] in *. intros [_ Hw]. apply IH. exact Hw.
Qed.

Lemma Walk_init_keys g p x : Walk g (p ++ [x]) -> forall u, In u p -> In u (keys g).
Proof.
  induction p as [|a p IH]; intros Hw u Hu; [contradiction|].
  destruct p as [|b p].
  - cbn [app] in Hw. destruct Hw as [[Hk _] _]. destruct Hu as [Hu|[]]. subst. exact Hk.
  - cbn [app] in Hw, IH. destruct Hw as [[Hk _] Hw]. destruct Hu as [Hu|Hu].
    + subst. exact Hk.
    + apply IH; assumption.
Qed.

Lemma Walk_Path g : forall r s v, Walk g (s :: r) -> In v (s :: r) -> Path g s v.
Proof.
  induction r as [|b r IH]; intros s v Hw Hv.
  - destruct Hv as [Hv|[]]. subst. apply rt_refl.
  - destruct Hv as [Hv|Hv]; [subst; apply rt_refl|].
    destruct Hw as [He Hw]. eapply rt_trans; [apply rt_step; exact He|].
    apply IH; assumption.
Qed.

Lemma SimplePath_single g s : SimplePath g s [s].
Proof.
  split; [reflexivity|]. split; [|exact I]. constructor; [intros []|constructor].
Qed.

Lemma SimplePath_prefix g s p r : p <> [] -> SimplePath g s (p ++ r) -> SimplePath g s p.
Proof.
  intros Hne [Hh [Hnd Hw]]. split; [|split].
  - rewrite hd_error_app in Hh by exact Hne. exact Hh.
  - eapply NoDup_app_l. exact Hnd.
  - eapply Walk_app_l. exact Hw.
Qed.

Lemma SimplePath_snoc_iff g s p0 x v : SimplePath g s (p0 ++ [x]) ->
  (SimplePath g s ((p0 ++ [x]) ++ [v]) <-> In v (adj g x) /\ ~ In v (p0 ++ [x])).
Proof.
  intros [Hh [Hnd Hw]]. split.
  - intros [_ [Hnd' Hw']]. split.
    + apply Edge_adj. eapply Walk_last_edge. exact Hw'.
    + apply NoDup_snoc_iff in Hnd'. tauto.
  - intros [Hv Hn]. split; [|split].
    + rewrite hd_error_app by apply snoc_not_nil. exact Hh.
    + apply NoDup_snoc_iff. tauto.
    + apply Walk_snoc; [exact Hw|]. apply Edge_adj. exact Hv.
Qed.

Lemma SimplePath_nonempty g s p : SimplePath g s p -> p <> [].
Proof. intros [Hh _] Hp. subst. discriminate. Qed.

Lemma SimplePath_length g s p : SimplePath g s p -> length p <= S (length g).
Proof.
  intros Hsp. destruct (nonempty_snoc p (SimplePath_nonempty _ _ _ Hsp)) as [p0 [x Hp]].
  subst p. destruct Hsp as [_ [Hnd Hw]]. apply NoDup_snoc_iff in Hnd. destruct Hnd as [Hnd _].
  assert (Hincl : incl p0 (keys g)) by (intros u Hu; eapply Walk_init_keys; eauto).
  pose proof (NoDup_incl_length Hnd Hincl) as Hlen. rewrite keys_length in Hlen.
  rewrite app_length. cbn [length]. lia.
Qed.

Lemma find_fresh (l cand : list nat) :
  (exists v, In v cand /\ ~ In v l) \/ (forall v, In v cand -> In v l).
Proof.
  induction cand as [|a cand IH].
  - right. intros v [].
  - destruct (in_dec Nat.eq_dec a l) as [Ha|Ha].
    + destruct IH as [[v [H1 H2]]|IH].
      * left. exists v. split; [right; exact H1|exact H2].
      * right. intros v [Hv|Hv]; [subst; exact Ha|apply IH; exact Hv].
    + left. exists a. split; [left; reflexivity|exact Ha].
Qed.

Lemma SimplePath_ext_dec g s p : SimplePath g s p ->
  (exists v, SimplePath g s (p ++ [v])) \/ (forall v, ~ SimplePath g s (p ++ [v])).
Proof.
  intros Hsp. destruct (nonempty_snoc p (SimplePath_nonempty _ _ _ Hsp)) as [p0 [x Hp]].
  subst p. destruct (find_fresh (p0 ++ [x]) (adj g x)) as [[v [H1 H2]]|Hall].
  - left. exists v. apply SimplePath_snoc_iff; [exact Hsp|]. split; assumption.
  - right. intros v Hv. apply SimplePath_snoc_iff in Hv; [|exact Hsp].
    destruct Hv as [H1 H2]. apply H2. apply Hall. exact H1.
Qed.

Lemma SimplePath_extend_maximal g s : forall n p,
  SimplePath g s p -> S (length g) - length p <= n ->
  exists r, Maximal g s (p ++ r).
Proof.
  induction n as [|n IH]; intros p Hsp Hn.
  - destruct (SimplePath_ext_dec g s p Hsp) as [[v Hv]|Hmax].
    + apply SimplePath_length in Hv. rewrite app_length in Hv. cbn [length] in Hv. lia.
    + exists []. rewrite app_nil_r. split; assumption.
  - destruct (SimplePath_ext_dec g s p Hsp) as [[v Hv]|Hmax].
    + destruct (IH (p ++ [v]) Hv) as [r Hr].
      * rewrite app_length. cbn [length]. lia.
      * exists (v :: r). rewrite <- app_assoc in Hr. exact Hr.
    + exists []. rewrite app_nil_r. split; assumption.
Qed.

Lemma Path_simple g s v : Path g s v -> exists p0, SimplePath g s (p0 ++ [v]).
Proof.
  intros Hp. apply clos_rt_rtn1 in Hp. induction Hp as [|y z Hyz _ [p0 IH]].
  - exists []. apply SimplePath_single.
  - destruct (in_dec Nat.eq_dec z (p0 ++ [y])) as [Hin|Hnin].
    + apply in_split in Hin. destruct Hin as [l1 [l2 Hs]].
      exists l1. apply (SimplePath_prefix g s (l1 ++ [z]) l2); [apply snoc_not_nil|].
      rewrite <- app_assoc. cbn [app]. rewrite <- Hs. exact IH.
    + exists (p0 ++ [y]). apply SimplePath_snoc_iff; [exact IH|].
      split; [apply (proj1 (Edge_adj g y z)); exact Hyz|exact Hnin].
Qed.

(* ------------------------------------------------------------------ *)
(* find_all_paths                                                       *)
(* ------------------------------------------------------------------ *)

Definition fap_step (f : nat) (g : graph) (path' : list nat)
  (acc : option (list (list nat))) (node : nat) : option (list (list nat)) :=
  match acc with
  | None => None
  | Some paths =>
      if mem node path' then Some paths
      else match fap f g node path' with
           | None => None
           | Some newpaths => Some (paths ++ newpaths)
           end
  end.

Lemma fap_unfold f g start path :
  fap (S f) g start path =
  if negb (is_key g start) then Some [path ++ [start]]
  else fold_left (fap_step f g (path ++ [start])) (adj g start) (Some [path ++ [start]]).
Proof. reflexivity. Qed.

Definition fap_h (f : nat) (g : graph) (path' : list nat) (node : nat) : list (list nat) :=
  if mem node path' then []
  else match fap f g node path' with Some l => l | None => [] end.

Lemma fap_fold f g path' : forall l acc,
  (forall node, In node l -> ~ In node path' -> fap f g node path' <> None) ->
  fold_left (fap_step f g path') l (Some acc) = Some (acc ++ flat_map (fap_h f g path') l).
Proof.
  induction l as [|a l IH]; intros acc Hok.
  - cbn. rewrite app_nil_r. reflexivity.
  - cbn [fold_left flat_map]. unfold fap_step at 2. unfold fap_h at 1.
    destruct (mem a path') eqn:E.
    + cbn [app]. apply IH. intros node Hn. apply Hok. right. exact Hn.
    + apply mem_false in E.
      destruct (fap f g a path') as [nl|] eqn:Hf.
      * rewrite IH by (intros node Hn; apply Hok; right; exact Hn).
        rewrite app_assoc. reflexivity.
      * exfalso. apply (Hok a); [left; reflexivity|exact E|exact Hf].
Qed.

Definition FapSpec (g : graph) (start : nat) (path p : list nat) : Prop :=
  exists q, p = path ++ q /\ hd_error q = Some start /\ NoDup q /\
            (forall x, In x q -> ~ In x path) /\ Walk g q.

Lemma FapSpec_nonkey g start path p : ~ In start (keys g) -> ~ In start path ->
  (FapSpec g start path p <-> p = path ++ [start]).
Proof.
  intros Hk Hn. split.
  - intros [q [Hp [Hh [Hnd [Hd Hw]]]]]. destruct q as [|a q]; [discriminate|].
    cbn in Hh. inversion Hh; subst a. destruct q as [|b q]; [exact Hp|].
    destruct Hw as [[Hc _] _]. contradiction.
  - intros Hp. exists [start]. split; [exact Hp|]. split; [reflexivity|].
    split; [constructor; [intros []|constructor]|]. split; [|exact I].
    intros x [Hx|[]]. subst. exact Hn.
Qed.

Lemma FapSpec_step g start path p : ~ In start path ->
  (FapSpec g start path p <->
   p = path ++ [start] \/
   exists node, In node (adj g start) /\ ~ In node (path ++ [start]) /\
                FapSpec g node (path ++ [start]) p).
Proof.
  intros Hn. split.
  - intros [q [Hp [Hh [Hnd [Hd Hw]]]]]. destruct q as [|a q]; [discriminate|].
    cbn in Hh. inversion Hh; subst a. destruct q as [|b q]; [left; exact Hp|].
    right. exists b. destruct Hw as [He Hw]. inversion Hnd as [|? ? Hsn Hnd']; subst.
    split; [apply (proj1 (Edge_adj g start b)); exact He|]. split.
    + intros Hin. apply in_app_or in Hin. destruct Hin as [Hin|[Hin|[]]].
      * apply (Hd b); [right; left; reflexivity|exact Hin].
      * subst. apply Hsn. left. reflexivity.
    + exists (b :: q). split; [rewrite <- app_assoc; reflexivity|].
      split; [reflexivity|]. split; [exact Hnd'|]. split; [|exact Hw].
      intros x Hx Hin. apply in_app_or in Hin. destruct Hin as [Hin|[Hin|[]]].
      * apply (Hd x); [right; exact Hx|exact Hin].
      * subst. contradiction.
  - intros [Hp|[node [Hadj [Hnn [q [Hp [Hh [Hnd [Hd Hw]]]]]]]]].
    + exists [start]. split; [exact Hp|]. split; [reflexivity|].
      split; [constructor; [intros []|constructor]|]. split; [|exact I].
      intros x [Hx|[]]. subst. exact Hn.
    + destruct q as [|a q]; [discriminate|]. cbn in Hh. inversion Hh; subst a.
      exists (start :: node :: q). split; [rewrite Hp; rewrite <- app_assoc; reflexivity|].
      split; [reflexivity|]. split; [|split].
      * constructor; [|exact Hnd]. intros Hin. apply (Hd start Hin).
        apply in_or_app. right. left. reflexivity.
      * intros x [Hx|Hx] Hin; [subst; contradiction|].
        apply (Hd x Hx). apply in_or_app. left. exact Hin.
      * split; [apply (proj2 (Edge_adj g start node)); exact Hadj|exact Hw].
Qed.

Lemma FapSpec_longer g node path p : FapSpec g node path p -> p <> path.
Proof.
  intros [q [Hp [Hh _]]] Heq. subst p. rewrite <- (app_nil_r path) in Heq at 2.
  apply app_inv_head in Heq. subst q. discriminate.
Qed.

Lemma FapSpec_inj g a b path p : FapSpec g a path p -> FapSpec g b path p -> a = b.
Proof.
  intros [q [Hp [Hh _]]] [q' [Hp' [Hh' _]]]. subst p. apply app_inv_head in Hp'. subst q'.
  congruence.
Qed.

Lemma fap_spec g : forall fuel start path,
  ~ In start path -> cnt (keys g) path < fuel ->
  exists l, fap fuel g start path = Some l /\
    (forall p, In p l <-> FapSpec g start path p) /\
    ((forall u, NoDup (adj g u)) -> NoDup l).
Proof.
  induction fuel as [|f IH]; intros start path Hn Hc; [lia|].
  rewrite fap_unfold. destruct (is_key g start) eqn:Hk; cbn [negb].
  - apply is_key_In in Hk. set (path' := path ++ [start]).
    assert (Hc' : cnt (keys g) path' < f).
    { pose proof (cnt_snoc_lt (keys g) start path Hk Hn). unfold path'. lia. }
    assert (Hok : forall node, In node (adj g start) -> ~ In node path' ->
                  fap f g node path' <> None).
    { intros node _ Hnn. destruct (IH node path' Hnn Hc') as [l [Hl _]]. congruence. }
    rewrite (fap_fold f g path' (adj g start) [path'] Hok).
    assert (Hh : forall node p, In p (fap_h f g path' node) <->
                                (~ In node path' /\ FapSpec g node path' p)).
    { intros node p. unfold fap_h. destruct (mem node path') eqn:E.
      - apply mem_In in E. split; [intros []|intros [Hc0 _]; contradiction].
      - apply mem_false in E. destruct (IH node path' E Hc') as [l [Hl [Hs _]]].
        rewrite Hl. rewrite Hs. tauto. }
    eexists. split; [reflexivity|]. split.
    + intros p. rewrite (FapSpec_step g start path p Hn). fold path'.
      cbn [app]. cbn [In]. rewrite in_flat_map. split.
      * intros [Hp|[node [Hadj Hp]]]; [left; symmetry; exact Hp|].
        right. exists node. apply Hh in Hp. tauto.
      * intros [Hp|[node [Hadj Hp]]]; [left; symmetry; exact Hp|].
        right. exists node. split; [exact Hadj|]. apply Hh. exact Hp.
    + intros Hadjnd. cbn [app]. constructor.
      * intros Hin. apply in_flat_map in Hin. destruct Hin as [node [_ Hp]].
        apply Hh in Hp. destruct Hp as [_ Hp]. apply FapSpec_longer in Hp. congruence.
      * apply NoDup_flat_map.
        -- apply Hadjnd.
        -- intros node _. unfold fap_h. destruct (mem node path') eqn:E; [constructor|].
           apply mem_false in E. destruct (IH node path' E Hc') as [l [Hl [_ Hnd]]].
           rewrite Hl. apply Hnd. exact Hadjnd.
        -- intros a b x _ _ Ha Hb. apply Hh in Ha. apply Hh in Hb.
           eapply FapSpec_inj; [apply Ha|apply Hb].
  - apply is_key_false in Hk. eexists. split; [reflexivity|]. split.
    + intros p. rewrite (FapSpec_nonkey g start path p Hk Hn). cbn [In].
      split; [intros [H|[]]; symmetry; exact H|intros H; left; symmetry; exact H].
    + intros _. constructor; [intros []|constructor].
Qed.

Lemma FapSpec_nil g s p : FapSpec g s [] p <-> SimplePath g s p.
Proof.
  unfold FapSpec, SimplePath. split.
  - intros [q [Hp [Hh [Hnd [_ Hw]]]]]. cbn [app] in Hp. subst q. tauto.
  - intros [Hh [Hnd Hw]]. exists p. split; [reflexivity|]. split; [exact Hh|].
    split; [exact Hnd|]. split; [|exact Hw]. intros x _ [].
Qed.

Lemma find_all_paths_spec g s :
  exists l, find_all_paths_opt g s = Some l /\
    (forall p, In p l <-> SimplePath g s p) /\
    ((forall u, NoDup (adj g u)) -> NoDup l).
Proof.
  unfold find_all_paths_opt.
  destruct (fap_spec g (fap_fuel g) s []) as [l [Hl [Hs Hnd]]].
  - intros [].
  - unfold fap_fuel. pose proof (cnt_le_length (keys g) []) as H.
    rewrite keys_length in H. lia.
  - exists l. split; [exact Hl|]. split; [|exact Hnd].
    intros p. rewrite Hs. apply FapSpec_nil.
Qed.

Lemma find_all_paths_correct_lem :
  forall g s, exists l, find_all_paths_opt g s = Some l /\ (forall p, In p l <-> SimplePath g s p).
Proof.
  intros g s. destruct (find_all_paths_spec g s) as [l [Hl [Hs _]]].
  exists l. split; assumption.
Qed.

Lemma find_all_paths_nodup_lem :
  forall g s, (forall u, NoDup (adj g u)) -> NoDup (find_all_paths g s).
Proof.
  intros g s Hadj. unfold find_all_paths.
  destruct (find_all_paths_spec g s) as [l [Hl [_ Hnd]]]. rewrite Hl. apply Hnd. exact Hadj.
Qed.

Lemma find_all_paths_In g s p : In p (find_all_paths g s) <-> SimplePath g s p.
Proof.
  unfold find_all_paths.
  destruct (find_all_paths_spec g s) as [l [Hl [Hs _]]]. rewrite Hl. apply Hs.
Qed.

(* ------------------------------------------------------------------ *)
(* find_longest_paths                                                   *)
(* ------------------------------------------------------------------ *)

Lemma list_eqb_eq : forall a b, list_eqb a b = true <-> a = b.
Proof.
  induction a as [|x a IH]; intros [|y b]; cbn [list_eqb]; try (split; [discriminate|discriminate]).
  - split; reflexivity.
  - rewrite andb_true_iff, Nat.eqb_eq, IH. split.
    + intros [H1 H2]. subst. reflexivity.
    + intros H. inversion H. split; reflexivity.
Qed.

Lemma exist_py_spec x y : exist_py x y = true <-> exists v r, y = x ++ v :: r.
Proof.
  unfold exist_py. rewrite andb_true_iff, Nat.ltb_lt, list_eqb_eq. split.
  - intros [Hlt Heq].
    pose proof (firstn_skipn (length x) y) as Hy. rewrite <- Heq in Hy.
    destruct (skipn (length x) y) as [|v r] eqn:Hs.
    + pose proof (skipn_length (length x) y) as Hl. rewrite Hs in Hl. cbn [length] in Hl. lia.
    + exists v, r. symmetry. exact Hy.
  - intros [v [r Hy]]. subst y. split.
    + rewrite app_length. cbn [length]. lia.
    + rewrite firstn_app, Nat.sub_diag, firstn_all. cbn [firstn]. rewrite app_nil_r. reflexivity.
Qed.

Lemma exist_py_irrefl x : exist_py x x = false.
Proof. unfold exist_py. rewrite Nat.ltb_irrefl. reflexivity. Qed.

Lemma find_longest_paths_In g s p :
  In p (find_longest_paths g s) <->
  (In p (find_all_paths g s) /\ existsb (exist_py p) (find_all_paths g s) = false).
Proof.
  unfold find_longest_paths. cbv zeta.
  destruct (Nat.eqb (length (find_all_paths g s)) 1) eqn:E.
  - apply Nat.eqb_eq in E. destruct (find_all_paths g s) as [|p0 [|p1 l]]; try discriminate.
    split.
    + intros [Hp|[]]. subst p0. split; [left; reflexivity|].
      cbn [existsb]. rewrite exist_py_irrefl. reflexivity.
    + intros [H _]. exact H.
  - rewrite filter_In. rewrite negb_true_iff. tauto.
Qed.

Lemma find_longest_paths_correct_lem :
  forall g s p, In p (find_longest_paths g s) <-> Maximal g s p.
Proof.
  intros g s p. rewrite find_longest_paths_In. rewrite find_all_paths_In. split.
  - intros [Hsp Hex]. split; [exact Hsp|]. intros v Hv.
    apply find_all_paths_In in Hv.
    assert (Ht : existsb (exist_py p) (find_all_paths g s) = true).
    { apply existsb_exists. exists (p ++ [v]). split; [exact Hv|].
      apply exist_py_spec. exists v, []. reflexivity. }
    congruence.
  - intros [Hsp Hmax]. split; [exact Hsp|].
    destruct (existsb (exist_py p) (find_all_paths g s)) eqn:E; [|reflexivity].
    exfalso. apply existsb_exists in E. destruct E as [p2 [Hin Hex]].
    apply find_all_paths_In in Hin. apply exist_py_spec in Hex. destruct Hex as [v [r Hy]].
    apply (Hmax v). apply (SimplePath_prefix g s (p ++ [v]) r); [apply snoc_not_nil|].
    rewrite <- app_assoc. cbn [app]. rewrite <- Hy. exact Hin.
Qed.

(* ------------------------------------------------------------------ *)
(* find_all_reachable                                                   *)
(* ------------------------------------------------------------------ *)

Lemma dedup_In x : forall l, In x (dedup l) <-> In x l.
Proof.
  induction l as [|a l IH]; [reflexivity|]. cbn [dedup].
  destruct (mem a l) eqn:E.
  - rewrite IH. apply mem_In in E. split; [intros H; right; exact H|].
    intros [H|H]; [subst; exact E|exact H].
  - cbn [In]. rewrite IH. reflexivity.
Qed.

Lemma find_all_reachable_correct_lem :
  forall g s v, In v (find_all_reachable g s) <-> Path g s v.
Proof.
  intros g s v. unfold find_all_reachable. rewrite dedup_In. rewrite in_concat. split.
  - intros [p [Hp Hv]]. apply find_longest_paths_correct_lem in Hp.
    destruct Hp as [[Hh [_ Hw]] _]. destruct p as [|a p]; [discriminate|].
    cbn in Hh. inversion Hh; subst a. eapply Walk_Path; eauto.
  - intros Hp. destruct (Path_simple g s v Hp) as [p0 Hsp].
    destruct (SimplePath_extend_maximal g s _ _ Hsp (le_n _)) as [r Hr].
    exists ((p0 ++ [v]) ++ r). split; [apply find_longest_paths_correct_lem; exact Hr|].
    apply in_or_app. left. apply in_or_app. right. left. reflexivity.
Qed.
