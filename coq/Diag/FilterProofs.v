(* Diag/FilterProofs.v -- user filter patterns (--filter-patterns of hephaestus.py): what
   "messages matching a filter are disregarded" means for analyze_compiler_output, for every
   compiler and every output.

   The code searches CRASH_REGEX (and Groovy's STACKOVERFLOW_REGEX) in the UNFILTERED output and
   ERROR_REGEX in the filtered one.  So "analysing with filters = deleting the matches, then
   analysing without filters" holds exactly when the two crash tests agree on both texts, and is
   false otherwise (F2, F3 below). *)
From Coq Require Import List NArith Bool Lia Arith String.
Import ListNotations.
From Heph Require Import Diag.Regex Diag.Analyze Diag.Grammar Generated.Regexes Diag.Proofs.

Definition apply_filters (fl : list re) (out : list ch) : list ch :=
  fold_left (fun acc p => sub_empty p acc) fl out.

(* F1 *)
Lemma filters_are_deletion_lem : forall c fl out,
  search (crash_re c) out = None ->
  search (crash_re c) (apply_filters fl out) = None ->
  (forall so, so_re c = Some so ->
              (search so out = None <-> search so (apply_filters fl out) = None)) ->
  analyze c fl out = analyze c [] (apply_filters fl out).
Proof.
  intros c fl out H1 H2 H3. unfold analyze. cbn [fold_left].
  fold (apply_filters fl out). rewrite H1, H2.
  destruct (so_re c) as [so|]; [| reflexivity].
  specialize (H3 so eq_refl). destruct H3 as [A B].
  destruct (search so out) as [mt|] eqn:E1; destruct (search so (apply_filters fl out)) as [mt'|] eqn:E2;
    try reflexivity.
  - specialize (B eq_refl). discriminate.
  - specialize (A eq_refl). discriminate.
Qed.

(* whatever the filters are, the failed map and the matches are those of the filtered text *)
Lemma filters_diag_lem : forall c fl out f ms,
  analyze c fl out = Diag f ms ->
  analyze c [] (apply_filters fl out) = Crash \/ analyze c [] (apply_filters fl out) = Diag f ms.
Proof.
  intros c fl out f ms H. unfold analyze in *. cbn [fold_left]. fold (apply_filters fl out) in *.
  destruct (search (crash_re c) out); [discriminate |].
  destruct (search (crash_re c) (apply_filters fl out)); [left; reflexivity |].
  destruct (so_re c) as [so|].
  - destruct (search so (apply_filters fl out)).
    + destruct (findall (err_re c) (apply_filters fl out)) eqn:E.
      * left. reflexivity.
      * right. destruct (search so out); exact H.
    + right. destruct (search so out).
      * destruct (findall (err_re c) (apply_filters fl out)); [discriminate | exact H].
      * exact H.
  - right. exact H.
Qed.

(* F2: a filter pattern that deletes the stack trace does not make the output a non-crash *)
Definition filt_at : re := RSeq [RLit 97; RLit 116; RLit 32; RRep true 0 None RAny].      (* at .* *)
Definition out_trace : list ch := str "Exception in thread main" ++ [nl] ++ str "  at dotty.tools.Main" ++ [nl].

Lemma filters_are_deletion_refuted_lem :
  exists c fl out, analyze c fl out <> analyze c [] (apply_filters fl out).
Proof. exists comp_scala, [filt_at], out_trace. vm_compute. discriminate. Qed.

(* F3: deleting a filter match can also CREATE a crash match that the code does not see *)
Definition filt_x : re := RLit 88.
Definition out_split : list ch := str "note: look at doXtty" ++ [nl].

Lemma filters_can_create_crash_lem :
  analyze comp_scala [filt_x] out_split = Diag [] [] /\
  analyze comp_scala [] (apply_filters [filt_x] out_split) = Crash.
Proof. vm_compute. split; reflexivity. Qed.

(* non-vacuity of F1: a javac output with two diagnostics and a filter that disregards one kind *)
Definition filt_symbol : re :=                   (* [a-zA-Z0-9/_]+\.java:\d+: error: cannot.* *)
  RSeq ([RRep true 1 None (RIn false [CRange 97 122; CRange 65 90; CRange 48 57; CLit 47; CLit 95])]
          ++ map RLit (str ".java:") ++ [RRep true 1 None (RIn false [CDigit])]
          ++ map RLit (str ": error: cannot") ++ [RRep true 0 None RAny]).
Definition out_two : list ch :=
  str "src/a/Main.java:12: error: incompatible types" ++ [nl] ++
  str "src/b/Main.java:3: error: cannot find symbol" ++ [nl] ++ str "2 errors" ++ [nl].

Lemma filters_example_lem :
  search (crash_re comp_java) out_two = None /\
  search (crash_re comp_java) (apply_filters [filt_symbol] out_two) = None /\
  so_re comp_java = None /\
  analyze comp_java [filt_symbol] out_two =
  Diag [(str "src/a/Main.java", [str "12: error: incompatible types"])]
       [[str "src/a/Main.java"; str "12: error: incompatible types"; []]] /\
  analyze comp_java [] out_two =
  Diag [(str "src/a/Main.java", [str "12: error: incompatible types"]);
        (str "src/b/Main.java", [str "3: error: cannot find symbol"])]
       [[str "src/a/Main.java"; str "12: error: incompatible types"; []];
        [str "src/b/Main.java"; str "3: error: cannot find symbol"; []]].
Proof. vm_compute. repeat split. Qed.
