(* Diag/AttrKotlin.v -- attribution of kotlinc diagnostics (K1, K2). *)
From Coq Require Import List NArith Bool Lia Arith String.
Import ListNotations.
From Heph Require Import Diag.Regex Diag.Analyze Diag.Grammar Generated.Regexes Diag.Proofs Diag.EngineLemmas.

Definition epat : list ch := str "error:".

Lemma forallb_impl : forall (f g : ch -> bool) l,
  (forall x, f x = true -> g x = true) -> forallb f l = true -> forallb g l = true.
Proof.
  intros f g l H. induction l as [|x l IH]; simpl; [reflexivity |].
  intros E. apply andb_true_iff in E. destruct E as [E1 E2]. rewrite (H x E1), (IH E2). reflexivity.
Qed.

(* the character class of the path part is the tool's path alphabet *)
Definition path_cs : list cset := [CRange 97 122; CRange 65 90; CRange 48 57; CLit 47; CLit 95].
Lemma path_cs_ok : forall x, path_char x = true ->
  xorb false (existsb (fun c => in_cset c x) path_cs) = true.
Proof.
  intros x H. unfold path_char in H. unfold path_cs. cbn [existsb in_cset xorb].
  rewrite orb_false_r. rewrite <- !orb_assoc in H. rewrite H. reflexivity.
Qed.

(* ---------------------------------------------------------------- failing lines *)
Lemma err_kotlin_nl_free : nl_free err_kotlin = true.
Proof. vm_compute. reflexivity. Qed.

Ltac destr_L :=
  repeat match goal with
         | H : exists _, _ |- _ => destruct H
         | H : _ /\ _ |- _ => destruct H
         end.

Ltac find_pat :=
  repeat first [ apply contains_prefix; reflexivity | apply contains_app_r ].

Lemma err_kotlin_contains : forall w, L err_kotlin w -> contains epat w = true.
Proof.
  intros w H. unfold err_kotlin in H. cbn [L Lseq] in H. destr_L. subst.
  repeat match goal with H : N.eqb _ _ = true |- _ => apply N.eqb_eq in H end. subst.
  find_pat.
Qed.

Lemma k_fail : forall b rest p,
  contains epat b = false -> match_at err_kotlin (b ++ nl :: rest) p = None.
Proof. exact (match_at_none_line err_kotlin epat err_kotlin_nl_free err_kotlin_contains). Qed.

(* ---------------------------------------------------------------- diagnostic lines *)
Lemma kline_shape : forall stem ln col msg rest,
  render_kline (LErr stem ln col msg) ++ nl :: rest =
  stem ++ 46 :: 107 :: 116 :: 58 :: ln ++ 58 :: col ++
       58 :: 32 :: 101 :: 114 :: 114 :: 111 :: 114 :: 58 :: 32 :: msg ++ 10 :: rest.
Proof. intros. unfold render_kline, kpath. rewrite <- !app_assoc. reflexivity. Qed.

Lemma kline_length : forall stem ln col msg,
  List.length (render_kline (LErr stem ln col msg)) =
  (List.length stem + 3 + 1 + List.length ln + 1 + List.length col + 9 + List.length msg)%nat.
Proof.
  intros. unfold render_kline, kpath. rewrite !app_length.
  change (List.length (str ".kt")) with 3%nat. change (List.length (str ":")) with 1%nat.
  change (List.length (str ": error: ")) with 9%nat. lia.
Qed.

(* captures of the match of a diagnostic line that starts at absolute position p *)
Definition kcaps (p : nat) (l : line) : caps :=
  match l with
  | LErr stem ln col msg =>
      let n := List.length (render_kline l) in
      [(2%nat, ((p + (n - List.length msg))%nat, (p + n)%nat));
       (1%nat, (p, (p + List.length stem + 3)%nat))]
  | LOther _ => []
  end.

Ltac lit := rewrite m_seq_cons; rewrite m_lit_cons; cbv beta.

Lemma digits_run : forall s, digits s = true ->
  forallb (fun x => xorb false (existsb (fun c => in_cset c x) [CDigit])) s = true /\ (1 <= List.length s)%nat.
Proof.
  intros s H. unfold digits in H. apply andb_true_iff in H. destruct H as [H1 H2]. split.
  - revert H2. apply forallb_impl. intros x Hx. cbn [existsb in_cset xorb]. rewrite Hx. reflexivity.
  - destruct s; [discriminate | simpl; lia].
Qed.

Lemma k_ok : forall stem ln col msg rest p,
  wf_line (LErr stem ln col msg) = true ->
  match_at err_kotlin (render_kline (LErr stem ln col msg) ++ nl :: rest) p =
  Some ((p + List.length (render_kline (LErr stem ln col msg)))%nat, kcaps p (LErr stem ln col msg)).
Proof.
  intros stem ln col msg rest p Hwf.
  cbn [wf_line] in Hwf. repeat (apply andb_true_iff in Hwf; destruct Hwf as [Hwf ?]).
  rename H into Hmsg0, H0 into Hmsg, H1 into Hcol, H2 into Hln, H3 into Hstem.
  apply digits_run in Hcol. destruct Hcol as [Hcol1 Hcol2].
  apply digits_run in Hln. destruct Hln as [Hln1 Hln2].
  rewrite kline_shape. unfold match_at, err_kotlin.
  rewrite m_seq_cons, m_group_some, m_seq_cons.
  apply (m_rep_greedy_run _ 1 _ _ _ (atom_in false _) stem).
  { revert Hstem. apply forallb_impl. exact path_cs_ok. }
  { reflexivity. }
  { destruct stem; [discriminate | simpl; lia]. }
  cbv beta.
  rewrite m_seq_cons. rewrite m_any_cons by reflexivity. cbv beta.
  lit. lit. rewrite m_seq_nil. cbv beta.
  lit. rewrite m_seq_cons.
  apply (m_rep_greedy_run _ 1 _ _ _ (atom_in false _) ln); [exact Hln1 | reflexivity | exact Hln2 |].
  cbv beta. lit. rewrite m_seq_cons.
  apply (m_rep_greedy_run _ 1 _ _ _ (atom_in false _) col); [exact Hcol1 | reflexivity | exact Hcol2 |].
  cbv beta. lit. rewrite m_seq_cons.
  apply (m_rep_greedy_run _ 1 _ _ _ (atom_lit 32) [32]); [reflexivity | reflexivity | simpl; lia |].
  cbv beta. lit. lit. lit. lit. lit. lit. rewrite m_seq_cons.
  apply (m_rep_greedy_run _ 1 _ _ _ (atom_lit 32) [32]); [reflexivity | | simpl; lia |].
  { destruct msg as [|c msg]; [reflexivity |]. simpl. apply negb_true_iff. exact Hmsg0. }
  cbv beta. rewrite m_seq_cons, m_group_some.
  apply (m_rep_greedy_run _ 0 _ _ _ atom_any msg); [exact Hmsg | reflexivity | lia |].
  cbv beta. rewrite m_seq_nil.
  unfold kcaps. cbv zeta. rewrite kline_length.
  unfold set_cap. cbn [filter fst Nat.eqb negb List.length].
  f_equal. f_equal; [lia |]. repeat (f_equal; try lia).
Qed.

(* ---------------------------------------------------------------- the whole output *)
Lemma epat_nonempty : epat <> [].
Proof. discriminate. Qed.

Lemma kline_nonempty : forall stem ln col msg, render_kline (LErr stem ln col msg) <> [].
Proof.
  intros stem ln col msg F. apply (f_equal (@List.length ch)) in F.
  rewrite kline_length in F. simpl in F. lia.
Qed.

Lemma wf_other_epat : forall t, wf_line (LOther t) = true -> contains epat t = false.
Proof.
  intros t H. cbn [wf_line] in H. apply andb_true_iff in H. destruct H as [_ H].
  apply negb_true_iff in H. exact H.
Qed.

Lemma findall_kotlin : forall ls, forallb wf_line ls = true ->
  findall err_kotlin (render_k ls) = scan render_kline kcaps 0 ls.
Proof.
  intros ls H.
  exact (findall_render_top err_kotlin render_kline kcaps epat epat_nonempty
           (fun t => eq_refl) kline_nonempty k_fail k_ok wf_other_epat ls H).
Qed.

Definition pair12 (text : list ch) (mt : mtch) : list ch * list ch := (group text mt 1, group text mt 2).

Lemma kgroups : forall pre stem ln col msg rest e,
  pair12 (pre ++ render_kline (LErr stem ln col msg) ++ nl :: rest)
         (List.length pre, e, kcaps (List.length pre) (LErr stem ln col msg)) = (kpath stem, msg).
Proof.
  intros. unfold pair12, group, kcaps. cbv zeta. cbn [snd fst find Nat.eqb]. f_equal.
  - apply (slice_eq _ pre (kpath stem)
             (str ":" ++ ln ++ str ":" ++ col ++ str ": error: " ++ msg ++ nl :: rest)).
    + unfold render_kline. rewrite <- !app_assoc. reflexivity.
    + reflexivity.
    + unfold kpath. rewrite app_length. change (List.length (str ".kt")) with 3%nat. lia.
  - apply (slice_eq _ (pre ++ kpath stem ++ str ":" ++ ln ++ str ":" ++ col ++ str ": error: ") msg
             (nl :: rest)).
    + unfold render_kline. rewrite <- !app_assoc. reflexivity.
    + rewrite kline_length. unfold kpath. rewrite !app_length.
      change (List.length (str ".kt")) with 3%nat. change (List.length (str ":")) with 1%nat.
      change (List.length (str ": error: ")) with 9%nat. lia.
    + rewrite kline_length. lia.
Qed.

Lemma scan_pairs_kotlin : forall ls pre,
  map (pair12 (pre ++ render_k ls)) (scan render_kline kcaps (List.length pre) ls) = kerrs ls.
Proof.
  induction ls as [|l ls IH]; intros pre; [reflexivity |].
  cbn [scan map]. rewrite map_app.
  unfold render_k, kerrs. cbn [flat_map]. fold (render_k ls). fold (kerrs ls).
  f_equal.
  - destruct l as [stem ln col msg | txt]; [| reflexivity].
    cbn [map]. rewrite <- app_assoc. cbn [app]. rewrite kgroups. reflexivity.
  - specialize (IH (pre ++ render_kline l ++ [nl])).
    rewrite !app_length in IH. cbn [List.length] in IH.
    rewrite Nat.add_assoc in IH. rewrite <- !app_assoc in IH. rewrite <- !app_assoc. exact IH.
Qed.

Lemma attribution_kotlin_lem : forall ls,
  forallb wf_line ls = true ->
  search crash_kotlin (render_k ls) = None ->
  analyze comp_kotlin [] (render_k ls) =
  Diag (group_by_file (kerrs ls)) (map (fun e => [fst e; snd e]) (kerrs ls)).
Proof.
  intros ls Hwf Hc.
  rewrite (analyze_plain comp_kotlin (render_k ls) eq_refl Hc).
  change (err_re comp_kotlin) with err_kotlin. change (ngroups comp_kotlin) with 2%nat.
  rewrite (findall_kotlin ls Hwf).
  pose proof (scan_pairs_kotlin ls []) as Hp. cbn [app List.length] in Hp.
  f_equal.
  - unfold group_by_file. rewrite <- Hp.
    exact (fold_left_map _ _ _ (fun f e => failed_add f (fst e) (snd e))
             (pair12 (render_k ls)) (scan render_kline kcaps 0 ls) []).
  - rewrite <- Hp. rewrite map_map. apply map_ext. intros mt. reflexivity.
Qed.

(* ---------------------------------------------------------------- K2 *)
Lemma kerrs_In : forall ls k, In k (map fst (kerrs ls)) ->
  exists stem ln col msg, In (LErr stem ln col msg) ls /\ kpath stem = k.
Proof.
  induction ls as [|l ls IH]; intros k H; [destruct H |].
  unfold kerrs in H. cbn [flat_map] in H. fold (kerrs ls) in H. rewrite map_app in H.
  apply in_app_or in H. destruct H as [H | H].
  - destruct l as [stem ln col msg | txt]; [| destruct H].
    destruct H as [H | []]. exists stem, ln, col, msg. split; [left; reflexivity | exact H].
  - destruct (IH k H) as [stem [ln [col [msg [Hin Hk]]]]].
    exists stem, ln, col, msg. split; [right; exact Hin | exact Hk].
Qed.

Lemma kerrs_no_err : forall ls, (forall l, In l ls -> exists t, l = LOther t) -> kerrs ls = [].
Proof.
  induction ls as [|l ls IH]; intros H; [reflexivity |].
  unfold kerrs. cbn [flat_map]. fold (kerrs ls).
  destruct (H l (or_introl eq_refl)) as [t ->]. cbn [app].
  apply IH. intros l' Hl'. apply H. right. exact Hl'.
Qed.

Lemma warnings_add_no_file_kotlin_lem : forall ls,
  forallb wf_line ls = true ->
  search crash_kotlin (render_k ls) = None ->
  exists f ms,
    analyze comp_kotlin [] (render_k ls) = Diag f ms /\
    (forall k, In k (map fst f) ->
               exists stem ln col msg, In (LErr stem ln col msg) ls /\ kpath stem = k) /\
    ((forall l, In l ls -> exists t, l = LOther t) -> f = [] /\ ms = []).
Proof.
  intros ls Hwf Hc. eexists. eexists. split; [apply attribution_kotlin_lem; assumption |]. split.
  - intros k Hk. apply kerrs_In.
    destruct (failed_add_groups_lem (kerrs ls)) as [_ [H _]]. cbv zeta in H.
    apply H. exists k. split; [exact Hk | apply chs_eqb_refl].
  - intros H. rewrite (kerrs_no_err ls H). split; reflexivity.
Qed.

(* ---------------------------------------------------------------- non-vacuity *)
Definition k_example : list line :=
  [ LOther (str "warning: some JVM warning");
    LErr (str "src/pkg/Main") (str "12") (str "5") (str "type mismatch: inferred type is String but Int was expected");
    LOther (str "    val x: Int = foo()");
    LOther (str "                 ^");
    LErr (str "src/Util_k") (str "3") (str "17") (str "unresolved reference: bar");
    LErr (str "src/pkg/Main") (str "40") (str "1") (str "") ].

Example k_example_ok :
  forallb wf_line k_example = true /\
  search crash_kotlin (render_k k_example) = None /\
  analyze comp_kotlin [] (render_k k_example) =
  Diag [ (str "src/pkg/Main.kt", [str "type mismatch: inferred type is String but Int was expected"; str ""]);
         (str "src/Util_k.kt", [str "unresolved reference: bar"]) ]
       [ [str "src/pkg/Main.kt"; str "type mismatch: inferred type is String but Int was expected"];
         [str "src/Util_k.kt"; str "unresolved reference: bar"];
         [str "src/pkg/Main.kt"; str ""] ].
Proof. vm_compute. repeat split. Qed.

(* the side condition "the message does not start with a blank" of wf_line is necessary for K1:
   [ ]+ swallows leading blanks of the message *)
Example k_leading_blank_needed :
  let ls := [LErr (str "a") (str "1") (str "1") (str " x")] in
  search crash_kotlin (render_k ls) = None /\
  analyze comp_kotlin [] (render_k ls) = Diag [(str "a.kt", [str "x"])] [[str "a.kt"; str "x"]] /\
  kerrs ls = [(str "a.kt", str " x")].
Proof. vm_compute. repeat split. Qed.
