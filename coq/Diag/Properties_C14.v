(* Properties_C14.v -- the property theorems, nothing else. *)
From Coq Require Import List NArith Bool String.
Import ListNotations.
From Heph Require Import Diag.Regex Diag.Analyze Diag.Grammar Generated.Regexes Diag.Proofs Diag.AttrKotlin Diag.AttrJava.

Theorem crash_pattern_classifies_as_crash :
  forall c fl out mt, search (crash_re c) out = Some mt -> analyze c fl out = Crash.
Proof. exact analyze_crash_lem. Qed.
Print Assumptions crash_pattern_classifies_as_crash.

Theorem analyze_crash_iff :
  forall c fl out,
    analyze c fl out = Crash <->
    (search (crash_re c) out <> None \/
     (exists so, so_re c = Some so /\ search so out <> None /\
                 findall (err_re c) (fold_left (fun acc p => sub_empty p acc) fl out) = [])).
Proof. exact analyze_crash_iff_lem. Qed.
Print Assumptions analyze_crash_iff.

Theorem analyze_diag_is_findall :
  forall c fl out f ms,
    analyze c fl out = Diag f ms ->
    let filtered := fold_left (fun acc p => sub_empty p acc) fl out in
    ms = map (groups_of (ngroups c) filtered) (findall (err_re c) filtered) /\
    f = fold_left (fun f mt => failed_add f (group filtered mt 1) (group filtered mt 2))
                  (findall (err_re c) filtered) [].
Proof. exact analyze_diag_is_findall_lem. Qed.
Print Assumptions analyze_diag_is_findall.

Theorem failed_add_groups :
  forall es,
    let f := group_by_file es in
    keys_distinct (map fst f) = true /\
    (forall file, In file (map fst es) <-> exists k, In k (map fst f) /\ chs_eqb k file = true) /\
    List.length (flat_map snd f) = List.length es.
Proof. exact failed_add_groups_lem. Qed.
Print Assumptions failed_add_groups.

Theorem failed_add_groups_content :
  forall es k ms, In (k, ms) (group_by_file es) -> ms = msgs_for k es.
Proof. exact group_by_file_content. Qed.
Print Assumptions failed_add_groups_content.

Theorem attribution_kotlin :
  forall ls,
    forallb wf_line ls = true ->
    search crash_kotlin (render_k ls) = None ->
    analyze comp_kotlin [] (render_k ls) =
    Diag (group_by_file (kerrs ls)) (map (fun e => [fst e; snd e]) (kerrs ls)).
Proof. exact attribution_kotlin_lem. Qed.
Print Assumptions attribution_kotlin.

Theorem warnings_add_no_file_kotlin :
  forall ls,
    forallb wf_line ls = true ->
    search crash_kotlin (render_k ls) = None ->
    exists f ms,
      analyze comp_kotlin [] (render_k ls) = Diag f ms /\
      (forall k, In k (map fst f) ->
                 exists stem ln col msg, In (LErr stem ln col msg) ls /\ kpath stem = k) /\
      ((forall l, In l ls -> exists t, l = LOther t) -> f = [] /\ ms = []).
Proof. exact warnings_add_no_file_kotlin_lem. Qed.
Print Assumptions warnings_add_no_file_kotlin.

Theorem attribution_java :
  forall ls,
    forallb wf_line ls = true ->
    search crash_java (render_j ls) = None ->
    exists ms, analyze comp_java [] (render_j ls) = Diag (group_by_file (jerrs ls)) ms /\
               List.length ms = List.length (jerrs ls).
Proof. exact attribution_java_lem. Qed.
Print Assumptions attribution_java.

Theorem attribution_java_exact :
  forall ls,
    forallb wf_line ls = true ->
    search crash_java (render_j ls) = None ->
    analyze comp_java [] (render_j ls) =
    Diag (group_by_file (jerrs ls)) (map (fun e => [fst e; snd e; []]) (jerrs ls)).
Proof. exact attribution_java_exact_lem. Qed.
Print Assumptions attribution_java_exact.

Theorem warnings_add_no_file_java :
  forall ls,
    forallb wf_line ls = true ->
    search crash_java (render_j ls) = None ->
    exists f ms,
      analyze comp_java [] (render_j ls) = Diag f ms /\
      (forall k, In k (map fst f) ->
                 exists stem ln col msg, In (LErr stem ln col msg) ls /\ jpath stem = k) /\
      ((forall l, In l ls -> exists t, l = LOther t) -> f = [] /\ ms = []).
Proof. exact warnings_add_no_file_java_lem. Qed.
Print Assumptions warnings_add_no_file_java.

Theorem attribution_kotlin_nonvacuous :
  forallb wf_line k_example = true /\
  search crash_kotlin (render_k k_example) = None /\
  analyze comp_kotlin [] (render_k k_example) =
  Diag [ (str "src/pkg/Main.kt", [str "type mismatch: inferred type is String but Int was expected"; str ""]);
         (str "src/Util_k.kt", [str "unresolved reference: bar"]) ]
       [ [str "src/pkg/Main.kt"; str "type mismatch: inferred type is String but Int was expected"];
         [str "src/Util_k.kt"; str "unresolved reference: bar"];
         [str "src/pkg/Main.kt"; str ""] ].
Proof. exact k_example_ok. Qed.
Print Assumptions attribution_kotlin_nonvacuous.
