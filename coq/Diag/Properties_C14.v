(* Properties_C14.v -- the property theorems, nothing else. *)
From Coq Require Import List NArith Bool.
Import ListNotations.
From Heph Require Import Diag.Regex Diag.Analyze Diag.Proofs.

Theorem crash_pattern_classifies_as_crash :
  forall c fl out mt, search (crash_re c) out = Some mt -> analyze c fl out = Crash.
Proof. exact analyze_crash_lem. Qed.
Print Assumptions crash_pattern_classifies_as_crash.
