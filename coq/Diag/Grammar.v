(* Diag/Grammar.v -- grammars of compiler outputs over which the attribution theorems are
   stated (kotlinc and javac: line-oriented formats).  Definitions only. *)
From Coq Require Import List NArith Bool String.
Import ListNotations.
From Heph Require Import Diag.Regex Diag.Analyze.
Open Scope N_scope.

Definition nl : ch := 10.
Definition str (s : string) : list ch := of_string s.

(* characters the tool can produce in a path: [a-zA-Z0-9/_] *)
Definition path_char (c : ch) : bool :=
  (N.leb 97 c && N.leb c 122) || (N.leb 65 c && N.leb c 90) || (N.leb 48 c && N.leb c 57) ||
  N.eqb c 47 || N.eqb c 95.

Definition no_nl (s : list ch) : bool := forallb (fun c => negb (N.eqb c nl)) s.
Definition digits (s : list ch) : bool := negb (Nat.eqb (List.length s) 0) && forallb is_digit s.

(* s contains the contiguous substring pat *)
Fixpoint prefix_of (pat s : list ch) : bool :=
  match pat, s with
  | [], _ => true
  | p :: pat', x :: s' => N.eqb p x && prefix_of pat' s'
  | _ :: _, [] => false
  end.
Fixpoint contains (pat s : list ch) : bool :=
  prefix_of pat s || match s with [] => false | _ :: s' => contains pat s' end.

(* one line of compiler output *)
Inductive line :=
| LErr (stem : list ch) (ln col : list ch) (msg : list ch)   (* an error diagnostic for file stem.<ext> *)
| LOther (txt : list ch).                                     (* warning, note, quoted source, caret, summary *)

(* a well-formed line: path stem over the tool's path alphabet, decimal positions, a message
   without newline that does not start with a blank; any other line has no newline and does
   not contain the text "error:" (warnings, notes, quoted source lines, carets, summaries) *)
Definition wf_line (l : line) : bool :=
  match l with
  | LErr stem ln col msg =>
      negb (Nat.eqb (List.length stem) 0) && forallb path_char stem && digits ln && digits col &&
      no_nl msg && match msg with c :: _ => negb (N.eqb c 32) | [] => true end
  | LOther txt => no_nl txt && negb (contains (str "error:") txt)
  end.

(* ---- kotlinc:  <path>.kt:<line>:<col>: error: <message> ---- *)
Definition kpath (stem : list ch) : list ch := stem ++ str ".kt".
Definition render_kline (l : line) : list ch :=
  match l with
  | LErr stem ln col msg => kpath stem ++ str ":" ++ ln ++ str ":" ++ col ++ str ": error: " ++ msg
  | LOther txt => txt
  end.
Definition render_k (ls : list line) : list ch := flat_map (fun l => render_kline l ++ [nl]) ls.

(* ---- javac:  <path>.java:<line>: error: <message>   (col is unused) ---- *)
Definition jpath (stem : list ch) : list ch := stem ++ str ".java".
Definition render_jline (l : line) : list ch :=
  match l with
  | LErr stem ln _ msg => jpath stem ++ str ":" ++ ln ++ str ": error: " ++ msg
  | LOther txt => txt
  end.
Definition render_j (ls : list line) : list ch := flat_map (fun l => render_jline l ++ [nl]) ls.

(* the error diagnostics of an output, in order: (file, message as the tool records it) *)
Definition kerrs (ls : list line) : list (list ch * list ch) :=
  flat_map (fun l => match l with LErr stem _ _ msg => [(kpath stem, msg)] | LOther _ => [] end) ls.
Definition jerrs (ls : list line) : list (list ch * list ch) :=
  flat_map (fun l => match l with
                     | LErr stem ln _ msg => [(jpath stem, ln ++ str ": error: " ++ msg)]
                     | LOther _ => [] end) ls.

(* group by file, first appearance first, messages in order *)
Definition group_by_file (es : list (list ch * list ch)) : list (list ch * list (list ch)) :=
  fold_left (fun f e => failed_add f (fst e) (snd e)) es [].
