(* Properties_C14_more.v -- further property theorems for C14 (user filter patterns; scalac and
   groovyc output grammars), nothing else. *)
From Coq Require Import List NArith Bool String.
Import ListNotations.
From Heph Require Import Diag.Regex Diag.Analyze Diag.Grammar Diag.GrammarScala Generated.Regexes Diag.Proofs
     Diag.FilterProofs Diag.AttrScala Diag.GrammarGroovy Diag.AttrGroovy.

(* ------------------------------------------------------------------ user filter patterns *)
Theorem filters_are_deletion_partial :
  forall c fl out,
    search (crash_re c) out = None ->
    search (crash_re c) (apply_filters fl out) = None ->
    (forall so, so_re c = Some so ->
                (search so out = None <-> search so (apply_filters fl out) = None)) ->
    analyze c fl out = analyze c [] (apply_filters fl out).
Proof. exact filters_are_deletion_lem. Qed.
Print Assumptions filters_are_deletion_partial.

Theorem filters_are_deletion_refuted :
  exists c fl out, analyze c fl out <> analyze c [] (apply_filters fl out).
Proof. exact filters_are_deletion_refuted_lem. Qed.
Print Assumptions filters_are_deletion_refuted.

Theorem filters_can_create_crash :
  analyze comp_scala [filt_x] out_split = Diag [] [] /\
  analyze comp_scala [] (apply_filters [filt_x] out_split) = Crash.
Proof. exact filters_can_create_crash_lem. Qed.
Print Assumptions filters_can_create_crash.

Theorem filters_diag_is_diag_of_filtered :
  forall c fl out f ms,
    analyze c fl out = Diag f ms ->
    analyze c [] (apply_filters fl out) = Crash \/ analyze c [] (apply_filters fl out) = Diag f ms.
Proof. exact filters_diag_lem. Qed.
Print Assumptions filters_diag_is_diag_of_filtered.

Theorem filters_are_deletion_nonvacuous :
  search (crash_re comp_java) out_two = None /\
  search (crash_re comp_java) (apply_filters [filt_symbol] out_two) = None /\
  so_re comp_java = None /\
  analyze comp_java [filt_symbol] out_two =
  Diag [(str "src/a/Main.java", [str "12: error: incompatible types"])]
       [[str "src/a/Main.java"; str "12: error: incompatible types"; []]] /\
  analyze comp_java [] out_two =
  Diag [(str "src/a/Main.java", [str "12: error: incompatible types"]);
        (str "src/b/Main.java", [str "3: error: cannot find symbol"])]
       [[str "src/a/Main.java"; str "12: error: incompatible types"; []];
        [str "src/b/Main.java"; str "3: error: cannot find symbol"; []]].
Proof. exact filters_example_lem. Qed.
Print Assumptions filters_are_deletion_nonvacuous.

(* ------------------------------------------------------------------ scalac *)
Theorem attribution_scala :
  forall ls,
    wf_s ls = true ->
    search crash_scala (render_s ls) = None ->
    analyze comp_scala [] (render_s ls) =
    Diag (group_by_file (serrs ls)) (map (fun e => [fst e; snd e]) (serrs ls)).
Proof. exact attribution_scala_lem. Qed.
Print Assumptions attribution_scala.

Theorem no_crash_scala :
  forall s, contains (str "at dotty") s = false -> search crash_scala s = None.
Proof. exact no_crash_scala_lem. Qed.
Print Assumptions no_crash_scala.

Theorem files_scala_exact :
  forall ls,
    wf_s ls = true ->
    search crash_scala (render_s ls) = None ->
    exists f ms,
      analyze comp_scala [] (render_s ls) = Diag f ms /\
      keys_distinct (map fst f) = true /\
      (forall k, In k (map fst f) <->
                 exists kind stem ln col nd, In (SHdr kind stem ln col nd) ls /\ spath stem = k) /\
      (forall k msgs, In (k, msgs) f -> msgs = msgs_for k (serrs ls)) /\
      List.length (flat_map snd f) = List.length (sfiles ls) /\
      List.length ms = List.length (sfiles ls).
Proof. exact files_scala_lem. Qed.
Print Assumptions files_scala_exact.

Theorem attribution_scala_whole_message_partial :
  forall ls,
    wf_s ls = true -> forallb other_no_dash ls = true ->
    search crash_scala (render_s ls) = None ->
    analyze comp_scala [] (render_s ls) =
    Diag (group_by_file (serrs_whole ls)) (map (fun e => [fst e; snd e]) (serrs_whole ls)).
Proof. exact attribution_scala_whole_lem. Qed.
Print Assumptions attribution_scala_whole_message_partial.

Theorem attribution_scala_whole_message_refuted :
  exists ls,
    wf_s ls = true /\ search crash_scala (render_s ls) = None /\
    analyze comp_scala [] (render_s ls) =
    Diag [(str "src/foo/program.scala", [str "3 |  val x: String = "])]
         [[str "src/foo/program.scala"; str "3 |  val x: String = "]] /\
    serrs_whole ls =
    [(str "src/foo/program.scala",
      str "3 |  val x: String = -1" ++ [nl] ++ str "  |                  ^^" ++ [nl] ++
      str "  |                  Found:    (-1 : Int)" ++ [nl] ++ str "  |                  Required: String" ++ [nl] ++
      str "1 error found" ++ [nl])].
Proof. exact scala_message_whole_refuted_lem. Qed.
Print Assumptions attribution_scala_whole_message_refuted.

Theorem scala_header_without_block_dropped :
  search crash_scala (render_s s_nobody_example) = None /\
  sfiles s_nobody_example = [str "src/foo/program.scala"; str "src/bar/program.scala"] /\
  analyze comp_scala [] (render_s s_nobody_example) =
  Diag [(str "src/bar/program.scala", [str "2 |  x" ++ [nl]])]
       [[str "src/bar/program.scala"; str "2 |  x" ++ [nl]]].
Proof. exact scala_header_without_block_dropped_lem. Qed.
Print Assumptions scala_header_without_block_dropped.

Theorem attribution_scala_nonvacuous :
  wf_s s_example = true /\
  contains cpat_scala (render_s s_example) = false /\
  analyze comp_scala [] (render_s s_example) =
  Diag [ (str "/tmp/tmpab_1/src/foo/program.scala",
          [str "3 |  val x: Int = y" ++ [nl] ++ str "  |               ^" ++ [nl] ++
           str "  |               Found:    (y : String)" ++ [nl] ++ str "  |               Required: Int" ++ [nl]]);
         (str "/tmp/tmpab_1/src/bar/program.scala",
          [str "10 |  foo" ++ [nl] ++ str "   |  Not found: foo" ++ [nl]]) ]
       [ [str "/tmp/tmpab_1/src/foo/program.scala";
          str "3 |  val x: Int = y" ++ [nl] ++ str "  |               ^" ++ [nl] ++
          str "  |               Found:    (y : String)" ++ [nl] ++ str "  |               Required: Int" ++ [nl]];
         [str "/tmp/tmpab_1/src/bar/program.scala";
          str "10 |  foo" ++ [nl] ++ str "   |  Not found: foo" ++ [nl]] ].
Proof. exact s_example_ok. Qed.
Print Assumptions attribution_scala_nonvacuous.

(* ------------------------------------------------------------------ groovyc *)
Theorem attribution_groovy :
  forall ls,
    forallb wf_gitem ls = true ->
    search crash_groovy (render_g ls) = None ->
    (gerrs ls <> [] \/ search so_groovy (render_g ls) = None) ->
    analyze comp_groovy [] (render_g ls) =
    Diag (group_by_file (gerrs ls)) (map (fun e => [fst e; snd e]) (gerrs ls)).
Proof. exact attribution_groovy_lem. Qed.
Print Assumptions attribution_groovy.

Theorem groovy_outcome :
  forall ls,
    forallb wf_gitem ls = true ->
    search crash_groovy (render_g ls) = None ->
    analyze comp_groovy [] (render_g ls) =
    match search so_groovy (render_g ls), gerrs ls with
    | Some _, [] => Crash
    | _, _ => Diag (group_by_file (gerrs ls)) (map (fun e => [fst e; snd e]) (gerrs ls))
    end.
Proof. exact analyze_groovy_shape. Qed.
Print Assumptions groovy_outcome.

Theorem groovy_stackoverflow_is_crash :
  forall ls,
    forallb wf_gitem ls = true ->
    search crash_groovy (render_g ls) = None ->
    gerrs ls = [] -> search so_groovy (render_g ls) <> None ->
    analyze comp_groovy [] (render_g ls) = Crash.
Proof. exact groovy_stackoverflow_lem. Qed.
Print Assumptions groovy_stackoverflow_is_crash.

Theorem no_crash_groovy :
  forall s, contains (str "at org") s = false -> search crash_groovy s = None.
Proof. exact no_crash_groovy_lem. Qed.
Print Assumptions no_crash_groovy.

Theorem no_stackoverflow_groovy :
  forall s, contains (str "StackOverflowError") s = false -> search so_groovy s = None.
Proof. exact no_so_groovy_lem. Qed.
Print Assumptions no_stackoverflow_groovy.

Theorem files_groovy_exact :
  forall ls,
    forallb wf_gitem ls = true ->
    search crash_groovy (render_g ls) = None ->
    (gerrs ls <> [] \/ search so_groovy (render_g ls) = None) ->
    exists f ms,
      analyze comp_groovy [] (render_g ls) = Diag f ms /\
      keys_distinct (map fst f) = true /\
      (forall k, In k (map fst f) <-> exists stem body, In (GErr stem body) ls /\ gpath stem = k) /\
      (forall k msgs, In (k, msgs) f -> msgs = msgs_for k (gerrs ls)) /\
      List.length ms = List.length (gerrs ls).
Proof. exact files_groovy_lem. Qed.
Print Assumptions files_groovy_exact.

Theorem groovy_report_without_blank_line_dropped :
  search crash_groovy g_noblank = None /\
  analyze comp_groovy [] g_noblank =
  Diag [(str "a/Main.groovy", [str " 1: first"])] [[str "a/Main.groovy"; str " 1: first"]].
Proof. exact groovy_report_without_blank_line_dropped_lem. Qed.
Print Assumptions groovy_report_without_blank_line_dropped.

Theorem groovy_stackoverflow_nonvacuous :
  forallb wf_gitem g_so_example = true /\
  search crash_groovy (render_g g_so_example) = None /\
  gerrs g_so_example = [] /\ search so_groovy (render_g g_so_example) <> None /\
  analyze comp_groovy [] (render_g g_so_example) = Crash.
Proof. exact groovy_stackoverflow_example_lem. Qed.
Print Assumptions groovy_stackoverflow_nonvacuous.

Theorem attribution_groovy_nonvacuous :
  forallb wf_gitem g_example = true /\
  contains cpat_groovy (render_g g_example) = false /\
  contains sopat_groovy (render_g g_example) = false /\
  List.length (gerrs g_example) = 2%nat /\
  analyze comp_groovy [] (render_g g_example) =
  Diag (group_by_file (gerrs g_example)) (map (fun e => [fst e; snd e]) (gerrs g_example)).
Proof. exact g_example_hyps. Qed.
Print Assumptions attribution_groovy_nonvacuous.
