(* Diag/Corr.v -- comparison helpers for harness/c14.py. Definitions only. *)
From Coq Require Import List NArith Bool.
Import ListNotations.
From Heph Require Import Diag.Regex Diag.Analyze.

Definition span3 := (nat * nat * list (nat * nat))%type.

Definition gspan (mt : mtch) (g : nat) : nat * nat :=
  match find (fun p => Nat.eqb (fst p) g) (snd mt) with Some (_, ab) => ab | None => (0, 0)%nat end.

Definition to_span3 (ng : nat) (mt : mtch) : span3 :=
  (fst (fst mt), snd (fst mt), map (gspan mt) (seq 1 ng)).

Fixpoint pairs_eqb (a b : list (nat * nat)) : bool :=
  match a, b with
  | [], [] => true
  | (x, y) :: a', (x', y') :: b' => Nat.eqb x x' && Nat.eqb y y' && pairs_eqb a' b'
  | _, _ => false
  end.

Definition span3_eqb (a b : span3) : bool :=
  let '(s, e, g) := a in let '(s', e', g') := b in
  Nat.eqb s s' && Nat.eqb e e' && pairs_eqb g g'.

Fixpoint spans_eqb (a b : list span3) : bool :=
  match a, b with
  | [], [] => true
  | x :: a', y :: b' => span3_eqb x y && spans_eqb a' b'
  | _, _ => false
  end.

(* (pattern, text, number of groups, python search, python finditer, python sub(p,'',text)) *)
Definition engine_case := (re * list ch * nat * option span3 * list span3 * list ch)%type.

Definition engine_ok (c : engine_case) : bool :=
  let '(r, s, ng, es, ea, esub) := c in
  (match search r s, es with
   | None, None => true
   | Some mt, Some sp => span3_eqb (to_span3 ng mt) sp
   | _, _ => false
   end) &&
  spans_eqb (map (to_span3 ng) (findall r s)) ea &&
  chs_eqb (sub_empty r s) esub.

Fixpoint engine_mismatches (i : nat) (cs : list engine_case) : list nat :=
  match cs with
  | [] => []
  | c :: cs' => (if engine_ok c then [] else [i]) ++ engine_mismatches (S i) cs'
  end.

Inductive expected := ECrash | EDiag (failed : list (list ch * list (list ch))) (matches : list (list (list ch))).

Fixpoint lchs_eqb (a b : list (list ch)) : bool :=
  match a, b with
  | [], [] => true
  | x :: a', y :: b' => chs_eqb x y && lchs_eqb a' b'
  | _, _ => false
  end.

Fixpoint failed_eqb (a b : list (list ch * list (list ch))) : bool :=
  match a, b with
  | [], [] => true
  | (k, v) :: a', (k', v') :: b' => chs_eqb k k' && lchs_eqb v v' && failed_eqb a' b'
  | _, _ => false
  end.

Fixpoint llchs_eqb (a b : list (list (list ch))) : bool :=
  match a, b with
  | [], [] => true
  | x :: a', y :: b' => lchs_eqb x y && llchs_eqb a' b'
  | _, _ => false
  end.

Definition analyze_case := (compiler * list re * list ch * expected)%type.

Definition analyze_ok (c : analyze_case) : bool :=
  let '(cmp, fl, s, e) := c in
  match analyze cmp fl s, e with
  | Crash, ECrash => true
  | Diag f ms, EDiag f' ms' => failed_eqb f f' && llchs_eqb ms ms'
  | _, _ => false
  end.

Fixpoint analyze_mismatches (i : nat) (cs : list analyze_case) : list nat :=
  match cs with
  | [] => []
  | c :: cs' => (if analyze_ok c then [] else [i]) ++ analyze_mismatches (S i) cs'
  end.
