(* Diag/Regex.v -- regular expressions with Python's `re` backtracking semantics (the
   fragment used by src/compilers/*.py and by user filter patterns): leftmost match,
   greedy/lazy repeats in priority order, capture groups, positive look-ahead,
   non-overlapping scan for findall/sub.  Definitions only.

   The matcher is structurally recursive on the regex (continuation-passing, the result type
   is a parameter so that look-ahead is atomic); repeats iterate at most once per input
   character plus one (an iteration that consumes nothing is cut, as in sre). *)
From Coq Require Import List NArith Bool String Ascii.
Import ListNotations.
Open Scope N_scope.

Definition ch := N.                         (* a code point *)

Inductive cset :=
| CLit (c : ch) | CRange (lo hi : ch)
| CDigit | CSpace | CNotSpace | CWord | CNotDigit | CNotWord.

Definition is_space (c : ch) : bool :=
  existsb (N.eqb c) [32; 9; 10; 11; 12; 13; 28; 29; 30; 31; 133; 160].
Definition is_digit (c : ch) : bool := N.leb 48 c && N.leb c 57.
Definition is_word (c : ch) : bool :=
  is_digit c || (N.leb 65 c && N.leb c 90) || (N.leb 97 c && N.leb c 122) || N.eqb c 95.

Definition in_cset (s : cset) (c : ch) : bool :=
  match s with
  | CLit d => N.eqb c d
  | CRange lo hi => N.leb lo c && N.leb c hi
  | CDigit => is_digit c
  | CNotDigit => negb (is_digit c)
  | CSpace => is_space c
  | CNotSpace => negb (is_space c)
  | CWord => is_word c
  | CNotWord => negb (is_word c)
  end.

Inductive re :=
| RLit (c : ch)
| RNotLit (c : ch)
| RAny                                  (* '.' without DOTALL: anything but \n *)
| RIn (neg : bool) (cs : list cset)
| RSeq (rs : list re)
| RRep (greedy : bool) (lo : nat) (hi : option nat) (r : re)
| RGroup (idx : option nat) (r : re)    (* None = non-capturing *)
| RLook (r : re).                       (* (?=r) *)

(* captures: group index -> (start, end) *)
Definition caps := list (nat * (nat * nat)).
Definition set_cap (g : nat) (v : nat * nat) (cs : caps) : caps :=
  (g, v) :: filter (fun p => negb (Nat.eqb (fst p) g)) cs.

Definition step_char (ok : ch -> bool) (R : Type) (s : list ch) (pos : nat) (cs : caps)
           (k : list ch -> nat -> caps -> option R) : option R :=
  match s with
  | x :: t => if ok x then k t (S pos) cs else None
  | [] => None
  end.

Fixpoint m (R : Type) (r : re) (s : list ch) (pos : nat) (cs : caps)
         (k : list ch -> nat -> caps -> option R) {struct r} : option R :=
  match r with
  | RLit c => step_char (fun x => N.eqb x c) R s pos cs k
  | RNotLit c => step_char (fun x => negb (N.eqb x c)) R s pos cs k
  | RAny => step_char (fun x => negb (N.eqb x 10)) R s pos cs k
  | RIn neg l => step_char (fun x => xorb neg (existsb (fun c => in_cset c x) l)) R s pos cs k
  | RSeq rs =>
      (fix seq (rs : list re) (s : list ch) (pos : nat) (cs : caps) {struct rs} : option R :=
         match rs with
         | [] => k s pos cs
         | r1 :: rest => m R r1 s pos cs (fun s' p' c' => seq rest s' p' c')
         end) rs s pos cs
  | RGroup g r1 =>
      m R r1 s pos cs (fun s' p' c' =>
                         k s' p' (match g with Some i => set_cap i (pos, p') c' | None => c' end))
  | RLook r1 =>
      match m caps r1 s pos cs (fun _ _ c' => Some c') with
      | None => None
      | Some c' => k s pos c'
      end
  | RRep greedy lo hi r1 =>
      (fix rep (n : nat) (count : nat) (s : list ch) (pos : nat) (cs : caps) {struct n} : option R :=
         match n with
         | O => None
         | S n' =>
             let can_stop := Nat.leb lo count in
             let can_more := match hi with None => true | Some h => Nat.ltb count h end in
             let more := fun (_ : unit) =>
                           if can_more then
                             m R r1 s pos cs (fun s' p' c' =>
                                                if Nat.eqb p' pos then None
                                                else rep n' (S count) s' p' c')
                           else None in
             let stop := fun (_ : unit) => if can_stop then k s pos cs else None in
             if greedy then match more tt with Some x => Some x | None => stop tt end
             else match stop tt with Some x => Some x | None => more tt end
         end) (S (List.length s)) 0%nat s pos cs
  end.

(* match starting exactly at the head of s (which is position pos of the whole text) *)
Definition match_at (r : re) (s : list ch) (pos : nat) : option (nat * caps) :=
  m (nat * caps) r s pos [] (fun _ p c => Some (p, c)).

(* a match: (start, end, captures) *)
Definition mtch := (nat * nat * caps)%type.

(* re.search: leftmost match *)
Fixpoint search_from (n : nat) (r : re) (s : list ch) (pos : nat) : option mtch :=
  match n with
  | O => None
  | S n' =>
      match match_at r s pos with
      | Some (e, c) => Some (pos, e, c)
      | None => match s with
                | [] => None
                | _ :: t => search_from n' r t (S pos)
                end
      end
  end.

Definition search (r : re) (s : list ch) : option mtch := search_from (S (List.length s)) r s 0%nat.

(* re.finditer for patterns that cannot match the empty string (checked by the translator):
   leftmost, non-overlapping *)
Fixpoint findall_aux (n : nat) (r : re) (s : list ch) (pos : nat) : list mtch :=
  match n with
  | O => []
  | S n' =>
      match s with
      | [] => []
      | _ :: t =>
          match match_at r s pos with
          | Some (e, c) =>
              if Nat.leb e pos then findall_aux n' r t (S pos)        (* empty match: excluded fragment *)
              else (pos, e, c) :: findall_aux n' r (skipn (e - pos) s) e
          | None => findall_aux n' r t (S pos)
          end
      end
  end.

Definition findall (r : re) (s : list ch) : list mtch := findall_aux (S (List.length s)) r s 0%nat.

Definition slice (s : list ch) (a b : nat) : list ch := firstn (b - a) (skipn a s).

Definition group (s : list ch) (mt : mtch) (g : nat) : list ch :=
  match find (fun p => Nat.eqb (fst p) g) (snd mt) with
  | Some (_, (a, b)) => slice s a b
  | None => []
  end.

(* re.sub(r, '', s) *)
Fixpoint remove_spans (s : list ch) (pos : nat) (ms : list mtch) : list ch :=
  match ms with
  | [] => s
  | (a, b, _) :: ms' => firstn (a - pos) s ++ remove_spans (skipn (b - pos) s) b ms'
  end.

Definition sub_empty (r : re) (s : list ch) : list ch := remove_spans s 0%nat (findall r s).

Definition of_string (x : string) : list ch := map N_of_ascii (list_ascii_of_string x).
