(* Diag/AttrScala.v -- attribution of scalac (dotty) diagnostics (S1-S5). *)
From Coq Require Import List NArith Bool Lia Arith String.
Import ListNotations.
From Heph Require Import Diag.Regex Diag.Analyze Diag.Grammar Diag.GrammarScala Generated.Regexes Diag.Proofs
     Diag.EngineLemmas Diag.EngineLemmas2 Diag.AttrKotlin.

(* ---------------------------------------------------------------- the regex: header part / rest *)
Definition s_rs : list re := match err_scala with RSeq rs => rs | _ => [] end.
Definition s_head : list re := firstn 18 s_rs.       (* -- .*Error: (.*\.scala):\d+:\d+ -+ *)
Definition s_tail : list re := skipn 18 s_rs.        (* \n((?:[^-]+)) *)

Lemma err_scala_split : err_scala = RSeq (s_head ++ s_tail).
Proof. reflexivity. Qed.

Lemma s_head_nl_free : nl_free (RSeq s_head) = true.
Proof. vm_compute. reflexivity. Qed.

Definition dpat : list ch := str "-- ".
Definition Epat : list ch := str "Error: ".

Lemma s_head_contains_dd : forall w, L (RSeq s_head) w -> contains dpat w = true.
Proof.
  intros w H. unfold s_head, s_rs, err_scala in H. cbn [firstn L Lseq] in H. destr_L. subst.
  repeat match goal with H : N.eqb _ _ = true |- _ => apply N.eqb_eq in H end. subst.
  find_pat.
Qed.

Lemma s_head_contains_E : forall w, L (RSeq s_head) w -> contains Epat w = true.
Proof.
  intros w H. unfold s_head, s_rs, err_scala in H. cbn [firstn L Lseq] in H. destr_L. subst.
  repeat match goal with H : N.eqb _ _ = true |- _ => apply N.eqb_eq in H end. subst.
  find_pat.
Qed.

(* a line (or the rest of a line) in which no match can begin *)
Definition s_quiet (b : list ch) : Prop := contains dpat b = false \/ contains Epat b = false.

Lemma s_quiet_tail : forall c b, s_quiet (c :: b) -> s_quiet b.
Proof. intros c b [H | H]; [left | right]; apply contains_cons_false in H; exact H. Qed.

Lemma s_quiet_suffix : forall a b, s_quiet (a ++ b) -> s_quiet b.
Proof. intros a b [H | H]; [left | right]; apply contains_suffix_false in H; exact H. Qed.

Lemma s_fail : forall b rest p, s_quiet b -> match_at err_scala (b ++ nl :: rest) p = None.
Proof.
  intros b rest p [H | H]; rewrite err_scala_split.
  - exact (match_at_none_line2 s_head s_tail dpat s_head_nl_free s_head_contains_dd b rest p H).
  - exact (match_at_none_line2 s_head s_tail Epat s_head_nl_free s_head_contains_E b rest p H).
Qed.

(* ---------------------------------------------------------------- shape of a header line *)
Definition stail3 (ln col : list ch) (nd : nat) : list ch :=
  46 :: 115 :: 99 :: 97 :: 108 :: 97 :: 58 :: ln ++ 58 :: col ++ 32 :: repeat dash nd.
Definition stail1 (stem ln col : list ch) (nd : nat) : list ch :=
  69 :: 114 :: 114 :: 111 :: 114 :: 58 :: 32 :: stem ++ stail3 ln col nd.

Lemma shdr_shape : forall kind stem ln col nd rest,
  render_sline (SHdr kind stem ln col nd) ++ nl :: rest =
  45 :: 45 :: 32 :: kind ++ stail1 stem ln col nd ++ 10 :: rest.
Proof.
  intros. unfold render_sline, spath, stail1, stail3.
  change (str "-- ") with [45; 45; 32]%N. change (str "Error: ") with [69; 114; 114; 111; 114; 58; 32]%N.
  change (str ".scala") with [46; 115; 99; 97; 108; 97]%N. change (str ":") with [58]%N.
  change (str " ") with [32]%N.
  repeat (progress (rewrite <- ?app_assoc; cbn [app])). reflexivity.
Qed.

Lemma shdr_length : forall kind stem ln col nd,
  List.length (render_sline (SHdr kind stem ln col nd)) =
  (3 + List.length kind + 7 + List.length stem + 7 + List.length ln + 1 + List.length col + 1 + nd)%nat.
Proof.
  intros. unfold render_sline, spath. rewrite !app_length, repeat_length.
  change (List.length (str "-- ")) with 3%nat. change (List.length (str "Error: ")) with 7%nat.
  change (List.length (str ".scala")) with 6%nat. change (List.length (str ":")) with 1%nat.
  change (List.length (str " ")) with 1%nat. lia.
Qed.

(* ---------------------------------------------------------------- character classes of a header *)
Lemma path_char_cases : forall (P : ch -> bool),
  (forall c, path_char c = true -> P c = true) ->
  forall s, forallb path_char s = true -> forallb P s = true.
Proof. intros P H s. apply forallb_impl. exact H. Qed.

Lemma digits_forallb : forall (P : ch -> bool),
  (forall c, is_digit c = true -> P c = true) ->
  forall s, digits s = true -> forallb P s = true.
Proof.
  intros P H s Hs. unfold digits in Hs. apply andb_true_iff in Hs. destruct Hs as [_ Hs].
  revert Hs. apply forallb_impl. exact H.
Qed.

Lemma digits_cons : forall s, digits s = true -> exists d t, s = d :: t /\ is_digit d = true.
Proof.
  intros s H. unfold digits in H. apply andb_true_iff in H. destruct H as [H1 H2].
  destruct s as [|d t]; [discriminate |]. cbn [forallb] in H2. apply andb_true_iff in H2.
  exists d, t. intuition.
Qed.

(* is_digit / path_char exclude a given character that is outside their ranges *)
Lemma is_digit_ne : forall x c, is_digit x = false -> is_digit c = true -> N.eqb c x = false.
Proof.
  intros x c Hx Hc. destruct (N.eqb c x) eqn:E; [| reflexivity].
  apply N.eqb_eq in E. subst. congruence.
Qed.
Lemma path_char_ne : forall x c, path_char x = false -> path_char c = true -> N.eqb c x = false.
Proof.
  intros x c Hx Hc. destruct (N.eqb c x) eqn:E; [| reflexivity].
  apply N.eqb_eq in E. subst. congruence.
Qed.

(* P holds on ln ':' col ' ' dashes *)
Lemma forallb_tail_lc : forall (P : ch -> bool) ln col nd,
  (forall c, is_digit c = true -> P c = true) -> P 58 = true -> P 32 = true -> P 45 = true ->
  digits ln = true -> digits col = true ->
  forallb P (ln ++ 58 :: col ++ 32 :: repeat dash nd) = true.
Proof.
  intros P ln col nd Hd H58 H32 H45 Hln Hcol.
  rewrite forallb_app. rewrite (digits_forallb P Hd ln Hln). cbn [andb forallb]. rewrite H58. cbn [andb].
  rewrite forallb_app. rewrite (digits_forallb P Hd col Hcol). cbn [andb forallb]. rewrite H32. cbn [andb].
  apply forallb_repeat. exact H45.
Qed.

Lemma stail3_no_nl : forall ln col nd, digits ln = true -> digits col = true ->
  forallb (fun x : ch => negb (N.eqb x 10)) (stail3 ln col nd) = true.
Proof.
  intros ln col nd Hln Hcol. unfold stail3. cbn [forallb].
  change (negb (N.eqb 46 10)) with true. change (negb (N.eqb 115 10)) with true.
  change (negb (N.eqb 99 10)) with true. change (negb (N.eqb 97 10)) with true.
  change (negb (N.eqb 108 10)) with true. change (negb (N.eqb 58 10)) with true. cbn [andb].
  apply forallb_tail_lc; try reflexivity; try assumption.
  intros c Hc. rewrite (is_digit_ne 10 c eq_refl Hc). reflexivity.
Qed.

Lemma stail1_no_nl : forall stem ln col nd,
  forallb path_char stem = true -> digits ln = true -> digits col = true ->
  forallb (fun x : ch => negb (N.eqb x 10)) (stail1 stem ln col nd) = true.
Proof.
  intros stem ln col nd Hs Hln Hcol. unfold stail1. cbn [forallb].
  change (negb (N.eqb 69 10)) with true. change (negb (N.eqb 114 10)) with true.
  change (negb (N.eqb 111 10)) with true. change (negb (N.eqb 58 10)) with true.
  change (negb (N.eqb 32 10)) with true. cbn [andb].
  rewrite forallb_app. rewrite (stail3_no_nl ln col nd Hln Hcol). rewrite andb_true_r.
  revert Hs. apply forallb_impl. intros c Hc. rewrite (path_char_ne 10 c eq_refl Hc). reflexivity.
Qed.

(* ---- no '.' after the ".scala" of the header *)
Lemma contains_single_false : forall p x,
  forallb (fun c : ch => negb (N.eqb c p)) x = true -> contains [p] x = false.
Proof.
  intros p. induction x as [|c x IH]; intros H; [reflexivity |].
  cbn [forallb] in H. apply andb_true_iff in H. destruct H as [H1 H2].
  cbn [contains prefix_of]. rewrite (IH H2). rewrite N.eqb_sym. apply negb_true_iff in H1. rewrite H1. reflexivity.
Qed.

Lemma no_dot_after : forall ln col nd, digits ln = true -> digits col = true ->
  contains [46] (115 :: 99 :: 97 :: 108 :: 97 :: 58 :: ln ++ 58 :: col ++ 32 :: repeat dash nd) = false.
Proof.
  intros ln col nd Hln Hcol. apply contains_single_false. cbn [forallb].
  change (negb (N.eqb 115 46)) with true. change (negb (N.eqb 99 46)) with true.
  change (negb (N.eqb 97 46)) with true. change (negb (N.eqb 108 46)) with true.
  change (negb (N.eqb 58 46)) with true. cbn [andb].
  apply forallb_tail_lc; try reflexivity; try assumption.
  intros c Hc. rewrite (is_digit_ne 46 c eq_refl Hc). reflexivity.
Qed.

(* ---- no "Error: " after the "Error: " of the header (": " does not occur there) *)
Definition cspat : list ch := [58; 32].

Lemma contains_cons_ne : forall p0 pat c s,
  N.eqb p0 c = false -> contains (p0 :: pat) (c :: s) = contains (p0 :: pat) s.
Proof. intros. cbn [contains prefix_of]. rewrite H. reflexivity. Qed.

Lemma contains_Error_colon : forall s, contains Epat s = true -> contains cspat s = true.
Proof.
  induction s as [|c s IH]; intros H; [discriminate |].
  cbn [contains] in H. apply orb_true_iff in H. destruct H as [H | H].
  - apply prefix_of_split in H. destruct H as [t ->].
    change (Epat ++ t) with ([69; 114; 114; 111; 114] ++ (58 :: 32 :: t)).
    apply contains_app_r. apply contains_prefix. unfold cspat. cbn [prefix_of]. rewrite !N.eqb_refl. reflexivity.
  - cbn [contains]. rewrite (IH H). apply orb_true_r.
Qed.

Lemma contains_cs_skip : forall a s,
  forallb (fun c : ch => negb (N.eqb c 58)) a = true -> contains cspat (a ++ s) = contains cspat s.
Proof.
  induction a as [|c a IH]; intros s H; [reflexivity |].
  cbn [forallb] in H. apply andb_true_iff in H. destruct H as [H1 H2].
  cbn [app]. unfold cspat. rewrite contains_cons_ne.
  - apply IH. exact H2.
  - rewrite N.eqb_sym. apply negb_true_iff in H1. exact H1.
Qed.

Lemma contains_cs_colon : forall d s, N.eqb d 32 = false ->
  contains cspat (58 :: d :: s) = contains cspat (d :: s).
Proof.
  intros d s H. unfold cspat. cbn [contains prefix_of]. rewrite (N.eqb_sym 32 d), H.
  rewrite andb_false_r. reflexivity.
Qed.

Lemma no_cs_after : forall stem ln col nd,
  forallb path_char stem = true -> digits ln = true -> digits col = true ->
  contains cspat (stem ++ stail3 ln col nd) = false.
Proof.
  intros stem ln col nd Hs Hln Hcol.
  assert (Hd58 : forall c, is_digit c = true -> negb (N.eqb c 58) = true).
  { intros c Hc. rewrite (is_digit_ne 58 c eq_refl Hc). reflexivity. }
  assert (Hd32 : forall c, is_digit c = true -> N.eqb c 32 = false).
  { intros c Hc. exact (is_digit_ne 32 c eq_refl Hc). }
  rewrite contains_cs_skip.
  2:{ revert Hs. apply forallb_impl. intros c Hc. rewrite (path_char_ne 58 c eq_refl Hc). reflexivity. }
  unfold stail3. unfold cspat. rewrite !contains_cons_ne by reflexivity. fold cspat.
  destruct (digits_cons ln Hln) as [d [ln' [-> Hd]]].
  destruct (digits_cons col Hcol) as [e [col' [-> He]]].
  cbn [app]. rewrite contains_cs_colon by (apply Hd32; exact Hd).
  change (d :: ln' ++ 58 :: e :: col' ++ 32 :: repeat dash nd)
    with ((d :: ln') ++ 58 :: e :: col' ++ 32 :: repeat dash nd).
  rewrite contains_cs_skip by (apply (digits_forallb _ Hd58); exact Hln).
  rewrite contains_cs_colon by (apply Hd32; exact He).
  change (e :: col' ++ 32 :: repeat dash nd) with ((e :: col') ++ 32 :: repeat dash nd).
  rewrite contains_cs_skip by (apply (digits_forallb _ Hd58); exact Hcol).
  unfold cspat. rewrite contains_cons_ne by reflexivity. fold cspat.
  rewrite <- (app_nil_r (repeat dash nd)). rewrite contains_cs_skip; [reflexivity |].
  apply forallb_repeat. reflexivity.
Qed.

Lemma no_Error_after : forall stem ln col nd,
  forallb path_char stem = true -> digits ln = true -> digits col = true ->
  contains Epat (114 :: 114 :: 111 :: 114 :: 58 :: 32 :: stem ++ stail3 ln col nd) = false.
Proof.
  intros stem ln col nd Hs Hln Hcol.
  change Epat with [69; 114; 114; 111; 114; 58; 32]%N. rewrite !contains_cons_ne by reflexivity.
  change [69; 114; 114; 111; 114; 58; 32]%N with Epat.
  destruct (contains Epat (stem ++ stail3 ln col nd)) eqn:E; [| reflexivity].
  apply contains_Error_colon in E. rewrite (no_cs_after stem ln col nd Hs Hln Hcol) in E. discriminate.
Qed.

(* ---------------------------------------------------------------- the match at a header *)
Definition ndash (x : ch) : bool := negb (N.eqb x 45).

(* captures of the match of a header at absolute position p: h = length of the header line,
   r = length of the recorded message *)
Definition scaps (p : nat) (kind stem : list ch) (h r : nat) : caps :=
  [(2%nat, ((p + h + 1)%nat, (p + h + 1 + r)%nat));
   (1%nat, ((p + 3 + List.length kind + 7)%nat, (p + 3 + List.length kind + 7 + List.length stem + 6)%nat))].

Lemma s_ok : forall kind stem ln col nd run s' p,
  wf_shdr kind stem ln col nd = true ->
  run <> [] -> forallb ndash run = true -> stops ndash s' ->
  match_at err_scala (render_sline (SHdr kind stem ln col nd) ++ nl :: run ++ s') p =
  Some ((p + List.length (render_sline (SHdr kind stem ln col nd)) + 1 + List.length run)%nat,
        scaps p kind stem (List.length (render_sline (SHdr kind stem ln col nd))) (List.length run)).
Proof.
  intros kind stem ln col nd run s' p Hwf Hne Hrun Hst.
  unfold wf_shdr in Hwf. repeat (apply andb_true_iff in Hwf; destruct Hwf as [Hwf ?]).
  rename H into Hnd, H0 into Hcol, H1 into Hln, H2 into Hstem, H3 into Hstem0, Hwf into Hkind.
  pose proof (digits_run col Hcol) as [Hcol1 Hcol2].
  pose proof (digits_run ln Hln) as [Hln1 Hln2].
  rewrite shdr_shape. unfold match_at, err_scala.
  lit. lit. lit. rewrite m_seq_cons.
  apply (m_rep_greedy_backtrack _ 0 _ _ _ atom_any kind (stail1 stem ln col nd) (10 :: run ++ s')).
  { exact Hkind. }
  { apply stail1_no_nl; assumption. }
  { reflexivity. }
  { lia. }
  { (* no later "Error: " on the line *)
    intros b1 b2 Hsplit Hb1. cbv beta.
    apply (m_lits_fail _ [69; 114; 114; 111; 114; 58; 32]%N).
    destruct b1 as [|x b1]; [congruence |].
    unfold stail1 in Hsplit. cbn [app] in Hsplit. injection Hsplit as _ Hsplit.
    apply (contains_false_suffix_prefix Epat b1 b2 (run ++ s') eq_refl).
    rewrite <- Hsplit. apply no_Error_after; assumption. }
  cbv beta. unfold stail1. cbn [app].
  lit. lit. lit. lit. lit. lit. lit.
  rewrite m_seq_cons, m_group_some, m_seq_cons. rewrite <- app_assoc.
  apply (m_rep_greedy_backtrack _ 0 _ _ _ atom_any stem (stail3 ln col nd) (10 :: run ++ s')).
  { revert Hstem. apply forallb_impl. intros c Hc. rewrite (path_char_ne 10 c eq_refl Hc). reflexivity. }
  { apply stail3_no_nl; assumption. }
  { reflexivity. }
  { lia. }
  { (* no later '.' on the line *)
    intros b1 b2 Hsplit Hb1. cbv beta.
    apply (m_lits_fail _ [46]%N).
    destruct b1 as [|x b1]; [congruence |].
    unfold stail3 in Hsplit. cbn [app] in Hsplit. injection Hsplit as _ Hsplit.
    apply (contains_false_suffix_prefix [46]%N b1 b2 (run ++ s') eq_refl).
    rewrite <- Hsplit. apply no_dot_after; assumption. }
  cbv beta. unfold stail3. repeat (progress (rewrite <- ?app_assoc; cbn [app])).
  lit. lit. lit. lit. lit. lit. rewrite m_seq_nil. cbv beta.
  lit. rewrite m_seq_cons.
  apply (m_rep_greedy_run _ 1 _ _ _ (atom_in false _) ln); [exact Hln1 | reflexivity | exact Hln2 |].
  cbv beta. lit. rewrite m_seq_cons.
  apply (m_rep_greedy_run _ 1 _ _ _ (atom_in false _) col); [exact Hcol1 | reflexivity | exact Hcol2 |].
  cbv beta. lit. rewrite m_seq_cons.
  apply (m_rep_greedy_run _ 1 _ _ _ (atom_lit 45) (repeat dash nd)).
  { apply forallb_repeat. reflexivity. }
  { reflexivity. }
  { rewrite repeat_length. apply Nat.leb_le. exact Hnd. }
  cbv beta. lit. rewrite m_seq_cons, m_group_some.
  apply (m_rep_greedy_run _ 1 _ _ _ (atom_notlit 45) run s').
  { exact Hrun. }
  { exact Hst. }
  { destruct run; [congruence | simpl; lia]. }
  cbv beta. rewrite m_seq_nil.
  unfold scaps. rewrite shdr_length, repeat_length.
  unfold set_cap. cbn [filter fst Nat.eqb negb List.length].
  f_equal. f_equal; [lia |]. repeat (f_equal; try lia).
Qed.

(* ---------------------------------------------------------------- upto_dash / after_dash *)
Lemma upto_after : forall s, s = upto_dash s ++ after_dash s.
Proof.
  induction s as [|c s IH]; [reflexivity |]. cbn [upto_dash after_dash].
  destruct (N.eqb c dash); [reflexivity |]. cbn [app]. f_equal. exact IH.
Qed.

Lemma upto_dash_ndash : forall s, forallb ndash (upto_dash s) = true.
Proof.
  induction s as [|c s IH]; [reflexivity |]. cbn [upto_dash].
  destruct (N.eqb c dash) eqn:E; [reflexivity |]. cbn [forallb]. unfold ndash at 1.
  unfold dash in E. rewrite E, IH. reflexivity.
Qed.

Lemma after_dash_stops : forall s, stops ndash (after_dash s).
Proof.
  induction s as [|c s IH]; [exact I |]. cbn [after_dash].
  destruct (N.eqb c dash) eqn:E; [| exact IH]. cbn [stops]. unfold ndash. unfold dash in E. rewrite E. reflexivity.
Qed.

Lemma upto_dash_app_len : forall a b,
  (List.length (upto_dash (a ++ b)) <= List.length a + List.length (upto_dash b))%nat.
Proof.
  induction a as [|c a IH]; intros b; [simpl; lia |]. cbn [app upto_dash].
  destruct (N.eqb c dash); simpl; [lia |]. specialize (IH b). lia.
Qed.

(* a text that is empty or begins with '-' after a stretch without '-' *)
Lemma upto_dash_app_stop : forall a x,
  stops ndash x -> upto_dash (a ++ x) = upto_dash a.
Proof.
  induction a as [|c a IH]; intros x Hx.
  - cbn [app]. destruct x as [|d x]; [reflexivity |]. cbn [stops] in Hx. unfold ndash in Hx.
    apply negb_false_iff in Hx. cbn [upto_dash]. unfold dash. rewrite Hx. reflexivity.
  - cbn [app upto_dash]. destruct (N.eqb c dash); [reflexivity |]. f_equal. apply IH. exact Hx.
Qed.

Lemma upto_dash_all : forall a, forallb ndash a = true -> upto_dash a = a.
Proof.
  induction a as [|c a IH]; intros H; [reflexivity |]. cbn [forallb] in H.
  apply andb_true_iff in H. destruct H as [H1 H2]. cbn [upto_dash]. unfold ndash in H1.
  apply negb_true_iff in H1. unfold dash. rewrite H1. f_equal. apply IH. exact H2.
Qed.

(* ---------------------------------------------------------------- the whole output *)
Definition sline_len (l : sline) : nat := List.length (render_sline l).

(* the matches of an output whose first character has absolute position p *)
Fixpoint sscan (p : nat) (ls : list sline) : list mtch :=
  match ls with
  | [] => []
  | l :: rest =>
      (match l with
       | SHdr kind stem _ _ _ =>
           let r := List.length (upto_dash (render_s rest)) in
           [(p, (p + sline_len l + 1 + r)%nat, scaps p kind stem (sline_len l) r)]
       | SOther _ => []
       end) ++ sscan (p + sline_len l + 1) rest
  end.

(* number of characters of the leading lines that are not headers *)
Fixpoint lead_len (ls : list sline) : nat :=
  match ls with
  | SOther t :: rest => (List.length t + 1 + lead_len rest)%nat
  | _ => 0%nat
  end.

Lemma render_s_cons : forall l ls, render_s (l :: ls) = render_sline l ++ nl :: render_s ls.
Proof. intros. unfold render_s. cbn [flat_map]. rewrite <- app_assoc. reflexivity. Qed.

Lemma upto_dash_lead : forall ls, (List.length (upto_dash (render_s ls)) <= lead_len ls)%nat.
Proof.
  induction ls as [|l ls IH]; [simpl; lia |]. rewrite render_s_cons.
  destruct l as [kind stem ln col nd | t].
  - rewrite shdr_shape. cbn [upto_dash]. change (N.eqb 45 dash) with true. simpl. lia.
  - cbn [render_sline lead_len].
    pose proof (upto_dash_app_len t (nl :: render_s ls)) as H. cbn [upto_dash] in H.
    change (N.eqb nl dash) with false in H. cbn [List.length] in H. lia.
Qed.

Lemma wf_sother_quiet : forall t, wf_sother t = true -> s_quiet t.
Proof.
  intros t H. unfold wf_sother in H. apply andb_true_iff in H. destruct H as [_ H].
  apply orb_true_iff in H. destruct H as [H | H]; apply negb_true_iff in H; [left | right]; exact H.
Qed.

Lemma findall_scala_gen : forall ls, wf_s ls = true ->
  forall n p j, (j <= lead_len ls)%nat -> (List.length (skipn j (render_s ls)) < n)%nat ->
                findall_aux n err_scala (skipn j (render_s ls)) (p + j) = sscan p ls.
Proof.
  induction ls as [|l ls IH]; intros Hwf n p j Hj Hn.
  - cbn [render_s flat_map]. rewrite skipn_nil. apply findall_aux_nil.
  - rewrite render_s_cons in *. destruct l as [kind stem ln col nd | t].
    + (* a header: the match, then resume inside the following lines *)
      cbn [wf_s] in Hwf. apply andb_true_iff in Hwf. destruct Hwf as [Hwf Hls].
      apply andb_true_iff in Hwf. destruct Hwf as [Hh Hnext].
      cbn [lead_len] in Hj. assert (j = 0%nat) by lia. subst j. cbn [skipn] in *.
      rewrite Nat.add_0_r.
      set (R := render_s ls) in *.
      assert (Hrun : upto_dash R <> []).
      { destruct ls as [|[k2 s2 l2 c2 n2 | t] ls']; [discriminate | discriminate |].
        unfold R. rewrite render_s_cons. cbn [render_sline].
        destruct t as [|c t]; cbn [app upto_dash].
        - change (N.eqb nl dash) with false. discriminate.
        - cbn [starts_dash] in Hnext. apply negb_true_iff in Hnext. rewrite Hnext. discriminate. }
      pose proof (s_ok kind stem ln col nd (upto_dash R) (after_dash R) p Hh Hrun
                       (upto_dash_ndash R) (after_dash_stops R)) as Hok.
      rewrite <- (upto_after R) in Hok.
      destruct n as [|n']; [simpl in Hn; lia |].
      set (hl := render_sline (SHdr kind stem ln col nd)) in *.
      assert (Hs : hl ++ nl :: R <> []).
      { intros F. apply (f_equal (@List.length ch)) in F. rewrite app_length in F. simpl in F. lia. }
      assert (Hlt : (p < p + List.length hl + 1 + List.length (upto_dash R))%nat) by lia.
      rewrite (findall_aux_match n' err_scala _ p _ _ Hs Hok Hlt).
      cbn [sscan]. fold R. unfold sline_len. fold hl. cbn [app]. f_equal.
      replace (p + List.length hl + 1 + List.length (upto_dash R) - p)%nat
        with (List.length hl + 1 + List.length (upto_dash R))%nat by lia.
      rewrite skipn_app_plus.
      replace (p + List.length hl + 1 + List.length (upto_dash R))%nat
        with ((p + List.length hl + 1) + List.length (upto_dash R))%nat by lia.
      apply IH.
      * exact Hls.
      * apply upto_dash_lead.
      * rewrite skipn_length. rewrite app_length in Hn. cbn [List.length] in Hn. lia.
    + (* another line *)
      cbn [wf_s] in Hwf. apply andb_true_iff in Hwf. destruct Hwf as [Ht Hls].
      cbn [render_sline] in *. cbn [lead_len] in Hj. cbn [sscan app]. unfold sline_len. cbn [render_sline].
      destruct (le_lt_dec j (List.length t)) as [Hle | Hgt].
      * rewrite (skipn_app_le t (nl :: render_s ls) j Hle) in *.
        apply (findall_skip_quiet err_scala s_quiet s_quiet_tail s_fail (skipn j t) (render_s ls)).
        -- apply (s_quiet_suffix (firstn j t)). rewrite firstn_skipn. apply wf_sother_quiet. exact Ht.
        -- intros n'' Hn''. rewrite skipn_length.
           replace (p + j + (List.length t - j) + 1)%nat with ((p + List.length t + 1) + 0)%nat by lia.
           apply (IH Hls n'' (p + List.length t + 1)%nat 0%nat); [lia | exact Hn''].
        -- exact Hn.
      * replace j with (List.length t + 1 + (j - List.length t - 1))%nat in * by lia.
        rewrite skipn_app_plus in *.
        replace (p + (List.length t + 1 + (j - List.length t - 1)))%nat
          with ((p + List.length t + 1) + (j - List.length t - 1))%nat by lia.
        apply IH; [exact Hls | lia | exact Hn].
Qed.

Lemma findall_scala : forall ls, wf_s ls = true ->
  findall err_scala (render_s ls) = sscan 0 ls.
Proof.
  intros ls H. unfold findall.
  exact (findall_scala_gen ls H (S (List.length (render_s ls))) 0%nat 0%nat (Nat.le_0_l _) (Nat.lt_succ_diag_r _)).
Qed.

(* ---------------------------------------------------------------- what the groups are *)
Lemma sgroups : forall pre kind stem ln col nd run s' e,
  pair12 (pre ++ render_sline (SHdr kind stem ln col nd) ++ nl :: run ++ s')
         (List.length pre, e,
          scaps (List.length pre) kind stem (List.length (render_sline (SHdr kind stem ln col nd))) (List.length run)) =
  (spath stem, run).
Proof.
  intros. unfold pair12, group, scaps. cbn [snd fst find Nat.eqb]. f_equal.
  - apply (slice_eq _ (pre ++ str "-- " ++ kind ++ str "Error: ") (spath stem)
             (str ":" ++ ln ++ str ":" ++ col ++ str " " ++ repeat dash nd ++ nl :: run ++ s')).
    + unfold render_sline. rewrite <- !app_assoc. reflexivity.
    + rewrite !app_length. change (List.length (str "-- ")) with 3%nat.
      change (List.length (str "Error: ")) with 7%nat. lia.
    + unfold spath. rewrite app_length. change (List.length (str ".scala")) with 6%nat. lia.
  - apply (slice_eq _ (pre ++ render_sline (SHdr kind stem ln col nd) ++ [nl]) run s').
    + rewrite <- !app_assoc. reflexivity.
    + rewrite !app_length. cbn [List.length]. lia.
    + lia.
Qed.

Lemma render_s_block : forall rest,
  exists X, render_s rest = render_block (block_of rest) ++ X /\ stops ndash X.
Proof.
  induction rest as [|l rest IH].
  - exists []. split; [reflexivity | exact I].
  - destruct l as [kind stem ln col nd | t].
    + exists (render_s (SHdr kind stem ln col nd :: rest)). split; [reflexivity |].
      rewrite render_s_cons, shdr_shape. reflexivity.
    + destruct IH as [X [HX Hst]]. exists X. split; [| exact Hst].
      rewrite render_s_cons. cbn [render_sline block_of]. unfold render_block. cbn [flat_map].
      fold (render_block (block_of rest)). rewrite HX. rewrite <- !app_assoc. reflexivity.
Qed.

Lemma upto_dash_block : forall rest,
  upto_dash (render_s rest) = upto_dash (render_block (block_of rest)).
Proof.
  intros rest. destruct (render_s_block rest) as [X [-> Hst]]. apply upto_dash_app_stop. exact Hst.
Qed.

Lemma scan_pairs_scala : forall ls pre,
  map (pair12 (pre ++ render_s ls)) (sscan (List.length pre) ls) = serrs ls.
Proof.
  induction ls as [|l ls IH]; intros pre; [reflexivity |].
  cbn [sscan]. rewrite map_app. rewrite render_s_cons.
  specialize (IH (pre ++ render_sline l ++ [nl])).
  rewrite !app_length in IH. cbn [List.length] in IH. rewrite Nat.add_assoc in IH.
  rewrite <- !app_assoc in IH. cbn [app] in IH. unfold sline_len.
  destruct l as [kind stem ln col nd | t]; [| exact IH].
  cbn [map serrs app]. f_equal; [| exact IH].
  pose proof (sgroups pre kind stem ln col nd (upto_dash (render_s ls)) (after_dash (render_s ls))
                      (List.length pre + List.length (render_sline (SHdr kind stem ln col nd)) + 1 +
                       List.length (upto_dash (render_s ls)))%nat) as G.
  rewrite <- (upto_after (render_s ls)) in G. rewrite <- upto_dash_block. exact G.
Qed.

(* ---------------------------------------------------------------- S1 *)
Lemma attribution_scala_lem : forall ls,
  wf_s ls = true ->
  search crash_scala (render_s ls) = None ->
  analyze comp_scala [] (render_s ls) =
  Diag (group_by_file (serrs ls)) (map (fun e => [fst e; snd e]) (serrs ls)).
Proof.
  intros ls Hwf Hc.
  rewrite (analyze_plain comp_scala (render_s ls) eq_refl Hc).
  change (err_re comp_scala) with err_scala. change (ngroups comp_scala) with 2%nat.
  rewrite (findall_scala ls Hwf).
  pose proof (scan_pairs_scala ls []) as Hp. cbn [app List.length] in Hp.
  f_equal.
  - unfold group_by_file. rewrite <- Hp.
    exact (fold_left_map _ _ _ (fun f e => failed_add f (fst e) (snd e))
             (pair12 (render_s ls)) (sscan 0 ls) []).
  - rewrite <- Hp. rewrite map_map. apply map_ext. intros mt. reflexivity.
Qed.

(* the crash test, decided on the text: no line mentions "at dotty" *)
Definition cpat_scala : list ch := str "at dotty".

Lemma crash_scala_contains : forall w, L crash_scala w -> contains cpat_scala w = true.
Proof.
  intros w H. unfold crash_scala in H. cbn [L Lseq] in H. destr_L. subst.
  repeat match goal with H : N.eqb _ _ = true |- _ => apply N.eqb_eq in H end. subst.
  find_pat.
Qed.

Lemma no_crash_scala_lem : forall s, contains cpat_scala s = false -> search crash_scala s = None.
Proof. exact (search_none_contains crash_scala cpat_scala crash_scala_contains). Qed.

(* ---------------------------------------------------------------- S2: files *)
Lemma serrs_files : forall ls, map fst (serrs ls) = sfiles ls.
Proof.
  induction ls as [|l ls IH]; [reflexivity |]. unfold sfiles. cbn [flat_map]. fold (sfiles ls).
  destruct l as [kind stem ln col nd | t]; cbn [serrs map fst app]; rewrite IH; reflexivity.
Qed.

Lemma sfiles_In : forall ls k, In k (sfiles ls) <->
  exists kind stem ln col nd, In (SHdr kind stem ln col nd) ls /\ spath stem = k.
Proof.
  induction ls as [|l ls IH]; intros k.
  - split; [intros [] | intros [? [? [? [? [? [[] _]]]]]]].
  - unfold sfiles. cbn [flat_map]. fold (sfiles ls). rewrite in_app_iff, IH. split.
    + intros [H | [kind [stem [ln [col [nd [Hin Hk]]]]]]].
      * destruct l as [kind stem ln col nd | t]; [| destruct H]. destruct H as [H | []].
        exists kind, stem, ln, col, nd. split; [left; reflexivity | exact H].
      * exists kind, stem, ln, col, nd. split; [right; exact Hin | exact Hk].
    + intros [kind [stem [ln [col [nd [[Hin | Hin] Hk]]]]]].
      * subst l. left. left. exact Hk.
      * right. exists kind, stem, ln, col, nd. split; assumption.
Qed.

Lemma files_scala_lem : forall ls,
  wf_s ls = true ->
  search crash_scala (render_s ls) = None ->
  exists f ms,
    analyze comp_scala [] (render_s ls) = Diag f ms /\
    keys_distinct (map fst f) = true /\
    (forall k, In k (map fst f) <->
               exists kind stem ln col nd, In (SHdr kind stem ln col nd) ls /\ spath stem = k) /\
    (forall k msgs, In (k, msgs) f -> msgs = msgs_for k (serrs ls)) /\
    List.length (flat_map snd f) = List.length (sfiles ls) /\
    List.length ms = List.length (sfiles ls).
Proof.
  intros ls Hwf Hc. eexists. eexists. split; [apply attribution_scala_lem; assumption |].
  destruct (failed_add_groups_lem (serrs ls)) as [H1 [H2 H3]]. cbv zeta in H1, H2, H3.
  split; [exact H1 |]. split; [| split; [intros k msgs Hin; apply group_by_file_content; exact Hin | split]].
  - intros k. rewrite <- sfiles_In, <- serrs_files. rewrite H2. split.
    + intros Hk. exists k. split; [exact Hk | apply chs_eqb_refl].
    + intros [k' [Hk E]]. apply chs_eqb_eq in E. subst. exact Hk.
  - rewrite H3. rewrite <- serrs_files. apply eq_sym, map_length.
  - rewrite map_length. rewrite <- serrs_files. apply eq_sym, map_length.
Qed.

(* ---------------------------------------------------------------- S3: messages *)
(* when no line outside the headers contains '-', the message is the whole block *)
Lemma block_no_dash : forall rest, forallb other_no_dash rest = true ->
  forallb ndash (render_block (block_of rest)) = true.
Proof.
  induction rest as [|l rest IH]; intros H; [reflexivity |].
  destruct l as [kind stem ln col nd | t]; [reflexivity |].
  cbn [forallb other_no_dash] in H. apply andb_true_iff in H. destruct H as [H1 H2].
  cbn [block_of]. unfold render_block. cbn [flat_map]. fold (render_block (block_of rest)).
  rewrite !forallb_app. apply andb_true_iff. split; [| exact (IH H2)].
  apply andb_true_iff. split; [exact H1 | reflexivity].
Qed.

Lemma serrs_whole_lem : forall ls, forallb other_no_dash ls = true -> serrs ls = serrs_whole ls.
Proof.
  induction ls as [|l ls IH]; intros H; [reflexivity |].
  cbn [forallb] in H. apply andb_true_iff in H. destruct H as [H1 H2].
  destruct l as [kind stem ln col nd | t]; cbn [serrs serrs_whole]; rewrite (IH H2); [| reflexivity].
  rewrite (upto_dash_all _ (block_no_dash ls H2)). reflexivity.
Qed.

Lemma attribution_scala_whole_lem : forall ls,
  wf_s ls = true -> forallb other_no_dash ls = true ->
  search crash_scala (render_s ls) = None ->
  analyze comp_scala [] (render_s ls) =
  Diag (group_by_file (serrs_whole ls)) (map (fun e => [fst e; snd e]) (serrs_whole ls)).
Proof.
  intros ls Hwf Hnd Hc. rewrite <- (serrs_whole_lem ls Hnd). apply attribution_scala_lem; assumption.
Qed.

(* ---------------------------------------------------------------- examples and refutations *)
Definition s_example : list sline :=
  [ SHdr (str "[E007] Type Mismatch ") (str "/tmp/tmpab_1/src/foo/program") (str "3") (str "15") 20;
    SOther (str "3 |  val x: Int = y");
    SOther (str "  |               ^");
    SOther (str "  |               Found:    (y : String)");
    SOther (str "  |               Required: Int");
    SHdr (str "") (str "/tmp/tmpab_1/src/bar/program") (str "10") (str "1") 3;
    SOther (str "10 |  foo");
    SOther (str "   |  Not found: foo");
    SOther (str "-- Warning: /tmp/tmpab_1/src/baz/program.scala:1:1 -----");
    SOther (str "1 |  import x");
    SOther (str "2 errors found") ].

Example s_example_ok :
  wf_s s_example = true /\
  contains cpat_scala (render_s s_example) = false /\
  analyze comp_scala [] (render_s s_example) =
  Diag [ (str "/tmp/tmpab_1/src/foo/program.scala",
          [str "3 |  val x: Int = y" ++ [nl] ++ str "  |               ^" ++ [nl] ++
           str "  |               Found:    (y : String)" ++ [nl] ++ str "  |               Required: Int" ++ [nl]]);
         (str "/tmp/tmpab_1/src/bar/program.scala",
          [str "10 |  foo" ++ [nl] ++ str "   |  Not found: foo" ++ [nl]]) ]
       [ [str "/tmp/tmpab_1/src/foo/program.scala";
          str "3 |  val x: Int = y" ++ [nl] ++ str "  |               ^" ++ [nl] ++
          str "  |               Found:    (y : String)" ++ [nl] ++ str "  |               Required: Int" ++ [nl]];
         [str "/tmp/tmpab_1/src/bar/program.scala";
          str "10 |  foo" ++ [nl] ++ str "   |  Not found: foo" ++ [nl]] ].
Proof. vm_compute. repeat split. Qed.

(* the recorded message is NOT the block in general: a '-' in the quoted source line cuts it
   before the explanation, and a trailing summary line is appended to the last message *)
Definition s_cut_example : list sline :=
  [ SHdr (str "[E007] Type Mismatch ") (str "src/foo/program") (str "3") (str "19") 8;
    SOther (str "3 |  val x: String = -1");
    SOther (str "  |                  ^^");
    SOther (str "  |                  Found:    (-1 : Int)");
    SOther (str "  |                  Required: String");
    SOther (str "1 error found") ].

Lemma scala_message_whole_refuted_lem :
  exists ls,
    wf_s ls = true /\ search crash_scala (render_s ls) = None /\
    analyze comp_scala [] (render_s ls) =
    Diag [(str "src/foo/program.scala", [str "3 |  val x: String = "])]
         [[str "src/foo/program.scala"; str "3 |  val x: String = "]] /\
    serrs_whole ls =
    [(str "src/foo/program.scala",
      str "3 |  val x: String = -1" ++ [nl] ++ str "  |                  ^^" ++ [nl] ++
      str "  |                  Found:    (-1 : Int)" ++ [nl] ++ str "  |                  Required: String" ++ [nl] ++
      str "1 error found" ++ [nl])].
Proof. exists s_cut_example. vm_compute. repeat split. Qed.

(* the side condition "a header is followed by a line of its block" is necessary: an error
   block without any line after the header is dropped ([^-]+ needs one character) *)
Definition s_nobody_example : list sline :=
  [ SHdr (str "") (str "src/foo/program") (str "1") (str "1") 3;
    SHdr (str "") (str "src/bar/program") (str "2") (str "2") 3;
    SOther (str "2 |  x") ].

Lemma scala_header_without_block_dropped_lem :
  search crash_scala (render_s s_nobody_example) = None /\
  sfiles s_nobody_example = [str "src/foo/program.scala"; str "src/bar/program.scala"] /\
  analyze comp_scala [] (render_s s_nobody_example) =
  Diag [(str "src/bar/program.scala", [str "2 |  x" ++ [nl]])]
       [[str "src/bar/program.scala"; str "2 |  x" ++ [nl]]].
Proof. vm_compute. repeat split. Qed.
