(* Diag/EngineLemmas.v -- reasoning principles for the matcher of Diag/Regex.v:
   unfolding equations, greedy repeats over a maximal run, a denotational over-approximation
   [L] with a soundness theorem, newline-freeness, list/slice/contains facts. *)
From Coq Require Import List NArith Bool Lia Arith String.
Import ListNotations.
From Heph Require Import Diag.Regex Diag.Analyze Diag.Grammar.

(* ------------------------------------------------------------ unfolding equations *)

Definition rep_fix (R : Type) (greedy : bool) (lo : nat) (hi : option nat) (r1 : re)
           (k : list ch -> nat -> caps -> option R) :=
  fix rep (n : nat) (count : nat) (s : list ch) (pos : nat) (cs : caps) {struct n} : option R :=
    match n with
    | O => None
    | S n' =>
        let can_stop := Nat.leb lo count in
        let can_more := match hi with None => true | Some h => Nat.ltb count h end in
        let more := fun (_ : unit) =>
                      if can_more then
                        m R r1 s pos cs (fun s' p' c' =>
                                           if Nat.eqb p' pos then None
                                           else rep n' (S count) s' p' c')
                      else None in
        let stop := fun (_ : unit) => if can_stop then k s pos cs else None in
        if greedy then match more tt with Some x => Some x | None => stop tt end
        else match stop tt with Some x => Some x | None => more tt end
    end.

Lemma m_rep : forall R g lo hi r1 s pos cs k,
  m R (RRep g lo hi r1) s pos cs k = rep_fix R g lo hi r1 k (S (List.length s)) 0 s pos cs.
Proof. reflexivity. Qed.

Lemma rep_fix_S : forall R g lo hi r1 k n' count s pos cs,
  rep_fix R g lo hi r1 k (S n') count s pos cs =
  let more := if (match hi with None => true | Some h => Nat.ltb count h end)
              then m R r1 s pos cs (fun s' p' c' =>
                                      if Nat.eqb p' pos then None
                                      else rep_fix R g lo hi r1 k n' (S count) s' p' c')
              else None in
  let stop := if Nat.leb lo count then k s pos cs else None in
  if g then match more with Some x => Some x | None => stop end
  else match stop with Some x => Some x | None => more end.
Proof. reflexivity. Qed.

Lemma m_seq_nil : forall R s pos cs k, m R (RSeq []) s pos cs k = k s pos cs.
Proof. reflexivity. Qed.

Lemma m_seq_cons : forall R r rs s pos cs k,
  m R (RSeq (r :: rs)) s pos cs k = m R r s pos cs (fun s' p' c' => m R (RSeq rs) s' p' c' k).
Proof. reflexivity. Qed.

Lemma m_group_some : forall R i r s pos cs k,
  m R (RGroup (Some i) r) s pos cs k =
  m R r s pos cs (fun s' p' c' => k s' p' (set_cap i (pos, p') c')).
Proof. reflexivity. Qed.

Lemma m_group_none : forall R r s pos cs k,
  m R (RGroup None r) s pos cs k = m R r s pos cs k.
Proof. reflexivity. Qed.

Lemma m_look : forall R r s pos cs k,
  m R (RLook r) s pos cs k =
  match m caps r s pos cs (fun _ _ c' => Some c') with None => None | Some c' => k s pos c' end.
Proof. reflexivity. Qed.

(* single-character atoms *)
Definition atom_ok (r : re) (ok : ch -> bool) : Prop :=
  forall R s pos cs k, m R r s pos cs k = step_char ok R s pos cs k.

Lemma atom_lit : forall c, atom_ok (RLit c) (fun x => N.eqb x c).
Proof. intros c R s pos cs k. reflexivity. Qed.
Lemma atom_notlit : forall c, atom_ok (RNotLit c) (fun x => negb (N.eqb x c)).
Proof. intros c R s pos cs k. reflexivity. Qed.
Lemma atom_any : atom_ok RAny (fun x => negb (N.eqb x 10)).
Proof. intros R s pos cs k. reflexivity. Qed.
Lemma atom_in : forall neg l,
  atom_ok (RIn neg l) (fun x => xorb neg (existsb (fun c => in_cset c x) l)).
Proof. intros neg l R s pos cs k. reflexivity. Qed.

Lemma m_atom_cons : forall r ok, atom_ok r ok ->
  forall R x t pos cs k, ok x = true -> m R r (x :: t) pos cs k = k t (S pos) cs.
Proof. intros r ok H R x t pos cs k Hx. rewrite H. simpl. rewrite Hx. reflexivity. Qed.

Lemma m_lit_cons : forall R c t pos cs k, m R (RLit c) (c :: t) pos cs k = k t (S pos) cs.
Proof. intros. apply (m_atom_cons _ _ (atom_lit c)). apply N.eqb_refl. Qed.

Lemma m_any_cons : forall R x t pos cs k, N.eqb x 10 = false ->
  m R RAny (x :: t) pos cs k = k t (S pos) cs.
Proof. intros. apply (m_atom_cons _ _ atom_any). rewrite H. reflexivity. Qed.

(* ------------------------------------------------------------ greedy repeat over a maximal run *)

(* the remainder does not start with a character of the class *)
Definition stops (ok : ch -> bool) (s : list ch) : Prop :=
  match s with [] => True | c :: _ => ok c = false end.

Lemma rep_greedy_run : forall R lo r1 ok k, atom_ok r1 ok ->
  forall run n count s' pos cs x,
    forallb ok run = true ->
    stops ok s' ->
    (List.length run < n)%nat ->
    (lo <= count + List.length run)%nat ->
    k s' (pos + List.length run)%nat cs = Some x ->
    rep_fix R true lo None r1 k n count (run ++ s') pos cs = Some x.
Proof.
  intros R lo r1 ok k Hat. induction run as [|c run IH]; intros n count s' pos cs x Hrun Hst Hn Hlo Hk.
  - destruct n as [|n']; [simpl in Hn; lia |].
    rewrite rep_fix_S. cbv zeta. rewrite Hat. simpl app.
    assert (E : step_char ok R s' pos cs
                  (fun s'0 p' c' => if Nat.eqb p' pos then None
                                    else rep_fix R true lo None r1 k n' (S count) s'0 p' c') = None).
    { destruct s' as [|d t]; [reflexivity |]. simpl in Hst. simpl. rewrite Hst. reflexivity. }
    rewrite E. simpl in Hlo. rewrite Nat.add_0_r in Hlo.
    apply Nat.leb_le in Hlo. rewrite Hlo.
    simpl in Hk. rewrite Nat.add_0_r in Hk. exact Hk.
  - destruct n as [|n']; [simpl in Hn; lia |].
    simpl in Hrun. apply andb_true_iff in Hrun. destruct Hrun as [Hc Hrun].
    rewrite rep_fix_S. cbv zeta. rewrite Hat. simpl app. unfold step_char. rewrite Hc.
    assert (E : Nat.eqb (S pos) pos = false) by (apply Nat.eqb_neq; lia).
    rewrite E.
    rewrite (IH n' (S count) s' (S pos) cs x); [reflexivity | exact Hrun | exact Hst | | | ].
    + simpl in Hn. lia.
    + simpl in Hlo. lia.
    + simpl in Hk. rewrite <- Hk. f_equal. lia.
Qed.

Lemma m_rep_greedy_run : forall R lo r1 ok k, atom_ok r1 ok ->
  forall run s' pos cs x,
    forallb ok run = true ->
    stops ok s' ->
    (lo <= List.length run)%nat ->
    k s' (pos + List.length run)%nat cs = Some x ->
    m R (RRep true lo None r1) (run ++ s') pos cs k = Some x.
Proof.
  intros R lo r1 ok k Hat run s' pos cs x H1 H2 H3 H4.
  rewrite m_rep. apply (rep_greedy_run R lo r1 ok k Hat); try assumption.
  rewrite app_length. lia.
Qed.

(* lazy repeat with minimum 0 stops immediately when the continuation succeeds *)
Lemma m_rep_lazy_stop : forall R hi r1 s pos cs k x,
  k s pos cs = Some x -> m R (RRep false 0 hi r1) s pos cs k = Some x.
Proof.
  intros R hi r1 s pos cs k x H. rewrite m_rep, rep_fix_S. cbv zeta. simpl Nat.leb.
  rewrite H. reflexivity.
Qed.

(* every list splits into a maximal run and a remainder *)
Lemma span_run : forall (ok : ch -> bool) s,
  exists run s', s = run ++ s' /\ forallb ok run = true /\ stops ok s'.
Proof.
  intros ok. induction s as [|c s IH].
  - exists [], []. repeat split.
  - destruct (ok c) eqn:E.
    + destruct IH as [run [s' [H1 [H2 H3]]]]. exists (c :: run), s'. subst. simpl. rewrite E, H2. auto.
    + exists [], (c :: s). simpl. auto.
Qed.

(* ------------------------------------------------------------ induction principle for re *)
Section re_ind2.
  Variable P : re -> Prop.
  Hypothesis HLit : forall c, P (RLit c).
  Hypothesis HNotLit : forall c, P (RNotLit c).
  Hypothesis HAny : P RAny.
  Hypothesis HIn : forall neg l, P (RIn neg l).
  Hypothesis HSeq : forall rs, Forall P rs -> P (RSeq rs).
  Hypothesis HRep : forall g lo hi r, P r -> P (RRep g lo hi r).
  Hypothesis HGroup : forall i r, P r -> P (RGroup i r).
  Hypothesis HLook : forall r, P r -> P (RLook r).

  Fixpoint re_ind2 (r : re) : P r :=
    match r with
    | RLit c => HLit c
    | RNotLit c => HNotLit c
    | RAny => HAny
    | RIn neg l => HIn neg l
    | RSeq rs => HSeq rs ((fix go (rs : list re) : Forall P rs :=
                             match rs with
                             | [] => Forall_nil P
                             | r1 :: rs' => Forall_cons r1 (re_ind2 r1) (go rs')
                             end) rs)
    | RRep g lo hi r1 => HRep g lo hi r1 (re_ind2 r1)
    | RGroup i r1 => HGroup i r1 (re_ind2 r1)
    | RLook r1 => HLook r1 (re_ind2 r1)
    end.
End re_ind2.

(* ------------------------------------------------------------ denotation (over-approximation) *)

Definition Lseq (P : re -> list ch -> Prop) : list re -> list ch -> Prop :=
  fix go (rs : list re) (w : list ch) {struct rs} : Prop :=
    match rs with
    | [] => w = []
    | r :: rest => exists w1 w2, w = w1 ++ w2 /\ P r w1 /\ go rest w2
    end.

(* the words a regex can consume (look-ahead consumes nothing; bounds of repeats ignored) *)
Fixpoint L (r : re) (w : list ch) {struct r} : Prop :=
  match r with
  | RLit c => exists x, w = [x] /\ N.eqb x c = true
  | RNotLit c => exists x, w = [x] /\ negb (N.eqb x c) = true
  | RAny => exists x, w = [x] /\ negb (N.eqb x 10) = true
  | RIn neg l => exists x, w = [x] /\ xorb neg (existsb (fun c => in_cset c x) l) = true
  | RSeq rs => Lseq (fun r' w' => L r' w') rs w
  | RRep _ _ _ r1 => exists ws, w = List.concat ws /\ Forall (L r1) ws
  | RGroup _ r1 => L r1 w
  | RLook _ => w = []
  end.

Lemma step_char_sound : forall ok R s pos cs k x,
  step_char ok R s pos cs k = Some x ->
  exists c t, s = c :: t /\ ok c = true /\ k t (S pos) cs = Some x.
Proof.
  intros ok R s pos cs k x H. destruct s as [|c t]; [discriminate |].
  simpl in H. destruct (ok c) eqn:E; [| discriminate]. exists c, t. auto.
Qed.

Definition sound (r : re) : Prop :=
  forall R s pos cs k x, m R r s pos cs k = Some x ->
    exists w s' cs', s = w ++ s' /\ L r w /\ k s' (pos + List.length w)%nat cs' = Some x.

Lemma atom_sound : forall r ok, atom_ok r ok ->
  (forall x, ok x = true -> L r [x]) -> sound r.
Proof.
  intros r ok Hat HL R s pos cs k x H. rewrite Hat in H.
  apply step_char_sound in H. destruct H as [c [t [-> [Hc Hk]]]].
  exists [c], t, cs. split; [reflexivity |]. split; [apply HL; exact Hc |].
  simpl. rewrite Nat.add_1_r. exact Hk.
Qed.

Theorem m_sound : forall r, sound r.
Proof.
  induction r using re_ind2.
  - apply (atom_sound _ _ (atom_lit c)). intros x Hx. simpl. eauto.
  - apply (atom_sound _ _ (atom_notlit c)). intros x Hx. simpl. eauto.
  - apply (atom_sound _ _ atom_any). intros x Hx. simpl. eauto.
  - apply (atom_sound _ _ (atom_in neg l)). intros x Hx. simpl. eauto.
  - (* RSeq *)
    induction H as [|r rs Hr Hrs IH]; intros R s pos cs k x Hm.
    + rewrite m_seq_nil in Hm. exists [], s, cs. simpl. rewrite Nat.add_0_r. auto.
    + rewrite m_seq_cons in Hm. apply Hr in Hm.
      destruct Hm as [w1 [s1 [c1 [-> [HL1 Hm]]]]].
      apply IH in Hm. destruct Hm as [w2 [s2 [c2 [-> [HL2 Hm]]]]].
      exists (w1 ++ w2), s2, c2. split; [apply app_assoc |]. split.
      * simpl. exists w1, w2. auto.
      * rewrite app_length, Nat.add_assoc. exact Hm.
  - (* RRep *)
    intros R s pos cs k x Hm. rewrite m_rep in Hm.
    revert Hm. generalize (S (List.length s)) as n. generalize 0%nat as count.
    intros count n. revert count s pos cs.
    induction n as [|n IHn]; intros count s pos cs Hm; [discriminate |].
    rewrite rep_fix_S in Hm. cbv zeta in Hm.
    assert (Hstop : (if Nat.leb lo count then k s pos cs else None) = Some x ->
                    exists w s' cs', s = w ++ s' /\ L (RRep g lo hi r) w /\
                                     k s' (pos + List.length w)%nat cs' = Some x).
    { intros Hs. destruct (Nat.leb lo count); [| discriminate].
      exists [], s, cs. split; [reflexivity |]. split.
      - simpl. exists []. split; [reflexivity | constructor].
      - simpl. rewrite Nat.add_0_r. exact Hs. }
    assert (Hmore : (if match hi with None => true | Some h => Nat.ltb count h end
                     then m R r s pos cs (fun s' p' c' =>
                            if Nat.eqb p' pos then None
                            else rep_fix R g lo hi r k n (S count) s' p' c')
                     else None) = Some x ->
                    exists w s' cs', s = w ++ s' /\ L (RRep g lo hi r) w /\
                                     k s' (pos + List.length w)%nat cs' = Some x).
    { intros Hs. destruct (match hi with None => true | Some h => Nat.ltb count h end); [| discriminate].
      apply IHr in Hs. destruct Hs as [w1 [s1 [c1 [-> [HL1 Hs]]]]].
      destruct (Nat.eqb (pos + List.length w1) pos); [discriminate |].
      apply IHn in Hs. destruct Hs as [w2 [s2 [c2 [-> [HL2 Hs]]]]].
      exists (w1 ++ w2), s2, c2. split; [apply app_assoc |]. split.
      - simpl in HL2. destruct HL2 as [ws [-> Hws]]. simpl.
        exists (w1 :: ws). split; [reflexivity | constructor; assumption].
      - rewrite app_length, Nat.add_assoc. exact Hs. }
    destruct g.
    + destruct (if match hi with None => true | Some h => Nat.ltb count h end
                then m R r s pos cs (fun s' p' c' =>
                       if Nat.eqb p' pos then None
                       else rep_fix R true lo hi r k n (S count) s' p' c')
                else None) eqn:E.
      * injection Hm as ->. apply Hmore. reflexivity.
      * apply Hstop. exact Hm.
    + destruct (if Nat.leb lo count then k s pos cs else None) eqn:E.
      * injection Hm as ->. apply Hstop. reflexivity.
      * apply Hmore. exact Hm.
  - (* RGroup *)
    intros R s pos cs k x Hm. destruct i as [i|].
    + rewrite m_group_some in Hm. apply IHr in Hm.
      destruct Hm as [w [s' [c' [-> [HL Hm]]]]]. exists w, s'. eexists. split; [reflexivity |].
      split; [exact HL | exact Hm].
    + rewrite m_group_none in Hm. apply IHr in Hm. exact Hm.
  - (* RLook *)
    intros R s pos cs k x Hm. rewrite m_look in Hm.
    destruct (m caps r s pos cs (fun _ _ c' => Some c')) as [c'|]; [| discriminate].
    exists [], s, c'. simpl. rewrite Nat.add_0_r. auto.
Qed.

Lemma match_at_sound : forall r s pos e c,
  match_at r s pos = Some (e, c) ->
  exists w s', s = w ++ s' /\ L r w /\ e = (pos + List.length w)%nat.
Proof.
  intros r s pos e c H. unfold match_at in H. apply m_sound in H.
  destruct H as [w [s' [c' [Hs [HL Hk]]]]]. exists w, s'. split; [exact Hs |].
  split; [exact HL |]. congruence.
Qed.

(* ------------------------------------------------------------ newline-free regexes *)

Definition cset_nl_free (c : cset) : bool :=
  match c with
  | CLit d => negb (N.eqb 10 d)
  | CRange lo hi => negb (N.leb lo 10 && N.leb 10 hi)
  | CDigit | CNotSpace | CWord => true
  | CSpace | CNotDigit | CNotWord => false
  end.

(* no consuming atom of the regex can match a newline *)
Fixpoint nl_free (r : re) : bool :=
  match r with
  | RLit c => negb (N.eqb 10 c)
  | RNotLit _ => false
  | RAny => true
  | RIn neg l => negb neg && forallb cset_nl_free l
  | RSeq rs => forallb nl_free rs
  | RRep _ _ _ r1 => nl_free r1
  | RGroup _ r1 => nl_free r1
  | RLook _ => true
  end.

Lemma cset_nl_free_ok : forall c, cset_nl_free c = true -> in_cset c 10 = false.
Proof.
  intros c H. destruct c; simpl in *; try discriminate; try reflexivity.
  - apply negb_true_iff in H. exact H.
  - apply negb_true_iff in H. exact H.
Qed.

Lemma no_nl_app : forall a b, no_nl (a ++ b) = no_nl a && no_nl b.
Proof. intros. unfold no_nl. apply forallb_app. Qed.

Lemma L_nl_free : forall r w, nl_free r = true -> L r w -> no_nl w = true.
Proof.
  induction r using re_ind2; intros w Hf HL; cbn [nl_free] in Hf; cbn [L] in HL.
  - destruct HL as [x [-> Hx]]. apply N.eqb_eq in Hx. subst x.
    unfold no_nl, nl. cbn [forallb]. rewrite N.eqb_sym, Hf. reflexivity.
  - discriminate.
  - destruct HL as [x [-> Hx]]. unfold no_nl, nl. cbn [forallb]. rewrite Hx. reflexivity.
  - destruct HL as [x [-> Hx]]. apply andb_true_iff in Hf. destruct Hf as [Hn Hl].
    apply negb_true_iff in Hn. subst neg. cbn [xorb] in Hx.
    unfold no_nl, nl. cbn [forallb]. rewrite andb_true_r. apply negb_true_iff.
    destruct (N.eqb x 10) eqn:E; [| reflexivity]. apply N.eqb_eq in E. subst x.
    exfalso. destruct (existsb (fun c : cset => in_cset c 10) l) eqn:Hx'; [| discriminate].
    apply existsb_exists in Hx'. destruct Hx' as [c [Hin Hc]].
    rewrite forallb_forall in Hl. apply Hl in Hin. apply cset_nl_free_ok in Hin. congruence.
  - revert w HL. induction H as [|r rs Hr Hrs IH]; intros w HL; cbn [Lseq] in HL.
    + subst. reflexivity.
    + cbn [forallb] in Hf. apply andb_true_iff in Hf. destruct Hf as [Hf1 Hf2].
      destruct HL as [w1 [w2 [-> [HL1 HL2]]]]. rewrite no_nl_app.
      rewrite (Hr w1 Hf1 HL1). apply IH; assumption.
  - destruct HL as [ws [-> Hws]]. induction Hws as [|w1 ws Hw1 Hws IH]; [reflexivity |].
    cbn [List.concat]. rewrite no_nl_app. rewrite (IHr w1 Hf Hw1). exact IH.
  - apply IHr; assumption.
  - subst. reflexivity.
Qed.

(* ------------------------------------------------------------ lists: prefixes, contains, slices *)

Lemma prefix_split : forall b rest w s',
  b ++ nl :: rest = w ++ s' -> no_nl w = true -> exists t, b = w ++ t.
Proof.
  induction b as [|c b IH]; intros rest w s' H Hw.
  - destruct w as [|d w]; [exists []; reflexivity |].
    simpl in H. injection H as <- _. simpl in Hw. unfold nl in Hw. simpl in Hw. discriminate.
  - destruct w as [|d w]; [exists (c :: b); reflexivity |].
    simpl in H. injection H as <- H. simpl in Hw. apply andb_true_iff in Hw. destruct Hw as [_ Hw].
    destruct (IH rest w s' H Hw) as [t ->]. exists t. reflexivity.
Qed.

Lemma prefix_of_app : forall p a b, prefix_of p a = true -> prefix_of p (a ++ b) = true.
Proof.
  induction p as [|x p IH]; intros a b H; [reflexivity |].
  destruct a as [|y a]; [discriminate |]. simpl in *.
  apply andb_true_iff in H. destruct H as [H1 H2]. rewrite H1. simpl. apply IH. exact H2.
Qed.

Lemma contains_prefix : forall p s, prefix_of p s = true -> contains p s = true.
Proof. intros p s H. destruct s; simpl; rewrite H; reflexivity. Qed.

Lemma contains_app_l : forall p a b, contains p a = true -> contains p (a ++ b) = true.
Proof.
  intros p. induction a as [|y a IH]; intros b H.
  - simpl in H. rewrite orb_false_r in H. apply contains_prefix.
    apply (prefix_of_app p [] b). exact H.
  - simpl in H. apply orb_true_iff in H. destruct H as [H | H].
    + apply contains_prefix. apply prefix_of_app. exact H.
    + simpl. rewrite (IH b H). apply orb_true_r.
Qed.

Lemma contains_app_r : forall p a b, contains p b = true -> contains p (a ++ b) = true.
Proof.
  intros p. induction a as [|y a IH]; intros b H; [exact H |].
  simpl. rewrite (IH b H). apply orb_true_r.
Qed.

Lemma contains_suffix_false : forall p a b, contains p (a ++ b) = false -> contains p b = false.
Proof.
  intros p a b H. destruct (contains p b) eqn:E; [| reflexivity].
  rewrite (contains_app_r p a b E) in H. discriminate.
Qed.

Lemma contains_cons_false : forall p c s, contains p (c :: s) = false -> contains p s = false.
Proof. intros p c s H. apply (contains_suffix_false p [c] s). exact H. Qed.

Lemma skipn_app_exact : forall (a b : list ch), skipn (List.length a) (a ++ b) = b.
Proof. induction a; intros; simpl; auto. Qed.

Lemma firstn_app_exact : forall (a b : list ch), firstn (List.length a) (a ++ b) = a.
Proof. induction a; intros; simpl; [reflexivity | f_equal; auto]. Qed.

Lemma slice_eq : forall text x w y a b,
  text = x ++ w ++ y -> a = List.length x -> b = (a + List.length w)%nat -> slice text a b = w.
Proof.
  intros text x w y a b -> -> ->. unfold slice.
  rewrite skipn_app_exact. replace (List.length x + List.length w - List.length x)%nat with (List.length w) by lia.
  apply firstn_app_exact.
Qed.

(* a regex whose matches stay on one line and contain a given text fails on every line that
   does not contain that text *)
Lemma match_at_none_line : forall r pat,
  nl_free r = true ->
  (forall w, L r w -> contains pat w = true) ->
  forall b rest p, contains pat b = false -> match_at r (b ++ nl :: rest) p = None.
Proof.
  intros r pat Hnl Hpat b rest p Hb.
  destruct (match_at r (b ++ nl :: rest) p) as [[e c]|] eqn:E; [| reflexivity].
  apply match_at_sound in E. destruct E as [w [s' [Hs [HL _]]]].
  destruct (prefix_split b rest w s' Hs (L_nl_free r w Hnl HL)) as [t ->].
  rewrite (contains_app_l pat w t (Hpat w HL)) in Hb. discriminate.
Qed.

(* ------------------------------------------------------------ findall *)

Lemma findall_aux_match : forall n r s pos e c,
  s <> [] -> match_at r s pos = Some (e, c) -> (pos < e)%nat ->
  findall_aux (S n) r s pos = (pos, e, c) :: findall_aux n r (skipn (e - pos) s) e.
Proof.
  intros n r s pos e c Hs Hm Hlt. destruct s as [|x t]; [congruence |].
  simpl findall_aux. rewrite Hm.
  assert (E : Nat.leb e pos = false) by (apply Nat.leb_gt; exact Hlt).
  rewrite E. reflexivity.
Qed.

Lemma findall_aux_nomatch : forall n r x t pos,
  match_at r (x :: t) pos = None ->
  findall_aux (S n) r (x :: t) pos = findall_aux n r t (S pos).
Proof. intros n r x t pos Hm. simpl findall_aux. rewrite Hm. reflexivity. Qed.

(* ------------------------------------------------------------ scanning a line-oriented output *)
Section LineScan.
  Variable r : re.
  Variable rl : line -> list ch.
  Variable capsof : nat -> line -> caps.
  Variable pat : list ch.
  Hypothesis pat_nonempty : pat <> [].
  Hypothesis rl_other : forall t, rl (LOther t) = t.
  Hypothesis rl_err_nonempty : forall stem ln col msg, rl (LErr stem ln col msg) <> [].
  Hypothesis r_fail : forall b rest p,
    contains pat b = false -> match_at r (b ++ nl :: rest) p = None.
  Hypothesis r_ok : forall stem ln col msg rest p,
    wf_line (LErr stem ln col msg) = true ->
    match_at r (rl (LErr stem ln col msg) ++ nl :: rest) p =
    Some ((p + List.length (rl (LErr stem ln col msg)))%nat, capsof p (LErr stem ln col msg)).
  Hypothesis wf_other : forall t, wf_line (LOther t) = true -> contains pat t = false.

  Definition render (ls : list line) : list ch := flat_map (fun l => rl l ++ [nl]) ls.

  Fixpoint scan (p : nat) (ls : list line) : list mtch :=
    match ls with
    | [] => []
    | l :: ls' =>
        (match l with
         | LErr _ _ _ _ => [(p, (p + List.length (rl l))%nat, capsof p l)]
         | LOther _ => []
         end) ++ scan (p + List.length (rl l) + 1)%nat ls'
    end.

  Lemma contains_nil : contains pat [] = false.
  Proof. destruct pat; [congruence | reflexivity]. Qed.

  Lemma findall_skip : forall b rest X p,
    contains pat b = false ->
    (forall n', (List.length rest < n')%nat ->
                findall_aux n' r rest (p + List.length b + 1)%nat = X) ->
    forall n, (List.length (b ++ nl :: rest) < n)%nat ->
              findall_aux n r (b ++ nl :: rest) p = X.
  Proof.
    induction b as [|c b IH]; intros rest X p Hb HX n Hn.
    - destruct n as [|n']; [simpl in Hn; lia |]. simpl app.
      rewrite findall_aux_nomatch by (apply (r_fail [] rest p); exact Hb).
      simpl in HX. replace (S p) with (p + 0 + 1)%nat by lia. apply HX. simpl in Hn. lia.
    - destruct n as [|n']; [simpl in Hn; lia |]. simpl app.
      rewrite findall_aux_nomatch by (apply (r_fail (c :: b) rest p); exact Hb).
      apply IH.
      + apply contains_cons_false in Hb. exact Hb.
      + intros n'' Hn''. replace (S p + List.length b + 1)%nat with (p + List.length (c :: b) + 1)%nat
          by (simpl; lia). apply HX. exact Hn''.
      + simpl in Hn. lia.
  Qed.

  Theorem findall_render : forall ls, forallb wf_line ls = true ->
    forall n p, (List.length (render ls) < n)%nat -> findall_aux n r (render ls) p = scan p ls.
  Proof.
    induction ls as [|l ls IH]; intros Hwf n p Hn.
    - destruct n; reflexivity.
    - simpl in Hwf. apply andb_true_iff in Hwf. destruct Hwf as [Hl Hls].
      unfold render in *. simpl flat_map in *. rewrite <- app_assoc in *. simpl app in *.
      fold (render ls) in *.
      destruct l as [stem ln col msg | txt].
      + destruct n as [|n']; [lia |].
        pose proof (rl_err_nonempty stem ln col msg) as Hne.
        pose proof (r_ok stem ln col msg (render ls) p Hl) as Hok.
        set (ll := rl (LErr stem ln col msg)) in *.
        assert (Hs : ll ++ nl :: render ls <> []).
        { intros F. apply app_eq_nil in F. destruct F as [F _]. exact (Hne F). }
        assert (Hlt : (p < p + List.length ll)%nat).
        { destruct ll; [congruence | simpl; lia]. }
        rewrite (findall_aux_match n' r _ p _ _ Hs Hok Hlt).
        cbn [scan]. fold ll. cbn [app]. f_equal.
        replace (p + List.length ll - p)%nat with (List.length ll) by lia.
        rewrite skipn_app_exact.
        apply (findall_skip [] (render ls)).
        * apply contains_nil.
        * intros n'' Hn''. cbn [List.length]. rewrite Nat.add_0_r. apply IH; assumption.
        * rewrite app_length in Hn. cbn [List.length app] in *. lia.
      + simpl scan. simpl app. rewrite rl_other in *.
        apply (findall_skip txt (render ls)).
        * apply wf_other. exact Hl.
        * intros n'' Hn''. apply IH; assumption.
        * exact Hn.
  Qed.

  Corollary findall_render_top : forall ls, forallb wf_line ls = true ->
    findall r (render ls) = scan 0 ls.
  Proof. intros ls H. unfold findall. apply findall_render; [exact H | lia]. Qed.
End LineScan.

(* fold over a mapped list *)
Lemma fold_left_map : forall (A B C : Type) (F : A -> B -> A) (g : C -> B) (l : list C) (a : A),
  fold_left (fun x y => F x (g y)) l a = fold_left F (map g l) a.
Proof. intros A B C F g. induction l as [|y l IH]; intros a; simpl; [reflexivity | apply IH]. Qed.
