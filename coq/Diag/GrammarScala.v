(* Diag/GrammarScala.v -- grammar of scalac (Scala 3 / dotty, `-color never -nowarn`) outputs over
   which the attribution theorems of Diag/AttrScala.v are stated.  Definitions only.

   An output is a sequence of lines.  A header line opens an error block:
       -- [E007] Type Mismatch Error: /tmp/x/src/pkg/program.scala:3:15 ---------------
   (kind = "[E007] Type Mismatch ", possibly empty: "-- Error: ...").  Every other line is an
   SOther: the quoted source ("3 |  val x: Int = y"), the marker and explanation lines of the
   block ("  |   Found: ..."), summary lines ("1 error found"), headers of warning blocks
   ("-- Warning: ...") and whatever follows them.

   What ERROR_REGEX  -- .*Error: (.*\.scala):\d+:\d+ -+\n((?:[^-]+))  records as the message of a
   block is NOT the block: it is the text after the header line up to the next '-' anywhere in the
   output (upto_dash), which may end in the middle of a line of the block ("Int -> String",
   "-explain") or run past the end of the block into a summary line. *)
From Coq Require Import List NArith Bool String.
Import ListNotations.
From Heph Require Import Diag.Regex Diag.Analyze Diag.Grammar.
Open Scope N_scope.

Definition dash : ch := 45.

Inductive sline :=
| SHdr (kind stem ln col : list ch) (nd : nat)    (* header of an error block for stem.scala, nd dashes *)
| SOther (txt : list ch).

Definition spath (stem : list ch) : list ch := stem ++ str ".scala".

Definition render_sline (l : sline) : list ch :=
  match l with
  | SHdr kind stem ln col nd =>
      str "-- " ++ kind ++ str "Error: " ++ spath stem ++ str ":" ++ ln ++ str ":" ++ col ++ str " " ++ repeat dash nd
  | SOther txt => txt
  end.

Definition render_s (ls : list sline) : list ch := flat_map (fun l => render_sline l ++ [nl]) ls.

(* header: any kind text without newline, path stem over the tool's path alphabet, decimal
   positions, at least one dash *)
Definition wf_shdr (kind stem ln col : list ch) (nd : nat) : bool :=
  no_nl kind && negb (Nat.eqb (List.length stem) 0) && forallb path_char stem &&
  digits ln && digits col && Nat.leb 1 nd.

(* any other line: no newline, and not both of "-- " and "Error: " in it *)
Definition wf_sother (txt : list ch) : bool :=
  no_nl txt && (negb (contains (str "-- ") txt) || negb (contains (str "Error: ") txt)).

Definition starts_dash (t : list ch) : bool :=
  match t with c :: _ => N.eqb c dash | [] => false end.

(* a header is followed by at least one line of its block, which does not begin with '-' *)
Fixpoint wf_s (ls : list sline) : bool :=
  match ls with
  | [] => true
  | SHdr kind stem ln col nd :: rest =>
      wf_shdr kind stem ln col nd &&
      (match rest with SOther t :: _ => negb (starts_dash t) | _ => false end) &&
      wf_s rest
  | SOther t :: rest => wf_sother t && wf_s rest
  end.

(* the longest prefix without '-' and what is left *)
Fixpoint upto_dash (s : list ch) : list ch :=
  match s with
  | [] => []
  | c :: t => if N.eqb c dash then [] else c :: upto_dash t
  end.
Fixpoint after_dash (s : list ch) : list ch :=
  match s with
  | [] => []
  | c :: t => if N.eqb c dash then s else after_dash t
  end.

(* the lines of the block that a header opens: the SOther lines up to the next header (or the
   end of the output; a trailing summary line therefore belongs to the last block) *)
Fixpoint block_of (rest : list sline) : list (list ch) :=
  match rest with
  | SOther t :: rest' => t :: block_of rest'
  | _ => []
  end.
Definition render_block (b : list (list ch)) : list ch := flat_map (fun t => t ++ [nl]) b.

(* the diagnostics as the tool records them: (file, text of the block up to its first '-') *)
Fixpoint serrs (ls : list sline) : list (list ch * list ch) :=
  match ls with
  | [] => []
  | SHdr _ stem _ _ _ :: rest => (spath stem, upto_dash (render_block (block_of rest))) :: serrs rest
  | SOther _ :: rest => serrs rest
  end.

(* what the property asks for: (file, the whole text of the block) *)
Fixpoint serrs_whole (ls : list sline) : list (list ch * list ch) :=
  match ls with
  | [] => []
  | SHdr _ stem _ _ _ :: rest => (spath stem, render_block (block_of rest)) :: serrs_whole rest
  | SOther _ :: rest => serrs_whole rest
  end.

Definition no_dash (s : list ch) : bool := forallb (fun c => negb (N.eqb c dash)) s.
Definition other_no_dash (l : sline) : bool :=
  match l with SHdr _ _ _ _ _ => true | SOther t => no_dash t end.

(* the files of the error blocks, in order *)
Definition sfiles (ls : list sline) : list (list ch) :=
  flat_map (fun l => match l with SHdr _ stem _ _ _ => [spath stem] | SOther _ => [] end) ls.
