(* Diag/AttrJava.v -- attribution of javac diagnostics (J1, J2). *)
From Coq Require Import List NArith Bool Lia Arith String.
Import ListNotations.
From Heph Require Import Diag.Regex Diag.Analyze Diag.Grammar Generated.Regexes Diag.Proofs
     Diag.EngineLemmas Diag.AttrKotlin.

(* ---------------------------------------------------------------- failing lines *)
Lemma err_java_nl_free : nl_free err_java = true.
Proof. vm_compute. reflexivity. Qed.

Lemma err_java_contains : forall w, L err_java w -> contains epat w = true.
Proof.
  intros w H. unfold err_java in H. cbn [L Lseq] in H. destr_L. subst.
  repeat match goal with H : N.eqb _ _ = true |- _ => apply N.eqb_eq in H end. subst.
  rewrite <- !app_assoc. find_pat.
Qed.

Lemma j_fail : forall b rest p,
  contains epat b = false -> match_at err_java (b ++ nl :: rest) p = None.
Proof. exact (match_at_none_line err_java epat err_java_nl_free err_java_contains). Qed.

(* ---------------------------------------------------------------- diagnostic lines *)
Lemma jline_shape : forall stem ln col msg rest,
  render_jline (LErr stem ln col msg) ++ nl :: rest =
  stem ++ 46 :: 106 :: 97 :: 118 :: 97 :: 58 :: ln ++
       58 :: 32 :: 101 :: 114 :: 114 :: 111 :: 114 :: 58 :: 32 :: msg ++ 10 :: rest.
Proof. intros. unfold render_jline, jpath. rewrite <- !app_assoc. reflexivity. Qed.

Lemma jline_length : forall stem ln col msg,
  List.length (render_jline (LErr stem ln col msg)) =
  (List.length stem + 5 + 1 + List.length ln + 9 + List.length msg)%nat.
Proof.
  intros. unfold render_jline, jpath. rewrite !app_length.
  change (List.length (str ".java")) with 5%nat. change (List.length (str ":")) with 1%nat.
  change (List.length (str ": error: ")) with 9%nat. lia.
Qed.

Definition jcaps (p : nat) (l : line) : caps :=
  match l with
  | LErr stem ln col msg =>
      let n := List.length (render_jline l) in
      [(3%nat, ((p + n)%nat, (p + n)%nat));
       (2%nat, ((p + List.length stem + 6)%nat, (p + n)%nat));
       (1%nat, (p, (p + List.length stem + 5)%nat))]
  | LOther _ => []
  end.

(* the look-ahead \n{1,} succeeds in front of a newline and leaves the captures unchanged *)
Lemma look_nl : forall rest pos cs,
  m caps (RRep true 1 None (RLit 10)) (10 :: rest) pos cs (fun _ _ c' => Some c') = Some cs.
Proof.
  intros rest pos cs.
  destruct (span_run (fun x => N.eqb x 10) rest) as [run [s' [-> [Hrun Hst]]]].
  apply (m_rep_greedy_run _ 1 _ _ _ (atom_lit 10) (10 :: run) s').
  - simpl. exact Hrun.
  - exact Hst.
  - simpl. lia.
  - reflexivity.
Qed.

Lemma j_ok : forall stem ln col msg rest p,
  wf_line (LErr stem ln col msg) = true ->
  match_at err_java (render_jline (LErr stem ln col msg) ++ nl :: rest) p =
  Some ((p + List.length (render_jline (LErr stem ln col msg)))%nat, jcaps p (LErr stem ln col msg)).
Proof.
  intros stem ln col msg rest p Hwf.
  cbn [wf_line] in Hwf. repeat (apply andb_true_iff in Hwf; destruct Hwf as [Hwf ?]).
  rename H into Hmsg0, H0 into Hmsg, H1 into Hcol, H2 into Hln, H3 into Hstem.
  apply digits_run in Hln. destruct Hln as [Hln1 Hln2].
  rewrite jline_shape. unfold match_at, err_java.
  rewrite m_seq_cons, m_group_some, m_seq_cons.
  apply (m_rep_greedy_run _ 1 _ _ _ (atom_in false _) stem).
  { revert Hstem. apply forallb_impl. exact path_cs_ok. }
  { reflexivity. }
  { destruct stem; [discriminate | simpl; lia]. }
  cbv beta.
  rewrite m_seq_cons. rewrite m_any_cons by reflexivity. cbv beta.
  lit. lit. lit. lit. rewrite m_seq_nil. cbv beta.
  lit. rewrite m_seq_cons, m_group_some, m_seq_cons.
  apply (m_rep_greedy_run _ 1 _ _ _ (atom_in false _) ln); [exact Hln1 | reflexivity | exact Hln2 |].
  cbv beta. lit. rewrite m_seq_cons.
  apply (m_rep_greedy_run _ 1 _ _ _ (atom_lit 32) [32]); [reflexivity | reflexivity | simpl; lia |].
  cbv beta. lit. lit. lit. lit. lit. lit. rewrite m_seq_cons.
  apply (m_rep_greedy_run _ 1 _ _ _ (atom_lit 32) [32]); [reflexivity | | simpl; lia |].
  { destruct msg as [|c msg]; [reflexivity |]. simpl. apply negb_true_iff. exact Hmsg0. }
  cbv beta. rewrite m_seq_cons.
  apply (m_rep_greedy_run _ 0 _ _ _ atom_any msg); [exact Hmsg | reflexivity | lia |].
  cbv beta. rewrite m_seq_nil. cbv beta.
  rewrite m_seq_cons, m_group_some, m_seq_cons.
  apply m_rep_lazy_stop. cbv beta.
  rewrite m_seq_cons, m_look, look_nl. cbv beta. rewrite m_seq_nil. cbv beta. rewrite m_seq_nil.
  unfold jcaps. cbv zeta. rewrite jline_length.
  unfold set_cap. cbn [filter fst Nat.eqb negb List.length].
  f_equal. f_equal; [lia |]. repeat (f_equal; try lia).
Qed.

(* ---------------------------------------------------------------- the whole output *)
Lemma jline_nonempty : forall stem ln col msg, render_jline (LErr stem ln col msg) <> [].
Proof.
  intros stem ln col msg F. apply (f_equal (@List.length ch)) in F.
  rewrite jline_length in F. simpl in F. lia.
Qed.

Lemma findall_java : forall ls, forallb wf_line ls = true ->
  findall err_java (render_j ls) = scan render_jline jcaps 0 ls.
Proof.
  intros ls H.
  exact (findall_render_top err_java render_jline jcaps epat epat_nonempty
           (fun t => eq_refl) jline_nonempty j_fail j_ok wf_other_epat ls H).
Qed.

Definition trip (text : list ch) (mt : mtch) : (list ch * list ch) * list ch :=
  (pair12 text mt, group text mt 3).

Lemma slice_empty : forall s a, slice s a a = [].
Proof. intros. unfold slice. rewrite Nat.sub_diag. reflexivity. Qed.

Lemma jgroups : forall pre stem ln col msg rest e,
  trip (pre ++ render_jline (LErr stem ln col msg) ++ nl :: rest)
       (List.length pre, e, jcaps (List.length pre) (LErr stem ln col msg)) =
  ((jpath stem, ln ++ str ": error: " ++ msg), []).
Proof.
  intros. unfold trip, pair12, group, jcaps. cbv zeta. cbn [snd fst find Nat.eqb].
  f_equal; [f_equal |].
  - apply (slice_eq _ pre (jpath stem) (str ":" ++ ln ++ str ": error: " ++ msg ++ nl :: rest)).
    + unfold render_jline. rewrite <- !app_assoc. reflexivity.
    + reflexivity.
    + unfold jpath. rewrite app_length. change (List.length (str ".java")) with 5%nat. lia.
  - apply (slice_eq _ (pre ++ jpath stem ++ str ":") (ln ++ str ": error: " ++ msg) (nl :: rest)).
    + unfold render_jline. rewrite <- !app_assoc. reflexivity.
    + unfold jpath. rewrite !app_length.
      change (List.length (str ".java")) with 5%nat. change (List.length (str ":")) with 1%nat. lia.
    + rewrite jline_length. rewrite !app_length.
      change (List.length (str ": error: ")) with 9%nat. lia.
  - apply slice_empty.
Qed.

Lemma scan_trips_java : forall ls pre,
  map (trip (pre ++ render_j ls)) (scan render_jline jcaps (List.length pre) ls) =
  map (fun e => (e, [])) (jerrs ls).
Proof.
  induction ls as [|l ls IH]; intros pre; [reflexivity |].
  cbn [scan map]. rewrite map_app.
  unfold render_j, jerrs. cbn [flat_map]. fold (render_j ls). fold (jerrs ls).
  rewrite map_app. f_equal.
  - destruct l as [stem ln col msg | txt]; [| reflexivity].
    cbn [map]. rewrite <- app_assoc. cbn [app]. rewrite jgroups. reflexivity.
  - specialize (IH (pre ++ render_jline l ++ [nl])).
    rewrite !app_length in IH. cbn [List.length] in IH.
    rewrite Nat.add_assoc in IH. rewrite <- !app_assoc in IH. rewrite <- !app_assoc. exact IH.
Qed.

Lemma attribution_java_exact_lem : forall ls,
  forallb wf_line ls = true ->
  search crash_java (render_j ls) = None ->
  analyze comp_java [] (render_j ls) =
  Diag (group_by_file (jerrs ls)) (map (fun e => [fst e; snd e; []]) (jerrs ls)).
Proof.
  intros ls Hwf Hc.
  rewrite (analyze_plain comp_java (render_j ls) eq_refl Hc).
  change (err_re comp_java) with err_java. change (ngroups comp_java) with 3%nat.
  rewrite (findall_java ls Hwf).
  pose proof (scan_trips_java ls []) as Hp. cbn [app List.length] in Hp.
  f_equal.
  - unfold group_by_file.
    replace (jerrs ls) with (map fst (map (fun e : list ch * list ch => (e, @nil ch)) (jerrs ls))).
    + rewrite <- Hp. rewrite map_map.
      exact (fold_left_map _ _ _ (fun f e => failed_add f (fst e) (snd e))
               (fun mt => fst (trip (render_j ls) mt)) (scan render_jline jcaps 0 ls) []).
    + rewrite map_map. cbn [fst]. apply map_id.
  - transitivity (map (fun t : (list ch * list ch) * list ch => [fst (fst t); snd (fst t); snd t])
                      (map (trip (render_j ls)) (scan render_jline jcaps 0 ls))).
    + rewrite map_map. apply map_ext. intros mt. reflexivity.
    + rewrite Hp. rewrite map_map. apply map_ext. intros e. reflexivity.
Qed.

Lemma attribution_java_lem : forall ls,
  forallb wf_line ls = true ->
  search crash_java (render_j ls) = None ->
  exists ms, analyze comp_java [] (render_j ls) = Diag (group_by_file (jerrs ls)) ms /\
             List.length ms = List.length (jerrs ls).
Proof.
  intros ls Hwf Hc. eexists. split; [apply attribution_java_exact_lem; assumption |].
  apply map_length.
Qed.

(* ---------------------------------------------------------------- J2 *)
Lemma jerrs_In : forall ls k, In k (map fst (jerrs ls)) ->
  exists stem ln col msg, In (LErr stem ln col msg) ls /\ jpath stem = k.
Proof.
  induction ls as [|l ls IH]; intros k H; [destruct H |].
  unfold jerrs in H. cbn [flat_map] in H. fold (jerrs ls) in H. rewrite map_app in H.
  apply in_app_or in H. destruct H as [H | H].
  - destruct l as [stem ln col msg | txt]; [| destruct H].
    destruct H as [H | []]. exists stem, ln, col, msg. split; [left; reflexivity | exact H].
  - destruct (IH k H) as [stem [ln [col [msg [Hin Hk]]]]].
    exists stem, ln, col, msg. split; [right; exact Hin | exact Hk].
Qed.

Lemma jerrs_no_err : forall ls, (forall l, In l ls -> exists t, l = LOther t) -> jerrs ls = [].
Proof.
  induction ls as [|l ls IH]; intros H; [reflexivity |].
  unfold jerrs. cbn [flat_map]. fold (jerrs ls).
  destruct (H l (or_introl eq_refl)) as [t ->]. cbn [app].
  apply IH. intros l' Hl'. apply H. right. exact Hl'.
Qed.

Lemma warnings_add_no_file_java_lem : forall ls,
  forallb wf_line ls = true ->
  search crash_java (render_j ls) = None ->
  exists f ms,
    analyze comp_java [] (render_j ls) = Diag f ms /\
    (forall k, In k (map fst f) ->
               exists stem ln col msg, In (LErr stem ln col msg) ls /\ jpath stem = k) /\
    ((forall l, In l ls -> exists t, l = LOther t) -> f = [] /\ ms = []).
Proof.
  intros ls Hwf Hc. eexists. eexists. split; [apply attribution_java_exact_lem; assumption |]. split.
  - intros k Hk. apply jerrs_In.
    destruct (failed_add_groups_lem (jerrs ls)) as [_ [H _]]. cbv zeta in H.
    apply H. exists k. split; [exact Hk | apply chs_eqb_refl].
  - intros H. rewrite (jerrs_no_err ls H). split; reflexivity.
Qed.

(* ---------------------------------------------------------------- non-vacuity *)
Definition j_example : list line :=
  [ LOther (str "Note: Some input files use unchecked or unsafe operations.");
    LErr (str "src/pkg/Main") (str "12") (str "0") (str "incompatible types: String cannot be converted to int");
    LOther (str "        int x = foo();");
    LOther (str "                   ^");
    LErr (str "src/Util_k") (str "3") (str "0") (str "cannot find symbol");
    LOther (str "2 errors") ].

Example j_example_ok :
  forallb wf_line j_example = true /\
  search crash_java (render_j j_example) = None /\
  analyze comp_java [] (render_j j_example) =
  Diag [ (str "src/pkg/Main.java", [str "12: error: incompatible types: String cannot be converted to int"]);
         (str "src/Util_k.java", [str "3: error: cannot find symbol"]) ]
       [ [str "src/pkg/Main.java"; str "12: error: incompatible types: String cannot be converted to int"; []];
         [str "src/Util_k.java"; str "3: error: cannot find symbol"; []] ].
Proof. vm_compute. repeat split. Qed.
