(* Diag/Proofs.v -- proofs about the generic part of analyze_compiler_output (G1-G3). *)
From Coq Require Import List NArith Bool Lia Arith.
Import ListNotations.
From Heph Require Import Diag.Regex Diag.Analyze Diag.Grammar.

Lemma analyze_crash_lem : forall c fl out mt, search (crash_re c) out = Some mt -> analyze c fl out = Crash.
Proof. intros c fl out mt H. unfold analyze. rewrite H. reflexivity. Qed.

(* ------------------------------------------------------------------ G1 *)
Lemma analyze_crash_iff_lem : forall c fl out,
  analyze c fl out = Crash <->
  (search (crash_re c) out <> None \/
   (exists so, so_re c = Some so /\ search so out <> None /\
               findall (err_re c) (fold_left (fun acc p => sub_empty p acc) fl out) = [])).
Proof.
  intros c fl out. unfold analyze. split.
  - destruct (search (crash_re c) out) eqn:Hc.
    + intros _. left. discriminate.
    + destruct (so_re c) as [so|] eqn:Hso.
      * destruct (search so out) eqn:Hs.
        -- destruct (findall (err_re c) (fold_left (fun acc p => sub_empty p acc) fl out)) eqn:Hf.
           ++ intros _. right. exists so. repeat split; congruence.
           ++ discriminate.
        -- discriminate.
      * discriminate.
  - intros [H | [so [Hso [Hs Hf]]]].
    + destruct (search (crash_re c) out); [reflexivity | congruence].
    + destruct (search (crash_re c) out); [reflexivity |].
      rewrite Hso. destruct (search so out); [| congruence].
      rewrite Hf. reflexivity.
Qed.

(* ------------------------------------------------------------------ G2 *)
Lemma analyze_diag_is_findall_lem : forall c fl out f ms,
  analyze c fl out = Diag f ms ->
  let filtered := fold_left (fun acc p => sub_empty p acc) fl out in
  ms = map (groups_of (ngroups c) filtered) (findall (err_re c) filtered) /\
  f = fold_left (fun f mt => failed_add f (group filtered mt 1) (group filtered mt 2))
                (findall (err_re c) filtered) [].
Proof.
  intros c fl out f ms. unfold analyze.
  destruct (search (crash_re c) out); [discriminate |].
  destruct (so_re c) as [so|].
  - destruct (search so out).
    + destruct (findall (err_re c) (fold_left (fun acc p => sub_empty p acc) fl out)) eqn:Hf.
      * discriminate.
      * intros H. injection H as H1 H2. cbv zeta. subst. split; reflexivity.
    + intros H. injection H as H1 H2. cbv zeta. split; congruence.
  - intros H. injection H as H1 H2. cbv zeta. split; congruence.
Qed.

(* ------------------------------------------------------------------ G3 *)
Lemma chs_eqb_eq : forall a b, chs_eqb a b = true <-> a = b.
Proof.
  induction a as [|x a IH]; destruct b as [|y b]; simpl; split; intros H; try congruence.
  - apply andb_true_iff in H. destruct H as [H1 H2]. apply N.eqb_eq in H1. apply IH in H2. congruence.
  - injection H as -> ->. rewrite N.eqb_refl. simpl. apply IH. reflexivity.
Qed.

Lemma chs_eqb_refl : forall a, chs_eqb a a = true.
Proof. intros a. apply chs_eqb_eq. reflexivity. Qed.

(* pairwise distinctness of the keys of the failed map, w.r.t. the comparison the model uses *)
Fixpoint keys_distinct (ks : list (list ch)) : bool :=
  match ks with
  | [] => true
  | k :: ks' => negb (existsb (chs_eqb k) ks') && keys_distinct ks'
  end.

Lemma failed_add_keys : forall f file msg k,
  In k (map fst (failed_add f file msg)) <-> In k (map fst f) \/ k = file.
Proof.
  induction f as [|[k0 ms] f IH]; intros file msg k; simpl.
  - intuition.
  - destruct (chs_eqb k0 file) eqn:E; simpl.
    + apply chs_eqb_eq in E. subst. intuition.
    + rewrite IH. intuition.
Qed.

Lemma existsb_chs_In : forall k ks, existsb (chs_eqb k) ks = true <-> In k ks.
Proof.
  intros k ks. rewrite existsb_exists. split.
  - intros [x [Hin E]]. apply chs_eqb_eq in E. subst. exact Hin.
  - intros Hin. exists k. split; [exact Hin | apply chs_eqb_refl].
Qed.

Lemma failed_add_distinct : forall f file msg,
  keys_distinct (map fst f) = true -> keys_distinct (map fst (failed_add f file msg)) = true.
Proof.
  induction f as [|[k0 ms] f IH]; intros file msg H; simpl.
  - reflexivity.
  - simpl in H. apply andb_true_iff in H. destruct H as [H1 H2].
    destruct (chs_eqb k0 file) eqn:E; simpl.
    + rewrite H1, H2. reflexivity.
    + rewrite IH by exact H2. rewrite andb_true_r.
      apply negb_true_iff. apply negb_true_iff in H1.
      apply not_true_iff_false. intros Hc. apply existsb_chs_In in Hc.
      apply failed_add_keys in Hc. destruct Hc as [Hc | Hc].
      * apply existsb_chs_In in Hc. congruence.
      * subst. rewrite chs_eqb_refl in E. discriminate.
Qed.

Lemma failed_add_count : forall f file msg,
  List.length (flat_map snd (failed_add f file msg)) = S (List.length (flat_map snd f)).
Proof.
  induction f as [|[k0 ms] f IH]; intros file msg; simpl.
  - reflexivity.
  - destruct (chs_eqb k0 file); simpl.
    + rewrite !app_length. simpl. lia.
    + rewrite !app_length, IH. lia.
Qed.

Lemma group_fold_inv : forall es f0,
  keys_distinct (map fst f0) = true ->
  let f := fold_left (fun f e => failed_add f (fst e) (snd e)) es f0 in
  keys_distinct (map fst f) = true /\
  (forall k, In k (map fst f) <-> In k (map fst f0) \/ In k (map fst es)) /\
  List.length (flat_map snd f) = (List.length (flat_map snd f0) + List.length es)%nat.
Proof.
  induction es as [|e es IH]; intros f0 H0; simpl.
  - split; [exact H0 |]. split; [intuition | lia].
  - specialize (IH (failed_add f0 (fst e) (snd e)) (failed_add_distinct _ _ _ H0)).
    cbv zeta in IH. destruct IH as [I1 [I2 I3]].
    split; [exact I1 |]. split.
    + intros k. rewrite I2, failed_add_keys. intuition.
    + rewrite I3, failed_add_count. lia.
Qed.

Lemma failed_add_groups_lem : forall es,
  let f := group_by_file es in
  keys_distinct (map fst f) = true /\
  (forall file, In file (map fst es) <-> exists k, In k (map fst f) /\ chs_eqb k file = true) /\
  List.length (flat_map snd f) = List.length es.
Proof.
  intros es. cbv zeta. unfold group_by_file.
  destruct (group_fold_inv es [] eq_refl) as [I1 [I2 I3]].
  split; [exact I1 |]. split; [| exact I3].
  intros file. split.
  - intros Hin. exists file. split; [apply I2; right; exact Hin | apply chs_eqb_refl].
  - intros [k [Hin E]]. apply chs_eqb_eq in E. subst. apply I2 in Hin.
    destruct Hin as [[] | Hin]. exact Hin.
Qed.

(* stronger content statement: the messages recorded for a key are exactly the messages of
   the diagnostics for that file, in order *)
Definition msgs_for (k : list ch) (es : list (list ch * list ch)) : list (list ch) :=
  map snd (filter (fun e => chs_eqb k (fst e)) es).

Lemma failed_add_In : forall f file msg k ms,
  keys_distinct (map fst f) = true ->
  In (k, ms) (failed_add f file msg) ->
  (k <> file /\ In (k, ms) f) \/
  (k = file /\ ((exists ms0, In (k, ms0) f /\ ms = ms0 ++ [msg]) \/
                (~ In k (map fst f) /\ ms = [msg]))).
Proof.
  induction f as [|[k0 ms0] f IH]; intros file msg k ms Hd Hin; simpl in *.
  - destruct Hin as [Hin | []]. injection Hin as <- <-. right. split; [reflexivity |]. right. intuition.
  - apply andb_true_iff in Hd. destruct Hd as [Hd1 Hd2].
    destruct (chs_eqb k0 file) eqn:E.
    + apply chs_eqb_eq in E. subst k0. destruct Hin as [Hin | Hin].
      * injection Hin as <- <-. right. split; [reflexivity |]. left. exists ms0. intuition.
      * left. split; [| right; exact Hin].
        intros ->. apply negb_true_iff in Hd1.
        assert (existsb (chs_eqb file) (map fst f) = true); [| congruence].
        apply existsb_chs_In. apply in_map_iff. exists (file, ms). intuition.
    + destruct Hin as [Hin | Hin].
      * injection Hin as <- <-. left. split; [| left; reflexivity].
        intros ->. rewrite chs_eqb_refl in E. discriminate.
      * destruct (IH file msg k ms Hd2 Hin) as [[A B] | [A [[m1 [B C]] | [B C]]]].
        -- left. intuition.
        -- right. split; [exact A |]. left. exists m1. intuition.
        -- right. split; [exact A |]. right. split; [| exact C].
           intros [F | F]; [| exact (B F)]. subst. rewrite chs_eqb_refl in E. discriminate.
Qed.

Lemma msgs_for_app : forall k a b, msgs_for k (a ++ b) = msgs_for k a ++ msgs_for k b.
Proof. intros. unfold msgs_for. rewrite filter_app, map_app. reflexivity. Qed.

Lemma msgs_for_notin : forall k es, ~ In k (map fst es) -> msgs_for k es = [].
Proof.
  induction es as [|e es IH]; intros H; [reflexivity |].
  unfold msgs_for. simpl. destruct (chs_eqb k (fst e)) eqn:E.
  - apply chs_eqb_eq in E. exfalso. apply H. left. congruence.
  - apply IH. intros F. apply H. right. exact F.
Qed.

Lemma group_by_file_snoc : forall es e,
  group_by_file (es ++ [e]) = failed_add (group_by_file es) (fst e) (snd e).
Proof. intros. unfold group_by_file. rewrite fold_left_app. reflexivity. Qed.

Lemma group_by_file_content : forall es k ms,
  In (k, ms) (group_by_file es) -> ms = msgs_for k es.
Proof.
  induction es as [|e es IH] using rev_ind; intros k ms Hin.
  - destruct Hin.
  - rewrite group_by_file_snoc in Hin.
    destruct (failed_add_groups_lem es) as [Hd [Hk _]]. cbv zeta in Hd, Hk.
    apply failed_add_In in Hin; [| exact Hd].
    rewrite msgs_for_app. unfold msgs_for at 2. simpl.
    destruct Hin as [[A B] | [A [[m1 [B C]] | [B C]]]].
    + destruct (chs_eqb k (fst e)) eqn:E; [apply chs_eqb_eq in E; congruence |].
      simpl. rewrite app_nil_r. apply IH. exact B.
    + subst k. rewrite chs_eqb_refl. simpl. rewrite C. f_equal. apply IH. exact B.
    + subst k. rewrite chs_eqb_refl. simpl. rewrite C.
      rewrite msgs_for_notin; [reflexivity |].
      intros F. apply B. apply Hk in F. destruct F as [k' [F1 F2]]. apply chs_eqb_eq in F2. congruence.
Qed.

(* analyze without user filters, for a compiler without the stack-overflow special case *)
Lemma analyze_plain : forall c out,
  so_re c = None -> search (crash_re c) out = None ->
  analyze c [] out =
  Diag (fold_left (fun f mt => failed_add f (group out mt 1) (group out mt 2)) (findall (err_re c) out) [])
       (map (groups_of (ngroups c) out) (findall (err_re c) out)).
Proof. intros c out Hso Hc. unfold analyze. rewrite Hc, Hso. reflexivity. Qed.
