From Coq Require Import List NArith Bool.
Import ListNotations.
From Heph Require Import Diag.Regex Diag.Analyze.

Lemma analyze_crash_lem : forall c fl out mt, search (crash_re c) out = Some mt -> analyze c fl out = Crash.
Proof. intros c fl out mt H. unfold analyze. rewrite H. reflexivity. Qed.
