(* Diag/CorrGrammar.v -- comparison helpers for harness/c14.py: instances of the scalac / groovyc
   output grammars generated on the Python side.  For each instance the kernel evaluates the
   HYPOTHESES of the attribution theorems (well-formedness, the text-level crash tests), checks
   that the Python rendering is the grammar's rendering, and compares the theorem's right-hand
   side (group_by_file of the grammar's diagnostics) with what the real analyze_compiler_output
   returned.  Definitions only. *)
From Coq Require Import List NArith Bool String.
Import ListNotations.
From Heph Require Import Diag.Regex Diag.Analyze Diag.Grammar Diag.GrammarScala Diag.GrammarGroovy
     Diag.Corr Generated.Regexes.

Definition pairs_list (es : list (list ch * list ch)) : list (list (list ch)) :=
  map (fun e => [fst e; snd e]) es.

Definition expected_eqb (f : list (list ch * list (list ch))) (ms : list (list (list ch))) (e : expected) : bool :=
  match e with
  | EDiag f' ms' => failed_eqb f f' && llchs_eqb ms ms'
  | ECrash => false
  end.

(* (grammar instance, text rendered by the harness, result of the real code) *)
Definition scala_gcase := (list sline * list ch * expected)%type.

(* 0 = agreement; 1 = the harness rendered another text; 2 = instance not well-formed;
   3 = the crash word occurs; 4 = the real result is not the theorem's right-hand side *)
Definition scala_gcase_code (c : scala_gcase) : nat :=
  let '(ls, text, e) := c in
  if negb (chs_eqb (render_s ls) text) then 1%nat
  else if negb (wf_s ls) then 2%nat
  else if contains (str "at dotty") text then 3%nat
  else if expected_eqb (group_by_file (serrs ls)) (pairs_list (serrs ls)) e then 0%nat else 4%nat.

Definition groovy_gcase := (list gitem * list ch * expected)%type.

Definition groovy_gcase_code (c : groovy_gcase) : nat :=
  let '(ls, text, e) := c in
  if negb (chs_eqb (render_g ls) text) then 1%nat
  else if negb (forallb wf_gitem ls) then 2%nat
  else if contains (str "at org") text then 3%nat
  else
    match (if contains (str "StackOverflowError") text then search so_groovy text else None), gerrs ls with
    | Some _, [] => match e with ECrash => 0%nat | _ => 4%nat end
    | _, _ => if expected_eqb (group_by_file (gerrs ls)) (pairs_list (gerrs ls)) e then 0%nat else 4%nat
    end.
