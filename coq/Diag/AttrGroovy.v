(* Diag/AttrGroovy.v -- attribution of groovyc diagnostics (Gr1-Gr4). *)
From Coq Require Import List NArith Bool Lia Arith String.
Import ListNotations.
From Heph Require Import Diag.Regex Diag.Analyze Diag.Grammar Diag.GrammarGroovy Generated.Regexes Diag.Proofs
     Diag.EngineLemmas Diag.EngineLemmas2 Diag.AttrKotlin.

(* ---------------------------------------------------------------- the regex: path part / rest *)
Definition g_rs : list re := match err_groovy with RSeq rs => rs | _ => [] end.
Definition g_head : list re := firstn 2 g_rs.        (* ([a-zA-Z0-9\\/_]+.groovy): *)
Definition g_tail : list re := skipn 2 g_rs.         (* ([\s\S]*?(?=\n{2,})) *)

Lemma err_groovy_split : err_groovy = RSeq (g_head ++ g_tail).
Proof. reflexivity. Qed.

Lemma g_head_nl_free : nl_free (RSeq g_head) = true.
Proof. vm_compute. reflexivity. Qed.

Definition gpat : list ch := str "groovy:".

Lemma g_head_contains : forall w, L (RSeq g_head) w -> contains gpat w = true.
Proof.
  intros w H. unfold g_head, g_rs, err_groovy in H. cbn [firstn L Lseq] in H. destr_L. subst.
  repeat match goal with H : N.eqb _ _ = true |- _ => apply N.eqb_eq in H end. subst.
  rewrite <- !app_assoc. find_pat.
Qed.

Definition g_quiet (b : list ch) : Prop := contains gpat b = false.

Lemma g_quiet_tail : forall c b, g_quiet (c :: b) -> g_quiet b.
Proof. intros c b H. apply contains_cons_false in H. exact H. Qed.

Lemma g_fail : forall b rest p, g_quiet b -> match_at err_groovy (b ++ nl :: rest) p = None.
Proof.
  intros b rest p H. rewrite err_groovy_split.
  exact (match_at_none_line2 g_head g_tail gpat g_head_nl_free g_head_contains b rest p H).
Qed.

(* ---------------------------------------------------------------- the look-ahead \n{2,} *)
Lemma look2_ok : forall rest pos cs,
  m caps (RRep true 2 None (RLit 10)) (10 :: 10 :: rest) pos cs (fun _ _ c' => Some c') = Some cs.
Proof.
  intros rest pos cs.
  destruct (span_run (fun x => N.eqb x 10) rest) as [run [s' [-> [Hrun Hst]]]].
  apply (m_rep_greedy_run _ 2 _ _ _ (atom_lit 10) (10 :: 10 :: run) s').
  - simpl. exact Hrun.
  - exact Hst.
  - simpl. lia.
  - reflexivity.
Qed.

Lemma look2_fail : forall s pos cs,
  prefix_of [10; 10]%N s = false ->
  m caps (RRep true 2 None (RLit 10)) s pos cs (fun _ _ c' => Some c') = None.
Proof.
  intros s pos cs H. rewrite m_rep.
  assert (E : forall q, Nat.eqb (S q) q = false) by (intros q; apply Nat.eqb_neq; lia).
  destruct s as [|x t]; [reflexivity |].
  cbn [List.length]. rewrite rep_fix_S. cbv zeta. rewrite (atom_lit 10). cbn [step_char Nat.leb].
  destruct (N.eqb x 10) eqn:Ex; [| reflexivity].
  rewrite E. apply N.eqb_eq in Ex. subst x.
  destruct t as [|y t']; [reflexivity |].
  cbn [List.length]. rewrite rep_fix_S. cbv zeta. rewrite (atom_lit 10). cbn [step_char Nat.leb].
  cbn [prefix_of] in H. rewrite N.eqb_refl in H. cbn [andb] in H. rewrite andb_true_r in H.
  rewrite N.eqb_sym in H. rewrite H. reflexivity.
Qed.

(* ---------------------------------------------------------------- the match at an error report *)
Definition gcls : list cset := [CRange 97 122; CRange 65 90; CRange 48 57; CLit 92; CLit 47; CLit 95].

Lemma gcls_ok : forall x, path_char x = true ->
  xorb false (existsb (fun c => in_cset c x) gcls) = true.
Proof.
  intros x H. unfold path_char in H. unfold gcls. cbn [existsb in_cset xorb].
  destruct (N.leb 97 x && N.leb x 122); [reflexivity |].
  destruct (N.leb 65 x && N.leb x 90); [reflexivity |].
  destruct (N.leb 48 x && N.leb x 57); [reflexivity |].
  cbn [orb] in *. destruct (N.eqb x 92); [reflexivity |]. cbn [orb]. rewrite orb_false_r. rewrite H. reflexivity.
Qed.

Lemma any_cs_ok : forall x, xorb false (existsb (fun c => in_cset c x) [CSpace; CNotSpace]) = true.
Proof. intros x. cbn [existsb in_cset xorb]. destruct (is_space x); reflexivity. Qed.

Lemma gitem_shape : forall stem body rest,
  render_gitem (GErr stem body) ++ rest =
  stem ++ 46 :: 103 :: 114 :: 111 :: 111 :: 118 :: 121 :: 58 :: body ++ 10 :: 10 :: rest.
Proof.
  intros. unfold render_gitem, gpath.
  change (str ".groovy") with [46; 103; 114; 111; 111; 118; 121]%N. change (str ":") with [58]%N.
  repeat (progress (rewrite <- ?app_assoc; cbn [app])). reflexivity.
Qed.

Definition glen (stem body : list ch) : nat := (List.length stem + 8 + List.length body)%nat.

Definition gcaps (p : nat) (stem body : list ch) : caps :=
  [(2%nat, ((p + List.length stem + 8)%nat, (p + glen stem body)%nat));
   (1%nat, (p, (p + List.length stem + 7)%nat))].

(* no empty line inside the body or at its end: the look-ahead fails in front of every
   non-empty rest of the body *)
Lemma body_no_blank : forall body r1 r2 rest,
  contains [nl; nl] (body ++ [nl]) = false -> body = r1 ++ r2 -> r2 <> [] ->
  prefix_of [10; 10]%N (r2 ++ 10 :: 10 :: rest) = false.
Proof.
  intros body r1 r2 rest H -> Hne. rewrite <- app_assoc in H.
  apply contains_suffix_false in H.
  destruct r2 as [|x [|y r2]]; [congruence | |].
  - cbn [app contains prefix_of] in H. apply orb_false_iff in H. destruct H as [H _].
    cbn [app prefix_of]. unfold nl in H. rewrite N.eqb_refl in H. cbn [andb] in H.
    rewrite andb_true_r in H. rewrite H. reflexivity.
  - cbn [app contains prefix_of] in H. apply orb_false_iff in H. destruct H as [H _].
    cbn [app prefix_of]. exact H.
Qed.

Lemma g_ok : forall stem body rest p,
  wf_gitem (GErr stem body) = true ->
  match_at err_groovy (render_gitem (GErr stem body) ++ rest) p =
  Some ((p + glen stem body)%nat, gcaps p stem body).
Proof.
  intros stem body rest p Hwf.
  cbn [wf_gitem] in Hwf. repeat (apply andb_true_iff in Hwf; destruct Hwf as [Hwf ?]).
  rename H into Hbody, H0 into Hstem, Hwf into Hstem0. apply negb_true_iff in Hbody.
  rewrite gitem_shape. unfold match_at, err_groovy.
  rewrite m_seq_cons, m_group_some, m_seq_cons.
  apply (m_rep_greedy_run _ 1 _ _ _ (atom_in false _) stem).
  { revert Hstem. apply forallb_impl. exact gcls_ok. }
  { reflexivity. }
  { destruct stem; [discriminate | simpl; lia]. }
  cbv beta.
  rewrite m_seq_cons. rewrite m_any_cons by reflexivity. cbv beta.
  lit. lit. lit. lit. lit. lit. rewrite m_seq_nil. cbv beta.
  lit. rewrite m_seq_cons, m_group_some, m_seq_cons.
  apply (m_rep_lazy_run _ _ _ _ (atom_in false [CSpace; CNotSpace]) body (10 :: 10 :: rest)).
  { clear. induction body as [|c b IH]; [reflexivity |]. cbn [forallb]. rewrite any_cs_ok. exact IH. }
  { intros r1 r2 Hsplit Hne. cbv beta. rewrite m_seq_cons, m_look.
    rewrite look2_fail; [reflexivity |]. exact (body_no_blank body r1 r2 rest Hbody Hsplit Hne). }
  cbv beta. rewrite m_seq_cons, m_look, look2_ok. cbv beta. rewrite m_seq_nil. cbv beta. rewrite m_seq_nil.
  unfold gcaps, glen. unfold set_cap. cbn [filter fst Nat.eqb negb].
  f_equal. f_equal; [lia |]. repeat (f_equal; try lia).
Qed.

(* ---------------------------------------------------------------- the whole output *)
Fixpoint gscan (p : nat) (ls : list gitem) : list mtch :=
  match ls with
  | [] => []
  | GErr stem body :: rest =>
      (p, (p + glen stem body)%nat, gcaps p stem body) :: gscan (p + glen stem body + 2) rest
  | GOther t :: rest => gscan (p + List.length t + 1) rest
  end.

Lemma render_g_cons : forall i ls, render_g (i :: ls) = render_gitem i ++ render_g ls.
Proof. reflexivity. Qed.

Lemma gitem_length : forall stem body rest,
  render_gitem (GErr stem body) ++ rest =
  (stem ++ str ".groovy:" ++ body) ++ nl :: nl :: rest /\
  List.length (stem ++ str ".groovy:" ++ body) = glen stem body.
Proof.
  intros. split.
  - unfold render_gitem, gpath. rewrite <- !app_assoc. reflexivity.
  - unfold glen. rewrite !app_length. change (List.length (str ".groovy:")) with 8%nat. lia.
Qed.

Lemma g_quiet_nil : g_quiet [].
Proof. reflexivity. Qed.

Lemma findall_groovy_gen : forall ls, forallb wf_gitem ls = true ->
  forall n p, (List.length (render_g ls) < n)%nat ->
              findall_aux n err_groovy (render_g ls) p = gscan p ls.
Proof.
  induction ls as [|i ls IH]; intros Hwf n p Hn.
  - apply findall_aux_nil.
  - cbn [forallb] in Hwf. apply andb_true_iff in Hwf. destruct Hwf as [Hi Hls].
    rewrite render_g_cons in *. destruct i as [stem body | t].
    + pose proof (g_ok stem body (render_g ls) p Hi) as Hok.
      destruct (gitem_length stem body (render_g ls)) as [Hshape Hlen].
      rewrite Hshape in *.
      set (M := stem ++ str ".groovy:" ++ body) in *.
      destruct n as [|n']; [simpl in Hn; lia |].
      assert (Hs : M ++ nl :: nl :: render_g ls <> []).
      { intros F. apply (f_equal (@List.length ch)) in F. rewrite app_length in F. simpl in F. lia. }
      assert (Hlt : (p < p + glen stem body)%nat) by (unfold glen; lia).
      rewrite (findall_aux_match n' err_groovy _ p _ _ Hs Hok Hlt).
      cbn [gscan]. f_equal.
      replace (p + glen stem body - p)%nat with (List.length M) by lia.
      rewrite skipn_app_exact.
      rewrite app_length in Hn. cbn [List.length] in Hn.
      apply (findall_skip_quiet err_groovy g_quiet g_quiet_tail g_fail [] (nl :: render_g ls));
        [exact g_quiet_nil | | cbn [app List.length]; lia].
      intros n1 Hn1.
      apply (findall_skip_quiet err_groovy g_quiet g_quiet_tail g_fail [] (render_g ls));
        [exact g_quiet_nil | | cbn [app List.length] in *; lia].
      intros n2 Hn2. cbn [List.length].
      replace (p + glen stem body + 0 + 1 + 0 + 1)%nat with (p + glen stem body + 2)%nat by lia.
      apply IH; assumption.
    + cbn [render_gitem gscan] in *. rewrite <- app_assoc in *. cbn [app] in *.
      apply (findall_skip_quiet err_groovy g_quiet g_quiet_tail g_fail t (render_g ls)).
      * cbn [wf_gitem] in Hi. apply andb_true_iff in Hi. destruct Hi as [_ Hi].
        apply negb_true_iff in Hi. exact Hi.
      * intros n1 Hn1. apply IH; assumption.
      * exact Hn.
Qed.

Lemma findall_groovy : forall ls, forallb wf_gitem ls = true ->
  findall err_groovy (render_g ls) = gscan 0 ls.
Proof. intros ls H. unfold findall. apply findall_groovy_gen; [exact H | lia]. Qed.

Lemma ggroups : forall pre stem body rest e,
  pair12 (pre ++ render_gitem (GErr stem body) ++ rest)
         (List.length pre, e, gcaps (List.length pre) stem body) = (gpath stem, body).
Proof.
  intros. unfold pair12, group, gcaps, glen. cbn [snd fst find Nat.eqb]. f_equal.
  - apply (slice_eq _ pre (gpath stem) (str ":" ++ body ++ [nl; nl] ++ rest)).
    + unfold render_gitem. rewrite <- !app_assoc. reflexivity.
    + reflexivity.
    + unfold gpath. rewrite app_length. change (List.length (str ".groovy")) with 7%nat. lia.
  - apply (slice_eq _ (pre ++ gpath stem ++ str ":") body ([nl; nl] ++ rest)).
    + unfold render_gitem. rewrite <- !app_assoc. reflexivity.
    + unfold gpath. rewrite !app_length. change (List.length (str ".groovy")) with 7%nat.
      change (List.length (str ":")) with 1%nat. lia.
    + lia.
Qed.

Lemma gitem_total_length : forall stem body,
  List.length (render_gitem (GErr stem body)) = (glen stem body + 2)%nat.
Proof.
  intros. unfold render_gitem, gpath, glen. rewrite !app_length.
  change (List.length (str ".groovy")) with 7%nat. change (List.length (str ":")) with 1%nat.
  cbn [List.length]. lia.
Qed.

Lemma scan_pairs_groovy : forall ls pre,
  map (pair12 (pre ++ render_g ls)) (gscan (List.length pre) ls) = gerrs ls.
Proof.
  induction ls as [|i ls IH]; intros pre; [reflexivity |].
  rewrite render_g_cons. specialize (IH (pre ++ render_gitem i)).
  rewrite app_length in IH. rewrite <- app_assoc in IH.
  unfold gerrs. cbn [flat_map]. fold (gerrs ls).
  destruct i as [stem body | t].
  - cbn [gscan map app]. f_equal.
    + apply ggroups.
    + rewrite gitem_total_length in IH. rewrite Nat.add_assoc in IH. exact IH.
  - cbn [gscan app]. cbn [render_gitem] in IH. rewrite app_length in IH. cbn [List.length] in IH.
    rewrite Nat.add_assoc in IH. exact IH.
Qed.

(* ---------------------------------------------------------------- Gr1 *)
Definition groovy_diag (ls : list gitem) : outcome :=
  Diag (group_by_file (gerrs ls)) (map (fun e => [fst e; snd e]) (gerrs ls)).

Lemma analyze_groovy_shape : forall ls,
  forallb wf_gitem ls = true ->
  search crash_groovy (render_g ls) = None ->
  analyze comp_groovy [] (render_g ls) =
  match search so_groovy (render_g ls), gerrs ls with
  | Some _, [] => Crash
  | _, _ => groovy_diag ls
  end.
Proof.
  intros ls Hwf Hc. unfold analyze. cbn [fold_left].
  change (crash_re comp_groovy) with crash_groovy. rewrite Hc.
  change (err_re comp_groovy) with err_groovy. change (ngroups comp_groovy) with 2%nat.
  change (so_re comp_groovy) with (Some so_groovy).
  rewrite (findall_groovy ls Hwf).
  pose proof (scan_pairs_groovy ls []) as Hp. cbn [app List.length] in Hp.
  assert (HD : Diag (fold_left (fun f mt => failed_add f (group (render_g ls) mt 1) (group (render_g ls) mt 2))
                               (gscan 0 ls) [])
                    (map (groups_of 2 (render_g ls)) (gscan 0 ls)) = groovy_diag ls).
  { unfold groovy_diag. f_equal.
    - unfold group_by_file. rewrite <- Hp.
      exact (fold_left_map _ _ _ (fun f e => failed_add f (fst e) (snd e))
               (pair12 (render_g ls)) (gscan 0 ls) []).
    - rewrite <- Hp. rewrite map_map. apply map_ext. intros mt. reflexivity. }
  destruct (search so_groovy (render_g ls)) as [mt|]; [| exact HD].
  destruct (gscan 0 ls) as [|m0 ms] eqn:E.
  - cbn [map] in Hp. rewrite <- Hp. reflexivity.
  - rewrite HD. destruct (gerrs ls) eqn:E2; [| reflexivity].
    cbn [map] in Hp. discriminate.
Qed.

Lemma attribution_groovy_lem : forall ls,
  forallb wf_gitem ls = true ->
  search crash_groovy (render_g ls) = None ->
  (gerrs ls <> [] \/ search so_groovy (render_g ls) = None) ->
  analyze comp_groovy [] (render_g ls) =
  Diag (group_by_file (gerrs ls)) (map (fun e => [fst e; snd e]) (gerrs ls)).
Proof.
  intros ls Hwf Hc H. rewrite (analyze_groovy_shape ls Hwf Hc). unfold groovy_diag.
  destruct H as [H | H].
  - destruct (search so_groovy (render_g ls)); [| reflexivity].
    destruct (gerrs ls); [congruence | reflexivity].
  - rewrite H. reflexivity.
Qed.

Lemma groovy_stackoverflow_lem : forall ls,
  forallb wf_gitem ls = true ->
  search crash_groovy (render_g ls) = None ->
  gerrs ls = [] -> search so_groovy (render_g ls) <> None ->
  analyze comp_groovy [] (render_g ls) = Crash.
Proof.
  intros ls Hwf Hc H1 H2. rewrite (analyze_groovy_shape ls Hwf Hc). rewrite H1.
  destruct (search so_groovy (render_g ls)); [reflexivity | congruence].
Qed.

(* the crash tests, decided on the text *)
Definition cpat_groovy : list ch := str "at org".
Definition sopat_groovy : list ch := str "StackOverflowError".

Lemma crash_groovy_contains : forall w, L crash_groovy w -> contains cpat_groovy w = true.
Proof.
  intros w H. unfold crash_groovy in H. cbn [L Lseq] in H. destr_L. subst.
  repeat match goal with H : N.eqb _ _ = true |- _ => apply N.eqb_eq in H end. subst.
  rewrite <- !app_assoc. find_pat.
Qed.

Lemma so_groovy_contains : forall w, L so_groovy w -> contains sopat_groovy w = true.
Proof.
  intros w H. unfold so_groovy in H. cbn [L Lseq] in H. destr_L. subst.
  repeat match goal with H : N.eqb _ _ = true |- _ => apply N.eqb_eq in H end. subst.
  rewrite <- !app_assoc. find_pat.
Qed.

Lemma no_crash_groovy_lem : forall s,
  contains cpat_groovy s = false -> search crash_groovy s = None.
Proof. exact (search_none_contains crash_groovy cpat_groovy crash_groovy_contains). Qed.

Lemma no_so_groovy_lem : forall s,
  contains sopat_groovy s = false -> search so_groovy s = None.
Proof. exact (search_none_contains so_groovy sopat_groovy so_groovy_contains). Qed.

(* ---------------------------------------------------------------- Gr2: files *)
Lemma gerrs_In : forall ls k, In k (map fst (gerrs ls)) <->
  exists stem body, In (GErr stem body) ls /\ gpath stem = k.
Proof.
  induction ls as [|i ls IH]; intros k.
  - split; [intros [] | intros [? [? [[] _]]]].
  - unfold gerrs. cbn [flat_map]. fold (gerrs ls). rewrite map_app, in_app_iff, IH. split.
    + intros [H | [stem [body [Hin Hk]]]].
      * destruct i as [stem body | t]; [| destruct H]. destruct H as [H | []].
        exists stem, body. split; [left; reflexivity | exact H].
      * exists stem, body. split; [right; exact Hin | exact Hk].
    + intros [stem [body [[Hin | Hin] Hk]]].
      * subst i. left. left. exact Hk.
      * right. exists stem, body. split; assumption.
Qed.

Lemma files_groovy_lem : forall ls,
  forallb wf_gitem ls = true ->
  search crash_groovy (render_g ls) = None ->
  (gerrs ls <> [] \/ search so_groovy (render_g ls) = None) ->
  exists f ms,
    analyze comp_groovy [] (render_g ls) = Diag f ms /\
    keys_distinct (map fst f) = true /\
    (forall k, In k (map fst f) <-> exists stem body, In (GErr stem body) ls /\ gpath stem = k) /\
    (forall k msgs, In (k, msgs) f -> msgs = msgs_for k (gerrs ls)) /\
    List.length ms = List.length (gerrs ls).
Proof.
  intros ls Hwf Hc Hso. eexists. eexists. split; [apply attribution_groovy_lem; assumption |].
  destruct (failed_add_groups_lem (gerrs ls)) as [H1 [H2 _]]. cbv zeta in H1, H2.
  split; [exact H1 |]. split; [| split].
  - intros k. rewrite <- gerrs_In. rewrite H2. split.
    + intros Hk. exists k. split; [exact Hk | apply chs_eqb_refl].
    + intros [k' [Hk E]]. apply chs_eqb_eq in E. subst. exact Hk.
  - intros k msgs Hin. apply group_by_file_content. exact Hin.
  - apply map_length.
Qed.

(* ---------------------------------------------------------------- examples *)
Definition g_example : list gitem :=
  [ GOther (str "org.codehaus.groovy.control.MultipleCompilationErrorsException: startup failed:");
    GErr (str "/tmp/tmpab_1/src/foo/Main")
         (str " 3: [Static type checking] - Cannot assign value of type java.lang.String to variable of type int" ++ [nl] ++
          str " @ line 3, column 13." ++ [nl] ++ str "           int x = y" ++ [nl] ++ str "               ^");
    GErr (str "/tmp/tmpab_1/src/bar/Main")
         (str " 5: [Static type checking] - Cannot find matching method bar#foo()" ++ [nl] ++
          str " @ line 5, column 1." ++ [nl] ++ str "   foo()" ++ [nl] ++ str "   ^");
    GOther (str "2 errors") ].

Example g_example_ok :
  forallb wf_gitem g_example = true /\
  contains cpat_groovy (render_g g_example) = false /\
  contains sopat_groovy (render_g g_example) = false /\
  analyze comp_groovy [] (render_g g_example) =
  Diag [ (str "/tmp/tmpab_1/src/foo/Main.groovy",
          [str " 3: [Static type checking] - Cannot assign value of type java.lang.String to variable of type int" ++ [nl] ++
           str " @ line 3, column 13." ++ [nl] ++ str "           int x = y" ++ [nl] ++ str "               ^"]);
         (str "/tmp/tmpab_1/src/bar/Main.groovy",
          [str " 5: [Static type checking] - Cannot find matching method bar#foo()" ++ [nl] ++
           str " @ line 5, column 1." ++ [nl] ++ str "   foo()" ++ [nl] ++ str "   ^"]) ]
       [ [str "/tmp/tmpab_1/src/foo/Main.groovy";
          str " 3: [Static type checking] - Cannot assign value of type java.lang.String to variable of type int" ++ [nl] ++
          str " @ line 3, column 13." ++ [nl] ++ str "           int x = y" ++ [nl] ++ str "               ^"];
         [str "/tmp/tmpab_1/src/bar/Main.groovy";
          str " 5: [Static type checking] - Cannot find matching method bar#foo()" ++ [nl] ++
          str " @ line 5, column 1." ++ [nl] ++ str "   foo()" ++ [nl] ++ str "   ^"] ].
Proof. vm_compute. repeat split. Qed.

Lemma g_example_hyps :
  forallb wf_gitem g_example = true /\
  contains cpat_groovy (render_g g_example) = false /\
  contains sopat_groovy (render_g g_example) = false /\
  List.length (gerrs g_example) = 2%nat /\
  analyze comp_groovy [] (render_g g_example) =
  Diag (group_by_file (gerrs g_example)) (map (fun e => [fst e; snd e]) (gerrs g_example)).
Proof. vm_compute. repeat split. Qed.

(* the side condition "an empty line follows the report" is necessary: a report at the very end
   of the output, without the empty line, is dropped (the look-ahead \n{2,} never succeeds) *)
Definition g_noblank : list ch :=
  str "a/Main.groovy: 1: first" ++ [nl; nl] ++ str "b/Main.groovy: 2: second" ++ [nl].

Lemma groovy_report_without_blank_line_dropped_lem :
  search crash_groovy g_noblank = None /\
  analyze comp_groovy [] g_noblank =
  Diag [(str "a/Main.groovy", [str " 1: first"])] [[str "a/Main.groovy"; str " 1: first"]].
Proof. vm_compute. split; reflexivity. Qed.

(* a stack overflow of the compiler is a crash only when no report is matched *)
Definition g_so_example : list gitem :=
  [ GOther (str "Exception in thread main java.lang.StackOverflowError") ].

Lemma groovy_stackoverflow_example_lem :
  forallb wf_gitem g_so_example = true /\
  search crash_groovy (render_g g_so_example) = None /\
  gerrs g_so_example = [] /\ search so_groovy (render_g g_so_example) <> None /\
  analyze comp_groovy [] (render_g g_so_example) = Crash.
Proof. vm_compute. repeat split. discriminate. Qed.
