(* Diag/EngineLemmas2.v -- further reasoning principles for the matcher of Diag/Regex.v, needed for
   the scalac and groovyc formats: greedy repeats that must backtrack ([.*Error: ], [.*\.scala]),
   lazy repeats up to a look-ahead ([\s\S]*?(?=\n{2,})), failure of a literal prefix, regexes
   whose first part stays on one line, [search] on texts that do not contain a required word. *)
From Coq Require Import List NArith Bool Lia Arith String.
Import ListNotations.
From Heph Require Import Diag.Regex Diag.Analyze Diag.Grammar Diag.EngineLemmas.

(* ------------------------------------------------------------ greedy repeat with backtracking *)

(* the continuation fails after every non-empty further prefix of the run b: the repeat gives
   back everything and stops where it started *)
Lemma rep_greedy_all_fail : forall R lo r1 ok k, atom_ok r1 ok ->
  forall b n count s' pos cs,
    forallb ok b = true -> stops ok s' -> (List.length b < n)%nat ->
    (forall b1 b2, b = b1 ++ b2 -> b1 <> [] -> k (b2 ++ s') (pos + List.length b1)%nat cs = None) ->
    rep_fix R true lo None r1 k n count (b ++ s') pos cs =
    if Nat.leb lo count then k (b ++ s') pos cs else None.
Proof.
  intros R lo r1 ok k Hat. induction b as [|c b IH]; intros n count s' pos cs Hb Hst Hn Hfail.
  - destruct n as [|n']; [simpl in Hn; lia |].
    rewrite rep_fix_S. cbv zeta. rewrite Hat. simpl app.
    assert (E : step_char ok R s' pos cs
                  (fun s'0 p' c' => if Nat.eqb p' pos then None
                                    else rep_fix R true lo None r1 k n' (S count) s'0 p' c') = None).
    { destruct s' as [|d t]; [reflexivity |]. simpl in Hst. simpl. rewrite Hst. reflexivity. }
    rewrite E. reflexivity.
  - destruct n as [|n']; [simpl in Hn; lia |].
    simpl in Hb. apply andb_true_iff in Hb. destruct Hb as [Hc Hb].
    rewrite rep_fix_S. cbv zeta. rewrite Hat. simpl app. unfold step_char. rewrite Hc.
    assert (E : Nat.eqb (S pos) pos = false) by (apply Nat.eqb_neq; lia).
    rewrite E.
    rewrite (IH n' (S count) s' (S pos) cs Hb Hst).
    + assert (F : k (b ++ s') (S pos) cs = None).
      { replace (S pos) with (pos + List.length [c])%nat by (simpl; lia).
        apply (Hfail [c] b); [reflexivity | discriminate]. }
      rewrite F. destruct (Nat.leb lo (S count)); reflexivity.
    + simpl in Hn. lia.
    + intros b1 b2 Hsplit Hne.
      replace (S pos + List.length b1)%nat with (pos + List.length (c :: b1))%nat by (simpl; lia).
      apply (Hfail (c :: b1) b2); [rewrite Hsplit; reflexivity | discriminate].
Qed.

(* the run is a ++ b; the continuation succeeds after a and fails after every longer prefix *)
Lemma rep_greedy_backtrack : forall R lo r1 ok k, atom_ok r1 ok ->
  forall a b n count s' pos cs x,
    forallb ok a = true -> forallb ok b = true -> stops ok s' ->
    (List.length (a ++ b) < n)%nat ->
    (lo <= count + List.length a)%nat ->
    (forall b1 b2, b = b1 ++ b2 -> b1 <> [] ->
                   k (b2 ++ s') (pos + List.length a + List.length b1)%nat cs = None) ->
    k (b ++ s') (pos + List.length a)%nat cs = Some x ->
    rep_fix R true lo None r1 k n count (a ++ b ++ s') pos cs = Some x.
Proof.
  intros R lo r1 ok k Hat. induction a as [|c a IH]; intros b n count s' pos cs x Ha Hb Hst Hn Hlo Hfail Hk.
  - simpl app. simpl in Hn.
    rewrite (rep_greedy_all_fail R lo r1 ok k Hat b n count s' pos cs Hb Hst Hn).
    + simpl in Hlo. rewrite Nat.add_0_r in Hlo. apply Nat.leb_le in Hlo. rewrite Hlo.
      simpl in Hk. rewrite Nat.add_0_r in Hk. exact Hk.
    + intros b1 b2 H1 H2. specialize (Hfail b1 b2 H1 H2). simpl in Hfail.
      rewrite Nat.add_0_r in Hfail. exact Hfail.
  - destruct n as [|n']; [simpl in Hn; lia |].
    simpl in Ha. apply andb_true_iff in Ha. destruct Ha as [Hc Ha].
    rewrite rep_fix_S. cbv zeta. rewrite Hat. simpl app. unfold step_char. rewrite Hc.
    assert (E : Nat.eqb (S pos) pos = false) by (apply Nat.eqb_neq; lia).
    rewrite E.
    rewrite (IH b n' (S count) s' (S pos) cs x Ha Hb Hst); [reflexivity | | | | ].
    + simpl in Hn. lia.
    + simpl in Hlo. lia.
    + intros b1 b2 H1 H2. specialize (Hfail b1 b2 H1 H2).
      rewrite <- Hfail. f_equal. simpl. lia.
    + rewrite <- Hk. f_equal. simpl. lia.
Qed.

Lemma m_rep_greedy_backtrack : forall R lo r1 ok k, atom_ok r1 ok ->
  forall a b s' pos cs x,
    forallb ok a = true -> forallb ok b = true -> stops ok s' ->
    (lo <= List.length a)%nat ->
    (forall b1 b2, b = b1 ++ b2 -> b1 <> [] ->
                   k (b2 ++ s') (pos + List.length a + List.length b1)%nat cs = None) ->
    k (b ++ s') (pos + List.length a)%nat cs = Some x ->
    m R (RRep true lo None r1) (a ++ b ++ s') pos cs k = Some x.
Proof.
  intros R lo r1 ok k Hat a b s' pos cs x H1 H2 H3 H4 H5 H6.
  rewrite m_rep. apply (rep_greedy_backtrack R lo r1 ok k Hat); try assumption.
  rewrite !app_length. lia.
Qed.

(* ------------------------------------------------------------ lazy repeat up to the first success *)
Lemma rep_lazy_run : forall R r1 ok k, atom_ok r1 ok ->
  forall run n count s' pos cs x,
    forallb ok run = true -> (List.length run < n)%nat ->
    (forall r1' r2, run = r1' ++ r2 -> r2 <> [] ->
                    k (r2 ++ s') (pos + List.length r1')%nat cs = None) ->
    k s' (pos + List.length run)%nat cs = Some x ->
    rep_fix R false 0 None r1 k n count (run ++ s') pos cs = Some x.
Proof.
  intros R r1 ok k Hat. induction run as [|c run IH]; intros n count s' pos cs x Hrun Hn Hfail Hk.
  - destruct n as [|n']; [simpl in Hn; lia |].
    rewrite rep_fix_S. cbv zeta. simpl Nat.leb. simpl app. simpl in Hk. rewrite Nat.add_0_r in Hk.
    rewrite Hk. reflexivity.
  - destruct n as [|n']; [simpl in Hn; lia |].
    simpl in Hrun. apply andb_true_iff in Hrun. destruct Hrun as [Hc Hrun].
    rewrite rep_fix_S. cbv zeta. simpl Nat.leb.
    assert (F : k ((c :: run) ++ s') pos cs = None).
    { replace pos with (pos + List.length (@nil ch))%nat at 1 by (simpl; lia).
      apply (Hfail [] (c :: run)); [reflexivity | discriminate]. }
    rewrite F. rewrite Hat. simpl app. unfold step_char. rewrite Hc.
    assert (E : Nat.eqb (S pos) pos = false) by (apply Nat.eqb_neq; lia).
    rewrite E.
    apply IH; [exact Hrun | simpl in Hn; lia | |].
    + intros r1' r2 H1 H2.
      replace (S pos + List.length r1')%nat with (pos + List.length (c :: r1'))%nat by (simpl; lia).
      apply (Hfail (c :: r1') r2); [rewrite H1; reflexivity | exact H2].
    + rewrite <- Hk. f_equal. simpl. lia.
Qed.

Lemma m_rep_lazy_run : forall R r1 ok k, atom_ok r1 ok ->
  forall run s' pos cs x,
    forallb ok run = true ->
    (forall r1' r2, run = r1' ++ r2 -> r2 <> [] ->
                    k (r2 ++ s') (pos + List.length r1')%nat cs = None) ->
    k s' (pos + List.length run)%nat cs = Some x ->
    m R (RRep false 0 None r1) (run ++ s') pos cs k = Some x.
Proof.
  intros R r1 ok k Hat run s' pos cs x H1 H2 H3.
  rewrite m_rep. apply (rep_lazy_run R r1 ok k Hat); try assumption.
  rewrite app_length. lia.
Qed.

(* ------------------------------------------------------------ a literal prefix that is not there *)
Lemma m_lits_fail : forall R pat rs s pos cs k,
  prefix_of pat s = false -> m R (RSeq (map RLit pat ++ rs)) s pos cs k = None.
Proof.
  intros R. induction pat as [|c pat IH]; intros rs s pos cs k H; [discriminate |].
  cbn [map app]. rewrite m_seq_cons. rewrite (atom_lit c). destruct s as [|x t]; [reflexivity |].
  cbn [step_char]. cbn [prefix_of] in H. rewrite N.eqb_sym in H.
  destruct (N.eqb x c); [| reflexivity]. cbn [andb] in H. apply IH. exact H.
Qed.

Lemma prefix_of_line : forall pat b rest,
  no_nl pat = true -> prefix_of pat (b ++ nl :: rest) = true -> prefix_of pat b = true.
Proof.
  induction pat as [|p pat IH]; intros b rest Hp H; [reflexivity |].
  cbn [no_nl forallb] in Hp. apply andb_true_iff in Hp. destruct Hp as [Hp1 Hp2].
  destruct b as [|x b].
  - cbn [app prefix_of] in H. apply andb_true_iff in H. destruct H as [H _].
    rewrite H in Hp1. discriminate.
  - cbn [app prefix_of] in *. apply andb_true_iff in H. destruct H as [H1 H2].
    rewrite H1. cbn [andb]. apply (IH b rest); assumption.
Qed.

(* no occurrence of pat in a line: no proper or improper suffix of the line, continued by the
   rest of the text, starts with pat *)
Lemma contains_false_suffix_prefix : forall pat c1 c2 rest,
  no_nl pat = true -> contains pat (c1 ++ c2) = false -> prefix_of pat (c2 ++ nl :: rest) = false.
Proof.
  intros pat c1 c2 rest Hp H. apply contains_suffix_false in H.
  destruct (prefix_of pat (c2 ++ nl :: rest)) eqn:E; [| reflexivity].
  apply prefix_of_line in E; [| exact Hp].
  apply contains_prefix in E. congruence.
Qed.

Lemma prefix_of_split : forall p s, prefix_of p s = true -> exists t, s = p ++ t.
Proof.
  induction p as [|c p IH]; intros s H; [exists s; reflexivity |].
  destruct s as [|x s]; [discriminate |]. cbn [prefix_of] in H.
  apply andb_true_iff in H. destruct H as [H1 H2]. apply N.eqb_eq in H1. subst x.
  destruct (IH s H2) as [t ->]. exists t. reflexivity.
Qed.

(* ------------------------------------------------------------ regexes whose first part stays on a line *)
Lemma L_seq_app : forall rs1 rs2 w, L (RSeq (rs1 ++ rs2)) w ->
  exists w1 w2, w = w1 ++ w2 /\ L (RSeq rs1) w1 /\ L (RSeq rs2) w2.
Proof.
  induction rs1 as [|r rs1 IH]; intros rs2 w H.
  - exists [], w. cbn [L Lseq]. auto.
  - cbn [app L Lseq] in H. destruct H as [u [v [-> [Hu Hv]]]].
    destruct (IH rs2 v Hv) as [w1 [w2 [-> [H1 H2]]]].
    exists (u ++ w1), w2. split; [apply app_assoc |]. split; [| exact H2].
    cbn [L Lseq]. exists u, w1. auto.
Qed.

Lemma match_at_none_line2 : forall rs1 rs2 pat,
  nl_free (RSeq rs1) = true ->
  (forall w, L (RSeq rs1) w -> contains pat w = true) ->
  forall b rest p, contains pat b = false -> match_at (RSeq (rs1 ++ rs2)) (b ++ nl :: rest) p = None.
Proof.
  intros rs1 rs2 pat Hnl Hpat b rest p Hb.
  destruct (match_at (RSeq (rs1 ++ rs2)) (b ++ nl :: rest) p) as [[e c]|] eqn:E; [| reflexivity].
  apply match_at_sound in E. destruct E as [w [s' [Hs [HL _]]]].
  apply L_seq_app in HL. destruct HL as [w1 [w2 [-> [H1 H2]]]].
  rewrite <- app_assoc in Hs.
  destruct (prefix_split b rest w1 (w2 ++ s') Hs (L_nl_free _ w1 Hnl H1)) as [t ->].
  rewrite (contains_app_l pat w1 t (Hpat w1 H1)) in Hb. discriminate.
Qed.

(* ------------------------------------------------------------ search on a text without a required word *)
Lemma search_from_none_contains : forall r pat,
  (forall w, L r w -> contains pat w = true) ->
  forall n s pos, contains pat s = false -> search_from n r s pos = None.
Proof.
  intros r pat Hpat. induction n as [|n IH]; intros s pos Hs; [reflexivity |].
  cbn [search_from].
  destruct (match_at r s pos) as [[e c]|] eqn:E.
  - apply match_at_sound in E. destruct E as [w [s' [-> [HL _]]]].
    rewrite (contains_app_l pat w s' (Hpat w HL)) in Hs. discriminate.
  - destruct s as [|x t]; [reflexivity |]. apply IH. apply contains_cons_false in Hs. exact Hs.
Qed.

Lemma search_none_contains : forall r pat,
  (forall w, L r w -> contains pat w = true) ->
  forall s, contains pat s = false -> search r s = None.
Proof. intros r pat H s Hs. unfold search. apply (search_from_none_contains r pat H). exact Hs. Qed.

(* ------------------------------------------------------------ findall: skipping a stretch without matches *)
Lemma findall_aux_nil : forall n r pos, findall_aux n r [] pos = [].
Proof. intros [|n] r pos; reflexivity. Qed.

Lemma forallb_repeat : forall (f : ch -> bool) c n, f c = true -> forallb f (repeat c n) = true.
Proof. intros f c n H. induction n as [|n IH]; [reflexivity |]. simpl. rewrite H, IH. reflexivity. Qed.

Section Skip.
  Variable r : re.
  Variable quiet : list ch -> Prop.          (* a line, or the rest of one, in which no match begins *)
  Hypothesis quiet_tail : forall c b, quiet (c :: b) -> quiet b.
  Hypothesis r_fail : forall b rest p, quiet b -> match_at r (b ++ nl :: rest) p = None.

  Lemma findall_skip_quiet : forall b rest X p,
    quiet b ->
    (forall n', (List.length rest < n')%nat ->
                findall_aux n' r rest (p + List.length b + 1)%nat = X) ->
    forall n, (List.length (b ++ nl :: rest) < n)%nat ->
              findall_aux n r (b ++ nl :: rest) p = X.
  Proof.
    induction b as [|c b IH]; intros rest X p Hb HX n Hn.
    - destruct n as [|n']; [simpl in Hn; lia |]. simpl app.
      rewrite findall_aux_nomatch by (apply (r_fail [] rest p); exact Hb).
      simpl in HX. replace (S p) with (p + 0 + 1)%nat by lia. apply HX. simpl in Hn. lia.
    - destruct n as [|n']; [simpl in Hn; lia |]. simpl app.
      rewrite findall_aux_nomatch by (apply (r_fail (c :: b) rest p); exact Hb).
      apply IH.
      + apply quiet_tail in Hb. exact Hb.
      + intros n'' Hn''. replace (S p + List.length b + 1)%nat with (p + List.length (c :: b) + 1)%nat
          by (simpl; lia). apply HX. exact Hn''.
      + simpl in Hn. lia.
  Qed.
End Skip.

Lemma skipn_app_plus : forall (a : list ch) x R k,
  skipn (List.length a + 1 + k) (a ++ x :: R) = skipn k R.
Proof. induction a as [|c a IH]; intros x R k; [reflexivity |]. simpl. apply IH. Qed.

Lemma skipn_app_le : forall (a b : list ch) j, (j <= List.length a)%nat ->
  skipn j (a ++ b) = skipn j a ++ b.
Proof.
  induction a as [|c a IH]; intros b j H.
  - simpl in H. assert (j = 0%nat) by lia. subst. reflexivity.
  - destruct j as [|j]; [reflexivity |]. simpl. apply IH. simpl in H. lia.
Qed.
