(* Diag/GrammarGroovy.v -- grammar of groovyc error reports over which the attribution theorems
   of Diag/AttrGroovy.v are stated.  Definitions only.

       org.codehaus.groovy.control.MultipleCompilationErrorsException: startup failed:
       /tmp/x/src/pkg/Main.groovy: 3: [Static type checking] - Cannot assign ... to variable of type int
        @ line 3, column 13.
                  int x = "a"
                      ^
       <empty line>
       1 error

   An error report (GErr) is  <stem>.groovy:<body>  followed by an empty line, where <body> is
   everything after the colon (" 3: [Static type checking] ... \n @ line 3, column 13.\n  int x = ...\n  ^")
   and neither contains an empty line nor ends with a newline.  Every other line is a GOther:
   the exception header, the summary, notes, empty lines. *)
From Coq Require Import List NArith Bool String.
Import ListNotations.
From Heph Require Import Diag.Regex Diag.Analyze Diag.Grammar.
Open Scope N_scope.

Inductive gitem :=
| GErr (stem body : list ch)
| GOther (txt : list ch).

Definition gpath (stem : list ch) : list ch := stem ++ str ".groovy".

Definition render_gitem (i : gitem) : list ch :=
  match i with
  | GErr stem body => gpath stem ++ str ":" ++ body ++ [nl; nl]
  | GOther txt => txt ++ [nl]
  end.

Definition render_g (ls : list gitem) : list ch := flat_map render_gitem ls.

Definition wf_gitem (i : gitem) : bool :=
  match i with
  | GErr stem body =>
      negb (Nat.eqb (List.length stem) 0) && forallb path_char stem &&
      negb (contains [nl; nl] (body ++ [nl]))
  | GOther txt => no_nl txt && negb (contains (str "groovy:") txt)
  end.

Definition gerrs (ls : list gitem) : list (list ch * list ch) :=
  flat_map (fun i => match i with GErr stem body => [(gpath stem, body)] | GOther _ => [] end) ls.
