(* Diag/Analyze.v -- model of BaseCompiler.analyze_compiler_output (src/compilers/base.py)
   and of the Groovy override.  Definitions only. *)
From Coq Require Import List NArith Bool.
Import ListNotations.
From Heph Require Import Diag.Regex.

Record compiler := {
  err_re : re;                (* ERROR_REGEX *)
  crash_re : re;              (* CRASH_REGEX *)
  so_re : option re;          (* Groovy's STACKOVERFLOW_REGEX *)
  ngroups : nat               (* number of capture groups of ERROR_REGEX *)
}.

Fixpoint chs_eqb (a b : list ch) : bool :=
  match a, b with
  | [], [] => true
  | x :: a', y :: b' => N.eqb x y && chs_eqb a' b'
  | _, _ => false
  end.

(* failed[filename].append(msg) on a defaultdict(list): insertion order of first appearance *)
Fixpoint failed_add (f : list (list ch * list (list ch))) (file msg : list ch)
  : list (list ch * list (list ch)) :=
  match f with
  | [] => [(file, [msg])]
  | (k, ms) :: f' => if chs_eqb k file then (k, ms ++ [msg]) :: f' else (k, ms) :: failed_add f' file msg
  end.

Inductive outcome :=
| Crash                                                      (* crash_msg = output; returns (None, ...) *)
| Diag (failed : list (list ch * list (list ch)))            (* the failed map *)
       (matches : list (list (list ch))).                    (* re.findall result: one tuple of groups per match *)

Definition groups_of (n : nat) (s : list ch) (mt : mtch) : list (list ch) :=
  map (fun g => group s mt g) (seq 1 n).

Definition analyze (c : compiler) (filters : list re) (out : list ch) : outcome :=
  match search (crash_re c) out with
  | Some _ =>
      Crash
  | None =>
      let filtered := fold_left (fun acc p => sub_empty p acc) filters out in
      let ms := findall (err_re c) filtered in
      let failed := fold_left (fun f mt => failed_add f (group filtered mt 1) (group filtered mt 2)) ms [] in
      match so_re c with
      | Some so =>
          match search so out, ms with
          | Some _, [] => Crash
          | _, _ => Diag failed (map (groups_of (ngroups c) filtered) ms)
          end
      | None => Diag failed (map (groups_of (ngroups c) filtered) ms)
      end
  end.
