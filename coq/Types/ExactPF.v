(* Types/ExactPF.v -- exactness of definite answers of is_subtype on the boxed projection-free
   fragment (E1) and its corollaries. *)
From Coq Require Import List Arith Bool Lia.
Import ListNotations.
From Heph Require Import Types.Syntax Types.Subst Types.Subtype Types.Decl Types.TableOk
  Types.PFBase Types.SubtypePF Types.DeclPF.

Lemma is_subtype_exact_pf_lem : forall w fuel s t,
  table_ok w = true -> plain_closed s = true -> plain_closed t = true ->
  arity_ok w s = true -> arity_ok w t = true -> boxed s = true -> boxed t = true ->
  is_subtype w fuel s t <> Rerr ->
  (is_subtype w fuel s t = Rt <-> SubA w [] s t).
Proof.
  intros w fuel s t Hok Ps Pt As At Bs Bt Hne. split.
  - intros H. eapply is_subtype_sound_pf_lem; eauto.
  - intros HS. destruct (is_subtype w fuel s t) eqn:E; [reflexivity| |congruence].
    exfalso. apply (is_subtype_complete_pf_lem w fuel [] s t Hok Ps Pt As At Bs Bt E HS).
Qed.

Lemma is_subtype_refl_pf_lem : forall w f t, plain_closed t = true -> is_subtype w (S f) t t = Rt.
Proof.
  intros w f t Pt. rewrite is_subtype_S.
  destruct t; try discriminate; try reflexivity.
  - destruct (is_bottom_builtin w b); [reflexivity|]. rewrite py_eqb_refl. reflexivity.
  - unfold nominal_m. rewrite py_eqb_refl. reflexivity.
  - unfold nominal_m. rewrite py_eqb_refl. reflexivity.
Qed.

Lemma is_subtype_trans_pf_lem : forall w f1 f2 f3 a b c,
  table_ok w = true -> plain_closed a = true -> plain_closed b = true -> plain_closed c = true ->
  arity_ok w a = true -> arity_ok w b = true -> arity_ok w c = true ->
  boxed a = true -> boxed b = true -> boxed c = true ->
  is_subtype w f1 a b = Rt -> is_subtype w f2 b c = Rt -> is_subtype w f3 a c <> Rerr ->
  is_subtype w f3 a c = Rt.
Proof.
  intros w f1 f2 f3 a b c Hok Pa Pb Pc Aa Ab Ac Ba Bb Bc H1 H2 Hne.
  apply (is_subtype_exact_pf_lem w f3 a c); auto.
  apply (suba_trans_pf_lem w [] a b c); auto.
  - eapply is_subtype_sound_pf_lem; eauto.
  - eapply is_subtype_sound_pf_lem; eauto.
Qed.

(* a definite negative answer is stable: no other fuel turns it into True *)
Lemma is_subtype_rf_stable_lem : forall w f1 f2 s t,
  table_ok w = true -> plain_closed s = true -> plain_closed t = true ->
  arity_ok w s = true -> arity_ok w t = true -> boxed s = true -> boxed t = true ->
  is_subtype w f1 s t = Rf -> is_subtype w f2 s t <> Rt.
Proof.
  intros w f1 f2 s t Hok Ps Pt As At Bs Bt H1 H2.
  apply (is_subtype_complete_pf_lem w f1 [] s t Hok Ps Pt As At Bs Bt H1).
  eapply is_subtype_sound_pf_lem; eauto.
Qed.
