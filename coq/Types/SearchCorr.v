(* Types/SearchCorr.v -- comparison of the search model (Types/Search.v) with recorded calls of
   the real _find_types / find_irrelevant_type.  Definitions only. *)
From Coq Require Import List Arith Bool.
Import ListNotations.
From Heph Require Import Types.Syntax Types.Subst Types.Subtype Types.Corr Types.Search.

(* one recorded call.  types = None: the group's pool.  expected = None: the real call raised. *)
Inductive scase :=
| SFind (etype : ty) (types : option (list ty)) (get_subtypes include_self : bool) (bound : option ty)
        (concrete : bool) (o : ft_oracle) (expected : option (list ty))
| SIrr (etype : ty) (types : option (list ty)) (o : fit_oracle) (expected : option (option ty)).

Definition opt_ty_eqb (a b : option ty) : bool :=
  match a, b with
  | None, None => true
  | Some x, Some y => ty_eqb x y
  | _, _ => false
  end.

(* 0 agree; 1 values differ; 2 the model raises, the code returned; 3 the code raised, the model returns;
   4 the recorded oracle answers do not cover what the model asks for *)
Definition scase_code (w : world) (fuel any : nat) (pool : list ty) (c : scase) : nat :=
  match c with
  | SFind e tys gs inc bd conc o ex =>
      let types := match tys with Some l => l | None => pool end in
      match find_types w fuel e types gs inc bd conc o, ex with
      | Val l, Some l' => if Nat.eqb (length l) (length l') && set_eq_ty l l' then 0 else 1
      | Exc, None => 0
      | Exc, Some _ => 2
      | Val _, None => 3
      | Missing, _ => 4
      end
  | SIrr e tys o ex =>
      let types := match tys with Some l => l | None => pool end in
      match find_irrelevant_type w fuel any e types o, ex with
      | Val r, Some r' => if opt_ty_eqb r r' then 0 else 1
      | Exc, None => 0
      | Exc, Some _ => 2
      | Val _, None => 3
      | Missing, _ => 4
      end
  end.

Fixpoint scase_mismatches (w : world) (fuel any : nat) (pool : list ty) (i : nat) (cs : list scase)
  : list (nat * nat) :=
  match cs with
  | [] => []
  | c :: cs' =>
      (match scase_code w fuel any pool c with
       | 0 => []
       | k => [(i, k)]
       end) ++ scase_mismatches w fuel any pool (S i) cs'
  end.

(* what the model answers, for the replay of a disagreement *)
Definition scase_model (w : world) (fuel any : nat) (pool : list ty) (c : scase)
  : outcome (list ty) + outcome (option ty) :=
  match c with
  | SFind e tys gs inc bd conc o _ =>
      inl (find_types w fuel e (match tys with Some l => l | None => pool end) gs inc bd conc o)
  | SIrr e tys o _ =>
      inr (find_irrelevant_type w fuel any e (match tys with Some l => l | None => pool end) o)
  end.
