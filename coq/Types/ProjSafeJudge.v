(* Types/ProjSafeJudge.v -- the harness's classification predicate Judge.proj_safe (index-based,
   looking into bounds) implies the per-type condition safe_all of Types/ProjSafe.v on the
   fragment: a True answer the judge would classify as `unsound-core` on projection-closed
   types cannot be given by the model. *)
From Coq Require Import List Arith Bool Lia.
Import ListNotations.
From Heph Require Import Types.Syntax Types.Subst Types.Subtype Types.Decl Types.TableOk
  Types.Judge Types.PFBase Types.SubtypePF Types.ProjFrag Types.ProjSound Types.ProjSafe Types.ProjSafeSound.

Definition sp_go (w : world) (f : nat) (d' : nat) (prm : ty) (pv : option variance) :=
  fix go (j : nat) (es ps : list ty) : bool :=
    match es, ps with
    | e :: es', q :: ps' =>
        (if py_eqb e prm then
           (match pv with
            | None => true
            | Some v => var_eqb (tvar_variance q) Inv || var_eqb (tvar_variance q) v
            end) && safe_param w f d' j pv
         else negb (mentions prm e)) && go (S j) es' ps'
    | _, _ => true
    end.

Lemma safe_param_S : forall w f c i pv, safe_param w (S f) c i pv =
  match find_class w c with
  | None => true
  | Some d =>
      let prm := nth i (c_params d) TNothing in
      forallb (fun s => match s with
                        | TApp d' eargs =>
                            match find_class w d' with
                            | None => true
                            | Some dd => sp_go w f d' prm pv 0 eargs (c_params dd)
                            end
                        | _ => negb (mentions prm s)
                        end) (c_supers d)
  end.
Proof. reflexivity. Qed.

Lemma mentions_self_j : forall prm x, py_eqb prm x = true -> mentions prm x = true.
Proof. intros prm x H. destruct x; cbn; rewrite H; reflexivity. Qed.

Lemma occurs_nb_nonapp : forall prm x, is_app x = false -> occurs_nb prm x = py_eqb prm x.
Proof. intros prm x H. destruct x; try discriminate; cbn; apply orb_false_r. Qed.

Lemma occurs_nb_mentions : forall prm x, occurs_nb prm x = true -> mentions prm x = true.
Proof.
  intros prm. apply (ty_ind' (fun x => occurs_nb prm x = true -> mentions prm x = true)); intros;
    try (apply mentions_self_j; rewrite <- occurs_nb_nonapp; [assumption|reflexivity]).
  cbn [occurs_nb mentions] in *. apply orb_true_iff in H0. destruct H0 as [E|E]; [rewrite E; reflexivity|].
  apply orb_true_iff. right. apply existsb_exists in E. destruct E as [y [Hy Ey]].
  apply existsb_exists. exists y. split; [exact Hy|]. rewrite Forall_forall in H. apply (H y Hy Ey).
Qed.

Lemma nth_app_here : forall (pre : list ty) q qs, nth (length pre) (pre ++ q :: qs) TNothing = q.
Proof. intros. rewrite app_nth2; [|lia]. rewrite Nat.sub_diag. reflexivity. Qed.

Section SP.
  Variable w : world.
  Hypothesis Hok : table_ok w = true.

  Lemma sp_go_spec : forall f d' dd prm v,
    (forall i, safe_param w f d' i (Some v) = true -> psafeb w f d' (nth i (c_params dd) TNothing) v = true) ->
    forall es qs pre, c_params dd = pre ++ qs ->
    sp_go w f d' prm (Some v) (length pre) es qs = true ->
    forallb (fun qx => if py_eqb (snd qx) prm
                       then compat (fst qx) v && psafeb w f d' (fst qx) v
                       else negb (occurs_nb prm (snd qx))) (combine qs es) = true.
  Proof.
    intros f d' dd prm v IH es. induction es as [|x es IHes]; intros qs pre Hp H.
    - destruct qs; reflexivity.
    - destruct qs as [|q qs]; [reflexivity|]. cbn [sp_go] in H. fold (sp_go w f d' prm (Some v)) in H.
      apply andb_prop in H. destruct H as [H1 H2]. cbn [combine forallb fst snd].
      apply andb_true_intro. split.
      + destruct (py_eqb x prm).
        * apply andb_prop in H1. destruct H1 as [Hc Hs]. unfold compat. rewrite Hc. cbn [andb].
          pose proof (IH _ Hs) as Hq. rewrite Hp, nth_app_here in Hq. exact Hq.
        * apply negb_true_iff in H1. apply negb_true_iff.
          destruct (occurs_nb prm x) eqn:E; [|reflexivity]. rewrite (occurs_nb_mentions _ _ E) in H1. discriminate.
      + apply (IHes qs (pre ++ [q])).
        * rewrite <- app_assoc. exact Hp.
        * rewrite app_length. cbn [length]. rewrite Nat.add_1_r. exact H2.
  Qed.

  Lemma sp_psafeb : forall f c i v d, find_class w c = Some d ->
    safe_param w f c i (Some v) = true -> psafeb w f c (nth i (c_params d) TNothing) v = true.
  Proof.
    induction f as [|f IH]; intros c i v d Hd H; [discriminate|].
    rewrite safe_param_S, Hd in H. cbn zeta in H. rewrite psafeb_S, Hd.
    apply forallb_forall. intros s0 Hs0. pose proof (forallb_In _ _ _ _ H Hs0) as H1. cbn beta in H1.
    destruct (tok_super w Hok c d s0 Hd Hs0) as [_ [Ha _]].
    destruct s0 as [| |e es| | | | |]; try reflexivity.
    cbn [arity_ok] in Ha. destruct (find_class w e) as [de|] eqn:Hde; [|discriminate].
    apply (sp_go_spec f e de _ v (fun i0 Hs => IH e i0 v de Hde Hs) es (c_params de) []); auto.
  Qed.
End SP.

Definition ps_go (w : world) (fuel c : nat) (rec : ty -> bool) :=
  fix go (i : nat) (l : list ty) : bool :=
    match l with
    | [] => true
    | a :: l' =>
        (match a with
         | TWild _ None => safe_param w fuel c i None
         | TWild v (Some b) => safe_param w fuel c i (Some v) && rec b
         | _ => rec a
         end) && go (S i) l'
    end.

Lemma proj_safe_app : forall w n c l, proj_safe w n (TApp c l) = ps_go w n c (proj_safe w n) 0 l.
Proof. reflexivity. Qed.

Section PS.
  Variable w : world.
  Hypothesis Hok : table_ok w = true.

  Lemma ps_go_spec : forall n c d, find_class w c = Some d ->
    forall l ps pre, c_params d = pre ++ ps -> args_ok (frag w) ps l = true ->
    ps_go w n c (proj_safe w n) (length pre) l = true ->
    (forall a, In a l -> frag w a = true -> proj_safe w n a = true -> safe_all w a) ->
    (forall v b, In (TWild v (Some b)) l -> frag w b = true -> proj_safe w n b = true -> safe_all w b) ->
    args_safe w (safe_all w) c ps l.
  Proof.
    intros n c d Hd l. induction l as [|a l IHl]; intros ps pre Hp Ha H IH1 IH2; [exact I|].
    destruct ps as [|prm ps]; [exact I|]. rewrite args_ok_cons in Ha. rewrite args_safe_cons.
    apply andb_prop in Ha. destruct Ha as [Hx Ha].
    cbn [ps_go] in H. fold (ps_go w n c (proj_safe w n)) in H. apply andb_prop in H. destruct H as [H1 H2].
    split.
    - destruct (arg_ok_cases w prm a Hx) as [[_ Fa]|[[u [-> [_ Fu]]]|[u [-> [_ Fu]]]]].
      + apply arg_safe_plain; auto. apply IH1; auto; [left; reflexivity|].
        destruct a; try discriminate; exact H1.
      + apply andb_prop in H1. destruct H1 as [Hs Hu]. cbn [arg_safe]. split.
        * exists n. pose proof (sp_psafeb w Hok n c (length pre) Cov d Hd Hs) as X.
          rewrite Hp, nth_app_here in X. exact X.
        * apply (IH2 Cov u); auto. left. reflexivity.
      + apply andb_prop in H1. destruct H1 as [Hs Hu]. cbn [arg_safe]. split.
        * exists n. pose proof (sp_psafeb w Hok n c (length pre) Contra d Hd Hs) as X.
          rewrite Hp, nth_app_here in X. exact X.
        * apply (IH2 Contra u); auto. left. reflexivity.
    - apply (IHl ps (pre ++ [prm])); auto.
      + rewrite <- app_assoc. exact Hp.
      + rewrite app_length. cbn [length]. rewrite Nat.add_1_r. exact H2.
      + intros y Hy. apply IH1. right. exact Hy.
      + intros v b Hy. apply (IH2 v b). right. exact Hy.
  Qed.

  Lemma proj_safe_safe_all : forall n t, frag w t = true -> proj_safe w n t = true -> safe_all w t.
  Proof.
    intros n. apply (frag_ind w (fun t => proj_safe w n t = true -> safe_all w t)); try (intros; exact I).
    intros c d l Hd Hl Ha IH1 IH2 H. rewrite safe_all_app, Hd. rewrite proj_safe_app in H.
    apply (ps_go_spec n c d Hd l (c_params d) []); auto.
  Qed.
End PS.

(* soundness in the vocabulary of the harness's judge *)
Lemma is_subtype_sound_proj_safe_lem : forall w fuel n m k1 k2 p s t,
  table_ok w = true ->
  proj_closed s = true -> proj_closed t = true ->
  wf_ty w n s = true -> wf_ty w m t = true ->
  proj_safe w k1 s = true -> proj_safe w k2 t = true ->
  is_subtype w fuel s t = Rt -> SubA w p s t.
Proof.
  intros w fuel n m k1 k2 p s t Hok Ps Pt Ws Wt Ss St H.
  pose proof (wf_frag w n s Ps Ws) as Fs. pose proof (wf_frag w m t Pt Wt) as Ft.
  apply (is_subtype_sound_safe_all_lem w fuel p s t Hok Fs Ft); auto; eapply proj_safe_safe_all; eauto.
Qed.
