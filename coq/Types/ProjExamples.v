(* Types/ProjExamples.v -- the projection fragment is inhabited by real projections over a
   table with a generic subclass; the three refutation witnesses of unrestricted soundness
   (Types/Refuted.v) each violate one of the fragment's hypotheses; the converse (a False
   answer is exact) fails on the fragment when Nothing is a projection bound. *)
From Coq Require Import List Arith Bool.
Import ListNotations.
From Heph Require Import Types.Syntax Types.Subst Types.Subtype Types.Decl Types.TableOk
  Types.RefSound Types.Refuted Types.ProjFrag Types.ProjFragC Types.ProjSafe.

(* class 1 = A<T>, class 2 = B<T> : A<T>, class 3 = P<out T>, class 4 = Q<out T> : P<T>;
   built-ins 1 = Any, 2 = Number <: Any, 3 = Int <: Any, Number *)
Definition Tcov := TVar 10 Cov None.
Definition w_pj : world :=
  {| w_ct := [(1, {| c_params := [T10]; c_supers := [] |});
              (2, {| c_params := [T10]; c_supers := [TApp 1 [T10]] |});
              (3, {| c_params := [Tcov]; c_supers := [] |});
              (4, {| c_params := [Tcov]; c_supers := [TApp 3 [Tcov]] |})];
     w_bt := bt3; w_array := None |}.

Definition outInt := TWild Cov (Some tInt).
Definition inNumber := TWild Contra (Some tNumber).
Definition inInt := TWild Contra (Some tInt).

Definition in_proj_fragment (w : world) (s t : ty) : Prop :=
  table_ok w = true /\ params_direct w = true /\
  proj_closed s = true /\ proj_closed t = true /\
  wf_ty w 20 s = true /\ wf_ty w 20 t = true.

(* B<out Int> <: A<out Number>, B<in Number> <: A<in Int>, not B<out Number> <: A<out Int>;
   nested: B<A<out Int>> <: A<out A<out Number>>; declared covariance: Q<out Int> <: P<Number> *)
Lemma proj_nonvacuous_lem :
  in_proj_fragment w_pj (TApp 2 [outInt]) (TApp 1 [outNumber]) /\
  is_subtype w_pj 40 (TApp 2 [outInt]) (TApp 1 [outNumber]) = Rt /\
  in_proj_fragment w_pj (TApp 2 [inNumber]) (TApp 1 [inInt]) /\
  is_subtype w_pj 40 (TApp 2 [inNumber]) (TApp 1 [inInt]) = Rt /\
  in_proj_fragment w_pj (TApp 2 [outNumber]) (TApp 1 [outInt]) /\
  is_subtype w_pj 40 (TApp 2 [outNumber]) (TApp 1 [outInt]) = Rf /\
  in_proj_fragment w_pj (TApp 2 [TApp 1 [outInt]]) (TApp 1 [TWild Cov (Some (TApp 1 [outNumber]))]) /\
  is_subtype w_pj 40 (TApp 2 [TApp 1 [outInt]]) (TApp 1 [TWild Cov (Some (TApp 1 [outNumber]))]) = Rt /\
  in_proj_fragment w_pj (TApp 4 [outInt]) (TApp 3 [tNumber]) /\
  is_subtype w_pj 40 (TApp 4 [outInt]) (TApp 3 [tNumber]) = Rt.
Proof. unfold in_proj_fragment. vm_compute. repeat split; reflexivity. Qed.

(* the refutation witnesses are outside: the first two tables are not params_direct (a type
   variable nested inside an argument; a type variable moved to a position of another declared
   variance), the third table is fine but the left type has a type variable *)
Lemma refuted_witnesses_outside_lem :
  params_direct w_np = false /\ params_direct w_cp = false /\
  (params_direct w_tv = true /\ proj_closed (TApp 2 [U77]) = false /\ proj_closed (TApp 1 [T20]) = false).
Proof. vm_compute. repeat split; reflexivity. Qed.

(* ... and everything else about them is inside: tables are table_ok, types are well formed,
   the projected types of the first two are proj_closed *)
Lemma refuted_witnesses_otherwise_inside_lem :
  (table_ok w_np = true /\ proj_closed (TApp 3 [outNumber]) = true /\
   proj_closed (TApp 2 [TApp 1 [outNumber]]) = true /\
   wf_ty w_np 20 (TApp 3 [outNumber]) = true /\ wf_ty w_np 20 (TApp 2 [TApp 1 [outNumber]]) = true) /\
  (table_ok w_cp = true /\ proj_closed (TApp 2 [outNumber]) = true /\ proj_closed (TApp 1 [tInt]) = true /\
   wf_ty w_cp 20 (TApp 2 [outNumber]) = true /\ wf_ty w_cp 20 (TApp 1 [tInt]) = true) /\
  (table_ok w_tv = true /\ wf_ty w_tv 20 (TApp 2 [U77]) = true /\ wf_ty w_tv 20 (TApp 1 [T20]) = true).
Proof. vm_compute. repeat split; reflexivity. Qed.

(* a False answer is not exact on the fragment: A<out Number> is below A<in Nothing> (every
   type is above Nothing), the model compares the two projection kinds and answers False *)
Lemma complete_proj_refuted_lem :
  exists w fuel s t,
    in_proj_fragment w s t /\ boxed s = true /\ boxed t = true /\
    is_subtype w fuel s t = Rf /\ SubA w [] s t.
Proof.
  exists w_pj, 40, (TApp 1 [outNumber]), (TApp 1 [TWild Contra (Some TNothing)]).
  unfold in_proj_fragment. repeat split; try (vm_compute; reflexivity).
  apply (sub_ref_yes_sound_lem _ 40); vm_compute; reflexivity.
Qed.

(* the same witness in the vocabulary of the converse theorem: everything holds except that
   the right type is not `ground` (it mentions Nothing) *)
Lemma complete_proj_refuted_nothing_lem :
  exists w fuel s t,
    table_ok w = true /\ params_direct w = true /\ supers_solid w = true /\
    ground w s = true /\ proj_closed t = true /\ boxed t = true /\
    wf_ty w 20 s = true /\ wf_ty w 20 t = true /\
    is_subtype w fuel s t = Rf /\ SubA w [] s t.
Proof.
  exists w_pj, 40, (TApp 1 [outNumber]), (TApp 1 [TWild Contra (Some TNothing)]).
  repeat split; try (vm_compute; reflexivity).
  apply (sub_ref_yes_sound_lem _ 40); vm_compute; reflexivity.
Qed.

(* supers_solid is needed: class 5 = C : Bot (a bottom built-in); A<out Number> is below
   A<in C> because C is below everything, the model answers False *)
Definition w_bs : world :=
  {| w_ct := [(1, {| c_params := [T10]; c_supers := [] |});
              (5, {| c_params := []; c_supers := [TBuiltin 4 false] |})];
     w_bt := bt3 ++ [(4, mkb [] true)]; w_array := None |}.

Lemma complete_proj_refuted_bottom_super_lem :
  exists w fuel s t,
    table_ok w = true /\ params_direct w = true /\ supers_solid w = false /\
    ground w s = true /\ ground w t = true /\
    wf_ty w 20 s = true /\ wf_ty w 20 t = true /\
    is_subtype w fuel s t = Rf /\ SubA w [] s t.
Proof.
  exists w_bs, 40, (TApp 1 [outNumber]), (TApp 1 [TWild Contra (Some (TClass 5))]).
  repeat split; try (vm_compute; reflexivity).
  apply (sub_ref_yes_sound_lem _ 40); vm_compute; reflexivity.
Qed.

(* non-vacuity of the converse: ground types with projections, definite False answers *)
Lemma complete_proj_nonvacuous_lem :
  table_ok w_pj = true /\ params_direct w_pj = true /\ supers_solid w_pj = true /\
  ground w_pj (TApp 2 [outNumber]) = true /\ ground w_pj (TApp 1 [outInt]) = true /\
  wf_ty w_pj 20 (TApp 2 [outNumber]) = true /\ wf_ty w_pj 20 (TApp 1 [outInt]) = true /\
  is_subtype w_pj 40 (TApp 2 [outNumber]) (TApp 1 [outInt]) = Rf /\
  ground w_pj (TApp 2 [outInt]) = true /\ ground w_pj (TApp 1 [inInt]) = true /\
  is_subtype w_pj 40 (TApp 2 [outInt]) (TApp 1 [inInt]) = Rf /\
  ground w_pj (TApp 2 [outInt]) = true /\ ground w_pj (TApp 1 [outNumber]) = true /\
  is_subtype w_pj 40 (TApp 2 [outInt]) (TApp 1 [outNumber]) = Rt.
Proof. vm_compute. repeat split; reflexivity. Qed.

(* ---------- the per-type condition safe_allb ---------- *)
(* class 1 = L<T>, class 2 = A<T>, class 3 = P<T>, class 4 = D<T, U> : A<L<T>>, P<U>:
   the table is not params_direct (T is nested), but U is passed on directly, so a projection
   at U is safe: D<Int, out Int> <: P<out Number> and D<Int, out Int> <: A<L<Int>> *)
Definition w_sf : world :=
  {| w_ct := [(1, {| c_params := [T10]; c_supers := [] |});
              (2, {| c_params := [T10]; c_supers := [] |});
              (3, {| c_params := [T10]; c_supers := [] |});
              (4, {| c_params := [T10; U11];
                     c_supers := [TApp 2 [TApp 1 [T10]]; TApp 3 [U11]] |})];
     w_bt := bt3; w_array := None |}.

Definition in_safe_fragment (w : world) (s t : ty) : Prop :=
  table_ok w = true /\ proj_closed s = true /\ proj_closed t = true /\
  wf_ty w 20 s = true /\ wf_ty w 20 t = true /\ safe_allb w 12 s = true /\ safe_allb w 12 t = true.

Lemma safe_nonvacuous_lem :
  params_direct w_sf = false /\
  in_safe_fragment w_sf (TApp 4 [tInt; outInt]) (TApp 3 [outNumber]) /\
  is_subtype w_sf 40 (TApp 4 [tInt; outInt]) (TApp 3 [outNumber]) = Rt /\
  in_safe_fragment w_sf (TApp 4 [tInt; outInt]) (TApp 2 [TApp 1 [tInt]]) /\
  is_subtype w_sf 40 (TApp 4 [tInt; outInt]) (TApp 2 [TApp 1 [tInt]]) = Rt /\
  safe_allb w_sf 12 (TApp 4 [outInt; tInt]) = false.
Proof. unfold in_safe_fragment. vm_compute. repeat split; reflexivity. Qed.

(* the two projection witnesses against unrestricted soundness are not safe_allb; on the
   params_direct example table everything is *)
Lemma refuted_witnesses_unsafe_lem :
  safe_allb w_np 12 (TApp 3 [outNumber]) = false /\ safe_allb w_cp 12 (TApp 2 [outNumber]) = false /\
  safe_allb w_pj 12 (TApp 2 [outInt]) = true /\ safe_allb w_pj 12 (TApp 4 [outInt]) = true.
Proof. vm_compute. repeat split; reflexivity. Qed.
