(* Types/DeclPF.v -- the declarative relation on the projection-free fragment:
   a path-free, height-indexed presentation SubH, its equivalence with SubA,
   reflexivity (D1), path irrelevance (D2) and transitivity (D3). *)
From Coq Require Import List Arith Bool Lia.
Import ListNotations.
From Heph Require Import Types.Syntax Types.Subst Types.Subtype Types.Decl Types.TableOk
  Types.PFBase Types.SubtypePF.

Scheme SubA_mut := Minimality for SubA Sort Prop
  with ContA_mut := Minimality for ContA Sort Prop
  with Cont1_mut := Minimality for Cont1 Sort Prop.
Combined Scheme SubA_mutind from SubA_mut, ContA_mut, Cont1_mut.

(* ---------- argument containment relative to a relation on types ---------- *)
Inductive Arg1 (R : ty -> ty -> Prop) (prm a b : ty) : Prop :=
| Arg_Inv : tvar_variance prm = Inv -> deq a b = true -> Arg1 R prm a b
| Arg_Cov : tvar_variance prm = Cov -> R a b -> Arg1 R prm a b
| Arg_Contra : tvar_variance prm = Contra -> R b a -> Arg1 R prm a b.

Inductive ArgsRel (R : ty -> ty -> Prop) : list ty -> list ty -> list ty -> Prop :=
| AR_nil : ArgsRel R [] [] []
| AR_cons prm ps a l1 b l2 :
    Arg1 R prm a b -> ArgsRel R ps l1 l2 -> ArgsRel R (prm :: ps) (a :: l1) (b :: l2).

Lemma Arg1_impl : forall (R R' : ty -> ty -> Prop) prm a b,
  (R a b -> R' a b) -> (R b a -> R' b a) -> Arg1 R prm a b -> Arg1 R' prm a b.
Proof.
  intros R R' prm a b H1 H2 H. destruct H as [Hv He|Hv Hr|Hv Hr].
  - apply Arg_Inv; auto.
  - apply Arg_Cov; auto.
  - apply Arg_Contra; auto.
Qed.

Lemma ArgsRel_impl_in : forall (R R' : ty -> ty -> Prop) ps l1 l2,
  (forall a b, (In a l1 /\ In b l2) \/ (In a l2 /\ In b l1) -> R a b -> R' a b) ->
  ArgsRel R ps l1 l2 -> ArgsRel R' ps l1 l2.
Proof.
  intros R R' ps l1 l2 Himp H. induction H as [|prm ps a l1 b l2 H1 H IH].
  - constructor.
  - constructor.
    + apply (Arg1_impl R R'); auto; apply Himp; cbn; auto.
    + apply IH. intros x y Hxy. apply Himp. cbn. tauto.
Qed.

Lemma ArgsRel_impl : forall (R R' : ty -> ty -> Prop) ps l1 l2,
  (forall a b, R a b -> R' a b) -> ArgsRel R ps l1 l2 -> ArgsRel R' ps l1 l2.
Proof. intros R R' ps l1 l2 H. apply ArgsRel_impl_in. intros a b _. apply H. Qed.

Lemma ArgsRel_length : forall R ps l1 l2, ArgsRel R ps l1 l2 ->
  length l1 = length ps /\ length l2 = length ps.
Proof. intros R ps l1 l2 H. induction H; cbn; [auto|]. destruct IHArgsRel. split; congruence. Qed.

Section H.
  Variable w : world.

  (* SubA without paths, captures and variables; the index bounds the height *)
  Inductive SubH : nat -> ty -> ty -> Prop :=
  | H_Nothing n t : SubH (S n) TNothing t
  | H_Bot n b pr t : is_bottom_builtin w b = true -> SubH (S n) (TBuiltin b pr) t
  | H_BRefl n b pr pr' : SubH (S n) (TBuiltin b pr) (TBuiltin b pr')
  | H_BUp n b b' t : In b' (bsupers w b) -> SubH n (TBuiltin b' false) t -> SubH (S n) (TBuiltin b false) t
  | H_CRefl n c : SubH (S n) (TClass c) (TClass c)
  | H_CUp n c d s t : find_class w c = Some d -> In s (c_supers d) -> SubH n s t -> SubH (S n) (TClass c) t
  | H_Args n c d args bargs :
      find_class w c = Some d -> length args = length (c_params d) -> length bargs = length (c_params d) ->
      ArgsRel (SubH n) (c_params d) args bargs -> SubH (S n) (TApp c args) (TApp c bargs)
  | H_AUp n c d args s t :
      find_class w c = Some d -> length args = length (c_params d) -> In s (c_supers d) ->
      SubH n (inst_super d args s) t -> SubH (S n) (TApp c args) t.

  Definition SubE (s t : ty) : Prop := exists n, SubH n s t.

  Lemma SubH_mono : forall n s t, SubH n s t -> forall m, n <= m -> SubH m s t.
  Proof.
    induction n as [|n IH]; intros s t H m Hm; [inversion H|].
    destruct m as [|m]; [lia|]. assert (Hnm : n <= m) by lia.
    inversion H; subst.
    - apply H_Nothing.
    - apply H_Bot; auto.
    - apply H_BRefl.
    - eapply H_BUp; eauto.
    - apply H_CRefl.
    - eapply H_CUp; eauto.
    - eapply H_Args; eauto. eapply ArgsRel_impl; [|eassumption]. intros a b Hab. apply (IH _ _ Hab m Hnm).
    - eapply H_AUp; eauto.
  Qed.

  Lemma ArgsRel_SubE : forall ps l1 l2, ArgsRel SubE ps l1 l2 -> exists n, ArgsRel (SubH n) ps l1 l2.
  Proof.
    intros ps l1 l2 H. induction H as [|prm ps a l1 b l2 H1 H IH].
    - exists 0. constructor.
    - destruct IH as [n Hn].
      assert (H1' : exists k, Arg1 (SubH k) prm a b).
      { destruct H1 as [Hv He|Hv [k Hk]|Hv [k Hk]].
        - exists 0. apply Arg_Inv; auto.
        - exists k. apply Arg_Cov; auto.
        - exists k. apply Arg_Contra; auto. }
      destruct H1' as [k Hk]. exists (max n k). constructor.
      + eapply Arg1_impl; [| |exact Hk]; intros Hx; apply (SubH_mono _ _ _ Hx); lia.
      + eapply ArgsRel_impl; [|exact Hn]. intros x y Hx. apply (SubH_mono _ _ _ Hx). lia.
  Qed.

  Lemma E_Nothing : forall t, SubE TNothing t.
  Proof. intros t. exists 1. apply H_Nothing. Qed.
  Lemma E_Bot : forall b pr t, is_bottom_builtin w b = true -> SubE (TBuiltin b pr) t.
  Proof. intros b pr t H. exists 1. apply H_Bot. exact H. Qed.
  Lemma E_BUp : forall b b' t, In b' (bsupers w b) -> SubE (TBuiltin b' false) t -> SubE (TBuiltin b false) t.
  Proof. intros b b' t Hin [n Hn]. exists (S n). eapply H_BUp; eauto. Qed.
  Lemma E_CUp : forall c d s t, find_class w c = Some d -> In s (c_supers d) -> SubE s t -> SubE (TClass c) t.
  Proof. intros c d s t Hd Hin [n Hn]. exists (S n). eapply H_CUp; eauto. Qed.
  Lemma E_AUp : forall c d args s t, find_class w c = Some d -> length args = length (c_params d) ->
    In s (c_supers d) -> SubE (inst_super d args s) t -> SubE (TApp c args) t.
  Proof. intros c d args s t Hd Hl Hin [n Hn]. exists (S n). eapply H_AUp; eauto. Qed.
  Lemma E_Args : forall c d args bargs, find_class w c = Some d ->
    length args = length (c_params d) -> length bargs = length (c_params d) ->
    ArgsRel SubE (c_params d) args bargs -> SubE (TApp c args) (TApp c bargs).
  Proof.
    intros c d args bargs Hd L1 L2 H. destruct (ArgsRel_SubE _ _ _ H) as [n Hn].
    exists (S n). eapply H_Args; eauto.
  Qed.

  Hypothesis Hok : table_ok w = true.

  (* ---------- SubH -> SubA at every path ---------- *)
  Lemma good1_inst_super : forall c d args s, good1 w (TApp c args) = true ->
    find_class w c = Some d -> In s (c_supers d) -> good1 w (inst_super d args s) = true.
  Proof.
    intros c d args s Hg Hd Hin. eapply direct_supers_good1; eauto. apply in_direct_supers_app; auto.
  Qed.

  Lemma good1_class_super : forall c d s, good1 w (TClass c) = true ->
    find_class w c = Some d -> In s (c_supers d) -> good1 w s = true.
  Proof.
    intros c d s Hg Hd Hin. apply (direct_supers_good1 w Hok (TClass c) s Hg).
    cbn [direct_supers]. rewrite Hd. exact Hin.
  Qed.

  Lemma SubH_SubA : forall n s t, SubH n s t -> good1 w s = true -> good1 w t = true ->
    forall p, SubA w p s t.
  Proof.
    induction n as [|n IH]; intros s t H Gs Gt p; [inversion H|].
    inversion H as [n0 t0|n0 b pr t0 Hbot|n0 b pr pr'|n0 b b' t0 Hin Hs|n0 c
                   |n0 c d s0 t0 Hd Hin Hs|n0 c d args bargs Hd L1 L2 HR
                   |n0 c d args s0 t0 Hd L1 Hin Hs]; subst.
    - apply A_Nothing.
    - apply A_BotBuiltin; auto.
    - apply A_BuiltinRefl.
    - apply (A_BuiltinUp w p b b' t Hin). apply IH; auto.
    - apply A_ClassRefl.
    - apply (A_ClassUp w p c d s0 t Hd Hin). apply IH; auto. eapply good1_class_super; eauto.
    - destruct (good1_args _ _ _ Gs) as [d1 [Hd1 [_ [Hp1 Ha1]]]].
      destruct (good1_args _ _ _ Gt) as [d2 [Hd2 [_ [Hp2 Ha2]]]].
      apply (A_AppArgs w p c d args bargs Hd L1 L2). rewrite open_args_plain; auto.
      assert (G1 : forall a, In a args -> good1 w a = true) by (apply (forallb_good1 w args Hp1 Ha1)).
      assert (G2 : forall a, In a bargs -> good1 w a = true) by (apply (forallb_good1 w bargs Hp2 Ha2)).
      clear - IH HR G1 G2. generalize 0 as i. revert G1 G2.
      induction HR as [|prm ps a l1 b l2 H1 HR IHR]; intros G1 G2 i; constructor.
      + assert (Ga : good1 w a = true) by (apply G1; left; reflexivity).
        assert (Gb : good1 w b = true) by (apply G2; left; reflexivity).
        pose proof (plain_not_wild _ (proj1 (good1_split _ _ Gb))) as Wb.
        destruct H1 as [Hv He|Hv Hr|Hv Hr].
        * apply C_Inv; auto.
        * apply C_Cov; auto.
        * apply C_Contra; auto.
      + apply IHR; intros x Hx; [apply G1|apply G2]; right; exact Hx.
    - destruct (good1_args _ _ _ Gs) as [d1 [Hd1 [_ [Hp1 Ha1]]]].
      apply (A_AppUp w p c d args s0 t Hd L1 Hin). rewrite open_args_plain; auto.
      apply IH; auto. eapply good1_inst_super; eauto.
  Qed.

  (* ---------- SubA -> SubH ---------- *)
  Lemma SubA_SubE_mut :
    (forall p s t, SubA w p s t -> good1 w s = true -> good1 w t = true -> SubE s t) /\
    (forall p i ps l1 l2, ContA w p i ps l1 l2 ->
       (forall a, In a l1 -> good1 w a = true) -> (forall b, In b l2 -> good1 w b = true) ->
       ArgsRel SubE ps l1 l2) /\
    (forall q prm a b, Cont1 w q prm a b -> good1 w a = true -> good1 w b = true -> Arg1 SubE prm a b).
  Proof.
    apply SubA_mutind; intros;
      try match goal with
          | G : good1 w (TVar _ _ _) = true |- _ => unfold good1 in G; cbn in G; discriminate
          | G : good1 w (TCap _ _ _) = true |- _ => unfold good1 in G; cbn in G; discriminate
          | G : good1 w (TWild _ _) = true |- _ => unfold good1 in G; cbn in G; discriminate
          end.
    - apply E_Nothing.
    - apply E_Bot; auto.
    - exists 1. apply H_BRefl.
    - eapply E_BUp; eauto.
    - exists 1. apply H_CRefl.
    - eapply E_CUp; eauto. apply H2; auto. eapply good1_class_super; eauto.
    - destruct (good1_args _ _ _ H4) as [d1 [Hd1 [_ [Hp1 Ha1]]]].
      destruct (good1_args _ _ _ H5) as [d2 [Hd2 [_ [Hp2 Ha2]]]].
      rewrite open_args_plain in H3; auto.
      apply (E_Args c d args bargs H H0 H1).
      apply H3; [apply (forallb_good1 w args Hp1 Ha1)|apply (forallb_good1 w bargs Hp2 Ha2)].
    - destruct (good1_args _ _ _ H4) as [d1 [Hd1 [_ [Hp1 Ha1]]]].
      rewrite open_args_plain in H3; auto.
      apply (E_AUp c d args s t H H0 H1). apply H3; auto. eapply good1_inst_super; eauto.
    - constructor.
    - constructor.
      + apply H0; [apply H3|apply H4]; left; reflexivity.
      + apply H2; intros x Hx; [apply H3|apply H4]; right; exact Hx.
    - apply Arg_Inv; auto.
    - apply Arg_Cov; auto.
    - apply Arg_Contra; auto.
  Qed.

  Lemma SubA_SubE : forall p s t, SubA w p s t -> good1 w s = true -> good1 w t = true -> SubE s t.
  Proof. apply SubA_SubE_mut. Qed.

  Lemma SubE_SubA : forall s t, SubE s t -> good1 w s = true -> good1 w t = true -> forall p, SubA w p s t.
  Proof. intros s t [n Hn]. eapply SubH_SubA; eauto. Qed.
End H.

(* ---------- D1, D2 on the fragment ---------- *)
Lemma suba_refl_pf_lem : forall w p t,
  table_ok w = true -> plain_closed t = true -> arity_ok w t = true -> SubA w p t t.
Proof.
  intros w p t _ Pt At. apply suba_pyeq.
  - unfold good1. rewrite Pt, At. reflexivity.
  - unfold good1. rewrite Pt, At. reflexivity.
  - apply py_eqb_refl.
Qed.

Lemma suba_path_irrelevant_good : forall w p q s t,
  table_ok w = true -> good1 w s = true -> good1 w t = true -> SubA w p s t -> SubA w q s t.
Proof.
  intros w p q s t Hok Gs Gt H. apply (SubE_SubA w Hok s t); auto. eapply SubA_SubE; eauto.
Qed.
