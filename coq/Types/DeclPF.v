(* Types/DeclPF.v -- the declarative relation on the projection-free fragment:
   a path-free, height-indexed presentation SubH, its equivalence with SubA,
   reflexivity (D1), path irrelevance (D2) and transitivity (D3). *)
From Coq Require Import List Arith Bool Lia.
Import ListNotations.
From Heph Require Import Types.Syntax Types.Subst Types.Subtype Types.Decl Types.TableOk
  Types.PFBase Types.SubtypePF.

Scheme SubA_mut := Minimality for SubA Sort Prop
  with ContA_mut := Minimality for ContA Sort Prop
  with Cont1_mut := Minimality for Cont1 Sort Prop.
Combined Scheme SubA_mutind from SubA_mut, ContA_mut, Cont1_mut.

(* ---------- argument containment relative to a relation on types ---------- *)
Inductive Arg1 (R : ty -> ty -> Prop) (prm a b : ty) : Prop :=
| Arg_Inv : tvar_variance prm = Inv -> deq a b = true -> Arg1 R prm a b
| Arg_Cov : tvar_variance prm = Cov -> R a b -> Arg1 R prm a b
| Arg_Contra : tvar_variance prm = Contra -> R b a -> Arg1 R prm a b.

Inductive ArgsRel (R : ty -> ty -> Prop) : list ty -> list ty -> list ty -> Prop :=
| AR_nil : ArgsRel R [] [] []
| AR_cons prm ps a l1 b l2 :
    Arg1 R prm a b -> ArgsRel R ps l1 l2 -> ArgsRel R (prm :: ps) (a :: l1) (b :: l2).

Lemma Arg1_impl : forall (R R' : ty -> ty -> Prop) prm a b,
  (R a b -> R' a b) -> (R b a -> R' b a) -> Arg1 R prm a b -> Arg1 R' prm a b.
Proof.
  intros R R' prm a b H1 H2 H. destruct H as [Hv He|Hv Hr|Hv Hr].
  - apply Arg_Inv; auto.
  - apply Arg_Cov; auto.
  - apply Arg_Contra; auto.
Qed.

Lemma ArgsRel_impl_in : forall (R R' : ty -> ty -> Prop) ps l1 l2,
  (forall a b, (In a l1 /\ In b l2) \/ (In a l2 /\ In b l1) -> R a b -> R' a b) ->
  ArgsRel R ps l1 l2 -> ArgsRel R' ps l1 l2.
Proof.
  intros R R' ps l1 l2 Himp H. induction H as [|prm ps a l1 b l2 H1 H IH].
  - constructor.
  - constructor.
    + apply (Arg1_impl R R'); auto; apply Himp; cbn; auto.
    + apply IH. intros x y Hxy. apply Himp. cbn. tauto.
Qed.

Lemma ArgsRel_impl : forall (R R' : ty -> ty -> Prop) ps l1 l2,
  (forall a b, R a b -> R' a b) -> ArgsRel R ps l1 l2 -> ArgsRel R' ps l1 l2.
Proof. intros R R' ps l1 l2 H. apply ArgsRel_impl_in. intros a b _. apply H. Qed.

Lemma ArgsRel_length : forall R ps l1 l2, ArgsRel R ps l1 l2 ->
  length l1 = length ps /\ length l2 = length ps.
Proof. intros R ps l1 l2 H. induction H; cbn; [auto|]. destruct IHArgsRel. split; congruence. Qed.

Section H.
  Variable w : world.

  (* SubA without paths, captures and variables; the index bounds the height *)
  Inductive SubH : nat -> ty -> ty -> Prop :=
  | H_Nothing n t : SubH (S n) TNothing t
  | H_Bot n b pr t : is_bottom_builtin w b = true -> SubH (S n) (TBuiltin b pr) t
  | H_BRefl n b pr pr' : SubH (S n) (TBuiltin b pr) (TBuiltin b pr')
  | H_BUp n b b' t : In b' (bsupers w b) -> SubH n (TBuiltin b' false) t -> SubH (S n) (TBuiltin b false) t
  | H_CRefl n c : SubH (S n) (TClass c) (TClass c)
  | H_CUp n c d s t : find_class w c = Some d -> In s (c_supers d) -> SubH n s t -> SubH (S n) (TClass c) t
  | H_Args n c d args bargs :
      find_class w c = Some d -> length args = length (c_params d) -> length bargs = length (c_params d) ->
      ArgsRel (SubH n) (c_params d) args bargs -> SubH (S n) (TApp c args) (TApp c bargs)
  | H_AUp n c d args s t :
      find_class w c = Some d -> length args = length (c_params d) -> In s (c_supers d) ->
      SubH n (inst_super d args s) t -> SubH (S n) (TApp c args) t.

  Definition SubE (s t : ty) : Prop := exists n, SubH n s t.

  Lemma SubH_mono : forall n s t, SubH n s t -> forall m, n <= m -> SubH m s t.
  Proof.
    induction n as [|n IH]; intros s t H m Hm; [inversion H|].
    destruct m as [|m]; [lia|]. assert (Hnm : n <= m) by lia.
    inversion H; subst.
    - apply H_Nothing.
    - apply H_Bot; auto.
    - apply H_BRefl.
    - eapply H_BUp; eauto.
    - apply H_CRefl.
    - eapply H_CUp; eauto.
    - eapply H_Args; eauto. eapply ArgsRel_impl; [|eassumption]. intros a b Hab. apply (IH _ _ Hab m Hnm).
    - eapply H_AUp; eauto.
  Qed.

  Lemma ArgsRel_SubE : forall ps l1 l2, ArgsRel SubE ps l1 l2 -> exists n, ArgsRel (SubH n) ps l1 l2.
  Proof.
    intros ps l1 l2 H. induction H as [|prm ps a l1 b l2 H1 H IH].
    - exists 0. constructor.
    - destruct IH as [n Hn].
      assert (H1' : exists k, Arg1 (SubH k) prm a b).
      { destruct H1 as [Hv He|Hv [k Hk]|Hv [k Hk]].
        - exists 0. apply Arg_Inv; auto.
        - exists k. apply Arg_Cov; auto.
        - exists k. apply Arg_Contra; auto. }
      destruct H1' as [k Hk]. exists (max n k). constructor.
      + eapply Arg1_impl; [| |exact Hk]; intros Hx; apply (SubH_mono _ _ _ Hx); lia.
      + eapply ArgsRel_impl; [|exact Hn]. intros x y Hx. apply (SubH_mono _ _ _ Hx). lia.
  Qed.

  Lemma E_Nothing : forall t, SubE TNothing t.
  Proof. intros t. exists 1. apply H_Nothing. Qed.
  Lemma E_Bot : forall b pr t, is_bottom_builtin w b = true -> SubE (TBuiltin b pr) t.
  Proof. intros b pr t H. exists 1. apply H_Bot. exact H. Qed.
  Lemma E_BUp : forall b b' t, In b' (bsupers w b) -> SubE (TBuiltin b' false) t -> SubE (TBuiltin b false) t.
  Proof. intros b b' t Hin [n Hn]. exists (S n). eapply H_BUp; eauto. Qed.
  Lemma E_CUp : forall c d s t, find_class w c = Some d -> In s (c_supers d) -> SubE s t -> SubE (TClass c) t.
  Proof. intros c d s t Hd Hin [n Hn]. exists (S n). eapply H_CUp; eauto. Qed.
  Lemma E_AUp : forall c d args s t, find_class w c = Some d -> length args = length (c_params d) ->
    In s (c_supers d) -> SubE (inst_super d args s) t -> SubE (TApp c args) t.
  Proof. intros c d args s t Hd Hl Hin [n Hn]. exists (S n). eapply H_AUp; eauto. Qed.
  Lemma E_Args : forall c d args bargs, find_class w c = Some d ->
    length args = length (c_params d) -> length bargs = length (c_params d) ->
    ArgsRel SubE (c_params d) args bargs -> SubE (TApp c args) (TApp c bargs).
  Proof.
    intros c d args bargs Hd L1 L2 H. destruct (ArgsRel_SubE _ _ _ H) as [n Hn].
    exists (S n). eapply H_Args; eauto.
  Qed.

  Hypothesis Hok : table_ok w = true.

  (* ---------- SubH -> SubA at every path ---------- *)
  Lemma good1_inst_super : forall c d args s, good1 w (TApp c args) = true ->
    find_class w c = Some d -> In s (c_supers d) -> good1 w (inst_super d args s) = true.
  Proof.
    intros c d args s Hg Hd Hin. eapply direct_supers_good1; eauto. apply in_direct_supers_app; auto.
  Qed.

  Lemma good1_class_super : forall c d s, good1 w (TClass c) = true ->
    find_class w c = Some d -> In s (c_supers d) -> good1 w s = true.
  Proof.
    intros c d s Hg Hd Hin. apply (direct_supers_good1 w Hok (TClass c) s Hg).
    cbn [direct_supers]. rewrite Hd. exact Hin.
  Qed.

  Lemma SubH_SubA : forall n s t, SubH n s t -> good1 w s = true -> good1 w t = true ->
    forall p, SubA w p s t.
  Proof.
    induction n as [|n IH]; intros s t H Gs Gt p; [inversion H|].
    inversion H as [n0 t0|n0 b pr t0 Hbot|n0 b pr pr'|n0 b b' t0 Hin Hs|n0 c
                   |n0 c d s0 t0 Hd Hin Hs|n0 c d args bargs Hd L1 L2 HR
                   |n0 c d args s0 t0 Hd L1 Hin Hs]; subst.
    - apply A_Nothing.
    - apply A_BotBuiltin; auto.
    - apply A_BuiltinRefl.
    - apply (A_BuiltinUp w p b b' t Hin). apply IH; auto.
    - apply A_ClassRefl.
    - apply (A_ClassUp w p c d s0 t Hd Hin). apply IH; auto. eapply good1_class_super; eauto.
    - destruct (good1_args _ _ _ Gs) as [d1 [Hd1 [_ [Hp1 Ha1]]]].
      destruct (good1_args _ _ _ Gt) as [d2 [Hd2 [_ [Hp2 Ha2]]]].
      apply (A_AppArgs w p c d args bargs Hd L1 L2). rewrite open_args_plain; auto.
      assert (G1 : forall a, In a args -> good1 w a = true) by (apply (forallb_good1 w args Hp1 Ha1)).
      assert (G2 : forall a, In a bargs -> good1 w a = true) by (apply (forallb_good1 w bargs Hp2 Ha2)).
      clear - IH HR G1 G2. generalize 0 as i. revert G1 G2.
      induction HR as [|prm ps a l1 b l2 H1 HR IHR]; intros G1 G2 i; constructor.
      + assert (Ga : good1 w a = true) by (apply G1; left; reflexivity).
        assert (Gb : good1 w b = true) by (apply G2; left; reflexivity).
        pose proof (plain_not_wild _ (proj1 (good1_split _ _ Gb))) as Wb.
        destruct H1 as [Hv He|Hv Hr|Hv Hr].
        * apply C_Inv; auto.
        * apply C_Cov; auto.
        * apply C_Contra; auto.
      + apply IHR; intros x Hx; [apply G1|apply G2]; right; exact Hx.
    - destruct (good1_args _ _ _ Gs) as [d1 [Hd1 [_ [Hp1 Ha1]]]].
      apply (A_AppUp w p c d args s0 t Hd L1 Hin). rewrite open_args_plain; auto.
      apply IH; auto. eapply good1_inst_super; eauto.
  Qed.

  (* ---------- SubA -> SubH ---------- *)
  Lemma SubA_SubE_mut :
    (forall p s t, SubA w p s t -> good1 w s = true -> good1 w t = true -> SubE s t) /\
    (forall p i ps l1 l2, ContA w p i ps l1 l2 ->
       (forall a, In a l1 -> good1 w a = true) -> (forall b, In b l2 -> good1 w b = true) ->
       ArgsRel SubE ps l1 l2) /\
    (forall q prm a b, Cont1 w q prm a b -> good1 w a = true -> good1 w b = true -> Arg1 SubE prm a b).
  Proof.
    apply SubA_mutind; intros;
      try match goal with
          | G : good1 w (TVar _ _ _) = true |- _ => unfold good1 in G; cbn in G; discriminate
          | G : good1 w (TCap _ _ _) = true |- _ => unfold good1 in G; cbn in G; discriminate
          | G : good1 w (TWild _ _) = true |- _ => unfold good1 in G; cbn in G; discriminate
          end.
    - apply E_Nothing.
    - apply E_Bot; auto.
    - exists 1. apply H_BRefl.
    - eapply E_BUp; eauto.
    - exists 1. apply H_CRefl.
    - eapply E_CUp; eauto. apply H2; auto. eapply good1_class_super; eauto.
    - destruct (good1_args _ _ _ H4) as [d1 [Hd1 [_ [Hp1 Ha1]]]].
      destruct (good1_args _ _ _ H5) as [d2 [Hd2 [_ [Hp2 Ha2]]]].
      rewrite open_args_plain in H3; auto.
      apply (E_Args c d args bargs H H0 H1).
      apply H3; [apply (forallb_good1 w args Hp1 Ha1)|apply (forallb_good1 w bargs Hp2 Ha2)].
    - destruct (good1_args _ _ _ H4) as [d1 [Hd1 [_ [Hp1 Ha1]]]].
      rewrite open_args_plain in H3; auto.
      apply (E_AUp c d args s t H H0 H1). apply H3; auto. eapply good1_inst_super; eauto.
    - constructor.
    - constructor.
      + apply H0; [apply H3|apply H4]; left; reflexivity.
      + apply H2; intros x Hx; [apply H3|apply H4]; right; exact Hx.
    - apply Arg_Inv; auto.
    - apply Arg_Cov; auto.
    - apply Arg_Contra; auto.
  Qed.

  Lemma SubA_SubE : forall p s t, SubA w p s t -> good1 w s = true -> good1 w t = true -> SubE s t.
  Proof. apply SubA_SubE_mut. Qed.

  Lemma SubE_SubA : forall s t, SubE s t -> good1 w s = true -> good1 w t = true -> forall p, SubA w p s t.
  Proof. intros s t [n Hn]. eapply SubH_SubA; eauto. Qed.
End H.

(* ---------- D1, D2 on the fragment ---------- *)
Lemma suba_refl_pf_lem : forall w p t,
  table_ok w = true -> plain_closed t = true -> arity_ok w t = true -> SubA w p t t.
Proof.
  intros w p t _ Pt At. apply suba_pyeq.
  - unfold good1. rewrite Pt, At. reflexivity.
  - unfold good1. rewrite Pt, At. reflexivity.
  - apply py_eqb_refl.
Qed.

Lemma suba_path_irrelevant_good : forall w p q s t,
  table_ok w = true -> good1 w s = true -> good1 w t = true -> SubA w p s t -> SubA w q s t.
Proof.
  intros w p q s t Hok Gs Gt H. apply (SubE_SubA w Hok s t); auto. eapply SubA_SubE; eauto.
Qed.

(* ====================================================================== *)
(* D3: transitivity on the boxed fragment                                 *)
(* ====================================================================== *)

(* ---------- lookups in mk_map under distinct parameter ids ---------- *)
Lemma lookup_app : forall m1 m2 t,
  lookup_sub (m1 ++ m2) t = match lookup_sub m1 t with Some r => Some r | None => lookup_sub m2 t end.
Proof.
  induction m1 as [|[k v] m1 IH]; intros m2 t; cbn; [reflexivity|].
  destruct (py_eqb k t); [reflexivity|apply IH].
Qed.

Lemma py_eqb_tvar_id : forall k t, is_tvar_term k = true -> py_eqb k t = true -> tvar_id k = tvar_id t.
Proof.
  intros k t Hk H. destruct k; try discriminate. destruct t; try discriminate.
  rewrite py_eqb_var in H. apply andb_prop in H. destruct H as [H _]. apply andb_prop in H.
  destruct H as [H _]. apply Nat.eqb_eq in H. exact H.
Qed.

Lemma lookup_none : forall m t, (forall k v, In (k, v) m -> py_eqb k t = false) -> lookup_sub m t = None.
Proof.
  induction m as [|[k v] m IH]; intros t H; cbn; [reflexivity|].
  rewrite (H k v (or_introl eq_refl)). apply IH. intros k' v' Hin. apply (H k' v'). right. exact Hin.
Qed.

Lemma lookup_rev : forall m t,
  forallb is_tvar_term (map fst m) = true -> nodup_nat (map tvar_id (map fst m)) = true ->
  lookup_sub (rev m) t = lookup_sub m t.
Proof.
  induction m as [|[k v] m IH]; intros t Ht Hn; [reflexivity|].
  cbn [rev]. rewrite lookup_app. cbn in Ht, Hn.
  apply andb_prop in Ht. destruct Ht as [Hk Ht]. apply andb_prop in Hn. destruct Hn as [Hn1 Hn2].
  rewrite (IH t Ht Hn2). cbn [lookup_sub]. destruct (py_eqb k t) eqn:E.
  - rewrite lookup_none; [reflexivity|].
    intros k' v' Hin. destruct (py_eqb k' t) eqn:E'; [|reflexivity]. exfalso.
    assert (Hk' : is_tvar_term k' = true).
    { apply (forallb_In _ _ _ _ Ht). apply in_map_iff. exists (k', v'). auto. }
    pose proof (py_eqb_tvar_id k t Hk E) as I1. pose proof (py_eqb_tvar_id k' t Hk' E') as I2.
    apply negb_true_iff in Hn1.
    assert (X : existsb (Nat.eqb (tvar_id k)) (map tvar_id (map fst m)) = true).
    { apply existsb_exists. exists (tvar_id k'). split.
      - apply in_map. apply in_map_iff. exists (k', v'). auto.
      - apply Nat.eqb_eq. congruence. }
    congruence.
  - destruct (lookup_sub m t); reflexivity.
Qed.

Lemma map_fst_combine : forall (ps xs : list ty), length xs = length ps -> map fst (combine ps xs) = ps.
Proof.
  induction ps as [|p ps IH]; intros [|x xs] H; cbn in *; try discriminate; auto.
  f_equal. apply IH. lia.
Qed.

Lemma lookup_mk_map_combine : forall ps xs t,
  forallb is_tvar_term ps = true -> nodup_nat (map tvar_id ps) = true -> length xs = length ps ->
  lookup_sub (mk_map ps xs) t = lookup_sub (combine ps xs) t.
Proof.
  intros ps xs t H1 H2 Hl. unfold mk_map. apply lookup_rev; rewrite map_fst_combine; auto.
Qed.

Lemma lookup_rel : forall R ps xs ys, ArgsRel R ps xs ys -> forall e, memb e ps = true ->
  exists prm a b, In prm ps /\ py_eqb prm e = true /\
    lookup_sub (combine ps xs) e = Some a /\ lookup_sub (combine ps ys) e = Some b /\
    Arg1 R prm a b /\ In a xs /\ In b ys.
Proof.
  intros R ps xs ys H. induction H as [|prm ps a l1 b l2 H1 H IH]; intros e Hm; [discriminate|].
  cbn [combine lookup_sub]. destruct (py_eqb prm e) eqn:E.
  - exists prm, a, b. cbn. auto 10.
  - cbn in Hm. rewrite py_eqb_sym, E in Hm. cbn in Hm.
    destruct (IH e Hm) as [prm' [a' [b' [I1 [I2 [I3 [I4 [I5 [I6 I7]]]]]]]]].
    exists prm', a', b'. cbn. auto 10.
Qed.

Lemma occurs_unfold : forall prm t,
  occurs prm t = py_eqb prm t ||
                 match t with
                 | TApp _ l => existsb (occurs prm) l
                 | TVar _ _ (Some b) => occurs prm b
                 | TWild _ (Some b) => occurs prm b
                 | _ => false
                 end.
Proof. intros prm t. destruct t; reflexivity. Qed.

Definition vpo_args (w : world) (f : nat) (prm : ty) (pos : bool) :=
  fix go (ps l : list ty) : bool :=
    match ps, l with
    | q :: ps', a :: l' =>
        (match tvar_variance q with
         | Cov => var_pos_ok w f prm pos a
         | Contra => var_pos_ok w f prm (negb pos) a
         | Inv => var_eqb (tvar_variance prm) Inv || negb (occurs prm a)
         end) && go ps' l'
    | _, _ => true
    end.

Lemma var_pos_ok_S : forall w f prm pos e,
  var_pos_ok w (S f) prm pos e =
  match e with
  | TVar _ _ _ =>
      if py_eqb e prm then
        match tvar_variance prm with
        | Inv => true
        | Cov => pos
        | Contra => negb pos
        end
      else true
  | TApp c l =>
      match find_class w c with
      | None => false
      | Some d => vpo_args w f prm pos (c_params d) l
      end
  | _ => true
  end.
Proof. intros. destruct e; reflexivity. Qed.

Section Trans.
  Variable w : world.
  Hypothesis Hok : table_ok w = true.

  Definition G (t : ty) : Prop := good1 w t = true /\ boxed t = true.

  Lemma G_args : forall c args, G (TApp c args) -> forall a, In a args -> G a.
  Proof.
    intros c args [H1 H2] a Ha. split; [eapply good1_arg; eauto|eapply boxed_arg; eauto].
  Qed.

  Lemma G_inst : forall c d args s, G (TApp c args) -> find_class w c = Some d -> In s (c_supers d) ->
    G (inst_super d args s).
  Proof.
    intros c d args s [H1 H2] Hd Hin. split.
    - eapply good1_inst_super; eauto.
    - apply (direct_supers_boxed w Hok (TApp c args)); auto. apply in_direct_supers_app; auto.
  Qed.

  Lemma G_class_super : forall c d s, G (TClass c) -> find_class w c = Some d -> In s (c_supers d) -> G s.
  Proof.
    intros c d s [H1 H2] Hd Hin. split.
    - eapply good1_class_super; eauto.
    - apply (direct_supers_boxed w Hok (TClass c)); auto. cbn [direct_supers]. rewrite Hd. exact Hin.
  Qed.

  Lemma G_builtin : forall b, G (TBuiltin b false).
  Proof. intros b. split; reflexivity. Qed.

  Lemma G_deq : forall a b, G a -> G b -> deq a b = true -> a = b.
  Proof.
    intros a b [Ga Ba] [Gb Bb] H. apply py_eqb_eq; auto. apply (good1_split _ _ Ga).
  Qed.

  (* derivations whose upper part consists of argument-containment steps only *)
  Inductive Dp (L : ty -> ty -> Prop) : ty -> ty -> Prop :=
  | Dp_refl x : Dp L x x
  | Dp_leaf x y : L x y -> Dp L x y
  | Dp_args c d xs ys :
      find_class w c = Some d -> length xs = length (c_params d) -> length ys = length (c_params d) ->
      ArgsRel (Dp L) (c_params d) xs ys -> Dp L (TApp c xs) (TApp c ys).

  Section Mono.
    Variable L : ty -> ty -> Prop.
    Variables (ps xs ys : list ty).
    Hypothesis Hps1 : forallb is_tvar_term ps = true.
    Hypothesis Hps2 : nodup_nat (map tvar_id ps) = true.
    Hypothesis HR : ArgsRel (Dp L) ps xs ys.
    Hypothesis Gx : forall a, In a xs -> G a.
    Hypothesis Gy : forall a, In a ys -> G a.

    Let sx := subst false (mk_map ps xs).
    Let sy := subst false (mk_map ps ys).

    Lemma subst_var_rel : forall x v ob, memb (TVar x v ob) ps = true ->
      exists prm a b, In prm ps /\ py_eqb prm (TVar x v ob) = true /\
        sx (TVar x v ob) = a /\ sy (TVar x v ob) = b /\ Arg1 (Dp L) prm a b /\ G a /\ G b.
    Proof.
      intros x v ob Hm. destruct (ArgsRel_length _ _ _ _ HR) as [L1 L2].
      destruct (lookup_rel _ _ _ _ HR _ Hm) as [prm [a [b [I1 [I2 [I3 [I4 [I5 [I6 I7]]]]]]]]].
      exists prm, a, b. repeat split; auto.
      - unfold sx. cbn [subst]. rewrite lookup_mk_map_combine, I3; auto.
      - unfold sy. cbn [subst]. rewrite lookup_mk_map_combine, I4; auto.
      - apply (Gx a I6).
      - apply (Gx a I6).
      - apply (Gy b I7).
      - apply (Gy b I7).
    Qed.

    (* parameters that are invariant or absent do not distinguish the two substitutions *)
    Lemma subst_agree : forall e, over_params ps e = true ->
      (forall prm, In prm ps -> tvar_variance prm = Inv \/ occurs prm e = false) -> sx e = sy e.
    Proof.
      apply (ty_ind' (fun e => over_params ps e = true ->
               (forall prm, In prm ps -> tvar_variance prm = Inv \/ occurs prm e = false) -> sx e = sy e));
        intros; try discriminate; try reflexivity.
      - unfold sx, sy. cbn [subst]. f_equal. cbn [over_params] in H0.
        induction H as [|a l Ha Hl IH]; [reflexivity|]. cbn [map].
        cbn in H0. apply andb_prop in H0. destruct H0 as [H01 H02].
        assert (Hocc : forall prm, In prm ps -> tvar_variance prm = Inv \/
                       (occurs prm a = false /\ occurs prm (TApp c l) = false)).
        { intros prm Hin. destruct (H1 prm Hin) as [Hi|Ho]; [left; exact Hi|right].
          rewrite occurs_unfold in Ho. apply orb_false_iff in Ho. destruct Ho as [Ho1 Ho2].
          cbn in Ho2. apply orb_false_iff in Ho2. destruct Ho2 as [Ho2 Ho3]. split; [exact Ho2|].
          rewrite occurs_unfold. rewrite Ho3.
          pose proof (forallb_In _ _ _ _ Hps1 Hin) as Htv.
          destruct prm; try discriminate Htv; reflexivity. }
        f_equal.
        + apply Ha; auto. intros prm Hin. destruct (Hocc prm Hin) as [Hi|[Ho _]]; auto.
        + apply IH; auto. intros prm Hin. destruct (Hocc prm Hin) as [Hi|[_ Ho]]; auto.
      - destruct (subst_var_rel x v None H) as [prm [a [b [I1 [I2 [I3 [I4 [I5 [I6 I7]]]]]]]]].
        rewrite I3, I4. destruct (H0 prm I1) as [Hi|Ho].
        + destruct I5 as [Hv He|Hv Hr|Hv Hr]; try congruence. apply G_deq; auto.
        + rewrite occurs_unfold, I2 in Ho. discriminate.
      - destruct (subst_var_rel x v (Some b) H0) as [prm [a [b' [I1 [I2 [I3 [I4 [I5 [I6 I7]]]]]]]]].
        rewrite I3, I4. destruct (H1 prm I1) as [Hi|Ho].
        + destruct I5 as [Hv He|Hv Hr|Hv Hr]; try congruence. apply G_deq; auto.
        + rewrite occurs_unfold, I2 in Ho. discriminate.
    Qed.

    Lemma mono_subst : forall fuel e pos, over_params ps e = true -> arity_ok w e = true ->
      (forall prm, In prm ps -> var_pos_ok w fuel prm pos e = true) ->
      if pos then Dp L (sx e) (sy e) else Dp L (sy e) (sx e).
    Proof.
      induction fuel as [|f IH]; intros e pos Ho Ha Hv.
      - destruct ps as [|prm0 ps'].
        + inversion HR; subst. destruct pos; apply Dp_refl.
        + specialize (Hv prm0 (or_introl eq_refl)). cbn in Hv. discriminate.
      - destruct e as [b pr|c|c l|c|x v ob|v ob| |i uu ll]; try discriminate.
        + destruct pos; apply Dp_refl.
        + destruct pos; apply Dp_refl.
        + cbn [arity_ok] in Ha. destruct (find_class w c) as [d|] eqn:Hd; [|discriminate].
          apply andb_prop in Ha. destruct Ha as [Ha Ha2]. apply andb_prop in Ha. destruct Ha as [Hl _].
          apply Nat.eqb_eq in Hl. cbn [over_params] in Ho.
          assert (Hv' : forall prm, In prm ps -> vpo_args w f prm pos (c_params d) l = true).
          { intros prm Hin. specialize (Hv prm Hin). rewrite var_pos_ok_S, Hd in Hv. exact Hv. }
          assert (HA : forall qs l, length l = length qs -> forallb (over_params ps) l = true ->
                       forallb (arity_ok w) l = true ->
                       (forall prm, In prm ps -> vpo_args w f prm pos qs l = true) ->
                       if pos then ArgsRel (Dp L) qs (map sx l) (map sy l)
                       else ArgsRel (Dp L) qs (map sy l) (map sx l)).
          { clear Hl Ho Ha2 Hv Hv'. clear l. induction qs as [|q qs IHq]; intros [|a l] Hlen Hov Har Hvp; try discriminate.
            - destruct pos; constructor.
            - cbn in Hov, Har, Hlen. apply andb_prop in Hov. destruct Hov as [Hov1 Hov2].
              apply andb_prop in Har. destruct Har as [Har1 Har2].
              assert (Hrest : if pos then ArgsRel (Dp L) qs (map sx l) (map sy l)
                              else ArgsRel (Dp L) qs (map sy l) (map sx l)).
              { apply IHq; auto. intros prm Hin. specialize (Hvp prm Hin). cbn in Hvp.
                apply andb_prop in Hvp. apply Hvp. }
              assert (Hhead : if pos then Arg1 (Dp L) q (sx a) (sy a) else Arg1 (Dp L) q (sy a) (sx a)).
              { destruct (tvar_variance q) eqn:Hq.
                - assert (E : sx a = sy a).
                  { apply subst_agree; auto. intros prm Hin. specialize (Hvp prm Hin). cbn in Hvp.
                    rewrite Hq in Hvp. apply andb_prop in Hvp. destruct Hvp as [Hvp _].
                    apply orb_prop in Hvp. destruct Hvp as [Hvp|Hvp].
                    - left. apply var_eqb_eq. exact Hvp.
                    - right. apply negb_true_iff. exact Hvp. }
                  rewrite E. destruct pos; apply Arg_Inv; auto; apply py_eqb_refl.
                - assert (X : if pos then Dp L (sx a) (sy a) else Dp L (sy a) (sx a)).
                  { apply IH; auto. intros prm Hin. specialize (Hvp prm Hin). cbn in Hvp.
                    rewrite Hq in Hvp. apply andb_prop in Hvp. apply Hvp. }
                  destruct pos; apply Arg_Cov; auto.
                - assert (X : if negb pos then Dp L (sx a) (sy a) else Dp L (sy a) (sx a)).
                  { apply IH; auto. intros prm Hin. specialize (Hvp prm Hin). cbn in Hvp.
                    rewrite Hq in Hvp. apply andb_prop in Hvp. apply Hvp. }
                  destruct pos; cbn in X; apply Arg_Contra; auto. }
              destruct pos; cbn [map]; constructor; auto. }
          specialize (HA (c_params d) l Hl Ho Ha2 Hv').
          unfold sx, sy in *. cbn [subst].
          destruct pos; eapply Dp_args; eauto; rewrite map_length; auto.
        + cbn [over_params] in Ho.
          destruct (subst_var_rel x v ob Ho) as [prm [a [b [I1 [I2 [I3 [I4 [I5 [I6 I7]]]]]]]]].
          rewrite I3, I4. specialize (Hv prm I1). rewrite var_pos_ok_S in Hv.
          rewrite py_eqb_sym, I2 in Hv.
          destruct I5 as [Hq He|Hq Hr|Hq Hr]; rewrite Hq in Hv.
          * rewrite (G_deq a b I6 I7 He). destruct pos; apply Dp_refl.
          * subst pos. exact Hr.
          * apply negb_true_iff in Hv. subst pos. exact Hr.
    Qed.
  End Mono.

  Lemma mono_inst : forall L c d xs ys s, find_class w c = Some d -> In s (c_supers d) ->
    ArgsRel (Dp L) (c_params d) xs ys -> (forall a, In a xs -> G a) -> (forall a, In a ys -> G a) ->
    Dp L (inst_super d xs s) (inst_super d ys s).
  Proof.
    intros L c d xs ys s Hd Hin HR Gx Gy.
    destruct (tok_params w Hok c d Hd) as [P1 P2].
    destruct (tok_super w Hok c d s Hd Hin) as [Ho [Ha [_ [Hv _]]]].
    apply (mono_subst L (c_params d) xs ys P1 P2 HR Gx Gy 20 s true Ho Ha).
    intros prm Hprm. apply (forallb_In _ _ _ _ Hv Hprm).
  Qed.

  (* ---------- narrowing along Dp ---------- *)
  Section Narrow.
    Variable L : ty -> ty -> Prop.

    Definition PrimalAt (m : nat) : Prop :=
      forall x y W, Dp L x y -> SubH w m y W -> G x -> G y -> G W -> SubE w x W.
    Definition DualAt (m : nat) : Prop :=
      forall x y W, Dp L x y -> SubH w m W x -> G x -> G y -> G W -> SubE w W y.

    Lemma args_primal : forall m, PrimalAt m -> DualAt m ->
      forall ps xs ys ws, ArgsRel (Dp L) ps xs ys -> ArgsRel (SubH w m) ps ys ws ->
      (forall a, In a xs -> G a) -> (forall a, In a ys -> G a) -> (forall a, In a ws -> G a) ->
      ArgsRel (SubE w) ps xs ws.
    Proof.
      intros m HP HD ps xs ys ws H1. revert ws.
      induction H1 as [|prm ps x xs y ys A1 H1 IH]; intros ws H2 Gx Gy Gw.
      - inversion H2; subst. constructor.
      - inversion H2 as [|prm' ps' y' ys' w0 ws' A2 H2']; subst.
        assert (Gx0 : G x) by (apply Gx; left; reflexivity).
        assert (Gy0 : G y) by (apply Gy; left; reflexivity).
        assert (Gw0 : G w0) by (apply Gw; left; reflexivity).
        constructor.
        + destruct A1 as [V1 E1|V1 R1|V1 R1]; destruct A2 as [V2 E2|V2 R2|V2 R2]; try congruence.
          * apply Arg_Inv; auto. rewrite (G_deq x y Gx0 Gy0 E1). exact E2.
          * apply Arg_Cov; auto. apply (HP x y w0); auto.
          * apply Arg_Contra; auto. apply (HD y x w0); auto.
        + apply IH; auto; intros a Ha; [apply Gx|apply Gy|apply Gw]; right; exact Ha.
    Qed.

    Lemma args_dual : forall m, PrimalAt m -> DualAt m ->
      forall ps xs ys ws, ArgsRel (Dp L) ps xs ys -> ArgsRel (SubH w m) ps ws xs ->
      (forall a, In a xs -> G a) -> (forall a, In a ys -> G a) -> (forall a, In a ws -> G a) ->
      ArgsRel (SubE w) ps ws ys.
    Proof.
      intros m HP HD ps xs ys ws H1. revert ws.
      induction H1 as [|prm ps x xs y ys A1 H1 IH]; intros ws H2 Gx Gy Gw.
      - inversion H2; subst. constructor.
      - inversion H2 as [|prm' ps' w0 ws' x' xs' A2 H2']; subst.
        assert (Gx0 : G x) by (apply Gx; left; reflexivity).
        assert (Gy0 : G y) by (apply Gy; left; reflexivity).
        assert (Gw0 : G w0) by (apply Gw; left; reflexivity).
        constructor.
        + destruct A1 as [V1 E1|V1 R1|V1 R1]; destruct A2 as [V2 E2|V2 R2|V2 R2]; try congruence.
          * apply Arg_Inv; auto. rewrite <- (G_deq x y Gx0 Gy0 E1). exact E2.
          * apply Arg_Cov; auto. apply (HD x y w0); auto.
          * apply Arg_Contra; auto. apply (HP y x w0); auto.
        + apply IH; auto; intros a Ha; [apply Gx|apply Gy|apply Gw]; right; exact Ha.
    Qed.

    Lemma narrow : forall m,
      (forall x y W m', m' <= m -> L x y -> SubH w m' y W -> G x -> G y -> G W -> SubE w x W) ->
      (forall x y W m', m' <= m -> L x y -> SubH w m' W x -> G x -> G y -> G W -> SubE w W y) ->
      PrimalAt m /\ DualAt m.
    Proof.
      induction m as [|m IH]; intros LP LD.
      - split; intros x y W _ H; inversion H.
      - destruct IH as [HP HD].
        { intros x y W m' Hm. apply LP. lia. }
        { intros x y W m' Hm. apply LD. lia. }
        split.
        + intros x y W HDp H Gx Gy GW. destruct HDp as [x|x y HL|c d xs ys Hd L1 L2 HR].
          * exists (S m). exact H.
          * apply (LP x y W (S m)); auto.
          * inversion H as [| | | | | |n0 c0 d0 args bargs Hd0 L1' L2' HR'
                           |n0 c0 d0 args s0 t0 Hd0 L1' Hin Hs]; subst;
              rewrite Hd in Hd0; injection Hd0 as <-.
            -- apply (E_Args w c d xs bargs Hd L1 L2').
               apply (args_primal m HP HD _ _ _ _ HR HR'); apply G_args with (c := c); auto.
            -- apply (E_AUp w c d xs s0 W Hd L1 Hin).
               apply (HP (inst_super d xs s0) (inst_super d ys s0) W); auto.
               ++ apply (mono_inst L c d xs ys s0 Hd Hin HR); apply G_args with (c := c); auto.
               ++ eapply G_inst; eauto.
               ++ eapply G_inst; eauto.
        + intros x y W HDp H Gx Gy GW. destruct HDp as [x|x y HL|c d xs ys Hd L1 L2 HR].
          * exists (S m). exact H.
          * apply (LD x y W (S m)); auto.
          * inversion H as [n0 t0|n0 b pr t0 Hbot|n0 b pr pr'|n0 b b' t0 Hin Hs|n0 c0
                           |n0 c0 d0 s0 t0 Hd0 Hin Hs|n0 c0 d0 args bargs Hd0 L1' L2' HR'
                           |n0 c0 d0 args s0 t0 Hd0 L1' Hin Hs]; subst.
            -- apply E_Nothing.
            -- apply E_Bot; auto.
            -- apply (E_BUp w b b' _ Hin).
               apply (HD (TApp c xs) (TApp c ys)); auto; try (eapply Dp_args; eauto); try apply G_builtin.
            -- apply (E_CUp w c0 d0 s0 _ Hd0 Hin).
               apply (HD (TApp c xs) (TApp c ys)); auto; try (eapply Dp_args; eauto);
                 try (eapply G_class_super; eauto).
            -- rewrite Hd in Hd0. injection Hd0 as <-.
               apply (E_Args w c d args ys Hd L1' L2).
               apply (args_dual m HP HD _ _ _ _ HR HR'); apply G_args with (c := c); auto.
            -- apply (E_AUp w c0 d0 args s0 _ Hd0 L1' Hin).
               apply (HD (TApp c xs) (TApp c ys)); auto; try (eapply Dp_args; eauto);
                 try (eapply G_inst; eauto).
    Qed.
  End Narrow.

  Lemma SubH_trans : forall N n1 n2 a b c, n1 + n2 <= N -> G a -> G b -> G c ->
    SubH w n1 a b -> SubH w n2 b c -> SubE w a c.
  Proof.
    induction N as [|N IH]; intros n1 n2 a b c Hn Ga Gb Gc H1 H2.
    - assert (n1 = 0) by lia. subst. inversion H1.
    - inversion H1 as [n0 t0|n0 b0 pr t0 Hbot|n0 b0 pr pr'|n0 b0 b' t0 Hin Hs|n0 c0
                      |n0 c0 d0 s0 t0 Hd0 Hin Hs|n0 c0 d0 args bargs Hd0 L1 L2 HR
                      |n0 c0 d0 args s0 t0 Hd0 L1 Hin Hs]; subst.
      + apply E_Nothing.
      + apply E_Bot; auto.
      + destruct Ga as [_ Ba]. destruct Gb as [_ Bb]. cbn in Ba, Bb.
        destruct pr; [discriminate|]. destruct pr'; [discriminate|]. exists n2. exact H2.
      + apply (E_BUp w b0 b' c Hin). apply (IH n0 n2 _ b c); auto; try lia; try apply G_builtin.
      + exists n2. exact H2.
      + apply (E_CUp w c0 d0 s0 c Hd0 Hin). apply (IH n0 n2 _ b c); auto; try lia.
        eapply G_class_super; eauto.
      + destruct (narrow (SubH w n0) n2) as [HP _].
        * intros x y W m' Hm HL HS Gx Gy GW. apply (IH n0 m' x y W); auto. lia.
        * intros x y W m' Hm HL HS Gx Gy GW. apply (IH m' n0 W x y); auto. lia.
        * apply (HP (TApp c0 args) (TApp c0 bargs) c); auto.
          eapply Dp_args; eauto. eapply ArgsRel_impl; [|exact HR]. intros x y Hxy. apply Dp_leaf. exact Hxy.
      + apply (E_AUp w c0 d0 args s0 c Hd0 L1 Hin). apply (IH n0 n2 _ b c); auto; try lia.
        eapply G_inst; eauto.
  Qed.
End Trans.

Lemma suba_trans_good : forall w p a b c, table_ok w = true ->
  good1 w a = true -> good1 w b = true -> good1 w c = true ->
  boxed a = true -> boxed b = true -> boxed c = true ->
  SubA w p a b -> SubA w p b c -> SubA w p a c.
Proof.
  intros w p a b c Hok Ga Gb Gc Ba Bb Bc H1 H2.
  destruct (SubA_SubE w Hok p a b H1 Ga Gb) as [n1 Hn1].
  destruct (SubA_SubE w Hok p b c H2 Gb Gc) as [n2 Hn2].
  apply (SubE_SubA w Hok a c); auto.
  apply (SubH_trans w Hok (n1 + n2) n1 n2 a b c); auto; split; auto.
Qed.

Lemma suba_trans_pf_lem : forall w p a b c,
  table_ok w = true -> plain_closed a = true -> plain_closed b = true -> plain_closed c = true ->
  arity_ok w a = true -> arity_ok w b = true -> arity_ok w c = true ->
  boxed a = true -> boxed b = true -> boxed c = true ->
  SubA w p a b -> SubA w p b c -> SubA w p a c.
Proof.
  intros w p a b c Hok Pa Pb Pc Aa Ab Ac Ba Bb Bc.
  apply suba_trans_good; auto; unfold good1.
  - rewrite Pa, Aa. reflexivity.
  - rewrite Pb, Ab. reflexivity.
  - rewrite Pc, Ac. reflexivity.
Qed.
