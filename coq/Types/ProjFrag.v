(* Types/ProjFrag.v -- the projection fragment of C06: closed types whose type arguments are
   closed types or bounded use-site projections (at any depth), the table condition under
   which textual substitution of projections into declared supertypes (what
   TypeConstructor.new does) agrees with capture conversion, and the relation between a type
   and its captured forms.  Definitions only. *)
From Coq Require Import List Arith Bool.
Import ListNotations.
From Heph Require Import Types.Syntax Types.Subst Types.Subtype Types.Decl Types.TableOk.

(* shape: no type variables, bare constructors, star projections, captured types; a
   projection occurs only as a type argument, is `out`/`in`, and its bound is a proper
   (non-projection) type of the same shape.  Primitive built-ins and Nothing are allowed. *)
Fixpoint proj_closed (t : ty) : bool :=
  match t with
  | TBuiltin _ _ | TClass _ | TNothing => true
  | TApp _ l =>
      forallb (fun a => match a with
                        | TWild Cov (Some b) | TWild Contra (Some b) => negb (is_wild b) && proj_closed b
                        | TWild _ _ => false
                        | _ => proj_closed a
                        end) l
  | _ => false
  end.

(* projection variance v is admissible at a type variable of declared variance (of) prm *)
Definition compat (prm : ty) (v : variance) : bool :=
  var_eqb (tvar_variance prm) Inv || var_eqb (tvar_variance prm) v.

Definition arg_ok (fr : ty -> bool) (prm a : ty) : bool :=
  match a with
  | TWild Cov (Some b) => compat prm Cov && fr b
  | TWild Contra (Some b) => compat prm Contra && fr b
  | TWild _ _ => false
  | _ => fr a
  end.

Definition args_ok (fr : ty -> bool) : list ty -> list ty -> bool :=
  fix go (ps l : list ty) {struct l} : bool :=
    match l, ps with
    | a :: l', prm :: ps' => arg_ok fr prm a && go ps' l'
    | _, _ => true
    end.

Section W.
  Context (w : world).

  (* the fragment with the table: shape + arities + projections never in conflict with the
     declared variance.  Fuel-free counterpart of proj_closed && wf_ty (see ProjSound.v). *)
  Fixpoint frag (t : ty) : bool :=
    match t with
    | TBuiltin _ _ | TNothing => true
    | TClass c => match find_class w c with Some d => Nat.eqb (length (c_params d)) 0 | None => false end
    | TApp c l =>
        match find_class w c with
        | None => false
        | Some d =>
            Nat.eqb (length l) (length (c_params d)) &&
            (fix go (ps l : list ty) {struct l} : bool :=
               match l, ps with
               | a :: l', prm :: ps' =>
                   (match a with
                    | TWild Cov (Some b) => compat prm Cov && frag b
                    | TWild Contra (Some b) => compat prm Contra && frag b
                    | TWild _ _ => false
                    | _ => frag a
                    end) && go ps' l'
               | _, _ => true
               end) (c_params d) l
        end
    | _ => false
    end.

  (* one argument of a declared supertype of a class with type variables ps, sitting at a
     type variable q of the supertype's class: either one of ps itself, with the SAME declared
     variance as q, or a closed type *)
  Definition direct_arg (ps : list ty) (q a : ty) : bool :=
    if is_tvar_term a then memb a ps && var_eqb (tvar_variance a) (tvar_variance q)
    else plain_closed a.

  Definition super_direct (ps : list ty) (s : ty) : bool :=
    match s with
    | TApp e es =>
        match find_class w e with
        | Some de => forallb (fun qa => direct_arg ps (fst qa) (snd qa)) (combine (c_params de) es)
        | None => false
        end
    | _ => true
    end.

  (* every declared supertype mentions the class's type variables only as direct type
     arguments, at positions of the same declared variance *)
  Definition params_direct : bool :=
    forallb (fun cd => forallb (super_direct (c_params (snd cd))) (c_supers (snd cd))) (w_ct w).

  (* a' is a captured form of argument a (sitting at type variable prm): a itself when it is
     a proper type, otherwise an abstract type with the projection's bound (any identity) *)
  Inductive capt1 : ty -> ty -> ty -> Prop :=
  | K_plain prm a : frag a = true -> capt1 prm a a
  | K_out prm u i : compat prm Cov = true -> frag u = true ->
      capt1 prm (TWild Cov (Some u)) (TCap i (Some u) None)
  | K_in prm l i : compat prm Contra = true -> frag l = true ->
      capt1 prm (TWild Contra (Some l)) (TCap i None (Some l)).

  Inductive captl : list ty -> list ty -> list ty -> Prop :=
  | KL_nil : captl [] [] []
  | KL_cons prm ps a l a' l' : capt1 prm a a' -> captl ps l l' -> captl (prm :: ps) (a :: l) (a' :: l').

  Definition Capt (s s' : ty) : Prop :=
    match s with
    | TApp c l => exists d l', find_class w c = Some d /\ s' = TApp c l' /\ captl (c_params d) l l'
    | _ => s' = s
    end.
End W.
