(* Types/UnifyDefs.v -- auxiliary notions used by the statements of Types/Properties_C10.v
   (hypotheses of the partial theorems, the weak matching relation, supertype chains).
   Definitions only. *)
From Coq Require Import List Arith Bool.
Import ListNotations.
From Heph Require Import Types.Syntax Types.Subst Types.Subtype Types.Unify Types.UnifySpec.

(* every bounded type variable occurring in the pattern (outside bounds) has a variable-free
   bound: the "unify the argument with the bound of the variable" branch of unify_types is
   then never productive *)
Fixpoint closed_bounds (t : ty) : bool :=
  match t with
  | TVar _ _ (Some b) => negb (has_tv b)
  | TApp _ l => forallb closed_bounds l
  | TWild _ (Some b) => closed_bounds b
  | _ => true
  end.

(* every application carries as many arguments as its class declares parameters
   (ParameterizedType.__init__ asserts this; the term language does not) *)
Fixpoint arity_ok (w : world) (t : ty) : bool :=
  match t with
  | TApp c l =>
      match find_class w c with
      | Some d => Nat.eqb (length l) (length (c_params d))
      | None => false
      end && forallb (arity_ok w) l
  | TVar _ _ (Some b) => arity_ok w b
  | TWild _ (Some b) => arity_ok w b
  | _ => true
  end.

(* MatchesG ob: the relation Matches of Types/UnifySpec.v with the bounded-variable rule
   made optional (ob = false: absent) and, when present (ob = true), WITHOUT the premise
   that the variable is left open by the assignment.
     MatchesG false  implies  Matches          (lemma matchesG_strict)
     MatchesW = MatchesG true: "the pattern instantiated by m is the target, where at a
     bounded variable the target's component is the assigned type OR an instance of the
     variable's bound" *)
Inductive MatchesG (ob : bool) (m : tvmap) : ty -> ty -> Prop :=
| G_Closed p t : has_tv p = false -> py_eqb t p = true -> MatchesG ob m p t
| G_Assigned p t v : is_tvar p = true -> tv_get m p = Some (Some v) -> py_eqb v t = true -> MatchesG ob m p t
| G_Bounded x v b t : ob = true -> MatchesG ob m b t -> MatchesG ob m (TVar x v (Some b)) t
| G_App c ps ts : MatchArgsG ob m ps ts -> MatchesG ob m (TApp c ps) (TApp c ts)
with MatchArgsG (ob : bool) (m : tvmap) : list ty -> list ty -> Prop :=
| GA_Nil : MatchArgsG ob m [] []
| GA_Cons p t ps ts : MatchArgG ob m p t -> MatchArgsG ob m ps ts -> MatchArgsG ob m (p :: ps) (t :: ts)
with MatchArgG (ob : bool) (m : tvmap) : ty -> ty -> Prop :=
| GG_Star v v' : MatchArgG ob m (TWild v None) (TWild v' None)
| GG_Proj v p t : MatchesG ob m p t -> MatchArgG ob m (TWild v (Some p)) (TWild v (Some t))
| GG_Plain p t : is_wild p = false -> MatchesG ob m p t -> MatchArgG ob m p t.

Definition MatchesW : tvmap -> ty -> ty -> Prop := MatchesG true.

(* s is obtained from t by repeatedly taking the LAST direct supertype *)
Inductive last_super_chain (w : world) : ty -> ty -> Prop :=
| LS_refl t : last_super_chain w t t
| LS_step t s' rest s : rev (direct_supers w t) = s' :: rest -> last_super_chain w s' s ->
                        last_super_chain w t s.

(* m' agrees with m on everything m assigns (values up to Python equality) *)
Definition extends (m m' : tvmap) : Prop :=
  forall k v, tv_get m k = Some (Some v) ->
              exists v', tv_get m' k = Some (Some v') /\ py_eqb v v' = true.
