(* Types/PFBase.v -- basic facts for the projection-free fragment: induction on type terms,
   Python equality, substitution by closed arguments, consequences of table_ok, the
   direct-supertype step and its reflexive-transitive closure. *)
From Coq Require Import List Arith Bool Lia.
Import ListNotations.
From Heph Require Import Types.Syntax Types.Subst Types.Subtype Types.Decl Types.TableOk.

(* ---------- structural induction on ty with nested lists ---------- *)
Section TyInd.
  Variable P : ty -> Prop.
  Hypothesis HB : forall b pr, P (TBuiltin b pr).
  Hypothesis HC : forall c, P (TClass c).
  Hypothesis HA : forall c l, Forall P l -> P (TApp c l).
  Hypothesis HCon : forall c, P (TCon c).
  Hypothesis HV0 : forall x v, P (TVar x v None).
  Hypothesis HV1 : forall x v b, P b -> P (TVar x v (Some b)).
  Hypothesis HW0 : forall v, P (TWild v None).
  Hypothesis HW1 : forall v b, P b -> P (TWild v (Some b)).
  Hypothesis HN : P TNothing.
  Hypothesis HCap : forall i u l,
      (forall b, u = Some b -> P b) -> (forall b, l = Some b -> P b) -> P (TCap i u l).

  Lemma ty_ind' : forall t, P t.
  Proof.
    fix IH 1. intros t. destruct t as [b pr|c|c l|c|x v ob|v ob| |i u l].
    - apply HB.
    - apply HC.
    - apply HA. induction l as [|a l IHl]; constructor; [apply IH | exact IHl].
    - apply HCon.
    - destruct ob as [b|]; [apply HV1; apply IH | apply HV0].
    - destruct ob as [b|]; [apply HW1; apply IH | apply HW0].
    - apply HN.
    - apply HCap.
      + destruct u as [x|]; intros b E; [injection E as <-; apply IH | discriminate].
      + destruct l as [x|]; intros b E; [injection E as <-; apply IH | discriminate].
  Qed.
End TyInd.

(* ---------- Python equality ---------- *)
Definition py_eqb_list : list ty -> list ty -> bool :=
  fix leq (l1 l2 : list ty) : bool :=
    match l1, l2 with
    | [], [] => true
    | x :: t, y :: u => py_eqb x y && leq t u
    | _, _ => false
    end.

Definition py_eqb_opt (o1 o2 : option ty) : bool :=
  match o1, o2 with
  | None, None => true
  | Some x, Some y => py_eqb x y
  | _, _ => false
  end.

Definition ids_eqb : list nat -> list nat -> bool :=
  fix ieq (a b : list nat) : bool :=
    match a, b with
    | [], [] => true
    | x :: a', y :: b' => Nat.eqb x y && ieq a' b'
    | _, _ => false
    end.

Lemma py_eqb_app : forall c l d m, py_eqb (TApp c l) (TApp d m) = Nat.eqb c d && py_eqb_list l m.
Proof. reflexivity. Qed.
Lemma py_eqb_var : forall x v o y u p,
  py_eqb (TVar x v o) (TVar y u p) = Nat.eqb x y && var_eqb v u && py_eqb_opt o p.
Proof. reflexivity. Qed.
Lemma py_eqb_wild : forall v o u p, py_eqb (TWild v o) (TWild u p) = var_eqb v u && py_eqb_opt o p.
Proof. reflexivity. Qed.
Lemma py_eqb_cap : forall i u l j u' l',
  py_eqb (TCap i u l) (TCap j u' l') = ids_eqb i j && py_eqb_opt u u' && py_eqb_opt l l'.
Proof. reflexivity. Qed.

Lemma var_eqb_refl : forall v, var_eqb v v = true.
Proof. intros []; reflexivity. Qed.
Lemma var_eqb_sym : forall a b, var_eqb a b = var_eqb b a.
Proof. intros [] []; reflexivity. Qed.
Lemma var_eqb_eq : forall a b, var_eqb a b = true -> a = b.
Proof. intros [] []; cbn; intros H; auto; discriminate. Qed.

Lemma ids_eqb_refl : forall i, ids_eqb i i = true.
Proof. induction i as [|x i IH]; cbn; [reflexivity|]. rewrite Nat.eqb_refl. exact IH. Qed.
Lemma ids_eqb_sym : forall i j, ids_eqb i j = ids_eqb j i.
Proof.
  induction i as [|x i IH]; intros [|y j]; cbn; try reflexivity.
  rewrite (Nat.eqb_sym x y), IH. reflexivity.
Qed.

Lemma py_eqb_refl : forall t, py_eqb t t = true.
Proof.
  apply ty_ind'; intros.
  - cbn. apply Nat.eqb_refl.
  - cbn. apply Nat.eqb_refl.
  - rewrite py_eqb_app, Nat.eqb_refl. cbn [andb].
    induction H as [|a l Ha Hl IH]; cbn; [reflexivity|]. rewrite Ha. exact IH.
  - cbn. apply Nat.eqb_refl.
  - rewrite py_eqb_var, Nat.eqb_refl, var_eqb_refl. reflexivity.
  - rewrite py_eqb_var, Nat.eqb_refl, var_eqb_refl. cbn. exact H.
  - rewrite py_eqb_wild, var_eqb_refl. reflexivity.
  - rewrite py_eqb_wild, var_eqb_refl. cbn. exact H.
  - reflexivity.
  - rewrite py_eqb_cap, ids_eqb_refl. cbn [andb].
    assert (Hu : py_eqb_opt u u = true) by (destruct u; cbn; auto).
    assert (Hl : py_eqb_opt l l = true) by (destruct l; cbn; auto).
    rewrite Hu, Hl. reflexivity.
Qed.

Lemma py_eqb_sym : forall a b, py_eqb a b = py_eqb b a.
Proof.
  apply (ty_ind' (fun a => forall b, py_eqb a b = py_eqb b a)); intros.
  - destruct b0; cbn; try reflexivity. apply Nat.eqb_sym.
  - destruct b; cbn; try reflexivity. apply Nat.eqb_sym.
  - destruct b as [| |d m| | | | |]; try reflexivity.
    rewrite !py_eqb_app, (Nat.eqb_sym c d). f_equal.
    revert m. induction H as [|a l Ha Hl IH]; intros [|y m]; cbn; try reflexivity.
    rewrite Ha, IH. reflexivity.
  - destruct b; cbn; try reflexivity. apply Nat.eqb_sym.
  - destruct b as [| | | |y u p| | |]; try reflexivity.
    rewrite !py_eqb_var, (Nat.eqb_sym x y), (var_eqb_sym v u). destruct p; reflexivity.
  - destruct b0 as [| | | |y u p| | |]; try reflexivity.
    rewrite !py_eqb_var, (Nat.eqb_sym x y), (var_eqb_sym v u). destruct p; cbn; [rewrite H|]; reflexivity.
  - destruct b as [| | | | |u p| |]; try reflexivity.
    rewrite !py_eqb_wild, (var_eqb_sym v u). destruct p; reflexivity.
  - destruct b0 as [| | | | |u p| |]; try reflexivity.
    rewrite !py_eqb_wild, (var_eqb_sym v u). destruct p; cbn; [rewrite H|]; reflexivity.
  - destruct b; reflexivity.
  - destruct b as [| | | | | | |j u' l']; try reflexivity.
    rewrite !py_eqb_cap, (ids_eqb_sym i j).
    assert (Hu : py_eqb_opt u u' = py_eqb_opt u' u).
    { destruct u, u'; cbn; auto. }
    assert (Hl : py_eqb_opt l l' = py_eqb_opt l' l).
    { destruct l, l'; cbn; auto. }
    rewrite Hu, Hl. reflexivity.
Qed.

(* head of a class type, for the acyclicity measure *)
Definition rank (t : ty) : nat :=
  match t with TClass c | TApp c _ => S c | _ => 0 end.

Lemma py_eqb_rank : forall a b, py_eqb a b = true -> rank a = rank b.
Proof.
  intros a b H. destruct a, b; try discriminate; cbn; auto.
  - cbn in H. apply Nat.eqb_eq in H. congruence.
  - rewrite py_eqb_app in H. apply andb_prop in H. destruct H as [H _]. apply Nat.eqb_eq in H. congruence.
Qed.

(* on boxed plain closed types == is syntactic equality *)
Lemma py_eqb_eq : forall a b,
  plain_closed a = true -> boxed a = true -> boxed b = true -> py_eqb a b = true -> a = b.
Proof.
  apply (ty_ind' (fun a => forall b, plain_closed a = true -> boxed a = true -> boxed b = true ->
                                     py_eqb a b = true -> a = b)); intros; try discriminate.
  - destruct b0; try discriminate. cbn in *. apply Nat.eqb_eq in H2.
    destruct pr, prim; try discriminate. congruence.
  - destruct b; try discriminate. cbn in *. apply Nat.eqb_eq in H2. congruence.
  - destruct b as [| |d m| | | | |]; try discriminate.
    rewrite py_eqb_app in H3. apply andb_prop in H3. destruct H3 as [Hc Hl].
    apply Nat.eqb_eq in Hc. subst d. f_equal.
    cbn [plain_closed boxed] in H0, H1, H2.
    revert m H0 H1 H2 Hl. induction H as [|a l Ha Hl' IH]; intros [|y m] P1 B1 B2 Hl; cbn in *;
      try discriminate; auto.
    apply andb_prop in P1. apply andb_prop in B1. apply andb_prop in B2. apply andb_prop in Hl.
    destruct P1, B1, B2, Hl. f_equal; auto.
  - destruct b; try discriminate. reflexivity.
Qed.

Lemma memb_ex : forall t l, memb t l = true -> exists k, In k l /\ py_eqb t k = true.
Proof. intros t l H. apply existsb_exists in H. exact H. Qed.

Lemma memb_in : forall t l, In t l -> memb t l = true.
Proof. intros t l H. apply existsb_exists. exists t. split; auto. apply py_eqb_refl. Qed.

Lemma memb_app_l : forall t l1 l2, memb t l1 = true -> memb t (l1 ++ l2) = true.
Proof. intros. unfold memb in *. rewrite existsb_app, H. reflexivity. Qed.

Lemma memb_app_r : forall t l1 l2, memb t l2 = true -> memb t (l1 ++ l2) = true.
Proof. intros. unfold memb in *. rewrite existsb_app, H. apply orb_true_r. Qed.

(* ---------- substitution by plain closed arguments ---------- *)
Lemma lookup_in : forall m t r, lookup_sub m t = Some r -> In r (map snd m).
Proof.
  induction m as [|[k v] m IH]; cbn; intros t r H; [discriminate|].
  destruct (py_eqb k t).
  - injection H as <-. auto.
  - right. eapply IH; eauto.
Qed.

Lemma lookup_ex : forall m t k v, In (k, v) m -> py_eqb k t = true -> exists r, lookup_sub m t = Some r.
Proof.
  induction m as [|[k' v'] m IH]; cbn; intros t k v Hin He; [contradiction|].
  destruct (py_eqb k' t) eqn:E; [eauto|].
  destruct Hin as [Hin|Hin]; [injection Hin as -> ->; congruence|]. eapply IH; eauto.
Qed.

Lemma in_combine_ex : forall (ks vs : list ty) k, length ks = length vs -> In k ks ->
  exists v, In (k, v) (combine ks vs).
Proof.
  induction ks as [|k0 ks IH]; intros [|v0 vs] k Hl Hin; cbn in *; try contradiction; try discriminate.
  destruct Hin as [->|Hin]; [eauto|]. destruct (IH vs k) as [v Hv]; auto. eauto.
Qed.

Lemma lookup_mk_map : forall ps args t, memb t ps = true -> length ps = length args ->
  exists r, lookup_sub (mk_map ps args) t = Some r /\ In r args.
Proof.
  intros ps args t Hm Hl. apply memb_ex in Hm. destruct Hm as [k [Hin He]].
  destruct (in_combine_ex ps args k Hl Hin) as [v Hv].
  destruct (lookup_ex (mk_map ps args) t k v) as [r Hr].
  - unfold mk_map. apply -> in_rev. exact Hv.
  - rewrite py_eqb_sym. exact He.
  - exists r. split; [exact Hr|].
    apply lookup_in in Hr. unfold mk_map in Hr. rewrite map_rev in Hr. apply in_rev in Hr.
    apply in_map_iff in Hr. destruct Hr as [[k' v'] [E Hin']]. cbn in E. subst v'.
    apply in_combine_r in Hin'. exact Hin'.
Qed.

Lemma plain_closed_no_tv : forall t, plain_closed t = true -> has_tv t = false.
Proof.
  apply (ty_ind' (fun t => plain_closed t = true -> has_tv t = false)); intros; try discriminate; try reflexivity.
  cbn in *. induction H as [|a l Ha Hl IH]; cbn in *; [reflexivity|].
  apply andb_prop in H0. destruct H0 as [H1 H2]. rewrite (Ha H1), (IH H2). reflexivity.
Qed.

Lemma forallb_In : forall (A : Type) (f : A -> bool) l x, forallb f l = true -> In x l -> f x = true.
Proof. intros A f l x H Hin. rewrite forallb_forall in H. auto. Qed.

Section SubstPF.
  Variable w : world.
  Variables (ps args : list ty).
  Hypothesis Hlen : length ps = length args.
  Hypothesis Hpc : forallb plain_closed args = true.

  Lemma subst_var_pf : forall b x v ob, memb (TVar x v ob) ps = true ->
    exists r, subst b (mk_map ps args) (TVar x v ob) = r /\ In r args.
  Proof.
    intros b x v ob Hm. destruct (lookup_mk_map ps args _ Hm Hlen) as [r [Hr Hin]].
    exists r. split; [|exact Hin]. cbn [subst]. rewrite Hr.
    rewrite (plain_closed_no_tv r (forallb_In _ _ _ _ Hpc Hin)). rewrite andb_false_r. reflexivity.
  Qed.

  Lemma subst_plain_closed : forall b e, over_params ps e = true ->
    plain_closed (subst b (mk_map ps args) e) = true.
  Proof.
    intros b. apply (ty_ind' (fun e => over_params ps e = true ->
                                       plain_closed (subst b (mk_map ps args) e) = true));
      intros; try discriminate; try reflexivity.
    - cbn [subst plain_closed]. cbn [over_params] in H0.
      induction H as [|a l Ha Hl IH]; cbn in *; [reflexivity|].
      apply andb_prop in H0. destruct H0 as [H1 H2]. rewrite (Ha H1), (IH H2). reflexivity.
    - destruct (subst_var_pf b x v None H) as [r [-> Hin]]. apply (forallb_In _ _ _ _ Hpc Hin).
    - destruct (subst_var_pf b x v (Some b0) H0) as [r [-> Hin]]. apply (forallb_In _ _ _ _ Hpc Hin).
  Qed.

  Lemma subst_cond_irrel : forall e, over_params ps e = true ->
    subst true (mk_map ps args) e = subst false (mk_map ps args) e.
  Proof.
    apply (ty_ind' (fun e => over_params ps e = true ->
                             subst true (mk_map ps args) e = subst false (mk_map ps args) e));
      intros; try discriminate; try reflexivity.
    - cbn [subst]. f_equal. cbn [over_params] in H0.
      induction H as [|a l Ha Hl IH]; cbn in *; [reflexivity|].
      apply andb_prop in H0. destruct H0 as [H1 H2]. rewrite (Ha H1), (IH H2). reflexivity.
    - destruct (lookup_mk_map ps args _ H Hlen) as [r [Hr Hin]]. cbn [subst]. rewrite Hr.
      rewrite (plain_closed_no_tv r (forallb_In _ _ _ _ Hpc Hin)). reflexivity.
    - destruct (lookup_mk_map ps args _ H0 Hlen) as [r [Hr Hin]]. cbn [subst]. rewrite Hr.
      rewrite (plain_closed_no_tv r (forallb_In _ _ _ _ Hpc Hin)). reflexivity.
  Qed.

  Lemma subst_arity_ok : forall b e, over_params ps e = true -> forallb (arity_ok w) args = true ->
    arity_ok w e = true -> arity_ok w (subst b (mk_map ps args) e) = true.
  Proof.
    intros b e Ho Ha. revert e Ho.
    apply (ty_ind' (fun e => over_params ps e = true -> arity_ok w e = true ->
                             arity_ok w (subst b (mk_map ps args) e) = true));
      intros; try discriminate; try reflexivity; try assumption.
    - cbn [subst arity_ok] in *. destruct (find_class w c) as [d|]; [|discriminate].
      rewrite map_length.
      apply andb_prop in H1. destruct H1 as [H1 H3]. rewrite H1. cbn [andb].
      clear H1. induction H as [|a l Hx Hl IH]; cbn in *; [reflexivity|].
      apply andb_prop in H0. destruct H0 as [H01 H02].
      apply andb_prop in H3. destruct H3 as [H31 H32].
      rewrite (Hx H01 H31), (IH H02 H32). reflexivity.
    - destruct (subst_var_pf b x v None H) as [r [-> Hin]]. apply (forallb_In _ _ _ _ Ha Hin).
    - destruct (subst_var_pf b x v (Some b0) H0) as [r [-> Hin]]. apply (forallb_In _ _ _ _ Ha Hin).
  Qed.

  Lemma subst_boxed : forall b e, over_params ps e = true -> forallb boxed args = true ->
    boxed e = true -> boxed (subst b (mk_map ps args) e) = true.
  Proof.
    intros b e Ho Ha. revert e Ho.
    apply (ty_ind' (fun e => over_params ps e = true -> boxed e = true ->
                             boxed (subst b (mk_map ps args) e) = true));
      intros; try discriminate; try reflexivity; try assumption.
    - cbn [subst boxed over_params] in *.
      induction H as [|a l Hx Hl IH]; cbn in *; [reflexivity|].
      apply andb_prop in H0. destruct H0 as [H01 H02].
      apply andb_prop in H1. destruct H1 as [H11 H12].
      rewrite (Hx H01 H11), (IH H02 H12). reflexivity.
    - destruct (subst_var_pf b x v None H) as [r [-> Hin]]. apply (forallb_In _ _ _ _ Ha Hin).
    - destruct (subst_var_pf b x v (Some b0) H0) as [r [-> Hin]]. apply (forallb_In _ _ _ _ Ha Hin).
  Qed.

  Lemma subst_rank : forall b e, is_tvar_term e = false -> rank (subst b (mk_map ps args) e) = rank e.
  Proof. intros b e H. destruct e; try reflexivity; try discriminate. destruct bound; reflexivity. Qed.

  Lemma subst_nonapp : forall b e, over_params ps e = true -> is_tvar_term e = false -> is_app e = false ->
    subst b (mk_map ps args) e = e.
  Proof. intros b e H1 H2 H3. destruct e; try reflexivity; try discriminate. Qed.
End SubstPF.

Lemma open_args_plain : forall p args i, forallb plain_closed args = true -> open_args p i args = args.
Proof.
  intros p args. induction args as [|a args IH]; intros i H; cbn in *; [reflexivity|].
  apply andb_prop in H. destruct H as [H1 H2]. rewrite (IH _ H2). f_equal.
  destruct a; try reflexivity; discriminate.
Qed.

(* ---------- consequences of table_ok ---------- *)
Lemma find_nat_in : forall A (l : list (nat * A)) k a, find_nat l k = Some a -> In (k, a) l.
Proof.
  induction l as [|[k' a'] l IH]; cbn; intros k a H; [discriminate|].
  destruct (Nat.eqb k' k) eqn:E.
  - apply Nat.eqb_eq in E. injection H as <-. subst. auto.
  - right. auto.
Qed.

Section Table.
  Variable w : world.
  Hypothesis Hok : table_ok w = true.

  Lemma tok_parts :
    forallb (fun cd => class_ok w (fst cd) (snd cd)) (w_ct w) = true /\
    forallb (fun bb => builtin_ok w (fst bb) (snd bb)) (w_bt w) = true /\
    supers_not_var w = true /\ no_bottom_supers w = true /\ boxed_table w = true.
  Proof.
    pose proof Hok as H0. unfold table_ok in H0.
    repeat (apply andb_prop in H0; let H := fresh "H" in destruct H0 as [H0 H]).
    repeat split; assumption.
  Qed.

  Lemma tok_class_ok : forall c d, find_class w c = Some d -> class_ok w c d = true.
  Proof.
    intros c d H. apply find_nat_in in H. destruct tok_parts as [H1 _].
    apply (forallb_In _ _ _ _ H1 H).
  Qed.

  Lemma tok_super : forall c d s, find_class w c = Some d -> In s (c_supers d) ->
    over_params (c_params d) s = true /\ arity_ok w s = true /\
    forallb (fun k => k <? c) (class_ids s) = true /\
    forallb (fun p => var_pos_ok w 20 p true s) (c_params d) = true /\
    is_tvar_term s = false /\ boxed s = true.
  Proof.
    intros c d s Hd Hin. pose proof (tok_class_ok c d Hd) as Hc. unfold class_ok in Hc.
    apply andb_prop in Hc. destruct Hc as [_ Hc].
    pose proof (forallb_In _ _ _ _ Hc Hin) as Hs. cbn beta in Hs.
    apply andb_prop in Hs. destruct Hs as [Hs H4].
    apply andb_prop in Hs. destruct Hs as [Hs H3].
    apply andb_prop in Hs. destruct Hs as [H1 H2].
    destruct tok_parts as [_ [_ [Hnv [_ Hbx]]]].
    apply find_nat_in in Hd.
    pose proof (forallb_In _ _ _ _ Hnv Hd) as Hnv'. cbn in Hnv'.
    pose proof (forallb_In _ _ _ _ Hnv' Hin) as Hnv''. apply negb_true_iff in Hnv''.
    pose proof (forallb_In _ _ _ _ Hbx Hd) as Hbx'. cbn in Hbx'.
    apply andb_prop in Hbx'. destruct Hbx' as [Hbx' _].
    pose proof (forallb_In _ _ _ _ Hbx' Hin) as Hbx''.
    repeat split; assumption.
  Qed.

  Lemma tok_params : forall c d, find_class w c = Some d ->
    forallb is_tvar_term (c_params d) = true /\ nodup_nat (map tvar_id (c_params d)) = true.
  Proof.
    intros c d Hd. pose proof (tok_class_ok c d Hd) as Hc. unfold class_ok in Hc.
    apply andb_prop in Hc. destruct Hc as [Hc _].
    apply andb_prop in Hc. destruct Hc as [Hc _].
    apply andb_prop in Hc. destruct Hc as [H1 H2]. split; assumption.
  Qed.

  Lemma tok_no_bottom_super : forall b bi b', find_builtin w b = Some bi -> In b' (b_supers bi) ->
    is_bottom_builtin w b' = false.
  Proof.
    intros b bi b' Hb Hin. destruct tok_parts as [_ [_ [_ [Hnb _]]]].
    apply find_nat_in in Hb. pose proof (forallb_In _ _ _ _ Hnb Hb) as H. cbn in H.
    pose proof (forallb_In _ _ _ _ H Hin) as H'. apply negb_true_iff in H'. exact H'.
  Qed.
End Table.

(* ---------- the fragment and the direct-supertype step ---------- *)
Definition good1 (w : world) (t : ty) : bool := plain_closed t && arity_ok w t.

Lemma good1_args : forall w c args, good1 w (TApp c args) = true ->
  exists d, find_class w c = Some d /\ length args = length (c_params d) /\
            forallb plain_closed args = true /\ forallb (arity_ok w) args = true.
Proof.
  intros w c args H. unfold good1 in H. apply andb_prop in H. destruct H as [H1 H2].
  cbn [plain_closed arity_ok] in *. destruct (find_class w c) as [d|]; [|discriminate].
  apply andb_prop in H2. destruct H2 as [H2 H3]. apply andb_prop in H2. destruct H2 as [H2 _].
  apply Nat.eqb_eq in H2. eauto.
Qed.

Lemma forallb_good1 : forall w l, forallb plain_closed l = true -> forallb (arity_ok w) l = true ->
  forall a, In a l -> good1 w a = true.
Proof.
  intros w l H1 H2 a Hin. unfold good1.
  rewrite (forallb_In _ _ _ _ H1 Hin), (forallb_In _ _ _ _ H2 Hin). reflexivity.
Qed.

Section Step.
  Variable w : world.
  Hypothesis Hok : table_ok w = true.

  (* shape of the direct supertypes of a good instantiation *)
  Lemma direct_supers_app : forall c args u, good1 w (TApp c args) = true ->
    In u (direct_supers w (TApp c args)) ->
    exists d s', find_class w c = Some d /\ In s' (c_supers d) /\ length args = length (c_params d) /\
                 u = inst_super d args s'.
  Proof.
    intros c args u Hg Hin. destruct (good1_args _ _ _ Hg) as [d [Hd [Hl [Hpc Har]]]].
    cbn [direct_supers] in Hin. rewrite Hd in Hin. apply in_map_iff in Hin.
    destruct Hin as [s' [E Hs']]. exists d, s'. repeat split; auto.
    destruct (tok_super w Hok c d s' Hd Hs') as [Ho [_ [_ [_ [Hnv _]]]]].
    unfold inst_super. symmetry in Hl. destruct (is_app s') eqn:Happ.
    - rewrite <- E. apply subst_cond_irrel; auto.
    - rewrite <- E. symmetry. apply subst_nonapp; auto.
  Qed.

  Lemma in_direct_supers_app : forall c args d s', good1 w (TApp c args) = true ->
    find_class w c = Some d -> In s' (c_supers d) ->
    In (inst_super d args s') (direct_supers w (TApp c args)).
  Proof.
    intros c args d s' Hg Hd Hs'. destruct (good1_args _ _ _ Hg) as [d' [Hd' [Hl [Hpc Har]]]].
    rewrite Hd in Hd'. injection Hd' as <-.
    cbn [direct_supers]. rewrite Hd. apply in_map_iff. exists s'. split; [|exact Hs'].
    destruct (tok_super w Hok c d s' Hd Hs') as [Ho [_ [_ [_ [Hnv _]]]]].
    unfold inst_super. symmetry in Hl. destruct (is_app s') eqn:Happ.
    - apply subst_cond_irrel; auto.
    - symmetry. apply subst_nonapp; auto.
  Qed.

  Lemma class_nogeneric_supers_closed : forall c d s, find_class w c = Some d -> c_params d = [] ->
    In s (c_supers d) -> plain_closed s = true.
  Proof.
    intros c d s Hd Hp Hin. destruct (tok_super w Hok c d s Hd Hin) as [Ho _]. rewrite Hp in Ho.
    clear Hin Hd. revert s Ho. apply (ty_ind' (fun s => over_params [] s = true -> plain_closed s = true));
      intros; try discriminate; try reflexivity.
    rename H0 into Ho. cbn in *. induction H as [|a l Ha Hl IH]; cbn in *; [reflexivity|].
    apply andb_prop in Ho. destruct Ho as [H1 H2]. rewrite (Ha H1), (IH H2). reflexivity.
  Qed.

  Lemma direct_supers_good1 : forall s u, good1 w s = true -> In u (direct_supers w s) -> good1 w u = true.
  Proof.
    intros s u Hg Hin. destruct s as [b pr|c|c args|c|x v ob|v ob| |i uu l]; try contradiction;
      try (unfold good1 in Hg; cbn in Hg; discriminate).
    - cbn [direct_supers] in Hin. destruct pr; [contradiction|].
      destruct (find_builtin w b); [|contradiction].
      apply in_map_iff in Hin. destruct Hin as [b' [<- _]]. reflexivity.
    - cbn [direct_supers] in Hin. unfold good1 in Hg. cbn in Hg.
      destruct (find_class w c) as [d|] eqn:Hd; [|contradiction].
      apply Nat.eqb_eq in Hg. apply length_zero_iff_nil in Hg.
      destruct (tok_super w Hok c d u Hd Hin) as [_ [Ha _]].
      unfold good1. rewrite (class_nogeneric_supers_closed c d u Hd Hg Hin), Ha. reflexivity.
    - destruct (direct_supers_app c args u Hg Hin) as [d [s' [Hd [Hs' [Hl ->]]]]].
      destruct (good1_args _ _ _ Hg) as [d' [Hd' [_ [Hpc Har]]]].
      destruct (tok_super w Hok c d s' Hd Hs') as [Ho [Ha _]].
      unfold good1, inst_super. symmetry in Hl.
      rewrite subst_plain_closed, (subst_arity_ok w); auto.
  Qed.

  Lemma direct_supers_boxed : forall s u, good1 w s = true -> boxed s = true ->
    In u (direct_supers w s) -> boxed u = true.
  Proof.
    intros s u Hg Hb Hin. destruct s as [b pr|c|c args|c|x v ob|v ob| |i uu l]; try contradiction;
      try (unfold good1 in Hg; cbn in Hg; discriminate).
    - cbn [direct_supers] in Hin. destruct pr; [contradiction|].
      destruct (find_builtin w b); [|contradiction].
      apply in_map_iff in Hin. destruct Hin as [b' [<- _]]. reflexivity.
    - cbn [direct_supers] in Hin.
      destruct (find_class w c) as [d|] eqn:Hd; [|contradiction].
      destruct (tok_super w Hok c d u Hd Hin) as [_ [_ [_ [_ [_ Hbx]]]]]. exact Hbx.
    - destruct (direct_supers_app c args u Hg Hin) as [d [s' [Hd [Hs' [Hl ->]]]]].
      destruct (good1_args _ _ _ Hg) as [d' [Hd' [_ [Hpc Har]]]].
      destruct (tok_super w Hok c d s' Hd Hs') as [Ho [_ [_ [_ [_ Hbx]]]]].
      unfold inst_super. symmetry in Hl. apply subst_boxed; auto.
  Qed.

  Lemma class_ids_head : forall c s, forallb (fun k => k <? c) (class_ids s) = true -> rank s <= c.
  Proof.
    intros c s H. destruct s; cbn in *; try lia.
    - apply andb_prop in H. destruct H as [H _]. apply Nat.ltb_lt in H. lia.
    - apply andb_prop in H. destruct H as [H _]. apply Nat.ltb_lt in H. lia.
  Qed.

  (* supertypes of class types are declared earlier; supertypes of built-ins are built-ins *)
  Lemma direct_supers_rank : forall s u, good1 w s = true -> In u (direct_supers w s) ->
    rank u <= rank s /\ (0 < rank s -> rank u < rank s).
  Proof.
    intros s u Hg Hin. destruct s as [b pr|c|c args|c|x v ob|v ob| |i uu l]; try contradiction;
      try (unfold good1 in Hg; cbn in Hg; discriminate).
    - cbn [direct_supers] in Hin. destruct pr; [contradiction|].
      destruct (find_builtin w b); [|contradiction].
      apply in_map_iff in Hin. destruct Hin as [b' [<- _]]. cbn. lia.
    - cbn [direct_supers] in Hin.
      destruct (find_class w c) as [d|] eqn:Hd; [|contradiction].
      destruct (tok_super w Hok c d u Hd Hin) as [_ [_ [Hid _]]].
      apply class_ids_head in Hid. cbn. lia.
    - destruct (direct_supers_app c args u Hg Hin) as [d [s' [Hd [Hs' [Hl ->]]]]].
      destruct (tok_super w Hok c d s' Hd Hs') as [_ [_ [Hid [_ [Hnv _]]]]].
      apply class_ids_head in Hid. unfold inst_super. rewrite subst_rank; auto. cbn. lia.
  Qed.
End Step.

(* ---------- reachability along direct supertypes ---------- *)
Inductive reach (w : world) : ty -> ty -> Prop :=
| reach_refl s : reach w s s
| reach_step s x u : In x (direct_supers w s) -> reach w x u -> reach w s u.

Lemma reach_right : forall w s x u, reach w s x -> In u (direct_supers w x) -> reach w s u.
Proof.
  intros w s x u H. induction H as [s|s y x Hy Hr IH]; intros Hin.
  - eapply reach_step; [exact Hin|apply reach_refl].
  - eapply reach_step; [exact Hy|auto].
Qed.

Lemma reach_last : forall w s u, reach w s u -> u = s \/ exists x, reach w s x /\ In u (direct_supers w x).
Proof.
  intros w s u H. induction H as [s|s y u Hy Hr IH].
  - left. reflexivity.
  - right. destruct IH as [->|[x [Hx Hin]]].
    + exists s. split; [apply reach_refl|exact Hy].
    + exists x. split; [eapply reach_step; eauto|exact Hin].
Qed.

Section Reach.
  Variable w : world.
  Hypothesis Hok : table_ok w = true.

  Lemma reach_good1 : forall s u, reach w s u -> good1 w s = true -> good1 w u = true.
  Proof.
    intros s u H. induction H as [s|s y u Hy Hr IH]; intros Hg; [exact Hg|].
    apply IH. eapply direct_supers_good1; eauto.
  Qed.

  Lemma reach_boxed : forall s u, reach w s u -> good1 w s = true -> boxed s = true -> boxed u = true.
  Proof.
    intros s u H. induction H as [s|s y u Hy Hr IH]; intros Hg Hb; [exact Hb|].
    apply IH; [eapply direct_supers_good1; eauto | eapply direct_supers_boxed; eauto].
  Qed.

  Lemma reach_rank : forall s u, reach w s u -> good1 w s = true ->
    u = s \/ (rank u <= rank s /\ (0 < rank s -> rank u < rank s)).
  Proof.
    intros s u H. induction H as [s|s y u Hy Hr IH]; intros Hg; [left; reflexivity|].
    right. pose proof (direct_supers_rank w Hok s y Hg Hy) as [R1 R2].
    destruct (IH (direct_supers_good1 w Hok s y Hg Hy)) as [->|[R3 R4]]; [auto|].
    split; [lia|]. intros Hpos. specialize (R2 Hpos). lia.
  Qed.
End Reach.

(* ---------- get_supertypes computes exactly the reachable set ---------- *)
Definition new_of (w : world) (visited : list ty) (l : list ty) : list ty :=
  fold_left (fun acc x => if memb x (visited ++ acc) then acc else acc ++ [x]) l [].

Lemma closure_S : forall w f stack visited,
  closure w (S f) stack visited =
  match stack with
  | [] => Some visited
  | s :: rest => closure w f (new_of w visited (direct_supers w s) ++ rest)
                         (visited ++ new_of w visited (direct_supers w s))
  end.
Proof. reflexivity. Qed.

Lemma fold_new_spec : forall (visited l acc : list ty),
  let r := fold_left (fun acc x => if memb x (visited ++ acc) then acc else acc ++ [x]) l acc in
  (forall y, In y r -> In y acc \/ In y l) /\
  (forall y, memb y (visited ++ acc) = true -> memb y (visited ++ r) = true) /\
  (forall y, In y l -> memb y (visited ++ r) = true).
Proof.
  intros visited l. induction l as [|x l IH]; intros acc; cbn.
  - repeat split; auto; intros y [].
  - destruct (memb x (visited ++ acc)) eqn:E.
    + destruct (IH acc) as [I1 [I2 I3]]. repeat split.
      * intros y Hy. destruct (I1 y Hy); auto.
      * exact I2.
      * intros y [<-|Hy]; auto.
    + destruct (IH (acc ++ [x])) as [I1 [I2 I3]]. repeat split.
      * intros y Hy. destruct (I1 y Hy) as [H|H]; auto.
        apply in_app_or in H. destruct H as [H|[<-|[]]]; auto.
      * intros y Hy. apply I2. rewrite app_assoc. apply memb_app_l. exact Hy.
      * intros y [<-|Hy]; auto. apply I2. rewrite app_assoc. apply memb_app_r.
        cbn. rewrite py_eqb_refl. reflexivity.
Qed.

Lemma new_of_spec : forall w visited l,
  (forall y, In y (new_of w visited l) -> In y l) /\
  (forall y, In y l -> memb y (visited ++ new_of w visited l) = true).
Proof.
  intros w visited l. unfold new_of.
  destruct (fold_new_spec visited l []) as [I1 [_ I3]]. split; [|exact I3].
  intros y Hy. destruct (I1 y Hy) as [[]|H]; exact H.
Qed.

(* soundness: everything returned satisfies any property closed under direct supertypes *)
Lemma closure_sound : forall w (P : ty -> Prop),
  (forall x u, P x -> In u (direct_supers w x) -> P u) ->
  forall f stack visited r, closure w f stack visited = Some r ->
  Forall P stack -> Forall P visited -> Forall P r.
Proof.
  intros w P HP f. induction f as [|f IH]; intros stack visited r H Hs Hv; [discriminate|].
  rewrite closure_S in H. destruct stack as [|s rest]; [injection H as <-; exact Hv|].
  destruct (new_of_spec w visited (direct_supers w s)) as [N1 _].
  assert (Hn : Forall P (new_of w visited (direct_supers w s))).
  { apply Forall_forall. intros y Hy. inversion Hs; subst. eapply HP; eauto. }
  apply (IH _ _ _ H).
  - apply Forall_app. split; [exact Hn|]. inversion Hs; auto.
  - apply Forall_app. split; auto.
Qed.

(* completeness: the result is closed under direct supertypes up to == *)
Lemma closure_complete : forall w f stack visited r, closure w f stack visited = Some r ->
  (forall x, In x visited -> In x stack \/ forall u, In u (direct_supers w x) -> memb u visited = true) ->
  incl visited r /\
  (forall x, In x r -> forall u, In u (direct_supers w x) -> memb u r = true).
Proof.
  intros w f. induction f as [|f IH]; intros stack visited r H Hinv; [discriminate|].
  rewrite closure_S in H. destruct stack as [|s rest].
  - injection H as <-. split; [apply incl_refl|].
    intros x Hx. destruct (Hinv x Hx) as [[]|Hc]. exact Hc.
  - destruct (new_of_spec w visited (direct_supers w s)) as [_ N2].
    destruct (IH _ _ _ H) as [I1 I2].
    + intros x Hx. apply in_app_or in Hx. destruct Hx as [Hx|Hx].
      * destruct (Hinv x Hx) as [[<-|Hr]|Hc].
        -- right. exact N2.
        -- left. apply in_or_app. right. exact Hr.
        -- right. intros u Hu. apply memb_app_l. auto.
      * left. apply in_or_app. left. exact Hx.
    + split; [|exact I2]. intros x Hx. apply I1. apply in_or_app. left. exact Hx.
Qed.

Lemma get_supertypes_unfold : forall w s, get_supertypes w s = closure w closure_fuel [s] [s].
Proof. reflexivity. Qed.

Lemma get_supertypes_sound : forall w s r, get_supertypes w s = Some r ->
  forall u, In u r -> reach w s u.
Proof.
  intros w s r H. rewrite get_supertypes_unfold in H. revert H. generalize closure_fuel. intros n H.
  assert (H1 : Forall (reach w s) [s]) by (constructor; [apply reach_refl|constructor]).
  pose proof (closure_sound w (reach w s) (fun x u Hx Hu => reach_right w s x u Hx Hu) n [s] [s] r H H1 H1) as HF.
  rewrite Forall_forall in HF. exact HF.
Qed.

Lemma get_supertypes_closed : forall w s r, get_supertypes w s = Some r ->
  In s r /\ (forall x, In x r -> forall u, In u (direct_supers w x) -> memb u r = true).
Proof.
  intros w s r H. rewrite get_supertypes_unfold in H. revert H. generalize closure_fuel. intros n H.
  destruct (closure_complete w n [s] [s] r H) as [I1 I2].
  - intros x [<-|[]]. left. left. reflexivity.
  - split; [apply I1; left; reflexivity|exact I2].
Qed.

(* in the boxed fragment the result contains every reachable type *)
Lemma get_supertypes_complete : forall w, table_ok w = true ->
  forall s r, get_supertypes w s = Some r -> good1 w s = true -> boxed s = true ->
  forall u, reach w s u -> In u r.
Proof.
  intros w Hok s r H Hg Hb u Hr.
  destruct (get_supertypes_closed w s r H) as [Hs Hc].
  destruct (reach_last w s u Hr) as [->|_]; [exact Hs|].
  (* induction from the right end *)
  assert (Hgen : forall x, reach w s x -> In x r).
  { clear u Hr. intros x Hx.
    assert (Hall : forall a y, reach w a y -> reach w s a -> In a r -> In y r).
    { intros a y Hay. induction Hay as [a|a z y Hz Hzy IH]; intros Hsa Ha; [exact Ha|].
      apply IH.
      - eapply reach_right; eauto.
      - pose proof (Hc a Ha z Hz) as Hm. apply memb_ex in Hm. destruct Hm as [k [Hk He]].
        assert (Hsz : reach w s z) by (eapply reach_right; eauto).
        pose proof (get_supertypes_sound w s r H k Hk) as Hsk.
        assert (z = k).
        { apply py_eqb_eq; auto.
          - pose proof (reach_good1 w Hok s z Hsz Hg) as G. unfold good1 in G.
            apply andb_prop in G. tauto.
          - eapply reach_boxed; eauto.
          - eapply reach_boxed; eauto. }
        subst k. exact Hk. }
    apply (Hall s x Hx (reach_refl w s) Hs). }
  apply Hgen. exact Hr.
Qed.
