(* Types/Corr.v -- comparison helpers for the correspondence checks on types. Definitions only. *)
From Coq Require Import List Arith Bool.
Import ListNotations.
From Heph Require Import Types.Syntax Types.Subst Types.Subtype.

(* observed Python answer: 0 = False, 1 = True, 2 = an exception was raised *)
Definition res_matches (r : res) (o : nat) : bool :=
  match r, o with
  | Rf, 0 => true
  | Rt, 1 => true
  | Rerr, 2 => true
  | Rt, 2 => true          (* any(...) over a set: an exception may pre-empt a True disjunct *)
  | _, _ => false
  end.

Definition res_code (r : res) : nat := match r with Rf => 0 | Rt => 1 | Rerr => 2 end.

(* structural equality of terms (stricter than py_eqb: compares the primitive flag) *)
Fixpoint ty_eqb (a b : ty) {struct a} : bool :=
  let fix leq (l1 l2 : list ty) : bool :=
      match l1, l2 with
      | [], [] => true
      | x :: t, y :: u => ty_eqb x y && leq t u
      | _, _ => false
      end in
  let oeq (o1 o2 : option ty) : bool :=
      match o1, o2 with
      | None, None => true
      | Some x, Some y => ty_eqb x y
      | _, _ => false
      end in
  match a, b with
  | TBuiltin x p, TBuiltin y q => Nat.eqb x y && Bool.eqb p q
  | TClass x, TClass y => Nat.eqb x y
  | TApp c l, TApp d m => Nat.eqb c d && leq l m
  | TCon c, TCon d => Nat.eqb c d
  | TVar x v o, TVar y u p => Nat.eqb x y && var_eqb v u && oeq o p
  | TWild v o, TWild u p => var_eqb v u && oeq o p
  | TNothing, TNothing => true
  | TCap i u l, TCap j u' l' =>
      (fix ieq (a b : list nat) : bool :=
         match a, b with
         | [], [] => true
         | x :: a', y :: b' => Nat.eqb x y && ieq a' b'
         | _, _ => false
         end) i j && oeq u u' && oeq l l'
  | _, _ => false
  end.

Fixpoint tys_eqb (a b : list ty) : bool :=
  match a, b with
  | [], [] => true
  | x :: a', y :: b' => ty_eqb x y && tys_eqb a' b'
  | _, _ => false
  end.

Definition set_eq_ty (a b : list ty) : bool :=
  forallb (fun x => existsb (ty_eqb x) b) a && forallb (fun x => existsb (ty_eqb x) a) b.

(* one subtype query: (s, t, python is_subtype, python is_assignable) *)
Definition sub_case := (ty * ty * nat * nat)%type.

(* codes: 2*i for is_subtype, 2*i+1 for is_assignable *)
Fixpoint sub_mismatches (w : world) (fuel : nat) (i : nat) (cs : list sub_case) : list nat :=
  match cs with
  | [] => []
  | (s, t, o1, o2) :: cs' =>
      (if res_matches (is_subtype w fuel s t) o1 then [] else [2 * i]) ++
      (if res_matches (is_assignable w fuel s t) o2 then [] else [2 * i + 1]) ++
      sub_mismatches w fuel (S i) cs'
  end.

Definition sub_group := (world * list sub_case)%type.

Fixpoint group_mismatches (fuel : nat) (g : nat) (gs : list sub_group) : list (nat * nat) :=
  match gs with
  | [] => []
  | (w, cs) :: gs' => map (fun c => (g, c)) (sub_mismatches w fuel 0 cs) ++ group_mismatches fuel (S g) gs'
  end.
