From Coq Require Import List Arith Bool.
Import ListNotations.
From Heph Require Import Types.Syntax Types.Subst Types.Subtype Types.Unify.

Lemma update_map_fresh : forall m k v, tv_get m k = None -> update_map m k v = Some (tv_set m k v).
Proof. intros m k v H. unfold update_map. rewrite H. reflexivity. Qed.
