(* Types/UnifyProofs.v -- proofs of the C10 properties of unify_types (Types/Unify.v).
   The statements are collected in Types/Properties_C10.v. *)
From Coq Require Import List Arith Bool Lia.
Import ListNotations.
From Heph Require Import Types.Syntax Types.Subst Types.Subtype Types.Unify Types.UnifySpec
  Types.SubstProofs Types.UnifyDefs Types.UnifyInv.

(* ====================================================================================== *)
(* Python equality: small consequences                                                    *)
(* ====================================================================================== *)
Lemma py_eqb_false_trans : forall a b c, py_eqb a b = true -> py_eqb a c = false -> py_eqb b c = false.
Proof.
  intros a b c H1 H2. destruct (py_eqb b c) eqn:E; [|reflexivity].
  rewrite (py_eqb_trans a b c H1 E) in H2. discriminate.
Qed.

Lemma py_eqb_is_tvar : forall a b, py_eqb a b = true -> is_tvar a = is_tvar b.
Proof. intros a b H. destruct a, b; try reflexivity; cbn in H; discriminate. Qed.

Lemma py_eqb_tvar_some : forall x vv b k, py_eqb (TVar x vv (Some b)) k = true ->
  exists x0 vv0 b0, k = TVar x0 vv0 (Some b0) /\ py_eqb b b0 = true.
Proof.
  intros x vv b k H. destruct k as [| | | |x0 vv0 ob| | |]; try (cbn in H; discriminate).
  rewrite py_eqb_var in H. apply andb_prop in H. destruct H as [_ H].
  destruct ob as [b0|]; [|cbn in H; discriminate]. exists x0, vv0, b0. split; [reflexivity|exact H].
Qed.

Lemma py_eqb_tvar_none : forall x vv k, py_eqb (TVar x vv None) k = true ->
  exists x0 vv0, k = TVar x0 vv0 None.
Proof.
  intros x vv k H. destruct k as [| | | |x0 vv0 ob| | |]; try (cbn in H; discriminate).
  rewrite py_eqb_var in H. apply andb_prop in H. destruct H as [_ H].
  destruct ob as [b0|]; [cbn in H; discriminate|]. exists x0, vv0. reflexivity.
Qed.

(* ====================================================================================== *)
(* The dictionary: tv_get / tv_set / update_map / merge                                   *)
(* ====================================================================================== *)
Lemma tv_get_cong : forall m k k', py_eqb k k' = true -> tv_get m k = tv_get m k'.
Proof.
  induction m as [|[k0 v0] m IH]; intros k k' H; [reflexivity|]. cbn [tv_get].
  destruct (py_eqb k0 k) eqn:E1.
  - rewrite (py_eqb_trans k0 k k' E1 H). reflexivity.
  - assert (E2 : py_eqb k0 k' = false).
    { destruct (py_eqb k0 k') eqn:E2; [|reflexivity].
      rewrite py_eqb_sym in H. rewrite (py_eqb_trans k0 k' k E2 H) in E1. discriminate. }
    rewrite E2. apply IH. exact H.
Qed.

Lemma tv_get_set_same : forall m k v, tv_get (tv_set m k v) k = Some v.
Proof.
  induction m as [|[k0 v0] m IH]; intros k v; cbn [tv_set tv_get].
  - rewrite py_eqb_refl. reflexivity.
  - destruct (py_eqb k0 k) eqn:E; cbn [tv_get]; rewrite E; [reflexivity | apply IH].
Qed.

Lemma tv_get_set_other : forall m k v k', py_eqb k' k = false -> tv_get (tv_set m k v) k' = tv_get m k'.
Proof.
  induction m as [|[k0 v0] m IH]; intros k v k' H; cbn [tv_set tv_get].
  - rewrite py_eqb_sym, H. reflexivity.
  - destruct (py_eqb k0 k) eqn:E; cbn [tv_get].
    + assert (E2 : py_eqb k0 k' = false).
      { destruct (py_eqb k0 k') eqn:E2; [|reflexivity].
        rewrite py_eqb_sym in E2. rewrite (py_eqb_trans k' k0 k E2 E) in H. discriminate. }
      rewrite E2. reflexivity.
    + destruct (py_eqb k0 k'); [reflexivity | apply IH; exact H].
Qed.

Lemma tv_get_in : forall m k v, tv_get m k = Some v -> exists k0, In (k0, v) m /\ py_eqb k0 k = true.
Proof.
  induction m as [|[k0 v0] m IH]; intros k v H; cbn [tv_get] in H; [discriminate|].
  destruct (py_eqb k0 k) eqn:E.
  - injection H as <-. exists k0. split; [left; reflexivity | exact E].
  - destruct (IH _ _ H) as [k1 [I1 E1]]. exists k1. split; [right; exact I1 | exact E1].
Qed.

Lemma tv_get_none : forall m k k0 v, tv_get m k = None -> In (k0, v) m -> py_eqb k0 k = false.
Proof.
  induction m as [|[k1 v1] m IH]; intros k k0 v H I; [destruct I|]. cbn [tv_get] in H.
  destruct (py_eqb k1 k) eqn:E; [discriminate|]. destruct I as [I|I].
  - injection I as <- <-. exact E.
  - eapply IH; eauto.
Qed.

(* an entry of the updated dictionary is an old entry, or carries the new value under a key
   equal to the new key *)
Lemma tv_set_in : forall m k0 v0 k v, In (k, v) (tv_set m k0 v0) ->
  In (k, v) m \/ (v = v0 /\ py_eqb k k0 = true).
Proof.
  induction m as [|[k1 v1] m IH]; intros k0 v0 k v H; cbn [tv_set] in H.
  - destruct H as [H|[]]. injection H as <- <-. right. split; [reflexivity | apply py_eqb_refl].
  - destruct (py_eqb k1 k0) eqn:E.
    + destruct H as [H|H].
      * injection H as <- <-. right. split; [reflexivity | exact E].
      * left. right. exact H.
    + destruct H as [H|H].
      * left. left. exact H.
      * destruct (IH _ _ _ _ H) as [I|I]; [left; right; exact I | right; exact I].
Qed.

Lemma existsb_tv_set : forall m k v k1,
  existsb (fun kv : ty * option ty => py_eqb (fst kv) k1) m = false -> py_eqb k k1 = false ->
  existsb (fun kv : ty * option ty => py_eqb (fst kv) k1) (tv_set m k v) = false.
Proof.
  induction m as [|[k0 v0] m IH]; intros k v k1 H1 H2; cbn [tv_set existsb fst] in *.
  - rewrite H2. reflexivity.
  - apply orb_false_iff in H1. destruct H1 as [H1 H3].
    destruct (py_eqb k0 k); cbn [existsb fst]; rewrite H1; cbn [orb]; [exact H3 | apply IH; assumption].
Qed.

Lemma keys_distinct_set : forall m k v, keys_distinct m = true -> keys_distinct (tv_set m k v) = true.
Proof.
  induction m as [|[k0 v0] m IH]; intros k v H; cbn [tv_set keys_distinct] in *; [reflexivity|].
  apply andb_prop in H. destruct H as [H1 H2]. apply negb_true_iff in H1.
  destruct (py_eqb k0 k) eqn:E; cbn [keys_distinct].
  - rewrite H1, H2. reflexivity.
  - rewrite (IH _ _ H2), andb_true_r. apply negb_true_iff. apply existsb_tv_set; [exact H1|].
    rewrite py_eqb_sym. exact E.
Qed.

Lemma update_map_some : forall m k v m', update_map m k v = Some m' -> m' = tv_set m k v.
Proof.
  intros m k v m' H. unfold update_map in H.
  destruct (tv_get m k) as [[old|]|]; try (injection H as <-; reflexivity).
  destruct (py_eqb old _ && _); [injection H as <-; reflexivity | discriminate].
Qed.

Lemma update_map_fresh : forall m k v, tv_get m k = None -> update_map m k v = Some (tv_set m k v).
Proof. intros m k v H. unfold update_map. rewrite H. reflexivity. Qed.

(* U3: the exact behaviour of _update_type_var_map *)
Lemma update_map_spec : forall m k v,
  (forall m', update_map m k v = Some m' ->
     (forall old, tv_get m k = Some (Some old) -> exists x, v = Some x /\ py_eqb old x = true) /\
     tv_get m' k = Some v /\
     (forall k', py_eqb k' k = true -> tv_get m' k' = Some v) /\
     (forall k', py_eqb k' k = false -> tv_get m' k' = tv_get m k')) /\
  (update_map m k v = None ->
     exists old, tv_get m k = Some (Some old) /\ forall x, v = Some x -> py_eqb old x = false).
Proof.
  intros m k v. split.
  - intros m' H. pose proof (update_map_some _ _ _ _ H) as ->. split; [|split; [|split]].
    + intros old G. unfold update_map in H. rewrite G in H.
      destruct v as [x|]; [|rewrite andb_false_r in H; discriminate].
      rewrite andb_true_r in H. destruct (py_eqb old x) eqn:E; [|discriminate].
      exists x. split; [reflexivity | exact E].
    + apply tv_get_set_same.
    + intros k' E. rewrite (tv_get_cong _ k' k E). apply tv_get_set_same.
    + intros k' E. apply tv_get_set_other. exact E.
  - intros H. unfold update_map in H. destruct (tv_get m k) as [[old|]|]; try discriminate.
    exists old. split; [reflexivity|]. intros x ->. rewrite andb_true_r in H.
    destruct (py_eqb old x); [discriminate | reflexivity].
Qed.

Lemma merge_none : forall res : tvmap,
  fold_left (fun (acc : option tvmap) (kv : ty * option ty) =>
               match acc with Some a => update_map a (fst kv) (snd kv) | None => None end) res None = None.
Proof. induction res as [|kv res IH]; [reflexivity | exact IH]. Qed.

Lemma merge_nil : forall m, merge m [] = Some m.
Proof. reflexivity. Qed.

Lemma merge_cons : forall m k v res,
  merge m ((k, v) :: res) = match update_map m k v with Some a => merge a res | None => None end.
Proof.
  intros m k v res. unfold merge. cbn [fold_left fst snd].
  destruct (update_map m k v); [reflexivity | apply merge_none].
Qed.

Lemma merge_other : forall res m m' k, merge m res = Some m' ->
  (forall k0 v0, In (k0, v0) res -> py_eqb k0 k = false) -> tv_get m' k = tv_get m k.
Proof.
  induction res as [|[k0 v0] res IH]; intros m m' k H N.
  - rewrite merge_nil in H. injection H as <-. reflexivity.
  - rewrite merge_cons in H. destruct (update_map m k0 v0) as [m1|] eqn:U; [|discriminate].
    rewrite (IH _ _ _ H); [|intros; eapply N; right; eauto].
    destruct (update_map_spec m k0 v0) as [S _]. destruct (S _ U) as [_ [_ [_ S4]]].
    apply S4. rewrite py_eqb_sym. eapply N. left. reflexivity.
Qed.

Lemma keys_distinct_cons : forall k v (m : tvmap), keys_distinct ((k, v) :: m) = true ->
  (forall k1 v1, In (k1, v1) m -> py_eqb k1 k = false) /\ keys_distinct m = true.
Proof.
  intros k v m H. cbn [keys_distinct] in H. apply andb_prop in H. destruct H as [H1 H2].
  split; [|exact H2]. intros k1 v1 I. apply negb_true_iff in H1.
  destruct (py_eqb k1 k) eqn:E; [|reflexivity].
  assert (X : existsb (fun kv : ty * option ty => py_eqb (fst kv) k) m = true).
  { apply existsb_exists. exists (k1, v1). split; [exact I | exact E]. }
  rewrite X in H1. discriminate.
Qed.

(* U3 for the loop `any(not _update_type_var_map(type_var_map, k, v) for k, v in res.items())` *)
Lemma merge_spec : forall res m m', merge m res = Some m' -> keys_distinct res = true ->
  (forall k v, tv_get res k = Some v ->
     tv_get m' k = Some v /\
     (forall old, tv_get m k = Some (Some old) -> exists x, v = Some x /\ py_eqb old x = true)) /\
  (forall k, tv_get res k = None -> tv_get m' k = tv_get m k).
Proof.
  induction res as [|[k0 v0] res IH]; intros m m' H KD.
  - rewrite merge_nil in H. injection H as <-. split; [intros k v G; discriminate G | reflexivity].
  - rewrite merge_cons in H. destruct (update_map m k0 v0) as [m1|] eqn:U; [|discriminate].
    destruct (keys_distinct_cons _ _ _ KD) as [N KD'].
    destruct (update_map_spec m k0 v0) as [S _]. destruct (S _ U) as [S1 [S2 [S3 S4]]].
    destruct (IH _ _ H KD') as [I1 I2]. split.
    + intros k v G. cbn [tv_get] in G. destruct (py_eqb k0 k) eqn:E.
      * injection G as <-. split.
        -- rewrite (merge_other _ _ _ k H).
           ++ apply S3. rewrite py_eqb_sym. exact E.
           ++ intros k1 v1 I. rewrite py_eqb_sym. apply (py_eqb_false_trans k0 k k1 E).
              rewrite py_eqb_sym. eapply N. exact I.
        -- intros old G. apply S1. rewrite (tv_get_cong m k0 k E). exact G.
      * destruct (I1 _ _ G) as [J1 J2]. split; [exact J1|].
        intros old G'. apply J2. rewrite S4; [exact G'|]. rewrite py_eqb_sym. exact E.
    + intros k G. cbn [tv_get] in G. destruct (py_eqb k0 k) eqn:E; [discriminate|].
      rewrite (I2 _ G). apply S4. rewrite py_eqb_sym. exact E.
Qed.

Lemma merge_in : forall res m m' k v, merge m res = Some m' -> In (k, v) m' ->
  In (k, v) m \/ exists k0, In (k0, v) res /\ py_eqb k k0 = true.
Proof.
  induction res as [|[k0 v0] res IH]; intros m m' k v H I.
  - rewrite merge_nil in H. injection H as <-. left. exact I.
  - rewrite merge_cons in H. destruct (update_map m k0 v0) as [m1|] eqn:U; [|discriminate].
    pose proof (update_map_some _ _ _ _ U) as ->.
    destruct (IH _ _ _ _ H I) as [J|[k1 [J1 J2]]].
    + apply tv_set_in in J. destruct J as [J|[-> E]].
      * left. exact J.
      * right. exists k0. split; [left; reflexivity | exact E].
    + right. exists k1. split; [right; exact J1 | exact J2].
Qed.

(* ====================================================================================== *)
(* U1, U2: the answer is a well-formed assignment                                          *)
(* ====================================================================================== *)
Definition wf_map (m : tvmap) : Prop :=
  keys_distinct m = true /\ forall k v, In (k, v) m -> is_tvar k = true /\ v <> None.

Lemma wf_nil : wf_map [].
Proof. split; [reflexivity | intros k v []]. Qed.

Lemma wf_single : forall k v, is_tvar k = true -> wf_map [(k, Some v)].
Proof.
  intros k v H. split; [reflexivity|]. intros k' v' [I|[]]. injection I as <- <-.
  split; [exact H | discriminate].
Qed.

Lemma wf_set : forall m k v, wf_map m -> is_tvar k = true -> wf_map (tv_set m k (Some v)).
Proof.
  intros m k v [W1 W2] T. split; [apply keys_distinct_set; exact W1|].
  intros k' v' I. apply tv_set_in in I. destruct I as [I|[-> E]]; [apply W2; exact I|].
  split; [|discriminate]. rewrite (py_eqb_is_tvar _ _ E). exact T.
Qed.

Lemma wf_update : forall m k v m', wf_map m -> is_tvar k = true ->
  update_map m k (Some v) = Some m' -> wf_map m'.
Proof. intros m k v m' W T U. rewrite (update_map_some _ _ _ _ U). apply wf_set; assumption. Qed.

Lemma wf_merge : forall res m m', wf_map m -> wf_map res -> merge m res = Some m' -> wf_map m'.
Proof.
  induction res as [|[k0 v0] res IH]; intros m m' Wm Wr H.
  - rewrite merge_nil in H. injection H as <-. exact Wm.
  - rewrite merge_cons in H. destruct (update_map m k0 v0) as [m1|] eqn:U; [|discriminate].
    destruct Wr as [KD Wr]. destruct (keys_distinct_cons _ _ _ KD) as [_ KD'].
    destruct (Wr k0 v0 (or_introl eq_refl)) as [T NN].
    destruct v0 as [x|]; [|contradiction NN; reflexivity].
    apply (IH m1 m'); [eapply wf_update; eauto | | exact H].
    split; [exact KD' | intros k v I; apply Wr; right; exact I].
Qed.

Section WF.
  Context (w : world) (alias : list (nat * nat)) (any : nat).

  Lemma step_wf : forall rec m a1 a2 m',
    (forall a b r, rec a b = Val r -> wf_map r) ->
    Step w rec m a1 a2 m' -> wf_map m -> wf_map m'.
  Proof.
    intros rec m a1 a2 m' Hrec S W. destruct S as [v|a1 a2 y1 y2 m' _ I]; [exact W|].
    destruct I.
    - exact W.
    - eapply wf_update; [exact W | | eassumption]. reflexivity.
    - eapply wf_merge; [exact W | | eassumption]. eapply Hrec; eassumption.
    - eapply wf_update; [exact W | | eassumption]. reflexivity.
    - eapply wf_merge; [exact W | | eassumption]. eapply Hrec; eassumption.
  Qed.

  Lemma go_wf : forall rec, (forall a b r, rec a b = Val r -> wf_map r) ->
    forall l1 l2 m r, wf_map m -> go_args w rec l1 l2 m = Val r -> wf_map r.
  Proof.
    intros rec Hrec. induction l1 as [|a1 l1 IH]; intros l2 m r W H.
    - rewrite go_nil in H. injection H as <-. exact W.
    - apply go_inv in H. destruct H as [a2 [l2' [-> [->|[m' [S G]]]]]]; [apply wf_nil|].
      eapply IH; [|exact G]. eapply step_wf; eauto.
  Qed.

  Lemma unify_wf : forall fuel same t1 t2 m,
    unify w alias any fuel same t1 t2 = Val m -> wf_map m.
  Proof.
    induction fuel as [|f IH]; intros same t1 t2 m H; [discriminate H|].
    apply unify_inv in H. destruct H as [->|[[_ [_ [s [rest [_ H]]]]]|[_ H]]].
    - apply wf_nil.
    - eapply IH; exact H.
    - apply unify_rest_inv in H. destruct H as [->|[[T [-> _]]|[_ [c [a1 [a2 [_ [_ H]]]]]]]].
      + apply wf_nil.
      + apply wf_single. exact T.
      + eapply go_wf; [|apply wf_nil|exact H]. intros a b r. apply IH.
  Qed.
End WF.

Lemma unify_keys_distinct_lemma : forall w al any fuel same t1 t2 m,
  unify w al any fuel same t1 t2 = Val m -> keys_distinct m = true.
Proof. intros. eapply unify_wf; eauto. Qed.

Lemma unify_assigns_types_lemma : forall w al any fuel same t1 t2 m k v,
  unify w al any fuel same t1 t2 = Val m -> In (k, v) m -> is_tvar k = true /\ v <> None.
Proof. intros w al any fuel same t1 t2 m k v H I. eapply (unify_wf _ _ _ _ _ _ _ _ H); eauto. Qed.

Lemma unify_conflict_detected_lemma : forall m k v,
  (forall m', update_map m k v = Some m' ->
     (forall old, tv_get m k = Some (Some old) -> exists x, v = Some x /\ py_eqb old x = true) /\
     tv_get m' k = Some v /\
     (forall k', py_eqb k' k = true -> tv_get m' k' = Some v) /\
     (forall k', py_eqb k' k = false -> tv_get m' k' = tv_get m k')) /\
  (update_map m k v = None ->
     exists old, tv_get m k = Some (Some old) /\ forall x, v = Some x -> py_eqb old x = false).
Proof. exact update_map_spec. Qed.

Lemma merge_conflict_detected_lemma : forall res m m', merge m res = Some m' -> keys_distinct res = true ->
  (forall k v, tv_get res k = Some v ->
     tv_get m' k = Some v /\
     (forall old, tv_get m k = Some (Some old) -> exists x, v = Some x /\ py_eqb old x = true)) /\
  (forall k, tv_get res k = None -> tv_get m' k = tv_get m k).
Proof. exact merge_spec. Qed.

(* ====================================================================================== *)
(* U5: assigned types satisfy the bounds of their variables                                *)
(* ====================================================================================== *)
Section Bounds.
  Context (w : world) (alias : list (nat * nat)) (any : nat).

  (* up to Python equality of the bound: the dictionary keeps the FIRST key object, the
     subtype check was made against the bound of the LAST equal key object *)
  Definition bounds_ok (m : tvmap) : Prop :=
    forall x vv b v, In (TVar x vv (Some b), Some v) m -> has_tv b = false ->
                     exists b', py_eqb b' b = true /\ satisfies w any v b'.

  Lemma bounds_nil : bounds_ok [].
  Proof. intros x vv b v []. Qed.

  Lemma bounds_update_sub : forall m x v vb y1 m',
    bounds_ok m -> is_subtype w sub_fuel y1 vb = Rt ->
    update_map m (TVar x v (Some vb)) (Some y1) = Some m' -> bounds_ok m'.
  Proof.
    intros m x v vb y1 m' B S U. rewrite (update_map_some _ _ _ _ U).
    intros x' vv' b v' I HB. apply tv_set_in in I. destruct I as [I|[E1 E2]]; [eapply B; eauto|].
    injection E1 as ->. apply py_eqb_tvar_some in E2. destruct E2 as [x0 [vv0 [b0 [E3 E4]]]].
    injection E3 as <- <- <-. exists vb. split; [rewrite py_eqb_sym; exact E4 | left; exact S].
  Qed.

  Lemma bounds_update_free : forall m x v y1 m',
    bounds_ok m -> update_map m (TVar x v None) (Some y1) = Some m' -> bounds_ok m'.
  Proof.
    intros m x v y1 m' B U. rewrite (update_map_some _ _ _ _ U).
    intros x' vv' b v' I HB. apply tv_set_in in I. destruct I as [I|[E1 E2]]; [eapply B; eauto|].
    apply py_eqb_tvar_some in E2. destruct E2 as [x0 [vv0 [b0 [E3 _]]]]. discriminate E3.
  Qed.

  Lemma bounds_merge : forall res m m', bounds_ok m -> bounds_ok res -> merge m res = Some m' -> bounds_ok m'.
  Proof.
    intros res m m' Bm Br H x vv b v I HB.
    destruct (merge_in _ _ _ _ _ H I) as [J|[k0 [J E]]]; [eapply Bm; eauto|].
    apply py_eqb_tvar_some in E. destruct E as [x0 [vv0 [b0 [-> E]]]].
    assert (HB0 : has_tv b0 = false) by (rewrite <- (py_eqb_has_tv _ _ E); exact HB).
    destruct (Br _ _ _ _ J HB0) as [b' [E' S]]. exists b'. split; [|exact S].
    apply (py_eqb_trans b' b0 b E'). rewrite py_eqb_sym. exact E.
  Qed.

  Lemma step_bounds : forall rec m a1 a2 m',
    (forall a b r, rec a b = Val r -> bounds_ok r) ->
    Step w rec m a1 a2 m' -> bounds_ok m -> bounds_ok m'.
  Proof.
    intros rec m a1 a2 m' Hrec S B. destruct S as [v|a1 a2 y1 y2 m' _ I]; [exact B|].
    destruct I.
    - exact B.
    - eapply bounds_update_sub; eassumption.
    - eapply bounds_merge; [exact B | | eassumption]. eapply Hrec; eassumption.
    - eapply bounds_update_free; eassumption.
    - eapply bounds_merge; [exact B | | eassumption]. eapply Hrec; eassumption.
  Qed.

  Lemma go_bounds : forall rec, (forall a b r, rec a b = Val r -> bounds_ok r) ->
    forall l1 l2 m r, bounds_ok m -> go_args w rec l1 l2 m = Val r -> bounds_ok r.
  Proof.
    intros rec Hrec. induction l1 as [|a1 l1 IH]; intros l2 m r B H.
    - rewrite go_nil in H. injection H as <-. exact B.
    - apply go_inv in H. destruct H as [a2 [l2' [-> [->|[m' [S G]]]]]]; [apply bounds_nil|].
      eapply IH; [|exact G]. eapply step_bounds; eauto.
  Qed.

  Lemma topvar_bounds : forall t1 t2 m, TopVar w any t1 t2 m -> bounds_ok m.
  Proof.
    intros t1 t2 m [T [-> [b2 [B2 C]]]] x vv b v [I|[]] HB. injection I as -> <-.
    change 20 with (S 19) in B2. rewrite (bound_rec_closed w any 19 x vv b HB) in B2.
    injection B2 as <-. exists b. split; [apply py_eqb_refl|].
    destruct C as [C|[y [E C]]]; [discriminate C|]. injection E as <-.
    destruct C as [C|[T1 [x1 [B1 C]]]]; [left; exact C|].
    right. split; [exact T1|]. exists x1. split; [exact B1 | exact C].
  Qed.

  Lemma unify_bounds_ok : forall fuel same t1 t2 m,
    unify w alias any fuel same t1 t2 = Val m -> bounds_ok m.
  Proof.
    induction fuel as [|f IH]; intros same t1 t2 m H; [discriminate H|].
    apply unify_inv in H. destruct H as [->|[[_ [_ [s [rest [_ H]]]]]|[_ H]]].
    - apply bounds_nil.
    - eapply IH; exact H.
    - apply unify_rest_inv in H. destruct H as [->|[T|[_ [c [a1 [a2 [_ [_ H]]]]]]]].
      + apply bounds_nil.
      + eapply topvar_bounds; exact T.
      + eapply go_bounds; [|apply bounds_nil|exact H]. intros a b r. apply IH.
  Qed.
End Bounds.

(* the strongest true form: the bound is matched up to Python equality (any `same`) *)
Lemma unify_bounds_upto_lemma : forall w al any fuel same t1 t2 m k v x vv b,
  unify w al any fuel same t1 t2 = Val m -> In (k, Some v) m -> k = TVar x vv (Some b) ->
  has_tv b = false -> exists b', py_eqb b' b = true /\ satisfies w any v b'.
Proof.
  intros w al any fuel same t1 t2 m k v x vv b H I -> HB.
  eapply (unify_bounds_ok w al any fuel same t1 t2 m H); eauto.
Qed.

(* extra hypothesis: Python equality determines the bound (it contains no builtin, whose
   primitive flag == ignores) *)
Lemma unify_bounds_partial_lemma : forall w al any fuel t1 t2 m k v x vv b,
  (forall b', py_eqb b' b = true -> b' = b) ->
  unify w al any fuel true t1 t2 = Val m -> In (k, Some v) m -> k = TVar x vv (Some b) ->
  has_tv b = false -> satisfies w any v b.
Proof.
  intros w al any fuel t1 t2 m k v x vv b L H I K HB.
  destruct (unify_bounds_upto_lemma _ _ _ _ _ _ _ _ _ _ _ _ _ H I K HB) as [b' [E S]].
  rewrite <- (L b' E). exact S.
Qed.

(* the witness: D<out P, in Q>; C<T, T'> : D<T, QA>, D<T', K>; builtins K <: QA, J <: BP.
   X = TVar 5 (bound D<BP, K-primitive>), X' = TVar 5 (bound D<BP, K>) are == in Python.
   unify (A<C<BP,J>, C<BP,J-primitive>>, A<X, X'>) = {X: C<BP,J-primitive>}, which is not a
   subtype of the bound of the key object X. *)
Definition bi5 (s : list nat) : binfo :=
  {| b_supers := s; b_bottom := false; b_assign := []; b_has_prim := true |}.
Definition w5 : world :=
  {| w_ct := [ (1, {| c_params := [TVar 0 Cov None; TVar 1 Contra None]; c_supers := [] |});
               (2, {| c_params := [TVar 0 Inv None; TVar 1 Inv None];
                      c_supers := [TApp 1 [TVar 0 Inv None; TBuiltin 11 false];
                                   TApp 1 [TVar 1 Inv None; TBuiltin 10 false]] |});
               (3, {| c_params := [TVar 0 Inv None; TVar 1 Inv None]; c_supers := [] |}) ];
     w_bt := [ (10, bi5 [11]); (11, bi5 []); (12, bi5 [13]); (13, bi5 []) ];
     w_array := None |}.
Definition b5  : ty := TApp 1 [TBuiltin 13 false; TBuiltin 10 true].
Definition b5' : ty := TApp 1 [TBuiltin 13 false; TBuiltin 10 false].
Definition T5a : ty := TApp 2 [TBuiltin 13 false; TBuiltin 12 false].
Definition T5b : ty := TApp 2 [TBuiltin 13 false; TBuiltin 12 true].

Lemma unify_bounds_refuted_lemma :
  ~ (forall w al any fuel t1 t2 m k v x vv b,
       unify w al any fuel true t1 t2 = Val m -> In (k, Some v) m -> k = TVar x vv (Some b) ->
       has_tv b = false -> satisfies w any v b).
Proof.
  intros H.
  specialize (H w5 [] 13 5 (TApp 3 [T5a; T5b]) (TApp 3 [TVar 5 Inv (Some b5); TVar 5 Inv (Some b5')])
                [(TVar 5 Inv (Some b5), Some T5b)] (TVar 5 Inv (Some b5)) T5b 5 Inv b5).
  assert (E : unify w5 [] 13 5 true (TApp 3 [T5a; T5b])
                (TApp 3 [TVar 5 Inv (Some b5); TVar 5 Inv (Some b5')]) =
              Val [(TVar 5 Inv (Some b5), Some T5b)]) by (vm_compute; reflexivity).
  specialize (H E (or_introl eq_refl) eq_refl eq_refl).
  destruct H as [H|[H _]].
  - assert (E2 : is_subtype w5 sub_fuel T5b b5 = Rf) by (vm_compute; reflexivity).
    rewrite E2 in H. discriminate H.
  - discriminate H.
Qed.

(* ====================================================================================== *)
(* U4: the answer is a unifier                                                             *)
(* ====================================================================================== *)
Scheme MatchesG_mind := Minimality for MatchesG Sort Prop
  with MatchArgsG_mind := Minimality for MatchArgsG Sort Prop
  with MatchArgG_mind := Minimality for MatchArgG Sort Prop.
Combined Scheme MatchesG_mutind from MatchesG_mind, MatchArgsG_mind, MatchArgG_mind.

Lemma extends_refl : forall m, extends m m.
Proof. intros m k v H. exists v. split; [exact H | apply py_eqb_refl]. Qed.

Lemma extends_trans : forall a b c, extends a b -> extends b c -> extends a c.
Proof.
  intros a b c H1 H2 k v G. destruct (H1 _ _ G) as [v1 [G1 E1]]. destruct (H2 _ _ G1) as [v2 [G2 E2]].
  exists v2. split; [exact G2 | eapply py_eqb_trans; eauto].
Qed.

Lemma extends_update : forall m k v m', update_map m k v = Some m' -> extends m m'.
Proof.
  intros m k v m' U k1 v1 G. destruct (update_map_spec m k v) as [S _].
  destruct (S _ U) as [S1 [_ [S3 S4]]]. destruct (py_eqb k1 k) eqn:E.
  - rewrite (tv_get_cong m k1 k E) in G. destruct (S1 _ G) as [x [-> Ex]].
    exists x. split; [apply S3; exact E | exact Ex].
  - exists v1. split; [rewrite (S4 _ E); exact G | apply py_eqb_refl].
Qed.

Lemma extends_merge_l : forall res m m', merge m res = Some m' -> extends m m'.
Proof.
  induction res as [|[k0 v0] res IH]; intros m m' H.
  - rewrite merge_nil in H. injection H as <-. apply extends_refl.
  - rewrite merge_cons in H. destruct (update_map m k0 v0) as [m1|] eqn:U; [|discriminate].
    eapply extends_trans; [eapply extends_update; exact U | apply IH; exact H].
Qed.

Lemma extends_merge_r : forall res m m', merge m res = Some m' -> keys_distinct res = true -> extends res m'.
Proof.
  intros res m m' H KD k v G. destruct (merge_spec _ _ _ H KD) as [S _].
  destruct (S _ _ G) as [S1 _]. exists v. split; [exact S1 | apply py_eqb_refl].
Qed.

Lemma matchesG_mono : forall ob m m', extends m m' ->
  (forall p t, MatchesG ob m p t -> MatchesG ob m' p t) /\
  (forall ps ts, MatchArgsG ob m ps ts -> MatchArgsG ob m' ps ts) /\
  (forall p t, MatchArgG ob m p t -> MatchArgG ob m' p t).
Proof.
  intros ob m m' X. apply MatchesG_mutind.
  - intros. apply G_Closed; assumption.
  - intros p t v T G E. destruct (X _ _ G) as [v' [G' E']]. eapply G_Assigned; [exact T | exact G' |].
    rewrite py_eqb_sym in E'. eapply py_eqb_trans; eauto.
  - intros. apply G_Bounded; assumption.
  - intros. apply G_App; assumption.
  - apply GA_Nil.
  - intros. apply GA_Cons; assumption.
  - intros. apply GG_Star.
  - intros. apply GG_Proj; assumption.
  - intros. apply GG_Plain; assumption.
Qed.

Lemma matchesG_strict_all : forall m,
  (forall p t, MatchesG false m p t -> Matches m p t) /\
  (forall ps ts, MatchArgsG false m ps ts -> MatchArgs m ps ts) /\
  (forall p t, MatchArgG false m p t -> MatchArg m p t).
Proof.
  intros m. apply MatchesG_mutind.
  - intros. apply M_Closed; assumption.
  - intros. eapply M_Assigned; eauto.
  - intros. discriminate.
  - intros. apply M_App; assumption.
  - apply MA_Nil.
  - intros. apply MA_Cons; assumption.
  - intros. apply MG_Star.
  - intros. apply MG_Proj; assumption.
  - intros. apply MG_Plain; assumption.
Qed.

Lemma matchesG_strict : forall m p t, MatchesG false m p t -> Matches m p t.
Proof. intros m. apply (matchesG_strict_all m). Qed.

Section Sound.
  Context (w : world) (alias : list (nat * nat)) (any : nat).

  (* a variable-free pattern yields the empty assignment *)
  Lemma go_closed : forall rec l1 l2 m r, existsb has_tv l2 = false ->
    go_args w rec l1 l2 m = Val r -> r = [] \/ r = m.
  Proof.
    intros rec. induction l1 as [|a1 l1 IH]; intros l2 m r C H.
    - rewrite go_nil in H. injection H as <-. right. reflexivity.
    - apply go_inv in H. destruct H as [a2 [l2' [-> [->|[m' [S G]]]]]]; [left; reflexivity|].
      cbn [existsb] in C. apply orb_false_iff in C. destruct C as [C1 C2].
      assert (E : m' = m).
      { destruct S as [v|a1 a2 y1 y2 m' P I]; [reflexivity|].
        assert (C3 : has_tv y2 = false) by (destruct P; [exact C1 | exact C1]).
        destruct I; try reflexivity; try congruence; cbn in C3; discriminate C3. }
      subst m'. apply (IH _ _ _ C2 G).
  Qed.

  Lemma unify_closed_empty : forall f t1 t2 m, has_tv t2 = false ->
    unify w alias any f true t1 t2 = Val m -> m = [].
  Proof.
    intros [|f] t1 t2 m C H; [discriminate H|].
    apply unify_true_inv in H. destruct H as [->|[[T _]|[_ [c [a1 [a2 [-> [-> H]]]]]]]].
    - reflexivity.
    - destruct t2; try discriminate T. discriminate C.
    - cbn [has_tv] in C. destruct (go_closed _ _ _ _ _ C H); assumption.
  Qed.

  Variable ob : bool.

  Lemma inner_sound : forall f m y1 y2 m',
    (forall t1 t2 r, arity_ok w t1 = true -> arity_ok w t2 = true ->
        (ob = true \/ closed_bounds t2 = true) ->
        unify w alias any f true t1 t2 = Val r -> r <> [] -> MatchesG ob r t2 t1) ->
    arity_ok w y1 = true -> arity_ok w y2 = true -> (ob = true \/ closed_bounds y2 = true) ->
    Inner w (unify w alias any f true) m y1 y2 m' ->
    extends m m' /\ MatchesG ob m' y2 y1.
  Proof.
    intros f m y1 y2 m' IHf A1 A2 CB I. destruct I.
    - split; [apply extends_refl | apply G_Closed; assumption].
    - split; [eapply extends_update; eassumption|].
      destruct (update_map_spec m (TVar x v (Some vb)) (Some y1)) as [S _].
      destruct (S _ H0) as [_ [S2 _]].
      eapply G_Assigned; [reflexivity | exact S2 | apply py_eqb_refl].
    - split; [eapply extends_merge_l; eassumption|].
      destruct CB as [CB|CB].
      + apply G_Bounded; [exact CB|].
        assert (KD : keys_distinct res = true) by (eapply unify_keys_distinct_lemma; eassumption).
        apply (proj1 (matchesG_mono ob res m' (extends_merge_r _ _ _ H4 KD))).
        apply IHf; try assumption. left. exact CB.
      + exfalso. cbn [closed_bounds] in CB. apply negb_true_iff in CB.
        apply H3. eapply unify_closed_empty; eassumption.
    - split; [eapply extends_update; eassumption|].
      destruct (update_map_spec m (TVar x v None) (Some y1)) as [S _].
      destruct (S _ H) as [_ [S2 _]].
      eapply G_Assigned; [reflexivity | exact S2 | apply py_eqb_refl].
    - split; [eapply extends_merge_l; eassumption|].
      assert (KD : keys_distinct res = true) by (eapply unify_keys_distinct_lemma; eassumption).
      apply (proj1 (matchesG_mono ob res m' (extends_merge_r _ _ _ H2 KD))).
      apply IHf; assumption.
  Qed.

  Lemma step_sound : forall f m a1 a2 m',
    (forall t1 t2 r, arity_ok w t1 = true -> arity_ok w t2 = true ->
        (ob = true \/ closed_bounds t2 = true) ->
        unify w alias any f true t1 t2 = Val r -> r <> [] -> MatchesG ob r t2 t1) ->
    arity_ok w a1 = true -> arity_ok w a2 = true -> (ob = true \/ closed_bounds a2 = true) ->
    Step w (unify w alias any f true) m a1 a2 m' ->
    extends m m' /\ MatchArgG ob m' a2 a1.
  Proof.
    intros f m a1 a2 m' IHf A1 A2 CB S. destruct S as [v|a1 a2 y1 y2 m' P I].
    - split; [apply extends_refl | apply GG_Star].
    - destruct P as [a1 a2 W|v y1 y2].
      + destruct (inner_sound f m a1 a2 m' IHf A1 A2 CB I) as [X M].
        split; [exact X | apply GG_Plain; assumption].
      + destruct (inner_sound f m y1 y2 m' IHf A1 A2 CB I) as [X M].
        split; [exact X | apply GG_Proj; assumption].
  Qed.

  Lemma go_sound : forall f,
    (forall t1 t2 r, arity_ok w t1 = true -> arity_ok w t2 = true ->
        (ob = true \/ closed_bounds t2 = true) ->
        unify w alias any f true t1 t2 = Val r -> r <> [] -> MatchesG ob r t2 t1) ->
    forall l1 l2 m r, length l1 = length l2 ->
      forallb (arity_ok w) l1 = true -> forallb (arity_ok w) l2 = true ->
      (ob = true \/ forallb closed_bounds l2 = true) ->
      go_args w (unify w alias any f true) l1 l2 m = Val r -> r <> [] ->
      extends m r /\ MatchArgsG ob r l2 l1.
  Proof.
    intros f IHf. induction l1 as [|a1 l1 IH]; intros l2 m r L A1 A2 CB H NE.
    - destruct l2; [|discriminate L]. rewrite go_nil in H. injection H as <-.
      split; [apply extends_refl | apply GA_Nil].
    - apply go_inv in H. destruct H as [a2 [l2' [-> [->|[m' [S G]]]]]]; [contradiction NE; reflexivity|].
      cbn [forallb] in A1, A2. apply andb_prop in A1, A2. destruct A1 as [A1 A1'], A2 as [A2 A2'].
      assert (CB1 : ob = true \/ closed_bounds a2 = true).
      { destruct CB as [CB|CB]; [left; exact CB|]. cbn [forallb] in CB. apply andb_prop in CB. right. tauto. }
      assert (CB2 : ob = true \/ forallb closed_bounds l2' = true).
      { destruct CB as [CB|CB]; [left; exact CB|]. cbn [forallb] in CB. apply andb_prop in CB. right. tauto. }
      destruct (step_sound f m a1 a2 m' IHf A1 A2 CB1 S) as [X1 M1].
      cbn [length] in L. injection L as L.
      destruct (IH l2' m' r L A1' A2' CB2 G NE) as [X2 M2].
      split; [eapply extends_trans; eassumption|].
      apply GA_Cons; [|exact M2]. apply (proj2 (proj2 (matchesG_mono ob m' r X2))). exact M1.
  Qed.

  Lemma arity_app : forall c l, arity_ok w (TApp c l) = true ->
    (exists d, find_class w c = Some d /\ length l = length (c_params d)) /\ forallb (arity_ok w) l = true.
  Proof.
    intros c l H. cbn [arity_ok] in H. apply andb_prop in H. destruct H as [H1 H2]. split; [|exact H2].
    destruct (find_class w c) as [d|]; [|discriminate]. exists d. split; [reflexivity|].
    apply Nat.eqb_eq. exact H1.
  Qed.

  Lemma unify_matchesG : forall f t1 t2 m, arity_ok w t1 = true -> arity_ok w t2 = true ->
    (ob = true \/ closed_bounds t2 = true) ->
    unify w alias any f true t1 t2 = Val m -> m <> [] -> MatchesG ob m t2 t1.
  Proof.
    induction f as [|f IH]; intros t1 t2 m A1 A2 CB H NE; [discriminate H|].
    apply unify_true_inv in H. destruct H as [->|[[T [-> _]]|[_ [c [a1 [a2 [-> [-> H]]]]]]]].
    - contradiction NE; reflexivity.
    - eapply G_Assigned; [exact T | | apply py_eqb_refl]. cbn [tv_get]. rewrite py_eqb_refl. reflexivity.
    - apply arity_app in A1, A2. destruct A1 as [[d1 [F1 L1]] A1], A2 as [[d2 [F2 L2]] A2].
      rewrite F1 in F2. injection F2 as <-.
      assert (CB' : ob = true \/ forallb closed_bounds a2 = true).
      { destruct CB as [CB|CB]; [left; exact CB | right; exact CB]. }
      destruct (go_sound f IH a1 a2 [] m (eq_trans L1 (eq_sym L2)) A1 A2 CB' H NE) as [_ M].
      apply G_App. exact M.
  Qed.
End Sound.

(* U4, partial: extra hypotheses = (1) both types respect the declared arities,
   (2) every bounded variable of the pattern has a variable-free bound.
   (has_tv t1 = false is not needed.) *)
Lemma unify_matches_partial_lemma : forall w al any fuel t1 t2 m,
  arity_ok w t1 = true -> arity_ok w t2 = true -> closed_bounds t2 = true ->
  unify w al any fuel true t1 t2 = Val m -> m <> [] -> Matches m t2 t1.
Proof.
  intros w al any fuel t1 t2 m A1 A2 CB H NE. apply matchesG_strict.
  eapply unify_matchesG; eauto.
Qed.

(* U4, weak: only the arities are assumed; a bounded variable may match either through its
   assignment or through its bound *)
Lemma unify_matches_weak_lemma : forall w al any fuel t1 t2 m,
  arity_ok w t1 = true -> arity_ok w t2 = true ->
  unify w al any fuel true t1 t2 = Val m -> m <> [] -> MatchesW m t2 t1.
Proof.
  intros w al any fuel t1 t2 m A1 A2 H NE. unfold MatchesW. eapply unify_matchesG; eauto.
Qed.

(* the witness: class 1 = Box<T>, class 2 = A<T1, T2>; X <: Box<Y>.
   unify (A<Nothing, Box<Int>>, A<X, X>) = {X: Nothing, Y: Int}: the first occurrence of X is
   assigned (Nothing is a subtype of the bound), the second is matched against the bound. *)
Definition w4 : world :=
  {| w_ct := [ (1, {| c_params := [TVar 0 Inv None]; c_supers := [] |});
               (2, {| c_params := [TVar 0 Inv None; TVar 1 Inv None]; c_supers := [] |}) ];
     w_bt := [ (1, {| b_supers := []; b_bottom := false; b_assign := []; b_has_prim := false |});
               (2, {| b_supers := []; b_bottom := false; b_assign := []; b_has_prim := false |}) ];
     w_array := None |}.
Definition Int4 : ty := TBuiltin 1 false.
Definition Str4 : ty := TBuiltin 2 false.
Definition Y4 : ty := TVar 7 Inv None.
Definition X4 : ty := TVar 6 Inv (Some (TApp 1 [Y4])).
Definition Z4 : ty := TVar 8 Inv None.

Ltac kill :=
  match goal with
  | C : has_tv _ = false |- _ => solve [vm_compute in C; discriminate C]
  | C : is_tvar _ = true |- _ => solve [vm_compute in C; discriminate C]
  | C : tv_get _ _ = None |- _ => solve [vm_compute in C; discriminate C]
  end.

Lemma unify_matches_refuted_lemma :
  ~ (forall w al any fuel t1 t2 m, has_tv t1 = false ->
       unify w al any fuel true t1 t2 = Val m -> m <> [] -> Matches m t2 t1).
Proof.
  intros H.
  specialize (H w4 [] 1 5 (TApp 2 [TNothing; TApp 1 [Int4]]) (TApp 2 [X4; X4])
                [(X4, Some TNothing); (Y4, Some Int4)] eq_refl).
  assert (E : unify w4 [] 1 5 true (TApp 2 [TNothing; TApp 1 [Int4]]) (TApp 2 [X4; X4]) =
              Val [(X4, Some TNothing); (Y4, Some Int4)]) by (vm_compute; reflexivity).
  specialize (H E). assert (NE : [(X4, Some TNothing); (Y4, Some Int4)] <> []) by discriminate.
  specialize (H NE). clear E NE.
  inversion H; subst; try kill.
  match goal with MA : MatchArgs _ _ _ |- _ => inversion MA; subst; clear MA end.
  match goal with MA : MatchArgs _ _ _ |- _ => inversion MA; subst; clear MA end.
  match goal with M : MatchArg _ _ (TApp _ _) |- _ => inversion M; subst; clear M end.
  match goal with M : Matches _ _ (TApp _ _) |- _ => inversion M; subst; clear M; try kill end.
  match goal with G : tv_get _ _ = Some (Some _) |- _ => vm_compute in G; injection G as <- end.
  match goal with E : py_eqb _ _ = true |- _ => vm_compute in E; discriminate E end.
Qed.

(* the arity hypothesis is needed as well: A<Int> against A<X, Y> *)
Lemma unify_matches_arity_needed_lemma :
  ~ (forall w al any fuel t1 t2 m, has_tv t1 = false -> closed_bounds t2 = true ->
       unify w al any fuel true t1 t2 = Val m -> m <> [] -> Matches m t2 t1).
Proof.
  intros H.
  specialize (H w4 [] 1 5 (TApp 2 [Int4]) (TApp 2 [Z4; Y4]) [(Z4, Some Int4)] eq_refl eq_refl).
  assert (E : unify w4 [] 1 5 true (TApp 2 [Int4]) (TApp 2 [Z4; Y4]) = Val [(Z4, Some Int4)])
    by (vm_compute; reflexivity).
  specialize (H E). assert (NE : [(Z4, Some Int4)] <> []) by discriminate.
  specialize (H NE). clear E NE.
  inversion H; subst; try kill.
  match goal with MA : MatchArgs _ _ _ |- _ => inversion MA; subst; clear MA end.
  match goal with MA : MatchArgs _ _ _ |- _ => inversion MA end.
Qed.

(* non-vacuity *)
Example unify_example_out :
  unify w4 [] 1 5 true (TApp 2 [TApp 1 [Int4]; TWild Cov (Some Str4)])
                       (TApp 2 [TApp 1 [Z4]; TWild Cov (Some Y4)])
  = Val [(Z4, Some Int4); (Y4, Some Str4)].
Proof. vm_compute. reflexivity. Qed.

Example unify_example_in :
  unify w4 [] 1 5 true (TApp 2 [TApp 1 [Int4]; TWild Cov (Some Str4)])
                       (TApp 2 [TApp 1 [Z4]; TWild Contra (Some Y4)])
  = Val [].
Proof. vm_compute. reflexivity. Qed.

Example unify_example_conflict :
  unify w4 [] 1 5 true (TApp 2 [Int4; Str4]) (TApp 2 [Y4; Y4]) = Val [].
Proof. vm_compute. reflexivity. Qed.

Example unify_example_matches :
  Matches [(Z4, Some Int4); (Y4, Some Str4)]
          (TApp 2 [TApp 1 [Z4]; TWild Cov (Some Y4)])
          (TApp 2 [TApp 1 [Int4]; TWild Cov (Some Str4)]).
Proof.
  eapply unify_matches_partial_lemma with (w := w4) (al := []) (any := 1) (fuel := 5);
    try (vm_compute; reflexivity); discriminate.
Qed.

(* ====================================================================================== *)
(* U6: supertype-matching mode                                                             *)
(* ====================================================================================== *)
Lemma unify_supertype_mode_full : forall w al any fuel t1 t2 m,
  unify w al any fuel false t1 t2 = Val m -> m <> [] ->
  exists s f', last_super_chain w t1 s /\
               unify w al any (S f') false s t2 = Val m /\
               (nm_eqb (name_of al s) (name_of al t2) = true \/ is_tvar t2 = true) /\
               unify_rest w any (unify w al any f' true) s t2 = Val m.
Proof.
  intros w al any. induction fuel as [|f IH]; intros t1 t2 m H NE; [discriminate H|].
  pose proof H as H0. apply unify_inv in H. destruct H as [->|[[_ [_ [s [rest [R H]]]]]|[N H]]].
  - contradiction NE; reflexivity.
  - destruct (IH _ _ _ H NE) as [s' [f' [C [U [D B]]]]]. exists s', f'.
    split; [eapply LS_step; eassumption|]. split; [exact U|]. split; [exact D | exact B].
  - exists t1, f. split; [apply LS_refl|]. split; [exact H0|]. split; [|exact H].
    specialize (N eq_refl). apply andb_false_iff in N. destruct N as [N|N]; apply negb_false_iff in N.
    + left. exact N.
    + right. exact N.
Qed.

Lemma unify_supertype_mode_lemma : forall w al any fuel t1 t2 m,
  unify w al any fuel false t1 t2 = Val m -> m <> [] ->
  exists s f', last_super_chain w t1 s /\
               unify w al any f' false s t2 = Val m /\
               (nm_eqb (name_of al s) (name_of al t2) = true \/ is_tvar t2 = true).
Proof.
  intros w al any fuel t1 t2 m H NE.
  destruct (unify_supertype_mode_full _ _ _ _ _ _ _ H NE) as [s [f' [C [U [D _]]]]].
  exists s, (S f'). auto.
Qed.
