(* Types/ProjCorr.v -- evaluating the hypotheses of the projection-fragment theorems
   (Types/Properties_C06_proj.v) on the explored (table, s, t, implementation answer) cases, so
   the evidence records how often the theorem's premises are met by what the real code was run
   on, and that inside the fragment no True answer is refuted by the reference checker.
   Definitions only. *)
From Coq Require Import List Arith Bool.
Import ListNotations.
From Heph Require Import Types.Syntax Types.Subst Types.Subtype Types.Decl Types.TableOk
  Types.Corr Types.Judge Types.ProjFrag Types.ProjFragC Types.ProjSafe.

Definition types_in_frag (w : world) (s t : ty) : bool :=
  proj_closed s && proj_closed t && wf_ty w 20 s && wf_ty w 20 t.

Definition b2n (b : bool) : nat := if b then 1 else 0.

Definition add9 (a b : list nat) : list nat :=
  (fix go (a b : list nat) : list nat :=
     match a, b with
     | x :: a', y :: b' => (x + y) :: go a' b'
     | _, _ => []
     end) a b.

Definition types_in_ground (w : world) (s t : ty) : bool :=
  ground w s && ground w t && wf_ty w 20 s && wf_ty w 20 t.

(* counters of one case, given that the table conditions hold (tb: table_ok, params_direct;
   tbc: also supers_solid):
   [pairs; types in the fragment; inside (table and types); inside with a projection somewhere;
    inside and the two types differ; inside answered True; inside answered False;
    inside True confirmed by sub_ref; inside True REFUTED by sub_ref (must stay 0);
    inside the hypotheses of the converse (ground types); ... with a projection; ... answered False;
    ... False confirmed by sub_ref; ... False REFUTED by sub_ref (must stay 0);
    inside the hypotheses of the projection-free soundness theorem (tk: table_ok, plain closed types);
    inside the hypotheses of one of the three soundness theorems;
    inside the hypotheses of the per-type theorem is_subtype_sound_safe_partial (table_ok, types in the
    fragment, safe_allb 12); ... on a table that is not params_direct; ... with a projection;
    ... answered True and confirmed by sub_ref; ... answered True and REFUTED by sub_ref (must stay 0)] *)
(* hypotheses of the projection-free theorems of Properties_C06.v (is_subtype_sound_pf) *)
Definition types_in_pf (w : world) (s t : ty) : bool :=
  plain_closed s && plain_closed t && arity_ok w s && arity_ok w t.

(* hypotheses on the types of is_subtype_sound_safe_partial *)
Definition types_safe (w : world) (s t : ty) : bool :=
  types_in_frag w s t && safe_allb w 12 s && safe_allb w 12 t.

Definition case_counts (w : world) (fuel : nat) (tk tb tbc : bool) (c : sub_case) : list nat :=
  match c with
  | (s, t, o1, _) =>
      let ty_in := types_in_frag w s t in
      let inside := tb && ty_in in
      let ginside := tbc && types_in_ground w s t in
      let sinside := tk && types_safe w s t in
      let r := if ((inside || sinside) && Nat.eqb o1 1) || (ginside && Nat.eqb o1 0) then sub_ref w fuel [] s t else Unk in
      [1; b2n ty_in; b2n inside;
       b2n (inside && (has_wild_anywhere s || has_wild_anywhere t));
       b2n (inside && negb (ty_eqb s t));
       b2n (inside && Nat.eqb o1 1); b2n (inside && Nat.eqb o1 0);
       b2n (inside && Nat.eqb o1 1 && match r with Yes => true | _ => false end);
       b2n (inside && Nat.eqb o1 1 && match r with No => true | _ => false end);
       b2n ginside;
       b2n (ginside && (has_wild_anywhere s || has_wild_anywhere t));
       b2n (ginside && Nat.eqb o1 0);
       b2n (ginside && Nat.eqb o1 0 && match r with No => true | _ => false end);
       b2n (ginside && Nat.eqb o1 0 && match r with Yes => true | _ => false end);
       b2n (tk && types_in_pf w s t);
       b2n (inside || sinside || (tk && types_in_pf w s t));
       b2n sinside; b2n (sinside && negb tb);
       b2n (sinside && (has_wild_anywhere s || has_wild_anywhere t));
       b2n (sinside && Nat.eqb o1 1 && match r with Yes => true | _ => false end);
       b2n (sinside && Nat.eqb o1 1 && match r with No => true | _ => false end)]
  end.

Definition zero9 : list nat := [0; 0; 0; 0; 0; 0; 0; 0; 0; 0; 0; 0; 0; 0; 0; 0; 0; 0; 0; 0; 0].

(* per group: table_ok, params_direct, supers_solid, then the sums *)
Definition group_counts (fuel : nat) (g : sub_group) : list nat :=
  match g with
  | (w, cs) =>
      let tk := table_ok w in
      let pd := params_direct w in
      let sg := supers_solid w in
      b2n tk :: b2n pd :: b2n sg ::
      fold_left (fun acc c => add9 acc (case_counts w fuel tk (tk && pd) (tk && pd && sg) c)) cs zero9
  end.

Definition groups_counts (fuel : nat) (gs : list sub_group) : list (list nat) := map (group_counts fuel) gs.

(* the cases inside the hypotheses whose answer the reference checker contradicts:
   (group, case, 1) a True answer refuted, (group, case, 2) a False answer on ground types refuted,
   (group, case, 3) a True answer refuted inside the per-type hypotheses on a table that is not params_direct *)
Fixpoint refuted_inside (fuel : nat) (g : nat) (gs : list sub_group) : list (nat * nat * nat) :=
  match gs with
  | [] => []
  | (w, cs) :: gs' =>
      (if table_ok w then
         let pd := params_direct w in
         let sg := supers_solid w in
         (fix go (i : nat) (cs : list sub_case) : list (nat * nat * nat) :=
            match cs with
            | [] => []
            | (s, t, o1, _) :: cs' =>
                (if pd && types_in_frag w s t && Nat.eqb o1 1 &&
                    match sub_ref w fuel [] s t with No => true | _ => false end
                 then [(g, i, 1)] else []) ++
                (if pd && sg && types_in_ground w s t && Nat.eqb o1 0 &&
                    match sub_ref w fuel [] s t with Yes => true | _ => false end
                 then [(g, i, 2)] else []) ++
                (if negb pd && types_safe w s t && Nat.eqb o1 1 &&
                    match sub_ref w fuel [] s t with No => true | _ => false end
                 then [(g, i, 3)] else []) ++ go (S i) cs'
            end) 0 cs
       else []) ++ refuted_inside fuel (S g) gs'
  end.
