(* Types/ProjSound.v -- soundness of a positive answer of the model is_subtype on the
   projection fragment (closed types with bounded use-site projections as type arguments at
   any depth), under the table condition params_direct. *)
From Coq Require Import List Arith Bool Lia.
Import ListNotations.
From Heph Require Import Types.Syntax Types.Subst Types.Subtype Types.Decl Types.TableOk
  Types.PFBase Types.SubtypePF Types.ProjFrag.

(* ---------- the fragment ---------- *)
Lemma frag_app : forall w c l, frag w (TApp c l) =
  match find_class w c with
  | None => false
  | Some d => Nat.eqb (length l) (length (c_params d)) && args_ok (frag w) (c_params d) l
  end.
Proof. reflexivity. Qed.

Lemma args_ok_cons : forall fr prm ps a l,
  args_ok fr (prm :: ps) (a :: l) = arg_ok fr prm a && args_ok fr ps l.
Proof. reflexivity. Qed.

Lemma frag_not_wild : forall w a, frag w a = true -> is_wild a = false.
Proof. intros w a H. destruct a; try reflexivity; discriminate. Qed.

Lemma arg_ok_plain : forall fr prm a, is_wild a = false -> arg_ok fr prm a = fr a.
Proof. intros fr prm a H. destruct a; try reflexivity; discriminate. Qed.

(* the three shapes of an admissible argument *)
Lemma arg_ok_cases : forall w prm a, arg_ok (frag w) prm a = true ->
  (is_wild a = false /\ frag w a = true) \/
  (exists u, a = TWild Cov (Some u) /\ compat prm Cov = true /\ frag w u = true) \/
  (exists u, a = TWild Contra (Some u) /\ compat prm Contra = true /\ frag w u = true).
Proof.
  intros w prm a H. destruct a as [b pr|c|c l|c|x v ob|v ob| |i u l]; cbn in H; try discriminate;
    try (left; split; [reflexivity|exact H]).
  destruct v, ob as [b|]; try discriminate; apply andb_prop in H; destruct H as [H1 H2].
  - right. left. eauto.
  - right. right. eauto.
Qed.

Section FragInd.
  Variable w : world.
  Variable P : ty -> Prop.
  Hypothesis HB : forall b pr, P (TBuiltin b pr).
  Hypothesis HN : P TNothing.
  Hypothesis HC : forall c, P (TClass c).
  Hypothesis HA : forall c d l, find_class w c = Some d -> length l = length (c_params d) ->
    args_ok (frag w) (c_params d) l = true ->
    (forall a, In a l -> frag w a = true -> P a) ->
    (forall v b, In (TWild v (Some b)) l -> frag w b = true -> P b) ->
    P (TApp c l).

  Lemma frag_ind : forall t, frag w t = true -> P t.
  Proof.
    assert (H : forall t, (frag w t = true -> P t) /\
                          (match t with TWild _ (Some b) => frag w b = true -> P b | _ => True end)).
    { apply ty_ind'; intros; split; try exact I; try (intros; discriminate); auto.
      - intros Hf. rewrite frag_app in Hf. destruct (find_class w c) as [d|] eqn:Hd; [|discriminate].
        apply andb_prop in Hf. destruct Hf as [Hl Ha]. apply Nat.eqb_eq in Hl.
        apply (HA c d l Hd Hl Ha).
        + intros a Hin Hfa. rewrite Forall_forall in H. apply (H a Hin). exact Hfa.
        + intros v b Hin Hfb. rewrite Forall_forall in H. apply (H _ Hin). exact Hfb.
      - apply H. }
    intros t. apply H.
  Qed.
End FragInd.

Lemma frag_no_tv : forall w t, frag w t = true -> has_tv t = false.
Proof.
  intros w. apply frag_ind; try reflexivity.
  intros c d l Hd Hl Ha IH1 IH2. cbn [has_tv].
  destruct (existsb has_tv l) eqn:E; [|reflexivity]. exfalso.
  apply existsb_exists in E. destruct E as [a [Hin Ht]].
  clear Hd. revert Hl Ha. generalize (c_params d). intros ps Hl Ha.
  revert ps Hl Ha IH1 IH2 Hin. induction l as [|x l IHl]; intros ps Hl Ha IH1 IH2 Hin; [contradiction|].
  destruct ps as [|prm ps]; [discriminate|]. rewrite args_ok_cons in Ha.
  apply andb_prop in Ha. destruct Ha as [Hx Ha].
  destruct Hin as [->|Hin].
  - destruct (arg_ok_cases w prm a Hx) as [[_ Hf]|[[u [-> [_ Hf]]]|[u [-> [_ Hf]]]]].
    + rewrite (IH1 a (or_introl eq_refl) Hf) in Ht. discriminate.
    + cbn in Ht. rewrite (IH2 Cov u (or_introl eq_refl) Hf) in Ht. discriminate.
    + cbn in Ht. rewrite (IH2 Contra u (or_introl eq_refl) Hf) in Ht. discriminate.
  - apply (IHl ps); auto.
    + intros y Hy. apply IH1. right. exact Hy.
    + intros v b Hy. apply (IH2 v b). right. exact Hy.
Qed.

Lemma arg_no_tv : forall w prm a, arg_ok (frag w) prm a = true -> has_tv a = false.
Proof.
  intros w prm a H. destruct (arg_ok_cases w prm a H) as [[_ Hf]|[[u [-> [_ Hf]]]|[u [-> [_ Hf]]]]];
    cbn; eapply frag_no_tv; eauto.
Qed.

(* plain closed types with the right arities are in the fragment *)
Lemma good1_frag : forall w t, good1 w t = true -> frag w t = true.
Proof.
  intros w. apply (ty_ind' (fun t => good1 w t = true -> frag w t = true)); intros;
    try (unfold good1 in *; cbn in *; discriminate); try reflexivity.
  - unfold good1 in H. cbn in H. cbn. exact H.
  - destruct (good1_args _ _ _ H0) as [d [Hd [Hl [Hp Ha]]]].
    rewrite frag_app, Hd, Hl, Nat.eqb_refl. cbn [andb].
    generalize (c_params d). clear Hd Hl H0.
    induction H as [|a l Hx Hfl IH]; intros ps; [reflexivity|].
    destruct ps as [|prm ps]; [reflexivity|]. rewrite args_ok_cons.
    cbn in Hp, Ha. apply andb_prop in Hp. destruct Hp as [Hp1 Hp2].
    apply andb_prop in Ha. destruct Ha as [Ha1 Ha2].
    rewrite (arg_ok_plain _ _ _ (plain_not_wild _ Hp1)).
    rewrite Hx; [|unfold good1; rewrite Hp1, Ha1; reflexivity]. cbn [andb]. apply IH; auto.
Qed.

(* the hypotheses of the property in their original form imply the fragment *)
Lemma wf_frag : forall w n t, proj_closed t = true -> wf_ty w n t = true -> frag w t = true.
Proof.
  intros w n. induction n as [|n IH]; intros t Hp Hw; [discriminate|].
  destruct t as [b pr|c|c l|c|x v ob|v ob| |i u lo]; try discriminate; try reflexivity.
  - cbn in Hw. cbn. exact Hw.
  - cbn [wf_ty] in Hw. rewrite frag_app. destruct (find_class w c) as [d|]; [|discriminate].
    apply andb_prop in Hw. destruct Hw as [Hw Hgo]. apply andb_prop in Hw. destruct Hw as [Hl _].
    rewrite Hl. cbn [andb]. cbn [proj_closed] in Hp. clear Hl.
    revert Hp Hgo. generalize (c_params d). induction l as [|a l IHl]; intros ps Hp Hgo; [reflexivity|].
    destruct ps as [|prm ps]; [reflexivity|]. rewrite args_ok_cons.
    cbn [forallb] in Hp. apply andb_prop in Hp. destruct Hp as [Hp1 Hp2].
    apply andb_prop in Hgo. destruct Hgo as [Hg1 Hg2].
    rewrite (IHl ps Hp2 Hg2), andb_true_r.
    destruct a as [b pr|c'|c' l'|c'|x v ob|v ob| |i u lo]; try discriminate; cbn [arg_ok]; try (apply IH; assumption).
    destruct v, ob as [b|]; try discriminate.
    + apply andb_prop in Hp1. destruct Hp1 as [_ Hp1]. apply andb_prop in Hg1. destruct Hg1 as [Hc Hg1].
      unfold compat. rewrite Hc. cbn [andb]. apply IH; assumption.
    + apply andb_prop in Hp1. destruct Hp1 as [_ Hp1]. apply andb_prop in Hg1. destruct Hg1 as [Hc Hg1].
      unfold compat. rewrite Hc. cbn [andb]. apply IH; assumption.
Qed.

(* ---------- captured forms ---------- *)
Lemma open_arg_idem : forall p i j a, open_arg p i (open_arg p j a) = open_arg p j a.
Proof. intros p i j a. destruct a as [| | | | |v ob| |]; try reflexivity. destruct v, ob; reflexivity. Qed.

Lemma open_args_idem : forall p l i j, open_args p i (open_args p j l) = open_args p j l.
Proof.
  intros p l. induction l as [|a l IH]; intros i j; cbn; [reflexivity|].
  rewrite open_arg_idem, IH. reflexivity.
Qed.

Lemma open_args_length : forall p l i, length (open_args p i l) = length l.
Proof. intros p l. induction l as [|a l IH]; intros i; cbn; [reflexivity|]. rewrite IH. reflexivity. Qed.

Definition not_cap (t : ty) : Prop := forall i u lo, t <> TCap i u lo.

Lemma frag_not_cap : forall w t, frag w t = true -> not_cap t.
Proof. intros w t H i u lo E. subst t. discriminate. Qed.

(* a judgement about the opened form of an instantiation is a judgement about the instantiation *)
Lemma suba_open_transfer : forall w p c l t, not_cap t ->
  SubA w p (TApp c (open_args p 0 l)) t -> SubA w p (TApp c l) t.
Proof.
  intros w p c l t Hn H.
  inversion H as [| | | | | | | | | |p0 i u lo s0 Hs
                 |p0 c0 d args0 bargs Hd Hl1 Hl2 HC|p0 c0 d args0 s0 t0 Hd Hl1 Hin Hs]; subst.
  - exfalso. eapply Hn. reflexivity.
  - rewrite open_args_idem in HC. rewrite open_args_length in Hl1. eapply A_AppArgs; eauto.
  - rewrite open_args_idem in Hs. rewrite open_args_length in Hl1. eapply A_AppUp; eauto.
Qed.

Section CaptBasics.
  Variable w : world.

  Lemma capt1_open : forall prm a a' q i, capt1 w prm a a' -> open_arg q i a' = a'.
  Proof.
    intros prm a a' q i H. destruct H as [prm a Hf|prm u j Hc Hf|prm l j Hc Hf]; try reflexivity.
    pose proof (frag_not_wild _ _ Hf) as Hw. destruct a; try reflexivity; discriminate.
  Qed.

  Lemma captl_open : forall ps l l', captl w ps l l' -> forall q i, open_args q i l' = l'.
  Proof.
    intros ps l l' H. induction H as [|prm ps a l a' l' H1 HL IH]; intros q i; cbn; [reflexivity|].
    rewrite (capt1_open _ _ _ q i H1), IH. reflexivity.
  Qed.

  Lemma captl_len : forall ps l l', captl w ps l l' -> length l = length ps /\ length l' = length ps.
  Proof.
    intros ps l l' H. induction H as [|prm ps a l a' l' H1 HL [I1 I2]]; cbn; [auto|]. split; congruence.
  Qed.

  Lemma capt1_arg_ok : forall prm a a', capt1 w prm a a' -> arg_ok (frag w) prm a = true.
  Proof.
    intros prm a a' H. destruct H as [prm a Hf|prm u j Hc Hf|prm l j Hc Hf]; cbn.
    - rewrite arg_ok_plain; [exact Hf|]. eapply frag_not_wild; eauto.
    - rewrite Hc, Hf. reflexivity.
    - rewrite Hc, Hf. reflexivity.
  Qed.

  Lemma captl_args_ok : forall ps l l', captl w ps l l' -> args_ok (frag w) ps l = true.
  Proof.
    intros ps l l' H. induction H as [|prm ps a l a' l' H1 HL IH]; [reflexivity|].
    rewrite args_ok_cons, (capt1_arg_ok _ _ _ H1), IH. reflexivity.
  Qed.

  Lemma arg_ok_capt1 : forall prm a q i, arg_ok (frag w) prm a = true -> capt1 w prm a (open_arg q i a).
  Proof.
    intros prm a q i H. destruct (arg_ok_cases w prm a H) as [[Hw Hf]|[[u [-> [Hc Hf]]]|[u [-> [Hc Hf]]]]].
    - replace (open_arg q i a) with a; [constructor; exact Hf|].
      destruct a; try reflexivity; discriminate.
    - cbn. constructor; assumption.
    - cbn. constructor; assumption.
  Qed.

  Lemma args_ok_captl : forall ps l, args_ok (frag w) ps l = true -> length l = length ps ->
    forall q i, captl w ps l (open_args q i l).
  Proof.
    intros ps l. revert ps. induction l as [|a l IH]; intros ps H Hl q i.
    - destruct ps; [constructor|discriminate].
    - destruct ps as [|prm ps]; [discriminate|]. rewrite args_ok_cons in H.
      apply andb_prop in H. destruct H as [H1 H2]. cbn [open_args]. constructor.
      + apply arg_ok_capt1. exact H1.
      + apply IH; auto.
  Qed.

  Lemma capt_frag_app : forall c d l l', find_class w c = Some d -> captl w (c_params d) l l' ->
    frag w (TApp c l) = true.
  Proof.
    intros c d l l' Hd H. rewrite frag_app, Hd. destruct (captl_len _ _ _ H) as [L1 _].
    rewrite L1, Nat.eqb_refl. cbn [andb]. eapply captl_args_ok; eauto.
  Qed.

  Lemma frag_app_inv : forall c l, frag w (TApp c l) = true ->
    exists d, find_class w c = Some d /\ length l = length (c_params d) /\
              args_ok (frag w) (c_params d) l = true.
  Proof.
    intros c l H. rewrite frag_app in H. destruct (find_class w c) as [d|]; [|discriminate].
    apply andb_prop in H. destruct H as [H1 H2]. apply Nat.eqb_eq in H1. eauto.
  Qed.

  Lemma capt_open : forall c l q, frag w (TApp c l) = true -> Capt w (TApp c l) (TApp c (open_args q 0 l)).
  Proof.
    intros c l q H. destruct (frag_app_inv c l H) as [d [Hd [Hl Ha]]].
    exists d, (open_args q 0 l). repeat split; auto. apply args_ok_captl; auto.
  Qed.

  (* from "every captured form of s is below t" to "s is below t" *)
  Lemma capt_self : forall s t, frag w s = true -> not_cap t ->
    (forall s' q, Capt w s s' -> SubA w q s' t) -> forall q, SubA w q s t.
  Proof.
    intros s t Hf Hn H q. destruct s as [b pr|c|c l|c|x v ob|v ob| |i u lo]; try discriminate;
      try (apply H; reflexivity).
    apply suba_open_transfer; [exact Hn|]. apply H. apply capt_open. exact Hf.
  Qed.
End CaptBasics.

(* ---------- == types are related both ways, also through captured forms ---------- *)
Lemma py_eqb_is_wild : forall a b, py_eqb a b = true -> is_wild a = is_wild b.
Proof. intros a b H. destruct a, b; try reflexivity; discriminate. Qed.

Section ReflProj.
  Variable w : world.

  Definition both_ways (s t : ty) : Prop :=
    (forall s' q, Capt w s s' -> SubA w q s' t) /\ (forall t' q, Capt w t t' -> SubA w q t' s).

  Definition refl_at (s : ty) : Prop :=
    forall t, frag w t = true -> py_eqb s t = true -> both_ways s t.

  Lemma both_ways_plain : forall a b, frag w a = true -> frag w b = true -> both_ways a b ->
    (forall q, SubA w q a b) /\ (forall q, SubA w q b a).
  Proof.
    intros a b Fa Fb [H1 H2]. split; intros q.
    - apply capt_self; auto. eapply frag_not_cap; eauto.
    - apply capt_self; auto. eapply frag_not_cap; eauto.
  Qed.

  Lemma refl_pos : forall prm a b,
    arg_ok (frag w) prm a = true -> arg_ok (frag w) prm b = true -> py_eqb a b = true ->
    (frag w a = true -> refl_at a) ->
    (forall v u, a = TWild v (Some u) -> frag w u = true -> refl_at u) ->
    (forall a' q, capt1 w prm a a' -> Cont1 w q prm a' b) /\
    (forall b' q, capt1 w prm b b' -> Cont1 w q prm b' a).
  Proof.
    intros prm a b Ha Hb He IH1 IH2.
    destruct (arg_ok_cases w prm a Ha) as [[Wa Fa]|[[u [-> [Hc Fu]]]|[u [-> [Hc Fu]]]]].
    - assert (Wb : is_wild b = false) by (rewrite <- (py_eqb_is_wild _ _ He); exact Wa).
      assert (Fb : frag w b = true) by (rewrite arg_ok_plain in Hb; auto).
      destruct (both_ways_plain a b Fa Fb (IH1 Fa b Fb He)) as [S1 S2].
      split.
      + intros a' q Hk. assert (a' = a).
        { inversion Hk; subst; try reflexivity; discriminate. }
        subst a'. destruct (tvar_variance prm) eqn:Hv.
        * apply C_Inv; auto.
        * apply C_Cov; auto.
        * apply C_Contra; auto.
      + intros b' q Hk. assert (b' = b).
        { inversion Hk; subst; try reflexivity; discriminate. }
        subst b'. destruct (tvar_variance prm) eqn:Hv.
        * apply C_Inv; auto. unfold deq. rewrite py_eqb_sym. exact He.
        * apply C_Cov; auto.
        * apply C_Contra; auto.
    - destruct b as [| | | | |vb ob| |]; try discriminate.
      rewrite py_eqb_wild in He. apply andb_prop in He. destruct He as [Hv He].
      destruct vb; try discriminate. destruct ob as [ub|]; [|discriminate]. cbn in He.
      cbn [arg_ok] in Hb. apply andb_prop in Hb. destruct Hb as [_ Fub].
      destruct (both_ways_plain u ub Fu Fub (IH2 Cov u eq_refl Fu ub Fub He)) as [S1 S2].
      split.
      + intros a' q Hk. inversion Hk; subst; try discriminate.
        apply C_Out. apply A_CapUp. apply S1.
      + intros b' q Hk. inversion Hk; subst; try discriminate.
        apply C_Out. apply A_CapUp. apply S2.
    - destruct b as [| | | | |vb ob| |]; try discriminate.
      rewrite py_eqb_wild in He. apply andb_prop in He. destruct He as [Hv He].
      destruct vb; try discriminate. destruct ob as [ub|]; [|discriminate]. cbn in He.
      cbn [arg_ok] in Hb. apply andb_prop in Hb. destruct Hb as [_ Fub].
      destruct (both_ways_plain u ub Fu Fub (IH2 Contra u eq_refl Fu ub Fub He)) as [S1 S2].
      split.
      + intros a' q Hk. inversion Hk; subst; try discriminate.
        apply C_In. apply A_CapLow. apply S2.
      + intros b' q Hk. inversion Hk; subst; try discriminate.
        apply C_In. apply A_CapLow. apply S1.
  Qed.

  Lemma refl_args : forall ps l m,
    args_ok (frag w) ps l = true -> args_ok (frag w) ps m = true ->
    length l = length ps -> length m = length ps -> py_eqb_list l m = true ->
    (forall a, In a l -> frag w a = true -> refl_at a) ->
    (forall v u, In (TWild v (Some u)) l -> frag w u = true -> refl_at u) ->
    (forall l' q i, captl w ps l l' -> ContA w q i ps l' m) /\
    (forall m' q i, captl w ps m m' -> ContA w q i ps m' l).
  Proof.
    intros ps l. revert ps. induction l as [|a l IH]; intros ps m Hl Hm L1 L2 He IH1 IH2.
    - destruct m; [|discriminate]. destruct ps; [|discriminate].
      split; intros x q i Hk; inversion Hk; subst; constructor.
    - destruct m as [|b m]; [discriminate|]. destruct ps as [|prm ps]; [discriminate|].
      rewrite args_ok_cons in Hl, Hm.
      apply andb_prop in Hl. destruct Hl as [Ha Hl]. apply andb_prop in Hm. destruct Hm as [Hb Hm].
      cbn in He. apply andb_prop in He. destruct He as [Hab He].
      destruct (refl_pos prm a b Ha Hb Hab) as [P1 P2].
      { intros Fa. apply IH1; [left; reflexivity|exact Fa]. }
      { intros v u E. apply (IH2 v u). left. exact E. }
      destruct (IH ps m Hl Hm) as [C1 C2]; auto.
      { intros x Hx. apply IH1. right. exact Hx. }
      { intros v u Hx. apply (IH2 v u). right. exact Hx. }
      split; intros x q i Hk; inversion Hk; subst; constructor; auto.
  Qed.

  Lemma refl_proj : forall s, frag w s = true -> refl_at s.
  Proof.
    apply frag_ind.
    - intros b pr t Ft He. destruct t; try discriminate. cbn in He. apply Nat.eqb_eq in He. subst.
      split; intros x q Hk; cbn in Hk; subst x; apply A_BuiltinRefl.
    - intros t Ft He. destruct t; try discriminate.
      split; intros x q Hk; cbn in Hk; subst x; apply A_Nothing.
    - intros c t Ft He. destruct t; try discriminate. cbn in He. apply Nat.eqb_eq in He. subst.
      split; intros x q Hk; cbn in Hk; subst x; apply A_ClassRefl.
    - intros c d l Hd Hl Ha IH1 IH2 t Ft He.
      destruct t as [| |c' m| | | | |]; try discriminate.
      rewrite py_eqb_app in He. apply andb_prop in He. destruct He as [Hc He].
      apply Nat.eqb_eq in Hc. subst c'.
      destruct (frag_app_inv w c m Ft) as [d' [Hd' [Hl' Ha']]]. rewrite Hd in Hd'. injection Hd' as <-.
      destruct (refl_args (c_params d) l m Ha Ha' Hl Hl' He IH1 IH2) as [C1 C2].
      split; intros x q Hk; cbn in Hk; destruct Hk as [d2 [x' [Hd2 [-> Hk]]]];
        rewrite Hd in Hd2; injection Hd2 as <-; destruct (captl_len _ _ _ _ Hk) as [_ L2].
      + eapply A_AppArgs; eauto. rewrite (captl_open _ _ _ _ Hk). apply C1. exact Hk.
      + eapply A_AppArgs; eauto. rewrite (captl_open _ _ _ _ Hk). apply C2. exact Hk.
  Qed.

  (* the form used below: t == s, every captured form of s is below t *)
  Lemma suba_pyeq_capt : forall s t s' q, frag w s = true -> frag w t = true -> py_eqb t s = true ->
    Capt w s s' -> SubA w q s' t.
  Proof.
    intros s t s' q Fs Ft He Hk. destruct (refl_proj t Ft s Fs He) as [_ H2]. apply H2. exact Hk.
  Qed.
End ReflProj.

(* ---------- substitution of (captured) arguments into declared supertypes ---------- *)
Lemma lookup_sub_app : forall m1 m2 x,
  lookup_sub (m1 ++ m2) x = match lookup_sub m1 x with Some r => Some r | None => lookup_sub m2 x end.
Proof.
  induction m1 as [|[k r] m1 IH]; intros m2 x; cbn; [reflexivity|].
  destruct (py_eqb k x); [reflexivity|apply IH].
Qed.

Lemma mk_map_cons : forall prm ps a l, mk_map (prm :: ps) (a :: l) = mk_map ps l ++ [(prm, a)].
Proof. reflexivity. Qed.

Lemma subst_plain_id : forall b m t, plain_closed t = true -> subst b m t = t.
Proof.
  intros b m. apply (ty_ind' (fun t => plain_closed t = true -> subst b m t = t)); intros;
    try discriminate; try reflexivity.
  cbn [subst]. f_equal. cbn [plain_closed] in H0.
  induction H as [|a l Ha Hl IH]; cbn in *; [reflexivity|].
  apply andb_prop in H0. destruct H0 as [H1 H2]. rewrite (Ha H1), (IH H2). reflexivity.
Qed.

Lemma py_eqb_tvar_variance : forall a b, is_tvar_term b = true -> py_eqb a b = true ->
  tvar_variance a = tvar_variance b.
Proof.
  intros a b Hb He. destruct b; try discriminate. destruct a; try discriminate.
  rewrite py_eqb_var in He. apply andb_prop in He. destruct He as [He _].
  apply andb_prop in He. destruct He as [_ He]. apply var_eqb_eq in He. exact He.
Qed.

Section SubstCapt.
  Variable w : world.

  Lemma capt1_variance : forall prm q a a', tvar_variance prm = tvar_variance q ->
    capt1 w prm a a' -> capt1 w q a a'.
  Proof.
    intros prm q a a' Hv H. destruct H as [prm a Hf|prm u j Hc Hf|prm l j Hc Hf].
    - constructor; assumption.
    - constructor; [|assumption]. unfold compat in *. rewrite <- Hv. exact Hc.
    - constructor; [|assumption]. unfold compat in *. rewrite <- Hv. exact Hc.
  Qed.

  Lemma lookup_capt : forall ps l l', captl w ps l l' -> forall x,
    (lookup_sub (mk_map ps l) x = None -> lookup_sub (mk_map ps l') x = None) /\
    (forall a, lookup_sub (mk_map ps l) x = Some a ->
       exists prm a', py_eqb prm x = true /\ lookup_sub (mk_map ps l') x = Some a' /\ capt1 w prm a a').
  Proof.
    intros ps l l' H. induction H as [|prm ps a l a' l' H1 HL IH]; intros x.
    - split; [reflexivity|]. intros a Ha. discriminate.
    - rewrite !mk_map_cons, !lookup_sub_app. destruct (IH x) as [I1 I2].
      destruct (lookup_sub (mk_map ps l) x) as [r|] eqn:E.
      + split; [discriminate|]. intros a0 Ha0. injection Ha0 as <-.
        destruct (I2 r eq_refl) as [prm0 [r' [He [Hl Hk]]]].
        exists prm0, r'. rewrite Hl. auto.
      + rewrite (I1 eq_refl). cbn [lookup_sub]. destruct (py_eqb prm x) eqn:He.
        * split; [discriminate|]. intros a0 Ha0. injection Ha0 as <-. exists prm, a'. auto.
        * split; [reflexivity|discriminate].
  Qed.

  Lemma subst_direct_arg : forall ps l l' q x, captl w ps l l' ->
    direct_arg ps q x = true -> arity_ok w x = true ->
    capt1 w q (subst true (mk_map ps l) x) (subst false (mk_map ps l') x).
  Proof.
    intros ps l l' q x Hk Hd Ha. unfold direct_arg in Hd. destruct (is_tvar_term x) eqn:Ht.
    - apply andb_prop in Hd. destruct Hd as [Hm Hv]. apply var_eqb_eq in Hv.
      destruct (captl_len _ _ _ _ Hk) as [L1 L2].
      destruct (lookup_mk_map ps l x Hm (eq_sym L1)) as [r [Hr _]].
      destruct (lookup_capt ps l l' Hk x) as [_ I2].
      destruct (I2 r Hr) as [prm [r' [He [Hl' Hk1]]]].
      pose proof (arg_no_tv w prm r (capt1_arg_ok w prm r r' Hk1)) as Hnt.
      destruct x as [| | | |n v ob| | |]; try discriminate.
      cbn [subst]. rewrite Hr, Hl', Hnt. cbn [andb].
      apply (capt1_variance prm q); [|exact Hk1].
      rewrite (py_eqb_tvar_variance prm (TVar n v ob) eq_refl He). exact Hv.
    - rewrite !subst_plain_id; auto. constructor. apply good1_frag. unfold good1. rewrite Hd, Ha. reflexivity.
  Qed.

  Lemma subst_direct_args : forall ps l l', captl w ps l l' -> forall es qs,
    forallb (fun qa => direct_arg ps (fst qa) (snd qa)) (combine qs es) = true ->
    length es = length qs -> forallb (arity_ok w) es = true ->
    captl w qs (map (subst true (mk_map ps l)) es) (map (subst false (mk_map ps l')) es).
  Proof.
    intros ps l l' Hk es. induction es as [|x es IH]; intros qs Hd Hl Ha.
    - destruct qs; [constructor|discriminate].
    - destruct qs as [|q qs]; [discriminate|]. cbn in Hd, Ha.
      apply andb_prop in Hd. destruct Hd as [Hd1 Hd2]. apply andb_prop in Ha. destruct Ha as [Ha1 Ha2].
      cbn [map]. constructor.
      + apply subst_direct_arg; auto.
      + apply IH; auto.
  Qed.

  Lemma Capt_good1 : forall u, good1 w u = true -> Capt w u u.
  Proof.
    intros u Hg. destruct u as [b pr|c|c l|c|x v ob|v ob| |i uu lo]; try reflexivity.
    destruct (good1_args _ _ _ Hg) as [d [Hd [Hl [Hp Ha]]]].
    exists d, l. repeat split; auto.
    pose proof (good1_frag w _ Hg) as Hf. destruct (frag_app_inv w c l Hf) as [d' [Hd' [_ Hao]]].
    rewrite Hd in Hd'. injection Hd' as <-.
    rewrite <- (open_args_plain [] l 0 Hp) at 2. apply args_ok_captl; auto.
  Qed.
End SubstCapt.

(* ---------- the direct-supertype step on the fragment ---------- *)
Section StepProj.
  Variable w : world.
  Hypothesis Hok : table_ok w = true.
  Hypothesis Hpd : params_direct w = true.

  Lemma pd_super : forall c d s0, find_class w c = Some d -> In s0 (c_supers d) ->
    super_direct w (c_params d) s0 = true.
  Proof.
    intros c d s0 Hd Hin. apply find_nat_in in Hd. unfold params_direct in Hpd.
    pose proof (forallb_In _ _ _ _ Hpd Hd) as H. cbn in H. apply (forallb_In _ _ _ _ H Hin).
  Qed.

  Definition lifts (u' s' : ty) : Prop :=
    forall t, (forall q, SubA w q u' t) -> forall q, SubA w q s' t.

  Lemma step_app : forall c d l l' u, find_class w c = Some d -> captl w (c_params d) l l' ->
    In u (direct_supers w (TApp c l)) ->
    frag w u = true /\ exists u', Capt w u u' /\ lifts u' (TApp c l').
  Proof.
    intros c d l l' u Hd Hk Hin. cbn [direct_supers] in Hin. rewrite Hd in Hin.
    apply in_map_iff in Hin. destruct Hin as [s0 [Eu Hs0]].
    destruct (tok_super w Hok c d s0 Hd Hs0) as [Ho [Ha [_ [_ [Hnv _]]]]].
    pose proof (pd_super c d s0 Hd Hs0) as Hsd.
    destruct (captl_len _ _ _ _ Hk) as [L1 L2].
    assert (Hup : forall u', inst_super d l' s0 = u' -> lifts u' (TApp c l')).
    { intros u' E t Hu q. eapply A_AppUp; eauto. rewrite (captl_open _ _ _ _ Hk), E. apply Hu. }
    destruct s0 as [b pr|k|e es|k|x v ob|v ob| |i uu lo]; try discriminate; cbn [is_app] in Eu; subst u.
    - split; [reflexivity|]. exists (TBuiltin b pr). split; [reflexivity|]. apply Hup. reflexivity.
    - split; [exact Ha|]. exists (TClass k). split; [reflexivity|]. apply Hup. reflexivity.
    - cbn [super_direct] in Hsd. cbn [arity_ok] in Ha.
      destruct (find_class w e) as [de|] eqn:Hde; [|discriminate].
      apply andb_prop in Ha. destruct Ha as [Ha Hes]. apply andb_prop in Ha. destruct Ha as [Hle _].
      apply Nat.eqb_eq in Hle.
      pose proof (subst_direct_args w (c_params d) l l' Hk es (c_params de) Hsd Hle Hes) as Hk2.
      cbn [subst]. split; [eapply capt_frag_app; eauto|].
      exists (TApp e (map (subst false (mk_map (c_params d) l')) es)). split.
      + exists de, (map (subst false (mk_map (c_params d) l')) es). auto.
      + apply Hup. reflexivity.
  Qed.

  Lemma frag_nonapp_good1 : forall s, frag w s = true -> is_app s = false -> good1 w s = true.
  Proof.
    intros s Hf Ha. destruct s; try discriminate; try reflexivity.
    unfold good1. cbn. cbn in Hf. exact Hf.
  Qed.

  Lemma step_frag : forall s s' u, frag w s = true -> Capt w s s' -> In u (direct_supers w s) ->
    frag w u = true /\ exists u', Capt w u u' /\ lifts u' s'.
  Proof.
    intros s s' u Hf Hk Hin. destruct (is_app s) eqn:Happ.
    - destruct s as [| |c l| | | | |]; try discriminate.
      destruct Hk as [d [l' [Hd [-> Hk]]]]. eapply step_app; eauto.
    - pose proof (frag_nonapp_good1 s Hf Happ) as Hg.
      assert (s' = s) by (destruct s; try discriminate; exact Hk). subst s'.
      pose proof (direct_supers_good1 w Hok s u Hg Hin) as Hgu.
      split; [apply good1_frag; exact Hgu|]. exists u. split; [apply Capt_good1; exact Hgu|].
      intros t Hu q. eapply step_suba; eauto.
  Qed.

  Lemma reach_frag : forall s u, reach w s u -> forall s', frag w s = true -> Capt w s s' ->
    frag w u = true /\ exists u', Capt w u u' /\ lifts u' s'.
  Proof.
    intros s u H. induction H as [s|s x u Hx Hr IH]; intros s' Hf Hk.
    - split; [exact Hf|]. exists s'. split; [exact Hk|]. intros t Hu. exact Hu.
    - destruct (step_frag s s' x Hf Hk Hx) as [Fx [x' [Kx Lx]]].
      destruct (IH x' Fx Kx) as [Fu [u' [Ku Lu]]].
      split; [exact Fu|]. exists u'. split; [exact Ku|]. intros t Hu. apply Lx. apply Lu. exact Hu.
  Qed.
End StepProj.

(* ---------- soundness of a positive answer ---------- *)
Section MainProj.
  Variable w : world.
  Hypothesis Hok : table_ok w = true.
  Hypothesis Hpd : params_direct w = true.

  Section Rec.
    Variable rec : ty -> ty -> res.
    Hypothesis rec_capt : forall a b, frag w a = true -> frag w b = true -> rec a b = Rt ->
                                      forall a' q, Capt w a a' -> SubA w q a' b.

    Lemma rec_sound : forall a b, frag w a = true -> frag w b = true -> rec a b = Rt ->
      forall q, SubA w q a b.
    Proof.
      intros a b Fa Fb H q. apply capt_self; [exact Fa|exact (frag_not_cap w b Fb)|].
      intros a' q' Hk. exact (rec_capt a b Fa Fb H a' q' Hk).
    Qed.

    Lemma contained_sound : forall prm a a' b q, capt1 w prm a a' -> arg_ok (frag w) prm b = true ->
      contained_m rec a b prm = Rt -> Cont1 w q prm a' b.
    Proof.
      intros prm a a' b q Hk Hb H.
      destruct Hk as [prm a Fa|prm u j Hc Fu|prm u j Hc Fu];
        destruct (arg_ok_cases w prm b Hb) as [[Wb Fb]|[[ub [-> [Hcb Fub]]]|[ub [-> [Hcb Fub]]]]].
      - pose proof (frag_not_wild _ _ Fa) as Wa. rewrite (contained_plain rec a b prm Wa Wb) in H.
        destruct (tvar_variance prm) eqn:Hv.
        + apply ofb_rt in H. apply C_Inv; auto.
        + apply C_Cov; auto. apply rec_sound; auto.
        + apply C_Contra; auto. apply rec_sound; auto.
      - pose proof (frag_not_wild _ _ Fa) as Wa. unfold contained_m in H. rewrite Wa in H. cbn in H.
        apply C_Out. apply rec_sound; auto.
      - pose proof (frag_not_wild _ _ Fa) as Wa. unfold contained_m in H. rewrite Wa in H. cbn in H.
        apply C_In. apply rec_sound; auto.
      - unfold contained_m in H. rewrite Wb in H. cbn in H. unfold compat in Hc.
        destruct (tvar_variance prm) eqn:Hv; try discriminate.
        apply C_Cov; auto. apply A_CapUp. apply rec_sound; auto.
      - cbn in H. apply C_Out. apply A_CapUp. apply rec_sound; auto.
      - cbn in H. discriminate.
      - unfold contained_m in H. rewrite Wb in H. cbn in H. unfold compat in Hc.
        destruct (tvar_variance prm) eqn:Hv; try discriminate.
        apply C_Contra; auto. apply A_CapLow. apply rec_sound; auto.
      - cbn in H. discriminate.
      - cbn in H. apply C_In. apply A_CapLow. apply rec_sound; auto.
    Qed.

    Lemma args_sound_proj : forall ps l l', captl w ps l l' -> forall lt q i,
      args_ok (frag w) ps lt = true -> length lt = length ps ->
      args_m rec ps l lt = Rt -> ContA w q i ps l' lt.
    Proof.
      intros ps l l' Hk. induction Hk as [|prm ps a l a' l' H1 HL IH]; intros lt q i Ha Hl H.
      - destruct lt; [constructor|discriminate].
      - destruct lt as [|b lt]; [discriminate|]. rewrite args_ok_cons in Ha.
        apply andb_prop in Ha. destruct Ha as [Hb Ha]. cbn [args_m] in H.
        destruct (contained_m rec a b prm) eqn:E; try discriminate.
        constructor.
        + eapply contained_sound; eauto.
        + apply IH; auto.
    Qed.

    Lemma nominal_sound_proj : forall s t, frag w s = true -> frag w t = true ->
      nominal_m w rec s t = Rt -> forall s' q, Capt w s s' -> SubA w q s' t.
    Proof.
      intros s t Fs Ft H s' q Hk. unfold nominal_m in H.
      destruct (py_eqb t s) eqn:E; [exact (suba_pyeq_capt w s t s' q Fs Ft E Hk)|].
      destruct (get_supertypes w s) as [sups|] eqn:Hg; [|discriminate].
      apply rany_rt in H. apply in_map_iff in H. destruct H as [st [Hst Hin]].
      apply filter_In in Hin. destruct Hin as [Hin _].
      pose proof (get_supertypes_sound w s sups Hg st Hin) as Hr.
      destruct (reach_frag w Hok Hpd s st Hr s' Fs Hk) as [Fst [st' [Kst Lst]]].
      apply Lst. intros q'. exact (rec_capt st t Fst Ft Hst st' q' Kst).
    Qed.
  End Rec.

  Lemma is_subtype_sound_capt : forall f s t, frag w s = true -> frag w t = true ->
    is_subtype w f s t = Rt -> forall s' q, Capt w s s' -> SubA w q s' t.
  Proof.
    induction f as [|f IH]; intros s t Fs Ft H s' q Hk; [discriminate|].
    pose proof H as H0. rewrite is_subtype_S in H.
    destruct s as [b pr|c|c args|c|x v ob|v ob| |i uu lo]; try discriminate.
    - cbn in Hk. subst s'.
      destruct (is_bottom_builtin w b) eqn:Hbot; [apply A_BotBuiltin; exact Hbot|].
      assert (Ht : exists b' pr', t = TBuiltin b' pr').
      { destruct (py_eqb t (TBuiltin b pr)) eqn:E.
        - destruct t; try discriminate. eauto.
        - destruct (get_supertypes w (TBuiltin b pr)) as [sups|] eqn:Hg; [|discriminate].
          apply ofb_rt in H. apply memb_ex in H. destruct H as [k [Hin He]].
          pose proof (get_supertypes_sound w _ sups Hg k Hin) as Hr.
          destruct (reach_builtin w _ _ Hr b pr eq_refl) as [bx [prx ->]].
          destruct t; try discriminate. eauto. }
      destruct Ht as [b' [pr' ->]].
      apply (is_subtype_sound_good w Hok (S f) (TBuiltin b pr) (TBuiltin b' pr')); auto.
    - apply (nominal_sound_proj (is_subtype w f) IH (TClass c) t); auto.
    - destruct (nominal_m w (is_subtype w f) (TApp c args) t) eqn:Hn; try discriminate.
      + apply (nominal_sound_proj (is_subtype w f) IH (TApp c args) t); auto.
      + destruct t as [| |c' bargs| | | | |]; try discriminate.
        destruct (Nat.eqb c c') eqn:Hc; [|discriminate]. apply Nat.eqb_eq in Hc. subst c'.
        destruct Hk as [d [l' [Hd [-> Hk]]]]. rewrite Hd in H.
        destruct (frag_app_inv w c bargs Ft) as [d' [Hd' [Hl' Ha']]].
        rewrite Hd in Hd'. injection Hd' as <-.
        destruct (captl_len _ _ _ _ Hk) as [L1 L2].
        eapply A_AppArgs; eauto. rewrite (captl_open _ _ _ _ Hk).
        apply (args_sound_proj (is_subtype w f) IH (c_params d) args l' Hk); auto.
    - cbn in Hk. subst s'. apply A_Nothing.
  Qed.

  Lemma is_subtype_sound_frag : forall f s t, frag w s = true -> frag w t = true ->
    is_subtype w f s t = Rt -> forall q, SubA w q s t.
  Proof.
    intros f s t Fs Ft H q. apply capt_self; [exact Fs|exact (frag_not_cap w t Ft)|].
    intros s' q' Hk. exact (is_subtype_sound_capt f s t Fs Ft H s' q' Hk).
  Qed.
End MainProj.

Lemma is_subtype_sound_proj_lem : forall w fuel n m p s t,
  table_ok w = true -> params_direct w = true ->
  proj_closed s = true -> proj_closed t = true ->
  wf_ty w n s = true -> wf_ty w m t = true ->
  is_subtype w fuel s t = Rt -> SubA w p s t.
Proof.
  intros w fuel n m p s t Hok Hpd Ps Pt Ws Wt H.
  apply (is_subtype_sound_frag w Hok Hpd fuel s t); auto; eapply wf_frag; eauto.
Qed.

(* the property's own fragment (Decl.ground) lies inside proj_closed *)
Lemma ground_proj_closed : forall w t, ground w t = true -> proj_closed t = true.
Proof.
  intros w.
  assert (H : forall t, (ground w t = true -> proj_closed t = true) /\
                        (match t with TWild _ (Some b) => ground w b = true -> proj_closed b = true | _ => True end)).
  { apply ty_ind'; intros; split; try exact I; try (intros; discriminate); try reflexivity.
    - cbn [ground proj_closed]. induction H as [|a l Ha Hl IH]; [reflexivity|].
      cbn [forallb]. intros Hg. apply andb_prop in Hg. destruct Hg as [G1 G2].
      rewrite (IH G2), andb_true_r. destruct Ha as [A1 A2].
      destruct a as [b pr|c'|c' l'|c'|x v ob|v ob| |i u lo]; try discriminate; try (apply A1; exact G1).
      destruct v, ob as [b|]; try discriminate; apply andb_prop in G1; destruct G1 as [G0 G1];
        rewrite G0; cbn [andb]; apply A2; exact G1.
    - apply H. }
  intros t. apply H.
Qed.

Lemma is_subtype_sound_ground_lem : forall w fuel n m p s t,
  table_ok w = true -> params_direct w = true ->
  ground w s = true -> ground w t = true ->
  wf_ty w n s = true -> wf_ty w m t = true ->
  is_subtype w fuel s t = Rt -> SubA w p s t.
Proof.
  intros w fuel n m p s t Hok Hpd Gs Gt Ws Wt H.
  eapply is_subtype_sound_proj_lem; eauto; eapply ground_proj_closed; eauto.
Qed.

(* closed forms for Properties_C06_proj.v *)
Lemma is_subtype_sound_frag_lem : forall w fuel p s t,
  table_ok w = true -> params_direct w = true -> frag w s = true -> frag w t = true ->
  is_subtype w fuel s t = Rt -> SubA w p s t.
Proof. intros w fuel p s t Hok Hpd Fs Ft H. exact (is_subtype_sound_frag w Hok Hpd fuel s t Fs Ft H p). Qed.

Lemma is_subtype_sound_captured_lem : forall w fuel s t s' q,
  table_ok w = true -> params_direct w = true -> frag w s = true -> frag w t = true ->
  is_subtype w fuel s t = Rt -> Capt w s s' -> SubA w q s' t.
Proof.
  intros w fuel s t s' q Hok Hpd Fs Ft H Hk. exact (is_subtype_sound_capt w Hok Hpd fuel s t Fs Ft H s' q Hk).
Qed.

Lemma suba_refl_proj_lem : forall w p t, frag w t = true -> SubA w p t t.
Proof.
  intros w p t Ft.
  exact (proj1 (both_ways_plain w t t Ft Ft (refl_proj w t Ft t Ft (py_eqb_refl t))) p).
Qed.
