(* Properties_C06.v -- the property theorems, nothing else. *)
From Coq Require Import List Arith Bool.
Import ListNotations.
From Heph Require Import Types.Syntax Types.Subst Types.Subtype Types.Decl Types.SubtypeSound.

Theorem nothing_bottom : forall w f t, is_subtype w (S f) TNothing t = Rt.
Proof. exact nothing_bottom_lem. Qed.
Print Assumptions nothing_bottom.
