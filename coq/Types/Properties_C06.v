(* Properties_C06.v -- the property theorems, nothing else. *)
From Coq Require Import List Arith Bool.
Import ListNotations.
From Heph Require Import Types.Syntax Types.Subst Types.Subtype Types.Decl Types.TableOk Types.SubtypeSound.

Theorem nothing_bottom : forall w f t, is_subtype w (S f) TNothing t = Rt.
Proof. exact nothing_bottom_lem. Qed.
Print Assumptions nothing_bottom.

Theorem sub_ref_yes_sound : forall w fuel p s t, sub_ref w fuel p s t = Yes -> SubA w p s t.
Proof. exact sub_ref_yes_sound_lem. Qed.
Print Assumptions sub_ref_yes_sound.

Theorem sub_ref_no_sound : forall w fuel p s t, sub_ref w fuel p s t = No -> ~ SubA w p s t.
Proof. exact sub_ref_no_sound_lem. Qed.
Print Assumptions sub_ref_no_sound.
