(* Properties_C06.v -- the property theorems, nothing else. *)
From Coq Require Import List Arith Bool.
Import ListNotations.
From Heph Require Import Types.Syntax Types.Subst Types.Subtype Types.Decl Types.TableOk Types.SubtypeSound.

Theorem nothing_bottom : forall w f t, is_subtype w (S f) TNothing t = Rt.
Proof. exact nothing_bottom_lem. Qed.
Print Assumptions nothing_bottom.

Theorem builtin_bottom : forall w f b pr t,
  is_bottom_builtin w b = true -> is_subtype w (S f) (TBuiltin b pr) t = Rt.
Proof. exact builtin_bottom_lem. Qed.
Print Assumptions builtin_bottom.

(* the reference checker is sound for both definite answers *)
Theorem sub_ref_yes_sound : forall w fuel p s t, sub_ref w fuel p s t = Yes -> SubA w p s t.
Proof. exact sub_ref_yes_sound_lem. Qed.
Print Assumptions sub_ref_yes_sound.

Theorem sub_ref_no_sound : forall w fuel p s t, sub_ref w fuel p s t = No -> ~ SubA w p s t.
Proof. exact sub_ref_no_sound_lem. Qed.
Print Assumptions sub_ref_no_sound.

(* projection-free, variable-free fragment: a True answer is justified *)
Theorem is_subtype_sound_pf : forall w fuel p s t,
  table_ok w = true -> plain_closed s = true -> plain_closed t = true ->
  arity_ok w s = true -> arity_ok w t = true ->
  is_subtype w fuel s t = Rt -> SubA w p s t.
Proof. exact is_subtype_sound_pf_lem. Qed.
Print Assumptions is_subtype_sound_pf.

(* ... and a False answer is exact, for types without primitive built-ins *)
Theorem is_subtype_complete_pf_partial : forall w fuel p s t,
  table_ok w = true -> plain_closed s = true -> plain_closed t = true ->
  arity_ok w s = true -> arity_ok w t = true -> boxed s = true -> boxed t = true ->
  is_subtype w fuel s t = Rf -> ~ SubA w p s t.
Proof. exact is_subtype_complete_pf_lem. Qed.
Print Assumptions is_subtype_complete_pf_partial.

(* without boxed s the statement is false even under the full table_ok *)
Theorem is_subtype_complete_pf_refuted :
  exists w fuel p s t,
    table_ok w = true /\ plain_closed s = true /\ plain_closed t = true /\
    arity_ok w s = true /\ arity_ok w t = true /\
    is_subtype w fuel s t = Rf /\ SubA w p s t.
Proof. exact complete_pf_refuted_prim_arg_lem. Qed.
Print Assumptions is_subtype_complete_pf_refuted.

(* why table_ok has its last three conjuncts (table_ok_weak = table_ok without them) *)
Theorem is_subtype_sound_pf_refuted_var_super :
  exists w fuel p s t,
    table_ok_weak w = true /\ no_bottom_supers w = true /\ boxed_table w = true /\
    plain_closed s = true /\ plain_closed t = true /\
    arity_ok w s = true /\ arity_ok w t = true /\ boxed s = true /\ boxed t = true /\
    is_subtype w fuel s t = Rt /\ ~ SubA w p s t.
Proof. exact sound_pf_refuted_var_super_lem. Qed.
Print Assumptions is_subtype_sound_pf_refuted_var_super.

Theorem is_subtype_complete_pf_refuted_bottom_super :
  exists w fuel p s t,
    table_ok_weak w = true /\ supers_not_var w = true /\ boxed_table w = true /\
    plain_closed s = true /\ plain_closed t = true /\
    arity_ok w s = true /\ arity_ok w t = true /\ boxed s = true /\ boxed t = true /\
    is_subtype w fuel s t = Rf /\ SubA w p s t.
Proof. exact complete_pf_refuted_bottom_super_lem. Qed.
Print Assumptions is_subtype_complete_pf_refuted_bottom_super.

Theorem is_subtype_complete_pf_refuted_prim_super :
  exists w fuel p s t,
    table_ok_weak w = true /\ supers_not_var w = true /\ no_bottom_supers w = true /\
    plain_closed s = true /\ plain_closed t = true /\
    arity_ok w s = true /\ arity_ok w t = true /\ boxed s = true /\ boxed t = true /\
    is_subtype w fuel s t = Rf /\ SubA w p s t.
Proof. exact complete_pf_refuted_prim_super_lem. Qed.
Print Assumptions is_subtype_complete_pf_refuted_prim_super.

(* unrestricted soundness is false: three shapes *)
Theorem is_subtype_sound_refuted_nested_projection :
  exists w s t, wf_ty w 20 s = true /\ wf_ty w 20 t = true /\ table_ok w = true /\
                is_subtype w 40 s t = Rt /\ ~ SubA w [] s t.
Proof. exact refuted_nested_projection_lem. Qed.
Print Assumptions is_subtype_sound_refuted_nested_projection.

Theorem is_subtype_sound_refuted_conflicting_projection :
  exists w s t, wf_ty w 20 s = true /\ wf_ty w 20 t = true /\ table_ok w = true /\
                is_subtype w 40 s t = Rt /\ ~ SubA w [] s t.
Proof. exact refuted_conflicting_projection_lem. Qed.
Print Assumptions is_subtype_sound_refuted_conflicting_projection.

Theorem is_subtype_sound_refuted_type_variable :
  exists w s t, wf_ty w 20 s = true /\ wf_ty w 20 t = true /\ table_ok w = true /\
                is_subtype w 40 s t = Rt /\ ~ SubA w [] s t.
Proof. exact refuted_type_variable_lem. Qed.
Print Assumptions is_subtype_sound_refuted_type_variable.

(* transitivity of the reference relation fails across a primitive built-in *)
Theorem suba_trans_pf_refuted :
  exists w p a b c,
    table_ok w = true /\ plain_closed a = true /\ plain_closed b = true /\ plain_closed c = true /\
    arity_ok w a = true /\ arity_ok w b = true /\ arity_ok w c = true /\
    SubA w p a b /\ SubA w p b c /\ ~ SubA w p a c.
Proof. exact suba_trans_pf_refuted_lem. Qed.
Print Assumptions suba_trans_pf_refuted.

(* the reference relation on the fragment *)
Theorem suba_refl_pf : forall w p t,
  table_ok w = true -> plain_closed t = true -> arity_ok w t = true -> SubA w p t t.
Proof. exact suba_refl_pf_lem. Qed.
Print Assumptions suba_refl_pf.

(* paths only name captures: false for arbitrary tables, true for table_ok (more generally
   whenever the table and the two types contain no wildcard and no captured type) *)
Theorem suba_path_irrelevant_pf_refuted :
  exists w p q s t, plain_closed s = true /\ plain_closed t = true /\ SubA w p s t /\ ~ SubA w q s t.
Proof. exact suba_path_irrelevant_pf_refuted_lem. Qed.
Print Assumptions suba_path_irrelevant_pf_refuted.

Theorem suba_path_irrelevant_pf_partial : forall w p q s t,
  table_ok w = true -> plain_closed s = true -> plain_closed t = true ->
  SubA w p s t -> SubA w q s t.
Proof. exact suba_path_irrelevant_pf_lem. Qed.
Print Assumptions suba_path_irrelevant_pf_partial.

Theorem suba_path_irrelevant_nowild : forall w p q s t,
  nwc_table w = true -> nwc s = true -> nwc t = true -> SubA w p s t -> SubA w q s t.
Proof. exact suba_path_irrelevant_nwc_lem. Qed.
Print Assumptions suba_path_irrelevant_nowild.

(* transitivity, for types without primitive built-ins (see suba_trans_pf_refuted) *)
Theorem suba_trans_pf_partial : forall w p a b c,
  table_ok w = true -> plain_closed a = true -> plain_closed b = true -> plain_closed c = true ->
  arity_ok w a = true -> arity_ok w b = true -> arity_ok w c = true ->
  boxed a = true -> boxed b = true -> boxed c = true ->
  SubA w p a b -> SubA w p b c -> SubA w p a c.
Proof. exact suba_trans_pf_lem. Qed.
Print Assumptions suba_trans_pf_partial.

(* definite answers of the model are exact on the boxed projection-free fragment *)
Theorem is_subtype_exact_pf : forall w fuel s t,
  table_ok w = true -> plain_closed s = true -> plain_closed t = true ->
  arity_ok w s = true -> arity_ok w t = true -> boxed s = true -> boxed t = true ->
  is_subtype w fuel s t <> Rerr ->
  (is_subtype w fuel s t = Rt <-> SubA w [] s t).
Proof. exact is_subtype_exact_pf_lem. Qed.
Print Assumptions is_subtype_exact_pf.

Theorem is_subtype_refl_pf : forall w f t, plain_closed t = true -> is_subtype w (S f) t t = Rt.
Proof. exact is_subtype_refl_pf_lem. Qed.
Print Assumptions is_subtype_refl_pf.

Theorem is_subtype_trans_pf : forall w f1 f2 f3 a b c,
  table_ok w = true -> plain_closed a = true -> plain_closed b = true -> plain_closed c = true ->
  arity_ok w a = true -> arity_ok w b = true -> arity_ok w c = true ->
  boxed a = true -> boxed b = true -> boxed c = true ->
  is_subtype w f1 a b = Rt -> is_subtype w f2 b c = Rt -> is_subtype w f3 a c <> Rerr ->
  is_subtype w f3 a c = Rt.
Proof. exact is_subtype_trans_pf_lem. Qed.
Print Assumptions is_subtype_trans_pf.

Theorem is_subtype_rf_stable : forall w f1 f2 s t,
  table_ok w = true -> plain_closed s = true -> plain_closed t = true ->
  arity_ok w s = true -> arity_ok w t = true -> boxed s = true -> boxed t = true ->
  is_subtype w f1 s t = Rf -> is_subtype w f2 s t <> Rt.
Proof. exact is_subtype_rf_stable_lem. Qed.
Print Assumptions is_subtype_rf_stable.

(* non-vacuity: Leaf<in T> : Mid<Sink<T>>, Mid<out T> : Src<T>;  Leaf<Number> <: Src<Sink<Int>> *)
Theorem is_subtype_pf_nonvacuous :
  table_ok ex_world = true /\
  plain_closed ex_s = true /\ plain_closed ex_t = true /\
  arity_ok ex_world ex_s = true /\ arity_ok ex_world ex_t = true /\
  boxed ex_s = true /\ boxed ex_t = true /\
  is_subtype ex_world 40 ex_s ex_t = Rt /\ is_subtype ex_world 40 ex_t ex_s = Rf /\
  is_subtype ex_world 40 ex_s (TApp 1 [TApp 2 [TBuiltin 1 false]]) = Rf.
Proof. exact SubtypePF.is_subtype_pf_nonvacuous. Qed.
Print Assumptions is_subtype_pf_nonvacuous.
