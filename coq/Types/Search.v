(* Types/Search.v -- executable model of the searches of /repo/src/ir/type_utils.py:
   _find_types, find_subtypes, find_supertypes, to_type, find_irrelevant_type.
   Definitions only.

   What is modelled is the deterministic skeleton of the functions: the collection of nominal
   subtypes with is_subtype, get_supertypes, the handling of include_self / bound /
   concrete_only, the list of available types of find_irrelevant_type, its draw and its final
   guard.  The randomised, generic helpers enter as ORACLE arguments carrying the value the
   real code drew:
     _construct_related_types(etype, ...)           fo_related
     instantiate_type_constructor inside to_type    fo_inst   (constructor id -> instantiation)
     choose_type(types)                             io_choose
     utils.random.choice(available_types)           io_pick   (the index drawn)
     get_irrelevant_parameterized_type(...)         io_param  (Some None = Python's None)
   so a search is a function of (world, fuel, types, query, flags, oracle answers).
   Python sets are duplicate-free lists (duplicates up to Python's ==, like get_supertypes in
   Types/Subst.v); every consumer is insensitive to the order. *)
From Coq Require Import List Arith Bool.
Import ListNotations.
From Heph Require Import Types.Syntax Types.Subst Types.Subtype.

(* a value, a Python exception (an is_subtype call that raises / runs out of fuel), or an
   oracle table without the answer that the run needs *)
Inductive outcome (A : Type) : Type :=
| Val (a : A)
| Exc
| Missing.
Arguments Val {A} a.
Arguments Exc {A}.
Arguments Missing {A}.

Definition bind {A B : Type} (x : outcome A) (f : A -> outcome B) : outcome B :=
  match x with
  | Val a => f a
  | Exc => Exc
  | Missing => Missing
  end.

Fixpoint map_out {A B : Type} (f : A -> outcome B) (l : list A) : outcome (list B) :=
  match l with
  | [] => Val []
  | x :: r => bind (f x) (fun y => bind (map_out f r) (fun r' => Val (y :: r')))
  end.

(* set.add / set.discard on duplicate-free lists *)
Definition set_add (t : ty) (s : list ty) : list ty := if memb t s then s else s ++ [t].
Definition set_discard (t : ty) (s : list ty) : list ty := filter (fun x => negb (py_eqb t x)) s.

(* oracle answers of one _find_types call *)
Record ft_oracle := {
  fo_related : option ty;          (* value returned by _construct_related_types, when it is called *)
  fo_inst : list (nat * ty)        (* to_type: constructor id -> value of instantiate_type_constructor *)
}.

(* oracle answers of one find_irrelevant_type call *)
Record fit_oracle := {
  io_choose : option ty;           (* choose_type(types) *)
  io_sup : ft_oracle;              (* the find_supertypes call *)
  io_sub : ft_oracle;              (* the find_subtypes call *)
  io_pick : nat;                   (* index drawn by utils.random.choice(available_types) *)
  io_param : option (option ty)    (* get_irrelevant_parameterized_type: Some None = it returned None *)
}.

Section W.
  Context (w : world) (fuel : nat).

  (* the loop `for c in types` of _find_types (get_subtypes branch) *)
  Fixpoint collect_subtypes (etype : ty) (types acc : list ty) : outcome (list ty) :=
    match types with
    | [] => Val acc
    | c :: rest =>
        if py_eqb etype c then collect_subtypes etype rest acc
        else match is_subtype w fuel c etype with
             | Rt => collect_subtypes etype rest (set_add c acc)
             | Rf => collect_subtypes etype rest acc
             | Rerr => Exc
             end
    end.

  (* {st for st in t_set if st.is_subtype(bound)} *)
  Fixpoint filter_bound (b : ty) (l : list ty) : outcome (list ty) :=
    match l with
    | [] => Val []
    | x :: r =>
        match is_subtype w fuel x b with
        | Rerr => Exc
        | Rt => bind (filter_bound b r) (fun r' => Val (x :: r'))
        | Rf => filter_bound b r
        end
    end.

  (* to_type(stype, types) *)
  Definition to_type (inst : list (nat * ty)) (t : ty) : outcome ty :=
    match t with
    | TCon c => match find_nat inst c with Some r => Val r | None => Missing end
    | _ => Val t
    end.

  (* _find_types(etype, types, get_subtypes, include_self, bound, concrete_only, ignore_variance);
     ignore_variance only reaches _construct_related_types, i.e. the oracle *)
  Definition find_types (etype : ty) (types : list ty) (get_subtypes include_self : bool)
             (bound : option ty) (concrete_only : bool) (o : ft_oracle) : outcome (list ty) :=
    bind (if get_subtypes then collect_subtypes etype types []
          else match get_supertypes w etype with Some l => Val l | None => Exc end)
    (fun base =>
    bind (if is_app etype
          then match fo_related o with Some r => Val (set_add r base) | None => Missing end
          else Val base)
    (fun s1 =>
    let s2 := if include_self then set_add etype s1 else set_discard etype s1 in
    bind (match get_subtypes, bound with
          | false, Some b => filter_bound b s2
          | _, _ => Val s2
          end)
    (fun s3 =>
    if concrete_only then map_out (to_type (fo_inst o)) s3 else Val s3))).

  (* find_subtypes drops its `bound` argument (it is not handed on to _find_types) *)
  Definition find_subtypes (etype : ty) (types : list ty) (include_self : bool) (bound : option ty)
             (concrete_only : bool) (o : ft_oracle) : outcome (list ty) :=
    find_types etype types true include_self None concrete_only o.

  Definition find_supertypes (etype : ty) (types : list ty) (include_self : bool) (bound : option ty)
             (concrete_only : bool) (o : ft_oracle) : outcome (list ty) :=
    find_types etype types false include_self bound concrete_only o.

  (* available_types = [t for t in types
        if t not in relevant_types and not (t.is_type_constructor() and t.is_subtype(etype))] *)
  Fixpoint available (etype : ty) (relevant types : list ty) : outcome (list ty) :=
    match types with
    | [] => Val []
    | t :: rest =>
        if memb t relevant then available etype relevant rest
        else if is_con t then
               match is_subtype w fuel t etype with
               | Rerr => Exc
               | Rt => available etype relevant rest
               | Rf => bind (available etype relevant rest) (fun r => Val (t :: r))
               end
             else bind (available etype relevant rest) (fun r => Val (t :: r))
    end.

  (* the final guard: t.is_subtype(etype) or etype.is_subtype(t) *)
  Definition related_guard (t etype : ty) : outcome bool :=
    match is_subtype w fuel t etype with
    | Rerr => Exc
    | Rt => Val true
    | Rf => match is_subtype w fuel etype t with
            | Rerr => Exc
            | Rt => Val true
            | Rf => Val false
            end
    end.

  (* the body of find_irrelevant_type once etype is not the top type and not an unbounded variable *)
  Definition irrelevant_for (etype : ty) (types : list ty) (o : fit_oracle) : outcome (option ty) :=
    bind (find_supertypes etype types true None true (io_sup o)) (fun sups =>
    bind (find_subtypes etype types true None true (io_sub o)) (fun subs =>
    bind (available etype (sups ++ subs) types) (fun avail =>
    match avail with
    | [] => Val None
    | _ :: _ =>
        match nth_error avail (io_pick o) with
        | None => Missing
        | Some t =>
            if is_con t then
              match io_param o with
              | None => Missing
              | Some None => Val None
              | Some (Some r) =>
                  bind (related_guard r etype) (fun rel => Val (if rel then None else Some r))
              end
            else Val (Some t)
        end
    end))).

  Definition choose (o : fit_oracle) : outcome (option ty) :=
    match io_choose o with Some r => Val (Some r) | None => Missing end.

  (* find_irrelevant_type(etype, types, factory); any = the language's top type *)
  Definition find_irrelevant_type (any : nat) (etype : ty) (types : list ty) (o : fit_oracle)
    : outcome (option ty) :=
    if py_eqb etype (TBuiltin any false) then Val None
    else match etype with
         | TVar _ _ None => choose o
         | TVar _ _ (Some b) =>
             if py_eqb b (TBuiltin any false) then choose o else irrelevant_for b types o
         | _ => irrelevant_for etype types o
         end.

  (* the type the result must be unrelated to: the bound for a bounded type variable *)
  Definition irr_target (etype : ty) : ty :=
    match etype with
    | TVar _ _ (Some b) => b
    | _ => etype
    end.
End W.
