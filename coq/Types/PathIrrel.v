(* Types/PathIrrel.v -- D2: judgement paths only name captures.  Without wildcards and
   captures in the table and in the two types, SubA does not depend on the path. *)
From Coq Require Import List Arith Bool Lia.
Import ListNotations.
From Heph Require Import Types.Syntax Types.Subst Types.Subtype Types.Decl Types.TableOk
  Types.RefSound Types.Refuted Types.PFBase Types.SubtypePF Types.DeclPF.

(* no wildcard and no captured type anywhere in t *)
Fixpoint nwc (t : ty) : bool :=
  match t with
  | TWild _ _ | TCap _ _ _ => false
  | TApp _ l => forallb nwc l
  | TVar _ _ (Some b) => nwc b
  | _ => true
  end.

Definition nwc_table (w : world) : bool :=
  forallb (fun cd => forallb nwc (c_supers (snd cd))) (w_ct w).

Lemma plain_closed_nwc : forall t, plain_closed t = true -> nwc t = true.
Proof.
  apply (ty_ind' (fun t => plain_closed t = true -> nwc t = true)); intros; try discriminate; try reflexivity.
  cbn in *. induction H as [|a l Ha Hl IH]; cbn in *; [reflexivity|].
  apply andb_prop in H0. destruct H0 as [H1 H2]. rewrite (Ha H1), (IH H2). reflexivity.
Qed.

Lemma open_args_nwc : forall p args i, forallb nwc args = true -> open_args p i args = args.
Proof.
  intros p args. induction args as [|a args IH]; intros i H; cbn in *; [reflexivity|].
  apply andb_prop in H. destruct H as [H1 H2]. rewrite (IH _ H2). f_equal.
  destruct a; try reflexivity; discriminate.
Qed.

Lemma subst_nwc : forall b m, (forall r, In r (map snd m) -> nwc r = true) ->
  forall e, nwc e = true -> nwc (subst b m e) = true.
Proof.
  intros b m Hm.
  apply (ty_ind' (fun e => nwc e = true -> nwc (subst b m e) = true)); intros; try discriminate; try reflexivity.
  - cbn [subst nwc] in *. induction H as [|a l Ha Hl IH]; cbn in *; [reflexivity|].
    apply andb_prop in H0. destruct H0 as [H1 H2]. rewrite (Ha H1), (IH H2). reflexivity.
  - cbn [subst]. destruct (lookup_sub m (TVar x v None)) as [r|] eqn:E; [|reflexivity].
    destruct (b && has_tv r); [reflexivity|]. apply Hm. eapply lookup_in; eauto.
  - cbn [subst]. destruct (lookup_sub m (TVar x v (Some b0))) as [r|] eqn:E; [|cbn; auto].
    destruct (b && has_tv r); [cbn; auto|]. apply Hm. eapply lookup_in; eauto.
Qed.

Lemma inst_super_nwc : forall d args s, forallb nwc args = true -> nwc s = true ->
  nwc (inst_super d args s) = true.
Proof.
  intros d args s Ha Hs. unfold inst_super. apply subst_nwc; auto.
  intros r Hr. unfold mk_map in Hr. rewrite map_rev in Hr. apply in_rev in Hr.
  apply in_map_iff in Hr. destruct Hr as [[k v] [E Hin]]. cbn in E. subst v.
  apply in_combine_r in Hin. apply (forallb_In _ _ _ _ Ha Hin).
Qed.

Section PI.
  Variable w : world.
  Hypothesis Hnw : nwc_table w = true.

  Lemma nwc_super : forall c d s, find_class w c = Some d -> In s (c_supers d) -> nwc s = true.
  Proof.
    intros c d s Hd Hin. apply find_nat_in in Hd.
    pose proof (forallb_In _ _ _ _ Hnw Hd) as H. cbn in H. apply (forallb_In _ _ _ _ H Hin).
  Qed.

  Lemma path_irrel_mut :
    (forall p s t, SubA w p s t -> nwc s = true -> nwc t = true -> forall q, SubA w q s t) /\
    (forall p i ps l1 l2, ContA w p i ps l1 l2 -> forallb nwc l1 = true -> forallb nwc l2 = true ->
       forall q j, ContA w q j ps l1 l2) /\
    (forall q prm a b, Cont1 w q prm a b -> nwc a = true -> nwc b = true -> forall q', Cont1 w q' prm a b).
  Proof.
    apply SubA_mutind; intros; try discriminate.
    - apply A_Nothing.
    - apply A_BotBuiltin; auto.
    - apply A_BuiltinRefl.
    - eapply A_BuiltinUp; eauto.
    - apply A_ClassRefl.
    - eapply A_ClassUp; eauto. apply H2; auto. eapply nwc_super; eauto.
    - apply A_VarRefl; auto.
    - apply A_VarUp. apply H0; auto.
    - cbn [nwc] in H4, H5. rewrite open_args_nwc in H3; auto.
      apply (A_AppArgs w q c d args bargs H H0 H1). rewrite open_args_nwc; auto.
    - cbn [nwc] in H4. rewrite open_args_nwc in H3; auto.
      apply (A_AppUp w q c d args s t H H0 H1). rewrite open_args_nwc; auto.
      apply H3; auto. apply inst_super_nwc; auto. eapply nwc_super; eauto.
    - constructor.
    - cbn in H3, H4. apply andb_prop in H3. apply andb_prop in H4. destruct H3, H4.
      constructor; auto.
    - apply C_Inv; auto.
    - apply C_Cov; auto.
    - apply C_Contra; auto.
  Qed.
End PI.

Lemma suba_path_irrelevant_nwc_lem : forall w p q s t,
  nwc_table w = true -> nwc s = true -> nwc t = true -> SubA w p s t -> SubA w q s t.
Proof. intros w p q s t Hw Hs Ht H. eapply (proj1 (path_irrel_mut w Hw)); eauto. Qed.

(* ---------- table_ok implies nwc_table ---------- *)
Lemma py_eqb_nwc : forall a b, py_eqb a b = true -> nwc a = nwc b.
Proof.
  apply (ty_ind' (fun a => forall b, py_eqb a b = true -> nwc a = nwc b)); intros.
  - destruct b0; try discriminate; reflexivity.
  - destruct b; try discriminate; reflexivity.
  - destruct b as [| |d m| | | | |]; try discriminate.
    rewrite py_eqb_app in H0. apply andb_prop in H0. destruct H0 as [_ Hl]. cbn [nwc].
    revert m Hl. induction H as [|a l Ha Hfl IH]; intros [|y m] Hl; cbn in *; try discriminate; auto.
    apply andb_prop in Hl. destruct Hl as [H1 H2]. rewrite (Ha y H1), (IH m H2). reflexivity.
  - destruct b; try discriminate; reflexivity.
  - destruct b as [| | | |y u p| | |]; try discriminate.
    rewrite py_eqb_var in H. apply andb_prop in H. destruct H as [_ H]. destruct p; [discriminate|reflexivity].
  - destruct b0 as [| | | |y u p| | |]; try discriminate.
    rewrite py_eqb_var in H0. apply andb_prop in H0. destruct H0 as [_ H0].
    destruct p; [|discriminate]. cbn in *. auto.
  - destruct b as [| | | | |u p| |]; try discriminate. reflexivity.
  - destruct b0 as [| | | | |u p| |]; try discriminate. reflexivity.
  - destruct b; try discriminate; reflexivity.
  - destruct b as [| | | | | | |j u' l']; try discriminate. reflexivity.
Qed.

Lemma py_eqb_size : forall a b, py_eqb a b = true -> ty_size a = ty_size b.
Proof.
  apply (ty_ind' (fun a => forall b, py_eqb a b = true -> ty_size a = ty_size b)); intros.
  - destruct b0; try discriminate; reflexivity.
  - destruct b; try discriminate; reflexivity.
  - destruct b as [| |d m| | | | |]; try discriminate.
    rewrite py_eqb_app in H0. apply andb_prop in H0. destruct H0 as [_ Hl]. cbn [ty_size]. f_equal.
    revert m Hl. induction H as [|a l Ha Hfl IH]; intros [|y m] Hl; cbn in *; try discriminate; auto.
    apply andb_prop in Hl. destruct Hl as [H1 H2]. rewrite (Ha y H1), (IH m H2). reflexivity.
  - destruct b; try discriminate; reflexivity.
  - destruct b as [| | | |y u p| | |]; try discriminate.
    rewrite py_eqb_var in H. apply andb_prop in H. destruct H as [_ H]. destruct p; [discriminate|reflexivity].
  - destruct b0 as [| | | |y u p| | |]; try discriminate.
    rewrite py_eqb_var in H0. apply andb_prop in H0. destruct H0 as [_ H0].
    destruct p; [|discriminate]. cbn in *. f_equal. auto.
  - destruct b as [| | | | |u p| |]; try discriminate.
    rewrite py_eqb_wild in H. apply andb_prop in H. destruct H as [_ H]. destruct p; [discriminate|reflexivity].
  - destruct b0 as [| | | | |u p| |]; try discriminate.
    rewrite py_eqb_wild in H0. apply andb_prop in H0. destruct H0 as [_ H0].
    destruct p; [|discriminate]. cbn in *. f_equal. auto.
  - destruct b; try discriminate; reflexivity.
  - destruct b as [| | | | | | |j u' l']; try discriminate. reflexivity.
Qed.

Lemma over_params_nwc : forall ps,
  (forall p b, In p ps -> tvar_bound p = Some b -> over_params ps b = true) ->
  forall n e, ty_size e <= n -> over_params ps e = true -> nwc e = true.
Proof.
  intros ps Hb. induction n as [|n IH]; intros e Hn Ho.
  - destruct e; cbn in Hn; try lia. destruct bound; cbn in Hn; lia. destruct bound; cbn in Hn; lia.
  - destruct e as [b pr|c|c l|c|x v ob|v ob| |i uu ll]; try discriminate; try reflexivity.
    + cbn [over_params nwc ty_size] in *.
      assert (Hs : fold_right (fun a k => ty_size a + k) 0 l <= n) by lia. clear Hn.
      induction l as [|a l IHl]; cbn in *; [reflexivity|].
      apply andb_prop in Ho. destruct Ho as [H1 H2].
      rewrite (IH a), IHl; auto; lia.
    + destruct ob as [b|]; [|reflexivity]. cbn [over_params] in Ho.
      apply memb_ex in Ho. destruct Ho as [k [Hk He]].
      destruct k as [| | | |y u p| | |]; try discriminate.
      rewrite py_eqb_var in He. apply andb_prop in He. destruct He as [_ He].
      destruct p as [b'|]; [|discriminate]. cbn in He.
      cbn [nwc]. rewrite (py_eqb_nwc b b' He). apply IH.
      * rewrite <- (py_eqb_size b b' He). cbn in Hn. lia.
      * apply (Hb _ b' Hk). reflexivity.
Qed.

Lemma table_ok_nwc : forall w, table_ok w = true -> nwc_table w = true.
Proof.
  intros w Hok. unfold nwc_table. apply forallb_forall. intros [c d] Hin. cbn.
  apply forallb_forall. intros s Hs.
  destruct (tok_parts w Hok) as [Hc _]. pose proof (forallb_In _ _ _ _ Hc Hin) as Hcd. cbn in Hcd.
  unfold class_ok in Hcd.
  apply andb_prop in Hcd. destruct Hcd as [Hcd H4].
  apply andb_prop in Hcd. destruct Hcd as [_ H3].
  pose proof (forallb_In _ _ _ _ H4 Hs) as Hs'. cbn beta in Hs'.
  apply andb_prop in Hs'. destruct Hs' as [Hs' _]. apply andb_prop in Hs'. destruct Hs' as [Hs' _].
  apply andb_prop in Hs'. destruct Hs' as [Ho _].
  apply (over_params_nwc (c_params d)) with (n := ty_size s); auto.
  intros p b Hp Hbd. pose proof (forallb_In _ _ _ _ H3 Hp) as Hp'. cbn beta in Hp'. rewrite Hbd in Hp'.
  apply andb_prop in Hp'. destruct Hp' as [Hp' _]. apply andb_prop in Hp'. apply Hp'.
Qed.

Lemma suba_path_irrelevant_pf_lem : forall w p q s t,
  table_ok w = true -> plain_closed s = true -> plain_closed t = true ->
  SubA w p s t -> SubA w q s t.
Proof.
  intros w p q s t Hok Ps Pt. apply suba_path_irrelevant_nwc_lem.
  - apply table_ok_nwc; auto.
  - apply plain_closed_nwc; auto.
  - apply plain_closed_nwc; auto.
Qed.

(* ---------- without a table condition the statement is false ---------- *)
(* class 1 = A<in T>, class 4 = G<T>, class 3 = Y : G<out Number>,
   class 2 = C : A<G<K>> where K is a literal captured type whose name is the one capture
   conversion produces for G<out Number> when the judgement starts at path [] *)
Definition w_path : world :=
  {| w_ct := [(1, {| c_params := [Tin]; c_supers := [] |});
              (4, {| c_params := [T10]; c_supers := [] |});
              (3, {| c_params := []; c_supers := [TApp 4 [outNumber]] |});
              (2, {| c_params := [];
                     c_supers := [TApp 1 [TApp 4 [TCap [0; 2; 0; 0; 0] (Some tNumber) None]]] |})];
     w_bt := bt3; w_array := None |}.

Lemma suba_path_irrelevant_pf_refuted_lem :
  exists w p q s t, plain_closed s = true /\ plain_closed t = true /\ SubA w p s t /\ ~ SubA w q s t.
Proof.
  exists w_path, [], [7], (TClass 2), (TApp 1 [TClass 3]).
  repeat split; try reflexivity.
  - apply (sub_ref_yes_sound_lem _ 40); vm_compute; reflexivity.
  - apply (sub_ref_no_sound_lem _ 40); vm_compute; reflexivity.
Qed.
