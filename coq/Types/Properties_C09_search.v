(* Properties_C09_search.v -- the property theorems about the MODEL of the searches (Types/Search.v:
   _find_types / find_subtypes / find_supertypes / to_type / find_irrelevant_type of
   /repo/src/ir/type_utils.py), nothing else.  All of them hold for every class table, type list, query,
   flag combination, fuel and every oracle answer (the values drawn by _construct_related_types,
   instantiate_type_constructor, choose_type, utils.random.choice, get_irrelevant_parameterized_type). *)
From Coq Require Import List Arith Bool.
Import ListNotations.
From Heph Require Import Types.Syntax Types.Subst Types.Subtype Types.Decl Types.TableOk Types.SubtypePF
  Types.Search Types.SearchProofs.

(* (a) the subtype search returns only: the query itself (only when include_self), the type built by
   _construct_related_types, or a member of `types` other than the query that is_subtype accepts *)
Theorem find_subtypes_sound : forall w fuel e types inc bd o rs,
  find_subtypes w fuel e types inc bd false o = Val rs ->
  forall r, In r rs ->
    (r = e /\ inc = true) \/
    (is_app e = true /\ fo_related o = Some r) \/
    (In r types /\ py_eqb e r = false /\ is_subtype w fuel r e = Rt).
Proof. exact find_subtypes_sound_lem. Qed.
Print Assumptions find_subtypes_sound.

(* ... and every such member is returned (up to Python's ==: the result is a set) *)
Theorem find_subtypes_complete : forall w fuel e types inc bd o rs,
  find_subtypes w fuel e types inc bd false o = Val rs ->
  forall c, In c types -> py_eqb e c = false -> is_subtype w fuel c e = Rt -> memb c rs = true.
Proof. exact find_subtypes_complete_lem. Qed.
Print Assumptions find_subtypes_complete.

(* a value is returned only when no is_subtype call on a member of `types` raised *)
Theorem find_subtypes_total : forall w fuel e types inc bd conc o rs,
  find_subtypes w fuel e types inc bd conc o = Val rs ->
  forall c, In c types -> py_eqb e c = false -> is_subtype w fuel c e <> Rerr.
Proof. exact find_subtypes_total_lem. Qed.
Print Assumptions find_subtypes_total.

(* the constructed type is part of the answer unless it is the query and the query was not asked for *)
Theorem find_types_returns_related : forall w fuel e types gs inc o rs r,
  find_types w fuel e types gs inc None false o = Val rs ->
  is_app e = true -> fo_related o = Some r -> (inc = true \/ py_eqb e r = false) -> memb r rs = true.
Proof. exact find_types_related_lem. Qed.
Print Assumptions find_types_returns_related.

(* the query itself is included exactly when asked for (both directions of the search) *)
Theorem find_types_self_iff : forall w fuel e types gs inc o rs,
  find_types w fuel e types gs inc None false o = Val rs -> memb e rs = inc.
Proof. exact find_types_self_lem. Qed.
Print Assumptions find_types_self_iff.

Theorem find_types_self_concrete : forall w fuel e types gs o rs,
  find_types w fuel e types gs true None true o = Val rs -> is_con e = false -> memb e rs = true.
Proof. exact find_types_self_concrete_lem. Qed.
Print Assumptions find_types_self_concrete.

(* concrete_only: the answer is the set with every bare constructor replaced by what the instantiation
   oracle returned for it; the other elements are kept *)
Theorem find_types_concrete_elements : forall w fuel e types gs inc bd o rs,
  find_types w fuel e types gs inc bd true o = Val rs ->
  exists s, find_types w fuel e types gs inc bd false o = Val s /\
    (forall r, In r rs -> (In r s /\ is_con r = false) \/
                          (exists c, In (TCon c) s /\ find_nat (fo_inst o) c = Some r)) /\
    (forall t, In t s -> is_con t = false -> In t rs).
Proof. exact find_types_concrete_elements_lem. Qed.
Print Assumptions find_types_concrete_elements.

(* usability: with concrete_only a bare constructor in the answer can only be something
   instantiate_type_constructor itself returned *)
Theorem find_types_concrete_usable : forall w fuel e types gs inc bd o rs,
  find_types w fuel e types gs inc bd true o = Val rs ->
  forall r, In r rs -> is_con r = true -> exists c, find_nat (fo_inst o) c = Some r.
Proof. exact find_types_usable_lem. Qed.
Print Assumptions find_types_concrete_usable.

(* (b) the supertype search returns only the query (when asked for), the constructed type or an element of
   get_supertypes, and everything returned is below the bound *)
Theorem find_supertypes_sound : forall w fuel e types inc bd o rs,
  find_supertypes w fuel e types inc bd false o = Val rs ->
  forall r, In r rs ->
    ((r = e /\ inc = true) \/
     (is_app e = true /\ fo_related o = Some r) \/
     (exists sups, get_supertypes w e = Some sups /\ In r sups)) /\
    (forall b, bd = Some b -> is_subtype w fuel r b = Rt).
Proof. exact find_supertypes_sound_lem. Qed.
Print Assumptions find_supertypes_sound.

(* ... and every element of get_supertypes below the bound is returned *)
Theorem find_supertypes_complete : forall w fuel e types inc bd o rs sups,
  find_supertypes w fuel e types inc bd false o = Val rs ->
  get_supertypes w e = Some sups ->
  forall u, In u sups -> (inc = true \/ py_eqb e u = false) ->
            (forall b, bd = Some b -> is_subtype w fuel u b = Rt) -> In u rs.
Proof. exact find_supertypes_complete_lem. Qed.
Print Assumptions find_supertypes_complete.

(* (c) nothing for the top type *)
Theorem find_irrelevant_type_top : forall w fuel any p types o,
  find_irrelevant_type w fuel any (TBuiltin any p) types o = Val None.
Proof. exact find_irrelevant_top_lem. Qed.
Print Assumptions find_irrelevant_type_top.

(* (d)/(e) a returned type is: the draw of choose_type (unbounded / top-bounded type variable only); or a
   non-constructor member of `types` that is not == the target, that is_subtype rejects as a subtype of the
   target and that is not among get_supertypes of the target; or the instantiation the oracle returned for a
   constructor, which the final guard found unrelated in BOTH directions *)
Theorem find_irrelevant_type_spec : forall w fuel any e types o t,
  find_irrelevant_type w fuel any e types o = Val (Some t) ->
  py_eqb e (TBuiltin any false) = false /\
  ((uses_choose any e = true /\ io_choose o = Some t) \/
   (uses_choose any e = false /\
    ((In t types /\ is_con t = false /\ py_eqb (irr_target e) t = false /\
      is_subtype w fuel t (irr_target e) = Rf /\
      (forall sups, get_supertypes w (irr_target e) = Some sups -> memb t sups = false)) \/
     (io_param o = Some (Some t) /\ is_subtype w fuel t (irr_target e) = Rf /\
      is_subtype w fuel (irr_target e) t = Rf)))).
Proof. exact find_irrelevant_spec_lem. Qed.
Print Assumptions find_irrelevant_type_spec.

(* through C06's exactness (is_subtype_complete_pf_partial): on the boxed projection-free closed fragment the
   result is not a DECLARATIVE subtype of the target; an instantiated constructor is not a declarative
   supertype either *)
Theorem find_irrelevant_type_declarative_partial : forall w fuel any e types o t,
  table_ok w = true -> uses_choose any e = false ->
  pf_ok w (irr_target e) = true -> pf_ok w t = true ->
  find_irrelevant_type w fuel any e types o = Val (Some t) ->
  ~ SubA w [] t (irr_target e) /\
  (In t types /\ is_con t = false /\ py_eqb (irr_target e) t = false /\
   (forall sups, get_supertypes w (irr_target e) = Some sups -> memb t sups = false)
   \/ io_param o = Some (Some t) /\ ~ SubA w [] (irr_target e) t).
Proof. exact find_irrelevant_declarative_lem. Qed.
Print Assumptions find_irrelevant_type_declarative_partial.

(* the member case is NOT unrelated in general: the code tests the candidate against get_supertypes of the
   target, not with is_subtype, so an instantiation of a covariant class present in `types` is returned
   although the target is a (declarative) subtype of it *)
Theorem find_irrelevant_type_member_supertype_refuted :
  exists w fuel any e types o t,
    table_ok w = true /\ pf_ok w e = true /\ pf_ok w t = true /\ uses_choose any e = false /\
    find_irrelevant_type w fuel any e types o = Val (Some t) /\
    In t types /\ is_con t = false /\ is_subtype w fuel e t = Rt /\ SubA w [] e t.
Proof. exact find_irrelevant_member_supertype_refuted_lem. Qed.
Print Assumptions find_irrelevant_type_member_supertype_refuted.

(* non-vacuity: the hypotheses above are satisfiable and every case of both searches occurs *)
Theorem search_nonvacuous :
  table_ok ex_world = true /\ pf_ok ex_world nv_query = true /\ uses_choose 1 nv_query = false /\
  find_subtypes ex_world 40 nv_query nv_types false None false (nv_ft (TApp 1 [TBuiltin 3 false])) =
    Val [TApp 1 [TBuiltin 3 false]] /\
  find_subtypes ex_world 40 nv_query nv_types true None true (nv_ft (TApp 1 [TBuiltin 3 false])) =
    Val [TApp 1 [TBuiltin 3 false]; nv_query] /\
  find_subtypes nv_world2 40 (TClass 2) [TClass 2; TCon 5] false None false {| fo_related := None; fo_inst := [] |} =
    Val [TCon 5] /\
  find_subtypes nv_world2 40 (TClass 2) [TClass 2; TCon 5] false None true
                {| fo_related := None; fo_inst := [(5, TApp 5 [TClass 2])] |} = Val [TApp 5 [TClass 2]] /\
  find_supertypes ex_world 40 (TBuiltin 3 false) nv_types false (Some (TBuiltin 1 false)) false (nv_ft nv_query) =
    Val [TBuiltin 2 false; TBuiltin 1 false] /\
  find_irrelevant_type ex_world 40 1 nv_query nv_types (nv_oracle 1 None) = Val (Some (TBuiltin 2 false)) /\
  pf_ok ex_world (TBuiltin 2 false) = true /\
  find_irrelevant_type ex_world 40 1 nv_query nv_types (nv_oracle 4 (Some (Some (TApp 2 [TBuiltin 2 false])))) =
    Val (Some (TApp 2 [TBuiltin 2 false])) /\
  pf_ok ex_world (TApp 2 [TBuiltin 2 false]) = true /\
  find_irrelevant_type ex_world 40 1 nv_query nv_types (nv_oracle 3 (Some (Some (TApp 1 [TBuiltin 3 false])))) = Val None.
Proof. exact search_nonvacuous_lem. Qed.
Print Assumptions search_nonvacuous.
