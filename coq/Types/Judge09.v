(* Types/Judge09.v -- judging the results of find_subtypes / find_irrelevant_type /
   instantiate_type_constructor with the proved-sound reference checker.  Definitions only. *)
From Coq Require Import List Arith Bool.
Import ListNotations.
From Heph Require Import Types.Syntax Types.Subst Types.Subtype Types.Decl Types.Corr Types.Judge.

Definition tri_code (t : tri) : nat := match t with Yes => 0 | No => 1 | Unk => 2 end.

(* shape of a pair, for known-finding classification (same as Judge.judge) *)
Definition shape (w : world) (s t : ty) : nat :=
  if negb (wf_ty w 20 s && wf_ty w 20 t) then 7
  else if app_with_tv s || app_with_tv t then 3
  else if negb (proj_safe w 12 s && proj_safe w 12 t) then 2
  else 1.

(* find_subtypes(t, include_self, concrete_only) = rs.
   per result: 0 derivable; 10+shape refuted; 5 out of fuel; 8 bare constructor although concrete_only *)
Definition judge_subtypes (w : world) (fuel : nat) (t : ty) (concrete : bool) (rs : list ty) : list nat :=
  map (fun r =>
         if concrete && is_con r then 8
         else if is_con r then 0          (* a constructor stands for "some instantiation": not judged *)
         else match sub_ref w fuel [] r t with
              | Yes => 0
              | Unk => 5
              | No => 10 + shape w r t
              end) rs.

(* self included iff asked for: 0 ok, 9 wrong *)
Definition judge_self (t : ty) (include_self : bool) (rs : list ty) : nat :=
  if Bool.eqb (existsb (py_eqb t) rs) include_self then 0 else 9.

(* find_irrelevant_type(t) = Some r: neither direction derivable.  0 ok (both refuted);
   20+shape: r <: t' derivable; 30+shape: t' <: r derivable; 5 unknown *)
Definition judge_irrelevant (w : world) (fuel : nat) (t r : ty) : nat :=
  let t' := match t with TVar _ _ (Some b) => b | _ => t end in
  match sub_ref w fuel [] r t', sub_ref w fuel [] t' r with
  | Yes, _ => 20 + shape w r t'
  | _, Yes => 30 + shape w t' r
  | No, No => 0
  | _, _ => 5
  end.

Inductive case09 :=
| CSub (t : ty) (include_self concrete : bool) (rs : list ty)
| CIrr (t : ty) (r : option ty).

Definition judge09 (w : world) (any : nat) (fuel : nat) (c : case09) : list nat :=
  match c with
  | CSub t inc conc rs => judge_self t inc rs :: judge_subtypes w fuel t conc rs
  | CIrr t None => [0]
  | CIrr t (Some r) => [if py_eqb t (TBuiltin any false) then 40 else judge_irrelevant w fuel t r]
  end.

Fixpoint judge09_all (w : world) (any : nat) (fuel : nat) (i : nat) (cs : list case09) : list (nat * nat * nat) :=
  match cs with
  | [] => []
  | c :: cs' =>
      (fix tag (j : nat) (l : list nat) : list (nat * nat * nat) :=
         match l with
         | [] => []
         | x :: l' => (if Nat.eqb x 0 then [] else [(i, j, x)]) ++ tag (S j) l'
         end) 0 (judge09 w any fuel c) ++ judge09_all w any fuel (S i) cs'
  end.
