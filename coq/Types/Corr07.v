(* Types/Corr07.v -- comparison for harness/c07.py (substitution / instantiation). Definitions only. *)
From Coq Require Import List Arith Bool.
Import ListNotations.
From Heph Require Import Types.Syntax Types.Subst Types.Subtype Types.Corr.

Inductive op07 :=
| OSubst (usecond : bool) (m : list (ty * ty)) (t : ty) (expect : ty)     (* substitute_type / substitute_type_args *)
| OSupers (t : ty) (expect : list ty)                                      (* obj.supertypes, in order *)
| OClosure (t : ty) (expect : list ty)                                     (* obj.get_supertypes(), a set *)
| OVarFree (t : ty) (expect : ty)                                          (* to_variance_free() *)
| OHasTv (t : ty) (expect : bool)
| OHasWild (t : ty) (expect : bool).

Definition op07_ok (w : world) (o : op07) : bool :=
  match o with
  | OSubst c m t e => ty_eqb (subst c m t) e
  | OSupers t e => tys_eqb (direct_supers w t) e
  | OClosure t e => match get_supertypes w t with Some l => set_eq_ty l e | None => false end
  | OVarFree t e => ty_eqb (to_variance_free t) e
  | OHasTv t e => Bool.eqb (has_tv t) e
  | OHasWild t e => Bool.eqb (has_wildcards t) e
  end.

Fixpoint ops_mismatches (w : world) (i : nat) (os : list op07) : list nat :=
  match os with
  | [] => []
  | o :: os' => (if op07_ok w o then [] else [i]) ++ ops_mismatches w (S i) os'
  end.

Fixpoint groups07 (g : nat) (gs : list (world * list op07)) : list (nat * nat) :=
  match gs with
  | [] => []
  | (w, os) :: gs' => map (fun i => (g, i)) (ops_mismatches w 0 os) ++ groups07 (S g) gs'
  end.
