(* Properties_C07.v -- the property theorems, nothing else. *)
From Coq Require Import List Arith Bool.
Import ListNotations.
From Heph Require Import Types.Syntax Types.Subst Types.TableOk Types.SubstSpec Types.SubstProofs.

(* T1 *)
Theorem subst_empty : forall c t, subst c [] t = t.
Proof. exact subst_empty_lemma. Qed.
Print Assumptions subst_empty.

(* T2 *)
Theorem subst_cond_irrelevant : forall m t,
  (forall k r, In (k, r) m -> has_tv r = false) -> subst true m t = subst false m t.
Proof. exact subst_cond_irrelevant_lemma. Qed.
Print Assumptions subst_cond_irrelevant.

(* T3 *)
Theorem new_supertypes : forall w c d args,
  find_class w c = Some d -> (forall a, In a args -> has_tv a = false) ->
  direct_supers w (TApp c args) =
  map (fun s => if is_app s then subst false (mk_map (c_params d) args) s else s) (c_supers d).
Proof. exact new_supertypes_lemma. Qed.
Print Assumptions new_supertypes.

Theorem new_supertypes_example :
  direct_supers ex_world (new 3 [ex_Number; ex_Int]) = [TApp 1 [TApp 2 [ex_Number]]] /\
  get_supertypes ex_world (new 3 [ex_Number; ex_Int]) =
    Some [TApp 3 [ex_Number; ex_Int]; TApp 1 [TApp 2 [ex_Number]]] /\
  direct_supers ex_world (new 3 [TWild Cov (Some ex_Number); ex_Int]) =
    [TApp 1 [TApp 2 [TWild Cov (Some ex_Number)]]] /\
  get_supertypes ex_world (new 3 [TWild Cov (Some ex_Number); ex_Int]) =
    Some [TApp 3 [TWild Cov (Some ex_Number); ex_Int]; TApp 1 [TApp 2 [TWild Cov (Some ex_Number)]]].
Proof. exact SubstProofs.new_supertypes_example. Qed.
Print Assumptions new_supertypes_example.

(* T4: false as stated *)
Theorem subst_everywhere_refuted :
  exists m t k,
    (forall k' r, In (k', r) m -> is_tvar k' = true /\ has_tv r = false) /\
    In k (map fst m) /\ occurs k (subst false m t) = true.
Proof. exact subst_everywhere_refuted_lemma. Qed.
Print Assumptions subst_everywhere_refuted.

Theorem subst_everywhere_partial : forall m t k,
  (forall k' r, In (k', r) m -> is_tvar k' = true /\ has_tv r = false) ->
  In k (map fst m) -> names_agree m t = true -> occurs k (subst false m t) = false.
Proof. exact subst_everywhere_partial_lemma. Qed.
Print Assumptions subst_everywhere_partial.

Theorem subst_everywhere_partial_key : forall m t k,
  (forall k' r, In (k', r) m -> is_tvar k' = true /\ has_tv r = false) ->
  In k (map fst m) -> no_clash k m t = true -> occurs k (subst false m t) = false.
Proof. exact subst_everywhere_partial_key_lemma. Qed.
Print Assumptions subst_everywhere_partial_key.

Theorem names_agree_strong_implies : forall m t, names_agree_strong m t = true -> names_agree m t = true.
Proof. exact names_agree_strong_weak. Qed.
Print Assumptions names_agree_strong_implies.

(* T5 *)
Theorem subst_ground : forall m t,
  (forall k r, In (k, r) m -> has_tv r = false) -> covered m t = true ->
  has_tv (subst false m t) = false.
Proof. exact subst_ground_lemma. Qed.
Print Assumptions subst_ground.

Theorem subst_ground_example :
  let m := [(ex_T2, ex_Int)] in
  let t := TApp 3 [ex_T2; TWild Cov (Some ex_T2); TApp 2 [ex_T2]] in
  covered m t = true /\
  subst false m t = TApp 3 [ex_Int; TWild Cov (Some ex_Int); TApp 2 [ex_Int]] /\
  has_tv (subst false m t) = false.
Proof. exact SubstProofs.subst_ground_example. Qed.
Print Assumptions subst_ground_example.

(* T6 *)
Theorem closure_sound : forall w fuel stack visited l,
  closure w fuel stack visited = Some l ->
  forall u, In u l -> In u visited \/ exists s, In s stack /\ Reach w s u.
Proof. exact closure_sound_lemma. Qed.
Print Assumptions closure_sound.

Theorem get_supertypes_sound : forall w t l, get_supertypes w t = Some l ->
  forall u, In u l -> Reach w t u.
Proof. exact get_supertypes_sound_lemma. Qed.
Print Assumptions get_supertypes_sound.

Theorem get_supertypes_self : forall w t l, get_supertypes w t = Some l -> In t l.
Proof. exact get_supertypes_self_lemma. Qed.
Print Assumptions get_supertypes_self.

(* T7: false as stated (== ignores the primitive flag, the supertypes attribute does not) *)
Theorem get_supertypes_complete_refuted :
  exists w t l u,
    get_supertypes w t = Some l /\ Reach w t u /\ forall u', In u' l -> py_eqb u u' = false.
Proof. exact get_supertypes_complete_refuted_lemma. Qed.
Print Assumptions get_supertypes_complete_refuted.

Theorem get_supertypes_complete_partial : forall w t l,
  no_prim_supers w = true -> get_supertypes w t = Some l ->
  forall u, Reach w t u -> exists u', In u' l /\ py_eqb u u' = true.
Proof. exact get_supertypes_complete_partial_lemma. Qed.
Print Assumptions get_supertypes_complete_partial.

Theorem get_supertypes_complete_boxed : forall w t l,
  boxed_table w = true -> get_supertypes w t = Some l ->
  forall u, Reach w t u -> exists u', In u' l /\ py_eqb u u' = true.
Proof. exact get_supertypes_complete_boxed_lemma. Qed.
Print Assumptions get_supertypes_complete_boxed.

(* T8 *)
Theorem to_variance_free_idempotent : forall t,
  to_variance_free (to_variance_free t) = to_variance_free t.
Proof. exact to_variance_free_idempotent_lemma. Qed.
Print Assumptions to_variance_free_idempotent.
