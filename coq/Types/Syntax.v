(* Types/Syntax.v -- nominal type terms, class tables and Python's == on types.
   Definitions only.  Mirrors /repo/src/ir/types.py. *)
From Coq Require Import List Arith Bool.
Import ListNotations.

Inductive variance := Inv | Cov | Contra.

Definition var_eqb (a b : variance) : bool :=
  match a, b with Inv, Inv | Cov, Cov | Contra, Contra => true | _, _ => false end.

Inductive ty :=
| TBuiltin (b : nat) (prim : bool)          (* a Builtin subclass instance; == compares the class only *)
| TClass (c : nat)                           (* SimpleClassifier *)
| TApp (c : nat) (args : list ty)            (* ParameterizedType: constructor c applied to args *)
| TCon (c : nat)                             (* bare TypeConstructor *)
| TVar (x : nat) (v : variance) (bound : option ty)   (* TypeParameter *)
| TWild (v : variance) (bound : option ty)   (* WildCardType; bound None = star projection *)
| TNothing                                   (* types.Nothing (NothingType classifier) *)
| TCap (id : list nat) (upper lower : option ty).
    (* a captured (existentially opened) type argument with its bounds.  It exists only inside
       derivations of the declarative relation (Types/Decl.v); no Python object corresponds to
       it, the harness never emits it and every model function treats it as an unknown type. *)

(* a class declaration: type parameters (as TVar terms, [] for non-generic classes) and
   declared supertypes (terms over the parameters) *)
Record cdecl := { c_params : list ty; c_supers : list ty }.

Definition ctable := list (nat * cdecl).

(* built-in table of one language, regenerated from the source on every run
   (Generated/Builtins.v): direct supertypes of the non-primitive instance, whether the
   class answers True to every is_subtype question (Kotlin/Scala Nothing), the extra
   classes its is_assignable override accepts, whether a primitive variant exists *)
Record binfo := { b_supers : list nat; b_bottom : bool; b_assign : list nat; b_has_prim : bool }.
Definition btable := list (nat * binfo).

Record world := { w_ct : ctable; w_bt : btable; w_array : option nat  (* class id of java Array *) }.

Fixpoint find_nat {A} (l : list (nat * A)) (k : nat) : option A :=
  match l with
  | [] => None
  | (k', a) :: l' => if Nat.eqb k' k then Some a else find_nat l' k
  end.

Definition find_class (w : world) (c : nat) : option cdecl := find_nat (w_ct w) c.
Definition find_builtin (w : world) (b : nat) : option binfo := find_nat (w_bt w) b.

(* ---------- Python == (types.py __eq__ methods) on table-consistent objects ---------- *)
Fixpoint py_eqb (a b : ty) {struct a} : bool :=
  let fix leq (l1 l2 : list ty) : bool :=
      match l1, l2 with
      | [], [] => true
      | x :: t, y :: u => py_eqb x y && leq t u
      | _, _ => false
      end in
  let oeq (o1 o2 : option ty) : bool :=
      match o1, o2 with
      | None, None => true
      | Some x, Some y => py_eqb x y
      | _, _ => false
      end in
  match a, b with
  | TBuiltin x _, TBuiltin y _ => Nat.eqb x y
  | TClass x, TClass y => Nat.eqb x y
  | TApp c l, TApp d m => Nat.eqb c d && leq l m
  | TCon c, TCon d => Nat.eqb c d
  | TVar x v o, TVar y u p => Nat.eqb x y && var_eqb v u && oeq o p
  | TWild v o, TWild u p => var_eqb v u && oeq o p
  | TNothing, TNothing => true
  | TCap i u l, TCap j u' l' =>
      (fix ieq (a b : list nat) : bool :=
         match a, b with
         | [], [] => true
         | x :: a', y :: b' => Nat.eqb x y && ieq a' b'
         | _, _ => false
         end) i j && oeq u u' && oeq l l'
  | _, _ => false
  end.

Definition memb (t : ty) (l : list ty) : bool := existsb (py_eqb t) l.

(* ---------- simple predicates (methods of the Python classes) ---------- *)
Definition is_wild (t : ty) : bool := match t with TWild _ _ => true | _ => false end.
Definition is_tvar (t : ty) : bool := match t with TVar _ _ _ => true | _ => false end.
Definition is_app (t : ty) : bool := match t with TApp _ _ => true | _ => false end.
Definition is_con (t : ty) : bool := match t with TCon _ => true | _ => false end.
Definition wbound (t : ty) : option ty := match t with TWild _ b => b | _ => None end.
Definition wvar (t : ty) : variance := match t with TWild v _ => v | _ => Inv end.
Definition tvar_variance (t : ty) : variance := match t with TVar _ v _ => v | _ => Inv end.
Definition tvar_bound (t : ty) : option ty := match t with TVar _ _ b => b | _ => None end.

(* has_type_variables(): truthiness of the Python result *)
Fixpoint has_tv (t : ty) : bool :=
  match t with
  | TVar _ _ _ => true
  | TCon _ => true
  | TApp _ l => existsb has_tv l
  | TWild _ (Some b) => has_tv b
  | _ => false
  end.

(* ParameterizedType.has_wildcards() *)
Fixpoint has_wildcards (t : ty) : bool :=
  match t with
  | TApp _ l => existsb (fun a => is_wild a || has_wildcards a) l
  | _ => false
  end.

Fixpoint ty_size (t : ty) : nat :=
  match t with
  | TApp _ l => S (fold_right (fun a n => ty_size a + n) 0 l)
  | TVar _ _ (Some b) => S (ty_size b)
  | TWild _ (Some b) => S (ty_size b)
  | _ => 1
  end.
