(* Types/Subst.v -- substitution, instantiation and the derived conversions of types.py:
   _get_type_substitution, substitute_type_args, substitute_type, perform_type_substitution,
   TypeConstructor.new, get_supertypes, to_variance_free, get_bound_rec, ...
   Definitions only. *)
From Coq Require Import List Arith Bool.
Import ListNotations.
From Heph Require Import Types.Syntax.

(* type_map.get(etype): keys are TypeParameters (hash name+variance, == adds the bound) *)
Fixpoint lookup_sub (m : list (ty * ty)) (t : ty) : option ty :=
  match m with
  | [] => None
  | (k, r) :: m' => if py_eqb k t then Some r else lookup_sub m' t
  end.

(* a Python dict built by {tp: arg for ...}: later duplicates of an equal key overwrite the
   value but keep the first position; only lookups matter here, so: last binding wins *)
Definition mk_map (ks vs : list ty) : list (ty * ty) := rev (combine ks vs).

(* _get_type_substitution(etype, type_map, cond); usecond = true is the default
   cond = has_type_variables, usecond = false is substitute_type's "lambda t: False" *)
Fixpoint subst (usecond : bool) (m : list (ty * ty)) (t : ty) {struct t} : ty :=
  match t with
  | TApp c l => TApp c (map (subst usecond m) l)
  | TWild v (Some b) => TWild v (Some (subst usecond m b))
  | TVar x v ob =>
      let keep := match ob with
                  | Some b => TVar x v (Some (subst usecond m b))
                  | None => t
                  end in
      match lookup_sub m t with
      | Some r => if usecond && has_tv r then keep else r
      | None => keep
      end
  | _ => t
  end.

Definition substitute_type (t : ty) (m : list (ty * ty)) : ty := subst false m t.

Section W.
  Context (w : world).

  (* the supertypes attribute of an object that is the image of the table:
     perform_type_substitution substitutes parameterized supertypes only, with the default cond *)
  Definition direct_supers (t : ty) : list ty :=
    match t with
    | TBuiltin b prim =>
        if prim then []
        else match find_builtin w b with
             | Some bi => map (fun s => TBuiltin s false) (b_supers bi)
             | None => []
             end
    | TClass c => match find_class w c with Some d => c_supers d | None => [] end
    | TCon c => match find_class w c with Some d => c_supers d | None => [] end
    | TApp c args =>
        match find_class w c with
        | Some d =>
            let m := mk_map (c_params d) args in
            map (fun s => if is_app s then subst true m s else s) (c_supers d)
        | None => []
        end
    | _ => []
    end.

  (* Type.get_supertypes(): self and the transitive closure, as a set (order unspecified:
     every consumer is order-insensitive) *)
  Fixpoint closure (fuel : nat) (stack visited : list ty) : option (list ty) :=
    match fuel with
    | O => None
    | S f =>
        match stack with
        | [] => Some visited
        | s :: rest =>
            let new := fold_left (fun acc x => if memb x (visited ++ acc) then acc else acc ++ [x])
                                 (direct_supers s) [] in
            closure f (new ++ rest) (visited ++ new)
        end
    end.

  Definition closure_fuel : nat := 64.

  Definition get_supertypes (t : ty) : option (list ty) := closure closure_fuel [t] [t].

  (* TypeConstructor.new(type_args) *)
  Definition new (c : nat) (args : list ty) : ty := TApp c args.

  (* WildCardType.get_bound_rec() *)
  Fixpoint wild_bound_rec (t : ty) : option ty :=
    match t with
    | TWild _ (Some b) => if is_wild b then wild_bound_rec b else Some b
    | _ => None
    end.

  (* ParameterizedType.to_variance_free(type_var_map=None) *)
  Definition to_variance_free (t : ty) : ty :=
    match t with
    | TApp c args =>
        TApp c (map (fun a => match a with
                              | TWild _ (Some _) => match wild_bound_rec a with Some b => b | None => a end
                              | _ => a
                              end) args)
    | _ => t
    end.
End W.
