(* Properties_C08.v -- the property theorems, nothing else.  The assignment computation is
   validated per call; these theorems are (i) what an accepting verdict of the bound validator
   establishes and (ii) the variance-choice logic for every random draw. *)
From Coq Require Import List Arith Bool.
Import ListNotations.
From Heph Require Import Types.Syntax Types.Subst Types.Subtype Types.Decl Types.Corr Types.Judge Types.Judge09 Types.Judge09Proofs.
From Heph Require Import IR.Syntax IR.Switches IR.SwitchProofs.

Theorem accepted_argument_is_within_bound : forall w fuel bound rs i arg,
  nth_error rs i = Some arg -> nth_error (judge_subtypes w fuel bound false rs) i = Some 0 ->
  is_con arg = false -> SubA w [] arg bound.
Proof. exact (fun w fuel bound rs i arg => judge_subtypes_ok_lem w fuel bound false rs i arg). Qed.
Print Assumptions accepted_argument_is_within_bound.

Theorem projection_never_when_bound_mentions_parameter :
  forall du dc pv ch pick, get_type_arg_variance du dc pv ch true pick = Inv.
Proof. exact bound_mentioned_invariant_l. Qed.
Print Assumptions projection_never_when_bound_mentions_parameter.

Theorem projection_never_without_variance_choices :
  forall du dc pv ib pick, get_type_arg_variance du dc pv None ib pick = Inv.
Proof. exact no_choices_invariant_l. Qed.
Print Assumptions projection_never_without_variance_choices.

Theorem covariant_projection_only_where_allowed :
  forall du dc pv ch ib pick, get_type_arg_variance du dc pv ch ib pick = Cov ->
    du = false /\ ib = false /\ pv <> Contra /\ exists cc, ch = Some (true, cc).
Proof. exact covariant_only_if_allowed_l. Qed.
Print Assumptions covariant_projection_only_where_allowed.

Theorem contravariant_projection_only_where_allowed :
  forall du dc pv ch ib pick, get_type_arg_variance du dc pv ch ib pick = Contra ->
    du = false /\ dc = false /\ ib = false /\ pv <> Cov /\ exists cv, ch = Some (cv, true).
Proof. exact contravariant_only_if_allowed_l. Qed.
Print Assumptions contravariant_projection_only_where_allowed.
