(* Properties_C06_proj.v -- C06 on the projection fragment: the property theorems, nothing else. *)
From Coq Require Import List Arith Bool.
Import ListNotations.
From Heph Require Import Types.Syntax Types.Subst Types.Subtype Types.Decl Types.TableOk Types.Judge
  Types.Refuted Types.ProjFrag Types.ProjFragC Types.ProjSound Types.ProjComplete Types.ProjSafe Types.ProjSafeSound Types.ProjSafeJudge Types.ProjExamples.

(* closed types whose type arguments are closed types or bounded projections, at any depth:
   a True answer is justified in the declarative relation (projections on the left opened by
   capture conversion), provided the table's declared supertypes mention the class's type
   variables only as direct arguments at positions of the same declared variance *)
Theorem is_subtype_sound_proj_partial : forall w fuel n m p s t,
  table_ok w = true -> params_direct w = true ->
  proj_closed s = true -> proj_closed t = true ->
  wf_ty w n s = true -> wf_ty w m t = true ->
  is_subtype w fuel s t = Rt -> SubA w p s t.
Proof. exact is_subtype_sound_proj_lem. Qed.
Print Assumptions is_subtype_sound_proj_partial.

(* the same on the fuel-free form of the fragment *)
Theorem is_subtype_sound_frag_partial : forall w fuel p s t,
  table_ok w = true -> params_direct w = true -> frag w s = true -> frag w t = true ->
  is_subtype w fuel s t = Rt -> SubA w p s t.
Proof. exact is_subtype_sound_frag_lem. Qed.
Print Assumptions is_subtype_sound_frag_partial.

Theorem wf_proj_closed_frag : forall w n t, proj_closed t = true -> wf_ty w n t = true -> frag w t = true.
Proof. exact wf_frag. Qed.
Print Assumptions wf_proj_closed_frag.

(* the fragment named in the property (Decl.ground) is covered *)
Theorem ground_is_proj_closed : forall w t, ground w t = true -> proj_closed t = true.
Proof. exact ground_proj_closed. Qed.
Print Assumptions ground_is_proj_closed.

Theorem is_subtype_sound_ground_partial : forall w fuel n m p s t,
  table_ok w = true -> params_direct w = true ->
  ground w s = true -> ground w t = true ->
  wf_ty w n s = true -> wf_ty w m t = true ->
  is_subtype w fuel s t = Rt -> SubA w p s t.
Proof. exact is_subtype_sound_ground_lem. Qed.
Print Assumptions is_subtype_sound_ground_partial.

(* the stronger form the proof goes through: every captured form of the left type is below t *)
Theorem is_subtype_sound_captured : forall w fuel s t s' q,
  table_ok w = true -> params_direct w = true -> frag w s = true -> frag w t = true ->
  is_subtype w fuel s t = Rt -> Capt w s s' -> SubA w q s' t.
Proof. exact is_subtype_sound_captured_lem. Qed.
Print Assumptions is_subtype_sound_captured.

(* == types of the fragment are related both ways (no table condition) *)
Theorem suba_refl_proj : forall w p t, frag w t = true -> SubA w p t t.
Proof. exact suba_refl_proj_lem. Qed.
Print Assumptions suba_refl_proj.

(* non-vacuity: real projections over a table with generic subclasses *)
Theorem is_subtype_proj_nonvacuous :
  in_proj_fragment w_pj (TApp 2 [outInt]) (TApp 1 [outNumber]) /\
  is_subtype w_pj 40 (TApp 2 [outInt]) (TApp 1 [outNumber]) = Rt /\
  in_proj_fragment w_pj (TApp 2 [inNumber]) (TApp 1 [inInt]) /\
  is_subtype w_pj 40 (TApp 2 [inNumber]) (TApp 1 [inInt]) = Rt /\
  in_proj_fragment w_pj (TApp 2 [outNumber]) (TApp 1 [outInt]) /\
  is_subtype w_pj 40 (TApp 2 [outNumber]) (TApp 1 [outInt]) = Rf /\
  in_proj_fragment w_pj (TApp 2 [TApp 1 [outInt]]) (TApp 1 [TWild Cov (Some (TApp 1 [outNumber]))]) /\
  is_subtype w_pj 40 (TApp 2 [TApp 1 [outInt]]) (TApp 1 [TWild Cov (Some (TApp 1 [outNumber]))]) = Rt /\
  in_proj_fragment w_pj (TApp 4 [outInt]) (TApp 3 [tNumber]) /\
  is_subtype w_pj 40 (TApp 4 [outInt]) (TApp 3 [tNumber]) = Rt.
Proof. exact proj_nonvacuous_lem. Qed.
Print Assumptions is_subtype_proj_nonvacuous.

(* the three witnesses against unrestricted soundness violate exactly the new hypotheses *)
Theorem refuted_witnesses_outside_fragment :
  params_direct w_np = false /\ params_direct w_cp = false /\
  (params_direct w_tv = true /\ proj_closed (TApp 2 [U77]) = false /\ proj_closed (TApp 1 [T20]) = false).
Proof. exact refuted_witnesses_outside_lem. Qed.
Print Assumptions refuted_witnesses_outside_fragment.

Theorem refuted_witnesses_otherwise_inside :
  (table_ok w_np = true /\ proj_closed (TApp 3 [outNumber]) = true /\
   proj_closed (TApp 2 [TApp 1 [outNumber]]) = true /\
   wf_ty w_np 20 (TApp 3 [outNumber]) = true /\ wf_ty w_np 20 (TApp 2 [TApp 1 [outNumber]]) = true) /\
  (table_ok w_cp = true /\ proj_closed (TApp 2 [outNumber]) = true /\ proj_closed (TApp 1 [tInt]) = true /\
   wf_ty w_cp 20 (TApp 2 [outNumber]) = true /\ wf_ty w_cp 20 (TApp 1 [tInt]) = true) /\
  (table_ok w_tv = true /\ wf_ty w_tv 20 (TApp 2 [U77]) = true /\ wf_ty w_tv 20 (TApp 1 [T20]) = true).
Proof. exact refuted_witnesses_otherwise_inside_lem. Qed.
Print Assumptions refuted_witnesses_otherwise_inside.

(* the converse fails on proj_closed: Nothing as a projection bound *)
Theorem is_subtype_complete_proj_refuted :
  exists w fuel s t,
    in_proj_fragment w s t /\ boxed s = true /\ boxed t = true /\
    is_subtype w fuel s t = Rf /\ SubA w [] s t.
Proof. exact complete_proj_refuted_lem. Qed.
Print Assumptions is_subtype_complete_proj_refuted.

(* the converse on the property's own fragment (Decl.ground: boxed, no bottom type): a False
   answer is exact, provided also that no class declares a bottom type among its supertypes *)
Theorem is_subtype_complete_proj_partial : forall w fuel n m p s t,
  table_ok w = true -> params_direct w = true -> supers_solid w = true ->
  ground w s = true -> ground w t = true ->
  wf_ty w n s = true -> wf_ty w m t = true ->
  is_subtype w fuel s t = Rf -> ~ SubA w p s t.
Proof. exact is_subtype_complete_proj_lem. Qed.
Print Assumptions is_subtype_complete_proj_partial.

Theorem is_subtype_complete_frag_partial : forall w fuel p s t,
  table_ok w = true -> params_direct w = true -> supers_solid w = true ->
  frag w s = true -> boxed s = true -> solid w s = true ->
  frag w t = true -> boxed t = true -> solid w t = true ->
  is_subtype w fuel s t = Rf -> ~ SubA w p s t.
Proof. exact is_subtype_complete_frag_lem. Qed.
Print Assumptions is_subtype_complete_frag_partial.

Theorem is_subtype_exact_proj_partial : forall w fuel n m s t,
  table_ok w = true -> params_direct w = true -> supers_solid w = true ->
  ground w s = true -> ground w t = true ->
  wf_ty w n s = true -> wf_ty w m t = true ->
  is_subtype w fuel s t <> Rerr ->
  (is_subtype w fuel s t = Rt <-> SubA w [] s t).
Proof. exact is_subtype_exact_proj_lem. Qed.
Print Assumptions is_subtype_exact_proj_partial.

Theorem is_subtype_refl_frag : forall w f t, frag w t = true -> is_subtype w (S f) t t = Rt.
Proof. exact is_subtype_refl_frag_lem. Qed.
Print Assumptions is_subtype_refl_frag.

Theorem is_subtype_rf_stable_proj : forall w f1 f2 n m s t,
  table_ok w = true -> params_direct w = true -> supers_solid w = true ->
  ground w s = true -> ground w t = true ->
  wf_ty w n s = true -> wf_ty w m t = true ->
  is_subtype w f1 s t = Rf -> is_subtype w f2 s t <> Rt.
Proof. exact is_subtype_rf_stable_proj_lem. Qed.
Print Assumptions is_subtype_rf_stable_proj.

(* why `ground` (no Nothing) and supers_solid are there *)
Theorem is_subtype_complete_proj_refuted_nothing :
  exists w fuel s t,
    table_ok w = true /\ params_direct w = true /\ supers_solid w = true /\
    ground w s = true /\ proj_closed t = true /\ boxed t = true /\
    wf_ty w 20 s = true /\ wf_ty w 20 t = true /\
    is_subtype w fuel s t = Rf /\ SubA w [] s t.
Proof. exact complete_proj_refuted_nothing_lem. Qed.
Print Assumptions is_subtype_complete_proj_refuted_nothing.

Theorem is_subtype_complete_proj_refuted_bottom_super :
  exists w fuel s t,
    table_ok w = true /\ params_direct w = true /\ supers_solid w = false /\
    ground w s = true /\ ground w t = true /\
    wf_ty w 20 s = true /\ wf_ty w 20 t = true /\
    is_subtype w fuel s t = Rf /\ SubA w [] s t.
Proof. exact complete_proj_refuted_bottom_super_lem. Qed.
Print Assumptions is_subtype_complete_proj_refuted_bottom_super.

Theorem is_subtype_complete_proj_nonvacuous :
  table_ok w_pj = true /\ params_direct w_pj = true /\ supers_solid w_pj = true /\
  ground w_pj (TApp 2 [outNumber]) = true /\ ground w_pj (TApp 1 [outInt]) = true /\
  wf_ty w_pj 20 (TApp 2 [outNumber]) = true /\ wf_ty w_pj 20 (TApp 1 [outInt]) = true /\
  is_subtype w_pj 40 (TApp 2 [outNumber]) (TApp 1 [outInt]) = Rf /\
  ground w_pj (TApp 2 [outInt]) = true /\ ground w_pj (TApp 1 [inInt]) = true /\
  is_subtype w_pj 40 (TApp 2 [outInt]) (TApp 1 [inInt]) = Rf /\
  ground w_pj (TApp 2 [outInt]) = true /\ ground w_pj (TApp 1 [outNumber]) = true /\
  is_subtype w_pj 40 (TApp 2 [outInt]) (TApp 1 [outNumber]) = Rt.
Proof. exact complete_proj_nonvacuous_lem. Qed.
Print Assumptions is_subtype_complete_proj_nonvacuous.

(* the table-wide condition params_direct replaced by a per-type one: every projection of s and
   t sits at a type variable that all declared supertypes (transitively) pass on as a direct
   argument to a position whose declared variance admits the projection (safe_allb; the other
   type variables may be nested anywhere) *)
Theorem is_subtype_sound_safe_partial : forall w fuel n m k1 k2 p s t,
  table_ok w = true ->
  proj_closed s = true -> proj_closed t = true ->
  wf_ty w n s = true -> wf_ty w m t = true ->
  safe_allb w k1 s = true -> safe_allb w k2 t = true ->
  is_subtype w fuel s t = Rt -> SubA w p s t.
Proof. exact is_subtype_sound_safe_lem. Qed.
Print Assumptions is_subtype_sound_safe_partial.

Theorem is_subtype_safe_nonvacuous :
  params_direct w_sf = false /\
  in_safe_fragment w_sf (TApp 4 [tInt; outInt]) (TApp 3 [outNumber]) /\
  is_subtype w_sf 40 (TApp 4 [tInt; outInt]) (TApp 3 [outNumber]) = Rt /\
  in_safe_fragment w_sf (TApp 4 [tInt; outInt]) (TApp 2 [TApp 1 [tInt]]) /\
  is_subtype w_sf 40 (TApp 4 [tInt; outInt]) (TApp 2 [TApp 1 [tInt]]) = Rt /\
  safe_allb w_sf 12 (TApp 4 [outInt; tInt]) = false.
Proof. exact safe_nonvacuous_lem. Qed.
Print Assumptions is_subtype_safe_nonvacuous.

Theorem refuted_witnesses_unsafe :
  safe_allb w_np 12 (TApp 3 [outNumber]) = false /\ safe_allb w_cp 12 (TApp 2 [outNumber]) = false /\
  safe_allb w_pj 12 (TApp 2 [outInt]) = true /\ safe_allb w_pj 12 (TApp 4 [outInt]) = true.
Proof. exact refuted_witnesses_unsafe_lem. Qed.
Print Assumptions refuted_witnesses_unsafe.

(* the per-type theorem with the fuel of the condition quantified away; it covers the
   table-wide one: params_direct implies safe_all for every type of the fragment *)
Theorem is_subtype_sound_safe_all_partial : forall w fuel p s t,
  table_ok w = true -> frag w s = true -> frag w t = true -> safe_all w s -> safe_all w t ->
  is_subtype w fuel s t = Rt -> SubA w p s t.
Proof. exact is_subtype_sound_safe_all_lem. Qed.
Print Assumptions is_subtype_sound_safe_all_partial.

Theorem safe_allb_safe_all : forall w n t, safe_allb w n t = true -> safe_all w t.
Proof. exact ProjSafeSound.safe_allb_safe_all. Qed.
Print Assumptions safe_allb_safe_all.

Theorem params_direct_safe_all : forall w t,
  table_ok w = true -> params_direct w = true -> frag w t = true -> safe_all w t.
Proof. exact params_direct_safe_all_lem. Qed.
Print Assumptions params_direct_safe_all.

(* in the vocabulary of the harness's judge (Types/Judge.v): on projection-closed well-formed
   types that are ProjectionSafe (proj_safe, the predicate delimiting known finding C06-F4) a
   True answer is always justified -- the judge's verdict `unsound-core` cannot arise there *)
Theorem proj_safe_is_safe_all : forall w, table_ok w = true ->
  forall n t, frag w t = true -> proj_safe w n t = true -> safe_all w t.
Proof. exact proj_safe_safe_all. Qed.
Print Assumptions proj_safe_is_safe_all.

Theorem is_subtype_sound_proj_safe_partial : forall w fuel n m k1 k2 p s t,
  table_ok w = true ->
  proj_closed s = true -> proj_closed t = true ->
  wf_ty w n s = true -> wf_ty w m t = true ->
  proj_safe w k1 s = true -> proj_safe w k2 t = true ->
  is_subtype w fuel s t = Rt -> SubA w p s t.
Proof. exact is_subtype_sound_proj_safe_lem. Qed.
Print Assumptions is_subtype_sound_proj_safe_partial.
