(* Types/Corr10.v -- comparison for harness/c10.py (unification). Definitions only. *)
From Coq Require Import List Arith Bool.
Import ListNotations.
From Heph Require Import Types.Syntax Types.Subst Types.Subtype Types.Corr Types.Unify.

(* expected: None = Python raised; Some m = returned dict (values None allowed) *)
Definition case10 := (bool * ty * ty * option (list (ty * option ty)))%type.

Definition oty_eqb (a b : option ty) : bool :=
  match a, b with None, None => true | Some x, Some y => ty_eqb x y | _, _ => false end.

Fixpoint map_eqb (a b : list (ty * option ty)) : bool :=
  match a, b with
  | [], [] => true
  | (k, v) :: a', (k', v') :: b' => ty_eqb k k' && oty_eqb v v' && map_eqb a' b'
  | _, _ => false
  end.

Definition case10_ok (w : world) (alias : list (nat * nat)) (any : nat) (c : case10) : bool :=
  let '(same, t1, t2, e) := c in
  match unify w alias any 12 same t1 t2, e with
  | Exc, None => true
  | Val m, Some m' => map_eqb m m'
  | _, _ => false
  end.

Fixpoint mism10 (w : world) (alias : list (nat * nat)) (any : nat) (i : nat) (cs : list case10) : list nat :=
  match cs with
  | [] => []
  | c :: cs' => (if case10_ok w alias any c then [] else [i]) ++ mism10 w alias any (S i) cs'
  end.

Fixpoint groups10 (g : nat) (gs : list (world * list (nat * nat) * nat * list case10)) : list (nat * nat) :=
  match gs with
  | [] => []
  | (w, al, any, cs) :: gs' => map (fun i => (g, i)) (mism10 w al any 0 cs) ++ groups10 (S g) gs'
  end.
