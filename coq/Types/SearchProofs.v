(* Types/SearchProofs.v -- what the search model (Types/Search.v) returns, for all tables, type lists,
   queries, flags and oracle answers. *)
From Coq Require Import List Arith Bool Lia.
Import ListNotations.
From Heph Require Import Types.Syntax Types.Subst Types.Subtype Types.Decl Types.TableOk
  Types.PFBase Types.SubtypePF Types.DeclPF Types.ExactPF Types.Search.

(* ---------- Python == is transitive ---------- *)
Lemma ids_eqb_eq : forall i j, ids_eqb i j = true -> i = j.
Proof.
  induction i as [|x i IH]; intros [|y j] H; cbn in H; try discriminate; auto.
  apply andb_prop in H. destruct H as [H1 H2]. apply Nat.eqb_eq in H1. f_equal; auto.
Qed.

Lemma py_eqb_trans : forall a b c, py_eqb a b = true -> py_eqb b c = true -> py_eqb a c = true.
Proof.
  apply (ty_ind' (fun a => forall b c, py_eqb a b = true -> py_eqb b c = true -> py_eqb a c = true)).
  - intros b pr b0 c0 H1 H2. destruct b0; try discriminate. destruct c0; try discriminate. cbn in *.
    apply Nat.eqb_eq in H1, H2. subst. apply Nat.eqb_refl.
  - intros k b0 c0 H1 H2. destruct b0; try discriminate. destruct c0; try discriminate. cbn in *.
    apply Nat.eqb_eq in H1, H2. subst. apply Nat.eqb_refl.
  - intros c0 l HF b c H1 H2. destruct b as [| |d m| | | | |]; try discriminate.
    destruct c as [| |e n| | | | |]; try discriminate.
    rewrite py_eqb_app in *. apply andb_prop in H1, H2. destruct H1 as [A1 L1], H2 as [A2 L2].
    apply Nat.eqb_eq in A1, A2. subst. rewrite Nat.eqb_refl. cbn [andb].
    revert m n L1 L2. induction HF as [|a l Ha Hl IH]; intros [|y m] [|z n] L1 L2; cbn in *; try discriminate; auto.
    apply andb_prop in L1, L2. destruct L1 as [P1 Q1], L2 as [P2 Q2].
    rewrite (Ha y z P1 P2). cbn. eapply IH; eauto.
  - intros k b0 c0 H1 H2. destruct b0; try discriminate. destruct c0; try discriminate. cbn in *.
    apply Nat.eqb_eq in H1, H2. subst. apply Nat.eqb_refl.
  - intros x v b c H1 H2. destruct b as [| | | |y u p| | |]; try discriminate.
    destruct c as [| | | |z t q| | |]; try discriminate.
    rewrite py_eqb_var in *. apply andb_prop in H1, H2. destruct H1 as [A1 O1], H2 as [A2 O2].
    apply andb_prop in A1, A2. destruct A1 as [N1 V1], A2 as [N2 V2].
    apply Nat.eqb_eq in N1, N2. apply var_eqb_eq in V1, V2. subst.
    rewrite Nat.eqb_refl, var_eqb_refl. cbn [andb].
    destruct p; cbn in O1; try discriminate. destruct q; cbn in O2; try discriminate. reflexivity.
  - intros x v bd IH b c H1 H2. destruct b as [| | | |y u p| | |]; try discriminate.
    destruct c as [| | | |z t q| | |]; try discriminate.
    rewrite py_eqb_var in *. apply andb_prop in H1, H2. destruct H1 as [A1 O1], H2 as [A2 O2].
    apply andb_prop in A1, A2. destruct A1 as [N1 V1], A2 as [N2 V2].
    apply Nat.eqb_eq in N1, N2. apply var_eqb_eq in V1, V2. subst.
    rewrite Nat.eqb_refl, var_eqb_refl. cbn [andb].
    destruct p; cbn in O1; try discriminate. destruct q; cbn in O2; try discriminate. cbn. eapply IH; eauto.
  - intros v b c H1 H2. destruct b as [| | | | |u p| |]; try discriminate.
    destruct c as [| | | | |t q| |]; try discriminate.
    rewrite py_eqb_wild in *. apply andb_prop in H1, H2. destruct H1 as [V1 O1], H2 as [V2 O2].
    apply var_eqb_eq in V1, V2. subst. rewrite var_eqb_refl. cbn [andb].
    destruct p; cbn in O1; try discriminate. destruct q; cbn in O2; try discriminate. reflexivity.
  - intros v bd IH b c H1 H2. destruct b as [| | | | |u p| |]; try discriminate.
    destruct c as [| | | | |t q| |]; try discriminate.
    rewrite py_eqb_wild in *. apply andb_prop in H1, H2. destruct H1 as [V1 O1], H2 as [V2 O2].
    apply var_eqb_eq in V1, V2. subst. rewrite var_eqb_refl. cbn [andb].
    destruct p; cbn in O1; try discriminate. destruct q; cbn in O2; try discriminate. cbn. eapply IH; eauto.
  - intros b0 c0 H1 H2. destruct b0; try discriminate. exact H2.
  - intros i u l IHu IHl b c H1 H2. destruct b as [| | | | | | |j u' l']; try discriminate.
    destruct c as [| | | | | | |k u'' l'']; try discriminate.
    rewrite py_eqb_cap in *. apply andb_prop in H1, H2. destruct H1 as [A1 L1], H2 as [A2 L2].
    apply andb_prop in A1, A2. destruct A1 as [I1 U1], A2 as [I2 U2].
    apply ids_eqb_eq in I1, I2. subst. rewrite ids_eqb_refl. cbn [andb].
    assert (HU : py_eqb_opt u u'' = true).
    { destruct u as [x|], u' as [y|], u'' as [z|]; cbn in *; try discriminate; auto. eapply IHu; eauto. }
    assert (HL : py_eqb_opt l l'' = true).
    { destruct l as [x|], l' as [y|], l'' as [z|]; cbn in *; try discriminate; auto. eapply IHl; eauto. }
    rewrite HU, HL. reflexivity.
Qed.

Lemma py_eqb_is_con : forall a b, py_eqb a b = true -> is_con a = is_con b.
Proof. intros a b H. destruct a, b; try discriminate; reflexivity. Qed.

Lemma memb_congr : forall a b l, py_eqb a b = true -> memb b l = true -> memb a l = true.
Proof.
  intros a b l E H. apply memb_ex in H. destruct H as [k [Hk Ek]].
  unfold memb. apply existsb_exists. exists k. split; [exact Hk|]. eapply py_eqb_trans; eauto.
Qed.

Lemma memb_intro : forall t k l, In k l -> py_eqb t k = true -> memb t l = true.
Proof. intros t k l Hk E. unfold memb. apply existsb_exists. exists k. auto. Qed.

(* ---------- sets as duplicate-free lists ---------- *)
Lemma set_add_in : forall t s x, In x (set_add t s) -> In x s \/ x = t.
Proof.
  intros t s x H. unfold set_add in H. destruct (memb t s); auto.
  apply in_app_or in H. destruct H as [H|[H|[]]]; auto.
Qed.

Lemma set_add_incl : forall t s x, In x s -> In x (set_add t s).
Proof. intros t s x H. unfold set_add. destruct (memb t s); auto. apply in_or_app. auto. Qed.

Lemma set_add_memb_self : forall t s, memb t (set_add t s) = true.
Proof.
  intros t s. unfold set_add. destruct (memb t s) eqn:E; auto.
  apply memb_app_r. cbn. rewrite py_eqb_refl. reflexivity.
Qed.

Lemma set_add_memb_keep : forall t s x, memb x s = true -> memb x (set_add t s) = true.
Proof. intros t s x H. unfold set_add. destruct (memb t s); auto. apply memb_app_l. exact H. Qed.

Lemma set_discard_in : forall t s x, In x (set_discard t s) <-> In x s /\ py_eqb t x = false.
Proof.
  intros t s x. unfold set_discard. rewrite filter_In. split; intros [H1 H2]; split; auto.
  - apply negb_true_iff in H2. exact H2.
  - apply negb_true_iff. exact H2.
Qed.

Lemma set_discard_memb_self : forall t s, memb t (set_discard t s) = false.
Proof.
  intros t s. destruct (memb t (set_discard t s)) eqn:E; auto.
  apply memb_ex in E. destruct E as [k [Hk Ek]]. apply set_discard_in in Hk. destruct Hk as [_ Hk]. congruence.
Qed.

Lemma set_discard_memb_keep : forall t s x, memb x s = true -> py_eqb t x = false -> memb x (set_discard t s) = true.
Proof.
  intros t s x H E. apply memb_ex in H. destruct H as [k [Hk Ek]].
  eapply memb_intro; [|exact Ek]. apply set_discard_in. split; auto.
  destruct (py_eqb t k) eqn:F; auto.
  assert (py_eqb t x = true).
  { eapply py_eqb_trans; [exact F|]. rewrite py_eqb_sym. exact Ek. }
  congruence.
Qed.

(* ---------- the outcome monad ---------- *)
Lemma bind_val : forall (A B : Type) (x : outcome A) (f : A -> outcome B) b,
  bind x f = Val b -> exists a, x = Val a /\ f a = Val b.
Proof. intros A B [a| |] f b H; cbn in H; try discriminate. exists a. auto. Qed.

Lemma map_out_val : forall (A B : Type) (f : A -> outcome B) l r,
  map_out f l = Val r -> Forall2 (fun x y => f x = Val y) l r.
Proof.
  intros A B f. induction l as [|x l IH]; intros r H; cbn in H.
  - injection H as <-. constructor.
  - apply bind_val in H. destruct H as [y [Hy H]]. apply bind_val in H. destruct H as [r' [Hr H]].
    injection H as <-. constructor; auto.
Qed.

Lemma forall2_in_l : forall (A B : Type) (R : A -> B -> Prop) l r, Forall2 R l r ->
  forall x, In x l -> exists y, In y r /\ R x y.
Proof.
  intros A B R l r H. induction H as [|a b l r Hab H IH]; intros x Hx; [destruct Hx|].
  destruct Hx as [<-|Hx]; [exists b; split; [left; reflexivity|exact Hab]|].
  destruct (IH x Hx) as [y [Hy Hxy]]. exists y. split; [right; exact Hy|exact Hxy].
Qed.

Lemma forall2_in_r : forall (A B : Type) (R : A -> B -> Prop) l r, Forall2 R l r ->
  forall y, In y r -> exists x, In x l /\ R x y.
Proof.
  intros A B R l r H. induction H as [|a b l r Hab H IH]; intros y Hy; [destruct Hy|].
  destruct Hy as [<-|Hy]; [exists a; split; [left; reflexivity|exact Hab]|].
  destruct (IH y Hy) as [x [Hx Hxy]]. exists x. split; [right; exact Hx|exact Hxy].
Qed.

(* ---------- to_type ---------- *)
Lemma to_type_val : forall inst t r, to_type inst t = Val r ->
  (is_con t = false /\ r = t) \/ (exists c, t = TCon c /\ find_nat inst c = Some r).
Proof.
  intros inst t r H. destruct t; cbn in H; try (injection H as <-; left; split; reflexivity).
  right. exists c. split; [reflexivity|]. destruct (find_nat inst c); [injection H as <-; reflexivity|discriminate].
Qed.

Lemma to_type_noncon : forall inst t, is_con t = false -> to_type inst t = Val t.
Proof. intros inst t H. destruct t; try reflexivity. discriminate. Qed.

(* a non-constructor of the set survives concretisation *)
Lemma concrete_memb : forall inst s rs t, map_out (to_type inst) s = Val rs ->
  memb t s = true -> is_con t = false -> memb t rs = true.
Proof.
  intros inst s rs t H Hm Hc. apply map_out_val in H.
  apply memb_ex in Hm. destruct Hm as [k [Hk Ek]].
  destruct (forall2_in_l _ _ _ _ _ H k Hk) as [y [Hy Hky]].
  rewrite to_type_noncon in Hky.
  - injection Hky as <-. eapply memb_intro; eauto.
  - rewrite <- (py_eqb_is_con t k Ek). exact Hc.
Qed.

(* ---------- the collection loop of the subtype search ---------- *)
Section W.
  Context (w : world) (fuel : nat).

  Lemma collect_sound : forall e types acc r, collect_subtypes w fuel e types acc = Val r ->
    forall x, In x r -> In x acc \/ (In x types /\ py_eqb e x = false /\ is_subtype w fuel x e = Rt).
  Proof.
    intros e. induction types as [|c rest IH]; intros acc r H x Hx; cbn in H.
    - injection H as <-. left. exact Hx.
    - destruct (py_eqb e c) eqn:E.
      + destruct (IH _ _ H x Hx) as [H1|[H1 H2]]; [left; exact H1|right; split; [right; exact H1|exact H2]].
      + destruct (is_subtype w fuel c e) eqn:S; try discriminate.
        * destruct (IH _ _ H x Hx) as [H1|[H1 H2]].
          -- apply set_add_in in H1. destruct H1 as [H1| ->]; [left; exact H1|].
             right. split; [left; reflexivity|split; assumption].
          -- right. split; [right; exact H1|exact H2].
        * destruct (IH _ _ H x Hx) as [H1|[H1 H2]]; [left; exact H1|right; split; [right; exact H1|exact H2]].
  Qed.

  Lemma collect_complete : forall e types acc r, collect_subtypes w fuel e types acc = Val r ->
    (forall x, memb x acc = true -> memb x r = true) /\
    (forall x, In x types -> py_eqb e x = false -> is_subtype w fuel x e = Rt -> memb x r = true).
  Proof.
    intros e. induction types as [|c rest IH]; intros acc r H; cbn in H.
    - injection H as <-. split; [auto|intros x []].
    - destruct (py_eqb e c) eqn:E.
      + destruct (IH _ _ H) as [I1 I2]. split; [exact I1|].
        intros x [<-|Hx] Hne Hs; [congruence|auto].
      + destruct (is_subtype w fuel c e) eqn:S; try discriminate.
        * destruct (IH _ _ H) as [I1 I2]. split.
          -- intros x Hx. apply I1. apply set_add_memb_keep. exact Hx.
          -- intros x [<-|Hx] Hne Hs; [|auto]. apply I1. apply set_add_memb_self.
        * destruct (IH _ _ H) as [I1 I2]. split; [exact I1|].
          intros x [<-|Hx] Hne Hs; [congruence|auto].
  Qed.

  (* a value means that no is_subtype call raised *)
  Lemma collect_total : forall e types acc r, collect_subtypes w fuel e types acc = Val r ->
    forall x, In x types -> py_eqb e x = false -> is_subtype w fuel x e <> Rerr.
  Proof.
    intros e. induction types as [|c rest IH]; intros acc r H x Hx Hne; cbn in H; [destruct Hx|].
    destruct (py_eqb e c) eqn:E.
    - destruct Hx as [<-|Hx]; [congruence|eauto].
    - destruct (is_subtype w fuel c e) eqn:S; try discriminate.
      + destruct Hx as [<-|Hx]; [congruence|eauto].
      + destruct Hx as [<-|Hx]; [congruence|eauto].
  Qed.

  Lemma filter_bound_spec : forall b l r, filter_bound w fuel b l = Val r ->
    (forall x, In x r <-> In x l /\ is_subtype w fuel x b = Rt) /\
    (forall x, In x l -> is_subtype w fuel x b <> Rerr).
  Proof.
    intros b. induction l as [|y l IH]; intros r H; cbn in H.
    - injection H as <-. split; [intros x; split; [intros []|intros [[] _]]|intros x []].
    - destruct (is_subtype w fuel y b) eqn:S; try discriminate.
      + apply bind_val in H. destruct H as [r' [Hr H]]. injection H as <-.
        destruct (IH _ Hr) as [I1 I2]. split.
        * intros x. split.
          -- intros [<-|Hx]; [split; [left; reflexivity|exact S]|].
             apply I1 in Hx. destruct Hx. split; [right; assumption|assumption].
          -- intros [[<-|Hx] Hs]; [left; reflexivity|right; apply I1; split; assumption].
        * intros x [<-|Hx]; [congruence|auto].
      + destruct (IH _ H) as [I1 I2]. split.
        * intros x. split.
          -- intros Hx. apply I1 in Hx. destruct Hx. split; [right; assumption|assumption].
          -- intros [[<-|Hx] Hs]; [congruence|apply I1; split; assumption].
        * intros x [<-|Hx]; [congruence|auto].
  Qed.

  (* ---------- unfolding equations (rewriting with them keeps the kernel from unfolding get_supertypes) ---------- *)
  Lemma find_types_eq : forall e types gs inc bd conc o,
    find_types w fuel e types gs inc bd conc o =
    bind (if gs then collect_subtypes w fuel e types []
          else match get_supertypes w e with Some l => Val l | None => Exc end)
    (fun base =>
    bind (if is_app e
          then match fo_related o with Some r => Val (set_add r base) | None => Missing end
          else Val base)
    (fun s1 =>
    bind (match gs, bd with
          | false, Some b => filter_bound w fuel b (if inc then set_add e s1 else set_discard e s1)
          | _, _ => Val (if inc then set_add e s1 else set_discard e s1)
          end)
    (fun s3 =>
    if conc then map_out (to_type (fo_inst o)) s3 else Val s3))).
  Proof. reflexivity. Qed.

  Lemma find_subtypes_eq : forall e types inc bd conc o,
    find_subtypes w fuel e types inc bd conc o = find_types w fuel e types true inc None conc o.
  Proof. reflexivity. Qed.

  Lemma find_supertypes_eq : forall e types inc bd conc o,
    find_supertypes w fuel e types inc bd conc o = find_types w fuel e types false inc bd conc o.
  Proof. reflexivity. Qed.

  Lemma irrelevant_for_eq : forall e types o,
    irrelevant_for w fuel e types o =
    bind (find_supertypes w fuel e types true None true (io_sup o)) (fun sups =>
    bind (find_subtypes w fuel e types true None true (io_sub o)) (fun subs =>
    bind (available w fuel e (sups ++ subs) types) (fun avail =>
    match avail with
    | [] => Val None
    | _ :: _ =>
        match nth_error avail (io_pick o) with
        | None => Missing
        | Some t =>
            if is_con t then
              match io_param o with
              | None => Missing
              | Some None => Val None
              | Some (Some r) =>
                  bind (related_guard w fuel r e) (fun rel => Val (if rel then None else Some r))
              end
            else Val (Some t)
        end
    end))).
  Proof. reflexivity. Qed.

  Lemma base_step : forall (e : ty) (types : list ty) (gs : bool) (base : list ty),
    (if gs then collect_subtypes w fuel e types []
     else match get_supertypes w e with Some l => Val l | None => Exc end) = Val base ->
    (gs = true /\ collect_subtypes w fuel e types [] = Val base) \/
    (gs = false /\ get_supertypes w e = Some base).
  Proof.
    intros e types gs base H. destruct gs; [left; auto|right]. split; [reflexivity|].
    destruct (get_supertypes w e) as [l|]; [injection H as <-; reflexivity|discriminate H].
  Qed.

  Lemma bound_step : forall (gs : bool) (bd : option ty) (s2 s3 : list ty),
    (match gs, bd with
     | false, Some b => filter_bound w fuel b s2
     | _, _ => Val s2
     end) = Val s3 ->
    (gs = false /\ exists b, bd = Some b /\ filter_bound w fuel b s2 = Val s3) \/
    ((gs = true \/ bd = None) /\ s3 = s2).
  Proof.
    intros gs bd s2 s3 H. destruct gs.
    - right. split; [left; reflexivity|]. injection H as <-. reflexivity.
    - destruct bd as [b|].
      + left. split; [reflexivity|]. exists b. auto.
      + right. split; [right; reflexivity|]. injection H as <-. reflexivity.
  Qed.

  (* ---------- _find_types ---------- *)
  (* the set before concretisation *)
  Lemma find_types_concrete : forall e types gs inc bd o,
    find_types w fuel e types gs inc bd true o =
    bind (find_types w fuel e types gs inc bd false o) (map_out (to_type (fo_inst o))).
  Proof.
    intros. rewrite !find_types_eq.
    destruct (if gs then collect_subtypes w fuel e types []
              else match get_supertypes w e with Some l => Val l | None => Exc end) as [base| |]; try reflexivity.
    cbv beta iota delta [bind].
    destruct (if is_app e then match fo_related o with Some r => Val (set_add r base) | None => Missing end
              else Val base) as [s1| |]; try reflexivity.
    destruct (match gs, bd with
              | false, Some b => filter_bound w fuel b (if inc then set_add e s1 else set_discard e s1)
              | _, _ => Val (if inc then set_add e s1 else set_discard e s1)
              end) as [s3| |]; reflexivity.
  Qed.

  (* shape of a successful run without concretisation *)
  Definition with_related (e : ty) (o : ft_oracle) (base s1 : list ty) : Prop :=
    (is_app e = true /\ exists r, fo_related o = Some r /\ s1 = set_add r base) \/
    (is_app e = false /\ s1 = base).

  Definition with_self (e : ty) (inc : bool) (s1 : list ty) : list ty :=
    if inc then set_add e s1 else set_discard e s1.

  Lemma related_step : forall e o base s1,
    (if is_app e then match fo_related o with Some r => Val (set_add r base) | None => Missing end
     else Val base) = Val s1 -> with_related e o base s1.
  Proof.
    intros e o base s1 H. unfold with_related. destruct (is_app e).
    - left. split; [reflexivity|]. destruct (fo_related o) as [r|]; [|discriminate].
      injection H as <-. exists r. auto.
    - right. injection H as <-. auto.
  Qed.

  Lemma find_types_set_gen : forall e types gs inc bd o s,
    find_types w fuel e types gs inc bd false o = Val s ->
    exists base s1,
      ((gs = true /\ collect_subtypes w fuel e types [] = Val base) \/
       (gs = false /\ get_supertypes w e = Some base)) /\
      with_related e o base s1 /\
      ((gs = false /\ exists b, bd = Some b /\ filter_bound w fuel b (with_self e inc s1) = Val s) \/
       ((gs = true \/ bd = None) /\ s = with_self e inc s1)).
  Proof.
    intros e types gs inc bd o s H. rewrite find_types_eq in H.
    apply bind_val in H. destruct H as [base [Hb H]].
    apply bind_val in H. destruct H as [s1 [H1 H]].
    apply bind_val in H. destruct H as [s3 [H3 H]]. injection H as <-.
    exists base, s1. split; [apply base_step; exact Hb|].
    split; [apply related_step; exact H1|]. apply bound_step in H3. exact H3.
  Qed.

  Lemma find_types_set_sub : forall e types inc bd o s,
    find_types w fuel e types true inc bd false o = Val s ->
    exists base s1, collect_subtypes w fuel e types [] = Val base /\ with_related e o base s1 /\
                    s = with_self e inc s1.
  Proof.
    intros e types inc bd o s H. apply find_types_set_gen in H.
    destruct H as [base [s1 [Hb [H1 Hs]]]]. exists base, s1.
    destruct Hb as [[_ Hb]|[Hb _]]; [|discriminate Hb].
    destruct Hs as [[Hs _]|[_ Hs]]; [discriminate Hs|]. auto.
  Qed.

  Lemma find_types_set_sup : forall e types inc bd o s,
    find_types w fuel e types false inc bd false o = Val s ->
    exists base s1, get_supertypes w e = Some base /\ with_related e o base s1 /\
                    match bd with
                    | Some b => filter_bound w fuel b (with_self e inc s1) = Val s
                    | None => s = with_self e inc s1
                    end.
  Proof.
    intros e types inc bd o s H. apply find_types_set_gen in H.
    destruct H as [base [s1 [Hb [H1 Hs]]]]. exists base, s1.
    destruct Hb as [[Hb _]|[_ Hb]]; [discriminate Hb|].
    split; [exact Hb|]. split; [exact H1|].
    destruct Hs as [[_ [b [-> Hs]]]|[[Hs|Hs] ->]]; [exact Hs|discriminate Hs|subst bd; reflexivity].
  Qed.

  (* both directions at once, without a bound *)
  Lemma find_types_set_nobound : forall e types gs inc o s,
    find_types w fuel e types gs inc None false o = Val s ->
    exists base s1,
      (gs = true /\ collect_subtypes w fuel e types [] = Val base \/
       gs = false /\ get_supertypes w e = Some base) /\
      with_related e o base s1 /\ s = with_self e inc s1.
  Proof.
    intros e types gs inc o s H. destruct gs.
    - apply find_types_set_sub in H. destruct H as [base [s1 [Hb [H1 Hs]]]]. exists base, s1. auto.
    - apply find_types_set_sup in H. destruct H as [base [s1 [Hb [H1 Hs]]]]. exists base, s1. auto.
  Qed.

  Lemma with_related_in : forall e o base s1 r, with_related e o base s1 -> In r s1 ->
    (is_app e = true /\ fo_related o = Some r) \/ In r base.
  Proof.
    intros e o base s1 r [[Ha [r0 [Hr0 ->]]]|[Ha ->]] Hin; [|right; exact Hin].
    apply set_add_in in Hin. destruct Hin as [Hin| ->]; [right; exact Hin|left; auto].
  Qed.

  Lemma with_related_incl : forall e o base s1 r, with_related e o base s1 -> In r base -> In r s1.
  Proof.
    intros e o base s1 r [[Ha [r0 [Hr0 ->]]]|[Ha ->]] Hin; [apply set_add_incl; exact Hin|exact Hin].
  Qed.

  Lemma with_related_memb : forall e o base s1 r, with_related e o base s1 -> memb r base = true -> memb r s1 = true.
  Proof.
    intros e o base s1 r [[Ha [r0 [Hr0 ->]]]|[Ha ->]] Hin; [apply set_add_memb_keep; exact Hin|exact Hin].
  Qed.

  Lemma with_self_in : forall e inc s1 r, In r (with_self e inc s1) -> (r = e /\ inc = true) \/ In r s1.
  Proof.
    intros e inc s1 r H. unfold with_self in H. destruct inc.
    - apply set_add_in in H. destruct H as [H| ->]; [right; exact H|left; auto].
    - apply set_discard_in in H. destruct H as [H _]. right. exact H.
  Qed.

  Lemma with_self_incl : forall e inc s1 r, In r s1 -> (inc = true \/ py_eqb e r = false) -> In r (with_self e inc s1).
  Proof.
    intros e inc s1 r H Hi. unfold with_self. destruct inc; [apply set_add_incl; exact H|].
    apply set_discard_in. split; [exact H|]. destruct Hi as [Hi|Hi]; [discriminate|exact Hi].
  Qed.

  Lemma with_self_memb : forall e inc s1 r, memb r s1 = true -> (inc = true \/ py_eqb e r = false) ->
    memb r (with_self e inc s1) = true.
  Proof.
    intros e inc s1 r H Hi. unfold with_self. destruct inc; [apply set_add_memb_keep; exact H|].
    destruct Hi as [Hi|Hi]; [discriminate|]. apply set_discard_memb_keep; assumption.
  Qed.

  Lemma with_self_memb_self : forall e inc s1, memb e (with_self e inc s1) = inc.
  Proof. intros e inc s1. unfold with_self. destruct inc; [apply set_add_memb_self|apply set_discard_memb_self]. Qed.

  (* (a) the subtype search returns the query (when asked for), the constructed type, or members of
     `types` that is_subtype accepts *)
  Lemma find_subtypes_sound_lem : forall e types inc bd o rs,
    find_subtypes w fuel e types inc bd false o = Val rs ->
    forall r, In r rs ->
      (r = e /\ inc = true) \/
      (is_app e = true /\ fo_related o = Some r) \/
      (In r types /\ py_eqb e r = false /\ is_subtype w fuel r e = Rt).
  Proof.
    intros e types inc bd o rs H r Hr. rewrite find_subtypes_eq in H.
    apply find_types_set_sub in H. destruct H as [base [s1 [Hb [H1 ->]]]].
    apply with_self_in in Hr. destruct Hr as [Hr|Hr]; [left; exact Hr|right].
    destruct (with_related_in _ _ _ _ _ H1 Hr) as [Hx|Hx]; [left; exact Hx|right].
    destruct (collect_sound _ _ _ _ Hb r Hx) as [[]|Hy]. exact Hy.
  Qed.

  Lemma find_subtypes_complete_lem : forall e types inc bd o rs,
    find_subtypes w fuel e types inc bd false o = Val rs ->
    forall c, In c types -> py_eqb e c = false -> is_subtype w fuel c e = Rt -> memb c rs = true.
  Proof.
    intros e types inc bd o rs H c Hc Hne Hs. rewrite find_subtypes_eq in H.
    apply find_types_set_sub in H. destruct H as [base [s1 [Hb [H1 ->]]]].
    destruct (collect_complete _ _ _ _ Hb) as [_ I2]. pose proof (I2 c Hc Hne Hs) as Hm.
    apply with_self_memb; [|right; exact Hne]. eapply with_related_memb; eauto.
  Qed.

  (* no is_subtype call on a member of `types` raised *)
  Lemma find_subtypes_total_lem : forall e types inc bd conc o rs,
    find_subtypes w fuel e types inc bd conc o = Val rs ->
    forall c, In c types -> py_eqb e c = false -> is_subtype w fuel c e <> Rerr.
  Proof.
    intros e types inc bd conc o rs H c Hc Hne. rewrite find_subtypes_eq in H.
    assert (exists s, find_types w fuel e types true inc None false o = Val s) as [s Hs].
    { destruct conc; [|eauto]. rewrite find_types_concrete in H. apply bind_val in H. destruct H as [s [Hs _]]. eauto. }
    apply find_types_set_sub in Hs. destruct Hs as [base [s1 [Hb _]]]. eapply collect_total; eauto.
  Qed.

  (* the constructed type is returned unless it is the query itself and the query was not asked for *)
  Lemma find_types_related_lem : forall e types gs inc o rs r,
    find_types w fuel e types gs inc None false o = Val rs ->
    is_app e = true -> fo_related o = Some r -> (inc = true \/ py_eqb e r = false) -> memb r rs = true.
  Proof.
    intros e types gs inc o rs r H Ha Ho Hi.
    apply find_types_set_nobound in H. destruct H as [base [s1 [_ [H1 ->]]]].
    apply with_self_memb; [|exact Hi].
    destruct H1 as [[_ [r0 [Hr0 ->]]]|[Hf _]]; [|congruence].
    rewrite Ho in Hr0. injection Hr0 as <-. apply set_add_memb_self.
  Qed.

  (* the query itself is included exactly when asked for *)
  Lemma find_types_self_lem : forall e types gs inc o rs,
    find_types w fuel e types gs inc None false o = Val rs -> memb e rs = inc.
  Proof.
    intros e types gs inc o rs H. apply find_types_set_nobound in H. destruct H as [base [s1 [_ [_ ->]]]].
    apply with_self_memb_self.
  Qed.

  Lemma find_types_self_concrete_lem : forall e types gs o rs,
    find_types w fuel e types gs true None true o = Val rs -> is_con e = false -> memb e rs = true.
  Proof.
    intros e types gs o rs H Hc. rewrite find_types_concrete in H. apply bind_val in H.
    destruct H as [s [Hs H]]. eapply concrete_memb; eauto. apply (find_types_self_lem _ _ _ _ _ _ Hs).
  Qed.

  (* concrete_only: an element is a non-constructor of the set or what the instantiation oracle gave for a
     constructor of the set; in particular a bare constructor can only come from the oracle *)
  Lemma find_types_concrete_elements_lem : forall e types gs inc bd o rs,
    find_types w fuel e types gs inc bd true o = Val rs ->
    exists s, find_types w fuel e types gs inc bd false o = Val s /\
      (forall r, In r rs -> (In r s /\ is_con r = false) \/
                            (exists c, In (TCon c) s /\ find_nat (fo_inst o) c = Some r)) /\
      (forall t, In t s -> is_con t = false -> In t rs).
  Proof.
    intros e types gs inc bd o rs H. rewrite find_types_concrete in H. apply bind_val in H.
    destruct H as [s [Hs H]]. exists s. split; [exact Hs|]. apply map_out_val in H. split.
    - intros r Hr. destruct (forall2_in_r _ _ _ _ _ H r Hr) as [t [Ht Htr]].
      apply to_type_val in Htr. destruct Htr as [[Hc ->]|[c [-> Hf]]]; [left; auto|right; eauto].
    - intros t Ht Hc. destruct (forall2_in_l _ _ _ _ _ H t Ht) as [y [Hy Hty]].
      rewrite (to_type_noncon _ _ Hc) in Hty. injection Hty as <-. exact Hy.
  Qed.

  Lemma find_types_usable_lem : forall e types gs inc bd o rs,
    find_types w fuel e types gs inc bd true o = Val rs ->
    forall r, In r rs -> is_con r = true -> exists c, find_nat (fo_inst o) c = Some r.
  Proof.
    intros e types gs inc bd o rs H r Hr Hc.
    destruct (find_types_concrete_elements_lem _ _ _ _ _ _ _ H) as [s [_ [I1 _]]].
    destruct (I1 r Hr) as [[_ Hn]|[c [_ Hf]]]; [congruence|eauto].
  Qed.

  (* (b) the supertype search: get_supertypes, the constructed type, the query; all below the bound *)
  Lemma find_supertypes_sound_lem : forall e types inc bd o rs,
    find_supertypes w fuel e types inc bd false o = Val rs ->
    forall r, In r rs ->
      ((r = e /\ inc = true) \/
       (is_app e = true /\ fo_related o = Some r) \/
       (exists sups, get_supertypes w e = Some sups /\ In r sups)) /\
      (forall b, bd = Some b -> is_subtype w fuel r b = Rt).
  Proof.
    intros e types inc bd o rs H r Hr. rewrite find_supertypes_eq in H.
    apply find_types_set_sup in H. destruct H as [base [s1 [Hb [H1 Hs]]]].
    assert (Hs2 : In r (with_self e inc s1) ->
                  (r = e /\ inc = true) \/ (is_app e = true /\ fo_related o = Some r) \/
                  (exists sups, get_supertypes w e = Some sups /\ In r sups)).
    { intros Hin. apply with_self_in in Hin. destruct Hin as [Hin|Hin]; [left; exact Hin|right].
      destruct (with_related_in _ _ _ _ _ H1 Hin) as [Hx|Hx]; [left; exact Hx|right].
      exists base. split; [exact Hb|exact Hx]. }
    destruct bd as [b|].
    - destruct (filter_bound_spec _ _ _ Hs) as [I1 _]. apply I1 in Hr. destruct Hr as [Hr Hsub].
      split; [apply Hs2; exact Hr|]. intros b0 E. injection E as <-. exact Hsub.
    - subst rs. split; [apply Hs2; exact Hr|]. intros b0 E. discriminate.
  Qed.

  Lemma find_supertypes_complete_lem : forall e types inc bd o rs sups,
    find_supertypes w fuel e types inc bd false o = Val rs ->
    get_supertypes w e = Some sups ->
    forall u, In u sups -> (inc = true \/ py_eqb e u = false) ->
              (forall b, bd = Some b -> is_subtype w fuel u b = Rt) -> In u rs.
  Proof.
    intros e types inc bd o rs sups H Hg u Hu Hi Hbd. rewrite find_supertypes_eq in H.
    apply find_types_set_sup in H. destruct H as [base [s1 [Hb [H1 Hs]]]].
    rewrite Hg in Hb. injection Hb as <-.
    assert (Hu2 : In u (with_self e inc s1)).
    { apply with_self_incl; [|exact Hi]. eapply with_related_incl; eauto. }
    destruct bd as [b|].
    - destruct (filter_bound_spec _ _ _ Hs) as [I1 _]. apply I1. split; [exact Hu2|]. apply Hbd. reflexivity.
    - subst rs. exact Hu2.
  Qed.

  (* ---------- find_irrelevant_type ---------- *)
  Lemma available_spec : forall e rel types r, available w fuel e rel types = Val r ->
    forall t, In t r -> In t types /\ memb t rel = false /\ (is_con t = true -> is_subtype w fuel t e = Rf).
  Proof.
    intros e rel. induction types as [|y types IH]; intros r H t Ht; cbn in H.
    - injection H as <-. destruct Ht.
    - destruct (memb y rel) eqn:M.
      + destruct (IH _ H t Ht) as [I1 I2]. split; [right; exact I1|exact I2].
      + destruct (is_con y) eqn:Cy.
        * destruct (is_subtype w fuel y e) eqn:S; try discriminate.
          -- destruct (IH _ H t Ht) as [I1 I2]. split; [right; exact I1|exact I2].
          -- apply bind_val in H. destruct H as [r' [Hr H]]. injection H as <-.
             destruct Ht as [<-|Ht]; [split; [left; reflexivity|split; auto]|].
             destruct (IH _ Hr t Ht) as [I1 I2]. split; [right; exact I1|exact I2].
        * apply bind_val in H. destruct H as [r' [Hr H]]. injection H as <-.
          destruct Ht as [<-|Ht]; [split; [left; reflexivity|split; [exact M|congruence]]|].
          destruct (IH _ Hr t Ht) as [I1 I2]. split; [right; exact I1|exact I2].
  Qed.

  Lemma related_guard_false : forall t e, related_guard w fuel t e = Val false ->
    is_subtype w fuel t e = Rf /\ is_subtype w fuel e t = Rf.
  Proof.
    intros t e H. unfold related_guard in H.
    destruct (is_subtype w fuel t e); try discriminate.
    destruct (is_subtype w fuel e t); try discriminate. auto.
  Qed.

  (* everything == to a member of the base set is in the set when the query is included and no bound filters *)
  Lemma find_types_base_memb_sub : forall e types o s base x,
    find_types w fuel e types true true None false o = Val s ->
    collect_subtypes w fuel e types [] = Val base -> memb x base = true -> memb x s = true.
  Proof.
    intros e types o s base x H Hb Hx. apply find_types_set_sub in H.
    destruct H as [base' [s1 [Hb' [H1 ->]]]]. rewrite Hb in Hb'. injection Hb' as <-.
    apply with_self_memb; [|left; reflexivity]. eapply with_related_memb; eauto.
  Qed.

  Lemma find_types_base_memb_sup : forall e types o s base x,
    find_types w fuel e types false true None false o = Val s ->
    get_supertypes w e = Some base -> memb x base = true -> memb x s = true.
  Proof.
    intros e types o s base x H Hb Hx. apply find_types_set_sup in H.
    destruct H as [base' [s1 [Hb' [H1 ->]]]]. rewrite Hb in Hb'. injection Hb' as <-.
    apply with_self_memb; [|left; reflexivity]. eapply with_related_memb; eauto.
  Qed.

  (* (d)/(e) what a successful irrelevant-type search returns for the target type e *)
  Lemma irrelevant_for_spec : forall e types o t,
    irrelevant_for w fuel e types o = Val (Some t) ->
    (In t types /\ is_con t = false /\ py_eqb e t = false /\ is_subtype w fuel t e = Rf /\
     (forall sups, get_supertypes w e = Some sups -> memb t sups = false)) \/
    (io_param o = Some (Some t) /\ is_subtype w fuel t e = Rf /\ is_subtype w fuel e t = Rf).
  Proof.
    intros e types o t H. rewrite irrelevant_for_eq in H.
    apply bind_val in H. destruct H as [sups [Hsup H]].
    apply bind_val in H. destruct H as [subs [Hsub H]].
    apply bind_val in H. destruct H as [avail [Hav H]].
    destruct avail as [|a0 avail']; [discriminate|].
    destruct (nth_error (a0 :: avail') (io_pick o)) as [t0|] eqn:Hn; [|discriminate].
    apply nth_error_In in Hn.
    destruct (available_spec _ _ _ _ Hav t0 Hn) as [Hin [Hrel Hcon]].
    destruct (is_con t0) eqn:Ct.
    - right. destruct (io_param o) as [[r|]|]; try discriminate.
      apply bind_val in H. destruct H as [rel [Hg H]].
      destruct rel; [discriminate|]. injection H as <-.
      apply related_guard_false in Hg. destruct Hg. auto.
    - left. injection H as <-.
      assert (Hnsup : memb t0 sups = false).
      { destruct (memb t0 sups) eqn:E; auto. rewrite (memb_app_l _ _ _ E) in Hrel. discriminate. }
      assert (Hnsub : memb t0 subs = false).
      { destruct (memb t0 subs) eqn:E; auto. rewrite (memb_app_r _ _ _ E) in Hrel. discriminate. }
      pose proof Hsub as Hsub0.
      rewrite find_subtypes_eq in Hsub. rewrite find_supertypes_eq in Hsup.
      rewrite find_types_concrete in Hsub, Hsup.
      apply bind_val in Hsub. destruct Hsub as [ssub [Hssub Hcsub]].
      apply bind_val in Hsup. destruct Hsup as [ssup [Hssup Hcsup]].
      (* the query itself *)
      assert (Hne : py_eqb e t0 = false).
      { destruct (py_eqb e t0) eqn:E; auto.
        pose proof (find_types_self_lem _ _ _ _ _ _ Hssub) as Hself.
        assert (memb t0 ssub = true).
        { eapply memb_congr; [|exact Hself]. rewrite py_eqb_sym. exact E. }
        rewrite (concrete_memb _ _ _ _ Hcsub H Ct) in Hnsub. discriminate. }
      repeat split; auto.
      + (* not a subtype *)
        pose proof (find_subtypes_total_lem _ _ _ _ _ _ _ Hsub0 t0 Hin Hne) as Hnerr.
        destruct (is_subtype w fuel t0 e) eqn:S; [|reflexivity|congruence].
        exfalso.
        destruct (find_types_set_sub _ _ _ _ _ _ Hssub) as [base [s1 [Hb _]]].
        destruct (collect_complete _ _ _ _ Hb) as [_ I2].
        pose proof (I2 t0 Hin Hne S) as Hm.
        pose proof (find_types_base_memb_sub _ _ _ _ _ _ Hssub Hb Hm) as Hm2.
        rewrite (concrete_memb _ _ _ _ Hcsub Hm2 Ct) in Hnsub. discriminate.
      + (* not among the supertypes *)
        intros l Hl. destruct (memb t0 l) eqn:E; auto. exfalso.
        pose proof (find_types_base_memb_sup e types (io_sup o) ssup l t0 Hssup Hl E) as Hm2.
        rewrite (concrete_memb _ _ _ _ Hcsup Hm2 Ct) in Hnsup. discriminate.
  Qed.

  Definition uses_choose (any : nat) (e : ty) : bool :=
    match e with
    | TVar _ _ None => true
    | TVar _ _ (Some b) => py_eqb b (TBuiltin any false)
    | _ => false
    end.

  (* (c) nothing for the top type *)
  Lemma find_irrelevant_top_lem : forall any p types o,
    find_irrelevant_type w fuel any (TBuiltin any p) types o = Val None.
  Proof. intros. unfold find_irrelevant_type. cbn. rewrite Nat.eqb_refl. reflexivity. Qed.

  Lemma find_irrelevant_spec_lem : forall any e types o t,
    find_irrelevant_type w fuel any e types o = Val (Some t) ->
    py_eqb e (TBuiltin any false) = false /\
    ((uses_choose any e = true /\ io_choose o = Some t) \/
     (uses_choose any e = false /\
      ((In t types /\ is_con t = false /\ py_eqb (irr_target e) t = false /\
        is_subtype w fuel t (irr_target e) = Rf /\
        (forall sups, get_supertypes w (irr_target e) = Some sups -> memb t sups = false)) \/
       (io_param o = Some (Some t) /\ is_subtype w fuel t (irr_target e) = Rf /\
        is_subtype w fuel (irr_target e) t = Rf)))).
  Proof.
    intros any e types o t H. unfold find_irrelevant_type in H.
    destruct (py_eqb e (TBuiltin any false)) eqn:E; [discriminate|]. split; [reflexivity|].
    assert (Hch : choose o = Val (Some t) -> io_choose o = Some t).
    { unfold choose. destruct (io_choose o); [intros Hc; injection Hc as <-; reflexivity|discriminate]. }
    destruct e as [b pr|c|c l|c|x v [bd|]|v ob| |i u l]; cbn [uses_choose irr_target];
      try (right; split; [reflexivity|]; apply irrelevant_for_spec; exact H).
    - destruct (py_eqb bd (TBuiltin any false)) eqn:Eb.
      + left. auto.
      + right. split; [reflexivity|]. apply irrelevant_for_spec. exact H.
    - left. auto.
  Qed.
End W.

(* ---------- link to the declarative relation (C06 exactness, boxed projection-free fragment) ---------- *)
Definition pf_ok (w : world) (t : ty) : bool := plain_closed t && arity_ok w t && boxed t.

Lemma pf_ok_split : forall w t, pf_ok w t = true ->
  plain_closed t = true /\ arity_ok w t = true /\ boxed t = true.
Proof.
  intros w t H. unfold pf_ok in H. apply andb_prop in H. destruct H as [H B].
  apply andb_prop in H. destruct H as [P A]. auto.
Qed.

Lemma rf_not_suba : forall w fuel s t, table_ok w = true -> pf_ok w s = true -> pf_ok w t = true ->
  is_subtype w fuel s t = Rf -> ~ SubA w [] s t.
Proof.
  intros w fuel s t Hok Hs Ht H.
  destruct (pf_ok_split _ _ Hs) as [Ps [As Bs]]. destruct (pf_ok_split _ _ Ht) as [Pt [At Bt]].
  eapply is_subtype_complete_pf_lem; eauto.
Qed.

(* a successful search on the fragment: the result is not a declarative subtype of the target; when it is
   an instantiated constructor (the final guard ran) the target is not a declarative subtype of it either *)
Lemma find_irrelevant_declarative_lem : forall w fuel any e types o t,
  table_ok w = true -> uses_choose any e = false ->
  pf_ok w (irr_target e) = true -> pf_ok w t = true ->
  find_irrelevant_type w fuel any e types o = Val (Some t) ->
  ~ SubA w [] t (irr_target e) /\
  (In t types /\ is_con t = false /\ py_eqb (irr_target e) t = false /\
   (forall sups, get_supertypes w (irr_target e) = Some sups -> memb t sups = false)
   \/ io_param o = Some (Some t) /\ ~ SubA w [] (irr_target e) t).
Proof.
  intros w fuel any e types o t Hok Hch He Ht H.
  destruct (find_irrelevant_spec_lem _ _ _ _ _ _ _ H) as [_ [[Hc _]|[_ Hs]]]; [congruence|].
  destruct Hs as [[Hin [Hcon [Hne [Hrf Hsup]]]]|[Hp [H1 H2]]].
  - split; [eapply rf_not_suba; eauto|]. left. auto.
  - split; [eapply rf_not_suba; eauto|]. right. split; [exact Hp|eapply rf_not_suba; eauto].
Qed.

(* the member case does not check the target against the candidate with is_subtype, only against
   get_supertypes: with an instantiation of a covariant class in `types` the answer is a supertype.
   K1<out T>, K3 : K2;  find_irrelevant_type(K1<K3>, [K1<K2>]) = K1<K2> although K1<K3> <: K1<K2> *)
Definition rf_world : world :=
  {| w_ct := [(1, {| c_params := [TVar 10 Cov None]; c_supers := [] |});
              (2, {| c_params := []; c_supers := [] |});
              (3, {| c_params := []; c_supers := [TClass 2] |})];
     w_bt := [(1, ex_bi [])]; w_array := None |}.
Definition rf_query : ty := TApp 1 [TClass 3].
Definition rf_answer : ty := TApp 1 [TClass 2].
Definition rf_oracle : fit_oracle :=
  {| io_choose := None;
     io_sup := {| fo_related := Some rf_query; fo_inst := [] |};
     io_sub := {| fo_related := Some rf_query; fo_inst := [] |};
     io_pick := 0; io_param := None |}.

Lemma find_irrelevant_member_supertype_refuted_lem :
  exists w fuel any e types o t,
    table_ok w = true /\ pf_ok w e = true /\ pf_ok w t = true /\ uses_choose any e = false /\
    find_irrelevant_type w fuel any e types o = Val (Some t) /\
    In t types /\ is_con t = false /\ is_subtype w fuel e t = Rt /\ SubA w [] e t.
Proof.
  exists rf_world, 20, 1, rf_query, [rf_answer], rf_oracle, rf_answer.
  assert (HS : is_subtype rf_world 20 rf_query rf_answer = Rt) by (vm_compute; reflexivity).
  repeat split; try (vm_compute; reflexivity).
  - left. reflexivity.
  - eapply is_subtype_sound_pf_lem; [| | | | |exact HS]; vm_compute; reflexivity.
Qed.

(* non-vacuity: on the C06 example world (Src<out T>, Sink<in T>, Mid<out T> : Src<T>, Leaf<in T> : Mid<Sink<T>>)
   every hypothesis of the theorems above holds and both searches return values in each of their cases *)
Definition nv_types : list ty := [TBuiltin 1 false; TBuiltin 2 false; TBuiltin 3 false; TCon 1; TCon 2; TCon 3; TCon 4].
Definition nv_ft (r : ty) : ft_oracle := {| fo_related := Some r; fo_inst := [(3, TApp 3 [TBuiltin 3 false]); (4, TApp 4 [TBuiltin 1 false])] |}.
Definition nv_query : ty := TApp 1 [TBuiltin 2 false].        (* Src<B2> *)
Definition nv_oracle (pick : nat) (par : option (option ty)) : fit_oracle :=
  {| io_choose := None; io_sup := nv_ft nv_query; io_sub := nv_ft (TApp 1 [TBuiltin 3 false]);
     io_pick := pick; io_param := par |}.

Definition nv_world2 : world :=
  {| w_ct := [(2, {| c_params := []; c_supers := [] |});
              (5, {| c_params := [TVar 50 Inv None]; c_supers := [TClass 2] |})];
     w_bt := []; w_array := None |}.

Lemma search_nonvacuous_lem :
  table_ok ex_world = true /\ pf_ok ex_world nv_query = true /\ uses_choose 1 nv_query = false /\
  (* the subtype search: the constructed type (and the query when asked for) *)
  find_subtypes ex_world 40 nv_query nv_types false None false (nv_ft (TApp 1 [TBuiltin 3 false])) =
    Val [TApp 1 [TBuiltin 3 false]] /\
  find_subtypes ex_world 40 nv_query nv_types true None true (nv_ft (TApp 1 [TBuiltin 3 false])) =
    Val [TApp 1 [TBuiltin 3 false]; nv_query] /\
  (* a generic subclass K5<T> : K2 of a plain class: left bare, or instantiated by the oracle when concrete types are wanted *)
  find_subtypes nv_world2 40 (TClass 2) [TClass 2; TCon 5] false None false {| fo_related := None; fo_inst := [] |} =
    Val [TCon 5] /\
  find_subtypes nv_world2 40 (TClass 2) [TClass 2; TCon 5] false None true
                {| fo_related := None; fo_inst := [(5, TApp 5 [TClass 2])] |} = Val [TApp 5 [TClass 2]] /\
  (* the supertype search with a bound *)
  find_supertypes ex_world 40 (TBuiltin 3 false) nv_types false (Some (TBuiltin 1 false)) false (nv_ft nv_query) =
    Val [TBuiltin 2 false; TBuiltin 1 false] /\
  (* the irrelevant-type search: a member of `types`; an instantiated constructor that passes the guard;
     one that the guard rejects *)
  find_irrelevant_type ex_world 40 1 nv_query nv_types (nv_oracle 1 None) = Val (Some (TBuiltin 2 false)) /\
  pf_ok ex_world (TBuiltin 2 false) = true /\
  find_irrelevant_type ex_world 40 1 nv_query nv_types (nv_oracle 4 (Some (Some (TApp 2 [TBuiltin 2 false])))) =
    Val (Some (TApp 2 [TBuiltin 2 false])) /\
  pf_ok ex_world (TApp 2 [TBuiltin 2 false]) = true /\
  find_irrelevant_type ex_world 40 1 nv_query nv_types (nv_oracle 3 (Some (Some (TApp 1 [TBuiltin 3 false])))) = Val None.
Proof. vm_compute. repeat split; reflexivity. Qed.
