(* Types/Subtype.v -- executable model of is_subtype / is_assignable / not_related of
   /repo/src/ir/types.py (and the per-language Builtin overrides).  Definitions only. *)
From Coq Require Import List Arith Bool.
Import ListNotations.
From Heph Require Import Types.Syntax Types.Subst.

(* True / False / a Python exception (AttributeError, TypeError, ...) or out of fuel *)
Inductive res := Rt | Rf | Rerr.

Definition ofb (b : bool) : res := if b then Rt else Rf.

(* sequential `and`: the first non-True answer is returned *)
Definition rand (a b : res) : res := match a with Rt => b | x => x end.

(* any(...) over a *set*: the iteration order is unspecified, so True wins over an
   exception raised by another disjunct (see DESIGN 4.3); otherwise an exception wins *)
Definition rany (l : list res) : res :=
  if existsb (fun r => match r with Rt => true | _ => false end) l then Rt
  else if existsb (fun r => match r with Rerr => true | _ => false end) l then Rerr
  else Rf.

Definition is_none {A} (o : option A) : bool := match o with None => true | Some _ => false end.

Section W.
  Context (w : world).

  Definition is_bottom_builtin (b : nat) : bool :=
    match find_builtin w b with Some bi => b_bottom bi | None => false end.

  Fixpoint is_subtype (fuel : nat) (s t : ty) {struct fuel} : res :=
    match fuel with
    | O => Rerr
    | S f =>
        (* _is_type_arg_contained(a, b, type_param) *)
        let contained (a b p : ty) : res :=
          let w1 := is_wild a in
          let w2 := is_wild b in
          let fin := if w2 && is_none (wbound b)
                     then ofb (negb (w1 && is_none (wbound a)))
                     else Rf in
          if negb w1 && negb w2 then
            match tvar_variance p with
            | Inv => ofb (py_eqb a b)
            | Cov => is_subtype f a b
            | Contra => is_subtype f b a
            end
          else
            match w1, w2, wbound a, wbound b with
            | false, true, _, Some bb =>
                match wvar b with
                | Cov => is_subtype f a bb
                | Contra => is_subtype f bb a
                | Inv => fin
                end
            | true, true, Some ab, Some bb =>
                match wvar a, wvar b with
                | Cov, Cov => is_subtype f ab bb
                | Contra, Contra => is_subtype f bb ab
                | _, _ => fin
                end
            | true, false, Some ab, _ =>
                match tvar_variance p with
                | Cov => is_subtype f ab b
                | Contra => is_subtype f b ab
                | Inv => fin
                end
            | _, _, _, _ => fin
            end in
        (* SimpleClassifier.is_subtype *)
        let nominal : res :=
          if py_eqb t s then Rt
          else match get_supertypes w s with
               | None => Rerr
               | Some sups =>
                   rany (map (fun st => is_subtype f st t)
                             (filter (fun st => negb (py_eqb st s)) sups))
               end in
        match s with
        | TNothing => Rt
        | TCap _ _ _ => Rerr              (* not a Python object *)
        | TBuiltin b _ =>
            if is_bottom_builtin b then Rt
            else if py_eqb t s then Rt
            else match get_supertypes w s with
                 | None => Rerr
                 | Some sups => ofb (memb t sups)
                 end
        | TClass _ => nominal
        | TApp c args =>
            match nominal with
            | Rt => Rt
            | Rerr => Rerr
            | Rf =>
                match t with
                | TApp d args' =>
                    if Nat.eqb c d then
                      match find_class w c with
                      | None => Rerr
                      | Some dcl =>
                          (fix go (ps l1 l2 : list ty) : res :=
                             match ps, l1, l2 with
                             | p :: ps', a :: l1', b :: l2' =>
                                 match contained a b p with
                                 | Rt => go ps' l1' l2'
                                 | x => x
                                 end
                             | _, _, _ => Rt
                             end) (c_params dcl) args args'
                      end
                    else Rf
                | _ => Rf
                end
            end
        | TVar _ _ ob =>
            match ob with
            | None => Rf
            | Some b => ofb (py_eqb b t)
            end
        | TWild v ob =>
            match t with
            | TWild v' (Some b') =>
                if var_eqb v Cov && var_eqb v' Cov then
                  match ob with
                  | Some b => is_subtype f b b'
                  | None => Rerr
                  end
                else Rf
            | _ => Rf
            end
        | TCon c =>
            match get_supertypes w s with
            | None => Rerr
            | Some sups =>
                match find (fun st => py_eqb t st) sups with
                | None => Rf
                | Some matched =>
                    match t, matched, find_class w c with
                    | TApp _ _, TApp _ margs, Some dcl =>
                        ofb (negb (existsb (fun a => memb a (c_params dcl)) margs))
                    | TApp _ _, _, _ => Rerr
                    | _, _, _ => Rt
                    end
                end
            end
        end
    end.

  Definition default_fuel : nat := 40.

  Definition not_related (fuel : nat) (s t : ty) : res :=
    match is_subtype fuel s t, is_subtype fuel t s with
    | Rerr, _ => Rerr
    | Rt, _ => Rf
    | Rf, Rerr => Rerr
    | Rf, Rt => Rf
    | Rf, Rf => Rt
    end.

  Definition prim_flag (t : ty) : bool := match t with TBuiltin _ p => p | _ => false end.

  (* is_assignable: Type default, ParameterizedType (Java primitive arrays), numeric overrides *)
  Definition is_assignable (fuel : nat) (s t : ty) : res :=
    match s with
    | TApp c [a] =>
        match w_array w, t with
        | Some arr, TApp d [b] =>
            if Nat.eqb c arr && Nat.eqb d arr && (prim_flag a || prim_flag b)
            then ofb (py_eqb a b && prim_flag a && prim_flag b)
            else is_subtype fuel s t
        | _, _ => is_subtype fuel s t
        end
    | TBuiltin b _ =>
        match is_subtype fuel s t with
        | Rt => Rt
        | r =>
            match find_builtin w b, t with
            | Some bi, TBuiltin b' _ => if existsb (Nat.eqb b') (b_assign bi) then Rt else r
            | _, _ => r
            end
        end
    | _ => is_subtype fuel s t
    end.
End W.
