(* Types/SubstProofs.v -- proofs of the C07 properties of substitution / instantiation
   (Types/Subst.v).  The statements are collected in Types/Properties_C07.v. *)
From Coq Require Import List Arith Bool Lia Relations Operators_Properties.
Import ListNotations.
From Heph Require Import Types.Syntax Types.Subst Types.TableOk Types.SubstSpec.

Lemma substitute_type_def : forall t m, substitute_type t m = subst false m t.
Proof. reflexivity. Qed.

(* ---------- structural induction on ty (lists and options of ty inside) ---------- *)
Section TyInd.
  Variable P : ty -> Prop.
  Hypothesis HB : forall b pr, P (TBuiltin b pr).
  Hypothesis HC : forall c, P (TClass c).
  Hypothesis HA : forall c l, Forall P l -> P (TApp c l).
  Hypothesis HCon : forall c, P (TCon c).
  Hypothesis HV0 : forall x v, P (TVar x v None).
  Hypothesis HV1 : forall x v b, P b -> P (TVar x v (Some b)).
  Hypothesis HW0 : forall v, P (TWild v None).
  Hypothesis HW1 : forall v b, P b -> P (TWild v (Some b)).
  Hypothesis HN : P TNothing.
  Hypothesis HCap : forall i u l,
      (forall b, u = Some b -> P b) -> (forall b, l = Some b -> P b) -> P (TCap i u l).

  Lemma ty_ind' : forall t, P t.
  Proof.
    fix IH 1. intros t. destruct t as [b pr|c|c l|c|x v ob|v ob| |i u l].
    - apply HB.
    - apply HC.
    - apply HA. induction l as [|a l IHl]; constructor; [apply IH | exact IHl].
    - apply HCon.
    - destruct ob as [b|]; [apply HV1; apply IH | apply HV0].
    - destruct ob as [b|]; [apply HW1; apply IH | apply HW0].
    - apply HN.
    - apply HCap.
      + destruct u as [x|]; intros b E; [injection E as <-; apply IH | discriminate].
      + destruct l as [x|]; intros b E; [injection E as <-; apply IH | discriminate].
  Qed.
End TyInd.

(* ---------- Python equality: unfolding, equivalence ---------- *)
Definition py_eqb_list : list ty -> list ty -> bool :=
  fix leq (l1 l2 : list ty) : bool :=
    match l1, l2 with
    | [], [] => true
    | x :: t, y :: u => py_eqb x y && leq t u
    | _, _ => false
    end.

Definition py_eqb_opt (o1 o2 : option ty) : bool :=
  match o1, o2 with
  | None, None => true
  | Some x, Some y => py_eqb x y
  | _, _ => false
  end.

Definition ids_eqb : list nat -> list nat -> bool :=
  fix ieq (a b : list nat) : bool :=
    match a, b with
    | [], [] => true
    | x :: a', y :: b' => Nat.eqb x y && ieq a' b'
    | _, _ => false
    end.

Lemma py_eqb_app : forall c l d m, py_eqb (TApp c l) (TApp d m) = Nat.eqb c d && py_eqb_list l m.
Proof. reflexivity. Qed.
Lemma py_eqb_var : forall x v o y u p,
  py_eqb (TVar x v o) (TVar y u p) = Nat.eqb x y && var_eqb v u && py_eqb_opt o p.
Proof. reflexivity. Qed.
Lemma py_eqb_wild : forall v o u p, py_eqb (TWild v o) (TWild u p) = var_eqb v u && py_eqb_opt o p.
Proof. reflexivity. Qed.
Lemma py_eqb_cap : forall i u l j u' l',
  py_eqb (TCap i u l) (TCap j u' l') = ids_eqb i j && py_eqb_opt u u' && py_eqb_opt l l'.
Proof. reflexivity. Qed.

Lemma var_eqb_refl : forall v, var_eqb v v = true.
Proof. intros []; reflexivity. Qed.
Lemma var_eqb_sym : forall a b, var_eqb a b = var_eqb b a.
Proof. intros [] []; reflexivity. Qed.
Lemma var_eqb_eq : forall a b, var_eqb a b = true -> a = b.
Proof. intros [] []; cbn; intros H; auto; discriminate. Qed.

Lemma ids_eqb_refl : forall i, ids_eqb i i = true.
Proof. induction i as [|x i IH]; cbn; [reflexivity|]. rewrite Nat.eqb_refl. exact IH. Qed.
Lemma ids_eqb_sym : forall i j, ids_eqb i j = ids_eqb j i.
Proof.
  induction i as [|x i IH]; intros [|y j]; cbn; try reflexivity.
  rewrite (Nat.eqb_sym x y), IH. reflexivity.
Qed.
Lemma ids_eqb_eq : forall i j, ids_eqb i j = true -> i = j.
Proof.
  induction i as [|x i IH]; intros [|y j]; cbn; intros H; try discriminate; auto.
  apply andb_prop in H. destruct H as [H1 H2]. apply Nat.eqb_eq in H1. f_equal; auto.
Qed.

Lemma py_eqb_refl : forall t, py_eqb t t = true.
Proof.
  apply ty_ind'; intros.
  - cbn. apply Nat.eqb_refl.
  - cbn. apply Nat.eqb_refl.
  - rewrite py_eqb_app, Nat.eqb_refl. cbn [andb].
    induction H as [|a l Ha Hl IH]; cbn; [reflexivity|]. rewrite Ha. exact IH.
  - cbn. apply Nat.eqb_refl.
  - rewrite py_eqb_var, Nat.eqb_refl, var_eqb_refl. reflexivity.
  - rewrite py_eqb_var, Nat.eqb_refl, var_eqb_refl. cbn. exact H.
  - rewrite py_eqb_wild, var_eqb_refl. reflexivity.
  - rewrite py_eqb_wild, var_eqb_refl. cbn. exact H.
  - reflexivity.
  - rewrite py_eqb_cap, ids_eqb_refl. cbn [andb].
    assert (Hu : py_eqb_opt u u = true) by (destruct u; cbn; auto).
    assert (Hl : py_eqb_opt l l = true) by (destruct l; cbn; auto).
    rewrite Hu, Hl. reflexivity.
Qed.

Lemma py_eqb_sym : forall a b, py_eqb a b = py_eqb b a.
Proof.
  apply (ty_ind' (fun a => forall b, py_eqb a b = py_eqb b a)); intros.
  - destruct b0; cbn; try reflexivity. apply Nat.eqb_sym.
  - destruct b; cbn; try reflexivity. apply Nat.eqb_sym.
  - destruct b as [| |d m| | | | |]; try reflexivity.
    rewrite !py_eqb_app, (Nat.eqb_sym c d). f_equal.
    revert m. induction H as [|a l Ha Hl IH]; intros [|y m]; cbn; try reflexivity.
    rewrite Ha, IH. reflexivity.
  - destruct b; cbn; try reflexivity. apply Nat.eqb_sym.
  - destruct b as [| | | |y u p| | |]; try reflexivity.
    rewrite !py_eqb_var, (Nat.eqb_sym x y), (var_eqb_sym v u). destruct p; reflexivity.
  - destruct b0 as [| | | |y u p| | |]; try reflexivity.
    rewrite !py_eqb_var, (Nat.eqb_sym x y), (var_eqb_sym v u). destruct p; cbn; [rewrite H|]; reflexivity.
  - destruct b as [| | | | |u p| |]; try reflexivity.
    rewrite !py_eqb_wild, (var_eqb_sym v u). destruct p; reflexivity.
  - destruct b0 as [| | | | |u p| |]; try reflexivity.
    rewrite !py_eqb_wild, (var_eqb_sym v u). destruct p; cbn; [rewrite H|]; reflexivity.
  - destruct b; reflexivity.
  - destruct b as [| | | | | | |j u' l']; try reflexivity.
    rewrite !py_eqb_cap, (ids_eqb_sym i j).
    assert (Hu : py_eqb_opt u u' = py_eqb_opt u' u).
    { destruct u, u'; cbn; auto. }
    assert (Hl : py_eqb_opt l l' = py_eqb_opt l' l).
    { destruct l, l'; cbn; auto. }
    rewrite Hu, Hl. reflexivity.
Qed.

Ltac split_andb :=
  repeat match goal with
         | H : _ && _ = true |- _ => apply andb_prop in H; destruct H
         end.

Ltac eqb_subst :=
  repeat match goal with
         | H : Nat.eqb _ _ = true |- _ => apply Nat.eqb_eq in H
         | H : var_eqb _ _ = true |- _ => apply var_eqb_eq in H
         | H : ids_eqb _ _ = true |- _ => apply ids_eqb_eq in H
         end; subst.

Lemma py_eqb_trans : forall a b c, py_eqb a b = true -> py_eqb b c = true -> py_eqb a c = true.
Proof.
  apply (ty_ind' (fun a => forall b c, py_eqb a b = true -> py_eqb b c = true -> py_eqb a c = true)).
  - intros x pr b c H1 H2. destruct b; try discriminate. destruct c; try discriminate.
    cbn in *. apply Nat.eqb_eq in H1. apply Nat.eqb_eq in H2. apply Nat.eqb_eq. congruence.
  - intros x b c H1 H2. destruct b; try discriminate. destruct c; try discriminate.
    cbn in *. apply Nat.eqb_eq in H1. apply Nat.eqb_eq in H2. apply Nat.eqb_eq. congruence.
  - intros x l IH b c H1 H2.
    destruct b as [| |d m| | | | |]; try discriminate.
    destruct c as [| |e n| | | | |]; try discriminate.
    rewrite py_eqb_app in *. split_andb.
    eqb_subst. rewrite Nat.eqb_refl. cbn [andb].
    revert m n H0 H2. induction IH as [|a l Ha Hl IHl]; intros [|y m] [|z n] E1 E2; cbn in *;
      try discriminate; auto.
    split_andb. rewrite (Ha y z), (IHl m n); auto.
  - intros x b c H1 H2. destruct b; try discriminate. destruct c; try discriminate.
    cbn in *. apply Nat.eqb_eq in H1. apply Nat.eqb_eq in H2. apply Nat.eqb_eq. congruence.
  - intros x v b c H1 H2.
    destruct b as [| | | |y u p| | |]; try discriminate.
    destruct c as [| | | |z s q| | |]; try discriminate.
    rewrite py_eqb_var in *. split_andb.
    destruct p; try discriminate. destruct q; try discriminate.
    eqb_subst.
    rewrite Nat.eqb_refl, var_eqb_refl. reflexivity.
  - intros x v b0 IH b c H1 H2.
    destruct b as [| | | |y u p| | |]; try discriminate.
    destruct c as [| | | |z s q| | |]; try discriminate.
    rewrite py_eqb_var in *. split_andb.
    destruct p; try discriminate. destruct q; try discriminate.
    eqb_subst.
    rewrite Nat.eqb_refl, var_eqb_refl. cbn in *. eauto.
  - intros v b c H1 H2.
    destruct b as [| | | | |u p| |]; try discriminate.
    destruct c as [| | | | |s q| |]; try discriminate.
    rewrite py_eqb_wild in *. split_andb.
    destruct p; try discriminate. destruct q; try discriminate.
    eqb_subst. rewrite var_eqb_refl. reflexivity.
  - intros v b0 IH b c H1 H2.
    destruct b as [| | | | |u p| |]; try discriminate.
    destruct c as [| | | | |s q| |]; try discriminate.
    rewrite py_eqb_wild in *. split_andb.
    destruct p; try discriminate. destruct q; try discriminate.
    eqb_subst. rewrite var_eqb_refl. cbn in *. eauto.
  - intros b c H1 H2. destruct b; try discriminate. exact H2.
  - intros i u l IHu IHl b c H1 H2.
    destruct b as [| | | | | | |j u' l']; try discriminate.
    destruct c as [| | | | | | |k u'' l'']; try discriminate.
    rewrite py_eqb_cap in *. split_andb.
    eqb_subst. rewrite ids_eqb_refl. cbn [andb].
    assert (Eu : py_eqb_opt u u'' = true).
    { destruct u, u', u''; cbn in *; try discriminate; eauto. }
    assert (El : py_eqb_opt l l'' = true).
    { destruct l, l', l''; cbn in *; try discriminate; eauto. }
    rewrite Eu, El. reflexivity.
Qed.

Lemma py_eqb_list_length : forall l m, py_eqb_list l m = true -> length l = length m.
Proof.
  induction l as [|a l IH]; intros [|b m] H; cbn in *; try discriminate; auto.
  split_andb. f_equal. auto.
Qed.

(* == never confuses the kinds of terms, and respects has_type_variables *)
Lemma py_eqb_has_tv : forall a b, py_eqb a b = true -> has_tv a = has_tv b.
Proof.
  apply (ty_ind' (fun a => forall b, py_eqb a b = true -> has_tv a = has_tv b)); intros;
    match goal with H : py_eqb _ ?b = true |- _ => destruct b; try discriminate end;
    try reflexivity.
  - rewrite py_eqb_app in H0. split_andb. cbn [has_tv].
    revert args H1. induction H as [|a l Ha Hl IH]; intros [|y m] E; cbn in *; try discriminate; auto.
    split_andb. rewrite (Ha y), (IH m); auto.
  - rewrite py_eqb_wild in H. split_andb. destruct bound; try discriminate. reflexivity.
  - rewrite py_eqb_wild in H0. split_andb. destruct bound; try discriminate. cbn in *. auto.
Qed.

Lemma memb_ex : forall t l, memb t l = true -> exists k, In k l /\ py_eqb t k = true.
Proof. intros t l H. apply existsb_exists in H. exact H. Qed.

Lemma memb_in : forall t l, In t l -> memb t l = true.
Proof. intros t l H. apply existsb_exists. exists t. split; auto. apply py_eqb_refl. Qed.

Lemma memb_app_l : forall t l1 l2, memb t l1 = true -> memb t (l1 ++ l2) = true.
Proof. intros. unfold memb in *. rewrite existsb_app, H. reflexivity. Qed.

Lemma memb_app_r : forall t l1 l2, memb t l2 = true -> memb t (l1 ++ l2) = true.
Proof. intros. unfold memb in *. rewrite existsb_app, H. apply orb_true_r. Qed.

(* ---------- lookups ---------- *)
Lemma lookup_in : forall m t r, lookup_sub m t = Some r -> exists k, In (k, r) m /\ py_eqb k t = true.
Proof.
  induction m as [|[k v] m IH]; cbn; intros t r H; [discriminate|].
  destruct (py_eqb k t) eqn:E.
  - injection H as <-. eauto.
  - destruct (IH _ _ H) as [k' [Hin He]]. eauto.
Qed.

Lemma lookup_none : forall m t k, lookup_sub m t = None -> In k (map fst m) -> py_eqb k t = false.
Proof.
  induction m as [|[k' v] m IH]; cbn; intros t k H Hin; [contradiction|].
  destruct (py_eqb k' t) eqn:E; [discriminate|].
  destruct Hin as [<-|Hin]; auto.
Qed.

Lemma in_mk_map : forall ks vs k r, In (k, r) (mk_map ks vs) -> In r vs.
Proof.
  intros ks vs k r H. unfold mk_map in H. apply in_rev in H. eapply in_combine_r; eauto.
Qed.

Lemma subst_var_eq : forall c m x v ob,
  subst c m (TVar x v ob) =
  match lookup_sub m (TVar x v ob) with
  | Some r => if c && has_tv r
              then match ob with Some b => TVar x v (Some (subst c m b)) | None => TVar x v ob end
              else r
  | None => match ob with Some b => TVar x v (Some (subst c m b)) | None => TVar x v ob end
  end.
Proof. reflexivity. Qed.

(* ==================== T1 ==================== *)
Lemma subst_empty_lemma : forall c t, subst c [] t = t.
Proof.
  intros c. apply ty_ind'; intros; try reflexivity.
  - cbn [subst]. f_equal. induction H as [|a l Ha Hl IH]; cbn; [reflexivity|]. rewrite Ha, IH. reflexivity.
  - rewrite subst_var_eq. cbn [lookup_sub]. rewrite H. reflexivity.
  - cbn [subst]. rewrite H. reflexivity.
Qed.

(* ==================== T2 ==================== *)
Lemma subst_cond_irrelevant_lemma : forall m t,
  (forall k r, In (k, r) m -> has_tv r = false) -> subst true m t = subst false m t.
Proof.
  intros m t Hg. revert t. apply ty_ind'; intros; try reflexivity.
  - cbn [subst]. f_equal. induction H as [|a l Ha Hl IH]; cbn; [reflexivity|]. rewrite Ha, IH. reflexivity.
  - rewrite !subst_var_eq. destruct (lookup_sub m (TVar x v None)) as [r|] eqn:E; [|reflexivity].
    destruct (lookup_in _ _ _ E) as [k [Hin _]]. rewrite (Hg _ _ Hin). reflexivity.
  - rewrite !subst_var_eq, H. destruct (lookup_sub m (TVar x v (Some b))) as [r|] eqn:E; [|reflexivity].
    destruct (lookup_in _ _ _ E) as [k [Hin _]]. rewrite (Hg _ _ Hin). reflexivity.
  - cbn [subst]. rewrite H. reflexivity.
Qed.

(* ==================== T3 ==================== *)
Lemma new_supertypes_lemma : forall w c d args,
  find_class w c = Some d -> (forall a, In a args -> has_tv a = false) ->
  direct_supers w (TApp c args) =
  map (fun s => if is_app s then subst false (mk_map (c_params d) args) s else s) (c_supers d).
Proof.
  intros w c d args Hd Hg. cbn [direct_supers]. rewrite Hd. apply map_ext. intros s.
  destruct (is_app s); [|reflexivity].
  apply subst_cond_irrelevant_lemma. intros k r Hin. apply Hg. eapply in_mk_map; eauto.
Qed.

Example new_supertypes_example :
  (* X<Number, Int> *)
  direct_supers ex_world (new 3 [ex_Number; ex_Int]) = [TApp 1 [TApp 2 [ex_Number]]] /\
  get_supertypes ex_world (new 3 [ex_Number; ex_Int]) =
    Some [TApp 3 [ex_Number; ex_Int]; TApp 1 [TApp 2 [ex_Number]]] /\
  (* X<out Number, Int>: the projection is substituted textually, Y<L<out Number>> *)
  direct_supers ex_world (new 3 [TWild Cov (Some ex_Number); ex_Int]) =
    [TApp 1 [TApp 2 [TWild Cov (Some ex_Number)]]] /\
  get_supertypes ex_world (new 3 [TWild Cov (Some ex_Number); ex_Int]) =
    Some [TApp 3 [TWild Cov (Some ex_Number); ex_Int]; TApp 1 [TApp 2 [TWild Cov (Some ex_Number)]]].
Proof. vm_compute. repeat split. Qed.

(* ==================== T4 ==================== *)
Lemma tvar_neq_other : forall k t, is_tvar k = true -> is_tvar t = false -> py_eqb k t = false.
Proof. intros k t Hk Ht. destruct k; try discriminate. destruct t; try discriminate; reflexivity. Qed.

Lemma ground_no_occurs : forall k r, is_tvar k = true -> has_tv r = false -> occurs k r = false.
Proof.
  intros k r Hk. revert r.
  apply (ty_ind' (fun r => has_tv r = false -> occurs k r = false)); intros; try discriminate;
    try (cbn [occurs]; rewrite tvar_neq_other by auto; reflexivity).
  - cbn [occurs]. rewrite tvar_neq_other by auto. cbn [orb]. cbn [has_tv] in H0.
    induction H as [|a l Ha Hl IH]; cbn in *; [reflexivity|].
    apply orb_false_elim in H0. destruct H0. rewrite Ha, IH; auto.
  - cbn [occurs]. rewrite tvar_neq_other by auto. cbn in *. auto.
Qed.

Lemma same_name_false : forall k x v o o', same_name k (TVar x v o) = false -> py_eqb k (TVar x v o') = false.
Proof.
  intros k x v o o' H. destruct k; try reflexivity. rewrite py_eqb_var. cbn in H. rewrite H. reflexivity.
Qed.

(* the general form: only the key k matters *)
Lemma subst_everywhere_key : forall m t k,
  (forall k' r, In (k', r) m -> has_tv r = false) ->
  is_tvar k = true -> In k (map fst m) ->
  no_clash k m t = true -> occurs k (subst false m t) = false.
Proof.
  intros m t k Hg Hk Hin. revert t.
  apply (ty_ind' (fun t => no_clash k m t = true -> occurs k (subst false m t) = false)); intros;
    try (cbn [subst occurs]; rewrite tvar_neq_other by auto; reflexivity).
  - cbn [subst occurs]. rewrite tvar_neq_other by auto. cbn [orb]. cbn [no_clash] in H0.
    induction H as [|a l Ha Hl IH]; cbn in *; [reflexivity|].
    split_andb. rewrite Ha, IH; auto.
  - rewrite subst_var_eq. cbn [andb].
    destruct (lookup_sub m (TVar x v None)) as [r|] eqn:E.
    + destruct (lookup_in _ _ _ E) as [k' [Hin' _]]. apply ground_no_occurs; eauto.
    + cbn [occurs]. rewrite (lookup_none _ _ _ E Hin). reflexivity.
  - rewrite subst_var_eq. cbn [andb]. cbn [no_clash] in H0.
    destruct (lookup_sub m (TVar x v (Some b))) as [r|] eqn:E.
    + destruct (lookup_in _ _ _ E) as [k' [Hin' _]]. apply ground_no_occurs; eauto.
    + split_andb. apply negb_true_iff in H0. cbn [occurs].
      rewrite (same_name_false _ _ _ _ (Some (subst false m b)) H0). cbn [orb]. auto.
  - cbn [subst occurs]. rewrite tvar_neq_other by auto. cbn in *. auto.
Qed.

Lemma in_map_fst : forall (m : list (ty * ty)) k, In k (map fst m) -> exists r, In (k, r) m.
Proof.
  intros m k H. apply in_map_iff in H. destruct H as [[k' r] [E H]]. cbn in E. subst. eauto.
Qed.

Lemma subst_everywhere_partial_key_lemma : forall m t k,
  (forall k' r, In (k', r) m -> is_tvar k' = true /\ has_tv r = false) ->
  In k (map fst m) -> no_clash k m t = true -> occurs k (subst false m t) = false.
Proof.
  intros m t k H Hin Hc. destruct (in_map_fst _ _ Hin) as [r Hr].
  apply subst_everywhere_key; auto.
  - intros k' r' Hin'. apply (H k' r' Hin').
  - apply (H k r Hr).
Qed.

Lemma subst_everywhere_partial_lemma : forall m t k,
  (forall k' r, In (k', r) m -> is_tvar k' = true /\ has_tv r = false) ->
  In k (map fst m) -> names_agree m t = true -> occurs k (subst false m t) = false.
Proof.
  intros m t k H Hin Hc. apply subst_everywhere_partial_key_lemma; auto.
  unfold names_agree in Hc. rewrite forallb_forall in Hc. auto.
Qed.

Lemma subst_everywhere_refuted_lemma :
  exists m t k,
    (forall k' r, In (k', r) m -> is_tvar k' = true /\ has_tv r = false) /\
    In k (map fst m) /\ occurs k (subst false m t) = true.
Proof.
  (* {T2 -> Number, (T1 : Number) -> Int} applied to (T1 : T2): the lookup of T1 : T2 misses,
     its bound is rewritten, and the rebuilt parameter T1 : Number is == to the second key *)
  exists [(TVar 2 Inv None, TBuiltin 0 false); (TVar 1 Inv (Some (TBuiltin 0 false)), TBuiltin 1 false)],
         (TVar 1 Inv (Some (TVar 2 Inv None))),
         (TVar 1 Inv (Some (TBuiltin 0 false))).
  split; [|split].
  - intros k' r [E|[E|[]]]; inversion E; subst; split; reflexivity.
  - right. left. reflexivity.
  - vm_compute. reflexivity.
Qed.

(* the stronger, purely syntactic condition implies the weak one *)
Lemma names_agree_strong_weak : forall m t, names_agree_strong m t = true -> names_agree m t = true.
Proof.
  intros m t H. unfold names_agree. apply forallb_forall. intros k Hk. revert t H.
  apply (ty_ind' (fun t => names_agree_strong m t = true -> no_clash k m t = true)); intros;
    try reflexivity.
  - cbn [names_agree_strong no_clash] in *.
    induction H as [|a l Ha Hl IH]; cbn in *; [reflexivity|]. split_andb. rewrite Ha, IH; auto.
  - cbn [no_clash]. destruct (lookup_sub m (TVar x v None)); reflexivity.
  - cbn [no_clash names_agree_strong] in *. split_andb.
    destruct (lookup_sub m (TVar x v (Some b))) eqn:E; [reflexivity|].
    rewrite (H H1), andb_true_r.
    rewrite forallb_forall in H0. specialize (H0 k Hk).
    rewrite (lookup_none _ _ _ E Hk), orb_false_r in H0. exact H0.
  - cbn in *. auto.
Qed.

(* ==================== T5 ==================== *)
Lemma subst_ground_lemma : forall m t,
  (forall k r, In (k, r) m -> has_tv r = false) -> covered m t = true ->
  has_tv (subst false m t) = false.
Proof.
  intros m t Hg. revert t.
  apply (ty_ind' (fun t => covered m t = true -> has_tv (subst false m t) = false)); intros;
    try reflexivity; try discriminate.
  - cbn [subst has_tv covered] in *.
    induction H as [|a l Ha Hl IH]; cbn in *; [reflexivity|]. split_andb. rewrite Ha, IH; auto.
  - rewrite subst_var_eq. cbn [covered andb] in *.
    destruct (lookup_sub m (TVar x v None)) as [r|] eqn:E; [|discriminate].
    destruct (lookup_in _ _ _ E) as [k [Hin _]]. eauto.
  - rewrite subst_var_eq. cbn [covered andb] in *.
    destruct (lookup_sub m (TVar x v (Some b))) as [r|] eqn:E; [|discriminate].
    destruct (lookup_in _ _ _ E) as [k [Hin _]]. eauto.
  - cbn in *. auto.
Qed.

(* X<T1, out T1, L<T2>> with {T1 -> Number, T2 : T1 -> Int}: the bound T1 of T2 is below a
   replaced variable and needs no entry of its own *)
Example subst_ground_example :
  let m := [(ex_T2, ex_Int)] in
  let t := TApp 3 [ex_T2; TWild Cov (Some ex_T2); TApp 2 [ex_T2]] in
  covered m t = true /\
  subst false m t = TApp 3 [ex_Int; TWild Cov (Some ex_Int); TApp 2 [ex_Int]] /\
  has_tv (subst false m t) = false.
Proof. vm_compute. repeat split. Qed.

(* ==================== T8 ==================== *)
Lemma wild_bound_rec_not_wild : forall t b, wild_bound_rec t = Some b -> is_wild b = false.
Proof.
  apply (ty_ind' (fun t => forall b, wild_bound_rec t = Some b -> is_wild b = false)); intros;
    try discriminate.
  cbn [wild_bound_rec] in H0. destruct (is_wild b) eqn:E; [auto|]. injection H0 as <-. exact E.
Qed.

Lemma to_variance_free_idempotent_lemma : forall t,
  to_variance_free (to_variance_free t) = to_variance_free t.
Proof.
  intros t. destruct t; try reflexivity. cbn [to_variance_free]. f_equal.
  rewrite map_map. apply map_ext. intros a.
  destruct a as [| | | | |v [b|]| |]; try reflexivity.
  destruct (wild_bound_rec (TWild v (Some b))) as [b0|] eqn:E.
  - pose proof (wild_bound_rec_not_wild _ _ E) as Hw. destruct b0; try reflexivity. discriminate.
  - rewrite E. reflexivity.
Qed.

(* ==================== T6 ==================== *)
Definition new_of (visited l : list ty) : list ty :=
  fold_left (fun acc x => if memb x (visited ++ acc) then acc else acc ++ [x]) l [].

Lemma closure_S : forall w f stack visited,
  closure w (S f) stack visited =
  match stack with
  | [] => Some visited
  | s :: rest => closure w f (new_of visited (direct_supers w s) ++ rest)
                         (visited ++ new_of visited (direct_supers w s))
  end.
Proof. reflexivity. Qed.

Lemma fold_new_spec : forall (visited l acc : list ty),
  let r := fold_left (fun acc x => if memb x (visited ++ acc) then acc else acc ++ [x]) l acc in
  (forall y, In y r -> In y acc \/ In y l) /\
  (forall y, memb y (visited ++ acc) = true -> memb y (visited ++ r) = true) /\
  (forall y, In y l -> memb y (visited ++ r) = true).
Proof.
  intros visited l. induction l as [|x l IH]; intros acc; cbn.
  - repeat split; auto; intros y [].
  - destruct (memb x (visited ++ acc)) eqn:E.
    + destruct (IH acc) as [I1 [I2 I3]]. repeat split.
      * intros y Hy. destruct (I1 y Hy); auto.
      * exact I2.
      * intros y [<-|Hy]; auto.
    + destruct (IH (acc ++ [x])) as [I1 [I2 I3]]. repeat split.
      * intros y Hy. destruct (I1 y Hy) as [H|H]; auto.
        apply in_app_or in H. destruct H as [H|[<-|[]]]; auto.
      * intros y Hy. apply I2. rewrite app_assoc. apply memb_app_l. exact Hy.
      * intros y [<-|Hy]; auto. apply I2. rewrite app_assoc. apply memb_app_r.
        cbn. rewrite py_eqb_refl. reflexivity.
Qed.

Lemma new_of_spec : forall visited l,
  (forall y, In y (new_of visited l) -> In y l) /\
  (forall y, In y l -> memb y (visited ++ new_of visited l) = true).
Proof.
  intros visited l. unfold new_of.
  destruct (fold_new_spec visited l []) as [I1 [_ I3]]. split; [|exact I3].
  intros y Hy. destruct (I1 y Hy) as [[]|H]; exact H.
Qed.

Lemma reach_step : forall w s u, In u (direct_supers w s) -> Reach w s u.
Proof. intros w s u H. apply rt_step. exact H. Qed.

Lemma reach_refl : forall w s, Reach w s s.
Proof. intros. apply rt_refl. Qed.

Lemma reach_trans : forall w a b c, Reach w a b -> Reach w b c -> Reach w a c.
Proof. intros. eapply rt_trans; eauto. Qed.

Lemma closure_sound_lemma : forall w fuel stack visited l,
  closure w fuel stack visited = Some l ->
  forall u, In u l -> In u visited \/ exists s, In s stack /\ Reach w s u.
Proof.
  intros w fuel. induction fuel as [|f IH]; intros stack visited l H u Hu; [discriminate|].
  rewrite closure_S in H. destruct stack as [|s rest].
  - injection H as <-. left. exact Hu.
  - destruct (new_of_spec visited (direct_supers w s)) as [N1 _].
    destruct (IH _ _ _ H u Hu) as [Hv|[s' [Hs' Hr]]].
    + apply in_app_or in Hv. destruct Hv as [Hv|Hv]; [left; exact Hv|].
      right. exists s. split; [left; reflexivity|]. apply reach_step. apply N1. exact Hv.
    + right. apply in_app_or in Hs'. destruct Hs' as [Hn|Hr'].
      * exists s. split; [left; reflexivity|].
        eapply reach_trans; [apply reach_step; apply N1; exact Hn|exact Hr].
      * exists s'. split; [right; exact Hr'|exact Hr].
Qed.

Lemma get_supertypes_eq : forall w t, get_supertypes w t = closure w closure_fuel [t] [t].
Proof. intros. unfold get_supertypes. reflexivity. Qed.

Lemma get_supertypes_sound_lemma : forall w t l, get_supertypes w t = Some l ->
  forall u, In u l -> Reach w t u.
Proof.
  intros w t l H u Hu. rewrite get_supertypes_eq in H.
  destruct (closure_sound_lemma _ _ _ _ _ H u Hu) as [[<-|[]]|[s [[<-|[]] Hr]]].
  - apply reach_refl.
  - exact Hr.
Qed.

(* the result contains visited and is closed under direct supertypes up to == *)
Lemma closure_closed : forall w f stack visited r, closure w f stack visited = Some r ->
  (forall x, In x visited -> In x stack \/ forall u, In u (direct_supers w x) -> memb u visited = true) ->
  incl visited r /\
  (forall x, In x r -> forall u, In u (direct_supers w x) -> memb u r = true).
Proof.
  intros w f. induction f as [|f IH]; intros stack visited r H Hinv; [discriminate|].
  rewrite closure_S in H. destruct stack as [|s rest].
  - injection H as <-. split; [apply incl_refl|].
    intros x Hx. destruct (Hinv x Hx) as [[]|Hc]. exact Hc.
  - destruct (new_of_spec visited (direct_supers w s)) as [_ N2].
    destruct (IH _ _ _ H) as [I1 I2].
    + intros x Hx. apply in_app_or in Hx. destruct Hx as [Hx|Hx].
      * destruct (Hinv x Hx) as [[<-|Hr]|Hc].
        -- right. exact N2.
        -- left. apply in_or_app. right. exact Hr.
        -- right. intros u Hu. apply memb_app_l. auto.
      * left. apply in_or_app. left. exact Hx.
    + split; [|exact I2]. intros x Hx. apply I1. apply in_or_app. left. exact Hx.
Qed.

Lemma get_supertypes_closed : forall w s r, get_supertypes w s = Some r ->
  In s r /\ (forall x, In x r -> forall u, In u (direct_supers w x) -> memb u r = true).
Proof.
  intros w s r H. rewrite get_supertypes_eq in H.
  destruct (closure_closed w _ _ _ _ H) as [I1 I2].
  - intros x [<-|[]]. left. left. reflexivity.
  - split; [apply I1; left; reflexivity|exact I2].
Qed.

Lemma get_supertypes_self_lemma : forall w t l, get_supertypes w t = Some l -> In t l.
Proof. intros w t l H. apply (get_supertypes_closed w t l H). Qed.

(* ==================== T7 ==================== *)
(* substitution respects == of the substituted values *)
Definition val_eqv (p q : ty * ty) : Prop := fst p = fst q /\ py_eqb (snd p) (snd q) = true.

Lemma combine_eqv : forall ks l m, py_eqb_list l m = true ->
  Forall2 val_eqv (combine ks l) (combine ks m).
Proof.
  induction ks as [|k ks IH]; intros [|a l] [|b m] H; cbn in *; try discriminate; try constructor.
  - split_andb. split; [reflexivity|assumption].
  - split_andb. auto.
Qed.

Lemma Forall2_rev' : forall (A B : Type) (R : A -> B -> Prop) l l',
  Forall2 R l l' -> Forall2 R (rev l) (rev l').
Proof.
  intros A B R l l' H. induction H; cbn; [constructor|].
  apply Forall2_app; [assumption|]. constructor; [assumption|constructor].
Qed.

Lemma mk_map_eqv : forall ks l m, py_eqb_list l m = true -> Forall2 val_eqv (mk_map ks l) (mk_map ks m).
Proof. intros. unfold mk_map. apply Forall2_rev'. apply combine_eqv. assumption. Qed.

Lemma lookup_eqv : forall m m', Forall2 val_eqv m m' -> forall t,
  match lookup_sub m t, lookup_sub m' t with
  | Some r, Some r' => py_eqb r r' = true
  | None, None => True
  | _, _ => False
  end.
Proof.
  intros m m' H t. induction H as [|[k r] [k' r'] m m' [E1 E2] Hm IH]; cbn in *; [exact I|].
  subst k'. destruct (py_eqb k t); [exact E2|exact IH].
Qed.

Lemma subst_eqv : forall c m m', Forall2 val_eqv m m' ->
  forall s, py_eqb (subst c m s) (subst c m' s) = true.
Proof.
  intros c m m' Hm.
  assert (HV : forall x v ob,
             (forall b, ob = Some b -> py_eqb (subst c m b) (subst c m' b) = true) ->
             py_eqb (subst c m (TVar x v ob)) (subst c m' (TVar x v ob)) = true).
  { intros x v ob IH. rewrite !subst_var_eq.
    assert (Hk : py_eqb
                   match ob with Some b => TVar x v (Some (subst c m b)) | None => TVar x v ob end
                   match ob with Some b => TVar x v (Some (subst c m' b)) | None => TVar x v ob end = true).
    { destruct ob as [b|]; [|apply py_eqb_refl].
      rewrite py_eqb_var, Nat.eqb_refl, var_eqb_refl. cbn. auto. }
    pose proof (lookup_eqv m m' Hm (TVar x v ob)) as HL.
    destruct (lookup_sub m (TVar x v ob)) as [r|], (lookup_sub m' (TVar x v ob)) as [r'|];
      try contradiction; [|exact Hk].
    rewrite (py_eqb_has_tv _ _ HL). destruct (c && has_tv r'); assumption. }
  apply ty_ind'; intros; try apply py_eqb_refl.
  - cbn [subst]. rewrite py_eqb_app, Nat.eqb_refl. cbn [andb].
    induction H as [|a l Ha Hl IH]; cbn; [reflexivity|]. rewrite Ha, IH. reflexivity.
  - apply HV. intros b E. discriminate.
  - apply HV. intros b' E. injection E as <-. assumption.
  - cbn [subst]. rewrite py_eqb_wild, var_eqb_refl. cbn. assumption.
Qed.

(* one step of the supertypes attribute respects == when the primitive flags agree *)
Lemma step_compat : forall w x x' y,
  py_eqb x x' = true -> is_prim x = is_prim x' -> In y (direct_supers w x) ->
  exists y', In y' (direct_supers w x') /\ py_eqb y y' = true.
Proof.
  intros w x x' y E P Hy.
  destruct x; destruct x'; try discriminate; cbn [direct_supers] in *; try contradiction.
  - cbn in E, P. eqb_subst. exists y. split; [assumption|apply py_eqb_refl].
  - cbn in E. eqb_subst. exists y. split; [assumption|apply py_eqb_refl].
  - rewrite py_eqb_app in E. split_andb. eqb_subst.
    destruct (find_class w c0) as [d|]; [|contradiction].
    apply in_map_iff in Hy. destruct Hy as [s [<- Hs]].
    exists (if is_app s then subst true (mk_map (c_params d) args0) s else s). split.
    + apply in_map_iff. exists s. split; [reflexivity|assumption].
    + destruct (is_app s); [|apply py_eqb_refl]. apply subst_eqv. apply mk_map_eqv. assumption.
  - cbn in E. eqb_subst. exists y. split; [assumption|apply py_eqb_refl].
Qed.

Lemma find_nat_in : forall A (l : list (nat * A)) k a, find_nat l k = Some a -> In (k, a) l.
Proof.
  induction l as [|[k' a'] l IH]; cbn; intros k a H; [discriminate|].
  destruct (Nat.eqb k' k) eqn:E.
  - apply Nat.eqb_eq in E. injection H as <-. subst. left. reflexivity.
  - right. auto.
Qed.

Lemma declared_super_not_prim : forall w c d s, no_prim_supers w = true ->
  find_class w c = Some d -> In s (c_supers d) -> is_prim s = false.
Proof.
  intros w c d s Hnp Hd Hs. unfold no_prim_supers in Hnp. rewrite forallb_forall in Hnp.
  apply find_nat_in in Hd. specialize (Hnp _ Hd). cbn in Hnp. rewrite forallb_forall in Hnp.
  apply negb_true_iff. auto.
Qed.

Lemma direct_supers_not_prim : forall w x u, no_prim_supers w = true ->
  In u (direct_supers w x) -> is_prim u = false.
Proof.
  intros w x u Hnp Hu. destruct x; cbn [direct_supers] in Hu; try contradiction.
  - destruct prim; [contradiction|]. destruct (find_builtin w b); [|contradiction].
    apply in_map_iff in Hu. destruct Hu as [s [<- _]]. reflexivity.
  - destruct (find_class w c) as [d|] eqn:Hd; [|contradiction]. eapply declared_super_not_prim; eauto.
  - destruct (find_class w c) as [d|] eqn:Hd; [|contradiction].
    apply in_map_iff in Hu. destruct Hu as [s [<- Hs]].
    destruct (is_app s) eqn:Ea; [destruct s; try discriminate; reflexivity|].
    eapply declared_super_not_prim; eauto.
  - destruct (find_class w c) as [d|] eqn:Hd; [|contradiction]. eapply declared_super_not_prim; eauto.
Qed.

Lemma reach_not_prim : forall w t u, no_prim_supers w = true -> Reach w t u ->
  u = t \/ is_prim u = false.
Proof.
  intros w t u Hnp Hr.
  apply (clos_refl_trans_ind_left ty (super_step w) t (fun u => u = t \/ is_prim u = false));
    [left; reflexivity| |exact Hr].
  intros y z _ _ Hyz. right. eapply direct_supers_not_prim; eauto.
Qed.

Lemma get_supertypes_complete_partial_lemma : forall w t l,
  no_prim_supers w = true -> get_supertypes w t = Some l ->
  forall u, Reach w t u -> exists u', In u' l /\ py_eqb u u' = true.
Proof.
  intros w t l Hnp H u Hr.
  destruct (get_supertypes_closed w t l H) as [Ht Hc].
  destruct (is_prim t) eqn:Ep.
  - (* a primitive built-in has no supertypes *)
    assert (u = t).
    { apply clos_rt_rt1n in Hr. destruct Hr as [|y z Hy _]; [reflexivity|].
      destruct t; try discriminate. cbn in Ep. subst. contradiction Hy. }
    subst u. exists t. split; [assumption|apply py_eqb_refl].
  - assert (Hall : forall z, Reach w t z -> is_prim z = false).
    { intros z Hz. destruct (reach_not_prim w t z Hnp Hz) as [->|]; assumption. }
    apply (clos_refl_trans_ind_left ty (super_step w) t
             (fun u => exists u', In u' l /\ py_eqb u u' = true)); [| |exact Hr].
    + exists t. split; [assumption|apply py_eqb_refl].
    + intros y z Hty [y' [Hy' Ey]] Hyz.
      assert (P1 : is_prim y = false) by auto.
      assert (P2 : is_prim y' = false) by (apply Hall; eapply get_supertypes_sound_lemma; eauto).
      destruct (step_compat w y y' z Ey) as [z' [Hz' Ez]]; [congruence|exact Hyz|].
      pose proof (Hc y' Hy' z' Hz') as Hm. apply memb_ex in Hm. destruct Hm as [z'' [Hz'' Ez']].
      exists z''. split; [assumption|]. eapply py_eqb_trans; eauto.
Qed.

Lemma boxed_not_prim : forall s, boxed s = true -> is_prim s = false.
Proof. intros s H. destruct s; try reflexivity. cbn in *. apply negb_true_iff. assumption. Qed.

Lemma boxed_table_no_prim_supers : forall w, boxed_table w = true -> no_prim_supers w = true.
Proof.
  intros w H. unfold boxed_table in H. unfold no_prim_supers.
  rewrite forallb_forall in *. intros cd Hcd. specialize (H cd Hcd). split_andb.
  rewrite forallb_forall in *. intros s Hs. apply negb_true_iff. apply boxed_not_prim. auto.
Qed.

Lemma get_supertypes_complete_boxed_lemma : forall w t l,
  boxed_table w = true -> get_supertypes w t = Some l ->
  forall u, Reach w t u -> exists u', In u' l /\ py_eqb u u' = true.
Proof.
  intros w t l H. apply get_supertypes_complete_partial_lemma. apply boxed_table_no_prim_supers. exact H.
Qed.

(* class 1 : int (primitive), Integer (boxed); Integer : Number.  The boxed Integer is == to
   the primitive one that was visited first, so it is never expanded and Number is missed *)
Definition refute7_world : world :=
  {| w_ct := [ (1, {| c_params := []; c_supers := [TBuiltin 5 true; TBuiltin 5 false] |}) ];
     w_bt := [ (5, {| b_supers := [6]; b_bottom := false; b_assign := []; b_has_prim := true |});
               (6, {| b_supers := []; b_bottom := false; b_assign := []; b_has_prim := false |}) ];
     w_array := None |}.

Lemma get_supertypes_complete_refuted_lemma :
  exists w t l u,
    get_supertypes w t = Some l /\ Reach w t u /\ forall u', In u' l -> py_eqb u u' = false.
Proof.
  exists refute7_world, (TClass 1), [TClass 1; TBuiltin 5 true], (TBuiltin 6 false).
  split; [vm_compute; reflexivity|]. split.
  - eapply reach_trans; [apply (reach_step _ _ (TBuiltin 5 false))|apply reach_step];
      vm_compute; auto.
  - intros u' [<-|[<-|[]]]; reflexivity.
Qed.
