(* Types/ProjFragC.v -- additional predicates for the converse direction (a False answer is
   exact) on the projection fragment.  Definitions only. *)
From Coq Require Import List Arith Bool.
Import ListNotations.
From Heph Require Import Types.Syntax Types.Subst Types.Subtype Types.Decl Types.TableOk Types.ProjFrag.

Section W.
  Context (w : world).

  (* no bottom type (types.Nothing, a bottom built-in such as Kotlin's Nothing) anywhere *)
  Fixpoint solid (t : ty) : bool :=
    match t with
    | TBuiltin b _ => negb (is_bottom_builtin w b)
    | TNothing => false
    | TApp _ l => forallb solid l
    | TVar _ _ (Some b) => solid b
    | TWild _ (Some b) => solid b
    | _ => true
    end.

  (* declared supertypes of classes mention no bottom type *)
  Definition supers_solid : bool :=
    forallb (fun cd => forallb solid (c_supers (snd cd))) (w_ct w).

  (* the head of a type is a class, an instantiation or a built-in other than a bottom one *)
  Definition headok (t : ty) : bool :=
    match t with
    | TBuiltin b _ => negb (is_bottom_builtin w b)
    | TClass _ | TApp _ _ => true
    | _ => false
    end.
End W.
