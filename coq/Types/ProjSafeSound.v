(* Types/ProjSafeSound.v -- soundness of a positive answer of is_subtype on the projection
   fragment under the per-type condition safe_all (Types/ProjSafe.v) instead of the table-wide
   params_direct. *)
From Coq Require Import List Arith Bool Lia.
Import ListNotations.
From Heph Require Import Types.Syntax Types.Subst Types.Subtype Types.Decl Types.TableOk
  Types.Judge Types.PFBase Types.SubtypePF Types.ProjFrag Types.ProjSound Types.ProjSafe.

Lemma safe_all_app : forall w c l, safe_all w (TApp c l) =
  match find_class w c with
  | None => False
  | Some d => args_safe w (safe_all w) c (c_params d) l
  end.
Proof. reflexivity. Qed.

Lemma args_safe_cons : forall w sa c prm ps a l,
  args_safe w sa c (prm :: ps) (a :: l) = (arg_safe w sa c prm a /\ args_safe w sa c ps l).
Proof. reflexivity. Qed.

Lemma psafe_inv : forall w c prm v, psafe w c prm v ->
  exists d, find_class w c = Some d /\
    forall e es, In (TApp e es) (c_supers d) ->
      exists de, find_class w e = Some de /\
        forall q x, In (q, x) (combine (c_params de) es) ->
          (py_eqb x prm = true /\ compat q v = true /\ psafe w e q v) \/ occurs_nb prm x = false.
Proof.
  intros w c prm v [f H]. destruct f as [|f]; [discriminate|]. cbn [psafeb] in H.
  destruct (find_class w c) as [d|]; [|discriminate]. exists d. split; [reflexivity|].
  intros e es Hin. pose proof (forallb_In _ _ _ _ H Hin) as H1. cbn beta iota in H1.
  destruct (find_class w e) as [de|]; [|discriminate]. exists de. split; [reflexivity|].
  intros q x Hqx. pose proof (forallb_In _ _ _ _ H1 Hqx) as H2. cbn [fst snd] in H2.
  destruct (py_eqb x prm) eqn:E.
  - left. apply andb_prop in H2. destruct H2 as [H2 H3]. repeat split; auto. exists f. exact H3.
  - right. apply negb_true_iff in H2. exact H2.
Qed.

Lemma safe_allb_safe_all : forall w n t, safe_allb w n t = true -> safe_all w t.
Proof.
  intros w n.
  assert (H : forall t, (safe_allb w n t = true -> safe_all w t) /\
                        (match t with TWild _ (Some b) => safe_allb w n b = true -> safe_all w b | _ => True end)).
  { apply ty_ind'; intros; split; try exact I; try (intros; exact I); auto.
    - cbn [safe_allb safe_all]. destruct (find_class w c) as [d|]; [|discriminate].
      generalize (c_params d). induction H as [|a l Ha Hl IH]; intros ps Hs; [exact I|].
      destruct ps as [|prm ps]; [exact I|].
      apply andb_prop in Hs. destruct Hs as [S1 S2]. split; [|apply IH; exact S2].
      destruct Ha as [A1 A2].
      destruct a as [b pr|c'|c' l'|c'|x v ob|v ob| |i u lo]; try (apply A1; exact S1).
      destruct ob as [b|]; [|apply A1; exact S1].
      apply andb_prop in S1. destruct S1 as [S0 S1]. split; [exists n; exact S0|apply A2; exact S1].
    - apply H. }
  intros t. apply H.
Qed.

Lemma args_safe_in : forall w sa c ps l prm a, args_safe w sa c ps l -> In (prm, a) (combine ps l) ->
  arg_safe w sa c prm a.
Proof.
  intros w sa c ps l. revert ps. induction l as [|x l IH]; intros ps prm a H Hin.
  - destruct ps; contradiction.
  - destruct ps as [|p ps]; [contradiction|]. rewrite args_safe_cons in H. destruct H as [H1 H2].
    destruct Hin as [E|Hin]; [injection E as <- <-; exact H1|]. eapply IH; eauto.
Qed.

Lemma good1_safe_all : forall w t, good1 w t = true -> safe_all w t.
Proof.
  intros w. apply (ty_ind' (fun t => good1 w t = true -> safe_all w t)); intros; try exact I.
  destruct (good1_args _ _ _ H0) as [d [Hd [Hl [Hp Ha]]]].
  rewrite safe_all_app, Hd. generalize (c_params d). clear Hd Hl H0.
  induction H as [|a l Hx Hfl IH]; intros ps; [exact I|].
  destruct ps as [|prm ps]; [exact I|]. rewrite args_safe_cons.
  cbn in Hp, Ha. apply andb_prop in Hp. destruct Hp as [Hp1 Hp2].
  apply andb_prop in Ha. destruct Ha as [Ha1 Ha2]. split; [|apply IH; auto].
  assert (Sa : safe_all w a) by (apply Hx; unfold good1; rewrite Hp1, Ha1; reflexivity).
  destruct a; try exact Sa; discriminate.
Qed.

Lemma lookup_some_key : forall m x r, lookup_sub m x = Some r -> exists k, In (k, r) m /\ py_eqb k x = true.
Proof.
  induction m as [|[k v] m IH]; cbn; intros x r H; [discriminate|].
  destruct (py_eqb k x) eqn:E.
  - injection H as <-. exists k. auto.
  - destruct (IH x r H) as [k' [Hin He]]. exists k'. auto.
Qed.

Lemma lookup_pos : forall ps l x r, lookup_sub (mk_map ps l) x = Some r ->
  exists prm, In (prm, r) (combine ps l) /\ py_eqb prm x = true.
Proof.
  intros ps l x r H. destruct (lookup_some_key _ _ _ H) as [k [Hin He]].
  exists k. split; [|exact He]. unfold mk_map in Hin. apply in_rev in Hin. exact Hin.
Qed.

Lemma mentions_self : forall prm x, py_eqb prm x = true -> occurs_nb prm x = true.
Proof. intros prm x H. destruct x; cbn; rewrite H; reflexivity. Qed.

Lemma mentions_app_arg : forall prm e es y, occurs_nb prm (TApp e es) = false -> In y es -> occurs_nb prm y = false.
Proof.
  intros prm e es y H Hin. cbn [occurs_nb] in H. apply orb_false_iff in H. destruct H as [_ H].
  destruct (occurs_nb prm y) eqn:E; [|reflexivity].
  assert (X : existsb (occurs_nb prm) es = true) by (apply existsb_exists; eauto). congruence.
Qed.

Lemma args_ok_all_frag : forall w qs L, (forall a, In a L -> frag w a = true) -> args_ok (frag w) qs L = true.
Proof.
  intros w qs L. revert qs. induction L as [|a L IH]; intros qs H; [reflexivity|].
  destruct qs as [|q qs]; [reflexivity|]. rewrite args_ok_cons.
  rewrite arg_ok_plain; [|eapply frag_not_wild; apply H; left; reflexivity].
  rewrite (H a (or_introl eq_refl)). cbn [andb]. apply IH. intros x Hx. apply H. right. exact Hx.
Qed.

Lemma arg_safe_plain : forall w c prm a, frag w a = true -> safe_all w a -> arg_safe w (safe_all w) c prm a.
Proof. intros w c prm a Fa Sa. destruct a; try exact Sa; discriminate. Qed.

Lemma args_safe_all : forall w c qs L, (forall a, In a L -> frag w a = true /\ safe_all w a) ->
  args_safe w (safe_all w) c qs L.
Proof.
  intros w c qs L. revert qs. induction L as [|a L IH]; intros qs H; [exact I|].
  destruct qs as [|q qs]; [exact I|]. rewrite args_safe_cons. split.
  - destruct (H a (or_introl eq_refl)). apply arg_safe_plain; auto.
  - apply IH. intros x Hx. apply H. right. exact Hx.
Qed.

Lemma py_eqb_tvar_left : forall x prm, py_eqb x prm = true -> is_tvar_term prm = true -> is_tvar_term x = true.
Proof. intros x prm H Hp. destruct prm; try discriminate. destruct x; try discriminate. reflexivity. Qed.

Section StepSafe.
  Variable w : world.
  Hypothesis Hok : table_ok w = true.
  Variables (c : nat) (d : cdecl) (l l' : list ty).
  Hypothesis Hd : find_class w c = Some d.
  Hypothesis Hk : captl w (c_params d) l l'.
  Hypothesis Hsafe : args_safe w (safe_all w) c (c_params d) l.

  Let ps := c_params d.
  Let m := mk_map ps l.
  Let m' := mk_map ps l'.

  Definition wild_free (x : ty) : Prop :=
    forall prm1 v u, In (prm1, TWild v (Some u)) (combine ps l) -> occurs_nb prm1 x = false.

  Lemma lookup_facts : forall x, memb x ps = true ->
    exists r r' prm1 prm0, lookup_sub m x = Some r /\ lookup_sub m' x = Some r' /\
      In (prm1, r) (combine ps l) /\ py_eqb prm1 x = true /\ capt1 w prm0 r r' /\ has_tv r = false.
  Proof.
    intros x Hm. destruct (captl_len _ _ _ _ Hk) as [L1 L2].
    destruct (lookup_mk_map ps l x Hm (eq_sym L1)) as [r [Hr _]].
    destruct (lookup_pos ps l x r Hr) as [prm1 [Hin He]].
    destruct (lookup_capt w ps l l' Hk x) as [_ I2]. destruct (I2 r Hr) as [prm0 [r' [_ [Hr' Hc]]]].
    exists r, r', prm1, prm0. repeat split; auto.
    exact (arg_no_tv w prm0 r (capt1_arg_ok w prm0 r r' Hc)).
  Qed.

  Lemma nomention : forall x, over_params ps x = true -> arity_ok w x = true -> wild_free x ->
    subst true m x = subst false m' x /\ frag w (subst true m x) = true /\ safe_all w (subst true m x).
  Proof.
    apply (ty_ind' (fun x => over_params ps x = true -> arity_ok w x = true -> wild_free x ->
      subst true m x = subst false m' x /\ frag w (subst true m x) = true /\ safe_all w (subst true m x)));
      intros; try discriminate.
    - cbn. repeat split.
    - cbn [subst]. repeat split. exact H0.
    - rename H into IH, H0 into Ho, H1 into Ha, H2 into Hw. cbn [over_params] in Ho. cbn [arity_ok] in Ha.
      destruct (find_class w c0) as [de|] eqn:Hde; [|discriminate].
      apply andb_prop in Ha. destruct Ha as [Ha Hes]. apply andb_prop in Ha. destruct Ha as [Hle _].
      apply Nat.eqb_eq in Hle.
      assert (Hall : forall y, In y l0 -> subst true m y = subst false m' y /\ frag w (subst true m y) = true /\
                                          safe_all w (subst true m y)).
      { intros y Hy. rewrite Forall_forall in IH. apply (IH y Hy).
        - apply (forallb_In _ _ _ _ Ho Hy).
        - apply (forallb_In _ _ _ _ Hes Hy).
        - intros prm1 v u Hin. eapply mentions_app_arg; [eapply Hw; eauto|exact Hy]. }
      cbn [subst]. split; [|split].
      + f_equal. apply map_ext_in. intros y Hy. apply (Hall y Hy).
      + rewrite frag_app, Hde, map_length, Hle, Nat.eqb_refl. cbn [andb]. apply args_ok_all_frag.
        intros a Hin. apply in_map_iff in Hin. destruct Hin as [y [<- Hy]]. apply (Hall y Hy).
      + rewrite safe_all_app, Hde. apply args_safe_all.
        intros a Hin. apply in_map_iff in Hin. destruct Hin as [y [<- Hy]]. destruct (Hall y Hy) as [_ [F S]]. auto.
    - destruct (lookup_facts (TVar x v None) H) as [r [r' [prm1 [prm0 [Hr [Hr' [Hin [He [Hc Hnt]]]]]]]]].
      cbn [subst]. rewrite Hr, Hr', Hnt. cbn [andb].
      destruct Hc as [prm a Fa|prm u j _ Fu|prm u j _ Fu].
      + repeat split; auto. pose proof (args_safe_in w _ c ps l prm1 a Hsafe Hin) as Sa.
        destruct a; try exact Sa; discriminate.
      + pose proof (H1 prm1 Cov u Hin) as X. rewrite (mentions_self _ _ He) in X. discriminate.
      + pose proof (H1 prm1 Contra u Hin) as X. rewrite (mentions_self _ _ He) in X. discriminate.
    - destruct (lookup_facts (TVar x v (Some b)) H0) as [r [r' [prm1 [prm0 [Hr [Hr' [Hin [He [Hc Hnt]]]]]]]]].
      cbn [subst]. rewrite Hr, Hr', Hnt. cbn [andb].
      destruct Hc as [prm a Fa|prm u j _ Fu|prm u j _ Fu].
      + repeat split; auto. pose proof (args_safe_in w _ c ps l prm1 a Hsafe Hin) as Sa.
        destruct a; try exact Sa; discriminate.
      + pose proof (H2 prm1 Cov u Hin) as X. rewrite (mentions_self _ _ He) in X. discriminate.
      + pose proof (H2 prm1 Contra u Hin) as X. rewrite (mentions_self _ _ He) in X. discriminate.
  Qed.

  Lemma pos_safe : forall e es de q x, In (TApp e es) (c_supers d) -> find_class w e = Some de ->
    In (q, x) (combine (c_params de) es) -> over_params ps x = true -> arity_ok w x = true ->
    capt1 w q (subst true m x) (subst false m' x) /\ arg_safe w (safe_all w) e q (subst true m x).
  Proof.
    intros e es de q x Hs0 Hde Hqx Ho Ha.
    assert (Hinv : forall prm1 v, psafe w c prm1 v ->
              (py_eqb x prm1 = true /\ compat q v = true /\ psafe w e q v) \/ occurs_nb prm1 x = false).
    { intros prm1 v Hp. destruct (psafe_inv w c prm1 v Hp) as [d0 [Hd0 Hall]].
      rewrite Hd in Hd0. injection Hd0 as <-. destruct (Hall e es Hs0) as [de0 [Hde0 Hpos]].
      rewrite Hde in Hde0. injection Hde0 as <-. apply Hpos. exact Hqx. }
    destruct (is_tvar_term x) eqn:Ht.
    - assert (Hm : memb x ps = true) by (destruct x; try discriminate; exact Ho).
      destruct (lookup_facts x Hm) as [r [r' [prm1 [prm0 [Hr [Hr' [Hin [He [Hc Hnt]]]]]]]]].
      assert (E1 : subst true m x = r).
      { destruct x; try discriminate. cbn [subst]. fold m. rewrite Hr, Hnt. reflexivity. }
      assert (E2 : subst false m' x = r').
      { destruct x; try discriminate. cbn [subst]. fold m'. rewrite Hr'. reflexivity. }
      rewrite E1, E2. pose proof (args_safe_in w _ c ps l prm1 r Hsafe Hin) as Sr.
      destruct Hc as [prm a Fa|prm u j _ Fu|prm u j _ Fu].
      + split; [constructor; exact Fa|]. apply arg_safe_plain; auto. destruct a; try exact Sr; discriminate.
      + cbn [arg_safe] in Sr. destruct Sr as [Sp Su].
        destruct (Hinv prm1 Cov Sp) as [[_ [Hcq Hps]]|Hn].
        * split; [constructor; assumption|]. cbn [arg_safe]. auto.
        * rewrite (mentions_self _ _ He) in Hn. discriminate.
      + cbn [arg_safe] in Sr. destruct Sr as [Sp Su].
        destruct (Hinv prm1 Contra Sp) as [[_ [Hcq Hps]]|Hn].
        * split; [constructor; assumption|]. cbn [arg_safe]. auto.
        * rewrite (mentions_self _ _ He) in Hn. discriminate.
    - assert (Hwf : wild_free x).
      { intros prm1 v u Hin. pose proof (args_safe_in w _ c ps l prm1 _ Hsafe Hin) as Sr.
        cbn [arg_safe] in Sr. destruct Sr as [Sp _].
        destruct (Hinv prm1 v Sp) as [[E _]|Hn]; [|exact Hn]. exfalso.
        destruct (tok_params w Hok c d Hd) as [Htv _].
        pose proof (forallb_In _ _ _ _ Htv (in_combine_l _ _ _ _ Hin)) as Hp.
        rewrite (py_eqb_tvar_left x prm1 E Hp) in Ht. discriminate. }
      destruct (nomention x Ho Ha Hwf) as [E [F S]]. rewrite <- E.
      split; [constructor; exact F|apply arg_safe_plain; auto].
  Qed.

  Lemma pos_list : forall e (f g : ty -> ty) es qs,
    (forall q x, In (q, x) (combine qs es) -> capt1 w q (f x) (g x) /\ arg_safe w (safe_all w) e q (f x)) ->
    length es = length qs ->
    captl w qs (map f es) (map g es) /\ args_safe w (safe_all w) e qs (map f es).
  Proof.
    intros e f g es. induction es as [|x es IH]; intros qs H Hl.
    - destruct qs; [|discriminate]. split; [constructor|exact I].
    - destruct qs as [|q qs]; [discriminate|]. cbn [map].
      destruct (H q x (or_introl eq_refl)) as [H1 H2].
      destruct (IH qs) as [I1 I2]; [intros q0 x0 Hin; apply H; right; exact Hin|cbn in Hl; lia|].
      split; [constructor; assumption|]. rewrite args_safe_cons. auto.
  Qed.

  Lemma step_app_safe : forall u, In u (direct_supers w (TApp c l)) ->
    frag w u = true /\ safe_all w u /\ exists u', Capt w u u' /\ lifts w u' (TApp c l').
  Proof.
    intros u Hin. cbn [direct_supers] in Hin. rewrite Hd in Hin.
    apply in_map_iff in Hin. destruct Hin as [s0 [Eu Hs0]].
    destruct (tok_super w Hok c d s0 Hd Hs0) as [Ho [Ha [_ [_ [Hnv _]]]]].
    destruct (captl_len _ _ _ _ Hk) as [L1 L2].
    assert (Hup : forall u', inst_super d l' s0 = u' -> lifts w u' (TApp c l')).
    { intros u' E t Hu q. eapply A_AppUp; eauto. rewrite (captl_open _ _ _ _ Hk), E. apply Hu. }
    destruct s0 as [b pr|k|e es|k|x v ob|v ob| |i uu lo]; try discriminate; cbn [is_app] in Eu; subst u.
    - split; [reflexivity|]. split; [exact I|]. exists (TBuiltin b pr). split; [reflexivity|]. apply Hup. reflexivity.
    - split; [exact Ha|]. split; [exact I|]. exists (TClass k). split; [reflexivity|]. apply Hup. reflexivity.
    - pose proof Ha as Ha0. cbn [arity_ok] in Ha. cbn [over_params] in Ho.
      destruct (find_class w e) as [de|] eqn:Hde; [|discriminate].
      apply andb_prop in Ha. destruct Ha as [Ha Hes]. apply andb_prop in Ha. destruct Ha as [Hle _].
      apply Nat.eqb_eq in Hle.
      destruct (pos_list e (subst true m) (subst false m') es (c_params de)) as [Hk2 Hs2]; auto.
      { intros q x Hqx. pose proof (in_combine_r _ _ _ _ Hqx) as Hx.
        apply (pos_safe e es de q x Hs0 Hde Hqx); [apply (forallb_In _ _ _ _ Ho Hx)|apply (forallb_In _ _ _ _ Hes Hx)]. }
      cbn [subst]. fold ps. fold m. split; [eapply capt_frag_app; eauto|]. split.
      + rewrite safe_all_app, Hde. exact Hs2.
      + exists (TApp e (map (subst false m') es)). split.
        * exists de, (map (subst false m') es). auto.
        * apply Hup. reflexivity.
  Qed.
End StepSafe.

(* ---------- the fragment with the per-type condition; steps and reachability ---------- *)
Definition sfrag (w : world) (t : ty) : Prop := frag w t = true /\ safe_all w t.

Lemma arg_safe_nonwild : forall w c prm a, frag w a = true -> arg_safe w (safe_all w) c prm a -> safe_all w a.
Proof. intros w c prm a Fa H. destruct a; try exact H; discriminate. Qed.

Section ReachSafe.
  Variable w : world.
  Hypothesis Hok : table_ok w = true.

  Lemma step_sfrag : forall s s' u, sfrag w s -> Capt w s s' -> In u (direct_supers w s) ->
    sfrag w u /\ exists u', Capt w u u' /\ lifts w u' s'.
  Proof.
    intros s s' u [Fs Ss] Hk Hin. destruct (is_app s) eqn:Happ.
    - destruct s as [| |c l| | | | |]; try discriminate.
      destruct Hk as [d [l' [Hd [-> Hk]]]]. rewrite safe_all_app, Hd in Ss.
      destruct (step_app_safe w Hok c d l l' Hd Hk Ss u Hin) as [Fu [Su Hu]]. split; [split; auto|exact Hu].
    - pose proof (frag_nonapp_good1 w s Fs Happ) as Hg.
      assert (s' = s) by (destruct s; try discriminate; exact Hk). subst s'.
      pose proof (direct_supers_good1 w Hok s u Hg Hin) as Hgu.
      split; [split; [apply good1_frag; exact Hgu|apply good1_safe_all; exact Hgu]|].
      exists u. split; [apply Capt_good1; exact Hgu|].
      intros t Hu q. eapply step_suba; eauto.
  Qed.

  Lemma reach_sfrag : forall s u, reach w s u -> forall s', sfrag w s -> Capt w s s' ->
    sfrag w u /\ exists u', Capt w u u' /\ lifts w u' s'.
  Proof.
    intros s u H. induction H as [s|s x u Hx Hr IH]; intros s' Hf Hk.
    - split; [exact Hf|]. exists s'. split; [exact Hk|]. intros t Hu. exact Hu.
    - destruct (step_sfrag s s' x Hf Hk Hx) as [Fx [x' [Kx Lx]]].
      destruct (IH x' Fx Kx) as [Fu [u' [Ku Lu]]].
      split; [exact Fu|]. exists u'. split; [exact Ku|]. intros t Hu. apply Lx. apply Lu. exact Hu.
  Qed.

  Section Rec.
    Variable rec : ty -> ty -> res.
    Hypothesis rec_capt : forall a b, sfrag w a -> sfrag w b -> rec a b = Rt ->
                                      forall a' q, Capt w a a' -> SubA w q a' b.

    Lemma rec_sound' : forall a b, sfrag w a -> sfrag w b -> rec a b = Rt -> forall q, SubA w q a b.
    Proof.
      intros a b Sa Sb H q. pose proof Sa as [Fa _]. pose proof Sb as [Fb _].
      apply capt_self; [exact Fa|exact (frag_not_cap w b Fb)|].
      intros a' q' Hk. exact (rec_capt a b Sa Sb H a' q' Hk).
    Qed.

    Lemma contained_sound' : forall c1 c2 prm a a' b q, capt1 w prm a a' ->
      arg_safe w (safe_all w) c1 prm a ->
      arg_ok (frag w) prm b = true -> arg_safe w (safe_all w) c2 prm b ->
      contained_m rec a b prm = Rt -> Cont1 w q prm a' b.
    Proof.
      intros c1 c2 prm a a' b q Hk Sa Hb Sb H.
      destruct Hk as [prm a Fa|prm u j Hc Fu|prm u j Hc Fu];
        destruct (arg_ok_cases w prm b Hb) as [[Wb Fb]|[[ub [-> [Hcb Fub]]]|[ub [-> [Hcb Fub]]]]];
        try (apply arg_safe_nonwild in Sa; [|assumption]);
        try (apply arg_safe_nonwild in Sb; [|assumption]);
        cbn [arg_safe] in Sa, Sb; try (destruct Sa as [_ Sa]); try (destruct Sb as [_ Sb]).
      - pose proof (frag_not_wild _ _ Fa) as Wa. rewrite (contained_plain rec a b prm Wa Wb) in H.
        destruct (tvar_variance prm) eqn:Hv.
        + apply ofb_rt in H. apply C_Inv; auto.
        + apply C_Cov; auto. apply rec_sound'; auto; split; auto.
        + apply C_Contra; auto. apply rec_sound'; auto; split; auto.
      - pose proof (frag_not_wild _ _ Fa) as Wa. unfold contained_m in H. rewrite Wa in H. cbn in H.
        apply C_Out. apply rec_sound'; auto; split; auto.
      - pose proof (frag_not_wild _ _ Fa) as Wa. unfold contained_m in H. rewrite Wa in H. cbn in H.
        apply C_In. apply rec_sound'; auto; split; auto.
      - unfold contained_m in H. rewrite Wb in H. cbn in H. unfold compat in Hc.
        destruct (tvar_variance prm) eqn:Hv; try discriminate.
        apply C_Cov; auto. apply A_CapUp. apply rec_sound'; auto; split; auto.
      - cbn in H. apply C_Out. apply A_CapUp. apply rec_sound'; auto; split; auto.
      - cbn in H. discriminate.
      - unfold contained_m in H. rewrite Wb in H. cbn in H. unfold compat in Hc.
        destruct (tvar_variance prm) eqn:Hv; try discriminate.
        apply C_Contra; auto. apply A_CapLow. apply rec_sound'; auto; split; auto.
      - cbn in H. discriminate.
      - cbn in H. apply C_In. apply A_CapLow. apply rec_sound'; auto; split; auto.
    Qed.

    Lemma args_sound' : forall c1 c2 ps l l', captl w ps l l' -> args_safe w (safe_all w) c1 ps l ->
      forall lt q i, args_ok (frag w) ps lt = true -> args_safe w (safe_all w) c2 ps lt ->
      length lt = length ps -> args_m rec ps l lt = Rt -> ContA w q i ps l' lt.
    Proof.
      intros c1 c2 ps l l' Hk. induction Hk as [|prm ps a l a' l' H1 HL IH]; intros Sl lt q i Ha St Hl H.
      - destruct lt; [constructor|discriminate].
      - destruct lt as [|b lt]; [discriminate|]. rewrite args_ok_cons in Ha.
        apply andb_prop in Ha. destruct Ha as [Hb Ha]. cbn [args_m] in H.
        rewrite args_safe_cons in Sl, St. destruct Sl as [Sa Sl]. destruct St as [Sb St].
        destruct (contained_m rec a b prm) eqn:E; try discriminate.
        constructor.
        + eapply contained_sound'; eauto.
        + apply IH; auto.
    Qed.

    Lemma nominal_sound' : forall s t, sfrag w s -> sfrag w t ->
      nominal_m w rec s t = Rt -> forall s' q, Capt w s s' -> SubA w q s' t.
    Proof.
      intros s t Ss St H s' q Hk. pose proof Ss as [Fs _]. pose proof St as [Ft _]. unfold nominal_m in H.
      destruct (py_eqb t s) eqn:E; [exact (suba_pyeq_capt w s t s' q Fs Ft E Hk)|].
      destruct (get_supertypes w s) as [sups|] eqn:Hg; [|discriminate].
      apply rany_rt in H. apply in_map_iff in H. destruct H as [st [Hst Hin]].
      apply filter_In in Hin. destruct Hin as [Hin _].
      pose proof (get_supertypes_sound w s sups Hg st Hin) as Hr.
      destruct (reach_sfrag s st Hr s' Ss Hk) as [Sst [st' [Kst Lst]]].
      apply Lst. intros q'. exact (rec_capt st t Sst St Hst st' q' Kst).
    Qed.
  End Rec.

  Lemma is_subtype_sound_capt' : forall f s t, sfrag w s -> sfrag w t ->
    is_subtype w f s t = Rt -> forall s' q, Capt w s s' -> SubA w q s' t.
  Proof.
    induction f as [|f IH]; intros s t Ss St H s' q Hk; [discriminate|].
    pose proof Ss as [Fs Sas]. pose proof St as [Ft Sat].
    pose proof H as H0. rewrite is_subtype_S in H.
    destruct s as [b pr|c|c args|c|x v ob|v ob| |i uu lo]; try discriminate.
    - cbn in Hk. subst s'.
      destruct (is_bottom_builtin w b) eqn:Hbot; [apply A_BotBuiltin; exact Hbot|].
      assert (Ht : exists b' pr', t = TBuiltin b' pr').
      { destruct (py_eqb t (TBuiltin b pr)) eqn:E.
        - destruct t; try discriminate. eauto.
        - destruct (get_supertypes w (TBuiltin b pr)) as [sups|] eqn:Hg; [|discriminate].
          apply ofb_rt in H. apply memb_ex in H. destruct H as [k [Hin He]].
          pose proof (get_supertypes_sound w _ sups Hg k Hin) as Hr.
          destruct (reach_builtin w _ _ Hr b pr eq_refl) as [bx [prx ->]].
          destruct t; try discriminate. eauto. }
      destruct Ht as [b' [pr' ->]].
      apply (is_subtype_sound_good w Hok (S f) (TBuiltin b pr) (TBuiltin b' pr')); auto.
    - apply (nominal_sound' (is_subtype w f) IH (TClass c) t); auto.
    - destruct (nominal_m w (is_subtype w f) (TApp c args) t) eqn:Hn; try discriminate.
      + apply (nominal_sound' (is_subtype w f) IH (TApp c args) t); auto.
      + destruct t as [| |c' bargs| | | | |]; try discriminate.
        destruct (Nat.eqb c c') eqn:Hc; [|discriminate]. apply Nat.eqb_eq in Hc. subst c'.
        destruct Hk as [d [l' [Hd [-> Hk]]]]. rewrite Hd in H.
        destruct (frag_app_inv w c bargs Ft) as [d' [Hd' [Hl' Ha']]].
        rewrite Hd in Hd'. injection Hd' as <-.
        rewrite safe_all_app, Hd in Sas, Sat.
        destruct (captl_len _ _ _ _ Hk) as [L1 L2].
        eapply A_AppArgs; eauto. rewrite (captl_open _ _ _ _ Hk).
        apply (args_sound' (is_subtype w f) IH c c (c_params d) args l' Hk Sas); auto.
    - cbn in Hk. subst s'. apply A_Nothing.
  Qed.
End ReachSafe.

Lemma is_subtype_sound_safe_lem : forall w fuel n m k1 k2 p s t,
  table_ok w = true ->
  proj_closed s = true -> proj_closed t = true ->
  wf_ty w n s = true -> wf_ty w m t = true ->
  safe_allb w k1 s = true -> safe_allb w k2 t = true ->
  is_subtype w fuel s t = Rt -> SubA w p s t.
Proof.
  intros w fuel n m k1 k2 p s t Hok Ps Pt Ws Wt Ss St H.
  pose proof (wf_frag w n s Ps Ws) as Fs. pose proof (wf_frag w m t Pt Wt) as Ft.
  apply capt_self; [exact Fs|exact (frag_not_cap w t Ft)|].
  intros s' q Hk.
  apply (is_subtype_sound_capt' w Hok fuel s t); auto; split; auto; eapply safe_allb_safe_all; eauto.
Qed.

(* ---------- params_direct is a special case ---------- *)
Lemma plain_occurs_nb : forall prm x, is_tvar_term prm = true -> plain_closed x = true -> occurs_nb prm x = false.
Proof.
  intros prm x Hp. revert x. apply (ty_ind' (fun x => plain_closed x = true -> occurs_nb prm x = false)); intros;
    try discriminate; try (destruct prm; try discriminate; reflexivity).
  cbn [occurs_nb]. replace (py_eqb prm (TApp c l)) with false by (destruct prm; try discriminate; reflexivity).
  cbn [orb]. cbn [plain_closed] in H0. induction H as [|a l Ha Hl IH]; [reflexivity|].
  cbn in *. apply andb_prop in H0. destruct H0 as [H1 H2]. rewrite (Ha H1), (IH H2). reflexivity.
Qed.

Lemma psafeb_S : forall w f c prm v, psafeb w (S f) c prm v =
  match find_class w c with
  | None => false
  | Some d =>
      forallb (fun s0 =>
                 match s0 with
                 | TApp e es =>
                     match find_class w e with
                     | None => false
                     | Some de =>
                         forallb (fun qx => if py_eqb (snd qx) prm
                                            then compat (fst qx) v && psafeb w f e (fst qx) v
                                            else negb (occurs_nb prm (snd qx)))
                                 (combine (c_params de) es)
                     end
                 | _ => true
                 end) (c_supers d)
  end.
Proof. reflexivity. Qed.

Section PdSafe.
  Variable w : world.
  Hypothesis Hok : table_ok w = true.
  Hypothesis Hpd : params_direct w = true.

  Lemma pd_psafeb : forall n c, c <= n -> forall d prm v, find_class w c = Some d ->
    is_tvar_term prm = true -> compat prm v = true -> psafeb w (S n) c prm v = true.
  Proof.
    induction n as [|n IH]; intros c Hc d prm v Hd Hp Hcv.
    - rewrite psafeb_S, Hd. apply forallb_forall. intros s0 Hs0.
      destruct (tok_super w Hok c d s0 Hd Hs0) as [_ [_ [Hid _]]].
      destruct s0 as [| |e es| | | | |]; try reflexivity.
      cbn in Hid. apply andb_prop in Hid. destruct Hid as [Hid _]. apply Nat.ltb_lt in Hid. lia.
    - rewrite psafeb_S, Hd. apply forallb_forall. intros s0 Hs0.
      destruct (tok_super w Hok c d s0 Hd Hs0) as [_ [Ha [Hid _]]].
      pose proof (pd_super w Hpd c d s0 Hd Hs0) as Hsd.
      destruct s0 as [| |e es| | | | |]; try reflexivity.
      cbn [super_direct] in Hsd. destruct (find_class w e) as [de|] eqn:Hde; [|discriminate].
      cbn in Hid. apply andb_prop in Hid. destruct Hid as [Hid _]. apply Nat.ltb_lt in Hid.
      apply forallb_forall. intros [q x] Hqx. cbn [fst snd].
      pose proof (forallb_In _ _ _ _ Hsd Hqx) as Hda. cbn [fst snd] in Hda. unfold direct_arg in Hda.
      destruct (py_eqb x prm) eqn:E.
      + rewrite (py_eqb_tvar_left x prm E Hp) in Hda. apply andb_prop in Hda. destruct Hda as [_ Hv].
        apply var_eqb_eq in Hv.
        assert (Hx : is_tvar_term x = true) by (apply (py_eqb_tvar_left x prm E Hp)).
        assert (Hcq : compat q v = true).
        { unfold compat in *. rewrite <- Hv. rewrite py_eqb_sym in E.
          rewrite <- (py_eqb_tvar_variance prm x Hx E). exact Hcv. }
        rewrite Hcq. cbn [andb]. apply (IH e ltac:(lia) de q v Hde); [|exact Hcq].
        destruct (tok_params w Hok e de Hde) as [Htv _].
        apply (forallb_In _ _ _ _ Htv (in_combine_l _ _ _ _ Hqx)).
      + apply negb_true_iff. destruct (is_tvar_term x) eqn:Hx.
        * destruct x; try discriminate. cbn [occurs_nb]. rewrite py_eqb_sym, E. reflexivity.
        * apply plain_occurs_nb; auto.
  Qed.

  Lemma pd_safe_all : forall t, frag w t = true -> safe_all w t.
  Proof.
    apply frag_ind; try (intros; exact I).
    intros c d l Hd Hl Ha IH1 IH2. rewrite safe_all_app, Hd.
    destruct (tok_params w Hok c d Hd) as [Htv _]. clear Hl.
    revert Ha Htv IH1 IH2. generalize (c_params d). intros ps. revert ps.
    induction l as [|a l IHl]; intros ps Ha Htv IH1 IH2; [exact I|].
    destruct ps as [|prm ps]; [exact I|]. rewrite args_ok_cons in Ha. rewrite args_safe_cons.
    apply andb_prop in Ha. destruct Ha as [Hx Ha]. cbn in Htv. apply andb_prop in Htv. destruct Htv as [Hp Htv].
    split.
    - destruct (arg_ok_cases w prm a Hx) as [[_ Fa]|[[u [-> [Hc Fu]]]|[u [-> [Hc Fu]]]]].
      + apply arg_safe_plain; auto. apply IH1; auto. left. reflexivity.
      + cbn [arg_safe]. split; [exists (S c); eapply pd_psafeb; eauto|].
        apply (IH2 Cov u); auto. left. reflexivity.
      + cbn [arg_safe]. split; [exists (S c); eapply pd_psafeb; eauto|].
        apply (IH2 Contra u); auto. left. reflexivity.
    - apply IHl; auto.
      + intros y Hy. apply IH1. right. exact Hy.
      + intros v b Hy. apply (IH2 v b). right. exact Hy.
  Qed.
End PdSafe.

(* stated with the Prop-level condition, the per-type theorem covers the table-wide one *)
Lemma is_subtype_sound_safe_all_lem : forall w fuel p s t,
  table_ok w = true -> frag w s = true -> frag w t = true -> safe_all w s -> safe_all w t ->
  is_subtype w fuel s t = Rt -> SubA w p s t.
Proof.
  intros w fuel p s t Hok Fs Ft Ss St H.
  apply capt_self; [exact Fs|exact (frag_not_cap w t Ft)|].
  intros s' q Hk. apply (is_subtype_sound_capt' w Hok fuel s t); auto; split; auto.
Qed.

Lemma params_direct_safe_all_lem : forall w t,
  table_ok w = true -> params_direct w = true -> frag w t = true -> safe_all w t.
Proof. intros w t Hok Hpd. apply pd_safe_all; auto. Qed.
