(* Types/Unify.v -- model of unify_types / _update_type_var_map (src/ir/type_utils.py) and of
   the conversions it uses: TypeParameter.get_bound_rec, to_type_variable_free.
   Definitions only. *)
From Coq Require Import List Arith Bool.
Import ListNotations.
From Heph Require Import Types.Syntax Types.Subst Types.Subtype.

(* outcome of a Python call that may raise *)
Inductive out (A : Type) := Val (a : A) | Exc.
Arguments Val {A} a. Arguments Exc {A}.

(* the `name` attribute, up to equality: several class ids may carry the same name
   (Kotlin's Array and SpecializedArrayType): alias maps a class id to its name id *)
Inductive nm := NBuiltin (b : nat) | NClass (c : nat) | NVar (x : nat) | NStar | NNothing | NOther.

Definition nm_eqb (a b : nm) : bool :=
  match a, b with
  | NBuiltin x, NBuiltin y | NClass x, NClass y | NVar x, NVar y => Nat.eqb x y
  | NStar, NStar | NNothing, NNothing => true
  | _, _ => false
  end.

Section W.
  Context (w : world) (alias : list (nat * nat)) (any : nat).

  Definition cname (c : nat) : nat := match find_nat alias c with Some n => n | None => c end.

  Definition name_of (t : ty) : nm :=
    match t with
    | TBuiltin b _ => NBuiltin b
    | TClass c | TApp c _ | TCon c => NClass (cname c)
    | TVar x _ _ => NVar x
    | TWild _ _ => NStar
    | TNothing => NNothing
    | TCap _ _ _ => NOther
    end.

  (* type(t1) == type(t2): the Python classes of the two objects *)
  Definition same_pyclass (a b : ty) : bool :=
    match a, b with
    | TBuiltin x _, TBuiltin y _ => Nat.eqb x y
    | TClass _, TClass _ | TApp _ _, TApp _ _ | TVar _ _ _, TVar _ _ _ | TWild _ _, TWild _ _
    | TNothing, TNothing => true
    | TCon c, TCon d => Nat.eqb c d || ((c <? 90) && (d <? 90))   (* user constructors share one class *)
    | _, _ => false
    end.

  Definition param_variance (c i : nat) : variance :=
    match find_class w c with
    | Some d => tvar_variance (nth i (c_params d) TNothing)
    | None => Inv
    end.

  (* TypeParameter.get_bound_rec(factory) and ParameterizedType.to_type_variable_free(factory) *)
  Fixpoint bound_rec (fuel : nat) (t : ty) {struct fuel} : out (option ty) :=
    match fuel with
    | O => Exc
    | S f =>
        match t with
        | TVar _ _ None => Val None
        | TVar _ _ (Some b) =>
            if is_tvar b then bound_rec f b
            else if negb (has_tv b) then Val (Some b)
            else match to_tvf f b with Val r => Val (Some r) | Exc => Exc end
        | _ => Exc
        end
    end
  with to_tvf (fuel : nat) (t : ty) {struct fuel} : out ty :=
    match fuel with
    | O => Exc
    | S f =>
        match t with
        | TApp c args =>
            let conv (i : nat) (a : ty) : out ty :=     (* _to_type_variable_free(a, t_param, factory) *)
              let pv := param_variance c i in
              match a with
              | TVar _ _ _ =>
                  match bound_rec f a with
                  | Exc => Exc
                  | Val b =>
                      match pv with
                      | Contra => Val (TWild Inv None)
                      | _ => Val (TWild Cov (Some (match b with Some x => x | None => TBuiltin any false end)))
                      end
                  end
              | TApp _ _ => to_tvf f a
              | _ => Val a
              end in
            let one (i : nat) (a : ty) : out ty :=
              let pv := param_variance c i in
              match a with
              | TWild Contra ob =>
                  match ob with
                  | None => Exc
                  | Some b => if has_tv b
                              then Val (match pv with Contra => TWild Inv None | _ => TWild Cov (Some (TBuiltin any false)) end)
                              else Val a
                  end
              | TWild Cov ob =>
                  match wild_bound_rec a with
                  | None => Exc
                  | Some b => if has_tv b then conv i b else Val a
                  end
              | _ => conv i a
              end in
            match (fix go (i : nat) (l : list ty) : out (list ty) :=
                     match l with
                     | [] => Val []
                     | a :: l' => match one i a, go (S i) l' with
                                  | Val x, Val r => Val (x :: r)
                                  | _, _ => Exc
                                  end
                     end) 0 args with
            | Val l => Val (TApp c l)
            | Exc => Exc
            end
        | _ => Exc
        end
    end.

  (* the assignment: a Python dict TypeParameter -> Type-or-None, insertion ordered *)
  Definition tvmap := list (ty * option ty).

  Fixpoint tv_get (m : tvmap) (k : ty) : option (option ty) :=
    match m with
    | [] => None
    | (k', v) :: m' => if py_eqb k' k then Some v else tv_get m' k
    end.

  Fixpoint tv_set (m : tvmap) (k : ty) (v : option ty) : tvmap :=
    match m with
    | [] => [(k, v)]
    | (k', v') :: m' => if py_eqb k' k then (k', v) :: m' else (k', v') :: tv_set m' k v
    end.

  Definition opt_eqb (a b : option ty) : bool :=
    match a, b with
    | None, None => true
    | Some x, Some y => py_eqb x y
    | _, _ => false
    end.

  (* _update_type_var_map: None = conflict *)
  Definition update_map (m : tvmap) (k : ty) (v : option ty) : option tvmap :=
    match tv_get m k with
    | Some (Some old) => if py_eqb old (match v with Some x => x | None => TNothing end) && match v with Some _ => true | None => false end
                         then Some (tv_set m k v) else None
    | _ => Some (tv_set m k v)
    end.

  Definition merge (m : tvmap) (res : tvmap) : option tvmap :=
    fold_left (fun acc kv => match acc with Some a => update_map a (fst kv) (snd kv) | None => None end) res (Some m).

  Definition sub_fuel : nat := 40.

  Fixpoint unify (fuel : nat) (same : bool) (t1 t2 : ty) {struct fuel} : out tvmap :=
    match fuel with
    | O => Exc
    | S f =>
        if same && negb (same_pyclass t1 t2) then Val []
        else if negb same && negb (nm_eqb (name_of t1) (name_of t2)) && negb (is_tvar t2) then
          match rev (direct_supers w t1) with
          | [] => Val []
          | s :: _ => unify f same s t2
          end
        else
          let tv1 := is_tvar t1 in
          let tv2 := is_tvar t2 in
          let both : option (out tvmap) :=            (* Some r = returned from the first block *)
            if tv1 && tv2 then
              match bound_rec 20 t1, bound_rec 20 t2 with
              | Exc, _ | _, Exc => Some Exc
              | Val b1, Val b2 =>
                  match b1, b2 with
                  | None, None => Some (Val [(t2, Some t1)])
                  | _, None => Some (Val [(t2, Some t1)])
                  | Some x, Some y =>
                      match is_subtype w sub_fuel x y with
                      | Rt => Some (Val [(t2, Some t1)])
                      | Rf => None
                      | Rerr => Some Exc
                      end
                  | None, Some _ => None
                  end
              end
            else None in
          match both with
          | Some r => r
          | None =>
              if tv2 then
                match bound_rec 20 t2 with
                | Exc => Exc
                | Val None => Val [(t2, Some t1)]
                | Val (Some b) =>
                    match is_subtype w sub_fuel t1 b with
                    | Rt => Val [(t2, Some t1)]
                    | Rf => Val []
                    | Rerr => Exc
                    end
                end
              else
                match t1 with
                | TApp c1 args1 =>
                    match t2 with
                    | TApp c2 args2 =>
                        if negb (Nat.eqb c1 c2) then Val []
                        else
                          (fix go (l1 l2 : list ty) (m : tvmap) : out tvmap :=
                             match l1 with
                             | [] => Val m
                             | a1 :: l1' =>
                                 match l2 with
                                 | [] => Exc                          (* IndexError *)
                                 | a2 :: l2' =>
                                     if is_wild a2 && negb (is_wild a1) then Val []
                                     else if is_wild a2 && negb (var_eqb (wvar a1) (wvar a2)) then Val []
                                     else if is_wild a2 && is_none (wbound a1) && is_none (wbound a2) then go l1' l2' m
                                     else if is_wild a2 && (is_none (wbound a1) || is_none (wbound a2)) then Val []
                                     else
                                       let '(x1, x2) := if is_wild a2 then (wbound a1, wbound a2)
                                                        else (Some a1, Some a2) in
                                       match x2 with
                                       | None => Exc                  (* None.has_type_variables() *)
                                       | Some y2 =>
                                           if negb (has_tv y2) then
                                             if opt_eqb x1 (Some y2) then go l1' l2' m else Val []
                                           else
                                             match y2 with
                                             | TVar _ _ (Some vb) =>
                                                 match x1 with
                                                 | None => Exc        (* None.is_subtype *)
                                                 | Some y1 =>
                                                     match is_subtype w sub_fuel y1 vb with
                                                     | Rerr => Exc
                                                     | Rt => match update_map m y2 x1 with
                                                             | Some m' => go l1' l2' m'
                                                             | None => Val []
                                                             end
                                                     | Rf =>
                                                         if is_app vb && is_app y1 then
                                                           match unify f true y1 vb with
                                                           | Exc => Exc
                                                           | Val [] => Val []
                                                           | Val res => match merge m res with
                                                                        | Some m' => go l1' l2' m'
                                                                        | None => Val []
                                                                        end
                                                           end
                                                         else Val []
                                                     end
                                                 end
                                             | TVar _ _ None =>
                                                 match update_map m y2 x1 with
                                                 | Some m' => go l1' l2' m'
                                                 | None => Val []
                                                 end
                                             | TApp _ _ =>
                                                 match x1 with
                                                 | Some (TApp _ _ as y1) =>
                                                     match unify f true y1 y2 with
                                                     | Exc => Exc
                                                     | Val [] => Val []
                                                     | Val res => match merge m res with
                                                                  | Some m' => go l1' l2' m'
                                                                  | None => Val []
                                                                  end
                                                     end
                                                 | _ => Val []
                                                 end
                                             | _ => Val []
                                             end
                                       end
                                 end
                             end) args1 args2 []
                    | _ => Exc                                        (* t2.t_constructor *)
                    end
                | _ => Val []
                end
          end
    end.
End W.
