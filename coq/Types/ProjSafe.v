(* Types/ProjSafe.v -- a per-type replacement for the table condition params_direct: a projected
   argument may sit only at a type variable that every declared supertype (transitively)
   passes on as a DIRECT argument to a position whose declared variance admits the projection;
   the other type variables of the class may be used in any way.  (A counterpart, keyed by the
   type variable instead of its index and not looking into bounds, of Judge.safe_param / proj_safe.)
   Definitions only. *)
From Coq Require Import List Arith Bool.
Import ListNotations.
From Heph Require Import Types.Syntax Types.Subst Types.Subtype Types.Decl Types.TableOk
  Types.Judge Types.ProjFrag.

(* the type variable prm occurs in x, not looking into the bounds of other type variables
   (substitution replaces a type variable of the class as a whole, it never descends into its bound) *)
Fixpoint occurs_nb (prm x : ty) : bool :=
  py_eqb prm x ||
  match x with
  | TApp _ l => existsb (occurs_nb prm) l
  | _ => false
  end.

Section W.
  Context (w : world).

  Fixpoint psafeb (fuel : nat) (c : nat) (prm : ty) (v : variance) {struct fuel} : bool :=
    match fuel with
    | O => false
    | S f =>
        match find_class w c with
        | None => false
        | Some d =>
            forallb (fun s0 =>
                       match s0 with
                       | TApp e es =>
                           match find_class w e with
                           | None => false
                           | Some de =>
                               forallb (fun qx => if py_eqb (snd qx) prm
                                                  then compat (fst qx) v && psafeb f e (fst qx) v
                                                  else negb (occurs_nb prm (snd qx)))
                                       (combine (c_params de) es)
                           end
                       | _ => true
                       end) (c_supers d)
        end
    end.

  Definition psafe (c : nat) (prm : ty) (v : variance) : Prop := exists f, psafeb f c prm v = true.

  Definition arg_safeb (sa : ty -> bool) (fuel c : nat) (prm a : ty) : bool :=
    match a with
    | TWild v (Some u) => psafeb fuel c prm v && sa u
    | _ => sa a
    end.

  (* every projection inside t sits at a safe type variable (checked with the given fuel) *)
  Fixpoint safe_allb (fuel : nat) (t : ty) {struct t} : bool :=
    match t with
    | TApp c l =>
        match find_class w c with
        | None => false
        | Some d =>
            (fix go (ps l : list ty) {struct l} : bool :=
               match l, ps with
               | a :: l', prm :: ps' =>
                   (match a with
                    | TWild v (Some u) => psafeb fuel c prm v && safe_allb fuel u
                    | _ => safe_allb fuel a
                    end) && go ps' l'
               | _, _ => true
               end) (c_params d) l
        end
    | _ => true
    end.

  Definition arg_safe (sa : ty -> Prop) (c : nat) (prm a : ty) : Prop :=
    match a with
    | TWild v (Some u) => psafe c prm v /\ sa u
    | _ => sa a
    end.

  (* the same with the fuel quantified existentially per projection *)
  Fixpoint safe_all (t : ty) {struct t} : Prop :=
    match t with
    | TApp c l =>
        match find_class w c with
        | None => False
        | Some d =>
            (fix go (ps l : list ty) {struct l} : Prop :=
               match l, ps with
               | a :: l', prm :: ps' =>
                   (match a with
                    | TWild v (Some u) => psafe c prm v /\ safe_all u
                    | _ => safe_all a
                    end) /\ go ps' l'
               | _, _ => True
               end) (c_params d) l
        end
    | _ => True
    end.

  Definition args_safe (sa : ty -> Prop) (c : nat) : list ty -> list ty -> Prop :=
    fix go (ps l : list ty) {struct l} : Prop :=
      match l, ps with
      | a :: l', prm :: ps' => arg_safe sa c prm a /\ go ps' l'
      | _, _ => True
      end.
End W.
