(* Types/ProjComplete.v -- the converse on the projection fragment: a False answer of the model
   is exact for boxed types without bottom types (the property's `ground` fragment), under
   table_ok, params_direct and supers_solid. *)
From Coq Require Import List Arith Bool Lia.
Import ListNotations.
From Heph Require Import Types.Syntax Types.Subst Types.Subtype Types.Decl Types.TableOk
  Types.PFBase Types.SubtypePF Types.ProjFrag Types.ProjSound Types.ProjFragC.

(* ---------- opening an instantiation, the other direction ---------- *)
Lemma suba_open_transfer_rev : forall w p c l t, not_cap t ->
  SubA w p (TApp c l) t -> SubA w p (TApp c (open_args p 0 l)) t.
Proof.
  intros w p c l t Hn H.
  inversion H as [| | | | | | | | | |p0 i u lo s0 Hs
                 |p0 c0 d args0 bargs Hd Hl1 Hl2 HC|p0 c0 d args0 s0 t0 Hd Hl1 Hin Hs]; subst.
  - exfalso. eapply Hn. reflexivity.
  - eapply A_AppArgs; eauto; [rewrite open_args_length; exact Hl1|]. rewrite open_args_idem. exact HC.
  - eapply A_AppUp; eauto; [rewrite open_args_length; exact Hl1|]. rewrite open_args_idem. exact Hs.
Qed.

(* from "s is below t" to "some captured form of s is below t" *)
Lemma capt_of_self : forall w s t q, frag w s = true -> not_cap t -> SubA w q s t ->
  exists s', Capt w s s' /\ SubA w q s' t.
Proof.
  intros w s t q Fs Hn H. destruct s as [b pr|c|c l|c|x v ob|v ob| |i u lo]; try discriminate;
    try (eexists; split; [reflexivity|exact H]).
  exists (TApp c (open_args q 0 l)). split; [apply capt_open; exact Fs|].
  apply suba_open_transfer_rev; assumption.
Qed.

Lemma args_ok_in : forall fr ps l a, args_ok fr ps l = true -> length l = length ps -> In a l ->
  exists prm, arg_ok fr prm a = true.
Proof.
  intros fr ps l. revert ps. induction l as [|x l IH]; intros ps a H Hl Hin; [contradiction|].
  destruct ps as [|prm ps]; [discriminate|]. rewrite args_ok_cons in H.
  apply andb_prop in H. destruct H as [H1 H2]. destruct Hin as [->|Hin]; [eauto|].
  eapply IH; eauto.
Qed.

(* ---------- == is equality on boxed types of the fragment ---------- *)
Lemma py_eqb_eq_frag : forall w a, frag w a = true ->
  forall b, boxed a = true -> boxed b = true -> py_eqb a b = true -> a = b.
Proof.
  intros w. apply (frag_ind w (fun a => forall b, boxed a = true -> boxed b = true -> py_eqb a b = true -> a = b)).
  - intros b pr t Ba Bt He. destruct t; try discriminate. cbn in *. apply Nat.eqb_eq in He.
    destruct pr, prim; try discriminate. congruence.
  - intros t _ _ He. destruct t; try discriminate. reflexivity.
  - intros c t _ _ He. destruct t; try discriminate. cbn in He. apply Nat.eqb_eq in He. congruence.
  - intros c d l Hd Hl Ha IH1 IH2 t Ba Bt He.
    destruct t as [| |c' m| | | | |]; try discriminate.
    rewrite py_eqb_app in He. apply andb_prop in He. destruct He as [Hc He].
    apply Nat.eqb_eq in Hc. subst c'. f_equal. cbn [boxed] in Ba, Bt.
    clear Hd. revert Hl Ha. generalize (c_params d). intros ps Hl Ha.
    revert ps m Hl Ha IH1 IH2 Ba Bt He.
    induction l as [|x l IHl]; intros ps m Hl Ha IH1 IH2 Ba Bt He; destruct m as [|y m]; try discriminate;
      [reflexivity|].
    destruct ps as [|prm ps]; [discriminate|]. rewrite args_ok_cons in Ha.
    apply andb_prop in Ha. destruct Ha as [Hx Ha].
    cbn in Ba, Bt, He. apply andb_prop in Ba. destruct Ba as [Bx Ba].
    apply andb_prop in Bt. destruct Bt as [By Bt]. apply andb_prop in He. destruct He as [Hxy He].
    f_equal.
    + destruct (arg_ok_cases w prm x Hx) as [[_ Fx]|[[u [-> [_ Fu]]]|[u [-> [_ Fu]]]]].
      * apply (IH1 x (or_introl eq_refl) Fx); auto.
      * destruct y as [| | | | |vy oy| |]; try discriminate. rewrite py_eqb_wild in Hxy.
        apply andb_prop in Hxy. destruct Hxy as [Hv Hu]. destruct vy; try discriminate.
        destruct oy as [uy|]; [|discriminate]. cbn in Hu, Bx, By.
        f_equal. f_equal. apply (IH2 Cov u (or_introl eq_refl) Fu); auto.
      * destruct y as [| | | | |vy oy| |]; try discriminate. rewrite py_eqb_wild in Hxy.
        apply andb_prop in Hxy. destruct Hxy as [Hv Hu]. destruct vy; try discriminate.
        destruct oy as [uy|]; [|discriminate]. cbn in Hu, Bx, By.
        f_equal. f_equal. apply (IH2 Contra u (or_introl eq_refl) Fu); auto.
    + apply (IHl ps); auto.
      * intros z Hz. apply IH1. right. exact Hz.
      * intros v b Hz. apply (IH2 v b). right. exact Hz.
Qed.

(* ---------- the direct-supertype step, by declared supertype; preservation of boxed/solid ---------- *)
Section StepC.
  Variable w : world.
  Hypothesis Hok : table_ok w = true.
  Hypothesis Hpd : params_direct w = true.
  Hypothesis Hsg : supers_solid w = true.

  Lemma sg_super : forall c d s0, find_class w c = Some d -> In s0 (c_supers d) -> solid w s0 = true.
  Proof.
    intros c d s0 Hd Hin. apply find_nat_in in Hd. unfold supers_solid in Hsg.
    pose proof (forallb_In _ _ _ _ Hsg Hd) as H. cbn in H. apply (forallb_In _ _ _ _ H Hin).
  Qed.

  Definition super_inst (d : cdecl) (l : list ty) (s0 : ty) : ty :=
    if is_app s0 then subst true (mk_map (c_params d) l) s0 else s0.

  Lemma step_app_s0 : forall c d l l' s0, find_class w c = Some d -> captl w (c_params d) l l' ->
    In s0 (c_supers d) ->
    In (super_inst d l s0) (direct_supers w (TApp c l)) /\ frag w (super_inst d l s0) = true /\
    Capt w (super_inst d l s0) (inst_super d l' s0) /\ rank (super_inst d l s0) <= c.
  Proof.
    intros c d l l' s0 Hd Hk Hs0.
    assert (Hin : In (super_inst d l s0) (direct_supers w (TApp c l))).
    { cbn [direct_supers]. rewrite Hd. apply in_map_iff. exists s0. split; [reflexivity|exact Hs0]. }
    split; [exact Hin|].
    destruct (tok_super w Hok c d s0 Hd Hs0) as [Ho [Ha [Hid [_ [Hnv _]]]]].
    pose proof (pd_super w Hpd c d s0 Hd Hs0) as Hsd.
    apply class_ids_head in Hid. unfold super_inst.
    destruct s0 as [b pr|k|e es|k|x v ob|v ob| |i uu lo]; try discriminate; cbn [is_app].
    - repeat split; auto.
    - repeat split; auto.
    - cbn [super_direct] in Hsd. cbn [arity_ok] in Ha.
      destruct (find_class w e) as [de|] eqn:Hde; [|discriminate].
      apply andb_prop in Ha. destruct Ha as [Ha Hes]. apply andb_prop in Ha. destruct Ha as [Hle _].
      apply Nat.eqb_eq in Hle.
      pose proof (subst_direct_args w (c_params d) l l' Hk es (c_params de) Hsd Hle Hes) as Hk2.
      cbn [subst]. split; [eapply capt_frag_app; eauto|]. split; [|exact Hid].
      exists de, (map (subst false (mk_map (c_params d) l')) es). auto.
  Qed.

  Lemma subst_direct_pres : forall (P : ty -> bool) ps l q x,
    forallb P l = true -> (forall r, In r l -> has_tv r = false) -> length l = length ps ->
    direct_arg ps q x = true -> P x = true -> P (subst true (mk_map ps l) x) = true.
  Proof.
    intros P ps l q x HP Hnt Hl Hd Hx. unfold direct_arg in Hd. destruct (is_tvar_term x) eqn:Ht.
    - apply andb_prop in Hd. destruct Hd as [Hm _].
      destruct (lookup_mk_map ps l x Hm (eq_sym Hl)) as [r [Hr Hin]].
      destruct x as [| | | |n v ob| | |]; try discriminate.
      cbn [subst]. rewrite Hr, (Hnt r Hin). cbn [andb]. apply (forallb_In _ _ _ _ HP Hin).
    - rewrite subst_plain_id; auto.
  Qed.

  Lemma subst_direct_pres_list : forall (P : ty -> bool) ps l,
    forallb P l = true -> (forall r, In r l -> has_tv r = false) -> length l = length ps ->
    forall es qs, forallb (fun qa => direct_arg ps (fst qa) (snd qa)) (combine qs es) = true ->
    length es = length qs -> forallb P es = true ->
    forallb P (map (subst true (mk_map ps l)) es) = true.
  Proof.
    intros P ps l HP Hnt Hl es. induction es as [|x es IH]; intros qs Hd Hle Hes; [reflexivity|].
    destruct qs as [|q qs]; [discriminate|]. cbn in Hd, Hes.
    apply andb_prop in Hd. destruct Hd as [Hd1 Hd2]. apply andb_prop in Hes. destruct Hes as [Hx Hes].
    cbn [map forallb]. rewrite (subst_direct_pres P ps l q x); auto. cbn [andb]. apply (IH qs); auto.
  Qed.

  Lemma step_pres_app : forall (P : ty -> bool) c d l s0,
    (forall e es, P (TApp e es) = forallb P es) ->
    find_class w c = Some d -> frag w (TApp c l) = true -> forallb P l = true ->
    In s0 (c_supers d) -> P s0 = true -> P (super_inst d l s0) = true.
  Proof.
    intros P c d l s0 HPapp Hd Fs HP Hs0 Hx.
    destruct (frag_app_inv w c l Fs) as [d' [Hd' [Hl Hao]]]. rewrite Hd in Hd'. injection Hd' as <-.
    destruct (tok_super w Hok c d s0 Hd Hs0) as [Ho [Ha [_ [_ [Hnv _]]]]].
    pose proof (pd_super w Hpd c d s0 Hd Hs0) as Hsd. unfold super_inst.
    destruct s0 as [b pr|k|e es|k|x v ob|v ob| |i uu lo]; try discriminate; cbn [is_app]; auto.
    cbn [super_direct] in Hsd. cbn [arity_ok] in Ha.
    destruct (find_class w e) as [de|] eqn:Hde; [|discriminate].
    apply andb_prop in Ha. destruct Ha as [Ha Hes]. apply andb_prop in Ha. destruct Ha as [Hle _].
    apply Nat.eqb_eq in Hle. cbn [subst]. rewrite HPapp. rewrite HPapp in Hx.
    apply (subst_direct_pres_list P (c_params d) l HP) with (qs := c_params de); auto.
    intros r Hr. destruct (args_ok_in _ _ _ r Hao Hl Hr) as [prm Hp]. eapply arg_no_tv; eauto.
  Qed.

  Definition cf (t : ty) : Prop := frag w t = true /\ boxed t = true /\ solid w t = true.

  Lemma step_cf : forall s u, cf s -> In u (direct_supers w s) -> cf u.
  Proof.
    intros s u [Fs [Bs Ss]] Hin.
    destruct s as [b pr|c|c l|c|x v ob|v ob| |i uu lo]; try discriminate; try contradiction.
    - cbn [direct_supers] in Hin. destruct pr; [contradiction|].
      destruct (find_builtin w b) as [bi|] eqn:Hb; [|contradiction].
      apply in_map_iff in Hin. destruct Hin as [b' [<- Hb']].
      repeat split; auto. cbn. rewrite (tok_no_bottom_super w Hok b bi b' Hb Hb'). reflexivity.
    - assert (Hg : good1 w (TClass c) = true) by (unfold good1; cbn; exact Fs).
      pose proof (direct_supers_good1 w Hok _ u Hg Hin) as Hgu.
      cbn [direct_supers] in Hin. destruct (find_class w c) as [d|] eqn:Hd; [|contradiction].
      destruct (tok_super w Hok c d u Hd Hin) as [_ [_ [_ [_ [_ Hbx]]]]].
      repeat split; [apply good1_frag; exact Hgu|exact Hbx|eapply sg_super; eauto].
    - destruct (frag_app_inv w c l Fs) as [d [Hd [Hl Hao]]].
      pose proof Hin as Hin'. cbn [direct_supers] in Hin'. rewrite Hd in Hin'.
      apply in_map_iff in Hin'. destruct Hin' as [s0 [Eu Hs0]].
      destruct (step_app_s0 c d l (open_args [] 0 l) s0 Hd (args_ok_captl w _ _ Hao Hl [] 0) Hs0)
        as [_ [Fu _]].
      destruct (tok_super w Hok c d s0 Hd Hs0) as [_ [_ [_ [_ [_ Hbx]]]]].
      fold (super_inst d l s0) in Eu. subst u. repeat split; [exact Fu| |].
      + apply (step_pres_app boxed c d l s0); auto.
      + apply (step_pres_app (solid w) c d l s0); auto. eapply sg_super; eauto.
  Qed.

  Lemma reach_cf : forall s u, reach w s u -> cf s -> cf u.
  Proof.
    intros s u H. induction H as [s|s x u Hx Hr IH]; intros Hc; [exact Hc|].
    apply IH. eapply step_cf; eauto.
  Qed.

  Lemma step_rank : forall s u, frag w s = true -> In u (direct_supers w s) -> 0 < rank s -> rank u < rank s.
  Proof.
    intros s u Fs Hin Hr.
    destruct s as [b pr|c|c l|c|x v ob|v ob| |i uu lo]; try discriminate; try contradiction; try (cbn in Hr; lia).
    - assert (Hg : good1 w (TClass c) = true) by (unfold good1; cbn; exact Fs).
      destruct (direct_supers_rank w Hok _ u Hg Hin) as [_ R]. auto.
    - destruct (frag_app_inv w c l Fs) as [d [Hd [Hl Hao]]].
      pose proof Hin as Hin'. cbn [direct_supers] in Hin'. rewrite Hd in Hin'.
      apply in_map_iff in Hin'. destruct Hin' as [s0 [Eu Hs0]].
      destruct (step_app_s0 c d l (open_args [] 0 l) s0 Hd (args_ok_captl w _ _ Hao Hl [] 0) Hs0)
        as [_ [_ [_ Hrk]]].
      fold (super_inst d l s0) in Eu. subst u. cbn. lia.
  Qed.

  (* get_supertypes returns every reachable type *)
  Lemma get_supertypes_complete_cf : forall s r, get_supertypes w s = Some r -> cf s ->
    forall u, reach w s u -> In u r.
  Proof.
    intros s r H Hc u Hr.
    destruct (get_supertypes_closed w s r H) as [Hs Hcl].
    assert (Hall : forall a y, reach w a y -> reach w s a -> In a r -> In y r).
    { intros a y Hay. induction Hay as [a|a z y Hz Hzy IH]; intros Hsa Ha; [exact Ha|].
      apply IH.
      - eapply reach_right; eauto.
      - pose proof (Hcl a Ha z Hz) as Hm. apply memb_ex in Hm. destruct Hm as [k [Hk He]].
        assert (Hsz : reach w s z) by (eapply reach_right; eauto).
        pose proof (get_supertypes_sound w s r H k Hk) as Hsk.
        destruct (reach_cf s z Hsz Hc) as [Fz [Bz _]]. destruct (reach_cf s k Hsk Hc) as [_ [Bk _]].
        rewrite (py_eqb_eq_frag w z Fz k Bz Bk He). exact Hk. }
    apply (Hall s u Hr (reach_refl w s) Hs).
  Qed.

  Section Rec.
    Variable rec : ty -> ty -> res.

    Lemma nominal_complete_proj : forall s t, cf s -> 0 < rank s -> nominal_m w rec s t = Rf ->
      py_eqb t s = false /\ forall u, In u (direct_supers w s) -> rec u t = Rf.
    Proof.
      intros s t Hc Rs H. unfold nominal_m in H.
      destruct (py_eqb t s) eqn:E; [discriminate|]. split; [reflexivity|].
      destruct (get_supertypes w s) as [sups|] eqn:Hg; [|discriminate].
      intros u Hu.
      assert (Hin : In u sups).
      { apply (get_supertypes_complete_cf s sups Hg Hc). eapply reach_step; [exact Hu|apply reach_refl]. }
      assert (Hne : py_eqb u s = false).
      { destruct (py_eqb u s) eqn:E'; [|reflexivity].
        apply py_eqb_rank in E'. destruct Hc as [Fs _]. pose proof (step_rank s u Fs Hu Rs). lia. }
      apply (rany_rf _ H). apply in_map_iff. exists u. split; [reflexivity|].
      apply filter_In. split; [exact Hin|]. rewrite Hne. reflexivity.
    Qed.
  End Rec.
End StepC.

(* ---------- judgements with a captured type on the right ---------- *)
Section CapRight.
  Variable w : world.
  Hypothesis Hok : table_ok w = true.
  Hypothesis Hpd : params_direct w = true.
  Hypothesis Hsg : supers_solid w = true.

  Lemma headok_super : forall c d s0, find_class w c = Some d -> In s0 (c_supers d) ->
    headok w s0 = true /\ forall b m, headok w (subst b m s0) = true.
  Proof.
    intros c d s0 Hd Hs0.
    destruct (tok_super w Hok c d s0 Hd Hs0) as [Ho [_ [_ [_ [Hnv _]]]]].
    pose proof (sg_super w Hsg c d s0 Hd Hs0) as Hs.
    destruct s0; try discriminate; split; auto.
  Qed.

  Lemma headok_super_inst : forall c d l s0, find_class w c = Some d -> In s0 (c_supers d) ->
    headok w (super_inst d l s0) = true.
  Proof.
    intros c d l s0 Hd Hs0. destruct (headok_super c d s0 Hd Hs0) as [H1 H2].
    unfold super_inst. destruct (is_app s0); auto.
  Qed.

  (* nothing with a proper head is below an abstract type that has no lower bound *)
  Lemma no_sub_upper_cap : forall p x y, SubA w p x y ->
    forall i u, y = TCap i u None -> headok w x = true -> False.
  Proof.
    intros p x y H. induction H; intros i0 u0 E Hh; try discriminate.
    - cbn in Hh. rewrite H in Hh. discriminate.
    - apply (IHSubA i0 u0 E). cbn. unfold bsupers in H.
      destruct (find_builtin w b) as [bi|] eqn:Hb; [|contradiction].
      rewrite (tok_no_bottom_super w Hok b bi b' Hb H). reflexivity.
    - apply (IHSubA i0 u0 E). apply (headok_super c d s H H0).
    - apply (IHSubA i0 u0 E). unfold inst_super. apply (headok_super c d s H H1).
  Qed.

  Definition Cap0 (xm x : ty) : Prop := x = xm \/ Capt w xm x.

  Lemma Cap0_nonapp : forall xm x, Cap0 xm x -> is_app x = false -> xm = x.
  Proof.
    intros xm x [H|H] Ha; [congruence|].
    destruct xm as [| |c l| | | | |]; try (cbn in H; congruence).
    destruct H as [d [l' [_ [-> _]]]]. discriminate.
  Qed.

  Lemma Cap0_app : forall xm c args p, Cap0 xm (TApp c args) -> frag w xm = true ->
    exists d lm, xm = TApp c lm /\ find_class w c = Some d /\ captl w (c_params d) lm (open_args p 0 args).
  Proof.
    intros xm c args p [H|H] Fx.
    - subst xm. destruct (frag_app_inv w c args Fx) as [d [Hd [Hl Hao]]].
      exists d, args. repeat split; auto. apply args_ok_captl; auto.
    - destruct xm as [| |c' lm| | | | |]; try (cbn in H; discriminate).
      destruct H as [d [l' [Hd [E Hk]]]]. injection E as -> ->.
      exists d, lm. repeat split; auto. rewrite (captl_open _ _ _ _ Hk). exact Hk.
  Qed.

  (* below an abstract type with lower bound l only through the bound: some transitive
     supertype (in captured form) is below l *)
  Lemma chain_low : forall p x y, SubA w p x y ->
    forall i l, y = TCap i None (Some l) -> not_cap l ->
    forall xm, frag w xm = true -> headok w xm = true -> Cap0 xm x ->
    exists st st' q, reach w xm st /\ Capt w st st' /\ SubA w q st' l.
  Proof.
    intros p x y H. induction H; intros i0 l0 E Hnl xm Fx Hh Hc; try discriminate.
    - rewrite (Cap0_nonapp _ _ Hc eq_refl) in Hh. discriminate.
    - rewrite (Cap0_nonapp _ _ Hc eq_refl) in Hh. cbn in Hh. rewrite H in Hh. discriminate.
    - pose proof (Cap0_nonapp _ _ Hc eq_refl) as ->.
      unfold bsupers in H. destruct (find_builtin w b) as [bi|] eqn:Hb; [|contradiction].
      destruct (IHSubA i0 l0 E Hnl (TBuiltin b' false)) as [st [st' [q [Hr [Hk Hs]]]]]; auto.
      { cbn. rewrite (tok_no_bottom_super w Hok b bi b' Hb H). reflexivity. }
      { left. reflexivity. }
      exists st, st', q. repeat split; auto. eapply reach_step; [|exact Hr].
      cbn [direct_supers]. rewrite Hb. apply in_map_iff. eauto.
    - pose proof (Cap0_nonapp _ _ Hc eq_refl) as ->.
      assert (Hg : good1 w (TClass c) = true) by (unfold good1; cbn; exact Fx).
      assert (Hin : In s (direct_supers w (TClass c))) by (cbn [direct_supers]; rewrite H; exact H0).
      pose proof (direct_supers_good1 w Hok _ s Hg Hin) as Hgs.
      destruct (IHSubA i0 l0 E Hnl s) as [st [st' [q [Hr [Hk Hs]]]]]; auto.
      { apply good1_frag. exact Hgs. }
      { apply (headok_super c d s H H0). }
      { left. reflexivity. }
      exists st, st', q. repeat split; auto. eapply reach_step; eauto.
    - pose proof (Cap0_nonapp _ _ Hc eq_refl) as ->. discriminate.
    - pose proof (Cap0_nonapp _ _ Hc eq_refl) as ->. discriminate.
    - pose proof (Cap0_nonapp _ _ Hc eq_refl) as ->. discriminate.
    - pose proof (Cap0_nonapp _ _ Hc eq_refl) as ->. discriminate.
    - injection E as _ _ El. subst l0.
      destruct Hc as [->|Hk].
      + destruct (capt_of_self w xm l (p ++ [0]) Fx Hnl H) as [s' [Hk Hs]].
        exists xm, s', (p ++ [0]). repeat split; auto. apply reach_refl.
      + exists xm, s, (p ++ [0]). repeat split; auto. apply reach_refl.
    - destruct (Cap0_app xm c args p Hc Fx) as [d' [lm [-> [Hd' Hk]]]].
      rewrite H in Hd'. injection Hd' as <-.
      destruct (step_app_s0 w Hok Hpd c d lm (open_args p 0 args) s H Hk H1) as [Hin [Fu [Ku _]]].
      destruct (IHSubA i0 l0 E Hnl (super_inst d lm s)) as [st [st' [q [Hr [Hk' Hs]]]]]; auto.
      { eapply headok_super_inst; eauto. }
      { right. exact Ku. }
      exists st, st', q. repeat split; auto. eapply reach_step; eauto.
  Qed.

  Lemma suba_builtin_inv' : forall p s t, SubA w p s t -> forall b pr, s = TBuiltin b pr ->
    not_cap t ->
    exists u, reach w s u /\
              ((exists b' pr', u = TBuiltin b' pr' /\ is_bottom_builtin w b' = true) \/ py_eqb t u = true).
  Proof.
    intros p s t H. induction H; intros b0 pr0 E Pt; try discriminate.
    - exists (TBuiltin b pr). split; [apply reach_refl|]. left. eauto.
    - exists (TBuiltin b pr). split; [apply reach_refl|]. right. cbn. apply Nat.eqb_refl.
    - destruct (IHSubA b' false eq_refl Pt) as [u [Hr Hu]].
      exists u. split; [|exact Hu]. eapply reach_step; [|exact Hr].
      cbn [direct_supers]. unfold bsupers in H. destruct (find_builtin w b); [|contradiction].
      apply in_map_iff. eauto.
    - exfalso. eapply Pt. reflexivity.
  Qed.
End CapRight.

(* ---------- exactness of a negative answer ---------- *)
Lemma deq_cap_frag : forall w i u l b, frag w b = true -> deq (TCap i u l) b = false.
Proof. intros w i u l b Fb. destruct b; try reflexivity; discriminate. Qed.

Lemma cap_upper_inv : forall w q j u b, SubA w q (TCap j (Some u) None) b -> frag w b = true ->
  SubA w (q ++ [0]) u b.
Proof.
  intros w q j u b H Fb. inversion H; subst; try discriminate Fb; auto.
  exfalso. rewrite (deq_cap_frag w _ _ _ b Fb) in *. discriminate.
Qed.

Lemma cap_noupper_inv : forall w q j lo b, SubA w q (TCap j None lo) b -> frag w b = true -> False.
Proof.
  intros w q j lo b H Fb. inversion H; subst; try discriminate Fb.
  rewrite (deq_cap_frag w _ _ _ b Fb) in *. discriminate.
Qed.

Lemma cf_headok : forall w b, frag w b = true -> solid w b = true -> headok w b = true.
Proof. intros w b Fb Sb. destruct b; try discriminate; auto. Qed.

Section MainC.
  Variable w : world.
  Hypothesis Hok : table_ok w = true.
  Hypothesis Hpd : params_direct w = true.
  Hypothesis Hsg : supers_solid w = true.

  Section Rec.
    Variable rec : ty -> ty -> res.
    Hypothesis rec_compl : forall a b, cf w a -> cf w b -> rec a b = Rf ->
      forall st, reach w a st -> forall st' q, Capt w st st' -> ~ SubA w q st' b.

    Lemma rec_plain : forall a b, cf w a -> cf w b -> rec a b = Rf -> forall q, ~ SubA w q a b.
    Proof.
      intros a b Ca Cb H q HS. destruct Ca as [Fa [Ba Sa]]. pose proof Cb as [Fb _].
      destruct (capt_of_self w a b q Fa (frag_not_cap w b Fb) HS) as [a' [Hk HS']].
      exact (rec_compl a b (conj Fa (conj Ba Sa)) Cb H a (reach_refl w a) a' q Hk HS').
    Qed.

    (* b below an abstract type with lower bound l, while the model refuses b <: l *)
    Lemma rec_low : forall b l i q, cf w b -> cf w l -> rec b l = Rf ->
      ~ SubA w q b (TCap i None (Some l)).
    Proof.
      intros b l i q Cb Cl H HS. pose proof Cb as [Fb [_ Sb]]. pose proof Cl as [Fl _].
      destruct (chain_low w Hok Hpd Hsg q b _ HS i l eq_refl (frag_not_cap w l Fl) b Fb
                          (cf_headok w b Fb Sb) (or_introl eq_refl)) as [st [st' [q' [Hr [Hk Hs]]]]].
      exact (rec_compl b l Cb Cl H st Hr st' q' Hk Hs).
    Qed.

    Lemma contained_complete : forall prm a a' b q, capt1 w prm a a' ->
      boxed a = true -> solid w a = true ->
      arg_ok (frag w) prm b = true -> boxed b = true -> solid w b = true ->
      contained_m rec a b prm = Rf -> Cont1 w q prm a' b -> False.
    Proof.
      intros prm a a' b q Hk Ba Sa Hb Bb Sb H HC.
      destruct Hk as [prm a Fa|prm u j Hc Fu|prm u j Hc Fu];
        destruct (arg_ok_cases w prm b Hb) as [[Wb Fb]|[[ub [-> [Hcb Fub]]]|[ub [-> [Hcb Fub]]]]].
      - pose proof (frag_not_wild _ _ Fa) as Wa. rewrite (contained_plain rec a b prm Wa Wb) in H.
        inversion HC as [q0 prm0 a0 v|q0 prm0 a0 bb Hs|q0 prm0 a0 bb Hs
                        |q0 prm0 a0 b0 Hw Hv He|q0 prm0 a0 b0 Hw Hv Hs|q0 prm0 a0 b0 Hw Hv Hs]; subst;
          try discriminate Wb; rewrite Hv in H.
        + unfold deq in He. rewrite He in H. discriminate.
        + apply (rec_plain a b) in Hs; auto; repeat split; auto.
        + apply (rec_plain b a) in Hs; auto; repeat split; auto.
      - pose proof (frag_not_wild _ _ Fa) as Wa. unfold contained_m in H. rewrite Wa in H. cbn in H, Bb, Sb.
        inversion HC as [q0 prm0 a0 v|q0 prm0 a0 bb Hs|q0 prm0 a0 bb Hs
                        |q0 prm0 a0 b0 Hw Hv He|q0 prm0 a0 b0 Hw Hv Hs|q0 prm0 a0 b0 Hw Hv Hs]; subst;
          try discriminate.
        apply (rec_plain a ub) in Hs; auto; repeat split; auto.
      - pose proof (frag_not_wild _ _ Fa) as Wa. unfold contained_m in H. rewrite Wa in H. cbn in H, Bb, Sb.
        inversion HC as [q0 prm0 a0 v|q0 prm0 a0 bb Hs|q0 prm0 a0 bb Hs
                        |q0 prm0 a0 b0 Hw Hv He|q0 prm0 a0 b0 Hw Hv Hs|q0 prm0 a0 b0 Hw Hv Hs]; subst;
          try discriminate.
        apply (rec_plain ub a) in Hs; auto; repeat split; auto.
      - unfold contained_m in H. rewrite Wb in H. cbn in H, Ba, Sa. unfold compat in Hc.
        inversion HC as [q0 prm0 a0 v|q0 prm0 a0 bb Hs|q0 prm0 a0 bb Hs
                        |q0 prm0 a0 b0 Hw Hv He|q0 prm0 a0 b0 Hw Hv Hs|q0 prm0 a0 b0 Hw Hv Hs]; subst;
          try discriminate Wb; rewrite Hv in H, Hc; try discriminate.
        + rewrite (deq_cap_frag w _ _ _ b Fb) in He. discriminate.
        + apply cap_upper_inv in Hs; auto. apply (rec_plain u b) in Hs; auto; repeat split; auto.
      - cbn in H, Ba, Sa, Bb, Sb.
        inversion HC as [q0 prm0 a0 v|q0 prm0 a0 bb Hs|q0 prm0 a0 bb Hs
                        |q0 prm0 a0 b0 Hw Hv He|q0 prm0 a0 b0 Hw Hv Hs|q0 prm0 a0 b0 Hw Hv Hs]; subst;
          try discriminate.
        apply cap_upper_inv in Hs; auto. apply (rec_plain u ub) in Hs; auto; repeat split; auto.
      - cbn in Bb, Sb.
        inversion HC as [q0 prm0 a0 v|q0 prm0 a0 bb Hs|q0 prm0 a0 bb Hs
                        |q0 prm0 a0 b0 Hw Hv He|q0 prm0 a0 b0 Hw Hv Hs|q0 prm0 a0 b0 Hw Hv Hs]; subst;
          try discriminate.
        apply (no_sub_upper_cap w Hok Hsg _ _ _ Hs j (Some u) eq_refl). apply cf_headok; auto.
      - unfold contained_m in H. rewrite Wb in H. cbn in H, Ba, Sa. unfold compat in Hc.
        inversion HC as [q0 prm0 a0 v|q0 prm0 a0 bb Hs|q0 prm0 a0 bb Hs
                        |q0 prm0 a0 b0 Hw Hv He|q0 prm0 a0 b0 Hw Hv Hs|q0 prm0 a0 b0 Hw Hv Hs]; subst;
          try discriminate Wb; rewrite Hv in H, Hc; try discriminate.
        + rewrite (deq_cap_frag w _ _ _ b Fb) in He. discriminate.
        + apply (rec_low b u j q) in Hs; auto; repeat split; auto.
      - cbn in Bb, Sb.
        inversion HC as [q0 prm0 a0 v|q0 prm0 a0 bb Hs|q0 prm0 a0 bb Hs
                        |q0 prm0 a0 b0 Hw Hv He|q0 prm0 a0 b0 Hw Hv Hs|q0 prm0 a0 b0 Hw Hv Hs]; subst;
          try discriminate.
        apply (cap_noupper_inv w _ _ _ _ Hs Fub).
      - cbn in H, Ba, Sa, Bb, Sb.
        inversion HC as [q0 prm0 a0 v|q0 prm0 a0 bb Hs|q0 prm0 a0 bb Hs
                        |q0 prm0 a0 b0 Hw Hv He|q0 prm0 a0 b0 Hw Hv Hs|q0 prm0 a0 b0 Hw Hv Hs]; subst;
          try discriminate.
        apply (rec_low ub u j q) in Hs; auto; repeat split; auto.
    Qed.

    Lemma args_complete_proj : forall ps l l', captl w ps l l' ->
      forallb boxed l = true -> forallb (solid w) l = true ->
      forall lt q i, args_ok (frag w) ps lt = true ->
      forallb boxed lt = true -> forallb (solid w) lt = true ->
      args_m rec ps l lt = Rf -> ContA w q i ps l' lt -> False.
    Proof.
      intros ps l l' Hk. induction Hk as [|prm ps a l a' l' H1 HL IH]; intros Bl Sl lt q i Ha Bt St H HC.
      - inversion HC; subst. cbn in H. discriminate.
      - inversion HC as [|p0 i0 prm0 ps0 a0 l1 b l2 HC1 HCr]; subst.
        rewrite args_ok_cons in Ha. apply andb_prop in Ha. destruct Ha as [Hb Ha].
        cbn in Bl, Sl, Bt, St.
        apply andb_prop in Bl. destruct Bl as [Ba Bl]. apply andb_prop in Sl. destruct Sl as [Sa Sl].
        apply andb_prop in Bt. destruct Bt as [Bb Bt]. apply andb_prop in St. destruct St as [Sb St].
        cbn [args_m] in H. destruct (contained_m rec a b prm) eqn:E; try discriminate.
        + eapply IH; eauto.
        + eapply contained_complete; eauto.
    Qed.
  End Rec.

  Lemma reach_trans : forall a b c, reach w a b -> reach w b c -> reach w a c.
  Proof.
    intros a b c H. induction H as [a|a x b Hx Hr IH]; intros Hbc; [exact Hbc|].
    eapply reach_step; eauto.
  Qed.

  Lemma is_subtype_complete_reach : forall f s t, cf w s -> cf w t -> is_subtype w f s t = Rf ->
    forall st, reach w s st -> forall st' q, Capt w st st' -> ~ SubA w q st' t.
  Proof.
    induction f as [|f IH]; intros s t Cs Ct H st Hr st' q Hk HS; [discriminate|].
    pose proof Cs as [Fs [Bs Ss]]. pose proof Ct as [Ft [Bt St]].
    pose proof (frag_not_cap w t Ft) as Hnt.
    rewrite is_subtype_S in H.
    destruct s as [b pr|c|c args|c|x v ob|v ob| |i uu lo]; try discriminate.
    - (* built-in *)
      destruct (is_bottom_builtin w b) eqn:Hbot; [discriminate|].
      destruct (py_eqb t (TBuiltin b pr)) eqn:E; [discriminate|].
      destruct (get_supertypes w (TBuiltin b pr)) as [sups|] eqn:Hg; [|discriminate].
      apply ofb_rf in H.
      destruct (reach_builtin w _ _ Hr b pr eq_refl) as [bs [prs ->]]. cbn in Hk. subst st'.
      destruct (suba_builtin_inv' w q _ t HS bs prs eq_refl Hnt) as [u [Hru [[b' [pr' [-> Hb']]]|He]]].
      + pose proof (reach_trans _ _ _ Hr Hru) as Hr2.
        destruct (reach_last w _ _ Hr2) as [E'|[x [Hx Hin]]].
        * injection E' as -> _. congruence.
        * destruct (reach_builtin w _ _ Hx b pr eq_refl) as [bx [prx ->]].
          cbn [direct_supers] in Hin. destruct prx; [contradiction|].
          destruct (find_builtin w bx) as [bi|] eqn:Hbx; [|contradiction].
          apply in_map_iff in Hin. destruct Hin as [b'' [E'' Hb'']]. injection E'' as -> _.
          rewrite (tok_no_bottom_super w Hok bx bi b' Hbx Hb'') in Hb'. discriminate.
      + pose proof (reach_trans _ _ _ Hr Hru) as Hr2.
        pose proof (get_supertypes_complete_cf w Hok Hpd Hsg _ sups Hg Cs u Hr2) as Hin.
        assert (X : memb t sups = true) by (apply existsb_exists; eauto). congruence.
    - (* class *)
      destruct (nominal_complete_proj w Hok Hpd Hsg (is_subtype w f) (TClass c) t Cs) as [E Hsup]; auto.
      { cbn. lia. }
      inversion Hr as [s0 E0|s0 x u Hx Hxu]; subst.
      + cbn in Hk. subst st'.
        inversion HS as [| | | |p0 c0|p0 c0 d s0 t0 Hd Hin Hs| | | | |p0 i u l s0 Hs| |]; subst.
        * cbn in E. rewrite Nat.eqb_refl in E. discriminate.
        * assert (Hin' : In s0 (direct_supers w (TClass c))) by (cbn [direct_supers]; rewrite Hd; exact Hin).
          assert (Hg : good1 w (TClass c) = true) by (unfold good1; cbn; exact Fs).
          pose proof (direct_supers_good1 w Hok _ s0 Hg Hin') as Hgs.
          exact (IH s0 t (step_cf w Hok Hpd Hsg _ s0 Cs Hin') Ct (Hsup s0 Hin') s0 (reach_refl w s0)
                    s0 _ (Capt_good1 w s0 Hgs) Hs).
        * exfalso. eapply Hnt. reflexivity.
      + exact (IH x t (step_cf w Hok Hpd Hsg _ x Cs Hx) Ct (Hsup x Hx) st Hxu st' q Hk HS).
    - (* instantiation *)
      destruct (nominal_m w (is_subtype w f) (TApp c args) t) eqn:Hn; try discriminate.
      destruct (nominal_complete_proj w Hok Hpd Hsg (is_subtype w f) (TApp c args) t Cs) as [E Hsup]; auto.
      { cbn. lia. }
      inversion Hr as [s0 E0|s0 x u Hx Hxu]; subst.
      + destruct Hk as [d [l' [Hd [-> Hk]]]].
        inversion HS as [| | | | | | | | | |p0 i u l s0 Hs
                        |p0 c0 d0 args0 bargs Hd0 Hl1 Hl2 HC|p0 c0 d0 args0 s0 t0 Hd0 Hl1 Hin Hs]; subst.
        * exfalso. eapply Hnt. reflexivity.
        * rewrite Hd in Hd0. injection Hd0 as <-. rewrite Nat.eqb_refl, Hd in H.
          rewrite (captl_open _ _ _ _ Hk) in HC.
          destruct (frag_app_inv w c bargs Ft) as [d' [Hd' [_ Ha']]]. rewrite Hd in Hd'. injection Hd' as <-.
          exact (args_complete_proj (is_subtype w f) IH (c_params d) args l' Hk Bs Ss bargs q 0 Ha' Bt St H HC).
        * rewrite Hd in Hd0. injection Hd0 as <-. rewrite (captl_open _ _ _ _ Hk) in Hs.
          destruct (step_app_s0 w Hok Hpd c d args l' s0 Hd Hk Hin) as [Hin' [Fu [Ku _]]].
          exact (IH _ t (step_cf w Hok Hpd Hsg _ _ Cs Hin') Ct (Hsup _ Hin') _ (reach_refl w _) _ _ Ku Hs).
      + exact (IH x t (step_cf w Hok Hpd Hsg _ x Cs Hx) Ct (Hsup x Hx) st Hxu st' q Hk HS).
  Qed.

  Lemma is_subtype_complete_cf : forall f s t, cf w s -> cf w t -> is_subtype w f s t = Rf ->
    forall q, ~ SubA w q s t.
  Proof.
    intros f s t Cs Ct H q HS. pose proof Cs as [Fs _]. pose proof Ct as [Ft _].
    destruct (capt_of_self w s t q Fs (frag_not_cap w t Ft) HS) as [s' [Hk HS']].
    exact (is_subtype_complete_reach f s t Cs Ct H s (reach_refl w s) s' q Hk HS').
  Qed.
End MainC.

Lemma ground_boxed_solid : forall w t, ground w t = true -> boxed t = true /\ solid w t = true.
Proof.
  intros w.
  assert (H : forall t, (ground w t = true -> boxed t = true /\ solid w t = true) /\
                        (match t with TWild _ (Some b) => ground w b = true -> boxed b = true /\ solid w b = true
                                 | _ => True end)).
  { apply ty_ind'; intros; split; try exact I; try (intros; discriminate); try (intros; split; reflexivity).
    - cbn. intros Hg. apply andb_prop in Hg. destruct Hg as [G1 G2]. rewrite G1, G2. split; reflexivity.
    - cbn [ground boxed solid]. induction H as [|a l Ha Hl IH]; [split; reflexivity|].
      cbn [forallb]. intros Hg. apply andb_prop in Hg. destruct Hg as [G1 G2].
      destruct (IH G2) as [I1 I2]. rewrite I1, I2, !andb_true_r. destruct Ha as [A1 A2].
      destruct a as [b pr|c'|c' l'|c'|x v ob|v ob| |i u lo]; try discriminate; try (apply A1; exact G1).
      destruct v, ob as [b|]; try discriminate; apply andb_prop in G1; destruct G1 as [G0 G1];
        cbn [boxed solid]; apply A2; exact G1.
    - apply H. }
  intros t. apply H.
Qed.

Lemma is_subtype_complete_proj_lem : forall w fuel n m p s t,
  table_ok w = true -> params_direct w = true -> supers_solid w = true ->
  ground w s = true -> ground w t = true ->
  wf_ty w n s = true -> wf_ty w m t = true ->
  is_subtype w fuel s t = Rf -> ~ SubA w p s t.
Proof.
  intros w fuel n m p s t Hok Hpd Hsg Gs Gt Ws Wt H.
  destruct (ground_boxed_solid w s Gs) as [Bs Ss]. destruct (ground_boxed_solid w t Gt) as [Bt St].
  apply (is_subtype_complete_cf w Hok Hpd Hsg fuel s t); auto; repeat split; auto;
    eapply wf_frag; eauto; eapply ground_proj_closed; eauto.
Qed.

(* ---------- corollaries ---------- *)
Lemma is_subtype_exact_proj_lem : forall w fuel n m s t,
  table_ok w = true -> params_direct w = true -> supers_solid w = true ->
  ground w s = true -> ground w t = true ->
  wf_ty w n s = true -> wf_ty w m t = true ->
  is_subtype w fuel s t <> Rerr ->
  (is_subtype w fuel s t = Rt <-> SubA w [] s t).
Proof.
  intros w fuel n m s t Hok Hpd Hsg Gs Gt Ws Wt Hne. split.
  - intros H. eapply is_subtype_sound_ground_lem; eauto.
  - intros HS. destruct (is_subtype w fuel s t) eqn:E; [reflexivity| |congruence].
    exfalso. exact (is_subtype_complete_proj_lem w fuel n m [] s t Hok Hpd Hsg Gs Gt Ws Wt E HS).
Qed.

Lemma is_subtype_refl_frag_lem : forall w f t, frag w t = true -> is_subtype w (S f) t t = Rt.
Proof.
  intros w f t Ft. rewrite is_subtype_S.
  destruct t; try discriminate; try reflexivity.
  - destruct (is_bottom_builtin w b); [reflexivity|]. rewrite py_eqb_refl. reflexivity.
  - unfold nominal_m. rewrite py_eqb_refl. reflexivity.
  - unfold nominal_m. rewrite py_eqb_refl. reflexivity.
Qed.

Lemma is_subtype_rf_stable_proj_lem : forall w f1 f2 n m s t,
  table_ok w = true -> params_direct w = true -> supers_solid w = true ->
  ground w s = true -> ground w t = true ->
  wf_ty w n s = true -> wf_ty w m t = true ->
  is_subtype w f1 s t = Rf -> is_subtype w f2 s t <> Rt.
Proof.
  intros w f1 f2 n m s t Hok Hpd Hsg Gs Gt Ws Wt H1 H2.
  apply (is_subtype_complete_proj_lem w f1 n m [] s t Hok Hpd Hsg Gs Gt Ws Wt H1).
  eapply is_subtype_sound_ground_lem; eauto.
Qed.

(* the converse on the fuel-free form of the fragment *)
Lemma is_subtype_complete_frag_lem : forall w fuel p s t,
  table_ok w = true -> params_direct w = true -> supers_solid w = true ->
  frag w s = true -> boxed s = true -> solid w s = true ->
  frag w t = true -> boxed t = true -> solid w t = true ->
  is_subtype w fuel s t = Rf -> ~ SubA w p s t.
Proof.
  intros w fuel p s t Hok Hpd Hsg Fs Bs Ss Ft Bt St H.
  apply (is_subtype_complete_cf w Hok Hpd Hsg fuel s t); auto; repeat split; auto.
Qed.
