(* Properties_C10.v -- the property theorems, nothing else. *)
From Coq Require Import List Arith Bool.
Import ListNotations.
From Heph Require Import Types.Syntax Types.Subst Types.Subtype Types.Unify Types.UnifySpec
  Types.UnifyDefs Types.UnifyProofs.

(* U1: no variable is given two types *)
Theorem unify_keys_distinct : forall w al any fuel same t1 t2 m,
  unify w al any fuel same t1 t2 = Val m -> keys_distinct m = true.
Proof. exact unify_keys_distinct_lemma. Qed.
Print Assumptions unify_keys_distinct.

(* U2: keys are type variables; nothing is assigned None *)
Theorem unify_assigns_types : forall w al any fuel same t1 t2 m k v,
  unify w al any fuel same t1 t2 = Val m -> In (k, v) m -> is_tvar k = true /\ v <> None.
Proof. exact unify_assigns_types_lemma. Qed.
Print Assumptions unify_assigns_types.

(* U3: _update_type_var_map succeeds exactly when the variable is unassigned or already
   assigned an equal type; it then (re)binds that variable and nothing else *)
Theorem unify_conflict_detected : forall m k v,
  (forall m', update_map m k v = Some m' ->
     (forall old, tv_get m k = Some (Some old) -> exists x, v = Some x /\ py_eqb old x = true) /\
     tv_get m' k = Some v /\
     (forall k', py_eqb k' k = true -> tv_get m' k' = Some v) /\
     (forall k', py_eqb k' k = false -> tv_get m' k' = tv_get m k')) /\
  (update_map m k v = None ->
     exists old, tv_get m k = Some (Some old) /\ forall x, v = Some x -> py_eqb old x = false).
Proof. exact unify_conflict_detected_lemma. Qed.
Print Assumptions unify_conflict_detected.

(* U3 for merging the answer of a recursive call into the accumulated assignment *)
Theorem merge_conflict_detected : forall res m m', merge m res = Some m' -> keys_distinct res = true ->
  (forall k v, tv_get res k = Some v ->
     tv_get m' k = Some v /\
     (forall old, tv_get m k = Some (Some old) -> exists x, v = Some x /\ py_eqb old x = true)) /\
  (forall k, tv_get res k = None -> tv_get m' k = tv_get m k).
Proof. exact merge_conflict_detected_lemma. Qed.
Print Assumptions merge_conflict_detected.

(* U5 as first stated is FALSE: two key objects that are == in Python may carry bounds that
   differ in a primitive flag, and is_subtype is not invariant under == *)
Theorem unify_bounds_refuted :
  ~ (forall w al any fuel t1 t2 m k v x vv b,
       unify w al any fuel true t1 t2 = Val m -> In (k, Some v) m -> k = TVar x vv (Some b) ->
       has_tv b = false -> satisfies w any v b).
Proof. exact unify_bounds_refuted_lemma. Qed.
Print Assumptions unify_bounds_refuted.

(* U5, partial: extra hypothesis = Python equality determines the bound b *)
Theorem unify_bounds_partial : forall w al any fuel t1 t2 m k v x vv b,
  (forall b', py_eqb b' b = true -> b' = b) ->
  unify w al any fuel true t1 t2 = Val m -> In (k, Some v) m -> k = TVar x vv (Some b) ->
  has_tv b = false -> satisfies w any v b.
Proof. exact unify_bounds_partial_lemma. Qed.
Print Assumptions unify_bounds_partial.

(* U5, no extra hypothesis, conclusion up to Python equality of the bound (both modes) *)
Theorem unify_bounds_upto : forall w al any fuel same t1 t2 m k v x vv b,
  unify w al any fuel same t1 t2 = Val m -> In (k, Some v) m -> k = TVar x vv (Some b) ->
  has_tv b = false -> exists b', py_eqb b' b = true /\ satisfies w any v b'.
Proof. exact unify_bounds_upto_lemma. Qed.
Print Assumptions unify_bounds_upto.

(* U4 as first stated is FALSE: a bounded variable occurring twice can be assigned at one
   occurrence (argument is a subtype of the bound) and matched against its bound at the other *)
Theorem unify_matches_refuted :
  ~ (forall w al any fuel t1 t2 m, has_tv t1 = false ->
       unify w al any fuel true t1 t2 = Val m -> m <> [] -> Matches m t2 t1).
Proof. exact unify_matches_refuted_lemma. Qed.
Print Assumptions unify_matches_refuted.

(* ... and also false, even with variable-free bounds, when the argument lists have different
   lengths (terms that ParameterizedType.__init__ rejects) *)
Theorem unify_matches_arity_needed :
  ~ (forall w al any fuel t1 t2 m, has_tv t1 = false -> closed_bounds t2 = true ->
       unify w al any fuel true t1 t2 = Val m -> m <> [] -> Matches m t2 t1).
Proof. exact unify_matches_arity_needed_lemma. Qed.
Print Assumptions unify_matches_arity_needed.

(* U4, partial: extra hypotheses = both types respect the declared arities and every bounded
   variable of the pattern has a variable-free bound *)
Theorem unify_matches_partial : forall w al any fuel t1 t2 m,
  arity_ok w t1 = true -> arity_ok w t2 = true -> closed_bounds t2 = true ->
  unify w al any fuel true t1 t2 = Val m -> m <> [] -> Matches m t2 t1.
Proof. exact unify_matches_partial_lemma. Qed.
Print Assumptions unify_matches_partial.

(* U4, weak: arities only; conclusion = Matches without the "variable left open" premise of
   the bounded-variable rule (MatchesW, Types/UnifyDefs.v) *)
Theorem unify_matches_weak : forall w al any fuel t1 t2 m,
  arity_ok w t1 = true -> arity_ok w t2 = true ->
  unify w al any fuel true t1 t2 = Val m -> m <> [] -> MatchesW m t2 t1.
Proof. exact unify_matches_weak_lemma. Qed.
Print Assumptions unify_matches_weak.

(* non-vacuity: A<Box<Int>, out String> against A<Box<X>, out Y>, against A<Box<X>, in Y>
   (projections of different kinds), and the repeated-variable conflict A<Int,String> / A<Y,Y> *)
Theorem unify_example_projection :
  unify w4 [] 1 5 true (TApp 2 [TApp 1 [Int4]; TWild Cov (Some Str4)])
                       (TApp 2 [TApp 1 [Z4]; TWild Cov (Some Y4)])
  = Val [(Z4, Some Int4); (Y4, Some Str4)].
Proof. exact unify_example_out. Qed.
Print Assumptions unify_example_projection.

Theorem unify_example_projection_kinds :
  unify w4 [] 1 5 true (TApp 2 [TApp 1 [Int4]; TWild Cov (Some Str4)])
                       (TApp 2 [TApp 1 [Z4]; TWild Contra (Some Y4)])
  = Val [].
Proof. exact unify_example_in. Qed.
Print Assumptions unify_example_projection_kinds.

Theorem unify_example_repeated_variable :
  unify w4 [] 1 5 true (TApp 2 [Int4; Str4]) (TApp 2 [Y4; Y4]) = Val [].
Proof. exact unify_example_conflict. Qed.
Print Assumptions unify_example_repeated_variable.

Theorem unify_example_is_unifier :
  Matches [(Z4, Some Int4); (Y4, Some Str4)]
          (TApp 2 [TApp 1 [Z4]; TWild Cov (Some Y4)])
          (TApp 2 [TApp 1 [Int4]; TWild Cov (Some Str4)]).
Proof. exact unify_example_matches. Qed.
Print Assumptions unify_example_is_unifier.

(* U6: in supertype-matching mode a non-empty answer is the answer of the non-recursive
   branch (names agree, or the pattern is a variable) on a supertype reached from the target
   by repeatedly taking the last direct supertype *)
Theorem unify_supertype_mode : forall w al any fuel t1 t2 m,
  unify w al any fuel false t1 t2 = Val m -> m <> [] ->
  exists s f', last_super_chain w t1 s /\
               unify w al any f' false s t2 = Val m /\
               (nm_eqb (name_of al s) (name_of al t2) = true \/ is_tvar t2 = true).
Proof. exact unify_supertype_mode_lemma. Qed.
Print Assumptions unify_supertype_mode.
