(* Properties_C10.v -- the property theorems, nothing else. *)
From Coq Require Import List Arith Bool.
Import ListNotations.
From Heph Require Import Types.Syntax Types.Subst Types.Subtype Types.Unify Types.UnifyProofs.

Theorem fresh_variable_is_assigned : forall m k v, tv_get m k = None -> update_map m k v = Some (tv_set m k v).
Proof. exact update_map_fresh. Qed.
Print Assumptions fresh_variable_is_assigned.
