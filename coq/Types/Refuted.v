(* Types/Refuted.v -- concrete counterexamples: unrestricted soundness of is_subtype (C1) and
   the projection-free statements B1/B2 without the extra table conditions. *)
From Coq Require Import List Arith Bool.
Import ListNotations.
From Heph Require Import Types.Syntax Types.Subst Types.Subtype Types.Decl Types.TableOk Types.RefSound.

Definition mkb (sup : list nat) (bot : bool) : binfo :=
  {| b_supers := sup; b_bottom := bot; b_assign := []; b_has_prim := false |}.

(* 1 = Any, 2 = Number <: Any, 3 = Int <: Any, Number *)
Definition bt3 : btable := [(1, mkb [] false); (2, mkb [1] false); (3, mkb [1; 2] false)].
Definition tAny := TBuiltin 1 false.
Definition tNumber := TBuiltin 2 false.
Definition tInt := TBuiltin 3 false.
Definition T10 := TVar 10 Inv None.
Definition T20 := TVar 20 Inv None.
Definition U77 := TVar 77 Inv None.
Definition Tin := TVar 10 Contra None.
Definition outNumber := TWild Cov (Some tNumber).

Definition unsound_witness (w : world) (s t : ty) : Prop :=
  wf_ty w 20 s = true /\ wf_ty w 20 t = true /\ table_ok w = true /\
  is_subtype w 40 s t = Rt /\ ~ SubA w [] s t.

Ltac refute_with :=
  repeat split; try (vm_compute; reflexivity);
  apply (sub_ref_no_sound_lem _ 40); vm_compute; reflexivity.

(* class 1 = L<T>, class 2 = A<T>, class 3 = B<T> : A<L<T>>;  B<out Number> <: A<L<out Number>> *)
Definition w_np : world :=
  {| w_ct := [(1, {| c_params := [T10]; c_supers := [] |});
              (2, {| c_params := [T10]; c_supers := [] |});
              (3, {| c_params := [T10]; c_supers := [TApp 2 [TApp 1 [T10]]] |})];
     w_bt := bt3; w_array := None |}.

Lemma refuted_nested_projection_lem :
  exists w s t, unsound_witness w s t.
Proof. exists w_np, (TApp 3 [outNumber]), (TApp 2 [TApp 1 [outNumber]]). refute_with. Qed.

(* class 1 = D<in T>, class 2 = C<T> : D<T>;  C<out Number> <: D<Int> *)
Definition w_cp : world :=
  {| w_ct := [(1, {| c_params := [Tin]; c_supers := [] |});
              (2, {| c_params := [T10]; c_supers := [TApp 1 [T10]] |})];
     w_bt := bt3; w_array := None |}.

Lemma refuted_conflicting_projection_lem :
  exists w s t, unsound_witness w s t.
Proof. exists w_cp, (TApp 2 [outNumber]), (TApp 1 [tInt]). refute_with. Qed.

(* class 1 = Y<S>, class 2 = X<T> : Y<T>;  X<U> <: Y<T> (T is X's own parameter, U unrelated) *)
Definition w_tv : world :=
  {| w_ct := [(1, {| c_params := [T10]; c_supers := [] |});
              (2, {| c_params := [T20]; c_supers := [TApp 1 [T20]] |})];
     w_bt := bt3; w_array := None |}.

Lemma refuted_type_variable_lem :
  exists w s t, unsound_witness w s t.
Proof. exists w_tv, (TApp 2 [U77]), (TApp 1 [T20]). refute_with. Qed.

(* ---------- the projection-free statements need the last three conjuncts of table_ok ---------- *)
(* table_ok without supers_not_var, no_bottom_supers, boxed_table *)
Definition table_ok_weak (w : world) : bool :=
  nodup_nat (map fst (w_ct w)) &&
  nodup_nat (map fst (w_bt w)) &&
  forallb (fun cd => class_ok w (fst cd) (snd cd)) (w_ct w) &&
  forallb (fun bb => builtin_ok w (fst bb) (snd bb)) (w_bt w).

(* a bare type variable as declared supertype: class 1 = C<T : Number> : T;  C<Any> <: Number
   is answered True (direct_supers substitutes parameterized supertypes only and
   TypeParameter.is_subtype compares the bound) *)
Definition TNum := TVar 10 Inv (Some tNumber).
Definition w_sv : world :=
  {| w_ct := [(1, {| c_params := [TNum]; c_supers := [TNum] |})]; w_bt := bt3; w_array := None |}.

Lemma sound_pf_refuted_var_super_lem :
  exists w fuel p s t,
    table_ok_weak w = true /\ no_bottom_supers w = true /\ boxed_table w = true /\
    plain_closed s = true /\ plain_closed t = true /\
    arity_ok w s = true /\ arity_ok w t = true /\ boxed s = true /\ boxed t = true /\
    is_subtype w fuel s t = Rt /\ ~ SubA w p s t.
Proof.
  exists w_sv, 40, [], (TApp 1 [tAny]), tNumber.
  repeat split; try (vm_compute; reflexivity).
  apply (sub_ref_no_sound_lem _ 40); vm_compute; reflexivity.
Qed.

(* a bottom built-in declared as a supertype of another built-in *)
Definition w_bot : world :=
  {| w_ct := []; w_bt := [(1, mkb [] true); (2, mkb [1] false); (3, mkb [] false)]; w_array := None |}.

Lemma complete_pf_refuted_bottom_super_lem :
  exists w fuel p s t,
    table_ok_weak w = true /\ supers_not_var w = true /\ boxed_table w = true /\
    plain_closed s = true /\ plain_closed t = true /\
    arity_ok w s = true /\ arity_ok w t = true /\ boxed s = true /\ boxed t = true /\
    is_subtype w fuel s t = Rf /\ SubA w p s t.
Proof.
  exists w_bot, 40, [], (TBuiltin 2 false), (TBuiltin 3 false).
  repeat split; try (vm_compute; reflexivity).
  apply (sub_ref_yes_sound_lem _ 40); vm_compute; reflexivity.
Qed.

(* primitive and boxed variants of one built-in are == for get_supertypes' set, but only
   the boxed one has supertypes: class 1 : int, Int;  class 1 <: Number is answered False *)
Definition w_prim : world :=
  {| w_ct := [(1, {| c_params := []; c_supers := [TBuiltin 3 true; TBuiltin 3 false] |})];
     w_bt := bt3; w_array := None |}.

Lemma complete_pf_refuted_prim_super_lem :
  exists w fuel p s t,
    table_ok_weak w = true /\ supers_not_var w = true /\ no_bottom_supers w = true /\
    plain_closed s = true /\ plain_closed t = true /\
    arity_ok w s = true /\ arity_ok w t = true /\ boxed s = true /\ boxed t = true /\
    is_subtype w fuel s t = Rf /\ SubA w p s t.
Proof.
  exists w_prim, 40, [], (TClass 1), tNumber.
  repeat split; try (vm_compute; reflexivity).
  apply (sub_ref_yes_sound_lem _ 40); vm_compute; reflexivity.
Qed.

(* the full table_ok is not enough for B2 either when s mentions a primitive:
   class 1 = A<out T>, class 2 = C<T, U> : A<T>, A<U>;  C<int, Int> <: A<Number> is answered False *)
Definition Tout := TVar 10 Cov None.
Definition U11 := TVar 11 Inv None.
Definition w_pa : world :=
  {| w_ct := [(1, {| c_params := [Tout]; c_supers := [] |});
              (2, {| c_params := [T10; U11]; c_supers := [TApp 1 [T10]; TApp 1 [U11]] |})];
     w_bt := bt3; w_array := None |}.

Lemma complete_pf_refuted_prim_arg_lem :
  exists w fuel p s t,
    table_ok w = true /\ plain_closed s = true /\ plain_closed t = true /\
    arity_ok w s = true /\ arity_ok w t = true /\
    is_subtype w fuel s t = Rf /\ SubA w p s t.
Proof.
  exists w_pa, 40, [], (TApp 2 [TBuiltin 3 true; tInt]), (TApp 1 [tNumber]).
  repeat split; try (vm_compute; reflexivity).
  apply (sub_ref_yes_sound_lem _ 40); vm_compute; reflexivity.
Qed.

(* transitivity of SubA fails across a primitive: int <: Int <: Number but not int <: Number *)
Definition w_b3 : world := {| w_ct := []; w_bt := bt3; w_array := None |}.

Lemma suba_trans_pf_refuted_lem :
  exists w p a b c,
    table_ok w = true /\ plain_closed a = true /\ plain_closed b = true /\ plain_closed c = true /\
    arity_ok w a = true /\ arity_ok w b = true /\ arity_ok w c = true /\
    SubA w p a b /\ SubA w p b c /\ ~ SubA w p a c.
Proof.
  exists w_b3, [], (TBuiltin 3 true), tInt, tNumber.
  repeat split; try (vm_compute; reflexivity).
  - apply (sub_ref_yes_sound_lem _ 40); vm_compute; reflexivity.
  - apply (sub_ref_yes_sound_lem _ 40); vm_compute; reflexivity.
  - apply (sub_ref_no_sound_lem _ 40); vm_compute; reflexivity.
Qed.
