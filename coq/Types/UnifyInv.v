(* Types/UnifyInv.v -- one-step unfolding of `unify` (Types/Unify.v) into named pieces and the
   inversion lemmas every proof about it uses.  The pieces are literally the body of `unify`
   (the unfolding equations are proved by reflexivity). *)
From Coq Require Import List Arith Bool Lia.
Import ListNotations.
From Heph Require Import Types.Syntax Types.Subst Types.Subtype Types.Unify Types.UnifySpec
  Types.SubstProofs Types.UnifyDefs.

(* ---------- bound_rec: the only equation needed ---------- *)
Lemma bound_rec_S_some : forall w any f x vv b,
  bound_rec w any (S f) (TVar x vv (Some b)) =
  if is_tvar b then bound_rec w any f b
  else if negb (has_tv b) then Val (Some b)
  else match to_tvf w any f b with Val r => Val (Some r) | Exc => Exc end.
Proof. reflexivity. Qed.

Lemma is_tvar_has_tv : forall b, has_tv b = false -> is_tvar b = false.
Proof. intros [] H; cbn in *; congruence. Qed.

Lemma bound_rec_closed : forall w any f x vv b, has_tv b = false ->
  bound_rec w any (S f) (TVar x vv (Some b)) = Val (Some b).
Proof.
  intros. rewrite bound_rec_S_some. rewrite (is_tvar_has_tv b H), H. reflexivity.
Qed.

Global Opaque is_subtype bound_rec to_tvf direct_supers sub_fuel.

Section Body.
  Context (w : world) (alias : list (nat * nat)) (any : nat).

  Section Go.
    Variable rec : ty -> ty -> out tvmap.     (* unify f true *)

    (* what happens to one pair (x1, y2) once wildcards are stripped; k = the rest of the loop *)
    Definition inner_step (x1 : option ty) (y2 : ty) (m : tvmap) (k : tvmap -> out tvmap) : out tvmap :=
      if negb (has_tv y2) then
        if opt_eqb x1 (Some y2) then k m else Val []
      else
        match y2 with
        | TVar _ _ (Some vb) =>
            match x1 with
            | None => Exc
            | Some y1 =>
                match is_subtype w sub_fuel y1 vb with
                | Rerr => Exc
                | Rt => match update_map m y2 x1 with
                        | Some m' => k m'
                        | None => Val []
                        end
                | Rf =>
                    if is_app vb && is_app y1 then
                      match rec y1 vb with
                      | Exc => Exc
                      | Val [] => Val []
                      | Val res => match merge m res with
                                   | Some m' => k m'
                                   | None => Val []
                                   end
                      end
                    else Val []
                end
            end
        | TVar _ _ None =>
            match update_map m y2 x1 with
            | Some m' => k m'
            | None => Val []
            end
        | TApp _ _ =>
            match x1 with
            | Some (TApp _ _ as y1) =>
                match rec y1 y2 with
                | Exc => Exc
                | Val [] => Val []
                | Val res => match merge m res with
                             | Some m' => k m'
                             | None => Val []
                             end
                end
            | _ => Val []
            end
        | _ => Val []
        end.

    Definition arg_step (a1 a2 : ty) (m : tvmap) (k : tvmap -> out tvmap) : out tvmap :=
      if is_wild a2 && negb (is_wild a1) then Val []
      else if is_wild a2 && negb (var_eqb (wvar a1) (wvar a2)) then Val []
      else if is_wild a2 && is_none (wbound a1) && is_none (wbound a2) then k m
      else if is_wild a2 && (is_none (wbound a1) || is_none (wbound a2)) then Val []
      else
        let '(x1, x2) := if is_wild a2 then (wbound a1, wbound a2)
                         else (Some a1, Some a2) in
        match x2 with
        | None => Exc
        | Some y2 => inner_step x1 y2 m k
        end.

    Fixpoint go_args (l1 l2 : list ty) (m : tvmap) : out tvmap :=
      match l1 with
      | [] => Val m
      | a1 :: l1' =>
          match l2 with
          | [] => Exc
          | a2 :: l2' => arg_step a1 a2 m (go_args l1' l2')
          end
      end.
  End Go.

  Definition top_both (t1 t2 : ty) : option (out tvmap) :=
    if is_tvar t1 && is_tvar t2 then
      match bound_rec w any 20 t1, bound_rec w any 20 t2 with
      | Exc, _ | _, Exc => Some Exc
      | Val b1, Val b2 =>
          match b1, b2 with
          | None, None => Some (Val [(t2, Some t1)])
          | _, None => Some (Val [(t2, Some t1)])
          | Some x, Some y =>
              match is_subtype w sub_fuel x y with
              | Rt => Some (Val [(t2, Some t1)])
              | Rf => None
              | Rerr => Some Exc
              end
          | None, Some _ => None
          end
      end
    else None.

  Definition unify_rest (rec : ty -> ty -> out tvmap) (t1 t2 : ty) : out tvmap :=
    match top_both t1 t2 with
    | Some r => r
    | None =>
        if is_tvar t2 then
          match bound_rec w any 20 t2 with
          | Exc => Exc
          | Val None => Val [(t2, Some t1)]
          | Val (Some b) =>
              match is_subtype w sub_fuel t1 b with
              | Rt => Val [(t2, Some t1)]
              | Rf => Val []
              | Rerr => Exc
              end
          end
        else
          match t1 with
          | TApp c1 args1 =>
              match t2 with
              | TApp c2 args2 =>
                  if negb (Nat.eqb c1 c2) then Val []
                  else go_args rec args1 args2 []
              | _ => Exc
              end
          | _ => Val []
          end
    end.

  Definition unify_body (rec : bool -> ty -> ty -> out tvmap) (same : bool) (t1 t2 : ty) : out tvmap :=
    if same && negb (same_pyclass t1 t2) then Val []
    else if negb same && negb (nm_eqb (name_of alias t1) (name_of alias t2)) && negb (is_tvar t2) then
      match rev (direct_supers w t1) with
      | [] => Val []
      | s :: _ => rec same s t2
      end
    else unify_rest (rec true) t1 t2.

  Lemma unify_O : forall same t1 t2, unify w alias any 0 same t1 t2 = Exc.
  Proof. reflexivity. Qed.

  Lemma unify_S : forall f same t1 t2,
    unify w alias any (S f) same t1 t2 = unify_body (unify w alias any f) same t1 t2.
  Proof. reflexivity. Qed.

  Lemma go_nil : forall rec l2 m, go_args rec [] l2 m = Val m.
  Proof. reflexivity. Qed.

  Lemma go_cons : forall rec a1 l1 a2 l2 m,
    go_args rec (a1 :: l1) (a2 :: l2) m = arg_step rec a1 a2 m (go_args rec l1 l2).
  Proof. reflexivity. Qed.

  Lemma go_cons_nil : forall rec a1 l1 m, go_args rec (a1 :: l1) [] m = Exc.
  Proof. reflexivity. Qed.

  (* ---------- what one loop iteration does, as a relation ---------- *)
  Inductive ArgPair : ty -> ty -> ty -> ty -> Prop :=
  | AP_plain a1 a2 : is_wild a2 = false -> ArgPair a1 a2 a1 a2
  | AP_proj v y1 y2 : ArgPair (TWild v (Some y1)) (TWild v (Some y2)) y1 y2.

  Inductive Inner (rec : ty -> ty -> out tvmap) (m : tvmap) : ty -> ty -> tvmap -> Prop :=
  | In_closed y1 y2 : has_tv y2 = false -> py_eqb y1 y2 = true -> Inner rec m y1 y2 m
  | In_sub x v vb y1 m' :
      is_subtype w sub_fuel y1 vb = Rt ->
      update_map m (TVar x v (Some vb)) (Some y1) = Some m' ->
      Inner rec m y1 (TVar x v (Some vb)) m'
  | In_bound x v vb y1 res m' :
      is_subtype w sub_fuel y1 vb = Rf -> is_app vb = true -> is_app y1 = true ->
      rec y1 vb = Val res -> res <> [] -> merge m res = Some m' ->
      Inner rec m y1 (TVar x v (Some vb)) m'
  | In_free x v y1 m' :
      update_map m (TVar x v None) (Some y1) = Some m' ->
      Inner rec m y1 (TVar x v None) m'
  | In_app c ps d ts res m' :
      has_tv (TApp c ps) = true ->
      rec (TApp d ts) (TApp c ps) = Val res -> res <> [] -> merge m res = Some m' ->
      Inner rec m (TApp d ts) (TApp c ps) m'.

  Inductive Step (rec : ty -> ty -> out tvmap) (m : tvmap) : ty -> ty -> tvmap -> Prop :=
  | St_star v : Step rec m (TWild v None) (TWild v None) m
  | St_pair a1 a2 y1 y2 m' : ArgPair a1 a2 y1 y2 -> Inner rec m y1 y2 m' -> Step rec m a1 a2 m'.

  Lemma inner_inv : forall rec y1 y2 m k r,
    inner_step rec (Some y1) y2 m k = Val r ->
    r = [] \/ exists m', Inner rec m y1 y2 m' /\ k m' = Val r.
  Proof.
    intros rec y1 y2 m k r H. unfold inner_step in H.
    destruct (has_tv y2) eqn:HT; cbn [negb] in H; cbv iota in H.
    - destruct y2 as [b pr|c|c ps|c|x v ob|v ob| |i u l];
        try (left; injection H as <-; reflexivity).
      + (* TApp *)
        destruct y1 as [b pr|d|d ts|d|x v ob|v ob| |i u l];
          try (left; injection H as <-; reflexivity).
        destruct (rec (TApp d ts) (TApp c ps)) as [res|] eqn:R; [|discriminate].
        destruct res as [|e res]; [left; injection H as <-; reflexivity|].
        destruct (merge m (e :: res)) as [m'|] eqn:M; [|left; injection H as <-; reflexivity].
        right. exists m'. split; [|exact H].
        eapply In_app; eauto. discriminate.
      + (* TVar *)
        destruct ob as [vb|].
        * destruct (is_subtype w sub_fuel y1 vb) eqn:S; [| |discriminate].
          -- destruct (update_map m (TVar x v (Some vb)) (Some y1)) as [m'|] eqn:U;
               [|left; injection H as <-; reflexivity].
             right. exists m'. split; [|exact H].
             eapply In_sub; eauto.
          -- destruct (is_app vb && is_app y1) eqn:A; [|left; injection H as <-; reflexivity].
             apply andb_prop in A. destruct A as [A1 A2].
             destruct (rec y1 vb) as [res|] eqn:R; [|discriminate].
             destruct res as [|e res]; [left; injection H as <-; reflexivity|].
             destruct (merge m (e :: res)) as [m'|] eqn:M; [|left; injection H as <-; reflexivity].
             right. exists m'. split; [|exact H].
             eapply In_bound; eauto. discriminate.
        * destruct (update_map m (TVar x v None) (Some y1)) as [m'|] eqn:U;
            [|left; injection H as <-; reflexivity].
          right. exists m'. split; [|exact H].
          eapply In_free; eauto.
    - unfold opt_eqb in H. destruct (py_eqb y1 y2) eqn:E; [|left; injection H as <-; reflexivity].
      right. exists m. split; [|exact H]. apply In_closed; assumption.
  Qed.

  Lemma arg_inv : forall rec a1 a2 m k r,
    arg_step rec a1 a2 m k = Val r ->
    r = [] \/ exists m', Step rec m a1 a2 m' /\ k m' = Val r.
  Proof.
    intros rec a1 a2 m k r H. unfold arg_step in H.
    destruct (is_wild a2) eqn:W2.
    - destruct a2 as [| | | | |v2 b2| |]; try discriminate W2.
      destruct a1 as [| | | | |v1 b1| |]; cbn in H;
        try (left; injection H as <-; reflexivity).
      destruct (var_eqb v1 v2) eqn:V; cbn in H; [|left; injection H as <-; reflexivity].
      apply var_eqb_eq in V. subst v2.
      destruct b1 as [y1|], b2 as [y2|]; cbn in H;
        try (left; injection H as <-; reflexivity).
      + apply inner_inv in H. destruct H as [H|[m' [HI HK]]]; [left; exact H|].
        right. exists m'. split; [|exact HK].
        eapply St_pair; [apply AP_proj | exact HI].
      + right. exists m. split; [apply St_star | exact H].
    - cbn in H. apply inner_inv in H. destruct H as [H|[m' [HI HK]]]; [left; exact H|].
      right. exists m'. split; [|exact HK].
      eapply St_pair; [apply AP_plain; exact W2 | exact HI].
  Qed.

  Lemma go_inv : forall rec a1 l1 l2 m r,
    go_args rec (a1 :: l1) l2 m = Val r ->
    exists a2 l2', l2 = a2 :: l2' /\
      (r = [] \/ exists m', Step rec m a1 a2 m' /\ go_args rec l1 l2' m' = Val r).
  Proof.
    intros rec a1 l1 l2 m r H. destruct l2 as [|a2 l2']; [discriminate H|].
    exists a2, l2'. split; [reflexivity|]. rewrite go_cons in H. apply arg_inv in H. exact H.
  Qed.

  (* ---------- the variable case at the top ---------- *)
  Definition TopVar (t1 t2 : ty) (m : tvmap) : Prop :=
    is_tvar t2 = true /\ m = [(t2, Some t1)] /\
    exists b2, bound_rec w any 20 t2 = Val b2 /\
      (b2 = None \/
       exists y, b2 = Some y /\
         (is_subtype w sub_fuel t1 y = Rt \/
          (is_tvar t1 = true /\ exists x, bound_rec w any 20 t1 = Val (Some x) /\
                                           is_subtype w sub_fuel x y = Rt))).

  Lemma unify_rest_inv : forall rec t1 t2 m,
    unify_rest rec t1 t2 = Val m ->
    m = [] \/ TopVar t1 t2 m \/
    (is_tvar t2 = false /\ exists c a1 a2, t1 = TApp c a1 /\ t2 = TApp c a2 /\ go_args rec a1 a2 [] = Val m).
  Proof.
    intros rec t1 t2 m.
    assert (Fall : is_tvar t2 = true ->
              match bound_rec w any 20 t2 with
              | Exc => Exc
              | Val None => Val [(t2, Some t1)]
              | Val (Some b) =>
                  match is_subtype w sub_fuel t1 b with
                  | Rt => Val [(t2, Some t1)]
                  | Rf => Val []
                  | Rerr => Exc
                  end
              end = Val m -> m = [] \/ TopVar t1 t2 m).
    { intros T2 H'. destruct (bound_rec w any 20 t2) as [b2|] eqn:B2; [|discriminate].
      destruct b2 as [b|].
      - destruct (is_subtype w sub_fuel t1 b) eqn:S; [| |discriminate].
        + right. injection H' as <-. split; [exact T2|]. split; [reflexivity|].
          exists (Some b). split; [exact B2|]. right. exists b. split; [reflexivity|]. left. exact S.
        + left. injection H' as <-. reflexivity.
      - right. injection H' as <-. split; [exact T2|]. split; [reflexivity|].
        exists None. split; [exact B2|]. left. reflexivity. }
    intros H. unfold unify_rest in H. unfold top_both in H.
    destruct (is_tvar t2) eqn:T2.
    - destruct (is_tvar t1) eqn:T1; cbn [andb] in H; cbv iota in H.
      + destruct (bound_rec w any 20 t1) as [b1|] eqn:B1; [|discriminate].
        destruct (bound_rec w any 20 t2) as [b2|] eqn:B2; [|discriminate].
        destruct b1 as [x|], b2 as [y|].
        * destruct (is_subtype w sub_fuel x y) eqn:S; [| |discriminate].
          -- right. left. injection H as <-. split; [exact T2|]. split; [reflexivity|].
             exists (Some y). split; [exact B2|]. right. exists y. split; [reflexivity|].
             right. split; [exact T1|]. exists x. split; [exact B1 | exact S].
          -- destruct (Fall eq_refl H) as [E|E]; [left; exact E | right; left; exact E].
        * right. left. injection H as <-. split; [exact T2|]. split; [reflexivity|].
          exists None. split; [exact B2|]. left. reflexivity.
        * destruct (Fall eq_refl H) as [E|E]; [left; exact E | right; left; exact E].
        * right. left. injection H as <-. split; [exact T2|]. split; [reflexivity|].
          exists None. split; [exact B2|]. left. reflexivity.
      + destruct (Fall eq_refl H) as [E|E]; [left; exact E | right; left; exact E].
    - rewrite andb_false_r in H.
      destruct t1 as [| |c1 args1| | | | |]; try (left; injection H as <-; reflexivity).
      destruct t2 as [| |c2 args2| | | | |]; try discriminate H.
      destruct (Nat.eqb c1 c2) eqn:C; cbn [negb] in H; cbv iota in H.
      + apply Nat.eqb_eq in C. subst c2. right. right. split; [reflexivity|].
        exists c1, args1, args2. auto.
      + left. injection H as <-. reflexivity.
  Qed.

  (* ---------- one step of unify ---------- *)
  Lemma unify_inv : forall f same t1 t2 m,
    unify w alias any (S f) same t1 t2 = Val m ->
    m = [] \/
    (same = false /\ negb (nm_eqb (name_of alias t1) (name_of alias t2)) && negb (is_tvar t2) = true /\
       exists s rest, rev (direct_supers w t1) = s :: rest /\ unify w alias any f false s t2 = Val m) \/
    ((same = false -> negb (nm_eqb (name_of alias t1) (name_of alias t2)) && negb (is_tvar t2) = false) /\
     unify_rest (unify w alias any f true) t1 t2 = Val m).
  Proof.
    intros f same t1 t2 m H. rewrite unify_S in H. unfold unify_body in H.
    destruct same; cbn [andb negb] in H.
    - destruct (same_pyclass t1 t2); cbn [negb] in H; cbv iota in H.
      + right. right. split; [discriminate | exact H].
      + left. injection H as <-. reflexivity.
    - destruct (negb (nm_eqb (name_of alias t1) (name_of alias t2)) && negb (is_tvar t2)) eqn:N.
      + destruct (rev (direct_supers w t1)) as [|s rest] eqn:R.
        * left. injection H as <-. reflexivity.
        * right. left. split; [reflexivity|]. split; [reflexivity|]. exists s, rest. auto.
      + right. right. split; [reflexivity | exact H].
  Qed.

  Lemma unify_true_inv : forall f t1 t2 m,
    unify w alias any (S f) true t1 t2 = Val m ->
    m = [] \/ TopVar t1 t2 m \/
    (is_tvar t2 = false /\ exists c a1 a2, t1 = TApp c a1 /\ t2 = TApp c a2 /\
       go_args (unify w alias any f true) a1 a2 [] = Val m).
  Proof.
    intros f t1 t2 m H. apply unify_inv in H.
    destruct H as [H|[[H _]|[_ H]]]; [left; exact H | discriminate H |].
    apply unify_rest_inv in H. exact H.
  Qed.
End Body.
