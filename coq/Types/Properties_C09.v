(* Properties_C09.v -- the property theorems, nothing else.  The searches are validated per
   result; these theorems say what an accepting verdict of the validator establishes. *)
From Coq Require Import List Arith Bool.
Import ListNotations.
From Heph Require Import Types.Syntax Types.Subst Types.Subtype Types.Decl Types.Corr Types.Judge Types.Judge09 Types.Judge09Proofs.

Theorem accepted_result_is_a_declarative_subtype : forall w fuel t conc rs i r,
  nth_error rs i = Some r -> nth_error (judge_subtypes w fuel t conc rs) i = Some 0 ->
  is_con r = false -> SubA w [] r t.
Proof. exact judge_subtypes_ok_lem. Qed.
Print Assumptions accepted_result_is_a_declarative_subtype.

Theorem accepted_concrete_result_is_usable : forall w fuel t rs i r,
  nth_error rs i = Some r -> nth_error (judge_subtypes w fuel t true rs) i = Some 0 -> is_con r = false.
Proof. exact judge_subtypes_usable_lem. Qed.
Print Assumptions accepted_concrete_result_is_usable.

Theorem accepted_self_inclusion : forall t inc rs, judge_self t inc rs = 0 -> existsb (py_eqb t) rs = inc.
Proof. exact judge_self_ok_lem. Qed.
Print Assumptions accepted_self_inclusion.

Theorem accepted_irrelevant_type_is_unrelated : forall w fuel t r,
  judge_irrelevant w fuel t r = 0 ->
  let t' := match t with TVar _ _ (Some b) => b | _ => t end in
  ~ SubA w [] r t' /\ ~ SubA w [] t' r.
Proof. exact judge_irrelevant_ok_lem. Qed.
Print Assumptions accepted_irrelevant_type_is_unrelated.
