(* Types/SubtypePF.v -- the model is_subtype against the declarative relation SubA on the
   projection-free, variable-free fragment: soundness of Rt (B1), exactness of Rf (B2). *)
From Coq Require Import List Arith Bool Lia.
Import ListNotations.
From Heph Require Import Types.Syntax Types.Subst Types.Subtype Types.Decl Types.TableOk Types.PFBase.

Definition contained_m (rec : ty -> ty -> res) (a b p : ty) : res :=
  let w1 := is_wild a in
  let w2 := is_wild b in
  let fin := if w2 && is_none (wbound b)
             then ofb (negb (w1 && is_none (wbound a)))
             else Rf in
  if negb w1 && negb w2 then
    match tvar_variance p with
    | Inv => ofb (py_eqb a b)
    | Cov => rec a b
    | Contra => rec b a
    end
  else
    match w1, w2, wbound a, wbound b with
    | false, true, _, Some bb =>
        match wvar b with
        | Cov => rec a bb
        | Contra => rec bb a
        | Inv => fin
        end
    | true, true, Some ab, Some bb =>
        match wvar a, wvar b with
        | Cov, Cov => rec ab bb
        | Contra, Contra => rec bb ab
        | _, _ => fin
        end
    | true, false, Some ab, _ =>
        match tvar_variance p with
        | Cov => rec ab b
        | Contra => rec b ab
        | Inv => fin
        end
    | _, _, _, _ => fin
    end.

Definition args_m (rec : ty -> ty -> res) :=
  fix go (ps l1 l2 : list ty) : res :=
    match ps, l1, l2 with
    | p :: ps', a :: l1', b :: l2' =>
        match contained_m rec a b p with
        | Rt => go ps' l1' l2'
        | x => x
        end
    | _, _, _ => Rt
    end.

Definition nominal_m (w : world) (rec : ty -> ty -> res) (s t : ty) : res :=
  if py_eqb t s then Rt
  else match get_supertypes w s with
       | None => Rerr
       | Some sups =>
           rany (map (fun st => rec st t) (filter (fun st => negb (py_eqb st s)) sups))
       end.

Lemma is_subtype_S : forall w f s t,
  is_subtype w (S f) s t =
  match s with
  | TNothing => Rt
  | TCap _ _ _ => Rerr
  | TBuiltin b _ =>
      if is_bottom_builtin w b then Rt
      else if py_eqb t s then Rt
      else match get_supertypes w s with
           | None => Rerr
           | Some sups => ofb (memb t sups)
           end
  | TClass _ => nominal_m w (is_subtype w f) s t
  | TApp c args =>
      match nominal_m w (is_subtype w f) s t with
      | Rt => Rt
      | Rerr => Rerr
      | Rf =>
          match t with
          | TApp d args' =>
              if Nat.eqb c d then
                match find_class w c with
                | None => Rerr
                | Some dcl => args_m (is_subtype w f) (c_params dcl) args args'
                end
              else Rf
          | _ => Rf
          end
      end
  | TVar _ _ ob =>
      match ob with
      | None => Rf
      | Some b => ofb (py_eqb b t)
      end
  | TWild v ob =>
      match t with
      | TWild v' (Some b') =>
          if var_eqb v Cov && var_eqb v' Cov then
            match ob with
            | Some b => is_subtype w f b b'
            | None => Rerr
            end
          else Rf
      | _ => Rf
      end
  | TCon c =>
      match get_supertypes w s with
      | None => Rerr
      | Some sups =>
          match find (fun st => py_eqb t st) sups with
          | None => Rf
          | Some matched =>
              match t, matched, find_class w c with
              | TApp _ _, TApp _ margs, Some dcl =>
                  ofb (negb (existsb (fun a => memb a (c_params dcl)) margs))
              | TApp _ _, _, _ => Rerr
              | _, _, _ => Rt
              end
          end
      end
  end.
Proof. intros. destruct s; reflexivity. Qed.

Lemma plain_not_wild : forall a, plain_closed a = true -> is_wild a = false.
Proof. intros a H. destruct a; try reflexivity; discriminate. Qed.

Lemma contained_plain : forall rec a b p, is_wild a = false -> is_wild b = false ->
  contained_m rec a b p =
  match tvar_variance p with
  | Inv => ofb (py_eqb a b)
  | Cov => rec a b
  | Contra => rec b a
  end.
Proof. intros rec a b p Ha Hb. unfold contained_m. rewrite Ha, Hb. reflexivity. Qed.

Lemma rany_rt : forall l, rany l = Rt -> In Rt l.
Proof.
  intros l H. unfold rany in H.
  destruct (existsb (fun r => match r with Rt => true | _ => false end) l) eqn:E.
  - apply existsb_exists in E. destruct E as [r [Hin Hr]]. destruct r; try discriminate. exact Hin.
  - destruct (existsb (fun r => match r with Rerr => true | _ => false end) l); discriminate.
Qed.

Lemma rany_rf : forall l, rany l = Rf -> forall r, In r l -> r = Rf.
Proof.
  intros l H r Hin. unfold rany in H.
  destruct (existsb (fun r => match r with Rt => true | _ => false end) l) eqn:E1; [discriminate|].
  destruct (existsb (fun r => match r with Rerr => true | _ => false end) l) eqn:E2; [discriminate|].
  destruct r; auto.
  - assert (X : existsb (fun r => match r with Rt => true | _ => false end) l = true)
      by (apply existsb_exists; eauto). congruence.
  - assert (X : existsb (fun r => match r with Rerr => true | _ => false end) l = true)
      by (apply existsb_exists; eauto). congruence.
Qed.

Lemma ofb_rt : forall b, ofb b = Rt -> b = true.
Proof. intros []; cbn; intros; auto; discriminate. Qed.
Lemma ofb_rf : forall b, ofb b = Rf -> b = false.
Proof. intros []; cbn; intros; auto; discriminate. Qed.

Lemma good1_split : forall w t, good1 w t = true -> plain_closed t = true /\ arity_ok w t = true.
Proof. intros w t H. unfold good1 in H. apply andb_prop in H. exact H. Qed.

Lemma good1_arg : forall w c args a, good1 w (TApp c args) = true -> In a args -> good1 w a = true.
Proof.
  intros w c args a Hg Hin. destruct (good1_args _ _ _ Hg) as [d [_ [_ [H1 H2]]]].
  eapply forallb_good1; eauto.
Qed.

Lemma boxed_arg : forall c args a, boxed (TApp c args) = true -> In a args -> boxed a = true.
Proof. intros c args a H Hin. cbn in H. eapply forallb_In; eauto. Qed.

(* ---------- == types are related both ways (no table condition needed) ---------- *)
Section Refl.
  Variable w : world.

  Lemma suba_pyeq_both : forall s t, good1 w s = true -> good1 w t = true -> py_eqb s t = true ->
    (forall p, SubA w p s t) /\ (forall p, SubA w p t s).
  Proof.
    apply (ty_ind' (fun s => forall t, good1 w s = true -> good1 w t = true -> py_eqb s t = true ->
                                       (forall p, SubA w p s t) /\ (forall p, SubA w p t s)));
      intros; try (unfold good1 in *; cbn in *; discriminate).
    - destruct t; try discriminate. cbn in H1. apply Nat.eqb_eq in H1. subst.
      split; intros p; apply A_BuiltinRefl.
    - destruct t; try discriminate. cbn in H1. apply Nat.eqb_eq in H1. subst.
      split; intros p; apply A_ClassRefl.
    - destruct t as [| |c' m| | | | |]; try discriminate.
      rewrite py_eqb_app in H2. apply andb_prop in H2. destruct H2 as [Hc Hl].
      apply Nat.eqb_eq in Hc. subst c'.
      destruct (good1_args _ _ _ H0) as [d [Hd [Hl1 [Hp1 Ha1]]]].
      destruct (good1_args _ _ _ H1) as [d' [Hd' [Hl2 [Hp2 Ha2]]]].
      rewrite Hd in Hd'. injection Hd' as <-.
      assert (HC : forall ps i, length l = length ps -> length m = length ps ->
                   (forall p, ContA w p i ps l m) /\ (forall p, ContA w p i ps m l)).
      { clear Hl1 Hl2 Hd H0 H1. revert m Hp2 Ha2 Hl Hp1 Ha1.
        induction H as [|a l Ha Hfl IH]; intros m Hp2 Ha2 Hl Hp1 Ha1 ps i L1 L2.
        - destruct m; [|discriminate]. destruct ps; [|discriminate]. split; intros; constructor.
        - destruct m as [|b m]; [discriminate|]. destruct ps as [|prm ps]; [discriminate|].
          cbn in Hl, Hp1, Hp2, Ha1, Ha2.
          apply andb_prop in Hl. destruct Hl as [Hab Hl].
          apply andb_prop in Hp1. destruct Hp1 as [Hpa Hp1].
          apply andb_prop in Hp2. destruct Hp2 as [Hpb Hp2].
          apply andb_prop in Ha1. destruct Ha1 as [Haa Ha1].
          apply andb_prop in Ha2. destruct Ha2 as [Hab' Ha2].
          destruct (Ha b) as [S1 S2]; auto.
          { unfold good1. rewrite Hpa, Haa. reflexivity. }
          { unfold good1. rewrite Hpb, Hab'. reflexivity. }
          cbn in L1, L2. injection L1 as L1. injection L2 as L2.
          destruct (IH m Hp2 Ha2 Hl Hp1 Ha1 ps (S i) L1 L2) as [C1 C2].
          pose proof (plain_not_wild _ Hpa) as Wa. pose proof (plain_not_wild _ Hpb) as Wb.
          split; intros p; constructor; auto.
          + destruct (tvar_variance prm) eqn:Hv.
            * apply C_Inv; auto.
            * apply C_Cov; auto.
            * apply C_Contra; auto.
          + destruct (tvar_variance prm) eqn:Hv.
            * apply C_Inv; auto. unfold deq. rewrite py_eqb_sym. exact Hab.
            * apply C_Cov; auto.
            * apply C_Contra; auto. }
      destruct (HC (c_params d) 0 Hl1 Hl2) as [C1 C2].
      split; intros p.
      + eapply A_AppArgs; eauto. rewrite open_args_plain; auto.
      + eapply A_AppArgs; eauto. rewrite open_args_plain; auto.
    - destruct t; try discriminate. split; intros; apply A_Nothing.
  Qed.

  Lemma suba_pyeq : forall s t, good1 w s = true -> good1 w t = true -> py_eqb s t = true ->
    forall p, SubA w p s t.
  Proof. intros s t H1 H2 H3. apply (suba_pyeq_both s t H1 H2 H3). Qed.

  Lemma suba_pyeq_rev : forall s t, good1 w s = true -> good1 w t = true -> py_eqb t s = true ->
    forall p, SubA w p s t.
  Proof. intros s t H1 H2 H3. apply (suba_pyeq_both t s H2 H1 H3). Qed.
End Refl.

(* ---------- B1 ---------- *)
Section B1.
  Variable w : world.
  Hypothesis Hok : table_ok w = true.

  Lemma step_suba : forall s u t, good1 w s = true -> In u (direct_supers w s) ->
    (forall q, SubA w q u t) -> forall p, SubA w p s t.
  Proof.
    intros s u t Hg Hin Hu p. destruct s as [b pr|c|c args|c|x v ob|v ob| |i uu l]; try contradiction.
    - cbn [direct_supers] in Hin. destruct pr; [contradiction|].
      destruct (find_builtin w b) as [bi|] eqn:Hb; [|contradiction].
      apply in_map_iff in Hin. destruct Hin as [b' [<- Hb']].
      eapply A_BuiltinUp; [|apply Hu]. unfold bsupers. rewrite Hb. exact Hb'.
    - cbn [direct_supers] in Hin. destruct (find_class w c) as [d|] eqn:Hd; [|contradiction].
      eapply A_ClassUp; eauto.
    - destruct (direct_supers_app w Hok c args u Hg Hin) as [d [s' [Hd [Hs' [Hl ->]]]]].
      destruct (good1_args _ _ _ Hg) as [d' [_ [_ [Hpc _]]]].
      eapply A_AppUp; eauto. rewrite open_args_plain; auto.
    - unfold good1 in Hg. cbn in Hg. discriminate.
  Qed.

  Lemma reach_suba : forall s u t, reach w s u -> good1 w s = true ->
    (forall q, SubA w q u t) -> forall p, SubA w p s t.
  Proof.
    intros s u t H. induction H as [s|s x u Hx Hr IH]; intros Hg Hu; [exact Hu|].
    apply (step_suba s x t Hg Hx). apply IH; auto. eapply direct_supers_good1; eauto.
  Qed.

  Section Rec.
    Variable rec : ty -> ty -> res.
    Hypothesis rec_sound : forall a b, good1 w a = true -> good1 w b = true -> rec a b = Rt ->
                                       forall p, SubA w p a b.

    Lemma args_m_sound : forall ps l1 l2 i p, args_m rec ps l1 l2 = Rt ->
      length l1 = length ps -> length l2 = length ps ->
      (forall a, In a l1 -> good1 w a = true) -> (forall b, In b l2 -> good1 w b = true) ->
      ContA w p i ps l1 l2.
    Proof.
      induction ps as [|prm ps IH]; intros l1 l2 i p H L1 L2 G1 G2.
      - destruct l1; [|discriminate]. destruct l2; [|discriminate]. constructor.
      - destruct l1 as [|a l1]; [discriminate|]. destruct l2 as [|b l2]; [discriminate|].
        cbn [args_m] in H.
        assert (Ga : good1 w a = true) by (apply G1; left; reflexivity).
        assert (Gb : good1 w b = true) by (apply G2; left; reflexivity).
        destruct (good1_split _ _ Ga) as [Pa _]. destruct (good1_split _ _ Gb) as [Pb _].
        pose proof (plain_not_wild _ Pa) as Wa. pose proof (plain_not_wild _ Pb) as Wb.
        rewrite (contained_plain rec a b prm Wa Wb) in H.
        constructor.
        + destruct (tvar_variance prm) eqn:Hv.
          * destruct (py_eqb a b) eqn:E; cbn in H; [|discriminate]. apply C_Inv; auto.
          * destruct (rec a b) eqn:E; try discriminate. apply C_Cov; auto.
          * destruct (rec b a) eqn:E; try discriminate. apply C_Contra; auto.
        + apply IH.
          * destruct (tvar_variance prm); [destruct (py_eqb a b)|destruct (rec a b)|destruct (rec b a)];
              cbn in H; try discriminate; exact H.
          * cbn in L1. lia.
          * cbn in L2. lia.
          * intros x Hx. apply G1. right. exact Hx.
          * intros x Hx. apply G2. right. exact Hx.
    Qed.

    Lemma nominal_sound : forall s t, good1 w s = true -> good1 w t = true ->
      nominal_m w rec s t = Rt -> forall p, SubA w p s t.
    Proof.
      intros s t Gs Gt H. unfold nominal_m in H.
      destruct (py_eqb t s) eqn:E; [apply suba_pyeq_rev; auto|].
      destruct (get_supertypes w s) as [sups|] eqn:Hg; [|discriminate].
      apply rany_rt in H. apply in_map_iff in H. destruct H as [st [Hst Hin]].
      apply filter_In in Hin. destruct Hin as [Hin _].
      pose proof (get_supertypes_sound w s sups Hg st Hin) as Hr.
      apply (reach_suba s st t Hr Gs). apply rec_sound; auto. eapply reach_good1; eauto.
    Qed.
  End Rec.

  Lemma is_subtype_sound_good : forall f s t, good1 w s = true -> good1 w t = true ->
    is_subtype w f s t = Rt -> forall p, SubA w p s t.
  Proof.
    induction f as [|f IH]; intros s t Gs Gt H; [discriminate|].
    rewrite is_subtype_S in H.
    destruct s as [b pr|c|c args|c|x v ob|v ob| |i uu l];
      try (unfold good1 in Gs; cbn in Gs; discriminate).
    - destruct (is_bottom_builtin w b) eqn:Hbot; [intros p; apply A_BotBuiltin; exact Hbot|].
      destruct (py_eqb t (TBuiltin b pr)) eqn:E; [apply suba_pyeq_rev; auto|].
      destruct (get_supertypes w (TBuiltin b pr)) as [sups|] eqn:Hg; [|discriminate].
      apply ofb_rt in H. apply memb_ex in H. destruct H as [k [Hk He]].
      pose proof (get_supertypes_sound w _ sups Hg k Hk) as Hr.
      apply (reach_suba _ k t Hr Gs). apply suba_pyeq_rev; auto. eapply reach_good1; eauto.
    - apply (nominal_sound (is_subtype w f) IH); auto.
    - destruct (nominal_m w (is_subtype w f) (TApp c args) t) eqn:Hn; try discriminate.
      + apply (nominal_sound (is_subtype w f) IH); auto.
      + destruct t as [| |c' bargs| | | | |]; try discriminate.
        destruct (Nat.eqb c c') eqn:Hc; [|discriminate]. apply Nat.eqb_eq in Hc. subst c'.
        destruct (good1_args _ _ _ Gs) as [d [Hd [Hl1 [Hp1 Ha1]]]].
        destruct (good1_args _ _ _ Gt) as [d' [Hd' [Hl2 [Hp2 Ha2]]]].
        rewrite Hd in Hd'. injection Hd' as <-. rewrite Hd in H.
        intros p. eapply A_AppArgs; eauto. rewrite open_args_plain; auto.
        apply (args_m_sound (is_subtype w f) IH); auto.
        * intros a Ha. apply (forallb_good1 w args Hp1 Ha1 a Ha).
        * intros a Ha. apply (forallb_good1 w bargs Hp2 Ha2 a Ha).
    - intros p. apply A_Nothing.
  Qed.
End B1.

Lemma is_subtype_sound_pf_lem : forall w fuel p s t,
  table_ok w = true -> plain_closed s = true -> plain_closed t = true ->
  arity_ok w s = true -> arity_ok w t = true ->
  is_subtype w fuel s t = Rt -> SubA w p s t.
Proof.
  intros w fuel p s t Hok Ps Pt As At H.
  apply (is_subtype_sound_good w Hok fuel s t); auto; unfold good1.
  - rewrite Ps, As. reflexivity.
  - rewrite Pt, At. reflexivity.
Qed.

(* ---------- B2 ---------- *)
Section B2.
  Variable w : world.
  Hypothesis Hok : table_ok w = true.

  Lemma reach_builtin : forall s x, reach w s x -> forall b pr, s = TBuiltin b pr ->
    exists bx prx, x = TBuiltin bx prx.
  Proof.
    intros s x H. induction H as [s|s y x Hy Hr IH]; intros b pr E; subst; [eauto|].
    cbn [direct_supers] in Hy. destruct pr; [contradiction|].
    destruct (find_builtin w b); [|contradiction].
    apply in_map_iff in Hy. destruct Hy as [b' [<- _]]. eapply IH; eauto.
  Qed.

  Lemma suba_builtin_inv : forall p s t, SubA w p s t -> forall b pr, s = TBuiltin b pr ->
    plain_closed t = true ->
    exists u, reach w s u /\
              ((exists b' pr', u = TBuiltin b' pr' /\ is_bottom_builtin w b' = true) \/ py_eqb t u = true).
  Proof.
    intros p s t H. induction H; intros b0 pr0 E Pt; try discriminate.
    - exists (TBuiltin b pr). split; [apply reach_refl|]. left. eauto.
    - exists (TBuiltin b pr). split; [apply reach_refl|]. right. cbn. apply Nat.eqb_refl.
    - destruct (IHSubA b' false eq_refl Pt) as [u [Hr Hu]].
      exists u. split; [|exact Hu]. eapply reach_step; [|exact Hr].
      cbn [direct_supers]. unfold bsupers in H. destruct (find_builtin w b); [|contradiction].
      apply in_map_iff. eauto.
  Qed.

  Section Rec.
    Variable rec : ty -> ty -> res.
    Hypothesis rec_complete : forall a b, good1 w a = true -> boxed a = true ->
                                          good1 w b = true -> boxed b = true ->
                                          rec a b = Rf -> forall p, ~ SubA w p a b.

    Lemma args_m_complete : forall p i ps l1 l2, ContA w p i ps l1 l2 ->
      args_m rec ps l1 l2 = Rf ->
      (forall a, In a l1 -> good1 w a = true /\ boxed a = true) ->
      (forall b, In b l2 -> good1 w b = true /\ boxed b = true) -> False.
    Proof.
      intros p i ps l1 l2 HC. induction HC as [|p i prm ps a l1 b l2 H1 HC IH]; intros H G1 G2.
      - cbn in H. discriminate.
      - cbn [args_m] in H.
        destruct (G1 a (or_introl eq_refl)) as [Ga Ba]. destruct (G2 b (or_introl eq_refl)) as [Gb Bb].
        destruct (good1_split _ _ Ga) as [Pa _]. destruct (good1_split _ _ Gb) as [Pb _].
        pose proof (plain_not_wild _ Pa) as Wa. pose proof (plain_not_wild _ Pb) as Wb.
        rewrite (contained_plain rec a b prm Wa Wb) in H.
        assert (Hrest : args_m rec ps l1 l2 = Rf -> False).
        { intros Hr. apply IH; auto.
          - intros x Hx. apply G1. right. exact Hx.
          - intros x Hx. apply G2. right. exact Hx. }
        inversion H1 as [q prm' a' v|q prm' a' bb Hs|q prm' a' bb Hs
                        |q prm' a' b' Hw Hv He|q prm' a' b' Hw Hv Hs|q prm' a' b' Hw Hv Hs]; subst;
          try discriminate Wb; rewrite Hv in H.
        + unfold deq in He. rewrite He in H. cbn in H. auto.
        + destruct (rec a b) eqn:E; try discriminate; auto.
          apply (rec_complete a b Ga Ba Gb Bb E _ Hs).
        + destruct (rec b a) eqn:E; try discriminate; auto.
          apply (rec_complete b a Gb Bb Ga Ba E _ Hs).
    Qed.

    Lemma nominal_complete : forall s t, good1 w s = true -> boxed s = true -> 0 < rank s ->
      good1 w t = true -> boxed t = true ->
      nominal_m w rec s t = Rf ->
      py_eqb t s = false /\
      forall u, In u (direct_supers w s) -> forall q, ~ SubA w q u t.
    Proof.
      intros s t Gs Bs Rs Gt Bt H. unfold nominal_m in H.
      destruct (py_eqb t s) eqn:E; [discriminate|]. split; [reflexivity|].
      destruct (get_supertypes w s) as [sups|] eqn:Hg; [|discriminate].
      intros u Hu q.
      assert (Hin : In u sups).
      { apply (get_supertypes_complete w Hok s sups Hg Gs Bs).
        eapply reach_step; [exact Hu|apply reach_refl]. }
      assert (Hne : py_eqb u s = false).
      { destruct (py_eqb u s) eqn:E'; [|reflexivity].
        apply py_eqb_rank in E'. destruct (direct_supers_rank w Hok s u Gs Hu) as [_ R]. specialize (R Rs). lia. }
      apply rec_complete.
      - apply (direct_supers_good1 w Hok s u Gs Hu).
      - apply (direct_supers_boxed w Hok s u Gs Bs Hu).
      - exact Gt.
      - exact Bt.
      - apply (rany_rf _ H). apply in_map_iff. exists u. split; [reflexivity|].
        apply filter_In. split; [exact Hin|]. rewrite Hne. reflexivity.
    Qed.
  End Rec.

  Lemma is_subtype_complete_good : forall f s t,
    good1 w s = true -> boxed s = true -> good1 w t = true -> boxed t = true ->
    is_subtype w f s t = Rf -> forall p, ~ SubA w p s t.
  Proof.
    induction f as [|f IH]; intros s t Gs Bs Gt Bt H p HS; [discriminate|].
    rewrite is_subtype_S in H. destruct (good1_split _ _ Gt) as [Pt _].
    destruct s as [b pr|c|c args|c|x v ob|v ob| |i uu l];
      try (unfold good1 in Gs; cbn in Gs; discriminate); try discriminate.
    - destruct (is_bottom_builtin w b) eqn:Hbot; [discriminate|].
      destruct (py_eqb t (TBuiltin b pr)) eqn:E; [discriminate|].
      destruct (get_supertypes w (TBuiltin b pr)) as [sups|] eqn:Hg; [|discriminate].
      apply ofb_rf in H.
      destruct (suba_builtin_inv p _ t HS b pr eq_refl Pt) as [u [Hr [[b' [pr' [-> Hb']]]|He]]].
      + destruct (reach_last w _ _ Hr) as [E'|[x [Hx Hin]]].
        * injection E' as -> _. congruence.
        * destruct (reach_builtin _ _ Hx b pr eq_refl) as [bx [prx ->]].
          cbn [direct_supers] in Hin. destruct prx; [contradiction|].
          destruct (find_builtin w bx) as [bi|] eqn:Hbx; [|contradiction].
          apply in_map_iff in Hin. destruct Hin as [b'' [E'' Hb'']]. injection E'' as -> _.
          rewrite (tok_no_bottom_super w Hok bx bi b' Hbx Hb'') in Hb'. discriminate.
      + pose proof (get_supertypes_complete w Hok _ sups Hg Gs Bs u Hr) as Hin.
        assert (X : memb t sups = true) by (apply existsb_exists; eauto). congruence.
    - destruct (nominal_complete (is_subtype w f) IH (TClass c) t Gs Bs) as [E Hsup]; auto.
      { cbn. lia. }
      inversion HS as [| | | |p0 c0|p0 c0 d s0 t0 Hd Hin Hs| | | | |p0 i u l s0 Hs| |]; subst.
      + cbn in E. rewrite Nat.eqb_refl in E. discriminate.
      + apply (Hsup s0) in Hs; auto. cbn [direct_supers]. rewrite Hd. exact Hin.
      + discriminate.
    - destruct (nominal_m w (is_subtype w f) (TApp c args) t) eqn:Hn; try discriminate.
      destruct (nominal_complete (is_subtype w f) IH (TApp c args) t Gs Bs) as [E Hsup]; auto.
      { cbn. lia. }
      destruct (good1_args _ _ _ Gs) as [d' [Hd' [Hl1' [Hp1 Ha1]]]].
      inversion HS as [| | | | | | | | | |p0 i u l s0 Hs
                      |p0 c0 d args0 bargs Hd Hl1 Hl2 HC|p0 c0 d args0 s0 t0 Hd Hl1 Hin Hs]; subst.
      + discriminate.
      + rewrite Nat.eqb_refl, Hd in H. rewrite open_args_plain in HC; auto.
        apply (args_m_complete (is_subtype w f) IH _ _ _ _ _ HC H).
        * intros a Ha. split; [apply (good1_arg w c args a Gs Ha)|apply (boxed_arg c args a Bs Ha)].
        * intros a Ha. split; [apply (good1_arg w c bargs a Gt Ha)|apply (boxed_arg c bargs a Bt Ha)].
      + rewrite open_args_plain in Hs; auto.
        apply (Hsup (inst_super d args s0)) in Hs; auto.
        apply in_direct_supers_app; auto.
  Qed.
End B2.

Lemma is_subtype_complete_pf_lem : forall w fuel p s t,
  table_ok w = true -> plain_closed s = true -> plain_closed t = true ->
  arity_ok w s = true -> arity_ok w t = true -> boxed s = true -> boxed t = true ->
  is_subtype w fuel s t = Rf -> ~ SubA w p s t.
Proof.
  intros w fuel p s t Hok Ps Pt As At Bs Bt H.
  apply (is_subtype_complete_good w Hok fuel s t); auto; unfold good1.
  - rewrite Ps, As. reflexivity.
  - rewrite Pt, At. reflexivity.
Qed.

(* ---------- B3 ---------- *)
Lemma builtin_bottom_lem : forall w f b pr t,
  is_bottom_builtin w b = true -> is_subtype w (S f) (TBuiltin b pr) t = Rt.
Proof. intros w f b pr t H. rewrite is_subtype_S. rewrite H. reflexivity. Qed.

(* ---------- non-vacuity ---------- *)
(* class 1 = Src<out T>, class 2 = Sink<in T>, class 3 = Mid<out T> : Src<T>,
   class 4 = Leaf<in T> : Mid<Sink<T>>;  built-ins 1 = Any, 2 = Number <: Any, 3 = Int <: Number, Any.
   Leaf<Number> <: Src<Sink<Int>> goes up two declared supertypes and then compares the
   arguments covariantly (Src) and contravariantly (Sink). *)
Definition ex_bi (sup : list nat) : binfo :=
  {| b_supers := sup; b_bottom := false; b_assign := []; b_has_prim := false |}.
Definition ex_world : world :=
  {| w_ct := [(1, {| c_params := [TVar 10 Cov None]; c_supers := [] |});
              (2, {| c_params := [TVar 10 Contra None]; c_supers := [] |});
              (3, {| c_params := [TVar 10 Cov None]; c_supers := [TApp 1 [TVar 10 Cov None]] |});
              (4, {| c_params := [TVar 10 Contra None];
                     c_supers := [TApp 3 [TApp 2 [TVar 10 Contra None]]] |})];
     w_bt := [(1, ex_bi []); (2, ex_bi [1]); (3, ex_bi [2; 1])];
     w_array := None |}.
Definition ex_s : ty := TApp 4 [TBuiltin 2 false].
Definition ex_t : ty := TApp 1 [TApp 2 [TBuiltin 3 false]].

Example is_subtype_pf_nonvacuous :
  table_ok ex_world = true /\
  plain_closed ex_s = true /\ plain_closed ex_t = true /\
  arity_ok ex_world ex_s = true /\ arity_ok ex_world ex_t = true /\
  boxed ex_s = true /\ boxed ex_t = true /\
  is_subtype ex_world 40 ex_s ex_t = Rt /\ is_subtype ex_world 40 ex_t ex_s = Rf /\
  is_subtype ex_world 40 ex_s (TApp 1 [TApp 2 [TBuiltin 1 false]]) = Rf.
Proof. vm_compute. repeat split; reflexivity. Qed.
