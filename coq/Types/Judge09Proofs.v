(* Types/Judge09Proofs.v -- the verdicts of Judge09 mean what they say. *)
From Coq Require Import List Arith Bool.
Import ListNotations.
From Heph Require Import Types.Syntax Types.Subst Types.Subtype Types.Decl Types.Corr Types.Judge Types.Judge09 Types.RefSound.

Lemma judge_subtypes_ok_lem : forall w fuel t conc rs i r,
  nth_error rs i = Some r -> nth_error (judge_subtypes w fuel t conc rs) i = Some 0 ->
  is_con r = false -> SubA w [] r t.
Proof.
  intros w fuel t conc rs i r Hr Hj Hc. unfold judge_subtypes in Hj.
  rewrite nth_error_map, Hr in Hj. cbn [option_map] in Hj. rewrite Hc in Hj.
  rewrite andb_false_r in Hj.
  destruct (sub_ref w fuel [] r t) eqn:E.
  - eapply sub_ref_yes_sound_lem; eauto.
  - exfalso. inversion Hj as [H0].
  - exfalso. inversion Hj.
Qed.

Lemma judge_subtypes_usable_lem : forall w fuel t rs i r,
  nth_error rs i = Some r -> nth_error (judge_subtypes w fuel t true rs) i = Some 0 -> is_con r = false.
Proof.
  intros w fuel t rs i r Hr Hj. unfold judge_subtypes in Hj.
  rewrite nth_error_map, Hr in Hj. cbn [option_map] in Hj.
  destruct (is_con r); [cbn in Hj; discriminate | reflexivity].
Qed.

Lemma judge_self_ok_lem : forall t inc rs, judge_self t inc rs = 0 -> existsb (py_eqb t) rs = inc.
Proof.
  intros t inc rs H. unfold judge_self in H.
  destruct (Bool.eqb (existsb (py_eqb t) rs) inc) eqn:E; [apply Bool.eqb_prop; exact E | discriminate].
Qed.

Lemma judge_irrelevant_ok_lem : forall w fuel t r,
  judge_irrelevant w fuel t r = 0 ->
  let t' := match t with TVar _ _ (Some b) => b | _ => t end in
  ~ SubA w [] r t' /\ ~ SubA w [] t' r.
Proof.
  intros w fuel t r H t'. unfold judge_irrelevant in H. fold t' in H.
  destruct (sub_ref w fuel [] r t') eqn:E1; destruct (sub_ref w fuel [] t' r) eqn:E2;
    try discriminate; try (destruct (shape w r t'); discriminate); try (destruct (shape w t' r); discriminate).
  split; eapply sub_ref_no_sound_lem; eauto.
Qed.
