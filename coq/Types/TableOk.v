(* Types/TableOk.v -- well-formedness of class tables (boolean, so the harness can evaluate
   it on every generated table) and the fragments the C06/C07 theorems quantify over.
   Definitions only. *)
From Coq Require Import List Arith Bool.
Import ListNotations.
From Heph Require Import Types.Syntax Types.Subst Types.Subtype Types.Decl.

(* all class ids occurring in t *)
Fixpoint class_ids (t : ty) : list nat :=
  match t with
  | TClass c | TCon c => [c]
  | TApp c l => c :: flat_map class_ids l
  | TVar _ _ (Some b) => class_ids b
  | TWild _ (Some b) => class_ids b
  | _ => []
  end.

(* t is built from the parameters ps (as TVar terms), builtins, classes and instantiations:
   no wildcards, constructors, captures, Nothing; every type variable is one of ps *)
Fixpoint over_params (ps : list ty) (t : ty) : bool :=
  match t with
  | TBuiltin _ _ | TClass _ => true
  | TApp _ l => forallb (over_params ps) l
  | TVar _ _ _ => memb t ps
  | _ => false
  end.

Definition is_tvar_term (t : ty) : bool := match t with TVar _ _ _ => true | _ => false end.
Definition tvar_id (t : ty) : nat := match t with TVar x _ _ => x | _ => 0 end.

Fixpoint nodup_nat (l : list nat) : bool :=
  match l with
  | [] => true
  | x :: l' => negb (existsb (Nat.eqb x) l') && nodup_nat l'
  end.

(* the type variable prm occurs in t *)
Fixpoint occurs (prm t : ty) : bool :=
  py_eqb prm t ||
  match t with
  | TApp _ l => existsb (occurs prm) l
  | TVar _ _ (Some b) => occurs prm b
  | TWild _ (Some b) => occurs prm b
  | _ => false
  end.

(* variance of the positions in which parameter prm occurs in e: pos = true for a covariant
   position; an occurrence under an invariant parameter is allowed only for invariant prm *)
Fixpoint var_pos_ok (w : world) (fuel : nat) (prm : ty) (pos : bool) (e : ty) {struct fuel} : bool :=
  match fuel with
  | O => false
  | S f =>
      match e with
      | TVar _ _ _ =>
          if py_eqb e prm then
            match tvar_variance prm with
            | Inv => true
            | Cov => pos
            | Contra => negb pos
            end
          else true
      | TApp c l =>
          match find_class w c with
          | None => false
          | Some d =>
              (fix go (ps l : list ty) : bool :=
                 match ps, l with
                 | q :: ps', a :: l' =>
                     (match tvar_variance q with
                      | Cov => var_pos_ok w f prm pos a
                      | Contra => var_pos_ok w f prm (negb pos) a
                      | Inv => var_eqb (tvar_variance prm) Inv || negb (occurs prm a)
                      end) && go ps' l'
                 | _, _ => true
                 end) (c_params d) l
          end
      | _ => true
      end
  end.

(* one class declaration is fine: parameters are distinct type variables whose bounds are
   types over the parameters; declared supertypes are types over the parameters, with the
   right arities, mentioning only classes declared EARLIER (ids smaller: acyclic), and each
   variant parameter occurs only in positions of its variance *)
Definition class_ok (w : world) (c : nat) (d : cdecl) : bool :=
  forallb is_tvar_term (c_params d) &&
  nodup_nat (map tvar_id (c_params d)) &&
  forallb (fun p => match tvar_bound p with
                    | None => true
                    | Some b => over_params (c_params d) b && arity_ok w b && forallb (fun k => k <? c) (class_ids b)
                    end) (c_params d) &&
  forallb (fun s => over_params (c_params d) s && arity_ok w s &&
                    forallb (fun k => k <? c) (class_ids s) &&
                    forallb (fun p => var_pos_ok w 20 p true s) (c_params d)) (c_supers d).

Definition builtin_ok (w : world) (b : nat) (bi : binfo) : bool :=
  forallb (fun b' => (b' <? b) || (b <? b')) (b_supers bi) &&
  forallb (fun b' => match find_builtin w b' with Some _ => true | None => false end) (b_supers bi).

(* no primitive-flagged builtin anywhere in t *)
Fixpoint boxed (t : ty) : bool :=
  match t with
  | TBuiltin _ p => negb p
  | TApp _ l => forallb boxed l
  | TVar _ _ (Some b) => boxed b
  | TWild _ (Some b) => boxed b
  | _ => true
  end.

(* a declared supertype is a class type or a built-in, never a bare type variable *)
Definition supers_not_var (w : world) : bool :=
  forallb (fun cd => forallb (fun s => negb (is_tvar_term s)) (c_supers (snd cd))) (w_ct w).

(* a bottom built-in (Kotlin/Scala Nothing) is nobody's declared supertype *)
Definition no_bottom_supers (w : world) : bool :=
  forallb (fun bb => forallb (fun b' => negb (is_bottom_builtin w b')) (b_supers (snd bb))) (w_bt w).

(* declared supertypes and bounds mention boxed built-ins only *)
Definition boxed_table (w : world) : bool :=
  forallb (fun cd => forallb boxed (c_supers (snd cd)) && forallb boxed (c_params (snd cd))) (w_ct w).

Definition table_ok (w : world) : bool :=
  nodup_nat (map fst (w_ct w)) &&
  nodup_nat (map fst (w_bt w)) &&
  forallb (fun cd => class_ok w (fst cd) (snd cd)) (w_ct w) &&
  forallb (fun bb => builtin_ok w (fst bb) (snd bb)) (w_bt w) &&
  supers_not_var w && no_bottom_supers w && boxed_table w.
