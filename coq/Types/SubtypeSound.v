(* Types/SubtypeSound.v -- collects the C06 proof files (re-exported for Properties_C06.v). *)
From Coq Require Import List Arith Bool.
Import ListNotations.
From Heph Require Import Types.Syntax Types.Subst Types.Subtype Types.Decl Types.TableOk.
From Heph Require Export Types.RefSound Types.Refuted Types.PFBase Types.SubtypePF Types.DeclPF
  Types.ExactPF Types.PathIrrel.

Lemma nothing_bottom_lem : forall w f t, is_subtype w (S f) TNothing t = Rt.
Proof. reflexivity. Qed.
