From Coq Require Import List Arith Bool.
Import ListNotations.
From Heph Require Import Types.Syntax Types.Subst Types.Subtype Types.Decl.
Lemma nothing_bottom_lem : forall w f t, is_subtype w (S f) TNothing t = Rt.
Proof. reflexivity. Qed.
