(* Types/Judge.v -- judging implementation answers with the reference checker sub_ref.
   Definitions only. *)
From Coq Require Import List Arith Bool.
Import ListNotations.
From Heph Require Import Types.Syntax Types.Subst Types.Subtype Types.Decl Types.Corr.

(* some TApp inside t has an argument containing a type variable / constructor *)
Fixpoint app_with_tv (t : ty) : bool :=
  match t with
  | TApp _ l => existsb has_tv l || existsb app_with_tv l
  | TVar _ _ (Some b) => app_with_tv b
  | TWild _ (Some b) => app_with_tv b
  | _ => false
  end.

Fixpoint has_wild_anywhere (t : ty) : bool :=
  match t with
  | TWild _ _ => true
  | TApp _ l => existsb has_wild_anywhere l
  | TVar _ _ (Some b) => has_wild_anywhere b
  | _ => false
  end.

Fixpoint has_con (t : ty) : bool :=
  match t with
  | TCon _ => true
  | TApp _ l => existsb has_con l
  | TVar _ _ (Some b) => has_con b
  | TWild _ (Some b) => has_con b
  | _ => false
  end.

(* does term e mention the type parameter prm (a TVar term)? *)
Fixpoint mentions (prm e : ty) : bool :=
  py_eqb prm e ||
  match e with
  | TApp _ l => existsb (mentions prm) l
  | TVar _ _ (Some b) => mentions prm b
  | TWild _ (Some b) => mentions prm b
  | _ => false
  end.

(* ProjectionSafe: a projected argument at parameter i of class c is substituted textually
   into the supertypes by TypeConstructor.new; this is justified by the existential reading
   only when the parameter occurs in declared supertypes (transitively) as a top-level
   argument at a parameter whose declared variance is invariant or agrees with the projection.
   pv = None stands for the star projection. *)
Fixpoint safe_param (w : world) (fuel : nat) (c i : nat) (pv : option variance) : bool :=
  match fuel with
  | O => false
  | S f =>
      match find_class w c with
      | None => true
      | Some d =>
          let prm := nth i (c_params d) TNothing in
          forallb (fun s =>
                     match s with
                     | TApp d' eargs =>
                         match find_class w d' with
                         | None => true
                         | Some dd =>
                             (fix go (j : nat) (es ps : list ty) : bool :=
                                match es, ps with
                                | e :: es', q :: ps' =>
                                    (if py_eqb e prm then
                                       (match pv with
                                        | None => true
                                        | Some v => var_eqb (tvar_variance q) Inv || var_eqb (tvar_variance q) v
                                        end) && safe_param w f d' j pv
                                     else negb (mentions prm e)) && go (S j) es' ps'
                                | _, _ => true
                                end) 0 eargs (c_params dd)
                         end
                     | _ => negb (mentions prm s)
                     end) (c_supers d)
      end
  end.

Fixpoint proj_safe (w : world) (fuel : nat) (t : ty) {struct t} : bool :=
  match t with
  | TApp c l =>
      (fix go (i : nat) (l : list ty) : bool :=
         match l with
         | [] => true
         | a :: l' =>
             (match a with
              | TWild _ None => safe_param w fuel c i None
              | TWild v (Some b) => safe_param w fuel c i (Some v) && proj_safe w fuel b
              | _ => proj_safe w fuel a
              end) && go (S i) l'
         end) 0 l
  | TVar _ _ (Some b) => proj_safe w fuel b
  | _ => true
  end.

(* verdict codes for one (s, t, python answer):
   0 fine / not judged; 1 unsound in the core fragment; 2 unsound, a projection is involved;
   3 unsound, a type variable inside an instantiation is involved; 4 incomplete on the ground
   fragment; 5 reference checker ran out of fuel; 6 unsound, bare constructor or top-level wildcard *)
Definition judge (w : world) (fuel : nat) (s t : ty) (o : nat) : nat :=
  if negb (wf_ty w 20 s && wf_ty w 20 t) then 0 else
  match o with
  | 1 =>
      match sub_ref w fuel [] s t with
      | Yes => 0
      | Unk => 5
      | No =>
          if has_con s || has_con t || is_wild s || is_wild t then 6
          else if app_with_tv s || app_with_tv t then 3
          else if negb (proj_safe w 12 s && proj_safe w 12 t) then 2
          else 1
      end
  | 0 =>
      if ground w s && ground w t && arity_ok w s && arity_ok w t then
        match sub_ref w fuel [] s t with
        | Yes => 4
        | Unk => 5
        | No => 0
        end
      else 0
  | _ => 0
  end.

Fixpoint judge_cases (w : world) (fuel : nat) (i : nat) (cs : list sub_case) : list (nat * nat) :=
  match cs with
  | [] => []
  | (s, t, o1, _) :: cs' =>
      let c := judge w fuel s t o1 in
      (if Nat.eqb c 0 then [] else [(i, c)]) ++ judge_cases w fuel (S i) cs'
  end.

Fixpoint group_judge (fuel : nat) (g : nat) (gs : list sub_group) : list (nat * nat * nat) :=
  match gs with
  | [] => []
  | (w, cs) :: gs' => map (fun c => (g, fst c, snd c)) (judge_cases w fuel 0 cs) ++ group_judge fuel (S g) gs'
  end.
