(* Types/SubstSpec.v -- the vocabulary of the C07 (substitution / instantiation) theorems.
   Definitions only. *)
From Coq Require Import List Arith Bool Relations.
Import ListNotations.
From Heph Require Import Types.Syntax Types.Subst Types.TableOk.

(* ---------- reachability along the supertypes attribute ---------- *)
Definition super_step (w : world) (a b : ty) : Prop := In b (direct_supers w a).
Definition Reach (w : world) : ty -> ty -> Prop := clos_refl_trans ty (super_step w).

(* ---------- T4: hash collisions between a key and a variable that is not replaced ---------- *)
(* k and t are type parameters with the same name and variance, i.e. the same Python hash
   (its __hash__ ignores the bound, __eq__ does not) *)
Definition same_name (k t : ty) : bool :=
  match k, t with
  | TVar x v _, TVar y u _ => Nat.eqb x y && var_eqb v u
  | _, _ => false
  end.

(* every BOUNDED type variable of t that subst itself does not replace (type_map.get misses)
   has a name or variance different from k.  Variables below a replaced variable are not
   inspected, unbounded variables never need the condition. *)
Fixpoint no_clash (k : ty) (m : list (ty * ty)) (t : ty) {struct t} : bool :=
  match t with
  | TApp _ l => forallb (no_clash k m) l
  | TWild _ (Some b) => no_clash k m b
  | TVar _ _ ob =>
      match lookup_sub m t with
      | Some _ => true
      | None => match ob with
                | Some b => negb (same_name k t) && no_clash k m b
                | None => true
                end
      end
  | _ => true
  end.

(* the same for all keys of m *)
Definition names_agree (m : list (ty * ty)) (t : ty) : bool :=
  forallb (fun k => no_clash k m t) (map fst m).

(* the condition suggested first: EVERY type variable of t (also inside bounds, also below
   replaced variables) that shares name and variance with a key is == to that key.
   It implies names_agree (names_agree_strong_weak). *)
Fixpoint names_agree_strong (m : list (ty * ty)) (t : ty) {struct t} : bool :=
  match t with
  | TApp _ l => forallb (names_agree_strong m) l
  | TWild _ (Some b) => names_agree_strong m b
  | TVar _ _ ob =>
      forallb (fun k => negb (same_name k t) || py_eqb k t) (map fst m) &&
      match ob with Some b => names_agree_strong m b | None => true end
  | _ => true
  end.

(* ---------- T5: dom m covers the variables of t ---------- *)
(* no bare type constructor, and every type variable that subst's own recursion reaches
   (i.e. not below a replaced variable) is a key of m *)
Fixpoint covered (m : list (ty * ty)) (t : ty) {struct t} : bool :=
  match t with
  | TApp _ l => forallb (covered m) l
  | TWild _ (Some b) => covered m b
  | TVar _ _ _ => match lookup_sub m t with Some _ => true | None => false end
  | TCon _ => false
  | _ => true
  end.

(* ---------- T7: no declared supertype is a primitive built-in ---------- *)
Definition is_prim (t : ty) : bool := match t with TBuiltin _ p => p | _ => false end.

Definition no_prim_supers (w : world) : bool :=
  forallb (fun cd => forallb (fun s => negb (is_prim s)) (c_supers (snd cd))) (w_ct w).

(* ---------- the worked example beside T3 ---------- *)
(* class 1 = Y<S>, class 2 = L<T>, class 3 = X<T1, T2 : T1> : Y<L<T1>>;
   built-ins 0 = Number, 1 = Int *)
Definition ex_S  : ty := TVar 10 Inv None.
Definition ex_T  : ty := TVar 20 Inv None.
Definition ex_T1 : ty := TVar 31 Inv None.
Definition ex_T2 : ty := TVar 32 Inv (Some ex_T1).
Definition ex_Number : ty := TBuiltin 0 false.
Definition ex_Int : ty := TBuiltin 1 false.
Definition ex_world : world :=
  {| w_ct := [ (1, {| c_params := [ex_S]; c_supers := [] |});
               (2, {| c_params := [ex_T]; c_supers := [] |});
               (3, {| c_params := [ex_T1; ex_T2];
                      c_supers := [TApp 1 [TApp 2 [ex_T1]]] |}) ];
     w_bt := [ (0, {| b_supers := []; b_bottom := false; b_assign := []; b_has_prim := false |});
               (1, {| b_supers := [0]; b_bottom := false; b_assign := []; b_has_prim := true |}) ];
     w_array := None |}.
