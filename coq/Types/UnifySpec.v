(* Types/UnifySpec.v -- what "the assignment is a unifier" means.  Definitions only. *)
From Coq Require Import List Arith Bool.
Import ListNotations.
From Heph Require Import Types.Syntax Types.Subst Types.Subtype Types.Unify.

Section W.
  Context (w : world).

  (* Matches m p t : the pattern p, instantiated by the assignment m, is the target t up to
     the variables m leaves open; at an open bounded variable the target's component is an
     instance of the variable's bound (hence satisfies it) *)
  Inductive Matches (m : tvmap) : ty -> ty -> Prop :=
  | M_Closed p t : has_tv p = false -> py_eqb t p = true -> Matches m p t
  | M_Assigned p t v : is_tvar p = true -> tv_get m p = Some (Some v) -> py_eqb v t = true -> Matches m p t
  | M_OpenBounded x v b t :
      tv_get m (TVar x v (Some b)) = None -> Matches m b t -> Matches m (TVar x v (Some b)) t
  | M_App c ps ts : MatchArgs m ps ts -> Matches m (TApp c ps) (TApp c ts)
  with MatchArgs (m : tvmap) : list ty -> list ty -> Prop :=
  | MA_Nil : MatchArgs m [] []
  | MA_Cons p t ps ts : MatchArg m p t -> MatchArgs m ps ts -> MatchArgs m (p :: ps) (t :: ts)
  with MatchArg (m : tvmap) : ty -> ty -> Prop :=
  | MG_Star v v' : MatchArg m (TWild v None) (TWild v' None)
  | MG_Proj v p t : Matches m p t -> MatchArg m (TWild v (Some p)) (TWild v (Some t))
  | MG_Plain p t : is_wild p = false -> Matches m p t -> MatchArg m p t.

  (* pairwise distinct keys under Python equality *)
  Fixpoint keys_distinct (m : tvmap) : bool :=
    match m with
    | [] => true
    | (k, _) :: m' => negb (existsb (fun kv => py_eqb (fst kv) k) m') && keys_distinct m'
    end.

  (* v satisfies the (variable-free) bound b of the variable it is assigned to: either the
     implementation's own judgement says so, or v is itself a type variable whose (recursive)
     bound does *)
  Definition satisfies (any : nat) (v b : ty) : Prop :=
    is_subtype w sub_fuel v b = Rt \/
    (is_tvar v = true /\ exists b1, bound_rec w any 20 v = Val (Some b1) /\ is_subtype w sub_fuel b1 b = Rt).
End W.
