(* Types/RefSound.v -- the tri-state reference checker sub_ref is sound for both of its
   definite answers with respect to the declarative relation SubA (A1, A2). *)
From Coq Require Import List Arith Bool Lia.
Import ListNotations.
From Heph Require Import Types.Syntax Types.Subst Types.Subtype Types.Decl.

(* ---------- one-step unfolding of sub_ref with named local functions ---------- *)

Definition cont1_ref (rec : list nat -> ty -> ty -> tri) (q : list nat) (prm a b : ty) : tri :=
  match b with
  | TWild _ None => Yes
  | TWild Cov (Some bb) => rec q a bb
  | TWild Contra (Some bb) => rec q bb a
  | TWild Inv (Some _) => No
  | _ => match tvar_variance prm with
         | Inv => tob (deq a b)
         | Cov => rec q a b
         | Contra => rec q b a
         end
  end.

Definition conta_ref (rec : list nat -> ty -> ty -> tri) (p : list nat) :=
  fix go (i : nat) (ps l1 l2 : list ty) : tri :=
    match ps, l1, l2 with
    | [], [], [] => Yes
    | prm :: ps', a :: l1', b :: l2' =>
        tand (cont1_ref rec (p ++ [2; i]) prm a b) (go (S i) ps' l1' l2')
    | _, _, _ => No
    end.

Definition low_ref (w : world) (f : nat) (p : list nat) (s t : ty) : tri :=
  match t with
  | TCap _ _ (Some l) => sub_ref w f (p ++ [0]) s l
  | _ => No
  end.

Definition left_ref (w : world) (f : nat) (p : list nat) (s t : ty) : tri :=
  match s with
  | TNothing => Yes
  | TBuiltin b pr =>
      if is_bottom_builtin w b then Yes
      else tor (match t with TBuiltin b' _ => tob (Nat.eqb b b') | _ => No end)
               (if pr then No
                else tany (fun b' => sub_ref w f (p ++ [0]) (TBuiltin b' false) t) (bsupers w b))
  | TClass c =>
      tor (match t with TClass c' => tob (Nat.eqb c c') | _ => No end)
          (match find_class w c with
           | Some d => tany (fun s' => sub_ref w f (p ++ [0]) s' t) (c_supers d)
           | None => No
           end)
  | TVar x v b =>
      tor (tob (deq s t))
          (match b with Some b' => sub_ref w f (p ++ [0]) b' t | None => No end)
  | TCap i u l =>
      tor (tob (deq s t))
          (match u with Some u' => sub_ref w f (p ++ [0]) u' t | None => No end)
  | TApp c args =>
      match find_class w c with
      | None => No
      | Some d =>
          if negb (Nat.eqb (length args) (length (c_params d))) then No
          else
            tor (match t with
                 | TApp c' bargs =>
                     if Nat.eqb c c' && Nat.eqb (length bargs) (length (c_params d)) then
                       conta_ref (sub_ref w f) p 0 (c_params d) (open_args p 0 args) bargs
                     else No
                 | _ => No
                 end)
                (tany (fun s' => sub_ref w f (p ++ [1]) (inst_super d (open_args p 0 args) s') t)
                      (c_supers d))
      end
  | TCon _ => No
  | TWild _ _ => No
  end.

Lemma sub_ref_S : forall w f p s t,
  sub_ref w (S f) p s t = tor (left_ref w f p s t) (low_ref w f p s t).
Proof. intros w f p s t. destruct s; reflexivity. Qed.

(* ---------- tri-state connectives ---------- *)

Lemma tor_yes : forall a b, tor a b = Yes -> a = Yes \/ b = Yes.
Proof. intros [] []; cbn; intros H; auto; discriminate. Qed.

Lemma tor_no : forall a b, tor a b = No -> a = No /\ b = No.
Proof. intros [] []; cbn; intros H; auto; discriminate. Qed.

Lemma tand_yes : forall a b, tand a b = Yes -> a = Yes /\ b = Yes.
Proof. intros [] []; cbn; intros H; auto; discriminate. Qed.

Lemma tand_no : forall a b, tand a b = No -> a = No \/ b = No.
Proof. intros [] []; cbn; intros H; auto; discriminate. Qed.

Lemma tany_yes : forall A (f : A -> tri) l, tany f l = Yes -> exists x, In x l /\ f x = Yes.
Proof.
  intros A f l. induction l as [|a l IH]; cbn; intros H.
  - discriminate.
  - apply tor_yes in H. destruct H as [H|H].
    + exists a. auto.
    + destruct (IH H) as [x [Hin Hx]]. exists x. auto.
Qed.

Lemma tany_no : forall A (f : A -> tri) l, tany f l = No -> forall x, In x l -> f x = No.
Proof.
  intros A f l. induction l as [|a l IH]; cbn; intros H x Hin.
  - contradiction.
  - apply tor_no in H. destruct H as [H1 H2]. destruct Hin as [->|Hin]; auto.
Qed.

Lemma tob_yes : forall b, tob b = Yes -> b = true.
Proof. intros []; cbn; intros H; auto; discriminate. Qed.

Lemma tob_no : forall b, tob b = No -> b = false.
Proof. intros []; cbn; intros H; auto; discriminate. Qed.

(* ---------- A1: a Yes answer is a derivation ---------- *)

Section Sound.
  Variable w : world.
  Variable rec : list nat -> ty -> ty -> tri.
  Hypothesis rec_yes : forall p s t, rec p s t = Yes -> SubA w p s t.

  Lemma cont1_ref_yes : forall q prm a b, cont1_ref rec q prm a b = Yes -> Cont1 w q prm a b.
  Proof.
    intros q prm a b H. unfold cont1_ref in H.
    assert (Hplain : is_wild b = false ->
                     match tvar_variance prm with
                     | Inv => tob (deq a b) | Cov => rec q a b | Contra => rec q b a end = Yes ->
                     Cont1 w q prm a b).
    { intros Hw Hm. destruct (tvar_variance prm) eqn:Hv.
      - apply C_Inv; auto. apply tob_yes; exact Hm.
      - apply C_Cov; auto.
      - apply C_Contra; auto. }
    destruct b as [b0 pr|c|c l|c|x v ob|v ob| |i u l]; try (apply Hplain; [reflexivity|exact H]).
    destruct ob as [bb|].
    - destruct v.
      + discriminate.
      + apply C_Out. auto.
      + apply C_In. auto.
    - apply C_Star.
  Qed.

  Lemma conta_ref_yes : forall p ps i l1 l2,
    conta_ref rec p i ps l1 l2 = Yes -> ContA w p i ps l1 l2.
  Proof.
    intros p ps. induction ps as [|prm ps IH]; intros i l1 l2 H.
    - destruct l1; destruct l2; cbn in H; try discriminate. constructor.
    - destruct l1 as [|a l1]; destruct l2 as [|b l2]; cbn in H; try discriminate.
      apply tand_yes in H. destruct H as [H1 H2].
      constructor.
      + apply cont1_ref_yes; exact H1.
      + apply IH; exact H2.
  Qed.
End Sound.

Lemma sub_ref_yes_sound_lem : forall w fuel p s t, sub_ref w fuel p s t = Yes -> SubA w p s t.
Proof.
  intros w fuel. induction fuel as [|f IH]; intros p s t H.
  - discriminate.
  - rewrite sub_ref_S in H. apply tor_yes in H. destruct H as [H|H].
    + destruct s as [b pr|c|c args|c|x v ob|v ob| |i u l]; cbn [left_ref] in H.
      * destruct (is_bottom_builtin w b) eqn:Hbot.
        { apply A_BotBuiltin; exact Hbot. }
        apply tor_yes in H. destruct H as [H|H].
        { destruct t; try discriminate. apply tob_yes in H. apply Nat.eqb_eq in H. subst.
          apply A_BuiltinRefl. }
        destruct pr; [discriminate|].
        apply tany_yes in H. destruct H as [b' [Hin Hb']].
        eapply A_BuiltinUp; eauto.
      * apply tor_yes in H. destruct H as [H|H].
        { destruct t; try discriminate. apply tob_yes in H. apply Nat.eqb_eq in H. subst.
          apply A_ClassRefl. }
        destruct (find_class w c) as [d|] eqn:Hd; [|discriminate].
        apply tany_yes in H. destruct H as [s' [Hin Hs']].
        eapply A_ClassUp; eauto.
      * destruct (find_class w c) as [d|] eqn:Hd; [|discriminate].
        destruct (Nat.eqb (length args) (length (c_params d))) eqn:Hlen; cbn [negb] in H; [|discriminate].
        apply Nat.eqb_eq in Hlen.
        apply tor_yes in H. destruct H as [H|H].
        { destruct t as [| |c' bargs| | | | |]; try discriminate.
          destruct (Nat.eqb c c') eqn:Hc; cbn [andb] in H; [|discriminate].
          destruct (Nat.eqb (length bargs) (length (c_params d))) eqn:Hlb; [|discriminate].
          apply Nat.eqb_eq in Hc. apply Nat.eqb_eq in Hlb. subst c'.
          eapply A_AppArgs; eauto.
          apply conta_ref_yes with (rec := sub_ref w f); auto. }
        apply tany_yes in H. destruct H as [s' [Hin Hs']].
        eapply A_AppUp; eauto.
      * discriminate.
      * apply tor_yes in H. destruct H as [H|H].
        { apply tob_yes in H. apply A_VarRefl; exact H. }
        destruct ob as [b'|]; [|discriminate].
        apply A_VarUp. auto.
      * discriminate.
      * apply A_Nothing.
      * apply tor_yes in H. destruct H as [H|H].
        { apply tob_yes in H. apply A_CapRefl; exact H. }
        destruct u as [u'|]; [|discriminate].
        apply A_CapUp. auto.
    + unfold low_ref in H.
      destruct t as [| | | | | | |i u l]; try discriminate.
      destruct l as [l|]; [|discriminate].
      apply A_CapLow. auto.
Qed.

(* ---------- A2: a No answer excludes every derivation ---------- *)

Section Complete.
  Variable w : world.
  Variable rec : list nat -> ty -> ty -> tri.
  Hypothesis rec_no : forall p s t, rec p s t = No -> ~ SubA w p s t.

  Lemma cont1_ref_no : forall q prm a b, cont1_ref rec q prm a b = No -> ~ Cont1 w q prm a b.
  Proof.
    intros q prm a b H HC. unfold cont1_ref in H.
    inversion HC as [q' prm' a' v|q' prm' a' bb Hs|q' prm' a' bb Hs
                     |q' prm' a' b' Hw Hv He|q' prm' a' b' Hw Hv Hs|q' prm' a' b' Hw Hv Hs]; subst.
    - destruct v; discriminate.
    - apply (rec_no _ _ _ H Hs).
    - apply (rec_no _ _ _ H Hs).
    - destruct b; try discriminate Hw; rewrite Hv in H; apply tob_no in H; congruence.
    - destruct b; try discriminate Hw; rewrite Hv in H; apply (rec_no _ _ _ H Hs).
    - destruct b; try discriminate Hw; rewrite Hv in H; apply (rec_no _ _ _ H Hs).
  Qed.

  Lemma conta_ref_no : forall p i ps l1 l2,
    ContA w p i ps l1 l2 -> conta_ref rec p i ps l1 l2 = No -> False.
  Proof.
    intros p i ps. revert i. induction ps as [|prm ps IH]; intros i l1 l2 HC H.
    - inversion HC; subst. cbn in H. discriminate.
    - inversion HC as [|p' i' prm' ps' a l1' b l2' H1 H2]; subst. cbn in H.
      apply tand_no in H. destruct H as [H|H].
      + apply (cont1_ref_no _ _ _ _ H H1).
      + apply (IH _ _ _ H2 H).
  Qed.
End Complete.

Lemma sub_ref_no_sound_lem : forall w fuel p s t, sub_ref w fuel p s t = No -> ~ SubA w p s t.
Proof.
  intros w fuel. induction fuel as [|f IH]; intros p s t H HS.
  - discriminate.
  - rewrite sub_ref_S in H. apply tor_no in H. destruct H as [HL HR].
    inversion HS as [p0 t0
                    |p0 b pr t0 Hbot
                    |p0 b pr pr'
                    |p0 b b' t0 Hin Hs
                    |p0 c
                    |p0 c d s0 t0 Hd Hin Hs
                    |p0 x v b t0 He
                    |p0 x v b t0 Hs
                    |p0 i u l t0 He
                    |p0 i u l t0 Hs
                    |p0 i u l s0 Hs
                    |p0 c d args bargs Hd Hl1 Hl2 HC
                    |p0 c d args s0 t0 Hd Hl1 Hin Hs]; subst; cbn [left_ref low_ref] in HL, HR.
    + discriminate.
    + rewrite Hbot in HL. discriminate.
    + destruct (is_bottom_builtin w b); [discriminate|].
      apply tor_no in HL. destruct HL as [HL _]. rewrite Nat.eqb_refl in HL. discriminate.
    + destruct (is_bottom_builtin w b); [discriminate|].
      apply tor_no in HL. destruct HL as [_ HL].
      apply (IH _ _ _ (tany_no _ _ _ HL _ Hin) Hs).
    + apply tor_no in HL. destruct HL as [HL _]. rewrite Nat.eqb_refl in HL. discriminate.
    + apply tor_no in HL. destruct HL as [_ HL]. rewrite Hd in HL.
      apply (IH _ _ _ (tany_no _ _ _ HL _ Hin) Hs).
    + apply tor_no in HL. destruct HL as [HL _]. apply tob_no in HL. congruence.
    + apply tor_no in HL. destruct HL as [_ HL]. apply (IH _ _ _ HL Hs).
    + apply tor_no in HL. destruct HL as [HL _]. apply tob_no in HL. congruence.
    + apply tor_no in HL. destruct HL as [_ HL]. apply (IH _ _ _ HL Hs).
    + apply (IH _ _ _ HR Hs).
    + rewrite Hd in HL. rewrite Hl1, Nat.eqb_refl in HL. cbn [negb] in HL.
      apply tor_no in HL. destruct HL as [HL _].
      rewrite Nat.eqb_refl, Hl2, Nat.eqb_refl in HL. cbn [andb] in HL.
      apply (conta_ref_no w (sub_ref w f) (IH) _ _ _ _ _ HC HL).
    + rewrite Hd in HL. rewrite Hl1, Nat.eqb_refl in HL. cbn [negb] in HL.
      apply tor_no in HL. destruct HL as [_ HL].
      apply (IH _ _ _ (tany_no _ _ _ HL _ Hin) Hs).
Qed.
