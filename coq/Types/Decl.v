(* Types/Decl.v -- the declarative subtype relation induced by the class hierarchy,
   declaration-site variance, use-site projections and type-parameter bounds, in
   syntax-directed (algorithmic) form, together with an executable tri-state checker.

   Use-site projections on the LEFT of a judgement are read existentially and opened
   (capture conversion): C<out U> is  exists X <: U. C<X>,  C<in L> is  exists X :> L. C<X>,
   C<*> is  exists X. C<X>.  The opened arguments are abstract types TCap carrying their
   bounds; their identity is the path of the judgement that opened them, so two different
   openings never produce equal abstract types.  Declared supertypes are instantiated with
   the OPENED arguments (not textually with the projections).

   Definitions only. *)
From Coq Require Import List Arith Bool.
Import ListNotations.
From Heph Require Import Types.Syntax Types.Subst Types.Subtype.

(* equality of types at invariant positions: syntactic, and -- as everywhere in the IR --
   a primitive built-in and its boxed class are the same type *)
Definition deq (a b : ty) : bool := py_eqb a b.

Definition bsupers (w : world) (b : nat) : list nat :=
  match find_builtin w b with Some bi => b_supers bi | None => [] end.

(* capture conversion of the i-th argument of a type opened at path p *)
Definition open_arg (p : list nat) (i : nat) (a : ty) : ty :=
  match a with
  | TWild Cov (Some u) => TCap (p ++ [i]) (Some u) None
  | TWild Contra (Some l) => TCap (p ++ [i]) None (Some l)
  | TWild _ None => TCap (p ++ [i]) None None
  | _ => a
  end.

Fixpoint open_args (p : list nat) (i : nat) (args : list ty) : list ty :=
  match args with
  | [] => []
  | a :: args' => open_arg p i a :: open_args p (S i) args'
  end.

(* instantiate a declared supertype of class d with (opened) arguments: plain substitution *)
Definition inst_super (d : cdecl) (oargs : list ty) (s : ty) : ty :=
  subst false (mk_map (c_params d) oargs) s.

Inductive tri := Yes | No | Unk.

Section W.
  Context (w : world).

  Inductive SubA : list nat -> ty -> ty -> Prop :=
  | A_Nothing p t : SubA p TNothing t
  | A_BotBuiltin p b pr t : is_bottom_builtin w b = true -> SubA p (TBuiltin b pr) t
  | A_BuiltinRefl p b pr pr' : SubA p (TBuiltin b pr) (TBuiltin b pr')
  | A_BuiltinUp p b b' t :
      In b' (bsupers w b) -> SubA (p ++ [0]) (TBuiltin b' false) t -> SubA p (TBuiltin b false) t
  | A_ClassRefl p c : SubA p (TClass c) (TClass c)
  | A_ClassUp p c d s t :
      find_class w c = Some d -> In s (c_supers d) -> SubA (p ++ [0]) s t -> SubA p (TClass c) t
  | A_VarRefl p x v b t : deq (TVar x v b) t = true -> SubA p (TVar x v b) t
  | A_VarUp p x v b t : SubA (p ++ [0]) b t -> SubA p (TVar x v (Some b)) t
  | A_CapRefl p i u l t : deq (TCap i u l) t = true -> SubA p (TCap i u l) t
  | A_CapUp p i u l t : SubA (p ++ [0]) u t -> SubA p (TCap i (Some u) l) t
  | A_CapLow p i u l s : SubA (p ++ [0]) s l -> SubA p s (TCap i u (Some l))
  | A_AppArgs p c d args bargs :
      find_class w c = Some d ->
      length args = length (c_params d) -> length bargs = length (c_params d) ->
      ContA p 0 (c_params d) (open_args p 0 args) bargs ->
      SubA p (TApp c args) (TApp c bargs)
  | A_AppUp p c d args s t :
      find_class w c = Some d -> length args = length (c_params d) ->
      In s (c_supers d) ->
      SubA (p ++ [1]) (inst_super d (open_args p 0 args) s) t ->
      SubA p (TApp c args) t
  (* containment of the opened arguments in the arguments of the right-hand type *)
  with ContA : list nat -> nat -> list ty -> list ty -> list ty -> Prop :=
  | C_Nil p i : ContA p i [] [] []
  | C_Cons p i prm ps a l1 b l2 :
      Cont1 (p ++ [2; i]) prm a b -> ContA p (S i) ps l1 l2 -> ContA p i (prm :: ps) (a :: l1) (b :: l2)
  with Cont1 : list nat -> ty -> ty -> ty -> Prop :=
  | C_Star q prm a v : Cont1 q prm a (TWild v None)
  | C_Out q prm a bb : SubA q a bb -> Cont1 q prm a (TWild Cov (Some bb))
  | C_In q prm a bb : SubA q bb a -> Cont1 q prm a (TWild Contra (Some bb))
  | C_Inv q prm a b : is_wild b = false -> tvar_variance prm = Inv -> deq a b = true -> Cont1 q prm a b
  | C_Cov q prm a b : is_wild b = false -> tvar_variance prm = Cov -> SubA q a b -> Cont1 q prm a b
  | C_Contra q prm a b : is_wild b = false -> tvar_variance prm = Contra -> SubA q b a -> Cont1 q prm a b.

  (* ---------------- executable tri-state checker ---------------- *)
  Definition tor (a b : tri) : tri :=
    match a, b with
    | Yes, _ | _, Yes => Yes
    | Unk, _ | _, Unk => Unk
    | No, No => No
    end.

  Definition tand (a b : tri) : tri :=
    match a, b with
    | No, _ | _, No => No
    | Unk, _ | _, Unk => Unk
    | Yes, Yes => Yes
    end.

  Definition tany {A} (f : A -> tri) (l : list A) : tri := fold_right (fun x acc => tor (f x) acc) No l.
  Definition tob (b : bool) : tri := if b then Yes else No.

  Fixpoint sub_ref (fuel : nat) (p : list nat) (s t : ty) {struct fuel} : tri :=
    match fuel with
    | O => Unk
    | S f =>
        (* rules whose conclusion has a captured type with a lower bound on the right *)
        let low := match t with
                   | TCap _ _ (Some l) => sub_ref f (p ++ [0]) s l
                   | _ => No
                   end in
        let left :=
          match s with
          | TNothing => Yes
          | TBuiltin b pr =>
              if is_bottom_builtin w b then Yes
              else tor (match t with TBuiltin b' _ => tob (Nat.eqb b b') | _ => No end)
                       (if pr then No
                        else tany (fun b' => sub_ref f (p ++ [0]) (TBuiltin b' false) t) (bsupers w b))
          | TClass c =>
              tor (match t with TClass c' => tob (Nat.eqb c c') | _ => No end)
                  (match find_class w c with
                   | Some d => tany (fun s' => sub_ref f (p ++ [0]) s' t) (c_supers d)
                   | None => No
                   end)
          | TVar x v b =>
              tor (tob (deq s t))
                  (match b with Some b' => sub_ref f (p ++ [0]) b' t | None => No end)
          | TCap i u l =>
              tor (tob (deq s t))
                  (match u with Some u' => sub_ref f (p ++ [0]) u' t | None => No end)
          | TApp c args =>
              match find_class w c with
              | None => No
              | Some d =>
                  if negb (Nat.eqb (length args) (length (c_params d))) then No
                  else
                    let oargs := open_args p 0 args in
                    let same :=
                      match t with
                      | TApp c' bargs =>
                          if Nat.eqb c c' && Nat.eqb (length bargs) (length (c_params d)) then
                            (fix go (i : nat) (ps l1 l2 : list ty) : tri :=
                               match ps, l1, l2 with
                               | [], [], [] => Yes
                               | prm :: ps', a :: l1', b :: l2' =>
                                   let q := p ++ [2; i] in
                                   let one :=
                                     match b with
                                     | TWild _ None => Yes
                                     | TWild Cov (Some bb) => sub_ref f q a bb
                                     | TWild Contra (Some bb) => sub_ref f q bb a
                                     | TWild Inv (Some _) => No
                                     | _ => match tvar_variance prm with
                                            | Inv => tob (deq a b)
                                            | Cov => sub_ref f q a b
                                            | Contra => sub_ref f q b a
                                            end
                                     end in
                                   tand one (go (S i) ps' l1' l2')
                               | _, _, _ => No
                               end) 0 (c_params d) oargs bargs
                          else No
                      | _ => No
                      end in
                    tor same (tany (fun s' => sub_ref f (p ++ [1]) (inst_super d oargs s') t) (c_supers d))
              end
          | TCon _ => No
          | TWild _ _ => No
          end in
        tor left low
    end.

  (* ---------------- fragments ---------------- *)

  Fixpoint no_cap (t : ty) : bool :=
    match t with
    | TCap _ _ _ => false
    | TApp _ l => forallb no_cap l
    | TVar _ _ (Some b) => no_cap b
    | TWild _ (Some b) => no_cap b
    | _ => true
    end.

  (* no type variables, constructors, wildcards, captures anywhere: plain closed types *)
  Fixpoint plain_closed (t : ty) : bool :=
    match t with
    | TBuiltin _ _ | TClass _ | TNothing => true
    | TApp _ l => forallb plain_closed l
    | _ => false
    end.

  (* the fragment of the property's exactness claim: non-generic classes, non-primitive
     built-ins (not the bottom ones) and instantiations of generic classes with such types or
     bounded projections of them *)
  Fixpoint ground (t : ty) : bool :=
    match t with
    | TBuiltin b prim => negb prim && negb (is_bottom_builtin w b)
    | TClass _ => true
    | TApp c l =>
        forallb (fun a => match a with
                          | TWild Cov (Some b) | TWild Contra (Some b) => negb (is_wild b) && ground b
                          | TWild _ _ => false
                          | _ => ground a
                          end) l
    | _ => false
    end.

  (* projection-free part of the ground fragment *)
  Fixpoint ground_pf (t : ty) : bool :=
    match t with
    | TBuiltin b prim => negb prim && negb (is_bottom_builtin w b)
    | TClass _ => true
    | TApp c l => forallb ground_pf l
    | _ => false
    end.

  (* arities match everywhere and every class mentioned is declared *)
  Fixpoint arity_ok (t : ty) : bool :=
    match t with
    | TApp c l =>
        match find_class w c with
        | Some d => Nat.eqb (length l) (length (c_params d)) && negb (Nat.eqb (length l) 0) && forallb arity_ok l
        | None => false
        end
    | TClass c => match find_class w c with Some d => Nat.eqb (length (c_params d)) 0 | None => false end
    | TVar _ _ (Some b) => arity_ok b
    | TWild _ (Some b) => arity_ok b
    | TCap _ u l => match u with Some x => arity_ok x | None => true end &&
                    match l with Some x => arity_ok x | None => true end
    | _ => true
    end.

  (* well-formed type: arities match, no bare constructor, wildcards only as type arguments
     and never in conflict with the declared variance (Kotlin rejects such projections and
     _get_type_arg_variance never produces them), bounds of projections are proper types *)
  Fixpoint wf_ty (fuel : nat) (t : ty) {struct fuel} : bool :=
    match fuel with
    | O => false
    | S f =>
        match t with
        | TBuiltin _ _ | TNothing => true
        | TClass c => match find_class w c with Some d => Nat.eqb (length (c_params d)) 0 | None => false end
        | TCon _ => false
        | TWild _ _ => false
        | TCap _ _ _ => false
        | TVar _ _ None => true
        | TVar _ _ (Some b) => wf_ty f b
        | TApp c l =>
            match find_class w c with
            | None => false
            | Some d =>
                Nat.eqb (length l) (length (c_params d)) && negb (Nat.eqb (length l) 0) &&
                (fix go (ps l : list ty) : bool :=
                   match ps, l with
                   | prm :: ps', a :: l' =>
                       (match a with
                        | TWild _ None => true
                        | TWild Inv (Some _) => false
                        | TWild v (Some b) =>
                            (var_eqb (tvar_variance prm) Inv || var_eqb (tvar_variance prm) v) && wf_ty f b
                        | _ => wf_ty f a
                        end) && go ps' l'
                   | _, _ => true
                   end) (c_params d) l
            end
        end
    end.
End W.
