From Coq Require Import List Arith Bool.
Import ListNotations.
From Heph Require Import Types.Syntax Types.Subst Types.Subtype Types.Corr.
Definition group_unsound (fuel g : nat) (gs : list sub_group) : list (nat * nat) := [].
