(* Driver/Spec.v -- what the property statement says, over the model's vocabulary. *)
From Coq Require Import List Arith Bool.
Import ListNotations.
From Heph Require Import Driver.Model.

(* the compiler reported an error for this file *)
Definition has_error (failed : list (path * list nat)) (file : path) : Prop :=
  failed_lookup failed file <> None.

(* oracle mismatch of one program against the diagnostics *)
Definition rejected_welltyped (failed : list (path * list nat)) (pr : prog) : Prop :=
  exists file, In (file, true) (p_programs pr) /\ has_error failed file.
Definition accepted_illtyped (failed : list (path * list nat)) (pr : prog) : Prop :=
  exists file, In (file, false) (p_programs pr) /\ ~ has_error failed file.

(* "a program is reported as a fault iff the tool itself failed on it, or it was expected to
   compile and the compiler reported an error for its file, or it was expected to be
   rejected and the compiler reported none, or the compiler crashed on the batch" *)
Definition is_fault (v : verdict) (pr : prog) : Prop :=
  p_failed pr = true \/
  match v with
  | VCrash _ => True
  | VDiag failed => rejected_welltyped failed pr \/ accepted_illtyped failed pr
  end.

(* compiler-related fault: the ones whose test case must be saved *)
Definition compiler_fault (v : verdict) (pr : prog) : Prop :=
  p_failed pr = false /\
  match v with
  | VCrash _ => True
  | VDiag failed => rejected_welltyped failed pr \/ accepted_illtyped failed pr
  end.

(* a batch as the generation phase leaves it: distinct program ids, the batch directory
   exists, every successfully generated program has its tmp/<pid> directory and no saved
   copy yet, and a program carrying an ill-typed variant has the injected-error text *)
Definition WfBatch (f : fs) (k : nat) (oracles : list (pid * prog)) : Prop :=
  NoDup (map fst oracles) /\
  has f (DBatch k) = true /\
  (forall p pr, In (p, pr) oracles -> p_failed pr = false ->
                has f (DTmp p) = true /\ has f (DSaved p) = false) /\
  (forall p pr file, In (p, pr) oracles -> p_failed pr = false ->
                     In (file, false) (p_programs pr) -> p_error pr <> None).

(* every batch of the session is well formed in the state in which it is processed *)
Fixpoint WfSession (f : fs) (bs : list batch) : Prop :=
  match bs with
  | [] => True
  | b :: bs' =>
      let f1 := gen_phase f b in
      WfBatch f1 (b_dir b) (b_oracles b) /\
      (forall out f2, check_oracle (b_verdict b) (b_dir b) (b_oracles b) f1 = ROk out f2 -> WfSession f2 bs')
  end.

Definition session_programs (bs : list batch) : nat := fold_right (fun b n => length (b_oracles b) + n) 0 bs.

Definition session_pids (bs : list batch) : list pid := flat_map (fun b => map fst (b_oracles b)) bs.
