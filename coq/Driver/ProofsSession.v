(* Driver/ProofsSession.v -- statistics and session theorems (T6..T9, T7, T7b). *)
From Coq Require Import List Arith Bool Lia.
Import ListNotations.
From Heph Require Import Driver.Model Driver.Spec Driver.Proofs Driver.ProofsLoops Driver.ProofsOracle.

(* ---------------- T6 ---------------- *)

Lemma no_leftovers_proof : forall m f0 bs,
  alive (run_session m f0 bs) = true ->
  forall d, In d (s_fs (run_session m f0 bs)) -> is_tmp d = false.
Proof.
  intros m f0 bs. unfold run_session.
  set (s := fold_left (session_step m) bs {| alive := true; s_stats := stats0; s_fs := f0 |}).
  unfold finish. destruct (alive s) eqn:Ea.
  - simpl. intros _ d Hin. apply filter_In in Hin. destruct Hin as [_ H].
    apply negb_true_iff in H. exact H.
  - rewrite Ea. discriminate.
Qed.

(* ---------------- faults accumulation ---------------- *)

Definition add_faults (acc : outmap) (res : outmap) : outmap :=
  fold_left (fun acc kv => out_set acc (fst kv) (snd kv)) res acc.

Lemma add_faults_keys res : forall acc p,
  In p (map fst (add_faults acc res)) <-> In p (map fst acc) \/ In p (map fst res).
Proof.
  unfold add_faults. induction res as [|[q e] res IH]; intros acc p; simpl.
  - intuition.
  - rewrite IH. rewrite out_set_keys. intuition.
Qed.

Lemma add_faults_length res : forall acc,
  NoDup (map fst res) -> (forall p, In p (map fst res) -> ~ In p (map fst acc)) ->
  length (add_faults acc res) = length acc + length res.
Proof.
  unfold add_faults. induction res as [|[q e] res IH]; intros acc Hnd Hdis; simpl.
  - lia.
  - simpl in Hnd. inversion Hnd as [|? ? Hq Hnd']; subst.
    rewrite IH; [| exact Hnd' |].
    + rewrite out_set_length_new; [lia|]. apply Hdis. left. reflexivity.
    + intros p Hp Hin. apply out_set_keys in Hin. destruct Hin as [Hin|Hin].
      * apply (Hdis p); [right; exact Hp | exact Hin].
      * subst. contradiction.
Qed.

(* ---------------- T8 ---------------- *)

Lemma update_stats_commutes_proof : forall st r1 n1 r2 n2,
  let a := update_stats (update_stats st r1 n1) r2 n2 in
  let b := update_stats (update_stats st r2 n2) r1 n1 in
  passed a = passed b /\ failed_n a = failed_n b /\
  (forall p, In p (map fst (faults a)) <-> In p (map fst (faults b))).
Proof.
  intros st r1 n1 r2 n2. cbv zeta. unfold update_stats. cbn [passed failed_n faults].
  split; [lia|]. split; [lia|]. intros p.
  change (In p (map fst (add_faults (add_faults (faults st) r1) r2)) <->
          In p (map fst (add_faults (add_faults (faults st) r2) r1))).
  rewrite !add_faults_keys. intuition.
Qed.

(* ---------------- T9 ---------------- *)

Lemma worker_swallows_proof : forall s b e f,
  alive s = true ->
  check_oracle (b_verdict b) (b_dir b) (b_oracles b) (gen_phase (s_fs s) b) = RExc e f ->
  (alive (session_step Sequential s b) = false) /\
  (let s' := session_step Workers s b in
   alive s' = true /\
   passed (s_stats s') = passed (s_stats s) + length (b_oracles b) /\
   failed_n (s_stats s') = failed_n (s_stats s)).
Proof.
  intros s b e f Ha H. cbv zeta. unfold session_step. rewrite Ha, H. simpl.
  split; [reflexivity|]. split; [reflexivity|]. split; lia.
Qed.

(* ---------------- T7 ---------------- *)

Lemma ok_length_le v k oracles f out f' :
  WfBatch f k oracles -> check_oracle v k oracles f = ROk out f' -> length out <= length oracles.
Proof.
  intros Hwf H.
  rewrite <- (map_length fst out), <- (map_length fst oracles).
  apply NoDup_incl_length.
  - eapply report_nodup_proof; eassumption.
  - intros p Hp. apply (report_iff_proof _ _ _ _ _ _ Hwf H p) in Hp.
    destruct Hp as [pr [Hin _]]. apply (in_map fst) in Hin. exact Hin.
Qed.

Lemma session_step_ok m s b out f2 :
  alive s = true ->
  check_oracle (b_verdict b) (b_dir b) (b_oracles b) (gen_phase (s_fs s) b) = ROk out f2 ->
  session_step m s b =
  {| alive := true; s_stats := update_stats (s_stats s) out (length (b_oracles b)); s_fs := f2 |}.
Proof. intros Ha H. unfold session_step. rewrite Ha, H. reflexivity. Qed.

Lemma counters_gen m : forall bs s,
  alive s = true -> WfSession (s_fs s) bs ->
  let s' := fold_left (session_step m) bs s in
  alive s' = true /\
  passed (s_stats s') + failed_n (s_stats s') =
    passed (s_stats s) + failed_n (s_stats s) + session_programs bs /\
  (forall p, In p (map fst (faults (s_stats s'))) <->
             In p (map fst (faults (s_stats s))) \/
             exists b pr, In b bs /\ In (p, pr) (b_oracles b) /\ is_fault (b_verdict b) pr).
Proof.
  induction bs as [|b bs IH]; intros s Ha Hwf; cbv zeta.
  - simpl. split; [exact Ha|]. split; [lia|]. intros p. split; [auto|].
    intros [H|[b [pr [[] _]]]]. exact H.
  - cbn [fold_left]. cbn [WfSession] in Hwf. cbv zeta in Hwf. destruct Hwf as [Hwb Hnext].
    destruct (check_oracle_total_proof (b_verdict b) _ _ _ Hwb) as [out [f2 Hok]].
    rewrite (session_step_ok m s b out f2 Ha Hok).
    set (s1 := {| alive := true;
                  s_stats := update_stats (s_stats s) out (length (b_oracles b)); s_fs := f2 |}).
    destruct (IH s1 eq_refl (Hnext out f2 Hok)) as [Ha' [Hsum Hkeys]].
    split; [exact Ha'|]. split.
    + rewrite Hsum. unfold s1. cbn [s_stats update_stats passed failed_n session_programs fold_right].
      assert (Hle := ok_length_le _ _ _ _ _ _ Hwb Hok).
      fold (session_programs bs). lia.
    + intros p. rewrite Hkeys. unfold s1. cbn [s_stats update_stats faults].
      change (fold_left (fun acc kv => out_set acc (fst kv) (snd kv)) out (faults (s_stats s)))
        with (add_faults (faults (s_stats s)) out).
      rewrite add_faults_keys. rewrite (report_iff_proof _ _ _ _ _ _ Hwb Hok p). split.
      * intros [[H|[pr [Hin Hf]]]|[b' [pr [Hb [Hin Hf]]]]].
        -- left. exact H.
        -- right. exists b, pr. split; [left; reflexivity|]. split; assumption.
        -- right. exists b', pr. split; [right; exact Hb|]. split; assumption.
      * intros [H|[b' [pr [[E|Hb] [Hin Hf]]]]].
        -- left. left. exact H.
        -- subst b'. left. right. exists pr. split; assumption.
        -- right. exists b', pr. split; [exact Hb|]. split; assumption.
Qed.

Lemma finish_alive s : alive s = true ->
  alive (finish s) = true /\ s_stats (finish s) = s_stats s.
Proof. intros H. unfold finish. rewrite H. split; reflexivity. Qed.

Lemma counters_proof : forall m f0 bs,
  WfSession f0 bs ->
  let s := run_session m f0 bs in
  alive s = true /\
  passed (s_stats s) + failed_n (s_stats s) = session_programs bs /\
  (forall p, In p (map fst (faults (s_stats s))) <->
             exists b pr, In b bs /\ In (p, pr) (b_oracles b) /\ is_fault (b_verdict b) pr).
Proof.
  intros m f0 bs Hwf. cbv zeta. unfold run_session.
  destruct (counters_gen m bs {| alive := true; s_stats := stats0; s_fs := f0 |} eq_refl Hwf)
    as [Ha [Hsum Hkeys]].
  destruct (finish_alive _ Ha) as [Ha' Est]. rewrite Est.
  split; [exact Ha'|]. split.
  - rewrite Hsum. simpl. reflexivity.
  - intros p. rewrite Hkeys. simpl. split; [|auto]. intros [[]|H]. exact H.
Qed.

(* ---------------- T7b ---------------- *)

Lemma NoDup_app_disjoint {A} (l l' : list A) x : NoDup (l ++ l') -> In x l -> ~ In x l'.
Proof.
  induction l as [|a l IH]; simpl; intros Hnd Hin; [destruct Hin|].
  inversion Hnd as [|? ? Ha Hnd']; subst. destruct Hin as [E|Hin].
  - subst. intros Hx. apply Ha. apply in_or_app. right. exact Hx.
  - apply IH; assumption.
Qed.

Lemma NoDup_app_tail {A} (l l' : list A) : NoDup (l ++ l') -> NoDup l'.
Proof.
  induction l as [|a l IH]; simpl; intros Hnd; [exact Hnd|].
  inversion Hnd; subst. apply IH. assumption.
Qed.

Lemma failed_counter_gen m : forall bs s,
  alive s = true -> WfSession (s_fs s) bs -> NoDup (session_pids bs) ->
  (forall p, In p (map fst (faults (s_stats s))) -> ~ In p (session_pids bs)) ->
  failed_n (s_stats s) = length (faults (s_stats s)) ->
  let s' := fold_left (session_step m) bs s in
  failed_n (s_stats s') = length (faults (s_stats s')).
Proof.
  induction bs as [|b bs IH]; intros s Ha Hwf Hnd Hdis Hlen; cbv zeta.
  - simpl. exact Hlen.
  - cbn [fold_left]. cbn [WfSession] in Hwf. cbv zeta in Hwf. destruct Hwf as [Hwb Hnext].
    destruct (check_oracle_total_proof (b_verdict b) _ _ _ Hwb) as [out [f2 Hok]].
    rewrite (session_step_ok m s b out f2 Ha Hok).
    unfold session_pids in Hnd, Hdis. cbn [flat_map] in Hnd, Hdis. fold (session_pids bs) in Hnd, Hdis.
    assert (Hsub : forall p, In p (map fst out) -> In p (map fst (b_oracles b))).
    { intros p Hp. apply (report_iff_proof _ _ _ _ _ _ Hwb Hok p) in Hp.
      destruct Hp as [pr [Hin _]]. apply (in_map fst) in Hin. exact Hin. }
    apply IH.
    + reflexivity.
    + cbn [s_fs]. exact (Hnext out f2 Hok).
    + eapply NoDup_app_tail. exact Hnd.
    + cbn [s_stats update_stats faults]. intros p Hp.
      change (In p (map fst (add_faults (faults (s_stats s)) out))) in Hp.
      apply add_faults_keys in Hp. destruct Hp as [Hp|Hp].
      * intros Hin. apply (Hdis p Hp). apply in_or_app. right. exact Hin.
      * apply (NoDup_app_disjoint _ _ p Hnd). apply Hsub. exact Hp.
    + cbn [s_stats update_stats faults failed_n].
      change (fold_left (fun acc kv => out_set acc (fst kv) (snd kv)) out (faults (s_stats s)))
        with (add_faults (faults (s_stats s)) out).
      rewrite add_faults_length.
      * lia.
      * eapply report_nodup_proof; eassumption.
      * intros p Hp Hin. apply (Hdis p Hin). apply in_or_app. left. apply Hsub. exact Hp.
Qed.

Lemma failed_counter_proof : forall m f0 bs,
  WfSession f0 bs -> NoDup (session_pids bs) ->
  let s := run_session m f0 bs in
  failed_n (s_stats s) = length (faults (s_stats s)).
Proof.
  intros m f0 bs Hwf Hnd. cbv zeta. unfold run_session.
  destruct (counters_gen m bs {| alive := true; s_stats := stats0; s_fs := f0 |} eq_refl Hwf)
    as [Ha _].
  destruct (finish_alive _ Ha) as [_ Est]. rewrite Est.
  apply (failed_counter_gen m bs {| alive := true; s_stats := stats0; s_fs := f0 |}).
  - reflexivity.
  - exact Hwf.
  - exact Hnd.
  - simpl. intros p [].
  - reflexivity.
Qed.

(* ---------------- non-vacuity witness for T7 ---------------- *)

(* batch 1: the compiler crashes; program 2 failed in the generator (its tmp dir exists).
   batch 2: diagnostics; program 3 violates both oracles (31 rejected though well typed, 30
   accepted though ill typed), program 4 violates none. *)
Definition ex_b1 : batch :=
  {| b_dir := 1; b_tmp := [1; 2]; b_verdict := VCrash 99;
     b_oracles := [(1, {| p_failed := false; p_error := None; p_programs := [(10, true)] |});
                   (2, {| p_failed := true; p_error := Some (MStr 9); p_programs := [] |})] |}.
Definition ex_b2 : batch :=
  {| b_dir := 2; b_tmp := [3; 4]; b_verdict := VDiag [(31, [5; 6]); (41, [7])];
     b_oracles := [(3, {| p_failed := false; p_error := Some (MStr 8);
                          p_programs := [(31, true); (30, false)] |});
                   (4, {| p_failed := false; p_error := Some (MStr 8);
                          p_programs := [(40, true); (41, false)] |})] |}.

Lemma counters_example_proof :
  WfSession [] [ex_b1; ex_b2] /\
  NoDup (session_pids [ex_b1; ex_b2]) /\
  run_session Sequential [] [ex_b1; ex_b2] =
  {| alive := true;
     s_stats := {| passed := 1; failed_n := 3;
                   faults := [(1, Some (MStr 99)); (2, Some (MStr 9));
                              (3, Some (MShould (MJoin [5; 6])))] |};
     s_fs := [DSaved 1; DSaved 3] |}.
Proof.
  split; [|split].
  - cbn [WfSession]. cbv zeta. split.
    + unfold WfBatch. split; [|split; [|split]].
      * simpl. repeat constructor; simpl; intuition discriminate.
      * vm_compute. reflexivity.
      * intros p pr [E|[E|[]]] Hf; inversion E; subst; simpl in Hf; try discriminate.
        split; vm_compute; reflexivity.
      * intros p pr file [E|[E|[]]] Hf Hin; inversion E; subst; simpl in Hf, Hin; try discriminate.
        destruct Hin as [E'|[]]. discriminate.
    + intros out f2 H. vm_compute in H. inversion H; subst out f2. clear H. split.
      * unfold WfBatch. split; [|split; [|split]].
        -- simpl. repeat constructor; simpl; intuition discriminate.
        -- vm_compute. reflexivity.
        -- intros p pr [E|[E|[]]] Hf; inversion E; subst; split; vm_compute; reflexivity.
        -- intros p pr file [E|[E|[]]] Hf Hin; inversion E; subst; simpl; discriminate.
      * intros out f3 _. exact I.
  - simpl. repeat constructor; simpl; intuition discriminate.
  - vm_compute. reflexivity.
Qed.
