(* Driver/SpecOrder.v -- gen_program builds stats['programs'] with the well-typed program
   first and the ill-typed one (if any) after it: no ill-typed entry precedes a well-typed one. *)
From Coq Require Import List Arith Bool.
Import ListNotations.
From Heph Require Import Driver.Model.

Definition ordered_programs (pr : prog) : Prop :=
  forall pre file post, p_programs pr = pre ++ (file, true) :: post ->
  forall f', ~ In (f', false) pre.
