(* Driver/Proofs.v -- library (fs, out_set, failed_lookup) and loop invariants for check_oracle. *)
From Coq Require Import List Arith Bool Lia.
Import ListNotations.
From Heph Require Import Driver.Model Driver.Spec.

Lemma finish_dead s : alive s = false -> finish s = s.
Proof. intros H. unfold finish. rewrite H. reflexivity. Qed.

(* ---------------- dir_eqb / has / put / del ---------------- *)

Lemma dir_eqb_eq a b : dir_eqb a b = true <-> a = b.
Proof.
  destruct a, b; simpl; split; intros H; try discriminate;
    try (apply Nat.eqb_eq in H; subst; reflexivity);
    try (inversion H; subst; apply Nat.eqb_refl).
Qed.

Lemma dir_eqb_refl a : dir_eqb a a = true.
Proof. apply dir_eqb_eq. reflexivity. Qed.

Lemma dir_eqb_neq a b : dir_eqb a b = false <-> a <> b.
Proof.
  split.
  - intros H E. apply dir_eqb_eq in E. congruence.
  - intros H. destruct (dir_eqb a b) eqn:E; [apply dir_eqb_eq in E; contradiction | reflexivity].
Qed.

Lemma dir_eqb_sym a b : dir_eqb a b = dir_eqb b a.
Proof.
  destruct (dir_eqb a b) eqn:E.
  - apply dir_eqb_eq in E. subst. symmetry. apply dir_eqb_refl.
  - symmetry. apply dir_eqb_neq. apply dir_eqb_neq in E. congruence.
Qed.

Lemma has_In f d : has f d = true <-> In d f.
Proof.
  unfold has. rewrite existsb_exists. split.
  - intros [x [Hx E]]. apply dir_eqb_eq in E. subst. exact Hx.
  - intros H. exists d. split; [exact H | apply dir_eqb_refl].
Qed.

Lemma has_false_In f d : has f d = false <-> ~ In d f.
Proof.
  rewrite <- has_In. destruct (has f d); split; intros H; congruence.
Qed.

Lemma has_app f g d : has (f ++ g) d = has f d || has g d.
Proof. unfold has. apply existsb_app. Qed.

Lemma has_put_same f d : has (put f d) d = true.
Proof.
  unfold put. destruct (has f d) eqn:E; [exact E|].
  rewrite has_app. simpl. rewrite dir_eqb_refl. rewrite orb_true_r. reflexivity.
Qed.

Lemma has_put_other f d d' : d' <> d -> has (put f d) d' = has f d'.
Proof.
  intros N. unfold put. destruct (has f d) eqn:E; [reflexivity|].
  rewrite has_app. simpl. apply dir_eqb_neq in N. rewrite N. rewrite !orb_false_r. reflexivity.
Qed.

Lemma has_put f d d' : has (put f d) d' = dir_eqb d' d || has f d'.
Proof.
  destruct (dir_eqb d' d) eqn:E.
  - apply dir_eqb_eq in E. subst. rewrite has_put_same. reflexivity.
  - apply dir_eqb_neq in E. rewrite has_put_other by exact E. reflexivity.
Qed.

Lemma has_del f d d' : has (del f d) d' = negb (dir_eqb d' d) && has f d'.
Proof.
  unfold del. induction f as [|x f IH]; simpl.
  - rewrite andb_false_r. reflexivity.
  - destruct (dir_eqb x d) eqn:Exd; simpl.
    + rewrite IH. apply dir_eqb_eq in Exd. subst x.
      destruct (dir_eqb d' d) eqn:E; simpl; reflexivity.
    + rewrite IH. destruct (dir_eqb d' x) eqn:E; simpl; [|reflexivity].
      apply dir_eqb_eq in E. subst x. rewrite Exd. reflexivity.
Qed.

Lemma has_del_same f d : has (del f d) d = false.
Proof. rewrite has_del. rewrite dir_eqb_refl. reflexivity. Qed.

Lemma has_del_other f d d' : d' <> d -> has (del f d) d' = has f d'.
Proof. intros N. rewrite has_del. apply dir_eqb_neq in N. rewrite N. reflexivity. Qed.

(* ---------------- out_set ---------------- *)

Lemma out_set_keys o p e q : In q (map fst (out_set o p e)) <-> In q (map fst o) \/ q = p.
Proof.
  induction o as [|[r e'] o IH]; simpl.
  - intuition.
  - destruct (Nat.eqb r p) eqn:E; simpl.
    + apply Nat.eqb_eq in E. subst. intuition.
    + rewrite IH. intuition.
Qed.

Lemma out_set_In_key o p e : In p (map fst (out_set o p e)).
Proof. apply out_set_keys. right. reflexivity. Qed.

Lemma out_set_nodup o p e : NoDup (map fst o) -> NoDup (map fst (out_set o p e)).
Proof.
  induction o as [|[r e'] o IH]; simpl; intros H.
  - constructor; [intros []|constructor].
  - inversion H as [|? ? Hn Hd]; subst.
    destruct (Nat.eqb r p) eqn:E; simpl.
    + constructor; assumption.
    + constructor; [|apply IH; exact Hd].
      intros Hin. apply out_set_keys in Hin. destruct Hin as [Hin|Hin]; [contradiction|].
      subst. rewrite Nat.eqb_refl in E. discriminate.
Qed.

(* value stored: with distinct keys, the entries of out_set are the old entries for other
   keys plus (p, e) *)
Lemma out_set_In o p e q x :
  NoDup (map fst o) ->
  (In (q, x) (out_set o p e) <-> (q <> p /\ In (q, x) o) \/ (q = p /\ x = e)).
Proof.
  induction o as [|[r e'] o IH]; simpl; intros H.
  - split.
    + intros [E|[]]. inversion E; subst. right. split; reflexivity.
    + intros [[_ []]|[E1 E2]]. subst. left. reflexivity.
  - inversion H as [|? ? Hn Hd]; subst.
    destruct (Nat.eqb r p) eqn:E; simpl.
    + apply Nat.eqb_eq in E. subst r. split.
      * intros [E|Hin].
        -- inversion E; subst. right. split; reflexivity.
        -- left. split; [|right; exact Hin].
           intros ->. apply Hn. apply (in_map fst) in Hin. exact Hin.
      * intros [[N [E|Hin]]|[E1 E2]].
        -- inversion E; subst. contradiction.
        -- right. exact Hin.
        -- subst. left. reflexivity.
    + apply Nat.eqb_neq in E. rewrite (IH Hd). split.
      * intros [E'|[[N Hin]|[E1 E2]]].
        -- inversion E'; subst. left. split; [exact E|left; reflexivity].
        -- left. split; [exact N|right; exact Hin].
        -- right. split; assumption.
      * intros [[N [E'|Hin]]|[E1 E2]].
        -- left. exact E'.
        -- right. left. split; assumption.
        -- right. right. split; assumption.
Qed.

Lemma out_set_length_le o p e : length (out_set o p e) <= S (length o).
Proof.
  induction o as [|[r e'] o IH]; simpl; [lia|].
  destruct (Nat.eqb r p); simpl; lia.
Qed.

Lemma out_set_length_new o p e : ~ In p (map fst o) -> length (out_set o p e) = S (length o).
Proof.
  induction o as [|[r e'] o IH]; simpl; intros H; [reflexivity|].
  destruct (Nat.eqb r p) eqn:E.
  - apply Nat.eqb_eq in E. subst. exfalso. apply H. left. reflexivity.
  - simpl. rewrite IH; [reflexivity|]. intros Hin. apply H. right. exact Hin.
Qed.

(* ---------------- failed_lookup ---------------- *)

Lemma failed_lookup_dec failed file :
  {msgs | failed_lookup failed file = Some msgs} + {failed_lookup failed file = None}.
Proof. destruct (failed_lookup failed file) as [l|]; [left; exists l; reflexivity | right; reflexivity]. Qed.

Lemma has_error_some failed file msgs : failed_lookup failed file = Some msgs -> has_error failed file.
Proof. unfold has_error. intros H. rewrite H. discriminate. Qed.

Lemma not_has_error_none failed file : ~ has_error failed file <-> failed_lookup failed file = None.
Proof.
  unfold has_error. split.
  - intros H. destruct (failed_lookup failed file); [exfalso; apply H; discriminate | reflexivity].
  - intros H N. contradiction.
Qed.
