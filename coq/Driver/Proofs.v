From Coq Require Import List Arith Bool Lia.
Import ListNotations.
From Heph Require Import Driver.Model.

Lemma finish_dead s : alive s = false -> finish s = s.
Proof. intros H. unfold finish. rewrite H. reflexivity. Qed.
