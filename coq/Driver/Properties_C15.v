(* Properties_C15.v -- the property theorems, nothing else. *)
From Coq Require Import List Arith Bool.
Import ListNotations.
From Heph Require Import Driver.Model Driver.Spec Driver.SpecOrder Driver.Proofs Driver.ProofsLoops Driver.ProofsOracle Driver.ProofsSession.

Theorem check_oracle_total : forall v k oracles f,
  WfBatch f k oracles -> exists out f', check_oracle v k oracles f = ROk out f'.
Proof. exact check_oracle_total_proof. Qed.
Print Assumptions check_oracle_total.

Theorem report_iff : forall v k oracles f out f',
  WfBatch f k oracles -> check_oracle v k oracles f = ROk out f' ->
  forall p, In p (map fst out) <-> exists pr, In (p, pr) oracles /\ is_fault v pr.
Proof. exact report_iff_proof. Qed.
Print Assumptions report_iff.

Theorem report_nodup : forall v k oracles f out f',
  WfBatch f k oracles -> check_oracle v k oracles f = ROk out f' -> NoDup (map fst out).
Proof. exact report_nodup_proof. Qed.
Print Assumptions report_nodup.

Theorem saved_iff : forall v k oracles f out f',
  WfBatch f k oracles -> check_oracle v k oracles f = ROk out f' ->
  forall p, has f' (DSaved p) = true <->
            (has f (DSaved p) = true \/ exists pr, In (p, pr) oracles /\ compiler_fault v pr).
Proof. exact saved_iff_proof. Qed.
Print Assumptions saved_iff.

Theorem batch_cleanup : forall v k oracles f out f',
  WfBatch f k oracles -> check_oracle v k oracles f = ROk out f' ->
  has f' (DBatch k) = false /\
  (forall k', k' <> k -> has f' (DBatch k') = has f (DBatch k')) /\
  (forall p, has f' (DTmp p) = true -> has f (DTmp p) = true) /\
  (forall failed, v = VDiag failed -> forall p pr, In (p, pr) oracles -> p_failed pr = false ->
                  has f' (DTmp p) = false).
Proof. exact batch_cleanup_proof. Qed.
Print Assumptions batch_cleanup.

(* report_messages is FALSE as stated: see report_messages_refuted / report_messages_partial *)
Theorem report_messages_refuted :
  exists v k oracles f out f',
    WfBatch f k oracles /\ check_oracle v k oracles f = ROk out f' /\
    ~ (forall p e, In (p, e) out ->
        exists pr, In (p, pr) oracles /\
          (p_failed pr = true -> e = p_error pr) /\
          (p_failed pr = false ->
             match v with
             | VCrash c => e = Some (MStr c)
             | VDiag failed =>
                 (accepted_illtyped failed pr -> exists m, e = Some (MShould m)) /\
                 (~ accepted_illtyped failed pr ->
                    exists file msgs, In (file, true) (p_programs pr) /\
                                      failed_lookup failed file = Some msgs /\ e = Some (MJoin msgs))
             end)).
Proof. exact report_messages_refuted_proof. Qed.
Print Assumptions report_messages_refuted.

Theorem report_messages_partial : forall v k oracles f out f',
  WfBatch f k oracles -> check_oracle v k oracles f = ROk out f' ->
  forall p e, In (p, e) out ->
    exists pr, In (p, pr) oracles /\
      (p_failed pr = true -> e = p_error pr) /\
      (p_failed pr = false ->
         match v with
         | VCrash c => e = Some (MStr c)
         | VDiag failed =>
             (exists pre file o post,
                 p_programs pr = pre ++ (file, o) :: post /\
                 (forall file' o', In (file', o') post ->
                    ~ ((o' = true /\ has_error failed file') \/ (o' = false /\ ~ has_error failed file'))) /\
                 (o = true -> exists msgs, failed_lookup failed file = Some msgs /\ e = Some (MJoin msgs)) /\
                 (o = false -> ~ has_error failed file /\ exists m, e = Some (MShould m))) /\
             (accepted_illtyped failed pr -> ~ rejected_welltyped failed pr ->
                exists m, e = Some (MShould m)) /\
             (~ accepted_illtyped failed pr ->
                exists file msgs, In (file, true) (p_programs pr) /\
                                  failed_lookup failed file = Some msgs /\ e = Some (MJoin msgs))
         end).
Proof. exact report_messages_partial_proof. Qed.
Print Assumptions report_messages_partial.

Theorem report_messages_ordered : forall v k oracles f out f',
  WfBatch f k oracles ->
  (forall p pr, In (p, pr) oracles -> ordered_programs pr) ->
  check_oracle v k oracles f = ROk out f' ->
  forall p e, In (p, e) out ->
    exists pr, In (p, pr) oracles /\
      (p_failed pr = true -> e = p_error pr) /\
      (p_failed pr = false ->
         match v with
         | VCrash c => e = Some (MStr c)
         | VDiag failed =>
             (accepted_illtyped failed pr -> exists m, e = Some (MShould m)) /\
             (~ accepted_illtyped failed pr ->
                exists file msgs, In (file, true) (p_programs pr) /\
                                  failed_lookup failed file = Some msgs /\ e = Some (MJoin msgs))
         end).
Proof. exact report_messages_ordered_proof. Qed.
Print Assumptions report_messages_ordered.

Theorem no_leftovers : forall m f0 bs,
  alive (run_session m f0 bs) = true ->
  forall d, In d (s_fs (run_session m f0 bs)) -> is_tmp d = false.
Proof. exact no_leftovers_proof. Qed.
Print Assumptions no_leftovers.

Theorem update_stats_commutes : forall st r1 n1 r2 n2,
  let a := update_stats (update_stats st r1 n1) r2 n2 in
  let b := update_stats (update_stats st r2 n2) r1 n1 in
  passed a = passed b /\ failed_n a = failed_n b /\
  (forall p, In p (map fst (faults a)) <-> In p (map fst (faults b))).
Proof. exact update_stats_commutes_proof. Qed.
Print Assumptions update_stats_commutes.

Theorem worker_swallows : forall s b e f,
  alive s = true ->
  check_oracle (b_verdict b) (b_dir b) (b_oracles b) (gen_phase (s_fs s) b) = RExc e f ->
  (alive (session_step Sequential s b) = false) /\
  (let s' := session_step Workers s b in
   alive s' = true /\
   passed (s_stats s') = passed (s_stats s) + length (b_oracles b) /\
   failed_n (s_stats s') = failed_n (s_stats s)).
Proof. exact worker_swallows_proof. Qed.
Print Assumptions worker_swallows.

Theorem counters : forall m f0 bs,
  WfSession f0 bs ->
  let s := run_session m f0 bs in
  alive s = true /\
  passed (s_stats s) + failed_n (s_stats s) = session_programs bs /\
  (forall p, In p (map fst (faults (s_stats s))) <->
             exists b pr, In b bs /\ In (p, pr) (b_oracles b) /\ is_fault (b_verdict b) pr).
Proof. exact counters_proof. Qed.
Print Assumptions counters.

(* non-vacuity of counters / failed_counter: a well-formed two-batch session and its result *)
Example counters_example :
  WfSession [] [ex_b1; ex_b2] /\
  NoDup (session_pids [ex_b1; ex_b2]) /\
  run_session Sequential [] [ex_b1; ex_b2] =
  {| alive := true;
     s_stats := {| passed := 1; failed_n := 3;
                   faults := [(1, Some (MStr 99)); (2, Some (MStr 9));
                              (3, Some (MShould (MJoin [5; 6])))] |};
     s_fs := [DSaved 1; DSaved 3] |}.
Proof. exact counters_example_proof. Qed.
Print Assumptions counters_example.

Theorem failed_counter : forall m f0 bs,
  WfSession f0 bs -> NoDup (session_pids bs) ->
  let s := run_session m f0 bs in
  failed_n (s_stats s) = length (faults (s_stats s)).
Proof. exact failed_counter_proof. Qed.
Print Assumptions failed_counter.
