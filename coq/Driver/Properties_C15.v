(* Properties_C15.v -- the property theorems, nothing else. *)
From Coq Require Import List Arith Bool.
Import ListNotations.
From Heph Require Import Driver.Model Driver.Proofs.

Theorem dead_session_is_not_cleaned : forall s, alive s = false -> finish s = s.
Proof. exact finish_dead. Qed.
Print Assumptions dead_session_is_not_cleaned.
