(* Driver/ProofsOracle.v -- the check_oracle theorems (T1..T5). *)
From Coq Require Import List Arith Bool Lia.
Import ListNotations.
From Heph Require Import Driver.Model Driver.Spec Driver.SpecOrder Driver.Proofs Driver.ProofsLoops.

Definition vplan (v : verdict) : prog -> plan :=
  match v with VCrash c => crash_plan c | VDiag failed => diag_plan failed end.

Lemma vplan_rep v pr : pl_rep (vplan v pr) = true <-> is_fault v pr.
Proof.
  unfold is_fault. destruct v as [c|failed]; simpl.
  - unfold crash_plan. destruct (p_failed pr); simpl; split; auto.
  - unfold diag_plan. destruct (p_failed pr) eqn:Ef; simpl.
    + split; auto.
    + rewrite pviol_iff. split; [auto|]. intros [H|H]; [discriminate | exact H].
Qed.

Lemma vplan_sv v pr : pl_sv (vplan v pr) = true <-> compiler_fault v pr.
Proof.
  unfold compiler_fault. destruct v as [c|failed]; simpl.
  - unfold crash_plan. destruct (p_failed pr); simpl; split; intros H;
      try discriminate; try (destruct H; discriminate); auto.
  - unfold diag_plan. destruct (p_failed pr) eqn:Ef; simpl.
    + split; [intros H; discriminate | intros [H _]; discriminate].
    + rewrite pviol_iff. split; [auto | intros [_ H]; exact H].
Qed.

(* shape of a successful check_oracle *)
Lemma check_oracle_ok_inv v k oracles f out f' :
  check_oracle v k oracles f = ROk out f' ->
  has f (DBatch k) = true /\
  match v with
  | VCrash c => run (vplan v) oracles [] (del f (DBatch k)) = (out, f')
  | VDiag failed => exists f1, run (vplan v) oracles [] f = (out, f1) /\ f' = del f1 (DBatch k)
  end.
Proof.
  unfold check_oracle. destruct v as [c|failed]; intros H.
  - destruct (rmtree f (DBatch k)) as [f1|] eqn:ER; [|discriminate].
    apply rmtree_inl in ER. destruct ER as [Hb Ef1]. subst f1.
    destruct (crash_loop c oracles [] (del f (DBatch k))) as [[o f2]|[e f2]] eqn:EL; [|discriminate].
    inversion H; subst. apply crash_loop_run in EL. split; [exact Hb | exact EL].
  - destruct (diag_loop failed oracles [] f) as [[o f1]|[e f1]] eqn:EL; [|discriminate].
    destruct (rmtree f1 (DBatch k)) as [f2|] eqn:ER; [|discriminate].
    apply rmtree_inl in ER. destruct ER as [Hb Ef2]. inversion H; subst.
    apply diag_loop_run in EL. split.
    + rewrite <- Hb. replace f1 with (snd (run (diag_plan failed) oracles [] f)) by (rewrite EL; reflexivity).
      symmetry. apply run_batch.
    + exists f1. split; [exact EL | reflexivity].
Qed.

(* out and the pre-cleanup fs as projections of one run *)
Lemma check_oracle_ok_run v k oracles f out f' :
  check_oracle v k oracles f = ROk out f' ->
  exists g, out = fst (run (vplan v) oracles [] g) /\
            (forall d, has g d = true -> has f d = true) /\
            (forall d, d <> DBatch k -> has g d = has f d).
Proof.
  intros H. apply check_oracle_ok_inv in H. destruct H as [_ H]. destruct v as [c|failed].
  - exists (del f (DBatch k)). split; [rewrite H; reflexivity|]. split.
    + intros d Hd. rewrite has_del in Hd. apply andb_true_iff in Hd. apply Hd.
    + intros d Hd. apply has_del_other. exact Hd.
  - destruct H as [f1 [H _]]. exists f. split; [rewrite H; reflexivity|]. split; auto.
Qed.

(* ---------------- T1 ---------------- *)

Lemma check_oracle_total_proof : forall v k oracles f,
  WfBatch f k oracles -> exists out f', check_oracle v k oracles f = ROk out f'.
Proof.
  intros v k oracles f [Hnd [Hb [Hfs Herr]]]. unfold check_oracle. destruct v as [c|failed].
  - rewrite rmtree_ok by exact Hb.
    destruct (crash_loop_total c oracles [] (del f (DBatch k)) Hnd) as [[o f2] EL].
    + intros p pr Hin Hf. destruct (Hfs p pr Hin Hf) as [Ht Hs].
      rewrite !has_del_other by discriminate. split; assumption.
    + rewrite EL. exists o, f2. reflexivity.
  - destruct (diag_loop_total failed oracles [] f Hnd) as [[o f1] EL].
    + intros p pr Hin Hf. apply (Hfs p pr Hin Hf).
    + exact Herr.
    + rewrite EL. apply diag_loop_run in EL.
      assert (Hb1 : has f1 (DBatch k) = true).
      { replace f1 with (snd (run (diag_plan failed) oracles [] f)) by (rewrite EL; reflexivity).
        rewrite run_batch. exact Hb. }
      rewrite rmtree_ok by exact Hb1. exists o, (del f1 (DBatch k)). reflexivity.
Qed.

(* ---------------- T2, T2b ---------------- *)

Lemma report_iff_proof : forall v k oracles f out f',
  WfBatch f k oracles -> check_oracle v k oracles f = ROk out f' ->
  forall p, In p (map fst out) <-> exists pr, In (p, pr) oracles /\ is_fault v pr.
Proof.
  intros v k oracles f out f' _ H p.
  apply check_oracle_ok_run in H. destruct H as [g [Eo _]]. subst out.
  rewrite run_keys. simpl. split.
  - intros [[]|[pr [Hin Hr]]]. exists pr. split; [exact Hin|]. apply vplan_rep. exact Hr.
  - intros [pr [Hin Hr]]. right. exists pr. split; [exact Hin|]. apply vplan_rep. exact Hr.
Qed.

Lemma report_nodup_proof : forall v k oracles f out f',
  WfBatch f k oracles -> check_oracle v k oracles f = ROk out f' -> NoDup (map fst out).
Proof.
  intros v k oracles f out f' _ H.
  apply check_oracle_ok_run in H. destruct H as [g [Eo _]]. subst out.
  apply run_nodup. constructor.
Qed.

(* ---------------- T5 ---------------- *)

Lemma batch_cleanup_proof : forall v k oracles f out f',
  WfBatch f k oracles -> check_oracle v k oracles f = ROk out f' ->
  has f' (DBatch k) = false /\
  (forall k', k' <> k -> has f' (DBatch k') = has f (DBatch k')) /\
  (forall p, has f' (DTmp p) = true -> has f (DTmp p) = true) /\
  (forall failed, v = VDiag failed -> forall p pr, In (p, pr) oracles -> p_failed pr = false ->
                  has f' (DTmp p) = false).
Proof.
  intros v k oracles f out f' _ H. apply check_oracle_ok_inv in H. destruct H as [_ H].
  destruct v as [c|failed].
  - assert (Ef' : f' = snd (run (vplan (VCrash c)) oracles [] (del f (DBatch k)))) by (rewrite H; reflexivity).
    subst f'. clear H. split; [|split; [|split]].
    + rewrite run_batch. apply has_del_same.
    + intros k' Hk. rewrite run_batch. apply has_del_other. congruence.
    + intros p Hp. apply run_tmp_mono in Hp. rewrite has_del_other in Hp by discriminate. exact Hp.
    + intros failed E. discriminate.
  - destruct H as [f1 [H Ef']].
    assert (Ef1 : f1 = snd (run (vplan (VDiag failed)) oracles [] f)) by (rewrite H; reflexivity).
    subst f'. clear H. split; [|split; [|split]].
    + apply has_del_same.
    + intros k' Hk. rewrite has_del_other by congruence. subst f1. apply run_batch.
    + intros p Hp. rewrite has_del_other in Hp by discriminate. subst f1.
      apply run_tmp_mono in Hp. exact Hp.
    + intros failed0 E p pr Hin Hf. rewrite has_del_other by discriminate. subst f1.
      apply (run_tmp_removed _ _ _ _ _ pr Hin). simpl. rewrite (diag_plan_ok _ _ Hf). reflexivity.
Qed.

(* ---------------- T4 ---------------- *)

Lemma saved_iff_proof : forall v k oracles f out f',
  WfBatch f k oracles -> check_oracle v k oracles f = ROk out f' ->
  forall p, has f' (DSaved p) = true <->
            (has f (DSaved p) = true \/ exists pr, In (p, pr) oracles /\ compiler_fault v pr).
Proof.
  intros v k oracles f out f' _ H p. apply check_oracle_ok_inv in H. destruct H as [_ H].
  assert (Hex : (exists pr, In (p, pr) oracles /\ pl_sv (vplan v pr) = true) <->
                (exists pr, In (p, pr) oracles /\ compiler_fault v pr)).
  { split; intros [pr [Hin Hs]]; exists pr; (split; [exact Hin|]); apply vplan_sv; exact Hs. }
  rewrite <- Hex. clear Hex.
  destruct v as [c|failed].
  - assert (Ef' : f' = snd (run (vplan (VCrash c)) oracles [] (del f (DBatch k)))) by (rewrite H; reflexivity).
    subst f'. rewrite run_saved. rewrite has_del_other by discriminate. reflexivity.
  - destruct H as [f1 [H Ef']].
    assert (Ef1 : f1 = snd (run (vplan (VDiag failed)) oracles [] f)) by (rewrite H; reflexivity).
    subst f'. rewrite has_del_other by discriminate. subst f1. apply run_saved.
Qed.

(* ---------------- T3: refuted as stated; partial ---------------- *)

(* the text reported for a program is decided by the LAST mismatching file of p_programs *)
Lemma final_err_last failed progs : forall err,
  existsb (violb failed) progs = true ->
  (forall file, In (file, false) progs -> err <> None) ->
  exists pre file o post,
    progs = pre ++ (file, o) :: post /\
    existsb (violb failed) post = false /\
    (o = true -> exists msgs, failed_lookup failed file = Some msgs /\
                              final_err failed progs err = Some (MJoin msgs)) /\
    (o = false -> failed_lookup failed file = None /\
                  exists m, final_err failed progs err = Some (MShould m)).
Proof.
  induction progs as [|[file o] rest IH]; intros err Hv Herr; [discriminate|].
  destruct (existsb (violb failed) rest) eqn:EV.
  - (* a later mismatch decides *)
    assert (Hstep : exists err1, final_err failed ((file, o) :: rest) err = final_err failed rest err1 /\
                                 (forall file', In (file', false) rest -> err1 <> None)).
    { cbn [final_err]. destruct o; destruct (failed_lookup failed file) as [msgs|] eqn:EL.
      - eexists. split; [reflexivity|]. intros; discriminate.
      - exists err. split; [reflexivity|]. intros file' Hin. apply (Herr file'). right. exact Hin.
      - exists err. split; [reflexivity|]. intros file' Hin. apply (Herr file'). right. exact Hin.
      - destruct err as [m|].
        + eexists. split; [reflexivity|]. simpl. intros; discriminate.
        + exfalso. apply (Herr file); [left; reflexivity | reflexivity]. }
    destruct Hstep as [err1 [Estep Herr1]].
    destruct (IH err1 eq_refl Herr1) as [pre [file1 [o1 [post [Ep [Hpost [Ht Hf]]]]]]].
    exists ((file, o) :: pre), file1, o1, post. rewrite Estep.
    split; [rewrite Ep; reflexivity|]. split; [exact Hpost|]. split; assumption.
  - (* this one is the last mismatch *)
    cbn [existsb] in Hv. rewrite EV, orb_false_r in Hv. unfold violb in Hv. cbn [fst snd] in Hv.
    exists [], file, o, rest. split; [reflexivity|]. split; [exact EV|].
    cbn [final_err].
    destruct o; destruct (failed_lookup failed file) as [msgs|] eqn:EL; try discriminate.
    + split; [|intros; discriminate]. intros _. exists msgs. split; [reflexivity|].
      apply final_err_noviol. exact EV.
    + split; [intros; discriminate|]. intros _. split; [reflexivity|].
      destruct err as [m|].
      * exists m. rewrite final_err_noviol by exact EV. reflexivity.
      * exfalso. apply (Herr file); [left; reflexivity | reflexivity].
Qed.

Lemma existsb_violb_false failed post :
  existsb (violb failed) post = false ->
  forall file o, In (file, o) post ->
    ~ ((o = true /\ has_error failed file) \/ (o = false /\ ~ has_error failed file)).
Proof.
  intros H file o Hin Hm.
  assert (Hv : violb failed (file, o) = false).
  { destruct (violb failed (file, o)) eqn:E; [|reflexivity].
    rewrite <- H. symmetry. apply existsb_exists. exists (file, o). split; assumption. }
  unfold violb in Hv. cbn [fst snd] in Hv.
  destruct Hm as [[Eo He]|[Eo He]]; subst o.
  - unfold has_error in He. destruct (failed_lookup failed file); [discriminate|]. apply He. reflexivity.
  - apply not_has_error_none in He. rewrite He in Hv. discriminate.
Qed.

(* witness: one program whose ill-typed variant (file 0) is accepted and whose well-typed
   variant (file 1), later in the dict, is rejected: the reported text is the compiler's
   message for file 1, not 'SHOULD NOT BE COMPILED: ..' *)
Definition t3_prog : prog :=
  {| p_failed := false; p_error := Some (MStr 7); p_programs := [(0, false); (1, true)] |}.

Lemma report_messages_refuted_proof :
  exists v k oracles f out f',
    WfBatch f k oracles /\ check_oracle v k oracles f = ROk out f' /\
    ~ (forall p e, In (p, e) out ->
        exists pr, In (p, pr) oracles /\
          (p_failed pr = true -> e = p_error pr) /\
          (p_failed pr = false ->
             match v with
             | VCrash c => e = Some (MStr c)
             | VDiag failed =>
                 (accepted_illtyped failed pr -> exists m, e = Some (MShould m)) /\
                 (~ accepted_illtyped failed pr ->
                    exists file msgs, In (file, true) (p_programs pr) /\
                                      failed_lookup failed file = Some msgs /\ e = Some (MJoin msgs))
             end)).
Proof.
  exists (VDiag [(1, [5])]), 0, [(0, t3_prog)], [DBatch 0; DTmp 0],
         [(0, Some (MJoin [5]))], [DSaved 0].
  split; [|split].
  - unfold WfBatch. split; [|split; [|split]].
    + simpl. constructor; [intros []|constructor].
    + reflexivity.
    + intros p pr [E|[]] _. inversion E; subst. split; reflexivity.
    + intros p pr file [E|[]] _ _. inversion E; subst. simpl. discriminate.
  - vm_compute. reflexivity.
  - intros H. destruct (H 0 (Some (MJoin [5])) (or_introl eq_refl)) as [pr [Hin [_ Hm]]].
    destruct Hin as [E|[]]. inversion E; subst pr.
    destruct (Hm eq_refl) as [Hacc _].
    destruct Hacc as [m Em].
    + exists 0. split; [left; reflexivity|]. unfold has_error. simpl. intros N. apply N. reflexivity.
    + discriminate.
Qed.

Lemma report_messages_partial_proof : forall v k oracles f out f',
  WfBatch f k oracles -> check_oracle v k oracles f = ROk out f' ->
  forall p e, In (p, e) out ->
    exists pr, In (p, pr) oracles /\
      (p_failed pr = true -> e = p_error pr) /\
      (p_failed pr = false ->
         match v with
         | VCrash c => e = Some (MStr c)
         | VDiag failed =>
             (* the last mismatching file of the program decides the text *)
             (exists pre file o post,
                 p_programs pr = pre ++ (file, o) :: post /\
                 (forall file' o', In (file', o') post ->
                    ~ ((o' = true /\ has_error failed file') \/ (o' = false /\ ~ has_error failed file'))) /\
                 (o = true -> exists msgs, failed_lookup failed file = Some msgs /\ e = Some (MJoin msgs)) /\
                 (o = false -> ~ has_error failed file /\ exists m, e = Some (MShould m))) /\
             (accepted_illtyped failed pr -> ~ rejected_welltyped failed pr ->
                exists m, e = Some (MShould m)) /\
             (~ accepted_illtyped failed pr ->
                exists file msgs, In (file, true) (p_programs pr) /\
                                  failed_lookup failed file = Some msgs /\ e = Some (MJoin msgs))
         end).
Proof.
  intros v k oracles f out f' Hwf H p e Hin.
  destruct Hwf as [_ [_ [_ Herr]]].
  apply check_oracle_ok_run in H. destruct H as [g [Eo _]]. subst out.
  apply run_values in Hin. destruct Hin as [[]|[pr [Hin [Hrep He]]]].
  exists pr. split; [exact Hin|]. split.
  - intros Hf. subst e. destruct v as [c|failed]; simpl.
    + rewrite (crash_plan_failed _ _ Hf). reflexivity.
    + rewrite (diag_plan_failed _ _ Hf). reflexivity.
  - intros Hf. destruct v as [c|failed]; simpl in He, Hrep.
    + rewrite (crash_plan_ok _ _ Hf) in He. exact He.
    + rewrite (diag_plan_ok _ _ Hf) in He, Hrep. simpl in He, Hrep.
      assert (Hlast := final_err_last failed (p_programs pr) (p_error pr) Hrep
                         (fun file Hi => Herr p pr file Hin Hf Hi)).
      destruct Hlast as [pre [file [o [post [Ep [Hpost [Ht Hfl]]]]]]].
      rewrite <- He in Ht, Hfl.
      assert (Hpost' := existsb_violb_false failed post Hpost).
      split; [|split].
      * exists pre, file, o, post. split; [exact Ep|]. split; [exact Hpost'|]. split; [exact Ht|].
        intros Eo. destruct (Hfl Eo) as [Hl Hm]. split; [apply not_has_error_none; exact Hl | exact Hm].
      * intros _ Hnrej. destruct o.
        -- exfalso. destruct (Ht eq_refl) as [msgs [Hl _]]. apply Hnrej. exists file. split.
           ++ rewrite Ep. apply in_or_app. right. left. reflexivity.
           ++ eapply has_error_some. exact Hl.
        -- destruct (Hfl eq_refl) as [_ Hm]. exact Hm.
      * intros Hnacc. destruct o.
        -- destruct (Ht eq_refl) as [msgs [Hl Hm]]. exists file, msgs. split; [|split; assumption].
           rewrite Ep. apply in_or_app. right. left. reflexivity.
        -- exfalso. destruct (Hfl eq_refl) as [Hl _]. apply Hnacc. exists file. split.
           ++ rewrite Ep. apply in_or_app. right. left. reflexivity.
           ++ apply not_has_error_none. exact Hl.
Qed.

(* ---------------- T3 under the ordering gen_program guarantees ---------------- *)

Lemma report_messages_ordered_proof : forall v k oracles f out f',
  WfBatch f k oracles ->
  (forall p pr, In (p, pr) oracles -> ordered_programs pr) ->
  check_oracle v k oracles f = ROk out f' ->
  forall p e, In (p, e) out ->
    exists pr, In (p, pr) oracles /\
      (p_failed pr = true -> e = p_error pr) /\
      (p_failed pr = false ->
         match v with
         | VCrash c => e = Some (MStr c)
         | VDiag failed =>
             (accepted_illtyped failed pr -> exists m, e = Some (MShould m)) /\
             (~ accepted_illtyped failed pr ->
                exists file msgs, In (file, true) (p_programs pr) /\
                                  failed_lookup failed file = Some msgs /\ e = Some (MJoin msgs))
         end).
Proof.
  intros v k oracles f out f' Hwf Hord H p e Hin.
  destruct (report_messages_partial_proof v k oracles f out f' Hwf H p e Hin)
    as [pr [Hpr [Hfail Hok]]].
  exists pr. split; [exact Hpr|]. split; [exact Hfail|].
  intros Hf. specialize (Hok Hf). destruct v as [c|failed]; [exact Hok|].
  destruct Hok as [Hlast [_ Hnacc]]. split; [|exact Hnacc].
  intros [file2 [Hin2 Hne2]].
  destruct Hlast as [pre [file [o [post [Ep [Hpost [Ht Hfl]]]]]]].
  destruct o.
  - exfalso. rewrite Ep in Hin2. apply in_app_or in Hin2. destruct Hin2 as [Hin2|[E|Hin2]].
    + exact (Hord p pr Hpr pre file post Ep file2 Hin2).
    + discriminate.
    + apply (Hpost file2 false Hin2). right. split; [reflexivity | exact Hne2].
  - destruct (Hfl eq_refl) as [_ Hm]. exact Hm.
Qed.
