(* Driver/Model.v -- executable model of the oracle/statistics logic of /repo/hephaestus.py:
   check_oracle, check_oracle_mul, update_stats/save_stats, the end-of-session cleanup.
   Definitions only.

   Abstractions: a file path, a program id and a compiler message are naturals; strings
   that the driver only passes around are opaque tokens; the strings it *builds*
   ('\n'.join(..), 'SHOULD NOT BE COMPILED: ' + ..) are constructors.  The file system is
   the set of directories the control flow depends on, with the two shutil behaviours
   that matter: copytree fails when the source is missing (and, without dirs_exist_ok,
   when the destination exists); rmtree fails when the directory is missing. *)
From Coq Require Import List Arith Bool.
Import ListNotations.

Definition pid := nat.
Definition path := nat.

Inductive msg :=
| MStr (i : nat)                  (* opaque text: injected-error description, generator error, crash output *)
| MJoin (l : list nat)            (* '\n'.join(failed[program]) *)
| MShould (m : msg).              (* 'SHOULD NOT BE COMPILED: ' + m *)

(* ProgramRes(failed, stats): stats['error'], stats['programs'] (dict path -> expected-to-compile) *)
Record prog := { p_failed : bool; p_error : option msg; p_programs : list (path * bool) }.

(* what analyze_compiler_output produced: compiler.crash_msg or the failed map *)
Inductive verdict :=
| VCrash (out : nat)
| VDiag (failed : list (path * list nat)).

Inductive dir := DBatch (k : nat) | DTmp (p : pid) | DSaved (p : pid).

Definition dir_eqb (a b : dir) : bool :=
  match a, b with
  | DBatch x, DBatch y | DTmp x, DTmp y | DSaved x, DSaved y => Nat.eqb x y
  | _, _ => false
  end.

Definition fs := list dir.
Definition has (f : fs) (d : dir) : bool := existsb (dir_eqb d) f.
Definition del (f : fs) (d : dir) : fs := filter (fun x => negb (dir_eqb x d)) f.
Definition put (f : fs) (d : dir) : fs := if has f d then f else f ++ [d].

Inductive exn := FileExists | FileNotFound | TypeErr.

(* shutil.rmtree(d) *)
Definition rmtree (f : fs) (d : dir) : fs + exn :=
  if has f d then inl (del f d) else inr FileNotFound.

(* shutil.copytree(src, dst, dirs_exist_ok=ok) *)
Definition copytree (ok : bool) (f : fs) (src dst : dir) : fs + exn :=
  if negb (has f src) then inr FileNotFound
  else if has f dst && negb ok then inr FileExists
  else inl (put f dst).

Definition failed_lookup (failed : list (path * list nat)) (p : path) : option (list nat) :=
  match find (fun kv => Nat.eqb (fst kv) p) failed with Some (_, l) => Some l | None => None end.

(* output dict: pid -> stats (only the error field is observable besides the identity) *)
Definition outmap := list (pid * option msg).

Fixpoint out_set (o : outmap) (p : pid) (e : option msg) : outmap :=
  match o with
  | [] => [(p, e)]
  | (q, e') :: o' => if Nat.eqb q p then (q, e) :: o' else (q, e') :: out_set o' p e
  end.

Inductive result := ROk (out : outmap) (f : fs) | RExc (e : exn) (f : fs).

(* the inner loop "for program, oracle in proc_res.stats['programs'].items()" *)
Fixpoint programs_loop (failed : list (path * list nat)) (p : pid)
         (progs : list (path * bool)) (err : option msg) (out : outmap) (f : fs)
  : (option msg * outmap * fs) + (exn * fs) :=
  match progs with
  | [] => inl (err, out, f)
  | (file, oracle) :: rest =>
      match oracle, failed_lookup failed file with
      | true, Some msgs =>
          (* expected to compile, but listed among the errors *)
          let err' := Some (MJoin msgs) in
          let out' := out_set out p err' in
          match copytree true f (DTmp p) (DSaved p) with
          | inl f' => programs_loop failed p rest err' out' f'
          | inr e => inr (e, f)
          end
      | false, None =>
          (* expected to be rejected, but compiled *)
          match err with
          | None => inr (TypeErr, f)               (* 'SHOULD ...' + None *)
          | Some m =>
              let err' := Some (MShould m) in
              let out' := out_set out p err' in
              match copytree true f (DTmp p) (DSaved p) with
              | inl f' => programs_loop failed p rest err' out' f'
              | inr e => inr (e, f)
              end
          end
      | _, _ => programs_loop failed p rest err out f
      end
  end.

Fixpoint diag_loop (failed : list (path * list nat)) (oracles : list (pid * prog))
         (out : outmap) (f : fs) : (outmap * fs) + (exn * fs) :=
  match oracles with
  | [] => inl (out, f)
  | (p, pr) :: rest =>
      if p_failed pr then diag_loop failed rest (out_set out p (p_error pr)) f
      else
        match programs_loop failed p (p_programs pr) (p_error pr) out f with
        | inr e => inr e
        | inl (_, out', f') =>
            match rmtree f' (DTmp p) with
            | inr e => inr (e, f')
            | inl f'' => diag_loop failed rest out' f''
            end
        end
  end.

Fixpoint crash_loop (crash : nat) (oracles : list (pid * prog)) (out : outmap) (f : fs)
  : (outmap * fs) + (exn * fs) :=
  match oracles with
  | [] => inl (out, f)
  | (p, pr) :: rest =>
      if p_failed pr then crash_loop crash rest (out_set out p (p_error pr)) f
      else
        match copytree false f (DTmp p) (DSaved p) with
        | inr e => inr (e, f)
        | inl f' => crash_loop crash rest (out_set out p (Some (MStr crash))) f'
        end
  end.

(* check_oracle(dirname, oracles) for batch directory k *)
Definition check_oracle (v : verdict) (k : nat) (oracles : list (pid * prog)) (f : fs) : result :=
  match v with
  | VCrash c =>
      match rmtree f (DBatch k) with
      | inr e => RExc e f
      | inl f1 =>
          match crash_loop c oracles [] f1 with
          | inl (out, f2) => ROk out f2
          | inr (e, f2) => RExc e f2
          end
      end
  | VDiag failed =>
      match diag_loop failed oracles [] f with
      | inr (e, f1) => RExc e f1
      | inl (out, f1) =>
          match rmtree f1 (DBatch k) with
          | inr e => RExc e f1
          | inl f2 => ROk out f2
          end
      end
  end.

(* ---------------- statistics and sessions ---------------- *)

Record stats := { passed : nat; failed_n : nat; faults : outmap }.

Definition stats0 : stats := {| passed := 0; failed_n := 0; faults := [] |}.

(* update_stats((res, _), batch, _): failed = len(res); passed = batch - failed (Python ints:
   batch >= len(res) always holds for results of check_oracle, stated as a lemma) *)
Definition update_stats (st : stats) (res : outmap) (batch : nat) : stats :=
  {| passed := passed st + (batch - length res);
     failed_n := failed_n st + length res;
     faults := fold_left (fun acc kv => out_set acc (fst kv) (snd kv)) res (faults st) |}.

(* b_tmp: the programs whose tmp/<pid> directory the generation phase created (every program
   that was generated successfully, and possibly some that failed half-way) *)
Record batch := { b_dir : nat; b_tmp : list pid; b_verdict : verdict; b_oracles : list (pid * prog) }.

(* generation phase of one batch: mkdtemp + save_program *)
Definition gen_phase (f : fs) (b : batch) : fs :=
  fold_left (fun acc p => put acc (DTmp p)) (b_tmp b) (put f (DBatch (b_dir b))).

Inductive mode := Sequential | Workers.

(* a session is alive until an exception escapes check_oracle in sequential mode *)
Record session := { alive : bool; s_stats : stats; s_fs : fs }.

Definition session_step (m : mode) (s : session) (b : batch) : session :=
  if negb (alive s) then s else
  match check_oracle (b_verdict b) (b_dir b) (b_oracles b) (gen_phase (s_fs s) b) with
  | ROk out f => {| alive := true; s_stats := update_stats (s_stats s) out (length (b_oracles b)); s_fs := f |}
  | RExc _ f =>
      match m with
      | Sequential => {| alive := false; s_stats := s_stats s; s_fs := f |}     (* the tool dies *)
      | Workers => (* check_oracle_mul swallows the exception and returns ({}, 0) *)
          {| alive := true; s_stats := update_stats (s_stats s) [] (length (b_oracles b)); s_fs := f |}
      end
  end.

Definition is_tmp (d : dir) : bool := match d with DTmp _ => true | _ => false end.

(* end of run()/run_parallel(): rmtree(test_directory/tmp) when the session returns normally *)
Definition finish (s : session) : session :=
  if alive s then {| alive := true; s_stats := s_stats s; s_fs := filter (fun d => negb (is_tmp d)) (s_fs s) |}
  else s.

Definition run_session (m : mode) (f0 : fs) (bs : list batch) : session :=
  finish (fold_left (session_step m) bs {| alive := true; s_stats := stats0; s_fs := f0 |}).
