(* Driver/Corr.v -- comparison of observed driver behaviour with the model. Definitions only. *)
From Coq Require Import List Arith Bool.
Import ListNotations.
From Heph Require Import Driver.Model.

Fixpoint lnat_eqb (a b : list nat) : bool :=
  match a, b with
  | [], [] => true
  | x :: a', y :: b' => Nat.eqb x y && lnat_eqb a' b'
  | _, _ => false
  end.

Fixpoint msg_eqb (a b : msg) : bool :=
  match a, b with
  | MStr i, MStr j => Nat.eqb i j
  | MJoin l, MJoin m => lnat_eqb l m
  | MShould x, MShould y => msg_eqb x y
  | _, _ => false
  end.

Definition omsg_eqb (a b : option msg) : bool :=
  match a, b with
  | None, None => true
  | Some x, Some y => msg_eqb x y
  | _, _ => false
  end.

Fixpoint out_eqb (a b : outmap) : bool :=
  match a, b with
  | [], [] => true
  | (p, e) :: a', (q, e') :: b' => Nat.eqb p q && omsg_eqb e e' && out_eqb a' b'
  | _, _ => false
  end.

Definition fs_eqb (a b : fs) : bool :=
  forallb (fun d => has b d) a && forallb (fun d => has a d) b.

Definition exn_eqb (a b : exn) : bool :=
  match a, b with
  | FileExists, FileExists | FileNotFound, FileNotFound | TypeErr, TypeErr => true
  | _, _ => false
  end.

(* what Python showed after one batch *)
Record obs := {
  o_ret : option outmap;      (* returned map of check_oracle; None when it raised *)
  o_exn : option exn;         (* exception class when it raised *)
  o_passed : nat; o_failed : nat; o_faults : outmap;  (* STATS after update_stats (unchanged if the tool died) *)
  o_fs : fs                   (* directory tree after the batch *)
}.

Definition check_batch (m : mode) (s : session) (b : batch) (o : obs) : list nat * session :=
  let r := check_oracle (b_verdict b) (b_dir b) (b_oracles b) (gen_phase (s_fs s) b) in
  let s' := session_step m s b in
  let c0 := match r, o_ret o, o_exn o with
            | ROk out _, Some out', None => out_eqb out out'
            | RExc e _, None, Some e' => exn_eqb e e'
            | _, _, _ => false
            end in
  let c1 := Nat.eqb (passed (s_stats s')) (o_passed o) && Nat.eqb (failed_n (s_stats s')) (o_failed o) in
  let c2 := out_eqb (faults (s_stats s')) (o_faults o) in
  let c3 := fs_eqb (s_fs s') (o_fs o) in
  ((if c0 then [] else [0]) ++ (if c1 then [] else [1]) ++ (if c2 then [] else [2]) ++ (if c3 then [] else [3]), s').

Fixpoint check_history (m : mode) (s : session) (j : nat) (h : list (batch * obs)) : list (nat * nat) * session :=
  match h with
  | [] => ([], s)
  | (b, o) :: h' =>
      let '(l, s') := check_batch m s b o in
      let '(l', s'') := check_history m s' (S j) h' in
      (map (fun c => (j, c)) l ++ l', s'')
  end.

(* a history with the final directory tree after the end-of-session cleanup *)
Definition hist := (mode * fs * list (batch * obs) * fs)%type.

Definition check_hist (k : nat) (h : hist) : list (nat * nat * nat) :=
  let '(m, f0, bs, ffinal) := h in
  let '(l, s) := check_history m {| alive := true; s_stats := stats0; s_fs := f0 |} 0 bs in
  map (fun c => (k, fst c, snd c)) l ++
  (if fs_eqb (s_fs (finish s)) ffinal then [] else [(k, 99, 4)]).

Fixpoint all_mismatches (k : nat) (hs : list hist) : list (nat * nat * nat) :=
  match hs with
  | [] => []
  | h :: hs' => check_hist k h ++ all_mismatches (S k) hs'
  end.
