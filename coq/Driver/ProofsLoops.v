(* Driver/ProofsLoops.v -- step characterisations and loop invariants of check_oracle. *)
From Coq Require Import List Arith Bool Lia.
Import ListNotations.
From Heph Require Import Driver.Model Driver.Spec Driver.Proofs.

(* ---------------- more fs / out_set facts ---------------- *)

Lemma put_twice f d : put (put f d) d = put f d.
Proof. unfold put at 1. rewrite has_put_same. reflexivity. Qed.

Lemma out_set_twice o p e1 e2 : out_set (out_set o p e1) p e2 = out_set o p e2.
Proof.
  induction o as [|[r e'] o IH]; simpl.
  - rewrite Nat.eqb_refl. reflexivity.
  - destruct (Nat.eqb r p) eqn:E; simpl; rewrite E; [reflexivity|]. rewrite IH. reflexivity.
Qed.

Lemma out_set_In_inv o p e q x :
  In (q, x) (out_set o p e) -> In (q, x) o \/ (q = p /\ x = e).
Proof.
  induction o as [|[r e'] o IH]; simpl.
  - intros [E|[]]. inversion E; subst. right. split; reflexivity.
  - destruct (Nat.eqb r p) eqn:E; simpl.
    + apply Nat.eqb_eq in E. subst r. intros [E|Hin].
      * inversion E; subst. right. split; reflexivity.
      * left. right. exact Hin.
    + intros [E'|Hin].
      * left. left. exact E'.
      * apply IH in Hin. destruct Hin as [Hin|Hin]; [left; right; exact Hin | right; exact Hin].
Qed.

Lemma copytree_inl ok f src dst f' :
  copytree ok f src dst = inl f' ->
  has f src = true /\ f' = put f dst /\ (ok = false -> has f dst = false).
Proof.
  unfold copytree. destruct (has f src) eqn:Es; simpl; [|discriminate].
  destruct (has f dst) eqn:Ed; destruct ok; simpl; try discriminate;
    intros H; inversion H; subst; repeat split; try reflexivity; intros; congruence.
Qed.

Lemma copytree_true_ok f src dst : has f src = true -> copytree true f src dst = inl (put f dst).
Proof. intros H. unfold copytree. rewrite H. simpl. rewrite andb_false_r. reflexivity. Qed.

Lemma copytree_false_ok f src dst :
  has f src = true -> has f dst = false -> copytree false f src dst = inl (put f dst).
Proof. intros H1 H2. unfold copytree. rewrite H1, H2. reflexivity. Qed.

Lemma rmtree_inl f d f' : rmtree f d = inl f' -> has f d = true /\ f' = del f d.
Proof.
  unfold rmtree. destruct (has f d) eqn:E; [|discriminate].
  intros H. inversion H. split; reflexivity.
Qed.

Lemma rmtree_ok f d : has f d = true -> rmtree f d = inl (del f d).
Proof. intros H. unfold rmtree. rewrite H. reflexivity. Qed.

(* ---------------- oracle violations, as booleans ---------------- *)

Definition violb (failed : list (path * list nat)) (fo : path * bool) : bool :=
  match snd fo, failed_lookup failed (fst fo) with
  | true, Some _ => true
  | false, None => true
  | _, _ => false
  end.

Definition pviol (failed : list (path * list nat)) (pr : prog) : bool :=
  existsb (violb failed) (p_programs pr).

Lemma pviol_iff failed pr :
  pviol failed pr = true <-> rejected_welltyped failed pr \/ accepted_illtyped failed pr.
Proof.
  unfold pviol. rewrite existsb_exists. split.
  - intros [[file o] [Hin Hv]]. unfold violb in Hv. simpl in Hv.
    destruct o; destruct (failed_lookup failed file) eqn:E; try discriminate.
    + left. exists file. split; [exact Hin|]. eapply has_error_some. exact E.
    + right. exists file. split; [exact Hin|]. apply not_has_error_none. exact E.
  - intros [[file [Hin He]]|[file [Hin He]]].
    + exists (file, true). split; [exact Hin|]. unfold violb. simpl.
      unfold has_error in He. destruct (failed_lookup failed file); [reflexivity|].
      exfalso. apply He. reflexivity.
    + exists (file, false). split; [exact Hin|]. unfold violb. simpl.
      apply not_has_error_none in He. rewrite He. reflexivity.
Qed.

(* the error text after the inner loop, as a pure function *)
Fixpoint final_err (failed : list (path * list nat)) (progs : list (path * bool))
         (err : option msg) : option msg :=
  match progs with
  | [] => err
  | (file, oracle) :: rest =>
      match oracle, failed_lookup failed file with
      | true, Some msgs => final_err failed rest (Some (MJoin msgs))
      | false, None => final_err failed rest (option_map MShould err)
      | _, _ => final_err failed rest err
      end
  end.

Lemma final_err_noviol failed progs : forall err,
  existsb (violb failed) progs = false -> final_err failed progs err = err.
Proof.
  induction progs as [|[file o] rest IH]; intros err H; simpl in *; [reflexivity|].
  apply orb_false_iff in H. destruct H as [Hv Hr]. unfold violb in Hv. simpl in Hv.
  destruct o; destruct (failed_lookup failed file); try discriminate; apply IH; exact Hr.
Qed.

(* ---------------- programs_loop ---------------- *)

Lemma programs_loop_spec failed p progs : forall err out f err' out' f',
  programs_loop failed p progs err out f = inl (err', out', f') ->
  err' = final_err failed progs err /\
  if existsb (violb failed) progs
  then has f (DTmp p) = true /\ out' = out_set out p err' /\ f' = put f (DSaved p)
  else out' = out /\ f' = f.
Proof.
  induction progs as [|[file o] rest IH]; intros err out f err' out' f' H.
  - simpl in *. inversion H; subst. repeat split.
  - cbn [programs_loop] in H. cbn [final_err existsb]. unfold violb at 1. cbn [fst snd].
    destruct o; destruct (failed_lookup failed file) as [msgs|] eqn:EL; cbn [orb].
    + destruct (copytree true f (DTmp p) (DSaved p)) as [f1|] eqn:EC; [|discriminate].
      apply copytree_inl in EC. destruct EC as [Ht [Ef1 _]]. subst f1.
      apply IH in H. destruct H as [He H]. split; [exact He|].
      destruct (existsb (violb failed) rest) eqn:EV.
      * destruct H as [_ [Ho Hf]]. split; [exact Ht|]. split.
        -- rewrite Ho. apply out_set_twice.
        -- rewrite Hf. apply put_twice.
      * destruct H as [Ho Hf]. split; [exact Ht|]. split; [|exact Hf].
        rewrite Ho, He. rewrite final_err_noviol by exact EV. reflexivity.
    + apply IH in H. exact H.
    + apply IH in H. exact H.
    + destruct err as [m|]; [|discriminate].
      destruct (copytree true f (DTmp p) (DSaved p)) as [f1|] eqn:EC; [|discriminate].
      apply copytree_inl in EC. destruct EC as [Ht [Ef1 _]]. subst f1.
      apply IH in H. destruct H as [He H]. cbn [option_map]. split; [exact He|].
      destruct (existsb (violb failed) rest) eqn:EV.
      * destruct H as [_ [Ho Hf]]. split; [exact Ht|]. split.
        -- rewrite Ho. apply out_set_twice.
        -- rewrite Hf. apply put_twice.
      * destruct H as [Ho Hf]. split; [exact Ht|]. split; [|exact Hf].
        rewrite Ho, He. rewrite final_err_noviol by exact EV. reflexivity.
Qed.

Lemma programs_loop_total failed p progs : forall err out f,
  has f (DTmp p) = true ->
  (forall file, In (file, false) progs -> err <> None) ->
  exists r, programs_loop failed p progs err out f = inl r.
Proof.
  induction progs as [|[file o] rest IH]; intros err out f Ht Herr.
  - simpl. eexists. reflexivity.
  - cbn [programs_loop].
    destruct o; destruct (failed_lookup failed file) as [msgs|] eqn:EL.
    + rewrite copytree_true_ok by exact Ht. apply IH.
      * rewrite has_put_other by discriminate. exact Ht.
      * intros; discriminate.
    + apply IH; [exact Ht|]. intros file' Hin. apply (Herr file'). right. exact Hin.
    + apply IH; [exact Ht|]. intros file' Hin. apply (Herr file'). right. exact Hin.
    + destruct err as [m|].
      * rewrite copytree_true_ok by exact Ht. apply IH.
        -- rewrite has_put_other by discriminate. exact Ht.
        -- intros; discriminate.
      * exfalso. apply (Herr file); [left; reflexivity | reflexivity].
Qed.

(* ---------------- both outer loops as a pure "plan" run ---------------- *)

(* what processing one (pid, prog) does: report it (with which text)? save it? remove tmp? *)
Record plan := { pl_rep : bool; pl_err : option msg; pl_sv : bool; pl_rm : bool }.

Definition step_out (pn : plan) (p : pid) (out : outmap) : outmap :=
  if pl_rep pn then out_set out p (pl_err pn) else out.

Definition step_fs (pn : plan) (p : pid) (f : fs) : fs :=
  let f1 := if pl_sv pn then put f (DSaved p) else f in
  if pl_rm pn then del f1 (DTmp p) else f1.

Fixpoint run (pl : prog -> plan) (oracles : list (pid * prog)) (out : outmap) (f : fs) : outmap * fs :=
  match oracles with
  | [] => (out, f)
  | (p, pr) :: rest => run pl rest (step_out (pl pr) p out) (step_fs (pl pr) p f)
  end.

Definition diag_plan (failed : list (path * list nat)) (pr : prog) : plan :=
  if p_failed pr then {| pl_rep := true; pl_err := p_error pr; pl_sv := false; pl_rm := false |}
  else {| pl_rep := pviol failed pr; pl_err := final_err failed (p_programs pr) (p_error pr);
          pl_sv := pviol failed pr; pl_rm := true |}.

Definition crash_plan (c : nat) (pr : prog) : plan :=
  if p_failed pr then {| pl_rep := true; pl_err := p_error pr; pl_sv := false; pl_rm := false |}
  else {| pl_rep := true; pl_err := Some (MStr c); pl_sv := true; pl_rm := false |}.

Lemma diag_plan_failed failed pr : p_failed pr = true ->
  diag_plan failed pr = {| pl_rep := true; pl_err := p_error pr; pl_sv := false; pl_rm := false |}.
Proof. intros H. unfold diag_plan. rewrite H. reflexivity. Qed.

Lemma diag_plan_ok failed pr : p_failed pr = false ->
  diag_plan failed pr = {| pl_rep := pviol failed pr; pl_err := final_err failed (p_programs pr) (p_error pr);
                           pl_sv := pviol failed pr; pl_rm := true |}.
Proof. intros H. unfold diag_plan. rewrite H. reflexivity. Qed.

Lemma crash_plan_failed c pr : p_failed pr = true ->
  crash_plan c pr = {| pl_rep := true; pl_err := p_error pr; pl_sv := false; pl_rm := false |}.
Proof. intros H. unfold crash_plan. rewrite H. reflexivity. Qed.

Lemma crash_plan_ok c pr : p_failed pr = false ->
  crash_plan c pr = {| pl_rep := true; pl_err := Some (MStr c); pl_sv := true; pl_rm := false |}.
Proof. intros H. unfold crash_plan. rewrite H. reflexivity. Qed.

Lemma diag_loop_run failed oracles : forall out f out' f',
  diag_loop failed oracles out f = inl (out', f') ->
  run (diag_plan failed) oracles out f = (out', f').
Proof.
  induction oracles as [|[p pr] rest IH]; intros out f out' f' H.
  - simpl in *. inversion H. reflexivity.
  - cbn [diag_loop] in H. cbn [run].
    destruct (p_failed pr) eqn:Ef.
    + rewrite (diag_plan_failed _ _ Ef). apply IH in H. exact H.
    + destruct (programs_loop failed p (p_programs pr) (p_error pr) out f)
        as [[[e1 o1] f1]|] eqn:EP; [|discriminate].
      apply programs_loop_spec in EP. destruct EP as [He EP].
      destruct (rmtree f1 (DTmp p)) as [f2|] eqn:ER; [|discriminate].
      apply rmtree_inl in ER. destruct ER as [_ Ef2]. subst f2.
      apply IH in H. rewrite <- H. rewrite (diag_plan_ok _ _ Ef).
      unfold step_out, step_fs, pviol. cbn [pl_rep pl_err pl_sv pl_rm].
      destruct (existsb (violb failed) (p_programs pr)).
      * destruct EP as [_ [Eo Ef1]]. subst. reflexivity.
      * destruct EP as [Eo Ef1]. subst. reflexivity.
Qed.

Lemma crash_loop_run c oracles : forall out f out' f',
  crash_loop c oracles out f = inl (out', f') ->
  run (crash_plan c) oracles out f = (out', f').
Proof.
  induction oracles as [|[p pr] rest IH]; intros out f out' f' H.
  - simpl in *. inversion H. reflexivity.
  - cbn [crash_loop] in H. cbn [run].
    destruct (p_failed pr) eqn:Ef.
    + rewrite (crash_plan_failed _ _ Ef). apply IH in H. exact H.
    + destruct (copytree false f (DTmp p) (DSaved p)) as [f1|] eqn:EC; [|discriminate].
      apply copytree_inl in EC. destruct EC as [_ [Ef1 _]]. subst f1.
      rewrite (crash_plan_ok _ _ Ef). apply IH in H. exact H.
Qed.

(* ---------------- generic facts about a run ---------------- *)

Lemma has_step_fs_batch pn p f k : has (step_fs pn p f) (DBatch k) = has f (DBatch k).
Proof.
  unfold step_fs. destruct (pl_sv pn); destruct (pl_rm pn);
    repeat (rewrite ?has_del, ?has_put; cbn [dir_eqb negb andb orb]); reflexivity.
Qed.

Lemma has_step_fs_tmp pn p f q :
  has (step_fs pn p f) (DTmp q) = negb (pl_rm pn && Nat.eqb q p) && has f (DTmp q).
Proof.
  unfold step_fs. destruct (pl_sv pn); destruct (pl_rm pn);
    repeat (rewrite ?has_del, ?has_put; cbn [dir_eqb negb andb orb]); reflexivity.
Qed.

Lemma has_step_fs_saved pn p f q :
  has (step_fs pn p f) (DSaved q) = (pl_sv pn && Nat.eqb q p) || has f (DSaved q).
Proof.
  unfold step_fs. destruct (pl_sv pn); destruct (pl_rm pn);
    repeat (rewrite ?has_del, ?has_put; cbn [dir_eqb negb andb orb]); reflexivity.
Qed.

Section Run.
Variable pl : prog -> plan.

Lemma run_keys oracles : forall out f q,
  In q (map fst (fst (run pl oracles out f))) <->
  In q (map fst out) \/ exists pr, In (q, pr) oracles /\ pl_rep (pl pr) = true.
Proof.
  induction oracles as [|[p pr] rest IH]; intros out f q; cbn [run].
  - simpl. split; [auto|]. intros [H|[pr [[] _]]]. exact H.
  - rewrite IH. unfold step_out. destruct (pl_rep (pl pr)) eqn:Er.
    + rewrite out_set_keys. split.
      * intros [[H|H]|[pr' [Hin Hr]]].
        -- left. exact H.
        -- right. exists pr. subst. split; [left; reflexivity | exact Er].
        -- right. exists pr'. split; [right; exact Hin | exact Hr].
      * intros [H|[pr' [[E|Hin] Hr]]].
        -- left. left. exact H.
        -- inversion E; subst. left. right. reflexivity.
        -- right. exists pr'. split; assumption.
    + split.
      * intros [H|[pr' [Hin Hr]]]; [left; exact H|].
        right. exists pr'. split; [right; exact Hin | exact Hr].
      * intros [H|[pr' [[E|Hin] Hr]]].
        -- left. exact H.
        -- inversion E; subst. congruence.
        -- right. exists pr'. split; assumption.
Qed.

Lemma run_nodup oracles : forall out f,
  NoDup (map fst out) -> NoDup (map fst (fst (run pl oracles out f))).
Proof.
  induction oracles as [|[p pr] rest IH]; intros out f H; cbn [run]; [exact H|].
  apply IH. unfold step_out. destruct (pl_rep (pl pr)); [apply out_set_nodup|]; exact H.
Qed.

Lemma run_values oracles : forall out f q e,
  In (q, e) (fst (run pl oracles out f)) ->
  In (q, e) out \/ exists pr, In (q, pr) oracles /\ pl_rep (pl pr) = true /\ e = pl_err (pl pr).
Proof.
  induction oracles as [|[p pr] rest IH]; intros out f q e H; cbn [run] in H.
  - left. exact H.
  - apply IH in H. destruct H as [H|[pr' [Hin Hr]]].
    + unfold step_out in H. destruct (pl_rep (pl pr)) eqn:Er.
      * apply out_set_In_inv in H. destruct H as [H|[E1 E2]]; [left; exact H|].
        subst. right. exists pr. split; [left; reflexivity|]. split; [exact Er | reflexivity].
      * left. exact H.
    + right. exists pr'. split; [right; exact Hin | exact Hr].
Qed.

Lemma run_batch oracles : forall out f k,
  has (snd (run pl oracles out f)) (DBatch k) = has f (DBatch k).
Proof.
  induction oracles as [|[p pr] rest IH]; intros out f k; cbn [run]; [reflexivity|].
  rewrite IH. apply has_step_fs_batch.
Qed.

Lemma run_tmp_mono oracles : forall out f q,
  has (snd (run pl oracles out f)) (DTmp q) = true -> has f (DTmp q) = true.
Proof.
  induction oracles as [|[p pr] rest IH]; intros out f q H; cbn [run] in H; [exact H|].
  apply IH in H. rewrite has_step_fs_tmp in H. apply andb_true_iff in H. apply H.
Qed.

Lemma run_tmp_removed oracles : forall out f q pr,
  In (q, pr) oracles -> pl_rm (pl pr) = true -> has (snd (run pl oracles out f)) (DTmp q) = false.
Proof.
  induction oracles as [|[p pr0] rest IH]; intros out f q pr Hin Hrm; [destruct Hin|].
  cbn [run]. destruct Hin as [E|Hin].
  - inversion E; subst.
    destruct (has (snd (run pl rest (step_out (pl pr) q out) (step_fs (pl pr) q f))) (DTmp q)) eqn:Eh;
      [|reflexivity].
    apply run_tmp_mono in Eh. rewrite has_step_fs_tmp in Eh. rewrite Hrm, Nat.eqb_refl in Eh.
    discriminate.
  - eapply IH; eassumption.
Qed.

Lemma run_tmp_kept oracles : (forall pr, pl_rm (pl pr) = false) -> forall out f q,
  has (snd (run pl oracles out f)) (DTmp q) = has f (DTmp q).
Proof.
  intros Hno. induction oracles as [|[p pr] rest IH]; intros out f q; cbn [run]; [reflexivity|].
  rewrite IH. rewrite has_step_fs_tmp. rewrite Hno. reflexivity.
Qed.

Lemma run_saved oracles : forall out f q,
  has (snd (run pl oracles out f)) (DSaved q) = true <->
  has f (DSaved q) = true \/ exists pr, In (q, pr) oracles /\ pl_sv (pl pr) = true.
Proof.
  induction oracles as [|[p pr] rest IH]; intros out f q; cbn [run].
  - simpl. split; [auto|]. intros [H|[pr [[] _]]]. exact H.
  - rewrite IH. rewrite has_step_fs_saved. rewrite orb_true_iff, andb_true_iff, Nat.eqb_eq. split.
    + intros [[[Hs E]|H]|[pr' [Hin Hs]]].
      * subst. right. exists pr. split; [left; reflexivity | exact Hs].
      * left. exact H.
      * right. exists pr'. split; [right; exact Hin | exact Hs].
    + intros [H|[pr' [[E|Hin] Hs]]].
      * left. right. exact H.
      * inversion E; subst. left. left. split; [exact Hs | reflexivity].
      * right. exists pr'. split; assumption.
Qed.

End Run.

(* ---------------- totality of the outer loops ---------------- *)

Lemma diag_loop_total failed oracles : forall out f,
  NoDup (map fst oracles) ->
  (forall p pr, In (p, pr) oracles -> p_failed pr = false -> has f (DTmp p) = true) ->
  (forall p pr file, In (p, pr) oracles -> p_failed pr = false ->
                     In (file, false) (p_programs pr) -> p_error pr <> None) ->
  exists r, diag_loop failed oracles out f = inl r.
Proof.
  induction oracles as [|[p pr] rest IH]; intros out f Hnd Htmp Herr.
  - simpl. eexists. reflexivity.
  - cbn [diag_loop]. cbn [map fst] in Hnd. inversion Hnd as [|? ? Hnotin Hnd']; subst.
    destruct (p_failed pr) eqn:Ef.
    + apply IH; [exact Hnd'| |].
      * intros q pr' Hin. apply Htmp. right. exact Hin.
      * intros q pr' file Hin. apply (Herr q pr' file). right. exact Hin.
    + assert (Ht : has f (DTmp p) = true) by (apply (Htmp p pr); [left; reflexivity | exact Ef]).
      destruct (programs_loop_total failed p (p_programs pr) (p_error pr) out f Ht) as [[[e1 o1] f1] EP].
      { intros file Hin. apply (Herr p pr file); [left; reflexivity | exact Ef | exact Hin]. }
      rewrite EP. apply programs_loop_spec in EP. destruct EP as [_ EP].
      assert (Hf1 : forall q, has f1 (DTmp q) = has f (DTmp q)).
      { intros q. destruct (existsb (violb failed) (p_programs pr)).
        - destruct EP as [_ [_ Ef1]]. subst f1. apply has_put_other. discriminate.
        - destruct EP as [_ Ef1]. subst f1. reflexivity. }
      rewrite rmtree_ok by (rewrite Hf1; exact Ht).
      apply IH; [exact Hnd'| |].
      * intros q pr' Hin Hf. rewrite has_del_other.
        -- rewrite Hf1. apply (Htmp q pr'); [right; exact Hin | exact Hf].
        -- intros E. inversion E; subst. apply Hnotin. apply (in_map fst) in Hin. exact Hin.
      * intros q pr' file Hin. apply (Herr q pr' file). right. exact Hin.
Qed.

Lemma crash_loop_total c oracles : forall out f,
  NoDup (map fst oracles) ->
  (forall p pr, In (p, pr) oracles -> p_failed pr = false ->
                has f (DTmp p) = true /\ has f (DSaved p) = false) ->
  exists r, crash_loop c oracles out f = inl r.
Proof.
  induction oracles as [|[p pr] rest IH]; intros out f Hnd Hfs.
  - simpl. eexists. reflexivity.
  - cbn [crash_loop]. cbn [map fst] in Hnd. inversion Hnd as [|? ? Hnotin Hnd']; subst.
    destruct (p_failed pr) eqn:Ef.
    + apply IH; [exact Hnd'|]. intros q pr' Hin. apply Hfs. right. exact Hin.
    + destruct (Hfs p pr (or_introl eq_refl) Ef) as [Ht Hs].
      rewrite copytree_false_ok by assumption.
      apply IH; [exact Hnd'|]. intros q pr' Hin Hf.
      destruct (Hfs q pr' (or_intror Hin) Hf) as [Ht' Hs'].
      split.
      * rewrite has_put_other by discriminate. exact Ht'.
      * rewrite has_put_other; [exact Hs'|].
        intros E. inversion E; subst. apply Hnotin. apply (in_map fst) in Hin. exact Hin.
Qed.
