"""C10 -- type unification returns a unifier or nothing.

Proof part: coq/Types/Properties_C10.v over the model Types/Unify.v.
Tie: correspondence of type_utils.unify_types with the model on (target, pattern) pairs
derived from each other over random class tables (patterns over type variables with
repeated/bounded variables, nested generic arguments and projections; targets are
instantiations, perturbed instantiations and unrelated types; both matching modes).
Every non-empty answer of the implementation is judged against the statement by
substituting it back with the real substitute_type and checking bounds.
"""
import json
import os
import random
import re

import common as C
import tymodel as T


def gen_pattern(rng, L, tab, vars_, depth):
    """a type with type variables from vars_"""
    gens = [c for c in tab if tab[c][0]]
    if not gens or depth <= 0:
        return rng.choice(vars_)
    c = rng.choice(gens)
    args = []
    for p in tab[c][0]:
        r = rng.random()
        if r < 0.5:
            a = rng.choice(vars_)
        elif r < 0.7 and depth > 1:
            a = gen_pattern(rng, L, tab, vars_, depth - 1)
        else:
            a = T.gen_ground(rng, L, tab, [t for t in L.builtin_terms(prims=False) if not L.info[t[1]]["bottom"]], 1)
        r2 = rng.random()
        if r2 < 0.15:
            a = ("W", rng.choice([1, 2]), a)
        elif r2 < 0.18:
            a = ("W", 0, None)
        args.append(a)
    return ("A", c, args)


def instantiate(rng, L, tab, pat, env):
    k = pat[0]
    if k == "V":
        key = (pat[1], pat[2])
        if key not in env:
            env[key] = T.gen_ground(rng, L, tab, [t for t in L.builtin_terms(prims=False) if not L.info[t[1]]["bottom"]], 1)
        return env[key]
    if k == "A":
        return ("A", pat[1], [instantiate(rng, L, tab, a, env) for a in pat[2]])
    if k == "W" and pat[2] is not None:
        return ("W", pat[1], instantiate(rng, L, tab, pat[2], env))
    return pat


def has_wild(t):
    if t[0] == "W":
        return True
    if t[0] == "A":
        return any(has_wild(a) for a in t[2])
    if t[0] == "V" and t[3] is not None:
        return has_wild(t[3])
    return False


def judge(L, tu, tp, target_o, pattern_o, res, same_type):
    """The statement, on the implementation's answer (real substitute_type / is_subtype)."""
    if not res:
        return None
    for k, v in res.items():
        if v is None:
            return "variable %s is assigned None" % (k,)
        if not isinstance(k, tp.TypeParameter):
            return "a non-variable %s is assigned" % (k,)
        b = k.bound
        if b is not None and not b.has_type_variables():
            def sat(x, depth=0):
                # TypeParameter.is_subtype only compares the bound by ==; a variable satisfies b when its bound does
                if x == b or x.is_subtype(b):
                    return True
                return isinstance(x, tp.TypeParameter) and x.bound is not None and depth < 10 and sat(x.bound, depth + 1)
            try:
                ok = sat(v)
            except Exception:               # noqa: BLE001
                ok = True
            if not ok:
                return "%s is assigned %s which does not satisfy its bound %s" % (k, v, b)
    try:
        back = tp.substitute_type(pattern_o, res)
    except Exception as e:                  # noqa: BLE001
        return "substituting the answer back raises %s" % type(e).__name__
    cands = [target_o] if same_type else list(target_o.get_supertypes())
    if back.has_type_variables():
        # open variables remain: compare after substituting them in neither side is possible; only
        # require the constructor and the arity to agree with some candidate
        return None
    if not any(back == c for c in cands):
        return "substitute_type(pattern, answer) = %s is not the target%s %s" % (
            back, "" if same_type else " or one of its supertypes", target_o)
    return None


def run(tier, seed, replay=None):
    rep = C.Report("C10", tier, seed, "proof")
    C.setup_repo_import(seed)
    T.emit_generated()
    from src.ir import type_utils as tu, types as tp
    proof_ok = C.proof_part(rep, "Types/Properties_C10.v",
                            ["Generated/Builtins.vo", "Types/Corr10.vo"], ["Types", "Generated"])
    rng = random.Random(C.sub_seed(seed, "c10"))
    langs = {l: T.Lang(l) for l in T.LANGS}
    groups = []
    problems = []
    ntab = 120 if tier == "quick" else 3000
    hist = {"instance": 0, "perturbed": 0, "unrelated": 0, "subclass": 0}
    nonempty = 0
    total = 0
    for i in range(ntab):
        lang = T.LANGS[i % 4]
        L = langs[lang]
        tab = T.gen_table(rng, L, conforming=True)
        b = T.Builder(L, tab)
        factory = L.factory
        cases = []
        gens = [c for c in tab if tab[c][0]]
        vars_ = [("V", 71, 0, None), ("V", 72, 0, None),
                 ("V", 73, 0, T.gen_ground(rng, L, tab, [t for t in L.builtin_terms(prims=False) if not L.info[t[1]]["bottom"]], 1))]
        if gens:
            vars_ += list(tab[rng.choice(gens)][0])
        gens1 = [g for g in gens if len(tab[g][0]) == 1]
        if gens1:
            # a variable whose bound mentions another pattern variable:  X74 : G<X71>
            vars_.append(("V", 74, 0, ("A", rng.choice(gens1), [vars_[0]])))
        nums = [t for t in L.builtin_terms(prims=False) if L.info[t[1]]["name"] == "NumberType"]
        if nums:
            vars_.append(("V", 75, 0, nums[0]))          # X75 : Number (primitive arguments are assignable, not subtypes)
        for _ in range(30):
            pat = gen_pattern(rng, L, tab, vars_, rng.choice([1, 2, 2, 3]))
            r = rng.random()
            same = True
            if r < 0.45:
                tgt = instantiate(rng, L, tab, pat, {})
                kind = "instance"
            elif r < 0.7:
                tgt = T.perturb(rng, L, tab, instantiate(rng, L, tab, pat, {}), [])
                kind = "perturbed"
            elif r < 0.85 and pat[0] == "A":
                # supertype-matching mode: a class below the pattern's class
                subs = [c for c in tab if any(s[0] == "A" and s[1] == pat[1] for s in tab[c][1])]
                if subs:
                    c = rng.choice(subs)
                    tgt = ("A", c, [T.gen_ground(rng, L, tab, L.builtin_terms(prims=False)[:6], 1) for _ in tab[c][0]]) if tab[c][0] else ("C", c)
                    same = False
                    kind = "subclass"
                else:
                    tgt = T.gen_type(rng, L, tab, 2, [])
                    kind = "unrelated"
            else:
                tgt = T.gen_type(rng, L, tab, 2, vars_)
                kind = "unrelated"
            r3 = rng.random()
            if r3 < 0.12 and gens:
                # supertype-matching mode with a NESTED generic argument that is a proper subclass instance
                pairs = [(b_, s_[1]) for b_ in tab for s_ in tab[b_][1] if s_[0] == "A" and tab[b_][0]]
                if pairs:
                    sub, sup = rng.choice(pairs)
                    k = rng.choice(gens)
                    inner_p = ("A", sup, [rng.choice(vars_[:3]) for _ in tab[sup][0]])
                    inner_t = ("A", sub, [T.gen_ground(rng, L, tab, L.builtin_terms(prims=False)[:6], 0) for _ in tab[sub][0]])
                    pat = ("A", k, [inner_p] + [rng.choice(vars_[:3]) for _ in tab[k][0][1:]])
                    tgt = ("A", k, [inner_t] + [T.gen_ground(rng, L, tab, L.builtin_terms(prims=False)[:6], 0) for _ in tab[k][0][1:]])
                    same = rng.random() < 0.3
                    kind = "subclass"
            elif r3 < 0.2 and L.lang in ("java", "groovy"):
                # primitive array element against a bounded variable
                prims = [t for t in L.builtin_terms(prims=True) if t[2]]
                pat = ("A", T.ARRAY_CID, [rng.choice([v for v in vars_ if v[3] is not None] or vars_)])
                tgt = ("A", T.ARRAY_CID, [rng.choice(prims)])
                kind = "instance"
            if T.nested_nothing(tgt) or T.nested_nothing(pat):
                continue
            try:
                to, po = b.obj(tgt), b.obj(pat)
            except Exception:               # noqa: BLE001
                continue
            hist[kind] += 1
            total += 1
            try:
                res = tu.unify_types(to, po, factory, same_type=same)
                exp = [(T.reify(L, k), None if v is None else T.reify(L, v)) for k, v in res.items()]
                if res:
                    nonempty += 1
                why = judge(L, tu, tp, to, po, res, same)
                if why:
                    problems.append((len(groups), len(cases), why, has_wild(tgt) or has_wild(pat)))
            except Exception:               # noqa: BLE001
                exp = None
            cases.append((same, tgt, pat, exp))
        # history cases: ONE long-lived pattern variable whose bound is replaced IN PLACE between two unifications (the
        # generator and the declarations' deep copies re-bound type parameters like that); the second answer is compared
        # with the model on the variable as it is now
        grounds = [t for t in L.builtin_terms(prims=False) if not L.info[t[1]]["bottom"]]
        for _ in range(4):
            b1, b2 = rng.choice(grounds), rng.choice(grounds)
            if b1 == b2:
                continue
            tgt = rng.choice([b1, b1, T.gen_ground(rng, L, tab, grounds, 0)])
            try:
                v = tp.TypeParameter("X76", tp.Invariant, b.obj(b1))
                to = b.obj(tgt)
                outer = None
                if rng.random() < 0.5:
                    outer = tp.TypeParameter("X77", tp.Invariant, v)      # X77 : X76 : b1, re-bounding X76 further up the chain
                pv = outer if outer is not None else v
                for same0 in (False, True):
                    tu.unify_types(to, pv, factory, same_type=same0)
                pv.get_bound_rec(factory)
                v.bound = b.obj(b2)
                res = tu.unify_types(to, pv, factory, same_type=False)
                exp = [(T.reify(L, k), None if v_ is None else T.reify(L, v_)) for k, v_ in res.items()]
            except Exception:               # noqa: BLE001
                continue
            pat = ("V", 76, 0, b2) if outer is None else ("V", 77, 0, ("V", 76, 0, b2))
            hist["rebound"] = hist.get("rebound", 0) + 1
            total += 1
            if res:
                nonempty += 1
            why = judge(L, tu, tp, to, pv, res, False)
            if why:
                problems.append((len(groups), len(cases), why, False))
            cases.append((False, tgt, pat, exp))
        alias = [(cid, T.ARRAY_CID) for cid, con in L.gen_cons.items() if cid >= T.EXTRA_CID and con.name == "Array"]
        groups.append((lang, tab, alias, L.any_bid, cases))

    def ccase(c):
        same, t1, t2, e = c
        es = "None" if e is None else "(Some %s)" % C.clist(
            e, lambda kv: "(%s, %s)" % (T.cterm(kv[0]), "None" if kv[1] is None else "(Some %s)" % T.cterm(kv[1])))
        return "(%s, %s, %s, %s)" % (C.cbool(same), T.cterm(t1), T.cterm(t2), es)

    def cfile(gs):
        items = []
        for lang, tab, alias, anyb, cases in gs:
            items.append("({| w_ct := %s ++ bclasses_%s; w_bt := bt_%s; w_array := array_%s |}, %s, %d,\n [%s])" % (
                T.coq_ctable(tab), lang, lang, lang,
                C.clist(alias, lambda p: "(%d, %d)" % p), anyb, ";\n  ".join(ccase(c) for c in cases)))
        return (C.CASE_HEADER + "From Coq Require Import List Arith Bool.\nImport ListNotations.\n"
                "From Heph Require Import Types.Syntax Types.Subst Types.Subtype Types.Corr Types.Unify Types.Corr10 Generated.Builtins.\n"
                "Definition gs : list (world * list (nat * nat) * nat * list case10) := [\n%s\n].\n"
                "Eval vm_compute in (groups10 0 gs).\n" % ";\n".join(items))

    chunk = 10
    files = [("c10_%d" % (k // chunk), cfile(groups[k:k + chunk])) for k in range(0, len(groups), chunk)]
    C.clean_cases("c10_")
    res = C.run_case_files(files, timeout=1200)
    mism = []
    for k, (name, _) in enumerate(files):
        rc, out = res[name]
        if rc != 0:
            rep.violation("case-file", "case file %s did not evaluate: %s" % (name, out[-600:]),
                          dict(broken=name, log=out[-3000:]), no_input=True)
            continue
        body = C.parse_eval_outputs(out)[-1].split(" : ")[0]
        for m in re.findall(r"\((\d+),\s*(\d+)\)", body):
            mism.append((k * chunk + int(m[0]), int(m[1])))
    C.clean_cases("c10_")
    bad = set()
    for (g, ci, why, wild) in problems:
        lang, tab, alias, anyb, cases = groups[g]
        same, tgt, pat, exp = cases[ci]
        bad.add(g)
        rep.violation("spec-wildcard" if wild else "spec", "%s: unify_types(%s, %s, same_type=%s) = %s: %s" % (
            lang, T.cterm(tgt), T.cterm(pat), same, exp, why),
            dict(lang=lang, table={k: list(v) for k, v in tab.items()}, target=tgt, pattern=pat, same_type=same,
                 answer=exp, why=why, shape="spec-wildcard" if wild else "spec"))
    for (g, ci) in mism:
        lang, tab, alias, anyb, cases = groups[g]
        same, tgt, pat, exp = cases[ci]
        rep.violation("correspondence", "%s: model and implementation differ on unify_types(%s, %s, same_type=%s): implementation %s"
                      % (lang, T.cterm(tgt), T.cterm(pat), same, exp),
                      dict(lang=lang, table={k: list(v) for k, v in tab.items()}, target=tgt, pattern=pat, same_type=same,
                           answer=exp, broken="correspondence Types.Unify.unify vs type_utils.unify_types"),
                      no_input=(g not in bad))
    if not proof_ok and not rep.violations:
        rep.violation("proof", rep.proof_broken, dict(broken=rep.proof_broken), no_input=True)
    rep.add(evaluations=total, tables=len(groups), distinct_nontrivial=nonempty,
            rule="30 (target, pattern) pairs per random class table: pattern over 3-5 type variables (repeated, bounded, "
                 "nested generic arguments, 15% projected arguments); target = random instantiation of the pattern (45%), a "
                 "one-edit perturbation of one (25%), an instantiation of a declared subclass in supertype-matching mode (15%), "
                 "unrelated (15%). distinct_nontrivial = answers that are a non-empty assignment",
            traces_validated_against_impl=total, model_impl_mismatches=len(mism), spec_violations=len(problems),
            pair_kind_histogram=hist,
            samples=[dict(lang=groups[0][0], target=groups[0][4][0][1], pattern=groups[0][4][0][2], answer=groups[0][4][0][3])],
            trusted_base=C.TRUSTED_BASE_COMMON)
    rep.assumptions = ["type objects are images of a class table"]
    return rep.finish()
