"""C06 -- the subtyping judgement is sound, and exact on concrete class types.

Proof part: coq/Types/Properties_C06.v (model Types/Subtype.v vs the declarative relation
Types/Decl.v).  Tie: Generated/Builtins.v is regenerated from /repo's *_types.py on every
run (and the theorems over it re-checked); correspondence of Type.is_subtype /
is_assignable with the model on random class tables and relation-directed type pairs,
objects built with the real constructors.  Every implementation answer is also judged by
the proved-sound declarative checker (sub_chk) evaluated in Coq.
"""
import glob as globmod
import json
import os
import random
import re

import common as C
import tymodel as T


def py_answer(f):
    try:
        return 1 if f() else 0
    except RecursionError:
        return 2
    except Exception:                       # noqa: BLE001
        return 2


def eval_pairs(L, tab, pairs, rng=None):
    b = T.Builder(L, tab)
    out = []
    for s, t in pairs:
        try:
            so = b.obj(s)
            if rng is not None and s[0] in ("A", "C") and rng.random() < 0.25:
                # closure-directed: the right-hand side is one of the implementation's own
                # transitive supertypes of s (possibly edited once)
                sups = sorted(so.get_supertypes(), key=str)
                t = T.reify(L, rng.choice(sups))
                if rng.random() < 0.3:
                    t = T.perturb(rng, L, tab, t, [])
                if T.nested_nothing(t):
                    continue
            to = b.obj(t)
        except Exception:                   # noqa: BLE001  (not constructible with the real constructors)
            continue
        out.append((s, t, py_answer(lambda: so.is_subtype(to)), py_answer(lambda: so.is_assignable(to))))
    return out


def coq_world(lang, tab):
    return "{| w_ct := %s ++ bclasses_%s; w_bt := bt_%s; w_array := array_%s |}" % (
        T.coq_ctable(tab), lang, lang, lang)


def coq_file(groups, fuel=40):
    gs = []
    for lang, tab, cases in groups:
        cs = "; ".join("(%s, %s, %d, %d)" % (T.cterm(s), T.cterm(t), a, b) for s, t, a, b in cases)
        gs.append("(%s,\n  [%s])" % (coq_world(lang, tab), cs))
    return (C.CASE_HEADER + "From Coq Require Import List Arith Bool.\nImport ListNotations.\n"
            "From Heph Require Import Types.Syntax Types.Subst Types.Subtype Types.Decl Types.Corr Types.Judge Generated.Builtins.\n"
            "From Heph Require Import Types.TableOk Types.ProjFrag Types.ProjCorr.\n"
            "Definition gs : list sub_group := [\n%s\n].\n"
            "Eval vm_compute in (groups_counts %d gs).\n"
            "Eval vm_compute in (refuted_inside %d 0 gs).\n"
            "Eval vm_compute in (group_mismatches %d 0 gs).\n"
            "Eval vm_compute in (group_judge %d 0 gs).\n" % (";\n".join(gs), 60, 60, fuel, 60))


def parse_pairs(s):
    body = s.split(" : ")[0].strip()
    if body in ("[]", "nil"):
        return []
    return [tuple(int(x) for x in m) for m in re.findall(r"\((\d+),\s*(\d+)\)", body)]


def parse_triples(s):
    body = s.split(" : ")[0].strip()
    if body in ("[]", "nil"):
        return []
    return [tuple(int(x) for x in m) for m in re.findall(r"\((\d+),\s*(\d+),\s*(\d+)\)", body)]


def parse_nat_lists(s):
    """'[[1; 2]; [3; 4]] : list (list nat)' -> [[1, 2], [3, 4]]"""
    body = s.split(" : ")[0].strip()
    return [[int(x) for x in re.findall(r"\d+", m)] for m in re.findall(r"\[([0-9;\s]*)\]", body)]


FRAG_KEYS = ["pairs", "types_in_fragment", "inside", "inside_with_projection", "inside_distinct_types",
             "inside_answered_true", "inside_answered_false", "inside_true_confirmed_by_sub_ref",
             "inside_true_refuted_by_sub_ref",
             "converse_inside", "converse_inside_with_projection", "converse_inside_answered_false",
             "converse_false_confirmed_by_sub_ref", "converse_false_refuted_by_sub_ref",
             "inside_projection_free_theorem", "inside_any_soundness_theorem",
             "safe_inside", "safe_inside_table_not_params_direct", "safe_inside_with_projection",
             "safe_true_confirmed_by_sub_ref", "safe_true_refuted_by_sub_ref"]

JUDGE = {1: "unsound-core", 2: "unsound-projection", 3: "unsound-tyvar", 4: "incomplete-ground",
         5: "reference-out-of-fuel", 6: "unsound-malformed"}


def run(tier, seed, replay=None):
    rep = C.Report("C06", tier, seed, "proof")
    C.setup_repo_import(seed)
    T.emit_generated()
    proof_ok = C.proof_part(rep, "Types/Properties_C06.v",
                            ["Generated/Builtins.vo", "Types/Syntax.vo", "Types/Subst.vo", "Types/Subtype.vo",
                             "Types/Decl.vo", "Types/Corr.vo", "Types/Judge.vo", "Types/SubtypeSound.vo"],
                            ["Types", "Generated"])
    pr_proj = C.check_properties_file("Types/Properties_C06_proj.v",
                                      ["Types/ProjFrag.vo", "Types/ProjFragC.vo", "Types/ProjSafe.vo", "Types/ProjCorr.vo",
                                       "Types/ProjSound.vo", "Types/ProjComplete.vo", "Types/ProjSafeSound.vo", "Types/ProjSafeJudge.vo",
                                       "Types/ProjExamples.vo"])
    proof_ok = C.proof_part_extra(rep, pr_proj) and proof_ok
    rng = random.Random(C.sub_seed(seed, "c06"))
    langs = {l: T.Lang(l) for l in T.LANGS}
    groups = []
    if replay:
        d = json.load(open(replay))["detail"]
        tab = {int(k): (v[0], v[1]) for k, v in d["table"].items()}
        groups.append((d["lang"], _tt(tab), eval_pairs(langs[d["lang"]], _tt(tab), [(_t(d["s"]), _t(d["t"]))])))
    else:
        for fn in sorted(globmod.glob(os.path.join(C.CORPUS, "C06", "*.json"))):
            d = json.load(open(fn))
            tab = _tt({int(k): (v[0], v[1]) for k, v in d["table"].items()})
            groups.append((d["lang"], tab, eval_pairs(langs[d["lang"]], tab, [(_t(d["s"]), _t(d["t"]))])))
        ntab = 160 if tier == "quick" else 4000
        for i in range(ntab):
            lang = T.LANGS[i % 4]
            L = langs[lang]
            malformed = (i % 8 == 7)
            tab = T.gen_table(rng, L, conforming=(i % 5 != 4))
            pairs = [T.gen_pair(rng, L, tab, malformed) for _ in range(40)]
            groups.append((lang, tab, eval_pairs(L, tab, pairs, rng)))

    chunk = 10
    files = [("c06_%d" % (k // chunk), coq_file(groups[k:k + chunk])) for k in range(0, len(groups), chunk)]
    C.clean_cases("c06_")
    res = C.run_case_files(files, timeout=1500)
    mism, unsound = [], []
    frag = dict((k_, 0) for k_ in FRAG_KEYS)
    frag.update(tables=0, tables_table_ok=0, tables_params_direct=0, tables_supers_solid=0, tables_both=0, tables_all_three=0)
    frag_refuted = []
    for k, (name, _) in enumerate(files):
        rc, out = res[name]
        if rc != 0:
            rep.violation("case-file", "case file %s did not evaluate: %s" % (name, out[-600:]),
                          dict(broken=name, log=out[-3000:]), no_input=True)
            continue
        vals = C.parse_eval_outputs(out)
        for row in parse_nat_lists(vals[-4]):
            frag["tables"] += 1
            frag["tables_table_ok"] += row[0]
            frag["tables_params_direct"] += row[1]
            frag["tables_supers_solid"] += row[2]
            frag["tables_both"] += row[0] * row[1]
            frag["tables_all_three"] += row[0] * row[1] * row[2]
            for k_, v_ in zip(FRAG_KEYS, row[3:]):
                frag[k_] += v_
        for (g, c, code) in parse_triples(vals[-3]):
            frag_refuted.append((k * chunk + g, c, code))
        for (g, c) in parse_pairs(vals[-2]):
            mism.append((k * chunk + g, c // 2, c % 2))
        for (g, c, code) in parse_triples(vals[-1]):
            unsound.append((k * chunk + g, c, code))
    C.clean_cases("c06_")

    n = 0
    pos = 0
    distinct = set()
    kinds = {}
    depths = {}
    answers = {0: 0, 1: 0, 2: 0}
    for lang, tab, cases in groups:
        for s, t, a, b in cases:
            n += 1
            answers[a] += 1
            if s != t and (s[0] == "A" or t[0] == "A"):
                distinct.add((lang, repr(sorted(tab.items())), repr(s), repr(t)))
            T.term_kinds(s, kinds)
            T.term_kinds(t, kinds)
            d = max(T.term_depth(s), T.term_depth(t))
            depths[d] = depths.get(d, 0) + 1
    jhist = {}
    for (g, c, code) in unsound:
        lang, tab, cases = groups[g]
        s, t, a, b = cases[c]
        jhist[JUDGE[code]] = jhist.get(JUDGE[code], 0) + 1
        if code == 5:
            continue
        rep.violation(JUDGE[code], "%s: is_subtype(%s, %s) answers %s but the declarative relation says %s [%s]"
                      % (lang, T.cterm(s), T.cterm(t), bool(a), "no" if a else "yes", JUDGE[code]),
                      dict(lang=lang, table={k: list(v) for k, v in tab.items()}, s=s, t=t, impl=a, shape=JUDGE[code]))
    for (g, c, code) in frag_refuted:
        lang, tab, cases = groups[g]
        s, t, a, b = cases[c]
        kind = "proj-fragment-incomplete" if code == 2 else "proj-fragment-unsound"
        thm = {1: "is_subtype_sound_proj_partial", 2: "is_subtype_complete_proj_partial",
               3: "is_subtype_sound_safe_partial"}[code]
        rep.violation(kind,
                      "%s: is_subtype(%s, %s) answers %s inside the hypotheses of %s (table_ok, params_direct%s, %s, wf_ty) "
                      "but the declarative relation says %s"
                      % (lang, T.cterm(s), T.cterm(t), bool(a), thm,
                         {1: "", 2: ", supers_solid", 3: " replaced by safe_allb 12"}[code],
                         "ground" if code == 2 else "proj_closed", "yes" if code == 2 else "no"),
                      dict(lang=lang, table={k: list(v) for k, v in tab.items()}, s=s, t=t, impl=a, shape=kind,
                           broken="Types/Properties_C06_proj.v %s vs src/ir/types.py" % thm))
    rep.add(judge_histogram=jhist,
            projection_fragment=dict(
                frag,
                rule="hypotheses of Types/Properties_C06_proj.v (is_subtype_sound_proj_partial) evaluated in the kernel on every "
                     "explored case: table_ok and params_direct per table; proj_closed and wf_ty 20 of both types per pair; "
                     "'inside' = all of them hold.  For inside pairs the implementation answered True on, the reference checker "
                     "sub_ref (fuel 60) is evaluated: 'confirmed' = Yes, 'refuted' = No (a refuted pair contradicts the theorem "
                     "unless model and implementation differ, and is reported as a violation).  converse_*: the hypotheses of "
                     "is_subtype_complete_proj_partial (additionally supers_solid per table, ground instead of proj_closed per type); "
                     "for those pairs answered False, 'confirmed' = sub_ref No, 'refuted' = sub_ref Yes.  safe_*: the hypotheses of "
                     "is_subtype_sound_safe_partial (table_ok; proj_closed, wf_ty 20 and safe_allb 12 of both types -- params_direct not "
                     "required).  inside_projection_free_theorem: table_ok, plain_closed and arity_ok (is_subtype_sound_pf of "
                     "Properties_C06.v); inside_any_soundness_theorem: the union of the three"))
    bad_groups = {g for g, _, code in unsound if code != 5}
    for (g, c, which) in mism:
        lang, tab, cases = groups[g]
        s, t, a, b = cases[c]
        rep.violation("correspondence", "%s: model and implementation differ on %s(%s, %s): implementation %s"
                      % (lang, ["is_subtype", "is_assignable"][which], T.cterm(s), T.cterm(t), [a, b][which]),
                      dict(lang=lang, table={k: list(v) for k, v in tab.items()}, s=s, t=t, impl=[a, b],
                           broken="correspondence Types.Subtype.%s vs src/ir/types.py" % ["is_subtype", "is_assignable"][which]),
                      no_input=(g not in bad_groups))
    if not proof_ok and not rep.violations:
        rep.violation("proof", rep.proof_broken, dict(broken=rep.proof_broken), no_input=True)
    rep.add(evaluations=2 * n, pairs=n, tables=len(groups), distinct_nontrivial=len(distinct),
            rule="random class tables (2-6 user classes + the language's Array/FunctionN, declared variance, bounds incl. "
                 "T2:T1, nested supertype arguments; one in five tables violates the declaration-site variance check); 40 pairs "
                 "per table, 60% derived from each other by one or two relation-directed edits (move along the hierarchy, "
                 "wrap/strip/flip a projection, star), 15% identical, 25% independent; one table in eight uses the malformed "
                 "stream (conflicting projections, bare constructors). distinct_nontrivial = distinct (table, s, t) with s != t "
                 "and a parameterized side",
            traces_validated_against_impl=n, model_impl_mismatches=len(mism), unsound_answers=len(unsound),
            answer_histogram={"False": answers[0], "True": answers[1], "exception": answers[2]},
            term_kind_histogram=kinds, depth_histogram=depths,
            samples=[dict(lang=groups[i][0], table={k: list(v) for k, v in groups[i][1].items()},
                          s=groups[i][2][0][0], t=groups[i][2][0][1], is_subtype=groups[i][2][0][2])
                     for i in (0, len(groups) // 2)],
            trusted_base=C.TRUSTED_BASE_COMMON + [
                "Generated/Builtins.v is produced by harness/tymodel.py by introspecting the imported language modules",
                "type objects are the images of a class table (built with the real constructors); objects snapshotted while a class is under construction are outside the model"])
    rep.assumptions = ["class tables are acyclic; names identify classes"]
    return rep.finish()


def _t(x):
    if isinstance(x, list):
        x = tuple(x)
    if x[0] == "A":
        return ("A", x[1], [_t(a) for a in x[2]])
    if x[0] == "V":
        return ("V", x[1], x[2], None if x[3] is None else _t(x[3]))
    if x[0] == "W":
        return ("W", x[1], None if x[2] is None else _t(x[2]))
    return tuple(x)


def _tt(tab):
    return {k: ([_t(p) for p in v[0]], [_t(s) for s in v[1]]) for k, v in tab.items()}
