"""C18 -- the pipeline never fails internally and always terminates.

What Coq carries (coq/IR/Properties_C18.v): Generator.get_generators as a pure function and
the proofs that at depth >= max_depth (or with only_leaves) only leaf generators are offered,
that the same-depth re-dispatch of gen_variable cannot loop through gen_variable again, that
the candidate list is never empty, that every composite generator increments the depth, and
that every run of the abstract recursion scheme built from these (gen_new's bottom cut at
2 * max_depth included) has nesting <= 2 * max_depth + 1.
Ties: (a) the real get_generators is driven directly (a Generator whose gen_* methods return
their own tag) against the model; (b) traces: generated programs must satisfy the proved
nesting bound (composite nodes on a root-to-leaf path <= 2 * max_depth + 2 + array nesting),
and generation, type erasure, type overwriting and translation of every intermediate program
must not raise (counted per stage).  Exception freedom of ~10 kLoC is NOT proved: part (b) is
supporting exploration, labelled as such; termination of the same-depth loop holds with
probability 1 only.
"""
import random
import time
import traceback

import common as C
import tymodel as T
import ir2coq
import progs

GENS = ["GNew", "GConst", "GArray", "GLogical", "GEquality", "GComparison", "GFieldAccess", "GConditional",
        "GIs", "GFunCall", "GVariable", "GAssignment"]
COUNTED = {1, 4, 6, 8, 15, 17, 18, 19, 20, 21, 22, 23, 24, 25, 27, 28}


def drive_get_generators(rng, n):
    from src.generators.generator import Generator
    from src.generators.config import cfg
    from src.ir import ast
    cases = []
    saved = (cfg.limits.max_depth, cfg.limits.max_var_decls)
    try:
        for lang in T.LANGS:
            g = Generator(language=lang)
            f = g.bt_factory
            tag = lambda t: (lambda *a, **k: t)        # noqa: E731
            g.gen_new = tag("GNew")
            g.gen_variable = tag("GVariable")
            g.gen_func_call = tag("GFunCall")
            g.gen_field_access = tag("GFieldAccess")
            g.gen_conditional = tag("GConditional")
            g.gen_is_expr = tag("GIs")
            g.gen_logical_expr = tag("GLogical")
            g.gen_equality_expr = tag("GEquality")
            g.gen_comparison_expr = tag("GComparison")
            g.gen_array_expr = tag("GArray")
            g.gen_assignment = tag("GAssignment")
            from src.ir import types as tp
            cls_t = tp.SimpleClassifier("Foo")
            kinds = [("void", f.get_void_type(), True, False, "CNone"),
                     ("bool", f.get_boolean_type(), False, True, "CScalar"),
                     ("int", f.get_integer_type(), False, False, "CScalar"),
                     ("string", f.get_string_type(), False, False, "CScalar"),
                     ("double", f.get_double_type(), False, False, "CScalar"),
                     ("array", f.get_array_type().new([f.get_integer_type()]), False, False, "CArray"),
                     ("class", cls_t, False, False, "CNone")]
            for _ in range(n // 4):
                name, et, is_void, is_bool, ck = rng.choice(kinds)
                md = rng.choice([1, 2, 3, 6, 8])
                depth = rng.randint(1, 2 * md + 2)
                ol, ev = rng.random() < 0.3, rng.random() < 0.4
                mv = rng.choice([0, 1, 3])
                vars_ = rng.randint(0, 4)
                cfg.limits.max_depth, cfg.limits.max_var_decls = md, mv
                g.depth = depth
                g._vars_in_context[g.namespace] = vars_
                res = g.get_generators(et, ol, True, ev)
                tags = []
                for fn in res:
                    r = fn(et)
                    if isinstance(r, str):
                        tags.append(r)
                    elif isinstance(r, ast.Constant):
                        tags.append("GConst")
                    else:
                        tags.append("?" + type(r).__name__)
                cases.append((depth, md, ol, ev, is_void, is_bool, ck, vars_, mv, tags, lang, name))
    finally:
        cfg.limits.max_depth, cfg.limits.max_var_decls = saved
    return cases


def counted_depth(n):
    return (1 if n[0] in COUNTED else 0) + max([counted_depth(k) for k in n[5]] + [0])


def array_nesting_ty(t):
    if t is None or t == ("none",):
        return 0
    if t[0] == "A":
        inner = max([array_nesting_ty(a) for a in t[2]] + [0])
        return inner + (1 if t[1] in (T.ARRAY_CID,) or t[1] >= T.EXTRA_CID else 0)
    if t[0] == "W":
        return array_nesting_ty(t[2])
    if t[0] == "V":
        return array_nesting_ty(t[3])
    return 0


def array_nesting(n):
    return max([array_nesting_ty(t) for t in n[4]] + [array_nesting(k) for k in n[5]] + [0])


def run(tier, seed, replay=None):
    rep = C.Report("C18", tier, seed, "proof")
    C.setup_repo_import(seed, ["hephaestus.py", "--iterations", "1", "--language", "kotlin"])
    import src.args  # noqa: F401
    from src.transformations.type_erasure import TypeErasure
    from src.transformations.type_overwriting import TypeOverwriting
    from src.translators.kotlin import KotlinTranslator
    from src.translators.java import JavaTranslator
    from src.translators.groovy import GroovyTranslator
    from src.translators.scala import ScalaTranslator
    from src import utils
    TR = {"kotlin": KotlinTranslator, "java": JavaTranslator, "groovy": GroovyTranslator, "scala": ScalaTranslator}
    rows = progs.config_table()
    proof_ok = C.proof_part(rep, "IR/Properties_C18.v", ["IR/Depth.vo", "IR/DepthProofs.vo", "IR/Corr18.vo"], ["IR"])
    rng = random.Random(C.sub_seed(seed, "c18"))
    # (a) direct driving
    cases = drive_get_generators(rng, 1200 if tier == "quick" else 20000)
    items = []
    unknown_tags = []
    for c in cases:
        depth, md, ol, ev, iv, ib, ck, vars_, mv, tags, lang, name = c
        if any(t.startswith("?") for t in tags):
            unknown_tags.append(c)
            continue
        items.append("(%d, %d, %s, %s, %s, %s, %s, %d, %d, %s)" % (depth, md, C.cbool(ol), C.cbool(ev), C.cbool(iv), C.cbool(ib),
                                                                 ck, vars_, mv, C.clist(tags)))
    text = (C.CASE_HEADER + "From Coq Require Import List Arith Bool.\nImport ListNotations.\nFrom Heph Require Import IR.Depth IR.Corr18.\n"
            "Definition cases : list gcase := [\n%s\n].\nEval vm_compute in (gmismatches 0 cases).\n" % ";\n".join(items))
    C.clean_cases("c18")
    rc, out = C.run_case_files([("c18_0", text)], timeout=900)["c18_0"]
    mism = []
    if rc != 0:
        rep.violation("case-file", "case file did not evaluate: %s" % out[-500:], dict(broken="c18_0", log=out[-3000:]), no_input=True)
    else:
        mism = C.parse_nat_list(C.parse_eval_outputs(out)[-1])
    C.clean_cases("c18")
    # (b) traces
    langs = {l: T.Lang(l) for l in T.LANGS}
    nper = 5 if tier == "quick" else 200
    stage_fail = {"generate": 0, "erase": 0, "overwrite": 0, "translate": 0}
    failures = []
    nprog = 0
    worst = {}
    bound_viol = []
    t0 = time.time()
    for lang in T.LANGS:
        for md in (3, 6):
            for s in range(nper):
                sd = C.sub_seed(seed, "c18prog", lang, md, s) % (2 ** 31)
                row = list(rows[rng.choice([0, 5, 10, 15])])
                row[4] = md
                progs.set_cfg(row)
                stage = "generate"
                try:
                    p = progs.generate(lang, sd)
                    nprog += 1
                    n = ir2coq.Ser(langs[lang], p).prog()
                    cd = counted_depth(n)
                    bound = 2 * md + 2 + array_nesting(n)
                    worst[(lang, md)] = max(worst.get((lang, md), 0), cd)
                    if cd > bound:
                        bound_viol.append((lang, md, sd, cd, bound))
                    stage = "translate"
                    utils.translate_program(TR[lang]("src.pkg", {"cast_numbers": False}), p)
                    stage = "erase"
                    te = TypeErasure(p, lang, None, {"timeout": 600})
                    te.transform()
                    p = te.result()
                    stage = "translate"
                    utils.translate_program(TR[lang]("src.pkg", {"cast_numbers": False}), p)
                    stage = "overwrite"
                    to = TypeOverwriting(p, lang, None, {"timeout": 600})
                    to.transform()
                    p = to.result()
                    stage = "translate"
                    utils.translate_program(TR[lang]("src.pkg", {"cast_numbers": False}), p)
                except Exception as e:      # noqa: BLE001
                    stage_fail[stage] += 1
                    tb = traceback.extract_tb(e.__traceback__)
                    failures.append(dict(lang=lang, max_depth=md, seed=sd, stage=stage, error="%s: %s" % (type(e).__name__, str(e)[:150]),
                                         where=["%s:%d" % (f.name, f.lineno) for f in tb[-4:]]))
    progs.set_cfg(rows[0])
    t_tr = time.time() - t0
    for i in mism:
        rep.violation("correspondence", "get_generators differs from the model on %s" % (cases[i],),
                      dict(case=list(cases[i]), broken="correspondence IR.Depth.get_generators vs Generator.get_generators"),
                      no_input=not (bound_viol or failures))
    for c in unknown_tags[:3]:
        rep.violation("correspondence", "get_generators returned a generator the harness cannot identify: %s" % (c,),
                      dict(case=list(c), broken="tagging of Generator.get_generators"), no_input=True)
    for (lang, md, sd, cd, bound) in bound_viol:
        rep.violation("nesting", "%s max_depth=%d seed %d: %d composite nodes on one path, the proved bound is %d" % (lang, md, sd, cd, bound),
                      dict(lang=lang, max_depth=md, seed=sd, nesting=cd, bound=bound))
    for f in failures:
        rep.violation("exception", "%s max_depth=%d seed %d: stage '%s' raised %s at %s" % (f["lang"], f["max_depth"], f["seed"], f["stage"],
                                                                                            f["error"], f["where"]), f)
    if not proof_ok and not rep.violations:
        rep.violation("proof", rep.proof_broken, dict(broken=rep.proof_broken), no_input=True)
    rep.add(evaluations=len(cases) + nprog, get_generators_cases=len(cases), distinct_nontrivial=len({tuple(c[:9]) for c in cases}),
            traces_validated_against_impl=len(cases), model_impl_mismatches=len(mism), programs=nprog, stage_failures=stage_fail,
            worst_nesting={"%s/%d" % k: v for k, v in worst.items()}, pipeline_s=round(t_tr, 1),
            rule="(a) random (type kind, depth, max_depth, only_leaves, exclude_var, variable budget) tuples driven through the real "
                 "get_generators of a Generator whose gen_* methods are tagged; (b) programs for 4 languages x max_depth in {3, 6} x "
                 "seeds go through generate -> translate -> erase -> translate -> overwrite -> translate; nesting is the number of "
                 "composite nodes on a root-to-leaf path",
            samples=[dict(case=[str(x) for x in cases[0]])],
            trusted_base=C.TRUSTED_BASE_COMMON + [
                "exception freedom and termination of the real pipeline are explored per run, not proved; the theorems are about the "
                "depth logic (get_generators model, abstract recursion scheme)"])
    rep.assumptions = ["the abstract recursion scheme (IR/Depth.v Gen) is hand-written from reading generator.py; it is tied to the code by "
                       "the measured nesting of generated programs only"]
    return rep.finish()
